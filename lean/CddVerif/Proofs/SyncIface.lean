import CddVerif.Proofs.Sync
import CddVerif.Properties.C02
/-!
# C12 on the interface model of C02 — helper lemmas

Two parts.

1. **The C12 lemmas with the laws stated at ONE interface** (`namespace Sync`, generic in the emitters).  `Sync.Laws`
   quantifies over every interface; the modelled emitters obey the round-trip law only on the C02 domain and the real
   class emitter names its class `class_name or ir["name"]`, so `Laws` cannot be instantiated as it stands.
   `_conform_filename` never calls a parser and is only ever called with the truth's interface, hence every
   `conform`-level lemma of `Proofs/Sync.lean` transfers to emitters that obey the *name* and *kind* laws at that one
   interface (`NameKindAt`): `Emitters.at` freezes the interface, the frozen emitters satisfy `Laws` for the trivial
   relation, and `conform` cannot tell the difference (`conform_at`).
2. **The instance** (`namespace SyncIface`): `Sync.Emitters` built from `Iface.emit` / `Iface.parse`, the options
   `_default_options` passes (`class_name`, `function_name`, `function_type`) and an adapter
   `rd : PyAst.Stmt → Option Iface.Top` for the direction `Top.toPy` does not give (reading a written node back).
-/
namespace Sync
open PyAst

variable {IR : Type}

/-! ## part 1 — the laws at one interface -/

/-- an empty definition of the wanted type (never emitted by the real code; the value of the frozen emitters at the
    empty name, and of the instance where the modelled emitter raises) -/
def stub (k : Kind) (n : String) : Stmt :=
  match k with
  | .cls => .cls n [] [] [] []
  | _ => .fn false n {} [] [] none

theorem stub_name (k : Kind) (n : String) : (stub k n).defName? = some n := by cases k <;> rfl
theorem stub_kind (k : Kind) (n : String) : isWanted k (stub k n) = true := by cases k <;> rfl

/-- **the name and kind laws at one interface**: every emission of `ir` under a non-empty name carries that name and is
    a `ClassDef` / (non-async) `FunctionDef` as the kind asks -/
structure NameKindAt (E : Emitters IR) (ir : IR) : Prop where
  emitName : ∀ k ft n, n ≠ "" → (E.emit k ir ft n).defName? = some n
  emitKind : ∀ k ft n, n ≠ "" → isWanted k (E.emit k ir ft n) = true

/-- the emitters frozen at one interface (`_conform_filename` is only ever given the truth's) -/
def Emitters.at (E : Emitters IR) (ir : IR) : Emitters Unit where
  parse := fun _ _ _ _ => ()
  emit := fun k _ ft n => if n = "" then stub k n else E.emit k ir ft n
  emitNew := fun k _ => E.emitNew k ir

theorem at_emit (E : Emitters IR) (ir : IR) (k : Kind) (ft : Option String) (n : String) (hn : n ≠ "") :
    (E.at ir).emit k () ft n = E.emit k ir ft n := by
  simp only [Emitters.at, hn, if_false]

theorem laws_at (E : Emitters IR) (ir : IR) (h : NameKindAt E ir) : Laws (E.at ir) (fun _ _ => True) where
  refl := fun _ => trivial
  trans := fun _ _ _ _ _ => trivial
  roundTrip := fun _ _ _ _ _ _ => trivial
  emitCongr := fun _ _ _ _ _ _ => rfl
  emitName := by
    intro k u ft n
    by_cases hn : n = ""
    · simp only [Emitters.at, hn, if_true]; exact stub_name k ""
    · rw [at_emit E ir k ft n hn]; exact h.emitName k ft n hn
  emitKind := by
    intro k u ft n
    by_cases hn : n = ""
    · simp only [Emitters.at, hn, if_true]; exact stub_kind k ""
    · rw [at_emit E ir k ft n hn]; exact h.emitKind k ft n hn

/-- `_conform_filename` sees the emitters only through the emissions of the interface it was given -/
theorem conform_at (E : Emitters IR) (k : Kind) (K : String) (hK : K ≠ "") (ir : IR) (f : Option Module) :
    conform E k [K] ir f = conform (E.at ir) k [K] () f := by
  cases f with
  | none => simp only [conform, Emitters.at]
  | some m =>
    have he : ∀ ft, (E.at ir).emit k () ft K = E.emit k ir ft K := fun ft => at_emit E ir k ft K hK
    simp only [conform, optName, List.getLast?_singleton, he]
    rfl

/-- `conform_single_cls` at one interface -/
theorem conform_cls_at (E : Emitters IR) (ir : IR) (h : NameKindAt E ir) (K : String) (hK : K ≠ "") (m : Module) (n : Stmt)
    (hf : findTop K m = some (.stmt n)) (hn : isWanted .cls n = true) :
    ∃ m' flag, conform E .cls [K] ir (some m) = .ok (some m', flag) ∧ findTop K m' = some (.stmt (E.emit .cls ir none K)) := by
  obtain ⟨m', flag, c1, c2⟩ := conform_single_cls (E.at ir) _ (laws_at E ir h) K () m n hf hn
  rw [← conform_at E .cls K hK ir] at c1
  rw [at_emit E ir .cls none K hK] at c2
  exact ⟨m', flag, c1, c2⟩

/-- `conform_single_append` at one interface -/
theorem conform_append_at (E : Emitters IR) (ir : IR) (h : NameKindAt E ir) (k : Kind) (K : String) (hK : K ≠ "") (m : Module)
    (hf : findTop K m = none) :
    conform E k [K] ir (some m) = .ok (some (m ++ [E.emit k ir none K]), true) ∧
      findTop K (m ++ [E.emit k ir none K]) = some (.stmt (E.emit k ir none K)) := by
  obtain ⟨c1, c2⟩ := conform_single_append (E.at ir) _ (laws_at E ir h) k K () m hf
  rw [← conform_at E k K hK ir, at_emit E ir k none K hK] at c1
  rw [at_emit E ir k none K hK] at c2
  exact ⟨c1, c2⟩

/-- `conform_single_idem` at one interface -/
theorem conform_idem_at (E : Emitters IR) (ir : IR) (h : NameKindAt E ir) (k : Kind) (K : String) (hK : K ≠ "") (m : Module)
    (f' : Option Module) (flag : Bool) (hc : conform E k [K] ir (some m) = .ok (f', flag))
    (hcase : k = .cls ∨ f' = some m ∨ findTop K m = none) : ∃ flag', conform E k [K] ir f' = .ok (f', flag') := by
  rw [conform_at E k K hK ir] at hc
  obtain ⟨b, hb⟩ := conform_single_idem (E.at ir) _ (laws_at E ir h) k K () m f' flag hc hcase
  exact ⟨b, by rw [conform_at E k K hK ir]; exact hb⟩

/-- the values `_default_options` can pass as `function_type` -/
def ftRange : List (Option String) := [none, some "static", some "self", some "cls"]

theorem functionType_range (f : Found) (t : String) (h : functionType f = .ok t) : some t ∈ ftRange := by
  cases f with
  | stmt s =>
    cases s with
    | fn a n args b d r =>
      cases a with
      | true => simp [functionType] at h
      | false =>
        simp only [functionType] at h
        cases hargs : args.args with
        | nil => simp only [hargs, Except.ok.injEq] at h; subst h; simp [ftRange]
        | cons x xs =>
          simp only [hargs] at h
          by_cases hx : (x.name == "self" || x.name == "cls") = true
          · simp only [hx, if_true, Except.ok.injEq] at h
            subst h
            simp only [Bool.or_eq_true, beq_iff_eq] at hx
            rcases hx with hx | hx <;> simp [ftRange, hx]
          · simp only [hx, Bool.false_eq_true, if_false, Except.ok.injEq] at h
            subst h; simp [ftRange]
    | _ => simp [functionType] at h
  | _ => simp [functionType] at h

theorem optFunctionType_range (k : Kind) (found : Option Found) (ft : Option String)
    (h : optFunctionType k found = .ok ft) : ft ∈ ftRange := by
  cases found with
  | none => cases k <;> (simp only [optFunctionType, Except.ok.injEq] at h; subst h; simp [ftRange])
  | some f =>
    cases k with
    | cls => simp only [optFunctionType, Except.ok.injEq] at h; subst h; simp [ftRange]
    | argparse =>
      simp only [optFunctionType] at h
      cases hf : functionType f with
      | error e => simp [hf] at h
      | ok t => simp only [hf, Except.ok.injEq] at h; subst h; exact functionType_range f t hf
    | function =>
      simp only [optFunctionType] at h
      cases hf : functionType f with
      | error e => simp [hf] at h
      | ok t => simp only [hf, Except.ok.injEq] at h; subst h; exact functionType_range f t hf

/-- two interfaces that are emitted identically under the target's name are conformed identically (`Laws.emitCongr`,
    asked only of the two interfaces at hand and of the function types `_default_options` can pass) -/
theorem conform_congr_at (E : Emitters IR) (k : Kind) (K : String) (ir ir' : IR) (m : Module)
    (h : ∀ ft ∈ ftRange, E.emit k ir ft K = E.emit k ir' ft K) :
    conform E k [K] ir (some m) = conform E k [K] ir' (some m) := by
  simp only [conform, optName, List.getLast?_singleton]
  cases findInAst [K] m with
  | error e => rfl
  | ok found =>
    simp only
    cases hft : optFunctionType k found with
    | error e => rfl
    | ok ft =>
      simp only [h ft (optFunctionType_range k found ft hft)]
      rfl

/-- what the truth's own target holds after its file was conformed to its own interface `ir`: for a class, the parse of
    the re-emission; for the function kinds the very same interface (the `FunctionDef` is never replaced) -/
def rereadTruth (E : Emitters IR) (t : Kind) (K : String) (ir : IR) : IR :=
  match t with
  | .cls => E.parse .cls (E.emit .cls ir none K) none K
  | _ => ir

/-- `truth_unchanged` with the interface that is read back made explicit -/
theorem truth_reread_at (E : Emitters IR) (t : Kind) (K : String) (hK : K ≠ "") (ir0 : IR) (h : NameKindAt E ir0) (m : Module)
    (f' : Option Module) (flag : Bool)
    (h0 : targetIR E t [K] (some m) = .ok ir0) (hc : conform E t [K] ir0 (some m) = .ok (f', flag)) :
    targetIR E t [K] f' = .ok (rereadTruth E t K ir0) := by
  simp only [targetIR_single] at h0
  split at h0
  · cases h0
  · rename_i f hfind
    split at h0
    · cases h0
    · rename_i ft hft
      split at h0
      · rename_i n
        split at h0
        · rename_i hw
          cases h0
          by_cases hk : t = .cls
          · subst hk
            obtain ⟨m', flag', c1, c2⟩ := conform_cls_at E _ h K hK m n hfind hw
            rw [c1] at hc; cases hc
            have hw' := h.emitKind .cls none K hK
            simp only [optFunctionType, Except.ok.injEq] at hft
            subst hft
            simp [targetIR_single, c2, optFunctionType, hw', rereadTruth]
          · obtain ⟨m', c1, c2⟩ := conform_single_fn_keeps E t K _ m n hfind (isSyncFn_of_wanted_fn t n hk hw) f' flag hc
            subst c1
            have : rereadTruth E t K (E.parse t n ft K) = E.parse t n ft K := by cases t <;> first | rfl | exact absurd rfl hk
            rw [this]
            simp [targetIR_single, c2, hft, hw]
        · cases h0
      · cases h0

/-! ### the three sync-level theorems of `Properties/C12.lean`, with the laws asked at the truth's interface only -/

/-- `C12.C12_partial_class` from the name / kind laws and the round trip **at the truth's interface** -/
theorem partial_class_at (E : Emitters IR) (R : IR → IR → Prop) (t : Kind) (tp : List String)
    (paths : Kind → List String) (s : Files) (ir0 : IR) (K : String) (m : Module) (n : Stmt)
    (h : NameKindAt E ir0) (hK : K ≠ "") (hr : ∀ ft, R (E.parse .cls (E.emit .cls ir0 none K) ft K) ir0)
    (h0 : targetIR E t tp (s.get t) = .ok ir0) (hok : (sync E t tp paths s).err = none)
    (hp : paths .cls = [K]) (hm : s.cls = some m) (hf : findInAst [K] m = .ok (some (.stmt n))) (hn : isWanted .cls n = true) :
    Holds E R .cls [K] ((sync E t tp paths s).files.get .cls) ir0 := by
  obtain ⟨ir, fa, ba, fc, bc, ff, bf, e0, _, e2, _, e4, _⟩ := sync_ok E t tp paths s hok
  rw [h0] at e0; cases e0
  rw [e4, hp, hm] at *
  simp only [Files.get]
  rw [findInAst_single] at hf
  simp only [Except.ok.injEq] at hf
  obtain ⟨m', flag, c1, c2⟩ := conform_cls_at E ir0 h K hK m n hf hn
  rw [c1] at e2; cases e2
  exact holds_of_found E R .cls K m' _ ir0 c2 (h.emitKind .cls none K hK) hr

/-- `C12.C12_partial_created` from the name / kind laws and the round trip at the truth's interface -/
theorem partial_created_at (E : Emitters IR) (R : IR → IR → Prop) (t : Kind) (tp : List String)
    (paths : Kind → List String) (s : Files) (ir0 : IR) (k : Kind) (K : String) (m : Module)
    (h : NameKindAt E ir0) (hK : K ≠ "") (hr : ∀ ft, R (E.parse k (E.emit k ir0 none K) ft K) ir0)
    (h0 : targetIR E t tp (s.get t) = .ok ir0) (hok : (sync E t tp paths s).err = none)
    (hp : paths k = [K]) (hm : s.get k = some m) (hf : findInAst [K] m = .ok none) :
    (sync E t tp paths s).files.get k = some (m ++ [E.emit k ir0 none K]) ∧
      Holds E R k [K] ((sync E t tp paths s).files.get k) ir0 := by
  obtain ⟨ir, fa, ba, fc, bc, ff, bf, e0, e1, e2, e3, e4, _⟩ := sync_ok E t tp paths s hok
  rw [h0] at e0; cases e0
  rw [findInAst_single] at hf
  simp only [Except.ok.injEq] at hf
  obtain ⟨c1, c2⟩ := conform_append_at E ir0 h k K hK m hf
  have hw := h.emitKind k none K hK
  have key : (sync E t tp paths s).files.get k = some (m ++ [E.emit k ir0 none K]) := by
    rw [e4]
    cases k
    · simp only [Files.get] at hm ⊢; rw [hp, hm, c1] at e1; cases e1; rfl
    · simp only [Files.get] at hm ⊢; rw [hp, hm, c1] at e2; cases e2; rfl
    · simp only [Files.get] at hm ⊢; rw [hp, hm, c1] at e3; cases e3; rfl
  refine ⟨key, ?_⟩
  rw [key]
  exact holds_of_found E R k K _ _ ir0 c2 hw hr

/-- `C12.sync_idempotent` with `Laws.emitCongr` replaced by the one instance the proof uses: the interface re-read from
    the truth's target after the first run is emitted like the first one.  For a function / argparse truth that
    interface IS the first one (`rereadTruth`), so the hypothesis `hfix` is then `rfl`. -/
theorem sync_idempotent_at (E : Emitters IR) (t : Kind) (paths : Kind → List String)
    (names : Kind → String) (hp : ∀ k, paths k = [names k]) (hne : ∀ k, names k ≠ "") (s : Files) (ms : Kind → Module)
    (hs : ∀ k, s.get k = some (ms k)) (ir0 : IR) (h0 : targetIR E t (paths t) (s.get t) = .ok ir0) (h : NameKindAt E ir0)
    (hok : (sync E t (paths t) paths s).err = none)
    (hc : ∀ k, k = .cls ∨ (sync E t (paths t) paths s).files.get k = s.get k ∨ findInAst (paths k) (ms k) = .ok none)
    (hfix : ∀ k, ∀ ft ∈ ftRange, E.emit k (rereadTruth E t (names t) ir0) ft (names k) = E.emit k ir0 ft (names k)) :
    (sync E t (paths t) paths (sync E t (paths t) paths s).files).files = (sync E t (paths t) paths s).files ∧
    (sync E t (paths t) paths (sync E t (paths t) paths s).files).err = none := by
  obtain ⟨ir, fa, ba, fc, bc, ff, bf, e0, e1, e2, e3, e4, _⟩ := sync_ok E t (paths t) paths s hok
  rw [h0] at e0; cases e0
  have ha := hs .argparse; have hcl := hs .cls; have hfn := hs .function
  simp only [Files.get] at ha hcl hfn
  rw [e4] at hc ⊢
  rw [hp] at e1 e2 e3
  rw [ha] at e1; rw [hcl] at e2; rw [hfn] at e3
  have idem : ∀ k f' b, conform E k [names k] ir0 (some (ms k)) = .ok (f', b) →
      (k = .cls ∨ f' = some (ms k) ∨ findInAst [names k] (ms k) = .ok none) → ∃ b', conform E k [names k] ir0 f' = .ok (f', b') := by
    intro k f' b hcf hcase
    refine conform_idem_at E ir0 h k _ (hne k) _ f' b hcf ?_
    rcases hcase with h1 | h1 | h1
    · exact Or.inl h1
    · exact Or.inr (Or.inl h1)
    · rw [findInAst_single] at h1
      simp only [Except.ok.injEq] at h1
      exact Or.inr (Or.inr h1)
  have i1 : ∃ b, conform E .argparse [names .argparse] ir0 fa = .ok (fa, b) := by
    refine idem .argparse fa ba e1 ?_
    rcases hc .argparse with h' | h' | h'
    · cases h'
    · simp only [Files.get] at h'; rw [ha] at h'; exact Or.inr (Or.inl h')
    · rw [hp] at h'; exact Or.inr (Or.inr h')
  have i2 : ∃ b, conform E .cls [names .cls] ir0 fc = .ok (fc, b) := idem .cls fc bc e2 (Or.inl rfl)
  have i3 : ∃ b, conform E .function [names .function] ir0 ff = .ok (ff, b) := by
    refine idem .function ff bf e3 ?_
    rcases hc .function with h' | h' | h'
    · cases h'
    · simp only [Files.get] at h'; rw [hfn] at h'; exact Or.inr (Or.inl h')
    · rw [hp] at h'; exact Or.inr (Or.inr h')
  obtain ⟨b1, i1⟩ := i1; obtain ⟨b2, i2⟩ := i2; obtain ⟨b3, i3⟩ := i3
  obtain ⟨ma, rfl⟩ := conform_some E _ _ _ _ _ _ e1
  obtain ⟨mc, rfl⟩ := conform_some E _ _ _ _ _ _ e2
  obtain ⟨mf, rfl⟩ := conform_some E _ _ _ _ _ _ e3
  -- the interface read from the truth file after the first run
  have t1 : targetIR E t (paths t) (({ argparse := some ma, cls := some mc, function := some mf } : Files).get t)
      = .ok (rereadTruth E t (names t) ir0) := by
    have e0' := h0
    rw [hp t, hs t] at e0'
    rw [hp t]
    cases t
    · simp only [Files.get]; exact truth_reread_at E .argparse _ (hne _) ir0 h _ _ ba e0' e1
    · simp only [Files.get]; exact truth_reread_at E .cls _ (hne _) ir0 h _ _ bc e0' e2
    · simp only [Files.get]; exact truth_reread_at E .function _ (hne _) ir0 h _ _ bf e0' e3
  have r1 := (conform_congr_at E .argparse (names .argparse) _ ir0 ma (hfix .argparse)).trans i1
  have r2 := (conform_congr_at E .cls (names .cls) _ ir0 mc (hfix .cls)).trans i2
  have r3 := (conform_congr_at E .function (names .function) _ ir0 mf (hfix .function)).trans i3
  rw [← hp] at r1 r2 r3
  rw [sync_of_ok E t (paths t) paths _ _ _ _ _ b1 b2 b3 t1 r1 r2 r3]
  exact ⟨rfl, rfl⟩

end Sync

/-! ## part 2 — the instance: `Sync.Emitters` from the interface model of C02 -/
namespace SyncIface
open Iface Sync

def fmt : Kind → Format
  | .argparse => .argparse
  | .cls => .class_
  | .function => .function

/-- the interface `ground_truth` holds: what the truth kind's parser returned, or the exception the model raised
    (the latter never arises under the hypotheses of the theorems) -/
abbrev SIR := Except String IR

def _root_.Iface.Top.withName (n : String) : Top → Top
  | .cls _ b body => .cls n b body
  | .fn _ a body r => .fn n a body r

def _root_.Iface.Top.name : Top → String
  | .cls n _ _ => n
  | .fn n _ _ _ => n

/-- `X or intermediate_repr["name"]` for the option `X` (`class_name`, `function_name`), which sync always passes -/
def pickName (n : String) (o : Option String) : Option String := if n = "" then o else some n

/-- `function_type or intermediate_repr["type"]` -/
def pickType (ft o : Option String) : Option String :=
  match ft with
  | some x => some x
  | none => o

/-- the interface as the emitter of kind `k` reads it under the options of `_default_options` -/
def sent (k : Kind) (ft : Option String) (n : String) (ir : IR) : IR :=
  match k with
  | .cls => { ir with name := pickName n ir.name }
  | .function => { ir with name := pickName n ir.name, type := pickType ft ir.type }
  | .argparse => ir

/-- the environment of the instance: the docstring layer and CPython's expression parser (`Iface.Env`), the emitter
    configuration (`sync` passes none: `{}`), and the adapter from a written node back to the structured subset -/
structure Inst where
  env : Env
  cfg : Cfg := {}
  /-- `ast.parse(to_code(node))` restricted to the subset: the direction `Top.toPy` does not give -/
  rd : PyAst.Stmt → Option Top

/-- `emit_func(ir, **_default_options(node, search, type_wanted)())`; the argparse emitter of the model writes the
    default `function_name`, the option renames it -/
def emitTop (I : Inst) (k : Kind) (ir : IR) (ft : Option String) (n : String) : Except String Top :=
  match k with
  | .argparse => (emit I.env .argparse I.cfg ir).map (Top.withName ((pickName n ir.name).getD ""))
  | .cls => emit I.env .class_ I.cfg (sent .cls ft n ir)
  | .function => emit I.env .function I.cfg (sent .function ft n ir)

/-- `emit_func(ir, emit_default_doc=False)` -/
def emitNewTop (I : Inst) (k : Kind) (ir : IR) : Except String Top :=
  emit I.env (fmt k) { I.cfg with emitDefaultDoc := false } ir

def render (k : Kind) (n : String) : Except String Top → PyAst.Stmt
  | .ok t => t.toPy
  | .error _ => stub k n

/-- `"name": X or node.name`, `"type": function_type or found_type` -/
def readOpts (k : Kind) (ft : Option String) (n : String) (ir : IR) : IR :=
  match k with
  | .cls => { ir with name := pickName n ir.name }
  | _ => { ir with name := pickName n ir.name, type := pickType ft ir.type }

/-- `parse_func(node, **_default_options(...)())`: `class_` (via `find_ast_type`) and `function` assert that the node
    carries the requested name, `argparse_ast` does not -/
def parseTop (I : Inst) (k : Kind) (t : Top) (ft : Option String) (n : String) : SIR :=
  if k ≠ .argparse ∧ t.name ≠ n then .error "AssertionError"
  else (parse I.env (fmt k) t).map (readOpts k ft n)

/-- **the instance** -/
def iface (I : Inst) : Emitters SIR where
  parse := fun k s ft n =>
    match I.rd s with
    | some t => parseTop I k t ft n
    | none => .error "unsupported: node outside the structured subset"
  emit := fun k sir ft n =>
    match sir with
    | .ok ir => render k n (emitTop I k ir ft n)
    | .error _ => stub k n
  emitNew := fun k sir =>
    match sir with
    | .ok ir => render k "" (emitNewTop I k ir)
    | .error _ => stub k ""

/-! ### shapes of the emitted nodes -/

theorem emitClass_shape (env : Env) (cfg : Cfg) (ir : IR) (t : Top) (h : emitClass env cfg ir = .ok t) :
    ∃ n body, t = .cls n cfg.classBases body ∧ ir.name = some n := by
  unfold emitClass at h
  cases hn : ir.name with
  | none => simp [hn] at h
  | some n =>
    simp only [hn, bind, Except.bind] at h
    cases hm : (mergedParams ir).mapM (param2ast env) with
    | error e => simp [hm] at h
    | ok attrs =>
      simp only [hm, pure, Except.pure, Except.ok.injEq] at h
      exact ⟨n, _, h.symm, rfl⟩

theorem emitFunction_shape (env : Env) (cfg : Cfg) (ir : IR) (t : Top) (h : emitFunction env cfg ir = .ok t) :
    ∃ n a body r, t = .fn n a body r ∧ ir.name = some n := by
  unfold emitFunction at h
  by_cases hk : (ir.params.any (fun kv => endsWith kv.1 "kwargs")) = true
  · simp [hk, bind, Except.bind] at h
  · cases hn : ir.name with
    | none => simp [hk, hn] at h
    | some n =>
      simp only [hk, hn, bind, Except.bind, pure, Except.pure, Bool.false_eq_true, ↓reduceIte] at h
      cases hm : ir.params.mapM (fnParam cfg) with
      | error e => simp [hm] at h
      | ok ps =>
        simp only [hm] at h
        cases hr : fnReturn env ir with
        | error e => simp [hr] at h
        | ok ret =>
          simp only [hr, Except.ok.injEq] at h
          exact ⟨n, _, _, _, h.symm, rfl⟩

theorem emitArgparse_shape (env : Env) (cfg : Cfg) (ir : IR) (t : Top) (h : emitArgparse env cfg ir = .ok t) :
    ∃ a body r, t = .fn "set_cli_args" a body r := by
  unfold emitArgparse at h
  simp only [bind, Except.bind] at h
  cases hm : ir.params.mapM (param2argparse env cfg.emitDefaultDoc) with
  | error e => simp [hm] at h
  | ok adds =>
    simp only [hm] at h
    cases hr : argparseReturn env ir with
    | error e => simp [hr] at h
    | ok ret =>
      simp only [hr, pure, Except.pure, Except.ok.injEq] at h
      exact ⟨_, _, _, h.symm⟩

theorem pickName_ne (n : String) (o : Option String) (hn : n ≠ "") : pickName n o = some n := by
  simp [pickName, hn]

/-- what `emitTop` returns is a class for the class kind, a function for the two others, under the requested name -/
theorem emitTop_shape (I : Inst) (k : Kind) (ir : IR) (ft : Option String) (n : String) (hn : n ≠ "") (t : Top)
    (h : emitTop I k ir ft n = .ok t) :
    t.name = n ∧ (match k, t with | .cls, .cls .. => True | .argparse, .fn .. => True | .function, .fn .. => True | _, _ => False) := by
  cases k with
  | cls =>
    obtain ⟨n', body, rfl, hn'⟩ := emitClass_shape _ _ _ t h
    simp only [sent, pickName_ne n _ hn, Option.some.injEq] at hn'
    exact ⟨hn'.symm, trivial⟩
  | function =>
    obtain ⟨n', a, body, r, rfl, hn'⟩ := emitFunction_shape _ _ _ t h
    simp only [sent, pickName_ne n _ hn, Option.some.injEq] at hn'
    exact ⟨hn'.symm, trivial⟩
  | argparse =>
    simp only [emitTop, emit] at h
    cases he : emitArgparse I.env I.cfg ir with
    | error e => simp [he, Except.map] at h
    | ok t0 =>
      obtain ⟨a, body, r, rfl⟩ := emitArgparse_shape _ _ _ t0 he
      simp only [he, Except.map, Except.ok.injEq, Top.withName, pickName_ne n _ hn, Option.getD_some] at h
      subst h
      exact ⟨rfl, trivial⟩

theorem toPy_name (t : Top) : t.toPy.defName? = some t.name := by cases t <;> rfl

/-- **`Laws.emitName` and `Laws.emitKind` hold of the instance at every interface**, for every non-empty name -/
theorem nameKind (I : Inst) (sir : SIR) : NameKindAt (iface I) sir where
  emitName := by
    intro k ft n hn
    cases sir with
    | error e => exact stub_name k n
    | ok ir =>
      simp only [iface]
      cases h : emitTop I k ir ft n with
      | error e => exact stub_name k n
      | ok t => simp only [render, toPy_name, (emitTop_shape I k ir ft n hn t h).1]
  emitKind := by
    intro k ft n hn
    cases sir with
    | error e => exact stub_kind k n
    | ok ir =>
      simp only [iface]
      cases h : emitTop I k ir ft n with
      | error e => exact stub_kind k n
      | ok t =>
        have := (emitTop_shape I k ir ft n hn t h).2
        cases k <;> cases t <;> simp_all [render, Top.toPy, isWanted]

/-! ### the round trip of the instance, from the C02 theorems -/

theorem roundTrip_split (env : Env) (f : Format) (cfg : Cfg) (ir : IR) (v : List PV × Option PV)
    (h : C02.roundTrip env f cfg ir = .ok v) :
    ∃ t ir', emit env f cfg ir = .ok t ∧ parse env f t.reparse = .ok ir' ∧ ir'.view = v := by
  unfold C02.roundTrip at h
  cases he : emit env f cfg ir with
  | error e => rw [he] at h; cases h
  | ok t =>
    rw [he] at h
    simp only [bind, Except.bind] at h
    cases hp : parse env f t.reparse with
    | error e => rw [hp] at h; cases h
    | ok ir' =>
      rw [hp] at h
      simp only [pure, Except.pure] at h
      refine ⟨t, ir', rfl, hp, ?_⟩
      cases h; rfl

theorem readOpts_view (k : Kind) (ft : Option String) (n : String) (ir : IR) : (readOpts k ft n ir).view = ir.view := by
  cases k <;> rfl

theorem norm_sent_view (k : Kind) (ft : Option String) (n : String) (ir : IR) :
    (C02.norm (fmt k) (sent k ft n ir)).view = (C02.norm (fmt k) ir).view := by
  cases k <;> rfl

theorem reparse_name (t : Top) : t.reparse.name = t.name := by cases t <;> rfl
theorem reparse_withName (n : String) (t : Top) : (t.withName n).reparse = t.reparse.withName n := by cases t <;> rfl

/-- the argparse parser reads the function's name only to record it -/
theorem argparseStep_name (env : Env) (d : IR) (raw : String) (nm : Option String) (ir : IR) (s : Stmt) :
    argparseStep env d raw { ir with name := nm } s = (argparseStep env d raw ir s).map (fun r => { r with name := nm }) := by
  cases s with
  | addArg a =>
    simp only [argparseStep, bind, Except.bind]
    cases parseOutParam env a with
    | error e => rfl
    | ok np =>
      obtain ⟨name, p⟩ := np
      simp only
      split <;> rfl
  | descr c =>
    simp only [argparseStep]
    cases c with
    | none => rfl
    | val v => cases v <;> rfl
  | retTuple e =>
    simp only [argparseStep, bind, Except.bind]
    cases parseReturn env d raw e <;> rfl
  | _ => rfl

theorem argparseFold_name (env : Env) (d : IR) (raw : String) (nm : Option String) :
    ∀ (l : List Stmt) (ir : IR),
      l.foldlM (argparseStep env d raw) { ir with name := nm } =
        (l.foldlM (argparseStep env d raw) ir).map (fun r => { r with name := nm })
  | [], ir => rfl
  | s :: rest, ir => by
    rw [List.foldlM_cons, List.foldlM_cons, argparseStep_name]
    cases hs : argparseStep env d raw ir s with
    | error e => rfl
    | ok ir1 =>
      simp only [Except.map, bind, Except.bind]
      exact argparseFold_name env d raw nm rest ir1

theorem parseArgparse_withName (env : Env) (n : String) (t : Top) (ir' : IR) (h : parseArgparse env t = .ok ir') :
    parseArgparse env (t.withName n) = .ok { ir' with name := some n } := by
  cases t with
  | cls c b body => simp [parseArgparse] at h
  | fn fname args body r =>
    simp only [parseArgparse, Top.withName] at h ⊢
    cases hd : (splitDoc body).1 with
    | none => simp [hd] at h
    | some raw =>
      simp only [hd] at h ⊢
      have := argparseFold_name env (env.docParse .argparse raw) raw (some n) (splitDoc body).2
        { name := some fname, type := some (foundTypeOf args.args), doc := "", params := [], returns := none }
      simp only at this
      rw [this, h]
      rfl

/-- the written node is read back as `Top.reparse` says (decidable for a concrete adapter) -/
def readsBack (I : Inst) (k : Kind) (ir : IR) (K : String) : Bool :=
  match emitTop I k ir none K with
  | .ok t => I.rd t.toPy == some t.reparse
  | .error _ => false

/-- **the C02 hypotheses of the truth interface `ir` for a target of kind `k` named `K`** (decidable): the interface, as
    the kind's emitter reads it, lies in the C02 domain of the kind's format; the docstring layer round-trips on it;
    and the adapter reads the emitted node back -/
def dom (I : Inst) (k : Kind) (K : String) (ir : IR) : Bool :=
  inD02 I.env (fmt k) I.cfg (sent k none K ir) && docHyp I.env (fmt k) I.cfg (sent k none K ir) && readsBack I k ir K

/-- **`Laws.roundTrip` of the instance on the C02 domain**: the emission of `ir` as a new target `K` of kind `k`, parsed
    back with any `function_type`, succeeds and shows the view of `ir` up to the statement's normalisation for the format -/
theorem roundTrip (I : Inst) (hEnv : EnvOK I.env) (k : Kind) (K : String) (hK : K ≠ "") (ir : IR) (hD : dom I k K ir = true)
    (ft' : Option String) :
    ∃ ir', (iface I).parse k ((iface I).emit k (.ok ir) none K) ft' K = .ok ir' ∧ ir'.view = (C02.norm (fmt k) ir).view := by
  simp only [dom, Bool.and_eq_true] at hD
  obtain ⟨⟨hD, hH⟩, hR⟩ := hD
  have hrt : C02.roundTrip I.env (fmt k) I.cfg (sent k none K ir) = .ok (C02.norm (fmt k) (sent k none K ir)).view := by
    cases k with
    | cls => exact C02.C02_class I.env hEnv I.cfg _ hD hH
    | function => exact C02.C02_function I.env I.cfg _ hD hH
    | argparse => exact C02.C02_argparse I.env I.cfg _ hD hH
  obtain ⟨t, ir', he, hp, hv⟩ := roundTrip_split _ _ _ _ _ hrt
  rw [norm_sent_view] at hv
  -- the node the instance emits, and what the adapter reads back
  have key : ∃ t1 ir1, emitTop I k ir none K = .ok t1 ∧ t1.name = K ∧ parse I.env (fmt k) t1.reparse = .ok ir1 ∧ ir1.view = ir'.view := by
    cases k with
    | cls => exact ⟨t, ir', he, (emitTop_shape I .cls ir none K hK t he).1, hp, rfl⟩
    | function => exact ⟨t, ir', he, (emitTop_shape I .function ir none K hK t he).1, hp, rfl⟩
    | argparse =>
      have he' : emitTop I .argparse ir none K = .ok (t.withName K) := by
        simp only [emitTop, sent, fmt] at he ⊢
        rw [he]
        simp [Except.map, pickName_ne K _ hK]
      refine ⟨t.withName K, { ir' with name := some K }, he', (emitTop_shape I .argparse ir none K hK _ he').1, ?_, rfl⟩
      rw [reparse_withName]
      exact parseArgparse_withName I.env K _ ir' hp
  obtain ⟨t1, ir1, e1, e2, e3, e4⟩ := key
  simp only [readsBack, e1, beq_iff_eq] at hR
  refine ⟨readOpts k ft' K ir1, ?_, by rw [readOpts_view, e4, hv]⟩
  simp only [iface, e1, render, hR, parseTop, reparse_name, e2, ne_eq, not_true_eq_false, and_false, if_false, e3, Except.map]

/-! ### a file that does not exist: `emit_func(ir, emit_default_doc=False)` -/

def readsBackNew (I : Inst) (k : Kind) (ir : IR) : Bool :=
  match emitNewTop I k ir with
  | .ok t => I.rd t.toPy == some t.reparse
  | .error _ => false

/-- the C02 hypotheses for a created class / argparse file; the created definition carries the TRUTH's name (class) or
    `set_cli_args` (argparse), so it is the named target only when that is the target's name -/
def domNew (I : Inst) (k : Kind) (K : String) (ir : IR) : Bool :=
  (match k with | .cls => ir.name == some K | .argparse => K == "set_cli_args" | .function => false) &&
  inD02 I.env (fmt k) { I.cfg with emitDefaultDoc := false } ir && docHyp I.env (fmt k) { I.cfg with emitDefaultDoc := false } ir &&
  readsBackNew I k ir

theorem roundTripNew (I : Inst) (hEnv : EnvOK I.env) (k : Kind) (K : String) (ir : IR) (hD : domNew I k K ir = true) :
    ((iface I).emitNew k (.ok ir)).defName? = some K ∧ isWanted k ((iface I).emitNew k (.ok ir)) = true ∧
    ∀ ft', ∃ ir', (iface I).parse k ((iface I).emitNew k (.ok ir)) ft' K = .ok ir' ∧ ir'.view = (C02.norm (fmt k) ir).view := by
  simp only [domNew, Bool.and_eq_true] at hD
  obtain ⟨⟨⟨hN, hD⟩, hH⟩, hR⟩ := hD
  have hrt : C02.roundTrip I.env (fmt k) { I.cfg with emitDefaultDoc := false } ir = .ok (C02.norm (fmt k) ir).view := by
    cases k with
    | cls => exact C02.C02_class I.env hEnv _ _ hD hH
    | function => exact C02.C02_function I.env _ _ hD hH
    | argparse => exact C02.C02_argparse I.env _ _ hD hH
  obtain ⟨t, ir', he, hp, hv⟩ := roundTrip_split _ _ _ _ _ hrt
  have he' : emitNewTop I k ir = .ok t := he
  simp only [readsBackNew, he', beq_iff_eq] at hR
  have hname : t.name = K ∧ isWanted k t.toPy = true := by
    cases k with
    | cls =>
      obtain ⟨n', body, rfl, hn'⟩ := emitClass_shape _ _ _ t he
      simp only [beq_iff_eq] at hN
      rw [hN] at hn'
      simp only [Option.some.injEq] at hn'
      exact ⟨hn'.symm, rfl⟩
    | argparse =>
      obtain ⟨a, body, r, rfl⟩ := emitArgparse_shape _ _ _ t he
      simp only [beq_iff_eq] at hN
      exact ⟨hN.symm, rfl⟩
    | function => simp at hN
  refine ⟨by simp only [iface, he', render, toPy_name, hname.1], by simp only [iface, he', render, hname.2], fun ft' => ?_⟩
  refine ⟨readOpts k ft' K ir', ?_, by rw [readOpts_view, hv]⟩
  simp only [iface, he', render, hR, parseTop, reparse_name, hname.1, ne_eq, not_true_eq_false, and_false, if_false, hp, Except.map]

/-! ### a structural adapter (used for the concrete instances)

`rd` is a parameter of the instance; this is one that reads the statement subset back through an expression parser `px`
(`env.pyExpr`: CPython) and a parser `pa` of `argument_parser.add_argument(…)` call texts. -/

def stripPrefix? (p s : String) : Option String :=
  if startsWith s p then some (String.ofList (s.toList.drop p.toList.length)) else none

def readStmt (px : String → Option Expr) (pa : String → Option AddArg) : PyAst.Stmt → Option Stmt
  | .strExpr s => some (.doc s)
  | .ann t a none => some (.ann t a none)
  | .ann t a (some v) => (px v).map (fun e => .ann t a (some e))
  | .assign ts v =>
    if ts == ["argument_parser.description"] then
      match px v with
      | some (.const c) => some (.descr c)
      | _ => none
    else none
  | .expr src => if src == "..." then some .ellipsis else (pa src).map .addArg
  | .other src =>
    if src == "return argument_parser" then some .retParser
    else match stripPrefix? "return (argument_parser, " src with
      | some rest => if endsWith rest ")" then (px (String.ofList rest.toList.dropLast)).map .retTuple else none
      | none => match stripPrefix? "return " src with
        | some rest => (px rest).map .ret
        | none => some (.other src)
  | _ => none

def readArg (a : PyAst.Arg) : Arg := { name := a.name, ann := a.ann }

def readTop (px : String → Option Expr) (pa : String → Option AddArg) : PyAst.Stmt → Option Top
  | .cls n bases [] body [] => (body.mapM (readStmt px pa)).map (Top.cls n bases)
  | .fn false n args body [] r =>
    if !args.posonly.isEmpty || args.vararg.isSome || args.kwarg.isSome then none
    else do
      let ds ← args.defaults.mapM px
      let kds ← args.kwDefaults.mapM (fun o => match o with | some v => (px v).map some | none => some none)
      let b ← body.mapM (readStmt px pa)
      some (.fn n { args := args.args.map readArg, defaults := ds, kwonly := args.kwonly.map readArg, kwDefaults := kds } b r)
  | _ => none

/-- a call-text parser from a finite table of calls -/
def paOf (l : List AddArg) (src : String) : Option AddArg :=
  (l.find? (fun a => a.text == src)).map (fun a => { a with default := a.default.map Expr.reparse })

/-- the instance of the idempotence hypothesis, as a Boolean check -/
def sameEmissions (I : Inst) (names : Kind → String) (a b : SIR) : Bool :=
  Sync.kinds.all (fun k => ftRange.all (fun ft => PyAst.Stmt.beq ((iface I).emit k a ft (names k)) ((iface I).emit k b ft (names k))))

theorem sameEmissions_eq (I : Inst) (names : Kind → String) (a b : SIR) (h : sameEmissions I names a b = true) :
    ∀ k, ∀ ft ∈ ftRange, (iface I).emit k a ft (names k) = (iface I).emit k b ft (names k) := by
  intro k ft hft
  simp only [sameEmissions, List.all_eq_true] at h
  exact stmt_beq_eq _ _ (h k (by cases k <;> simp [Sync.kinds]) ft hft)

end SyncIface
