import CddVerif.Proofs.DocGNRoundTripDomain
/-!
# NumPy-style whole-docstring round trip (C01) — emitter side

`Doc.emit … .numpydoc` without `do` notation (no return entry), the two lines of an entry, and the emitted text
`pre ++ "Parameters\n----------\n" ++ lines ++ "\n"` (types emitted, every parameter typed).
-/
namespace DocNPRT
open Py Doc DocSplit DocUtils DocRT DocGNRT

/-! ### `emit` for the NumPy style, without `do` notation (no return entry) -/

def sParams : Str := ['P','a','r','a','m','e','t','e','r','s','\n','-','-','-','-','-','-','-','-','-','-']
theorem lit_Params : argToken Doc.Style.numpydoc = sParams := by decide

def nSection (blocks : List Str) : Str := join ['\n'] (if blocks.isEmpty then blocks else sParams :: blocks)

theorem emit_numpy_eq (ir : IR) (et ww edd : Bool) (hr : ir.returns = Option.none) :
    emit ir .numpydoc et ww edd =
      match mapOut (fun np => emitParamStr np.1 np.2 .numpydoc et ww edd) ir.params with
      | .outside w => .outside w
      | .ok blocks => .ok (finish (outOf ir.doc (nSection blocks) [])) := by
  have hs1 : (Doc.Style.numpydoc == Doc.Style.rest) = false := rfl
  have hs2 : (Doc.Style.numpydoc != Doc.Style.rest) = true := rfl
  unfold emit
  simp (config := {zeta := false}) only [mapM_eq, bind, pure, hs1, hs2, Bool.and_true, Bool.false_eq_true, if_false, hr, lit_Params]
  cases mapOut (fun np => emitParamStr np.1 np.2 .numpydoc et ww edd) ir.params with
  | outside w => rfl
  | ok blocks =>
    simp (config := {zeta := false}) only []
    rw [← finishO_eq]
    unfold nSection
    cases hb : blocks.isEmpty <;> rfl

/-- the two lines of a NumPy entry -/
def nNameLine (name t : Str) : Str := name ++ [' ', ':'] ++ ([' '] ++ t)
def nDocLine (d : Str) : Str := tab ++ d

theorem indentDefault_line (d : Str) (hb : NoBreak d) (hne : d ≠ []) (hh : HeadNS d) (hl : LastNS d) :
    indentDefault d tab = tab ++ d := by
  unfold indentDefault
  rw [splitlinesKeep_noBreak d [] hb (by simpa using hne)]
  have : (strip d).isEmpty = false := by
    rw [strip_id d hh hl]; cases d with | nil => exact absurd rfl hne | cons _ _ => rfl
  simp only [List.reverse_nil, List.nil_append, List.map_cons, List.map_nil, this, Bool.false_eq_true, if_false, List.flatten_cons,
    List.flatten_nil, List.append_nil]

theorem emitParamStr_numpy (name : Str) (p : Param) (ww edd : Bool) (t d' blk : Str) (hdoc : truthy p.doc = true)
    (hs : setDefaultDoc name p edd = .ok (some d')) (hn : (name == Doc.sReturnType) = false) (ht : p.typ = some t) (htne : t ≠ [])
    (hd : indentDefault d' tab = tab ++ d')
    (h : emitParamStr name p .numpydoc true ww edd = .ok blk) :
    blk = join ['\n'] [nNameLine name t, nDocLine d'] := by
  unfold emitParamStr at h
  have htr : truthy (some t) = true := by cases t with | nil => exact absurd rfl htne | cons _ _ => rfl
  simp (config := {zeta := false}) only [bind, pure, hdoc, if_true, hs, hn, ht, htr, Bool.true_and, Bool.false_eq_true, if_false,
    Option.getD_some] at h
  simp only [hd, Bool.false_eq_true, if_false] at h
  unfold nNameLine nDocLine
  cases h1 : fillLine ww (name ++ [' ', ':'] ++ ([' '] ++ t)) with
  | outside w => rw [h1] at h; cases h
  | ok l1 =>
    rw [h1] at h
    simp (config := {zeta := false}) only [] at h
    cases h2 : fillLine ww (tab ++ d') with
    | outside w => rw [h2] at h; cases h
    | ok l2 =>
      rw [h2] at h
      have e1 := fillLine_ok ww _ l1 h1
      have e2 := fillLine_ok ww _ l2 h2
      subst e1; subst e2
      simp only [] at h
      have hne1 : (name ++ [' ', ':'] ++ ([' '] ++ t)).isEmpty = false := by simp
      have hne2 : (tab ++ d').isEmpty = false := by simp [tab]
      simp only [List.filterMap_cons, id, List.filterMap_nil, List.filter_cons, hne1, hne2, Bool.not_false, if_true, List.filter_nil] at h
      exact (Out.ok.inj h).symm

theorem join_append2 (sep : Str) (a b : List Str) (ha : a ≠ []) (hb : b ≠ []) :
    join sep (a ++ b) = join sep a ++ sep ++ join sep b := by
  induction a with
  | nil => exact absurd rfl ha
  | cons x r ih =>
    cases r with
    | nil =>
      cases b with
      | nil => exact absurd rfl hb
      | cons y r' => simp [join, join_cons2]
    | cons z r' =>
      have : (x :: z :: r') ++ b = x :: (z :: (r' ++ b)) := rfl
      rw [this, join_cons2, join_cons2]
      have ih' := ih (by simp)
      have e : z :: (r' ++ b) = (z :: r') ++ b := rfl
      rw [e, ih']; simp

/-- joining joined pairs is joining the flat list -/
theorem join_pairs (sep : Str) (ps : List (Str × Str)) :
    join sep (ps.map (fun q => join sep [q.1, q.2])) = join sep (ps.flatMap (fun q => [q.1, q.2])) := by
  induction ps with
  | nil => rfl
  | cons q r ih =>
    cases r with
    | nil => simp [join]
    | cons q' r' =>
      simp only [List.map_cons, List.flatMap_cons] at ih ⊢
      rw [join_cons2, ih, join_append2 sep [q.1, q.2] _ (by simp) (by simp)]

/-- the lines of the entries -/
def nPairs (ir : IR) (edd : Bool) : List (Str × Str) :=
  ir.params.map (fun np => (nNameLine np.1 (np.2.typ.getD []), nDocLine (docText np.2 edd)))
def nLines (ir : IR) (edd : Bool) : List Str := (nPairs ir edd).flatMap (fun q => [q.1, q.2])

/-- **the emitted NumPy docstring** (types emitted, every parameter typed, no return entry) -/
theorem emit_numpy_text (ir : IR) (ww edd : Bool) (s : Str)
    (hh : ir.doc = [] ∨ GoodHeader ir.doc) (hr : ir.returns = Option.none) (hne : ir.params ≠ [])
    (hn : ∀ np ∈ ir.params, np.1 ≠ Doc.sReturnType) (hp : ∀ np ∈ ir.params, GoodEntry np.2)
    (hty : ∀ np ∈ ir.params, ∃ t, np.2.typ = some t ∧ t ≠ [] ∧ LastNS t)
    (he : emit ir .numpydoc true ww edd = .ok s) :
    ∃ pre, ((ir.doc = [] ∧ pre = []) ∨ (GoodHeader ir.doc ∧ pre = ir.doc ++ ['\n', '\n']))
      ∧ s = pre ++ (sParams ++ ['\n'] ++ join ['\n'] (nLines ir edd)) ++ ['\n'] := by
  rw [emit_numpy_eq ir true ww edd hr] at he
  cases hm : mapOut (fun np => emitParamStr np.1 np.2 .numpydoc true ww edd) ir.params with
  | outside w => rw [hm] at he; cases he
  | ok blocks =>
    rw [hm] at he
    simp only [] at he
    have hs := Out.ok.inj he
    have hblocks : ∀ (ps : List (Str × Param)) (bs : List Str),
        (∀ np ∈ ps, np ∈ ir.params) → mapOut (fun np => emitParamStr np.1 np.2 .numpydoc true ww edd) ps = .ok bs →
        bs = ps.map (fun np => join ['\n'] [nNameLine np.1 (np.2.typ.getD []), nDocLine (docText np.2 edd)]) := by
      intro ps
      induction ps with
      | nil => intro bs _ h; simp only [mapOut] at h; cases h; rfl
      | cons np r ih =>
        intro bs hsub h
        simp only [mapOut] at h
        cases hf : emitParamStr np.1 np.2 .numpydoc true ww edd with
        | outside w => rw [hf] at h; cases h
        | ok b =>
          rw [hf] at h
          cases hm' : mapOut (fun np => emitParamStr np.1 np.2 .numpydoc true ww edd) r with
          | outside w => rw [hm'] at h; cases h
          | ok bs' =>
            rw [hm'] at h; cases h
            have hnp := hsub np (by simp)
            have g := hp np hnp
            obtain ⟨t, ht, htne, _⟩ := hty np hnp
            have gd := docText_good np.2 edd g
            have := emitParamStr_numpy np.1 np.2 ww edd t (docText np.2 edd) b (goodEntry_truthy _ g) (setDefaultDoc_good np.1 np.2 edd g)
              (by cases hb : (np.1 == Doc.sReturnType) with
                  | false => rfl
                  | true => exact absurd (beq_iff_eq.mp hb) (hn np hnp))
              ht htne (indentDefault_line _ gd.noBreak gd.ne gd.headNS gd.lastNS) hf
            rw [this, ih bs' (fun x hx => hsub x (by simp [hx])) hm']
            simp [ht]
    have hb := hblocks ir.params blocks (fun _ h => h) hm
    have hjoin : join ['\n'] blocks = join ['\n'] (nLines ir edd) := by
      rw [hb]
      have := join_pairs ['\n'] (nPairs ir edd)
      unfold nLines
      rw [← this]
      unfold nPairs
      rw [List.map_map]; rfl
    have hbne : blocks.isEmpty = false := by
      rw [hb]; cases hps : ir.params with
      | nil => exact absurd hps hne
      | cons _ _ => rfl
    have hlne : nLines ir edd ≠ [] := by
      unfold nLines nPairs
      cases hps : ir.params with
      | nil => exact absurd hps hne
      | cons _ _ => simp
    have hsec : nSection blocks = sParams ++ ['\n'] ++ join ['\n'] (nLines ir edd) := by
      unfold nSection
      rw [hbne]
      simp only [Bool.false_eq_true, if_false]
      cases hbl : blocks with
      | nil => rw [hbl] at hbne; cases hbne
      | cons b r => rw [join_cons2, ← hbl, hjoin]
    rw [hsec] at hs
    have hlast := lastNS_join ['\n'] (nLines ir edd) hlne (fun l hl => by
      unfold nLines nPairs at hl
      obtain ⟨q, hq, hlq⟩ := List.mem_flatMap.mp hl
      obtain ⟨np, hnp, rfl⟩ := List.mem_map.mp hq
      obtain ⟨t, ht, htne, htl⟩ := hty np hnp
      have g := docText_good np.2 edd (hp np hnp)
      simp only [List.mem_cons, List.not_mem_nil, or_false] at hlq
      rcases hlq with rfl | rfl
      · rw [ht]; exact ⟨by simp [nNameLine], by unfold nNameLine; exact lastNS_append _ _ (by simp) (lastNS_append _ _ htne htl)⟩
      · exact ⟨by simp [nDocLine, tab], lastNS_append _ _ g.ne g.lastNS⟩)
    have hsolid : Solid (sParams ++ ['\n'] ++ join ['\n'] (nLines ir edd)) :=
      ⟨⟨'P', _, rfl, by decide⟩, lastNS_append _ _ hlast.1 hlast.2⟩
    obtain ⟨pre, hpre, hfin⟩ := outOf_shape_solid ir.doc _ hh hsolid
    exact ⟨pre, hpre, by rw [← hs, hfin]⟩

end DocNPRT
