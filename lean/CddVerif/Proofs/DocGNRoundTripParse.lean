import CddVerif.Proofs.DocGNRoundTripEmit
import CddVerif.Proofs.DocRoundTripDomain
/-!
# Google-style whole-docstring round trip (C01) — scanner and parser side

The scan phase on the emitted text, `_parse` on one entry line, `extract_default` as the Google path calls it,
`interpolate_defaults` with the `require_default` latch and `_set_name_and_type` on the entries of the domain.
-/
namespace DocGNRT
open Py Doc DocRT DocGN

/-! ### the scan phase on the emitted text -/

/-- no character at which `str.splitlines` breaks (the `DocGN` list of boundaries) -/
def GNoBreak (s : Str) : Prop := ∀ c ∈ s, DocGN.isLineBreak c = false

theorem splitlinesAux_line (l rest acc : Str) (h : GNoBreak l) :
    DocGN.splitlinesAux (l ++ '\n' :: rest) acc = (acc.reverse ++ l) :: DocGN.splitlinesAux rest [] := by
  induction l generalizing acc with
  | nil =>
    have : DocGN.isLineBreak '\n' = true := by decide
    simp [DocGN.splitlinesAux, this]
  | cons c cs ih =>
    have hc := h c (by simp)
    have hcr : c ≠ '\r' := by rintro rfl; revert hc; decide
    rw [List.cons_append, DocGN.splitlinesAux.eq_3 _ _ _ (by intro cs' h1 _; exact hcr h1)]
    simp only [hc, Bool.false_eq_true, if_false]
    rw [ih (c :: acc) (fun d hd => h d (by simp [hd]))]
    simp

theorem splitlines_joined (ls : List Str) (hne : ls ≠ []) (h : ∀ l ∈ ls, GNoBreak l) :
    DocGN.splitlines (join ['\n'] ls ++ ['\n']) = ls := by
  unfold DocGN.splitlines
  induction ls with
  | nil => exact absurd rfl hne
  | cons x r ih =>
    cases r with
    | nil =>
      simp only [join]
      rw [show x ++ ['\n'] = x ++ '\n' :: [] from rfl, splitlinesAux_line x [] [] (h x (by simp))]
      simp [DocGN.splitlinesAux]
    | cons y r' =>
      rw [join_cons2]
      have e : x ++ ['\n'] ++ join ['\n'] (y :: r') ++ ['\n'] = x ++ '\n' :: (join ['\n'] (y :: r') ++ ['\n']) := by simp
      rw [e, splitlinesAux_line x _ [] (h x (by simp)), ih (by simp) (fun l hl => h l (by simp [hl]))]
      simp

theorem scanLines_all (fi : Nat) (ls : List Str) (st : List (List Str)) (h : ∀ l ∈ ls, indentOf l = fi) :
    scanLines fi ls st = (st ++ ls.map (fun l => [l]), Option.none) := by
  induction ls generalizing st with
  | nil => simp [scanLines]
  | cons l r ih =>
    simp only [scanLines, h l (by simp), beq_self_eq_true, if_true]
    rw [ih _ (fun x hx => h x (by simp [hx]))]
    simp

theorem retIdxAux_singletons (rev : List Str) (hrev : rev.length = 1) (st : List (List Str)) (i : Nat) (best : Option Nat)
    (h : ∀ e ∈ st, e.length = 1) : retIdxAux rev st i best = best := by
  induction st generalizing i best with
  | nil => simp [retIdxAux]
  | cons a r ih =>
    cases r with
    | nil => simp [retIdxAux]
    | cons b r' =>
      have hne : (b ++ a == rev) = false := by
        cases hb : (b ++ a == rev) with
        | false => rfl
        | true =>
          have e := beq_iff_eq.mp hb
          have := congrArg List.length e
          simp only [List.length_append, h a (by simp), h b (by simp), hrev] at this
          omega
      simp only [retIdxAux, hne, Bool.and_false, Bool.false_eq_true, if_false]
      exact ih (i + 1) best (fun e he => h e (by simp [he]))

theorem endsWith_colon_false (l : Str) (h : l.getLast? ≠ some ':') : endsWith l [':'] = false := by
  unfold endsWith
  cases hr : l.reverse with
  | nil => rfl
  | cons y ys =>
    have e : l = ys.reverse ++ [y] := by
      have := congrArg List.reverse hr
      simpa using this
    have hy : y ≠ ':' := by
      rintro rfl; apply h; rw [e]; simp
    have : (':' == y) = false := by simpa using (Ne.symm hy)
    simp [List.isPrefixOf, this]

theorem findIdx_none {α : Type} (p : α → Bool) (l : List α) (h : ∀ x ∈ l, p x = false) : l.findIdx p = l.length := by
  induction l with
  | nil => rfl
  | cons a r ih => simp [List.findIdx_cons, h a (by simp), ih (fun x hx => h x (by simp [hx]))]

/-- no earlier occurrence of `Args:` in front of the section -/
theorem noEarly_args (h : Str) (hc : contains h sArgs = false) : NoEarly sArgs (h ++ ['\n', '\n']) := by
  intro k hk
  by_cases hlt : k < h.length
  · rw [List.drop_append_of_le_length (by omega)]
    have : h.drop k ++ ['\n', '\n'] ++ sArgs = h.drop k ++ '\n' :: ('\n' :: sArgs) := by simp
    rw [this, isPrefixOf_append_of_notin _ _ _ '\n' (by decide)]
    exact C01Whole.isPrefixOf_drop_false h _ (by decide) hc k
  · have hk' : k = h.length ∨ k = h.length + 1 := by
      simp only [List.length_append, List.length_cons, List.length_nil] at hk; omega
    rcases hk' with rfl | rfl
    · rw [List.drop_left]; decide
    · have : (h ++ ['\n', '\n']).drop (h.length + 1) = ['\n'] := by
        rw [List.drop_append]; simp
      rw [this]; decide

/-- what the scanner needs to know about an emitted entry line -/
structure GScanLine (l : Str) : Prop where
  noBreak : GNoBreak l
  indent : indentOf l = 2
  last : l.getLast? ≠ some ':'

/-- **the scan phase on the emitted text**: the header, one unit per entry line, no return entry, nothing afterwards -/
theorem scan_emitted (h pre : Str) (lines : List Str)
    (hpre : (h = [] ∧ pre = []) ∨ (GoodHeader h ∧ pre = h ++ ['\n', '\n'])) (hc : contains h sArgs = false)
    (hne : lines ≠ []) (hl : ∀ l ∈ lines, GScanLine l) :
    scanPhase .google (pre ++ (sArgs ++ ['\n'] ++ join ['\n'] lines) ++ ['\n'])
      = .ok { doc := h, args := lines.map (fun l => [l]), rets := [], afterward := Option.none } := by
  have hNE : NoEarly sArgs pre := by
    rcases hpre with ⟨_, rfl⟩ | ⟨_, rfl⟩
    · intro k hk; simp at hk
    · exact noEarly_args h hc
  have hfind : find (pre ++ (sArgs ++ ['\n'] ++ join ['\n'] lines) ++ ['\n']) sArgs = some pre.length := by
    have e : pre ++ (sArgs ++ ['\n'] ++ join ['\n'] lines) ++ ['\n'] = pre ++ sArgs ++ (['\n'] ++ join ['\n'] lines ++ ['\n']) := by simp
    rw [e]; exact find_append sArgs pre _ (by decide) hNE
  have hloc : locateSection .google (pre ++ (sArgs ++ ['\n'] ++ join ['\n'] lines) ++ ['\n']) = some (pre.length, pre.length + 5, true) := by
    unfold locateSection locate
    have hlen : ¬ (sArgs.length > (pre ++ (sArgs ++ ['\n'] ++ join ['\n'] lines) ++ ['\n']).length) := by
      simp only [List.length_append, show sArgs.length = 5 from rfl]; omega
    have : argTok .google = sArgs := rfl
    simp only [this, hlen, if_false, hfind]
    rfl
  have hdrop : (pre ++ (sArgs ++ ['\n'] ++ join ['\n'] lines) ++ ['\n']).drop (pre.length + 5 + 1) = join ['\n'] lines ++ ['\n'] := by
    have e : pre ++ (sArgs ++ ['\n'] ++ join ['\n'] lines) ++ ['\n'] = (pre ++ sArgs ++ ['\n']) ++ (join ['\n'] lines ++ ['\n']) := by simp
    rw [e]; exact List.drop_left' (by simp [sArgs])
  have htake : (pre ++ (sArgs ++ ['\n'] ++ join ['\n'] lines) ++ ['\n']).take pre.length = pre := by
    rw [List.append_assoc]; exact List.take_left' rfl
  have hws : whiteSpacerScan pre = h := by
    unfold whiteSpacerScan
    rcases hpre with ⟨rfl, rfl⟩ | ⟨hg, rfl⟩
    · rfl
    · obtain ⟨c, cs, rfl⟩ : ∃ c cs, h = c :: cs := by
        cases h with
        | nil => exact absurd rfl hg.ne
        | cons c cs => exact ⟨c, cs, rfl⟩
      rw [isspace_of_mem _ c (by simp) (hg.headNS c rfl)]
      simp only [Bool.false_eq_true, if_false]
      have := strip_core [] (c :: cs) ['\n', '\n'] allSpace_nil (by intro x hx; simp at hx; subst hx; decide) hg.headNS hg.lastNS
      simpa using this
  unfold scanPhase
  rw [hloc]
  simp only [hdrop, htake, hws]
  rw [splitlines_joined lines hne (fun l hl' => (hl l hl').noBreak)]
  -- the loop over the lines
  obtain ⟨l1, r1, hlines⟩ : ∃ l1 r1, lines = l1 :: r1 := by
    cases lines with
    | nil => exact absurd rfl hne
    | cons a b => exact ⟨a, b, rfl⟩
  have hal : afterLoop .google true lines = ({ stacker := lines.map (fun l => [l]) }, lines.getLast?) := by
    subst hlines
    unfold afterLoop
    simp only []
    rw [(hl l1 (by simp)).indent, scanLines_all 2 (l1 :: r1) [] (fun l hl' => (hl l hl').indent)]
    simp
  rw [hal]
  obtain ⟨lst, hlst⟩ : ∃ lst, lines.getLast? = some lst := by
    cases hg : lines.getLast? with
    | none => exact absurd (List.getLast?_eq_none_iff.mp hg) hne
    | some x => exact ⟨x, rfl⟩
  have hcopy : copyLastLine { stacker := lines.map (fun l => [l]) } lines.getLast? = { stacker := lines.map (fun l => [l]) } := by
    rw [hlst]
    unfold copyLastLine
    have : (lines.map (fun l => [l])).getLast? = some [lst] := by
      rw [List.getLast?_map, hlst]; rfl
    simp only [this, bne_self_eq_false, Bool.false_eq_true, if_false]
  simp only [hcopy]
  unfold finishScan
  have hret : returnPhase .google { stacker := lines.map (fun l => [l]) } = .ok { stacker := lines.map (fun l => [l]) } := by
    unfold returnPhase returnStep1 retIdx
    rw [retIdxAux_singletons _ (by decide) _ 1 Option.none (by intro e he; obtain ⟨l, _, rfl⟩ := List.mem_map.mp he; rfl)]
    simp only []
    unfold returnStep2
    simp
  simp only [List.isEmpty_nil, if_true, hret]
  have hsne : (lines.map (fun l => [l])).isEmpty = false := by rw [hlines]; rfl
  simp only [hsne, Bool.false_eq_true, if_false, setNs, if_true]

/-! ### `_parse` on one emitted entry line -/

theorem endsWith_snoc (s : Str) (c : Char) : endsWith (s ++ [c]) [c] = true := by
  unfold endsWith; simp [List.isPrefixOf]

theorem googleParse_untyped (name D : Str) (hn1 : ':' ∉ name) (hn2 : '(' ∉ name) (hnh : HeadNS name) (hnl : LastNS name)
    (hdh : HeadNS D) (hdl : LastNS D) :
    googleParse1 ([' ', ' '] ++ name ++ [':', ' '] ++ D) [] = .cur name { doc := some D } := by
  unfold googleParse1
  have hfind : find ([' ', ' '] ++ name ++ [':', ' '] ++ D) [':'] = some (2 + name.length) := by
    have e : [' ', ' '] ++ name ++ [':', ' '] ++ D = ([' ', ' '] ++ name) ++ ':' :: (' ' :: D) := by simp
    rw [e, find_char ':' _ _ (by
      intro hm; rcases List.mem_append.mp hm with h | h
      · revert h; decide
      · exact hn1 h)]
    simp; omega
  simp only [hfind]
  have htake : ([' ', ' '] ++ name ++ [':', ' '] ++ D).take (2 + name.length) = [' ', ' '] ++ name := by
    have e : [' ', ' '] ++ name ++ [':', ' '] ++ D = ([' ', ' '] ++ name) ++ ([':', ' '] ++ D) := by simp
    rw [e]; exact List.take_left' (by simp; omega)
  have hdrop : ([' ', ' '] ++ name ++ [':', ' '] ++ D).drop (2 + name.length + 1) = [' '] ++ D := by
    have e : [' ', ' '] ++ name ++ [':', ' '] ++ D = ([' ', ' '] ++ name ++ [':']) ++ ([' '] ++ D) := by simp
    rw [e]; exact List.drop_left' (by simp; omega)
  have hls : lstrip ([' ', ' '] ++ name) = name := by
    rw [lstrip_spaces_append _ _ (by intro c hc; simp at hc; subst hc; decide)]
    exact lstrip_headNS name hnh
  have hpart : partition name ['('] = (name, [], []) := by
    unfold partition
    have : find name ['('] = Option.none := by unfold find; exact findFrom_none_of_head '(' [] name 0 hn2
    rw [this]
  have hend : lstrip ([' '] ++ D) = D := by
    rw [lstrip_spaces_append _ _ allSpace_sp]; exact lstrip_headNS D hdh
  simp only [htake, hdrop, hls, hpart, List.append_nil, hend]
  have h1 : rstrip ([] : Str) = [] := rfl
  simp only [h1, List.isEmpty_nil, if_true, join, strip_id name hnh hnl, strip_id D hdh hdl]

theorem googleParse_typed (name t D : Str) (hnne : name ≠ []) (hn1 : ':' ∉ name) (hn2 : '(' ∉ name) (hnh : HeadNS name) (hnl : LastNS name)
    (ht1 : ':' ∉ t) (hor : contains t sOr = false) (hdh : HeadNS D) (hdl : LastNS D) (hbrace : startsWith D ['{'] = false) :
    googleParse1 ([' ', ' '] ++ name ++ ([' ', '('] ++ t ++ [')', ':', ' ']) ++ D) [] = .cur name { typ := some t, doc := some D } := by
  unfold googleParse1
  have e0 : [' ', ' '] ++ name ++ ([' ', '('] ++ t ++ [')', ':', ' ']) ++ D
      = ([' ', ' '] ++ name ++ [' ', '('] ++ t ++ [')']) ++ ':' :: (' ' :: D) := by simp
  have hlen : ([' ', ' '] ++ name ++ [' ', '('] ++ t ++ [')']).length = name.length + t.length + 5 := by simp; omega
  have hfind : find ([' ', ' '] ++ name ++ ([' ', '('] ++ t ++ [')', ':', ' ']) ++ D) [':'] = some (name.length + t.length + 5) := by
    rw [e0, find_char ':' _ _ (by
      intro hm
      simp only [List.mem_append, List.mem_cons, List.not_mem_nil, or_false] at hm
      rcases hm with (((h | h) | h) | h) | h
      · rcases h with h | h <;> (revert h; decide)
      · exact hn1 h
      · rcases h with h | h <;> (revert h; decide)
      · exact ht1 h
      · revert h; decide), hlen]
  simp only [hfind]
  have htake : ([' ', ' '] ++ name ++ ([' ', '('] ++ t ++ [')', ':', ' ']) ++ D).take (name.length + t.length + 5)
      = [' ', ' '] ++ (name ++ [' '] ++ '(' :: (t ++ [')'])) := by
    rw [e0, List.take_left' hlen]; simp
  have hdrop : ([' ', ' '] ++ name ++ ([' ', '('] ++ t ++ [')', ':', ' ']) ++ D).drop (name.length + t.length + 5 + 1) = [' '] ++ D := by
    have e : [' ', ' '] ++ name ++ ([' ', '('] ++ t ++ [')', ':', ' ']) ++ D
        = ([' ', ' '] ++ name ++ [' ', '('] ++ t ++ [')'] ++ [':']) ++ ([' '] ++ D) := by simp
    rw [e]; exact List.drop_left' (by simp; omega)
  have hls : lstrip ([' ', ' '] ++ (name ++ [' '] ++ '(' :: (t ++ [')']))) = name ++ [' '] ++ '(' :: (t ++ [')']) := by
    rw [lstrip_spaces_append _ _ (by intro c hc; simp at hc; subst hc; decide)]
    apply lstrip_headNS
    intro c hc
    cases name with
    | nil => exact absurd rfl hnne
    | cons x xs => simp at hc; subst hc; exact hnh x rfl
  have hpart : partition (name ++ [' '] ++ '(' :: (t ++ [')'])) ['('] = (name ++ [' '], ['('], t ++ [')']) := by
    unfold partition
    have : find (name ++ [' '] ++ '(' :: (t ++ [')'])) ['('] = some (name ++ [' ']).length :=
      find_char '(' _ _ (by
        intro hm; rcases List.mem_append.mp hm with h | h
        · exact hn2 h
        · revert h; decide)
    rw [this]
    have h1 : (name ++ [' '] ++ '(' :: (t ++ [')'])).take (name ++ [' ']).length = name ++ [' '] := List.take_left' rfl
    have h2 : (name ++ [' '] ++ '(' :: (t ++ [')'])).drop ((name ++ [' ']).length + ['('].length) = t ++ [')'] := by
      have e : name ++ [' '] ++ '(' :: (t ++ [')']) = (name ++ [' '] ++ ['(']) ++ (t ++ [')']) := by simp
      rw [e]; exact List.drop_left' (by simp)
    simp only [h1, h2]
  have hend : lstrip ([' '] ++ D) = D := by
    rw [lstrip_spaces_append _ _ allSpace_sp]; exact lstrip_headNS D hdh
  simp only [htake, hdrop, hls, hpart, hend]
  have hname : strip (name ++ [' ']) = name := by
    have := strip_core [] name [' '] allSpace_nil allSpace_sp hnh hnl
    simpa using this
  have htyp : rstrip (['('] ++ (t ++ [')'])) = ['('] ++ (t ++ [')']) := by
    apply rstrip_lastNS
    have e : ['('] ++ (t ++ [')']) = (['('] ++ t) ++ [')'] := by simp
    rw [e]
    exact lastNS_append _ [')'] (by simp) (by intro c hc; simp at hc; subst hc; decide)
  have hne : (['('] ++ (t ++ [')'])).isEmpty = false := rfl
  have hew : endsWith (['('] ++ (t ++ [')'])) [')'] = true := by
    have e : ['('] ++ (t ++ [')']) = (['('] ++ t) ++ [')'] := by simp
    rw [e]; exact endsWith_snoc _ _
  have ht' : ((['('] ++ (t ++ [')'])).drop 1).dropLast = t := by simp
  simp only [hname, htyp, hne, Bool.false_eq_true, if_false, hew, Bool.not_true, ht', hor, hbrace, Bool.and_false, Bool.false_and,
    join, strip_id D hdh hdl]

/-- ASCII only -/
def Ascii (s : Str) : Prop := ∀ c ∈ s, c.toNat ≤ 127

theorem ascii_any (s : Str) (h : Ascii s) : s.any (fun c => decide (c.toNat > 127)) = false := by
  apply any_false_of
  intro c hc
  have := h c hc
  simp only [decide_eq_false_iff_not]; omega

/-- what the Google parser needs to know about a description as emitted, and the name it belongs to -/
structure GText (name D : Str) : Prop where
  good : GoodText D
  ascii : Ascii D
  adhoc : ∀ b, Adhoc.adhocStr D name b = .ok Option.none

theorem sntParam_plain (name : Str) (typ : Option Str) (D : Str) (hn : GoodName name) (hD : GText name D)
    (ht : ∀ t, typ = some t → t ≠ [] ∧ endsWith t sGoogleOpt = false)
    (hx : extractDefault D Option.none true = .ok (D, Option.none)) (hrisk : defaultText D = Option.none) :
    sntParam name { typ := typ, doc := some D, default := Option.none } false
      = .ok { typ := typ, doc := some D, default := Option.none } := by
  unfold sntParam
  have hxg : extractDefaultG D Option.none true = .ok (D, Option.none) := by
    unfold extractDefaultG
    simp only [ascii_any D hD.ascii, Bool.false_eq_true, if_false, hrisk, hx]
    rfl
  have hkw : endsWith name sKwargs = false := by
    have := hn.noKwargs; rw [C01Whole.lit_kwargs] at this; exact this
  have hst2 : startsWith name ['*', '*'] = false := by
    have := hn.noStar
    cases name with
    | nil => rfl
    | cons c cs =>
      unfold startsWith at this ⊢
      simp only [List.isPrefixOf, Bool.and_true] at this
      simp only [List.isPrefixOf, this, Bool.false_and]
  have hne : (some D == some ([] : Str)) = false := by
    cases hb : (some D == some ([] : Str)) with
    | false => rfl
    | true => simp at hb; exact absurd hb hD.good.ne
  simp only [hxg, Bool.false_eq_true, if_false, Option.isSome_none, Bool.and_false, hkw, hst2, Bool.or_self, hn.noStar]
  have hsn : sntName name = name := by
    unfold sntName; simp only [hkw, hst2, Bool.or_self, Bool.false_eq_true, if_false, hn.noStar]
  have hopt1 : startsWith D g!"(Optional)" = false := hD.good.noPOpt
  have hopt2 : startsWith D g!"Optional" = false := hD.good.noOpt
  cases typ with
  | none =>
    simp only [hne, Bool.false_and, Bool.false_eq_true, if_false, docNorm D hD.good, hsn, hD.adhoc]
  | some t =>
    have htn : t.isEmpty = false := by
      cases t with
      | nil => exact absurd rfl (ht _ rfl).1
      | cons _ _ => rfl
    simp only [htn, (ht t rfl).2, Bool.not_false, Bool.and_false, Bool.false_eq_true, if_false, hne, Bool.false_and,
      docNorm D hD.good, hsn, hD.adhoc, hopt1, hopt2, Bool.or_self]

/-- the type after `_infer_default` -/
def typInfer (typ : Option Str) (dv : Dflt) : Option Str :=
  if typ.isNone && !isNoneStr dv then some (DocGN.tyName dv) else typ
/-- … and after the `Optional[…]` wrapping a None default causes -/
def typWrap (t1 : Option Str) (dv : Dflt) : Option Str :=
  match t1 with
  | some t => if isNoneText dv && !startsWith t optionalPrefix then some (optionalOf t) else some t
  | Option.none => Option.none

theorem sntParam_default (name : Str) (typ : Option Str) (D : Str) (dv : Dflt) (d2 : Option Default) (qb : Bool)
    (hn : GoodName name) (hD : GText name D)
    (ht : ∀ t, typInfer typ dv = some t → t ≠ [] ∧ endsWith t sGoogleOpt = false)
    (hx : extractDefault D Option.none true = .ok (D, d2)) (hrisk : extractDefaultG D Option.none true = ofOut (extractDefault D Option.none true))
    (hm : (isNoneText dv && d2.isSome) = false) (hq : needsQuotingG typ = .ok qb)
    (hv1 : (if isNoneText dv then Dflt.base Default.none else dv) = dv) (hv2 : unquoteD dv = dv)
    (hv3 : (!isNoneStr dv && codeQuoted dv) = false) :
    sntParam name { typ := typ, doc := some D, default := some dv } false
      = .ok { typ := typWrap (typInfer typ dv) dv, doc := some D, default := some dv } := by
  unfold sntParam
  have hxg : extractDefaultG D Option.none true = .ok (D, d2) := by rw [hrisk, hx]; rfl
  have hkw : endsWith name sKwargs = false := by
    have := hn.noKwargs; rw [C01Whole.lit_kwargs] at this; exact this
  have hst2 : startsWith name ['*', '*'] = false := by
    have := hn.noStar
    cases name with
    | nil => rfl
    | cons c cs =>
      unfold startsWith at this ⊢
      simp only [List.isPrefixOf, Bool.and_true] at this
      simp only [List.isPrefixOf, this, Bool.false_and]
  have hne : (some D == some ([] : Str)) = false := by
    cases hb : (some D == some ([] : Str)) with
    | false => rfl
    | true => simp at hb; exact absurd hb hD.good.ne
  have hsn : sntName name = name := by
    unfold sntName; simp only [hkw, hst2, Bool.or_self, Bool.false_eq_true, if_false, hn.noStar]
  have hopt1 : startsWith D g!"(Optional)" = false := hD.good.noPOpt
  have hopt2 : startsWith D g!"Optional" = false := hD.good.noOpt
  simp only [hxg, Bool.false_eq_true, if_false, hm, hkw, hst2, Bool.or_self, hn.noStar]
  unfold inferDefault
  simp only [hq, hv1, hv2, hv3, Bool.false_eq_true, if_false]
  unfold typWrap
  have hti : (if (typ.isNone && !isNoneStr dv) = true then ({ typ := some (DocGN.tyName dv), doc := some D, default := some dv } : GParam)
      else { typ := typ, doc := some D, default := some dv }) = { typ := typInfer typ dv, doc := some D, default := some dv } := by
    unfold typInfer; split <;> rfl
  simp only [hti]
  cases h1 : typInfer typ dv with
  | none =>
    simp only [hne, Bool.false_and, Bool.false_eq_true, if_false, docNorm D hD.good, hsn, hD.adhoc]
  | some t =>
    have htn : t.isEmpty = false := by
      cases t with
      | nil => exact absurd rfl (ht _ h1).1
      | cons _ _ => rfl
    simp only [htn, (ht t h1).2, Bool.not_false, Bool.and_false, Bool.false_eq_true, if_false, hne, Bool.false_and,
      docNorm D hD.good, hsn, hD.adhoc, hopt1, hopt2, Bool.false_or]
    split <;> rfl

/-- the defaults covered for the Google style: integers and booleans -/
def IntBool : Default → Prop
  | .int _ => True
  | .bool _ => True
  | _ => False

theorem intBool_good (v : Default) (h : IntBool v) : GoodDefault v := by
  cases v <;> first | trivial | exact absurd h (by simp [IntBool])

theorem takeWhile_all {α : Type} (p : α → Bool) (l : List α) (h : ∀ x ∈ l, p x = true) : l.takeWhile p = l := by
  induction l with
  | nil => rfl
  | cons a r ih => simp [List.takeWhile_cons, h a (by simp), ih (fun x hx => h x (by simp [hx]))]

theorem digits_ne_word (D w : Str) (x : Char) (ws : Str) (hw : w = x :: ws) (hx : x.isDigit = false)
    (hD : ∀ c ∈ D, c.isDigit = true) : (D == w) = false := by
  cases hb : (D == w) with
  | false => rfl
  | true =>
    have e := beq_iff_eq.mp hb
    rw [hw] at e
    have := hD x (by rw [e]; simp)
    rw [hx] at this; cases this

theorem head_digit_nosign (c : Char) (hc : c.isDigit = true) : (some c == some '-' || some c == some '+') = false := by
  cases hb : (some c == some '-' || some c == some '+') with
  | false => rfl
  | true =>
    simp only [Bool.or_eq_true, beq_iff_eq, Option.some.injEq] at hb
    rcases hb with rfl | rfl <;> revert hc <;> decide

theorem digits_notInfNan (D : Str) (hD : ∀ c ∈ D, c.isDigit = true) :
    (lower D == g!"inf" || lower D == g!"nan" || lower D == g!"infinity") = false := by
  rw [C01.lower_digits D hD, digits_ne_word D _ 'i' _ rfl (by decide) hD, digits_ne_word D _ 'n' _ rfl (by decide) hD,
    digits_ne_word D _ 'i' _ rfl (by decide) hD]
  rfl

theorem digits_notFloat (D : Str) (hD : ∀ c ∈ D, c.isDigit = true) :
    (!(D.takeWhile isAsciiDigit).isEmpty && (D.drop (D.takeWhile isAsciiDigit).length).head? == some '.' &&
      !((D.drop (D.takeWhile isAsciiDigit).length).drop 1).isEmpty && ((D.drop (D.takeWhile isAsciiDigit).length).drop 1).all isAsciiDigit) = false := by
  rw [takeWhile_all _ D (fun c hc => by rw [isAsciiDigit_eq]; exact hD c hc)]
  simp

theorem signed_not_risky (D : Str) (hD : ∀ c ∈ D, c.isDigit = true) (hne : D ≠ []) :
    infNanLike ('-' :: D) = false ∧ isFloatText ('-' :: D) = false ∧ infNanLike D = false ∧ isFloatText D = false := by
  obtain ⟨c, cs, rfl⟩ : ∃ c cs, D = c :: cs := by
    cases D with
    | nil => exact absurd rfl hne
    | cons c cs => exact ⟨c, cs, rfl⟩
  have hc := head_digit_nosign c (hD c (by simp))
  refine ⟨?_, ?_, ?_, ?_⟩
  · unfold infNanLike
    simp only [List.head?_cons, beq_self_eq_true, Bool.true_or, if_true, List.drop_succ_cons, List.drop_zero]
    exact digits_notInfNan _ hD
  · unfold isFloatText
    simp only [List.head?_cons, beq_self_eq_true, Bool.true_or, if_true, List.drop_succ_cons, List.drop_zero]
    exact digits_notFloat _ hD
  · unfold infNanLike
    simp only [List.head?_cons, hc, Bool.false_eq_true, if_false]
    exact digits_notInfNan _ hD
  · unfold isFloatText
    simp only [List.head?_cons, hc, Bool.false_eq_true, if_false]
    exact digits_notFloat _ hD

/-- the text of an integer or boolean is not "risky" for `float()` -/
theorem render_not_risky (v : Default) (h : IntBool v) :
    infNanLike (renderVal v) = false ∧ isFloatText (renderVal v) = false ∧ strip (renderVal v) = renderVal v := by
  have hstrip : strip (renderVal v) = renderVal v := by
    obtain ⟨rne, rch⟩ := renderVal_chars v (intBool_good v h)
    apply strip_id
    · intro c hc; exact (rch c (List.mem_of_mem_head? hc)).2.2
    · intro c hc; exact (rch c (List.mem_of_getLast? hc)).2.2
  cases v with
  | int i =>
    have hk := signed_not_risky (natToStr i.natAbs) (C01.natToStr_isDigit _) (C01.natToStr_ne_nil _)
    have e : renderVal (.int i) = intToStr i := rfl
    rw [e] at hstrip ⊢
    by_cases hi : i < 0
    · rw [intToStr_neg i hi] at hstrip ⊢; exact ⟨hk.1, hk.2.1, hstrip⟩
    · rw [intToStr_nonneg i hi] at hstrip ⊢; exact ⟨hk.2.2.1, hk.2.2.2, hstrip⟩
  | bool b => exact ⟨by cases b <;> decide, by cases b <;> decide, hstrip⟩
  | float _ => exact absurd h (by simp [IntBool])
  | str _ => exact absurd h (by simp [IntBool])
  | none => exact absurd h (by simp [IntBool])
  | code _ => exact absurd h (by simp [IntBool])

/-- the default text the Google path inspects: the rendered carried default, if any -/
theorem defaultText_docText (p : Param) (edd : Bool) (hp : GoodEntry p) (hib : ∀ v, p.default = some v → IntBool v) :
    defaultText (docText p edd) = (dfltOf p edd).map renderVal := by
  unfold docText dfltOf
  cases hd : p.doc with
  | none => exact absurd hd hp.docSome
  | some d =>
    have g := hp.doc d hd
    simp only []
    cases hv : (if edd then p.default else Option.none) with
    | none =>
      simp only [Option.map_none]
      unfold defaultText
      rw [C01.locateVariant_none d announceVariants g.noAnn]
    | some v =>
      have hv' : p.default = some v := by
        cases edd
        · simp at hv
        · simpa using hv
      simp only [Option.map_some]
      unfold defaultText
      rw [locate_emitted' _ _ g.noEarly]
      simp only [C01.drop_emitted]
      have htk : stripChars (takeDefault 0 (renderVal v)) [' ', '\t', '`'] = renderVal v := by
        cases v with
        | int i => simp only [renderVal]; rw [takeDefault_int, stripChars_int]
        | bool b => cases b <;> decide
        | float _ => exact absurd (hib _ hv') (by simp [IntBool])
        | str _ => exact absurd (hib _ hv') (by simp [IntBool])
        | none => exact absurd (hib _ hv') (by simp [IntBool])
        | code _ => exact absurd (hib _ hv') (by simp [IntBool])
      rw [htk]

/-- `extract_default` as the Google path calls it: no abstention on the emitted descriptions -/
theorem extractDefaultG_docText (p : Param) (edd : Bool) (typ : Option Str) (e2 : Bool) (hp : GoodEntry p)
    (hib : ∀ v, p.default = some v → IntBool v) (ha : Ascii (docText p edd)) :
    extractDefaultG (docText p edd) typ e2 = ofOut (extractDefault (docText p edd) typ e2) := by
  unfold extractDefaultG
  simp only [ascii_any _ ha, Bool.false_eq_true, if_false]
  rw [defaultText_docText p edd hp hib]
  cases hv : dfltOf p edd with
  | none => simp
  | some v =>
    have hv' : p.default = some v := by
      unfold dfltOf at hv
      cases edd
      · simp at hv
      · simpa using hv
    have hr := render_not_risky v (hib v hv')
    simp only [Option.map_some, hr.1, hr.2.1, hr.2.2, bne_self_eq_false, Bool.false_and, Bool.or_self, Bool.false_eq_true, if_false]

/-! ### one entry: `_parse`, `interpolate_defaults` with the latch, `_set_name_and_type` -/

theorem simpleDefault_facts (typ : Option Str) :
    (if isNoneText (simpleDefault typ) then Dflt.base Default.none else simpleDefault typ) = simpleDefault typ
      ∧ unquoteD (simpleDefault typ) = simpleDefault typ
      ∧ (!isNoneStr (simpleDefault typ) && codeQuoted (simpleDefault typ)) = false
      ∧ (typ = Option.none → isNoneStr (simpleDefault typ) = true) := by
  have key : ∀ dv ∈ [Dflt.base (.int 0), .base (.float g!"0.0"), .complex0, .base (.str []), .base (.bool false), .base .none],
      (if isNoneText dv then Dflt.base Default.none else dv) = dv ∧ unquoteD dv = dv ∧ (!isNoneStr dv && codeQuoted dv) = false := by
    decide
  cases typ with
  | none => exact ⟨by decide, by decide, by decide, fun _ => by decide⟩
  | some t =>
    have hm : simpleDefault (some t) ∈ [Dflt.base (.int 0), .base (.float g!"0.0"), .complex0, .base (.str []), .base (.bool false), .base .none] := by
      unfold simpleDefault
      simp only []
      repeat' split
      all_goals simp
    have := key _ hm
    exact ⟨this.1, this.2.1, this.2.2, fun h => by cases h⟩

/-- **the parsed parameter** for the Google style; `rd` is the `require_default` latch when the entry is reached -/
def expParamG (rd edd : Bool) (p : Param) : GParam :=
  match dfltOf p edd with
  | some v => { typ := typWrap (typInfer p.typ (.base v)) (.base v), doc := some (docText p edd), default := some (.base v) }
  | Option.none =>
    if rd then { typ := typWrap (typInfer p.typ (simpleDefault p.typ)) (simpleDefault p.typ), doc := some (docText p edd),
                 default := some (simpleDefault p.typ) }
    else { typ := p.typ, doc := some (docText p edd), default := Option.none }

/-- what the Google path needs of one entry -/
structure GEntry (name : Str) (p : Param) : Prop where
  base : GoodEntry p
  intBool : ∀ v, p.default = some v → IntBool v
  text : ∀ edd, GText name (docText p edd)
  brace : ∀ d, p.doc = some d → startsWith d ['{'] = false
  typ : ∀ t, p.typ = some t → contains t sOr = false ∧ ∃ qb, needsQuotingG (some t) = .ok qb

/-- the default after `interpolate_defaults`: the carried one, else — when the latch is on — the zero of the type -/
def dfltG (rd edd : Bool) (p : Param) : Option Dflt :=
  match dfltOf p edd with
  | some v => some (.base v)
  | Option.none => if rd then some (simpleDefault p.typ) else Option.none

theorem interpolate_entry (name : Str) (p : Param) (rd edd : Bool) (g : GEntry name p) :
    interpolate { typ := p.typ, doc := some (docText p edd) } edd rd
      = .ok { typ := p.typ, doc := some (docText p edd), default := dfltG rd edd p } := by
  unfold interpolate dfltG
  have hx := extract_docText' p edd p.typ g.base (fun v hv => (g.base.dflt v hv).2)
  simp only [extractDefaultG_docText p edd p.typ edd g.base g.intBool (g.text edd).ascii, hx, ofOut]
  cases hv : dfltOf p edd with
  | none => cases rd <;> simp
  | some v =>
    have hib : IntBool v := by
      apply g.intBool
      unfold dfltOf at hv
      cases edd
      · simp at hv
      · simpa using hv
    cases v with
    | int i => cases rd <;> simp [unquoteD]
    | bool b => cases rd <;> simp [unquoteD]
    | float _ => exact absurd hib (by simp [IntBool])
    | str _ => exact absurd hib (by simp [IntBool])
    | none => exact absurd hib (by simp [IntBool])
    | code _ => exact absurd hib (by simp [IntBool])

end DocGNRT
