import CddVerif.Proofs.DocSplit
/-!
# C15 (structural split) — the `for` loops of the index walkers as structural recursions

Every `for … in range(…)` loop of `Model/DocstringUtils.lean` (written with `Id.run do` / `do` in `Except`) is restated as a
structurally recursive scan over the remaining characters and **proved equal to the model's definition** for every input.
Nothing in the model is changed.  The `while` loops (`Loop.WhileLoop`) get a stepping lemma each.
-/
namespace DSS
open Py DocUtils DocSplit Loop

/-! ### generic: `for` over a list / range with a pure body -/

/-- a `for` loop with a pure body, as a structural recursion over the list -/
def listLoop {α β : Type} (f : α → β → ForInStep β) : List α → β → β
  | [], b => b
  | a :: as, b => match f a b with | .done b' => b' | .yield b' => listLoop f as b'

theorem forIn_list_pure {m : Type → Type} [Monad m] [LawfulMonad m] {α β : Type} (g : α → β → m (ForInStep β))
    (f : α → β → ForInStep β) (hg : ∀ a b, g a b = pure (f a b)) (l : List α) (b : β) :
    forIn l b g = pure (listLoop f l b) := by
  induction l generalizing b with
  | nil => rfl
  | cons a as ih =>
    rw [List.forIn_cons, hg, pure_bind]
    cases hf : f a b with
    | done b' => simp only [listLoop, hf]
    | yield b' => simp only [listLoop, hf]; exact ih _

theorem forIn_range_pure {m : Type → Type} [Monad m] [LawfulMonad m] {β : Type} (g : Nat → β → m (ForInStep β))
    (f : Nat → β → ForInStep β) (hg : ∀ a b, g a b = pure (f a b)) (lo hi : Nat) (b : β) :
    forIn [lo:hi] b g = pure (listLoop f (List.range' lo (hi - lo)) b) := by
  rw [Std.Legacy.Range.forIn_eq_forIn_range', forIn_list_pure g f hg]
  simp [Std.Legacy.Range.size]

theorem getElem!_of_drop (d : Str) (k : Nat) (c : Char) (cs : Str) (h : d.drop k = c :: cs) : d.toArray[k]! = c := by
  have : d[k]? = some c := by rw [← List.head?_drop, h]; rfl
  simp [this]

theorem drop_succ_of_drop (d : Str) (k : Nat) (c : Char) (cs : Str) (h : d.drop k = c :: cs) : d.drop (k + 1) = cs := by
  rw [← List.drop_drop, h]; rfl

/-! ### `_get_token_start_idx` -/

/-- body of the loop of `tokenStartIdx` -/
def startBody (s : S) (idx : Nat) (st : Option Int × Array Char) : ForInStep (Option Int × Array Char) :=
  let stack := st.2
  let ch := s[idx]!
  if ch == '\n' then
    let l := stack.toList
    let ind := leadingWs l
    let line := l.drop ind
    if inSet numpySet line then
      let i := ind + idx + 1
      if allDashes (sl s (some (i : Int)) (some (findAtI s.toList ['\n'] i))) then .done (some ((idx : Int) - stack.size), stack)
      else .yield (none, #[])
    else if startsWithAny tokensSet line then .done (some ((idx : Int) - stack.size), stack)
    else .yield (none, #[])
  else .yield (none, stack.push ch)

theorem tokenStartIdx_loop (s : S) :
    tokenStartIdx s = match (listLoop (startBody s) (List.range' 0 s.size) (none, #[])).1 with | some r => r | none => -1 := by
  unfold tokenStartIdx
  dsimp only
  rw [forIn_range_pure _ (startBody s)]
  · simp only [Nat.sub_zero]
    generalize listLoop (startBody s) _ _ = x
    obtain ⟨a, b⟩ := x
    cases a <;> rfl
  · intro a b; simp only [startBody]; repeat' split
    all_goals rfl

/-- **`_get_token_start_idx` as a scan** over the remaining characters: `k` = index of the next character,
    `stack` = the characters of the current line read so far -/
def startScan (d : Str) : Str → Nat → Str → Int
  | [], _, _ => -1
  | c :: cs, k, stack =>
    if c == '\n' then
      let ind := leadingWs stack
      let line := stack.drop ind
      if inSet numpySet line then
        let i := ind + k + 1
        if allDashes (slice d (some (i : Int)) (some (findAtI d ['\n'] i))) then (k : Int) - stack.length
        else startScan d cs (k + 1) []
      else if startsWithAny tokensSet line then (k : Int) - stack.length
      else startScan d cs (k + 1) []
    else startScan d cs (k + 1) (stack ++ [c])

theorem startLoop_eq (d : Str) (rem : Str) (k : Nat) (stack : Str) (h : d.drop k = rem) :
    (match (listLoop (startBody d.toArray) (List.range' k rem.length) (none, stack.toArray)).1 with | some r => r | none => -1)
      = startScan d rem k stack := by
  induction rem generalizing k stack with
  | nil => rfl
  | cons c cs ih =>
    have hc := getElem!_of_drop d k c cs h
    have hd := drop_succ_of_drop d k c cs h
    simp only [List.length_cons, List.range'_succ, listLoop, startBody, hc, startScan, sl]
    by_cases hnl : (c == '\n') = true
    · simp only [hnl, if_true]
      by_cases h1 : inSet numpySet (List.drop (leadingWs stack) stack) = true
      · simp only [h1, if_true]
        by_cases h2 : allDashes (slice d (some ((leadingWs stack + k + 1 : Nat) : Int)) (some (findAtI d ['\n'] (leadingWs stack + k + 1)))) = true
        · simp only [h2, if_true]; simp
        · simp only [h2]; exact ih (k + 1) [] hd
      · simp only [h1]
        by_cases h2 : startsWithAny tokensSet (List.drop (leadingWs stack) stack) = true
        · simp only [h2, if_true]; simp
        · simp only [h2]; exact ih (k + 1) [] hd
    · simp only [hnl]
      have := ih (k + 1) (stack ++ [c]) hd
      simpa using this

theorem tokenStartIdx_eq (d : Str) : tokenStartIdx d.toArray = startScan d d 0 [] := by
  rw [tokenStartIdx_loop]
  have := startLoop_eq d d 0 [] rfl
  simpa using this

/-! ### `_last_doc_str_token` -/

abbrev TokSt := Option Int × Array Char × Array Char

/-- body of the loop of `lastDocStrToken` -/
def tokBody (s : S) (i : Nat) (st : TokSt) : ForInStep TokSt :=
  let lastFound := st.1
  let pen := st.2.1
  let stack := st.2.2
  let ch := s[i]!
  if isSpaceC ch then
    if !stack.isEmpty then
      if allDashes stack.toList then
        if inSet numpySet pen.toList then .yield (some ((i : Int) - stack.size + pen.size), stack, #[])
        else .yield (lastFound, stack, #[])
      else if inSet tokensSet stack.toList then .yield (some ((i : Int) - stack.size), stack, #[])
      else .yield (lastFound, stack, #[])
    else .yield (lastFound, pen, stack)
  else .yield (lastFound, pen, stack.push ch)

theorem lastDocStrToken_loop (s : S) :
    lastDocStrToken s = (listLoop (tokBody s) (List.range' 0 s.size) (none, #[], #[])).1 := by
  unfold lastDocStrToken
  dsimp only
  rw [forIn_range_pure _ (tokBody s)]
  · rfl
  · intro a b; simp only [tokBody]; repeat' split
    all_goals rfl

/-- **`_last_doc_str_token` as a scan**: `i` = index of the next character, `lf` = last token found so far,
    `pen` = the previous word, `stack` = the current word read so far -/
def tokScan : Str → Nat → Option Int → Str → Str → Option Int
  | [], _, lf, _, _ => lf
  | c :: cs, i, lf, pen, stack =>
    if isSpaceC c then
      if stack.isEmpty then tokScan cs (i + 1) lf pen stack
      else if allDashes stack then
        tokScan cs (i + 1) (if inSet numpySet pen then some ((i : Int) - stack.length + pen.length) else lf) stack []
      else tokScan cs (i + 1) (if inSet tokensSet stack then some ((i : Int) - stack.length) else lf) stack []
    else tokScan cs (i + 1) lf pen (stack ++ [c])

theorem tokLoop_eq (d : Str) (rem : Str) (i : Nat) (lf : Option Int) (pen stack : Str) (h : d.drop i = rem) :
    (listLoop (tokBody d.toArray) (List.range' i rem.length) (lf, pen.toArray, stack.toArray)).1 = tokScan rem i lf pen stack := by
  induction rem generalizing i lf pen stack with
  | nil => rfl
  | cons c cs ih =>
    have hc := getElem!_of_drop d i c cs h
    have hd := drop_succ_of_drop d i c cs h
    simp only [List.length_cons, List.range'_succ, listLoop, tokBody, hc, tokScan]
    by_cases hsp : isSpaceC c = true
    · simp only [hsp, if_true]
      by_cases he : stack.isEmpty = true
      · have he' : stack.toArray.isEmpty = true := by simpa using he
        simp only [he, he', Bool.not_true, Bool.false_eq_true, if_false, if_true]
        exact ih (i + 1) lf pen stack hd
      · have he' : stack.toArray.isEmpty = false := by simpa using he
        simp only [he, he', Bool.not_false, if_true]
        by_cases h1 : allDashes stack = true
        · simp only [h1, if_true]
          by_cases h2 : inSet numpySet pen = true
          · simp only [h2, if_true]
            have := ih (i + 1) (some ((i : Int) - stack.length + pen.length)) stack [] hd
            simpa using this
          · simp only [h2]
            exact ih (i + 1) lf stack [] hd
        · simp only [h1]
          by_cases h2 : inSet tokensSet stack = true
          · simp only [h2, if_true]
            have := ih (i + 1) (some ((i : Int) - stack.length)) stack [] hd
            simpa using this
          · simp only [h2]
            exact ih (i + 1) lf stack [] hd
    · simp only [hsp]
      have := ih (i + 1) lf pen (stack ++ [c]) hd
      simpa using this

theorem lastDocStrToken_eq (d : Str) : lastDocStrToken d.toArray = tokScan d 0 none [] [] := by
  rw [lastDocStrToken_loop]
  have := tokLoop_eq d d 0 none [] [] rfl
  simpa using this

/-! ### `_get_end_of_last_found` (non-numpydoc exit) -/

def endBody (s : S) (k : Nat) (_ : Option Int) : ForInStep (Option Int) :=
  if s[k]! == '\n' then .done (some (k : Int)) else .yield (some (k : Int))

/-- the `for last_found_ends in range(last_found, len(doc_str))` loop: final value of the loop variable -/
def endScan : Str → Nat → Option Int → Option Int
  | [], _, e => e
  | c :: cs, k, _ => if c == '\n' then some (k : Int) else endScan cs (k + 1) (some (k : Int))

theorem endLoop_eq (d : Str) (rem : Str) (k : Nat) (e : Option Int) (h : d.drop k = rem) :
    listLoop (endBody d.toArray) (List.range' k rem.length) e = endScan rem k e := by
  induction rem generalizing k e with
  | nil => rfl
  | cons c cs ih =>
    have hc := getElem!_of_drop d k c cs h
    have hd := drop_succ_of_drop d k c cs h
    simp only [List.length_cons, List.range'_succ, listLoop, endBody, hc, endScan]
    by_cases hnl : (c == '\n') = true
    · simp only [hnl, if_true]
    · simp only [hnl]; exact ih (k + 1) _ hd

theorem endOfLastFound_eq (d : Str) (lf : Int) (lfs : Option Int) (fmt : Style) :
    endOfLastFound d.toArray lf lfs fmt =
      match endScan (d.drop lf.toNat) lf.toNat none with
      | some v =>
        if fmt == .numpydoc && allDashes (slice d lfs (some lf)) then endOfLastFoundNumpydoc d.toArray lf (lfs.getD 0)
        else .ok (some (v + 1))
      | none => .error "TypeError" := by
  unfold endOfLastFound
  dsimp only
  rw [forIn_range_pure _ (endBody d.toArray)]
  · have hlen : d.toArray.size - lf.toNat = (d.drop lf.toNat).length := by simp
    rw [hlen, endLoop_eq d _ lf.toNat none rfl]
    simp only [pure_bind]
    cases endScan (d.drop lf.toNat) lf.toNat none with
    | none => rfl
    | some v => rfl
  · intro a b; simp only [endBody]; split <;> rfl

/-! ### `at?`, `sl` on a list -/

theorem at?_nat (d : Str) (k : Nat) : at? d.toArray (k : Int) = d[k]? := by
  unfold at?
  simp

theorem sl_eq (d : Str) (a b : Option Int) : sl d.toArray a b = slice d a b := rfl

theorem n_eq (d : Str) : n d.toArray = (d.length : Int) := by simp [n]

/-! ### stepping a `WhileLoop` -/

theorem run_next {σ : Type} (L : WhileLoop σ) (s s' : σ) (h : L.step s = .next s') :
    L.run s = ((L.run s').1, (L.run s').2.1, (L.run s').2.2 + 1) := by
  rw [WhileLoop.run]
  split
  · rename_i s'' h'; rw [h] at h'; cases h'; rfl
  all_goals (rename_i h'; rw [h] at h'; cases h')

theorem run_exitCond {σ : Type} (L : WhileLoop σ) (s : σ) (h : L.step s = .exitCond) : L.run s = (s, .cond, 1) := by
  rw [WhileLoop.run]
  split
  · rename_i s'' h'; rw [h] at h'; cases h'
  · rfl
  all_goals (rename_i h'; rw [h] at h'; cases h')

theorem run_raise {σ : Type} (L : WhileLoop σ) (s : σ) (h : L.step s = .raise) : L.run s = (s, .raise, 1) := by
  rw [WhileLoop.run]
  split
  · rename_i s'' h'; rw [h] at h'; cases h'
  · rename_i h'; rw [h] at h'; cases h'
  · rename_i s'' h'; rw [h] at h'; cases h'
  · rfl

/-- **loop invariant rule** for a `WhileLoop` that leaves only by its condition: if `Inv` holds initially and every
    `.next` step preserves it, and the loop can neither `break` nor raise from an `Inv` state, then the final state
    satisfies `Inv`, the exit is by the condition, and the step function says `.exitCond` there. -/
theorem run_invariant {σ : Type} (L : WhileLoop σ) (Inv : σ → Prop)
    (hstep : ∀ s s', Inv s → L.step s = .next s' → Inv s')
    (hnb : ∀ s s', Inv s → L.step s ≠ .exitBreak s') (hnr : ∀ s, Inv s → L.step s ≠ .raise)
    (s : σ) (h0 : Inv s) :
    Inv (L.run s).1 ∧ (L.run s).2.1 = .cond ∧ L.step (L.run s).1 = .exitCond := by
  induction hk : L.measure s using Nat.strongRecOn generalizing s with
  | _ k ih =>
    cases hs : L.step s with
    | next s' =>
      rw [run_next L s s' hs]
      exact ih (L.measure s') (by have := L.dec s s' hs; omega) s' (hstep s s' h0 hs) rfl
    | exitCond => rw [run_exitCond L s hs]; exact ⟨h0, rfl, hs⟩
    | exitBreak s' => exact absurd hs (hnb s s' h0)
    | raise => exact absurd hs (hnr s h0)

/-! ### the two `while` loops of `_get_token_last_idx` -/

theorem getElem?_mid (pre mid post : Str) (j : Nat) (hj : j < mid.length) :
    (pre ++ (mid ++ post))[pre.length + j]? = some mid[j] := by
  rw [List.getElem?_append_right (by omega)]
  simp [List.getElem?_append_left hj]

/-- `while idx != 0 and doc_str[idx] != "\n": idx -= 1` started inside a line walks back to the newline before it -/
theorem loopA_back (pre mid post : Str) (hmid : '\n' ∉ mid) (j : Nat) (hj : j ≤ mid.length) :
    (loopA (pre ++ '\n' :: (mid ++ post)).toArray).run ((pre.length + j : Nat) : Int) = ((pre.length : Int), .cond, j + 1) := by
  induction j with
  | zero =>
    rw [run_exitCond]
    · simp
    · simp only [loopA, Nat.add_zero]
      split
      · rfl
      · rw [at?_nat]
        simp
  | succ j ih =>
    have hlt : j < mid.length := by omega
    have hne : mid[j] ≠ '\n' := fun h => hmid (h ▸ List.getElem_mem hlt)
    have hstep : (loopA (pre ++ '\n' :: (mid ++ post)).toArray).step ((pre.length + (j + 1) : Nat) : Int) = .next ((pre.length + j : Nat) : Int) := by
      simp only [loopA]
      have h0 : (((pre.length + (j + 1) : Nat) : Int) == 0) = false := by
        simp only [beq_eq_false_iff_ne, ne_eq]; omega
      simp only [h0, Bool.false_eq_true, if_false]
      rw [at?_nat]
      have : (pre ++ '\n' :: (mid ++ post))[pre.length + (j + 1)]? = some mid[j] := by
        have := getElem?_mid (pre ++ ['\n']) mid post j hlt
        simp only [List.append_assoc, List.singleton_append, List.length_append, List.length_singleton] at this
        rw [← this]; congr 1; omega
      rw [this]
      simp only [beq_iff_eq, hne, if_false]
      congr 1; omega
    rw [run_next _ _ _ hstep, ih (by omega)]

/-- … and started on a line with no newline before it (index 0 is never looked at) walks back to index 0 -/
theorem loopA_back0 (mid post : Str) (hmid : '\n' ∉ mid.drop 1) (j : Nat) (hj : j < mid.length) :
    (loopA (mid ++ post).toArray).run ((j : Nat) : Int) = ((0 : Int), .cond, j + 1) := by
  induction j with
  | zero =>
    rw [run_exitCond]
    · simp
    · simp [loopA]
  | succ j ih =>
    have hne : mid[j + 1] ≠ '\n' := by
      intro h
      apply hmid
      have : (mid.drop 1)[j]? = some '\n' := by rw [List.getElem?_drop]; simp [Nat.add_comm, List.getElem?_eq_getElem hj, h]
      exact List.mem_of_getElem? this
    have hstep : (loopA (mid ++ post).toArray).step ((j + 1 : Nat) : Int) = .next ((j : Nat) : Int) := by
      simp only [loopA]
      have h0 : (((j + 1 : Nat) : Int) == 0) = false := by
        simp only [beq_eq_false_iff_ne, ne_eq]; omega
      simp only [h0, Bool.false_eq_true, if_false]
      rw [at?_nat, List.getElem?_append_left hj, List.getElem?_eq_getElem hj]
      simp only [beq_iff_eq, hne, if_false]
      congr 1; omega
    rw [run_next _ _ _ hstep, ih (by omega)]

/-- `while i < len(doc_str) and doc_str[i] != "\n": i += 1` started inside a line walks forward to its end -/
theorem loopB_fwd (pre mid post : Str) (hmid : '\n' ∉ mid) (hpost : post = [] ∨ post.head? = some '\n') (k : Nat) :
    ∀ j, j + k = mid.length →
    ∃ c, (loopB (pre ++ (mid ++ post)).toArray).run ((pre.length + j : Nat) : Int) = (((pre.length + mid.length : Nat) : Int), .cond, c) := by
  induction k with
  | zero =>
    intro j hj
    refine ⟨1, ?_⟩
    have hj' : j = mid.length := by omega
    subst hj'
    rw [run_exitCond]
    simp only [loopB, n_eq, at?_nat]
    split
    · rename_i hlt
      rcases hpost with hp | hp
      · subst hp; simp at hlt
      · cases post with
        | nil => cases hp
        | cons p ps =>
          simp only [List.head?_cons, Option.some.injEq] at hp
          subst hp
          have : (pre ++ (mid ++ '\n' :: ps))[pre.length + mid.length]? = some '\n' := by
            rw [← List.append_assoc, ← List.length_append]; simp
          rw [this]; simp
    · rfl
  | succ k ih =>
    intro j hj
    have hlt : j < mid.length := by omega
    have hne : mid[j] ≠ '\n' := fun h => hmid (h ▸ List.getElem_mem hlt)
    have hstep : (loopB (pre ++ (mid ++ post)).toArray).step ((pre.length + j : Nat) : Int) = .next ((pre.length + (j + 1) : Nat) : Int) := by
      simp only [loopB, n_eq, at?_nat]
      have h1 : ((pre.length + j : Nat) : Int) < ((pre ++ (mid ++ post)).length : Int) := by
        simp only [List.length_append]; omega
      simp only [h1, if_true, getElem?_mid pre mid post j hlt]
      simp only [bne_iff_ne, ne_eq, hne, not_false_eq_true, if_true]
      congr 1
    obtain ⟨c, hc⟩ := ih (j + 1) (by omega)
    refine ⟨c + 1, ?_⟩
    rw [run_next _ _ _ hstep, hc]

end DSS
