import CddVerif.Proofs.DocGNRoundTripParse
/-!
# Google-style whole-docstring round trip (C01) — the fold with the `require_default` latch, and `parse ∘ emit`
-/
namespace DocGNRT
open Py Doc DocRT DocGN

/-! ### the entry as a whole, the fold, and `parse ∘ emit` -/

structure GName (name : Str) : Prop where
  base : GoodName name
  ne : name ≠ []
  headNS : HeadNS name
  lastNS : LastNS name
  noParen : '(' ∉ name
  noBreak : GNoBreak name

theorem docText_dflt_none (p : Param) (edd : Bool) (hp : GoodEntry p) (h : dfltOf p edd = Option.none) (d : Str) (hd : p.doc = some d) :
    docText p edd = d := by
  unfold docText; rw [hd]; simp only []; unfold dfltOf at h; rw [h]

/-- `_set_name_and_type` on the interpolated entry gives the predicted parameter -/
theorem sntParam_entry (name : Str) (p : Param) (rd edd : Bool) (hn : GName name) (g : GEntry name p) :
    sntParam name { typ := p.typ, doc := some (docText p edd), default := dfltG rd edd p } false
      = .ok (expParamG rd edd p) := by
  unfold dfltG
  have hD := g.text edd
  have hxt := extract_docText_true p edd g.base
  have hrisk := extractDefaultG_docText p edd Option.none true g.base g.intBool hD.ascii
  have hq : ∃ qb, needsQuotingG p.typ = .ok qb := by
    cases ht : p.typ with
    | none => exact ⟨false, rfl⟩
    | some t => exact (g.typ t ht).2
  obtain ⟨qb, hq⟩ := hq
  have htyp : ∀ t, p.typ = some t → t ≠ [] ∧ endsWith t sGoogleOpt = false := by
    intro t ht
    have gt := g.base.typ t ht
    exact ⟨gt.ne, by have := gt.noOptSuffix; rw [C01Whole.lit_optSuffix] at this; exact this⟩
  unfold expParamG
  cases hv : dfltOf p edd with
  | some v =>
    have hib : IntBool v := by
      apply g.intBool
      unfold dfltOf at hv
      cases edd
      · simp at hv
      · simpa using hv
    simp only []
    rw [hv] at hxt
    apply sntParam_default name p.typ _ (.base v) (some v) qb hn.base hD ?_ hxt hrisk ?_ hq ?_ ?_ ?_
    · intro t ht
      unfold typInfer at ht
      cases hpt : p.typ with
      | some t' => rw [hpt] at ht; simp at ht; subst ht; exact htyp _ hpt
      | none =>
        rw [hpt] at ht
        cases v with
        | int i => simp [isNoneStr, pyStr?, DocGN.tyName] at ht; subst ht; exact ⟨by decide, by decide⟩
        | bool b => simp [isNoneStr, pyStr?, DocGN.tyName] at ht; subst ht; exact ⟨by decide, by decide⟩
        | float _ => exact absurd hib (by simp [IntBool])
        | str _ => exact absurd hib (by simp [IntBool])
        | none => exact absurd hib (by simp [IntBool])
        | code _ => exact absurd hib (by simp [IntBool])
    all_goals
      cases v with
      | int i => rfl
      | bool b => rfl
      | float _ => exact absurd hib (by simp [IntBool])
      | str _ => exact absurd hib (by simp [IntBool])
      | none => exact absurd hib (by simp [IntBool])
      | code _ => exact absurd hib (by simp [IntBool])
  | none =>
    rw [hv] at hxt
    cases rd with
    | false =>
      simp only [Bool.false_eq_true, if_false]
      have hdt : defaultText (docText p edd) = Option.none := by
        rw [defaultText_docText p edd g.base g.intBool, hv]; rfl
      exact sntParam_plain name p.typ _ hn.base hD htyp hxt hdt
    | true =>
      simp only [if_true]
      have hf := simpleDefault_facts p.typ
      apply sntParam_default name p.typ _ (simpleDefault p.typ) Option.none qb hn.base hD ?_ hxt hrisk (by simp) hq hf.1 hf.2.1 hf.2.2.1
      intro t ht
      unfold typInfer at ht
      cases hpt : p.typ with
      | some t' => rw [hpt] at ht; simp at ht; subst ht; exact htyp _ hpt
      | none =>
        rw [hpt] at ht
        have := hf.2.2.2 hpt
        rw [hpt] at this
        simp [this] at ht

theorem dictInsert_fresh (ps : List (Str × GParam)) (k : Str) (v : GParam) (h : k ∉ ps.map (·.1)) :
    dictInsert ps k v = ps ++ [(k, v)] := by
  induction ps with
  | nil => rfl
  | cons kp r ih =>
    obtain ⟨k', v'⟩ := kp
    have hk : (k' == k) = false := by
      cases hb : (k' == k) with
      | false => rfl
      | true => exact absurd (by simp [beq_iff_eq.mp hb]) h
    simp only [dictInsert, hk, Bool.false_eq_true, if_false, ih (fun e => h (by simp [e])), List.cons_append]

theorem sntName_good (name : Str) (hn : GoodName name) : sntName name = name := by
  have hkw : endsWith name sKwargs = false := by
    have := hn.noKwargs; rw [C01Whole.lit_kwargs] at this; exact this
  have hst2 : startsWith name ['*', '*'] = false := by
    have := hn.noStar
    cases name with
    | nil => rfl
    | cons c cs =>
      unfold startsWith at this ⊢
      simp only [List.isPrefixOf, Bool.and_true] at this
      simp only [List.isPrefixOf, this, Bool.false_and]
  unfold sntName; simp only [hkw, hst2, Bool.or_self, Bool.false_eq_true, if_false, hn.noStar]

theorem parseOne_entry (name : Str) (p : Param) (edd : Bool) (hn : GName name) (g : GEntry name p) :
    parseOne .google [gLine name p.typ (docText p edd)] = .cur name { typ := p.typ, doc := some (docText p edd) } := by
  have hD := (g.text edd).good
  have hncol : ':' ∉ name := fun h => (hn.base.chars _ h).1 rfl
  show googleParse1 (gLine name p.typ (docText p edd)) [] = _
  unfold gLine
  cases ht : p.typ with
  | none =>
    simp only [truthy, Bool.false_eq_true, if_false]
    exact googleParse_untyped name _ hncol hn.noParen hn.headNS hn.lastNS hD.headNS hD.lastNS
  | some t =>
    have gt := g.base.typ t ht
    have htr : truthy (some t) = true := by
      cases t with
      | nil => exact absurd rfl gt.ne
      | cons _ _ => rfl
    simp only [htr, if_true, Option.getD_some]
    have hbrace : startsWith (docText p edd) ['{'] = false := by
      unfold docText
      cases hd : p.doc with
      | none => exact absurd hd g.base.docSome
      | some d =>
        have hb := g.brace d hd
        simp only []
        cases (if edd then p.default else Option.none) with
        | none => exact hb
        | some v =>
          simp only []
          unfold startsWith at hb ⊢
          rcases baseOf_cases d with e | e
          · rw [e, List.append_assoc]
            have : defaultsTo ++ renderVal v = ' ' :: (defaultsTo.drop 1 ++ renderVal v) := rfl
            rw [this, isPrefixOf_append_of_notin _ d _ ' ' (by decide)]; exact hb
          · rw [e, List.append_assoc, List.append_assoc]
            have : ['.'] ++ (defaultsTo ++ renderVal v) = '.' :: (defaultsTo ++ renderVal v) := rfl
            rw [this, isPrefixOf_append_of_notin _ d _ '.' (by decide)]; exact hb
    exact googleParse_typed name t _ hn.ne hncol hn.noParen hn.headNS hn.lastNS (fun h => (gt.chars _ h).1 rfl) (g.typ t ht).1
      hD.headNS hD.lastNS hbrace

/-- the latch after the first `k` entries: some earlier entry carried a default -/
def latchAfter (edd : Bool) (ps : List (Str × Param)) : Bool := ps.any (fun np => (dfltOf np.2 edd).isSome)

/-- the parsed parameters, threading the latch -/
def expParamsG (edd : Bool) : Bool → List (Str × Param) → List (Str × GParam)
  | _, [] => []
  | rd, (n, p) :: rest => (n, expParamG rd edd p) :: expParamsG edd (rd || (dfltOf p edd).isSome) rest

theorem fold_entries (edd : Bool) (ps : List (Str × Param)) (rd : Bool) (acc : List (Str × GParam))
    (hn : ∀ np ∈ ps, GName np.1) (hg : ∀ np ∈ ps, GEntry np.1 np.2)
    (hnd : (acc.map (·.1) ++ ps.map (·.1)).Nodup) :
    ∃ rd', foldParams .google edd (ps.map (fun np => [gLine np.1 np.2.typ (docText np.2 edd)])) rd acc
      = .ok (acc ++ expParamsG edd rd ps, rd') := by
  induction ps generalizing rd acc with
  | nil => exact ⟨rd, by simp [foldParams, expParamsG]⟩
  | cons np r ih =>
    obtain ⟨n, p⟩ := np
    have hfresh : n ∉ acc.map (·.1) := by
      intro hm
      have := (List.nodup_append.mp hnd).2.2 _ hm n (by simp)
      exact this rfl
    have hN := hn (n, p) (by simp)
    have hG := hg (n, p) (by simp)
    simp only [List.map_cons, foldParams, parseOne_entry n p edd hN hG, interpolate_entry n p rd edd hG,
      sntParam_entry n p rd edd hN hG, sntName_good n hN.base, dictInsert_fresh acc n _ hfresh]
    have hlatch : (rd || (dfltG rd edd p).isSome) = (rd || (dfltOf p edd).isSome) := by
      unfold dfltG; cases dfltOf p edd <;> cases rd <;> rfl
    rw [hlatch]
    obtain ⟨rd', h⟩ := ih (rd || (dfltOf p edd).isSome) (acc ++ [(n, expParamG rd edd p)])
      (fun x hx => hn x (by simp [hx])) (fun x hx => hg x (by simp [hx])) (by
        simp only [List.map_append, List.map_cons, List.map_nil, List.append_assoc, List.singleton_append]
        simpa using hnd)
    exact ⟨rd', by rw [h]; simp [expParamsG]⟩

/-- the Google domain (proof side) -/
structure GGoodIR (ir : IR) : Prop where
  hdr : ir.doc = [] ∨ GoodHeader ir.doc
  hdrArgs : contains ir.doc sArgs = false
  hdrAscii : Ascii ir.doc
  noRet : ir.returns = Option.none
  ne : ir.params ≠ []
  names : ∀ np ∈ ir.params, GName np.1
  entries : ∀ np ∈ ir.params, GEntry np.1 np.2
  lines : ∀ np ∈ ir.params, ∀ edd, GScanLine (gLine np.1 np.2.typ (docText np.2 edd)) ∧ Ascii (gLine np.1 np.2.typ (docText np.2 edd))
  nodup : (ir.params.map (·.1)).Nodup

/-- the interface the Google theorems predict -/
def expIRG (ir : IR) (edd : Bool) : GIR := ⟨ir.doc, expParamsG edd false ir.params, Option.none⟩

theorem ascii_append {a b : Str} (ha : Ascii a) (hb : Ascii b) : Ascii (a ++ b) := by
  intro c hc; rcases List.mem_append.mp hc with h | h
  · exact ha c h
  · exact hb c h

theorem ascii_join (ls : List Str) (h : ∀ l ∈ ls, Ascii l) : Ascii (join ['\n'] ls) := by
  induction ls with
  | nil => intro c hc; cases hc
  | cons x r ih =>
    cases r with
    | nil => simpa [join] using h x (by simp)
    | cons y r' =>
      rw [join_cons2]
      exact ascii_append (ascii_append (h x (by simp)) (by intro c hc; simp at hc; subst hc; decide)) (ih (fun l hl => h l (by simp [hl])))

/-- **parse ∘ emit for the Google style on the domain** -/
theorem parse_emitted_google (ir : IR) (et ww edd : Bool) (s : Str) (g : GGoodIR ir) (he : emit ir .google et ww edd = .ok s) :
    parseGN .google s edd = .ok (expIRG ir edd) := by
  obtain ⟨pre, hpre, hs⟩ := emit_google_text ir et ww edd s g.hdr g.noRet g.ne
    (fun np hnp => (g.names np hnp).base.notRet) (fun np hnp => (g.entries np hnp).base) he
  have hlines : ∀ l ∈ gLines ir edd, GScanLine l ∧ Ascii l := by
    intro l hl
    unfold gLines at hl
    obtain ⟨np, hnp, rfl⟩ := List.mem_map.mp hl
    exact g.lines np hnp edd
  have hne : gLines ir edd ≠ [] := by unfold gLines; simpa using g.ne
  have hasc : Ascii s := by
    rw [hs]
    refine ascii_append (ascii_append ?_ (ascii_append (ascii_append (by intro c hc; revert hc; revert c; decide)
      (by intro c hc; simp at hc; subst hc; decide)) (ascii_join _ (fun l hl => (hlines l hl).2)))) (by intro c hc; simp at hc; subst hc; decide)
    rcases hpre with ⟨_, rfl⟩ | ⟨_, rfl⟩
    · intro c hc; cases hc
    · exact ascii_append g.hdrAscii (by intro c hc; simp at hc; subst hc; decide)
  unfold parseGN
  simp only [ascii_any s hasc, Bool.false_eq_true, if_false]
  rw [hs, scan_emitted ir.doc pre (gLines ir edd) hpre g.hdrArgs hne (fun l hl => (hlines l hl).1)]
  simp only []
  unfold parsePhase
  have hda : docAndParams { doc := ir.doc, args := (gLines ir edd).map (fun l => [l]), rets := [], afterward := Option.none }
      = (ir.doc, (gLines ir edd).map (fun l => [l])) := by
    unfold docAndParams
    have : ((gLines ir edd).map (fun l => [l])).findIdx isAfterwardHead = ((gLines ir edd).map (fun l => [l])).length := by
      apply findIdx_none
      intro e he'
      obtain ⟨l, hl, rfl⟩ := List.mem_map.mp he'
      unfold isAfterwardHead
      simp only [List.headD_cons, endsWith_colon_false l (hlines l hl).1.last, Bool.false_and]
    simp only [this, Nat.lt_irrefl, if_false]
  rw [hda]
  simp only []
  have hmap : (gLines ir edd).map (fun l => [l]) = ir.params.map (fun np => [gLine np.1 np.2.typ (docText np.2 edd)]) := by
    unfold gLines; rw [List.map_map]; rfl
  obtain ⟨rd', hfold⟩ := fold_entries edd ir.params false [] g.names g.entries (by simpa using g.nodup)
  rw [hmap, hfold]
  simp only [List.nil_append]
  have hfd : finalDoc ir.doc = ir.doc := by
    unfold finalDoc
    rcases g.hdr with h | h
    · rw [h]; rfl
    · obtain ⟨c, cs, hc⟩ : ∃ c cs, ir.doc = c :: cs := by
        cases hd : ir.doc with
        | nil => exact absurd hd h.ne
        | cons c cs => exact ⟨c, cs, rfl⟩
      rw [isspace_of_mem _ c (by rw [hc]; simp) (h.headNS c (by rw [hc]; rfl))]
      simp only [Bool.false_eq_true, if_false]
      exact lstrip_headNS _ h.headNS
  simp only [parseReturns, List.isEmpty_nil, if_true, hfd]
  rfl

end DocGNRT
