import CddVerif.Proofs.DocFixpoint
import CddVerif.Model.DocGN
/-!
# Google-style whole-docstring round trip (C01) — emitter side

`Doc.emit … .google` without `do` notation (no return entry), one entry line, and the emitted text
`pre ++ "Args:\n" ++ lines ++ "\n"`.
-/
namespace DocGNRT
open Py Doc DocSplit DocUtils DocRT

/-! ### `emit` for the Google style, without `do` notation (no return entry) -/

def sArgs : Str := ['A','r','g','s',':']
theorem lit_Args : argToken Doc.Style.google = sArgs := by decide

/-- the text of the parameter section -/
def gSection (blocks : List Str) : Str := join ['\n'] (if blocks.isEmpty then blocks else sArgs :: blocks)

theorem emit_google_eq (ir : IR) (et ww edd : Bool) (hr : ir.returns = Option.none) :
    emit ir .google et ww edd =
      match mapOut (fun np => emitParamStr np.1 np.2 .google et ww edd) ir.params with
      | .outside w => .outside w
      | .ok blocks => .ok (finish (outOf ir.doc (gSection blocks) [])) := by
  have hs1 : (Doc.Style.google == Doc.Style.rest) = false := rfl
  have hs2 : (Doc.Style.google != Doc.Style.rest) = true := rfl
  unfold emit
  simp (config := {zeta := false}) only [mapM_eq, bind, pure, hs1, hs2, Bool.and_true, Bool.false_eq_true, if_false, hr, lit_Args]
  cases mapOut (fun np => emitParamStr np.1 np.2 .google et ww edd) ir.params with
  | outside w => rfl
  | ok blocks =>
    simp (config := {zeta := false}) only []
    rw [← finishO_eq]
    unfold gSection
    cases hb : blocks.isEmpty <;> rfl

/-- one Google entry line -/
def gLine (name : Str) (typ : Option Str) (d : Str) : Str :=
  [' ', ' '] ++ name ++ (if truthy typ then [' ', '('] ++ typ.getD [] ++ [')', ':', ' '] else [':', ' ']) ++ d

theorem emitParamStr_google (name : Str) (p : Param) (et ww edd : Bool) (d' : Str) (hdoc : truthy p.doc = true)
    (hs : setDefaultDoc name p edd = .ok (some d')) (hn : (name == Doc.sReturnType) = false) (hd : d' ≠ []) :
    emitParamStr name p .google et ww edd = .ok (gLine name p.typ d') := by
  unfold emitParamStr gLine
  simp (config := {zeta := false}) only [bind, pure, hdoc, if_true, hs, hn]
  have hde : d'.isEmpty = false := by cases d' with | nil => exact absurd rfl hd | cons _ _ => rfl
  cases ht : truthy p.typ <;>
    simp [ht, hde]


/-- starts and ends with a non-blank -/
def Solid (s : Str) : Prop := (∃ c r, s = c :: r ∧ isSpaceC c = false) ∧ LastNS s

theorem solid_ne (s : Str) (h : Solid s) : s ≠ [] := by obtain ⟨⟨c, r, rfl, _⟩, _⟩ := h; simp

/-- the emitted text when there is no return entry (generalises `DocRT.outOf_shape_noret` from `:`-initial bodies) -/
theorem outOf_shape_solid (h P : Str) (hh : h = [] ∨ GoodHeader h) (hP : Solid P) :
    ∃ pre, ((h = [] ∧ pre = []) ∨ (GoodHeader h ∧ pre = h ++ ['\n', '\n'])) ∧ finish (outOf h P []) = pre ++ P ++ ['\n'] := by
  have hPne := solid_ne P hP
  obtain ⟨⟨c0, r0, hP0, hc0⟩, hPl⟩ := hP
  have hPe : P.isEmpty = false := by cases P with | nil => exact absurd rfl hPne | cons _ _ => rfl
  have h1 : nlsEnd P = 0 := nlsEnd_lastNS P hPl
  have hc0P : c0 ∈ P := by rw [hP0]; simp
  have hst : ∀ rest : Str, nlsStart (P ++ rest) = 0 := by
    intro rest; rw [hP0]; exact nlsStart_ns c0 _ hc0
  have hcand : outOf h P [] = hafToStr h P [] := by
    unfold outOf
    have hsp : isspace P = false := isspace_of_mem P c0 hc0P hc0
    simp only [h1, List.isEmpty_nil, Bool.not_true, Bool.and_false, Bool.false_eq_true, if_false, List.append_nil, Bool.true_and,
      show decide (0 > 0) = false from rfl, Bool.false_and, Bool.or_self, hsp]
  rw [hcand]
  have hAst : nlsStart P = 0 := by have := hst []; simpa using this
  rcases hh with rfl | hh
  · refine ⟨[], Or.inl ⟨rfl, rfl⟩, ?_⟩
    rw [haf_noheader _ hPne, h1]
    simp only [beq_self_eq_true, if_true, List.nil_append]
    rw [finish_with_nl _ (by simp) c0 (by simp [hc0P]) hc0]
  · refine ⟨h ++ ['\n', '\n'], Or.inr ⟨hh, rfl⟩, ?_⟩
    rw [haf_header h _ hh hPne 0 hAst (by omega) (by
      simp only [beq_self_eq_true, if_true, h1]
      exact nlsStart_two _ _ (hst _))]
    simp only [beq_self_eq_true, if_true, h1]
    rw [finish_with_nl _ (by simp) c0 (by simp [hc0P]) hc0]
    simp


theorem lastNS_join (sep : Str) (ls : List Str) (hne : ls ≠ []) (h : ∀ l ∈ ls, l ≠ [] ∧ LastNS l) :
    join sep ls ≠ [] ∧ LastNS (join sep ls) := by
  induction ls with
  | nil => exact absurd rfl hne
  | cons x r ih =>
    cases r with
    | nil => simpa [join] using h x (by simp)
    | cons y r' =>
      have := ih (by simp) (fun l hl => h l (by simp [hl]))
      rw [join_cons2]
      exact ⟨by simp [(h x (by simp)).1], lastNS_append _ _ this.1 this.2⟩

/-- the entry lines of an interface -/
def gLines (ir : IR) (edd : Bool) : List Str := ir.params.map (fun np => gLine np.1 np.2.typ (docText np.2 edd))

theorem gLine_lastNS (name : Str) (typ : Option Str) (d : Str) (hd : d ≠ []) (hl : LastNS d) :
    gLine name typ d ≠ [] ∧ LastNS (gLine name typ d) := by
  unfold gLine
  exact ⟨by simp [hd], lastNS_append _ d hd hl⟩

/-- **the emitted Google docstring** of an interface with parameters and without return entry -/
theorem emit_google_text (ir : IR) (et ww edd : Bool) (s : Str)
    (hh : ir.doc = [] ∨ GoodHeader ir.doc) (hr : ir.returns = Option.none) (hne : ir.params ≠ [])
    (hn : ∀ np ∈ ir.params, np.1 ≠ Doc.sReturnType) (hp : ∀ np ∈ ir.params, GoodEntry np.2)
    (he : emit ir .google et ww edd = .ok s) :
    ∃ pre, ((ir.doc = [] ∧ pre = []) ∨ (GoodHeader ir.doc ∧ pre = ir.doc ++ ['\n', '\n']))
      ∧ s = pre ++ (sArgs ++ ['\n'] ++ join ['\n'] (gLines ir edd)) ++ ['\n'] := by
  rw [emit_google_eq ir et ww edd hr] at he
  have hblocks : mapOut (fun np => emitParamStr np.1 np.2 .google et ww edd) ir.params = .ok (gLines ir edd) := by
    unfold gLines
    have := mapOut_map_ok (fun np : Str × Param => emitParamStr np.1 np.2 .google et ww edd) id
      (fun np => gLine np.1 np.2.typ (docText np.2 edd)) ir.params (fun np hnp => by
        have g := hp np hnp
        exact emitParamStr_google np.1 np.2 et ww edd (docText np.2 edd) (goodEntry_truthy _ g) (setDefaultDoc_good np.1 np.2 edd g)
          (by cases hb : (np.1 == Doc.sReturnType) with
              | false => rfl
              | true => exact absurd (beq_iff_eq.mp hb) (hn np hnp))
          (docText_good np.2 edd g).ne)
    rw [List.map_id] at this
    exact this
  rw [hblocks] at he
  simp only [] at he
  have hs := Out.ok.inj he
  have hgl : gLines ir edd ≠ [] := by unfold gLines; simpa using hne
  have hsec : gSection (gLines ir edd) = sArgs ++ ['\n'] ++ join ['\n'] (gLines ir edd) := by
    unfold gSection
    cases hg : gLines ir edd with
    | nil => exact absurd hg hgl
    | cons b r => simp [join_cons2]
  rw [hsec] at hs
  have hlast := lastNS_join ['\n'] (gLines ir edd) hgl (fun l hl => by
    unfold gLines at hl
    obtain ⟨np, hnp, rfl⟩ := List.mem_map.mp hl
    have g := docText_good np.2 edd (hp np hnp)
    exact gLine_lastNS _ _ _ g.ne g.lastNS)
  have hsolid : Solid (sArgs ++ ['\n'] ++ join ['\n'] (gLines ir edd)) :=
    ⟨⟨'A', _, rfl, by decide⟩, lastNS_append _ _ hlast.1 hlast.2⟩
  obtain ⟨pre, hpre, hfin⟩ := outOf_shape_solid ir.doc _ hh hsolid
  exact ⟨pre, hpre, by rw [← hs, hfin]⟩

end DocGNRT
