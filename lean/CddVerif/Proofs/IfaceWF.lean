import CddVerif.Proofs.IfaceFn
import CddVerif.Proofs.IfaceArgparse
/-!
# C14 — well-formedness of what the code-format model parsers return (`parseClass`, `parseFunction`, `parseArgparse`)

Helper lemmas for `Properties/C14Iface.lean`.  Everything here is about **every** input `t : Top`, every `env`.

The common shape: each of the three parsers builds its parameter dict by *inserting names one at a time* into a dict
(`d[k] = …` on a Python dict: an existing key keeps its place, a new one is appended).  On the key lists that is
`addKey`; `addKeys init ks` is the key list after inserting `ks` into a dict whose keys are `init`.
-/
namespace Iface

/-! ## inserting names into an ordered key list -/

/-- the key list after `d[k] = …` -/
def addKey (acc : List String) (k : String) : List String := if k ∈ acc then acc else acc ++ [k]
/-- … after a run of insertions -/
def addKeys (init ks : List String) : List String := ks.foldl addKey init

theorem addKey_nodup {acc : List String} (k : String) (h : acc.Nodup) : (addKey acc k).Nodup := by
  unfold addKey
  split
  · exact h
  · rename_i hm
    rw [List.nodup_append]
    refine ⟨h, by simp, ?_⟩
    intro a ha b hb
    simp only [List.mem_singleton] at hb
    subst hb
    exact fun e => hm (e ▸ ha)

theorem mem_addKey {acc : List String} {k x : String} : x ∈ addKey acc k ↔ x ∈ acc ∨ x = k := by
  unfold addKey
  split
  · rename_i hm
    constructor
    · exact Or.inl
    · rintro (h | h)
      · exact h
      · exact h ▸ hm
  · simp

theorem addKeys_nodup : ∀ (ks init : List String), init.Nodup → (addKeys init ks).Nodup
  | [], _, h => h
  | k :: ks, init, h => addKeys_nodup ks (addKey init k) (addKey_nodup k h)

theorem mem_addKeys : ∀ (ks init : List String) (x : String), x ∈ addKeys init ks ↔ x ∈ init ∨ x ∈ ks
  | [], _, _ => by simp [addKeys]
  | k :: ks, init, x => by
    have ih := mem_addKeys ks (addKey init k) x
    simp only [addKeys, List.foldl_cons] at ih ⊢
    rw [ih, mem_addKey]
    simp only [List.mem_cons, or_assoc]

theorem addKeys_nil (init : List String) : addKeys init [] = init := rfl

theorem addKeys_append (init ks ks' : List String) : addKeys init (ks ++ ks') = addKeys (addKeys init ks) ks' := by
  simp [addKeys, List.foldl_append]

/-- with pairwise distinct insertions: the old keys, then the new names in insertion order -/
theorem addKeys_eq_filter : ∀ (ks init : List String), ks.Nodup → addKeys init ks = init ++ ks.filter (fun k => decide (k ∉ init))
  | [], init, _ => by simp [addKeys]
  | k :: ks, init, h => by
    obtain ⟨hk, hks⟩ := List.nodup_cons.mp h
    have ih := addKeys_eq_filter ks (addKey init k) hks
    simp only [addKeys, List.foldl_cons] at ih ⊢
    rw [ih]
    by_cases hm : k ∈ init
    · simp [addKey, hm]
    · have hf : ks.filter (fun x => decide (x ∉ init ++ [k])) = ks.filter (fun x => decide (x ∉ init)) := by
        apply List.filter_congr
        intro x hx
        have : x ≠ k := fun e => hk (e ▸ hx)
        simp [this]
      simp only [addKey, hm, ↓reduceIte]
      rw [hf]
      simp [hm]

/-- nothing to insert into an empty dict but distinct names: the names themselves -/
theorem addKeys_nil_init (ks : List String) (h : ks.Nodup) : addKeys [] ks = ks := by
  rw [addKeys_eq_filter ks [] h]; simp

/-- the old keys stay in front, in their order -/
theorem addKeys_prefix : ∀ (ks init : List String), init <+: addKeys init ks
  | [], init => List.prefix_refl _
  | k :: ks, init => by
    have ih := addKeys_prefix ks (addKey init k)
    have h0 : init <+: addKey init k := by
      unfold addKey; split
      · exact List.prefix_refl _
      · exact List.prefix_append _ _
    exact List.IsPrefix.trans h0 ih

/-! ## dict operations on key lists -/

theorem dkeys_dmodify (d : Dict) (k : String) (f : Param → Param) : dkeys (dmodify d k f) = dkeys d := by
  unfold dkeys dmodify
  rw [List.map_map]
  apply List.map_congr_left
  intro kv _
  simp only [Function.comp]
  split <;> rfl

theorem dkeys_append (a b : Dict) : dkeys (a ++ b) = dkeys a ++ dkeys b := by simp [dkeys]

theorem dhas_iff_mem (d : Dict) (k : String) : dhas d k = true ↔ k ∈ dkeys d := by
  constructor
  · intro h
    simp only [dhas, List.any_eq_true, beq_iff_eq] at h
    obtain ⟨x, hx, he⟩ := h
    simp only [dkeys, List.mem_map]
    exact ⟨x, hx, he⟩
  · exact dhas_of_mem_keys d k

theorem dkeys_dpop_sublist (d : Dict) (k : String) : (dkeys (dpop d k)).Sublist (dkeys d) := by
  unfold dkeys dpop
  exact List.Sublist.map _ List.filter_sublist

theorem mem_dkeys_dpop {d : Dict} {k x : String} (h : x ∈ dkeys (dpop d k)) : x ∈ dkeys d :=
  (dkeys_dpop_sublist d k).subset h

/-- a dict update on the key list -/
theorem dkeys_upsert (d : Dict) (k : String) (f : Param → Param) (p : Param) :
    dkeys (if dhas d k then dmodify d k f else d ++ [(k, p)]) = addKey (dkeys d) k := by
  unfold addKey
  by_cases h : dhas d k = true
  · simp [h, dkeys_dmodify, (dhas_iff_mem d k).mp h]
  · have hm : k ∉ dkeys d := fun hm => h ((dhas_iff_mem d k).mpr hm)
    simp only [h, Bool.false_eq_true, ↓reduceIte, dkeys_append, hm]
    rfl

/-! ## `_set_name_and_type`: the name is returned unchanged, and only when it is neither `*…` nor `…kwargs` -/

theorem setNameAndType_name {env : Env} {it : Bool} {kv kv' : String × Param} (h : setNameAndType env it kv = .ok kv') :
    kv'.1 = kv.1 ∧ endsWith kv.1 "kwargs" = false ∧ startsWith kv.1 "*" = false := by
  obtain ⟨n, p⟩ := kv
  unfold setNameAndType at h
  simp only [bind, Except.bind, pure, Except.pure] at h
  by_cases hc : (endsWith n "kwargs" || startsWith n "*") = true
  · simp [hc] at h
  · have hc' : (endsWith n "kwargs" || startsWith n "*") = false := by simpa using hc
    simp only [hc', Bool.false_eq_true, ↓reduceIte] at h
    simp only [Bool.or_eq_false_iff] at hc'
    refine ⟨?_, hc'.1, hc'.2⟩
    split at h
    · split at h
      · cases h
      · cases h; rfl
    · cases h; rfl

theorem mapM_snt_keys {env : Env} {it : Bool} : ∀ {ps ps' : Dict}, ps.mapM (setNameAndType env it) = .ok ps' →
    dkeys ps' = dkeys ps ∧ ∀ k ∈ dkeys ps, endsWith k "kwargs" = false ∧ startsWith k "*" = false
  | [], ps', h => by
    simp only [List.mapM_nil, pure, Except.pure] at h
    cases h
    simp [dkeys]
  | kv :: ps, ps', h => by
    rw [List.mapM_cons] at h
    simp only [bind, Except.bind, pure, Except.pure] at h
    split at h
    · cases h
    · rename_i kv' hkv
      split at h
      · cases h
      · rename_i r hr
        cases h
        obtain ⟨h1, h2⟩ := setNameAndType_name hkv
        obtain ⟨i1, i2⟩ := mapM_snt_keys hr
        refine ⟨by simp only [dkeys, List.map_cons] at i1 ⊢; rw [h1, i1], ?_⟩
        intro k hk
        simp only [dkeys, List.map_cons, List.mem_cons] at hk
        rcases hk with hk | hk
        · subst hk; exact h2
        · exact i2 k hk

/-! ## class / pydantic -/

/-- the name a class-body statement inserts into the parameter dict -/
def classNew : Stmt → List String
  | .ann t _ _ => if t == "return_type" then [] else [t]
  | _ => []

/-- `classStep` on an `AnnAssign` once the default has been read -/
def classAnnTail (ir : IR) (target ann : String) (dv : Option DVal) : Except String IR :=
  let upd (p : Param) : Param := { p with typ := some ann, default := match dv with | some v => some v | none => p.default }
  if startsWith target "*" then .error "unsupported: starred target"
  else if dhas ir.params target then .ok { ir with params := dmodify ir.params target upd }
  else if target == "return_type" then
    (match ir.returns with
     | some r => .ok { ir with returns := some (upd r) }
     | none => .ok { ir with returns := some (upd {}) })
  else .ok { ir with params := ir.params ++ [(target, upd {})] }

theorem classStep_ann {ir ir' : IR} {target ann : String} {value : Option Expr}
    (h : classStep ir (.ann target ann value) = .ok ir') : ∃ dv, classAnnTail ir target ann dv = .ok ir' := by
  cases value with
  | none => exact ⟨none, h⟩
  | some e =>
    simp only [classStep, bind, Except.bind, pure, Except.pure] at h
    cases hcd : classDefaultOf e with
    | error m => simp [hcd] at h
    | ok v => simp only [hcd] at h; exact ⟨some v, h⟩

theorem classAnnTail_keys {ir ir' : IR} {target ann : String} {dv : Option DVal}
    (h : classAnnTail ir target ann dv = .ok ir') :
    dkeys ir'.params = addKeys (dkeys ir.params) (if target == "return_type" then [] else [target]) := by
  unfold classAnnTail at h
  simp only at h
  by_cases hs : startsWith target "*" = true
  · simp [hs] at h
  · simp only [hs, Bool.false_eq_true, ↓reduceIte] at h
    by_cases hh : dhas ir.params target = true
    · simp only [hh, ↓reduceIte] at h
      cases h
      have hm := (dhas_iff_mem _ _).mp hh
      simp only [dkeys_dmodify]
      split
      · rfl
      · simp [addKeys, addKey, hm]
    · simp only [hh, Bool.false_eq_true, ↓reduceIte] at h
      have hm : target ∉ dkeys ir.params := fun hm => hh ((dhas_iff_mem _ _).mpr hm)
      by_cases hr : (target == "return_type") = true
      · simp only [hr, ↓reduceIte] at h ⊢
        split at h <;> (cases h; rfl)
      · simp only [hr, Bool.false_eq_true, ↓reduceIte] at h ⊢
        cases h
        simp only [dkeys_append, addKeys, List.foldl_cons, List.foldl_nil, addKey, hm, ↓reduceIte]
        rfl

theorem classStep_keys {ir ir' : IR} {s : Stmt} (h : classStep ir s = .ok ir') :
    dkeys ir'.params = addKeys (dkeys ir.params) (classNew s) := by
  cases s with
  | ann target ann value =>
    obtain ⟨dv, hdv⟩ := classStep_ann h
    exact classAnnTail_keys hdv
  | descr c => simp [classStep] at h
  | doc s => simp only [classStep, pure, Except.pure] at h; cases h; rfl
  | addArg a => simp only [classStep, pure, Except.pure] at h; cases h; rfl
  | ret e => simp only [classStep, pure, Except.pure] at h; cases h; rfl
  | retTuple e => simp only [classStep, pure, Except.pure] at h; cases h; rfl
  | retParser => simp only [classStep, pure, Except.pure] at h; cases h; rfl
  | ellipsis => simp only [classStep, pure, Except.pure] at h; cases h; rfl
  | other s => simp only [classStep, pure, Except.pure] at h; cases h; rfl

theorem classFold_keys : ∀ (body : List Stmt) (ir ir' : IR), body.foldlM classStep ir = .ok ir' →
    dkeys ir'.params = addKeys (dkeys ir.params) (body.flatMap classNew)
  | [], ir, ir', h => by
    simp only [List.foldlM_nil, pure, Except.pure] at h
    cases h; rfl
  | s :: body, ir, ir', h => by
    rw [List.foldlM_cons] at h
    simp only [bind, Except.bind] at h
    split at h
    · cases h
    · rename_i ir1 h1
      rw [classFold_keys body ir1 ir' h, classStep_keys h1, List.flatMap_cons, addKeys_append]

theorem dpop_of_dget?_none {d : Dict} {k : String} (h : dget? d k = none) : dpop d k = d := by
  unfold dget? at h
  simp only [Option.map_eq_none_iff, List.find?_eq_none] at h
  unfold dpop
  rw [List.filter_eq_self]
  intro x hx
  simpa using h x hx

/-- the parameter entries the docstring layer hands to the class parser (none without a docstring) -/
def clsDocParams (env : Env) : Top → Dict
  | .cls _ _ body => match (splitDoc body).1 with | none => [] | some s => (env.docParse .cls s).params
  | _ => []
/-- the attribute names of the class body, in order (`return_type` is the return entry) -/
def clsBodyNames : Top → List String
  | .cls _ _ body => (splitDoc body).2.flatMap classNew
  | _ => []

/-- **names of `parseClass`**: the docstring layer's names (without `return_type`), then the attribute names that
    the docstring did not mention, in body order; `_set_name_and_type` accepted every one of them -/
theorem parseClass_keys {env : Env} {it : Bool} {t : Top} {ir : IR} (h : parseClass env it t = .ok ir) :
    dkeys ir.params = addKeys (dkeys (dpop (clsDocParams env t) "return_type")) (clsBodyNames t) ∧
    ∀ k ∈ dkeys ir.params, endsWith k "kwargs" = false ∧ startsWith k "*" = false := by
  cases t with
  | fn n a b r => simp [parseClass] at h
  | cls cname bases body =>
    simp only [parseClass, bind, Except.bind, pure, Except.pure] at h
    split at h
    · cases h
    · rename_i ir2 h2
      split at h
      · cases h
      · rename_i ps hps
        cases h
        obtain ⟨k1, k2⟩ := mapM_snt_keys hps
        have hf := classFold_keys _ _ _ h2
        simp only at k1 k2 ⊢
        rw [k1]
        refine ⟨?_, k2⟩
        rw [hf]
        simp only [clsDocParams, clsBodyNames]
        congr 1
        cases hd : (splitDoc body).1 with
        | none => simp [dget?, dpop]
        | some s =>
          simp only
          cases hg : dget? (env.docParse .cls s).params "return_type" with
          | none => simp only; rw [dpop_of_dget?_none hg]
          | some p => rfl

/-! ## `merge_params` on key lists: the target's keys, then the names only `other` has, in `other`'s order -/

theorem dkeys_stepCommon (other T : Dict) (k : String) : dkeys (stepCommon other T k) = dkeys T := by
  unfold stepCommon
  split
  · exact dkeys_dmodify _ _ _
  · rfl

theorem dkeys_foldl_stepCommon (other : Dict) : ∀ (ks : List String) (T : Dict), dkeys (ks.foldl (stepCommon other) T) = dkeys T
  | [], _ => rfl
  | k :: ks, T => by rw [List.foldl_cons, dkeys_foldl_stepCommon other ks, dkeys_stepCommon]

theorem dget?_of_mem_keys (d : Dict) (k : String) (h : k ∈ dkeys d) : ∃ p, dget? d k = some p := by
  have := dhas_of_mem_keys d k h
  unfold dhas at this
  unfold dget?
  cases hf : d.find? (fun x => x.1 == k) with
  | some x => exact ⟨x.2, rfl⟩
  | none =>
    rw [List.find?_eq_none] at hf
    simp only [List.any_eq_true] at this
    obtain ⟨x, hx, he⟩ := this
    exact absurd he (hf x hx)

theorem dkeys_stepMissing (other T : Dict) (k : String) (hk : k ∈ dkeys other) :
    dkeys (stepMissing other T k) = addKey (dkeys T) k := by
  obtain ⟨o, ho⟩ := dget?_of_mem_keys other k hk
  unfold stepMissing
  rw [ho]
  simp only
  unfold addKey
  by_cases hh : dhas T k = true
  · simp [hh, (dhas_iff_mem T k).mp hh]
  · have hm : k ∉ dkeys T := fun hm => hh ((dhas_iff_mem T k).mpr hm)
    simp only [hh, Bool.false_eq_true, ↓reduceIte, dset, dkeys_append, hm]
    rfl

theorem dkeys_foldl_stepMissing (other : Dict) : ∀ (ks : List String) (T : Dict), (∀ k ∈ ks, k ∈ dkeys other) →
    dkeys (ks.foldl (stepMissing other) T) = addKeys (dkeys T) ks
  | [], _, _ => rfl
  | k :: ks, T, h => by
    rw [List.foldl_cons, dkeys_foldl_stepMissing other ks _ (fun x hx => h x (List.mem_cons_of_mem _ hx)),
      dkeys_stepMissing other T k (h k (List.mem_cons_self ..))]
    rfl

theorem dkeys_mergeParams (other target : Dict) : dkeys (mergeParams other target) = addKeys (dkeys target) (dkeys other) := by
  unfold mergeParams
  rw [dkeys_foldl_stepMissing other _ _ (fun _ h => h), dkeys_foldl_stepCommon]

/-! ## function -/

theorem dkeys_sigParams (args : List Arg) (ds : List (Option Expr)) : dkeys (sigParams args ds) = args.map (·.name) := by
  unfold sigParams dkeys
  simp only [List.map_map]
  have : ((fun x : String × Param => x.1) ∘ fun (x : Arg × Nat) => funcArg2Param x.1 ((padDefaults args.length ds)[x.2]?.join)) =
      (fun a => a.name) ∘ Prod.fst := by
    funext x; rfl
  simp [this, ← List.map_map]

/-- the positional-or-keyword arguments the function parser keeps: all of them, or all but a leading `self` / `cls` -/
def fnPosArgs (a : FnArgs) : List Arg := if foundTypeOf a.args == "static" then a.args else a.args.drop 1

/-- names of the signature's positional-or-keyword and keyword-only parameters (after the `self`/`cls` drop) -/
def sigNames : Top → List String
  | .fn _ a _ _ => (fnPosArgs a).map (·.name) ++ a.kwonly.map (·.name)
  | _ => []

/-- every positional-or-keyword and keyword-only name of the signature, receiver included -/
def allArgNames : Top → List String
  | .fn _ a _ _ => a.args.map (·.name) ++ a.kwonly.map (·.name)
  | _ => []

theorem sigNames_sublist (t : Top) : (sigNames t).Sublist (allArgNames t) := by
  cases t with
  | cls _ _ _ => exact List.Sublist.refl _
  | fn n a b r =>
    simp only [sigNames, allArgNames, fnPosArgs]
    apply List.Sublist.append_right
    split
    · exact List.Sublist.refl _
    · exact List.Sublist.map _ (List.drop_sublist _ _)

/-- what the docstring layer hands to the function parser (an empty interface without a docstring) -/
def fnDocIR (env : Env) (it : Bool) : Top → IR
  | .fn fname _ body _ =>
    match (splitDoc body).1 with
    | none => { name := some fname, params := [], returns := none }
    | some s => env.docParse (.fn it) (String.ofList (Py.replace s.toList ":cvar".toList ":param".toList))
  | _ => {}

theorem parseFunction_unfold (env : Env) (it : Bool) (name : String) (args : FnArgs) (body : List Stmt) (annot : Option String) :
    parseFunction env it (.fn name args body annot) =
      (do let ir0 := fnDocIR env it (.fn name args body annot)
          let sig := sigParams (fnPosArgs args) (args.defaults.map some) ++ sigParams args.kwonly args.kwDefaults
          let params ← (if ir0.params.isEmpty then sig else if sig.isEmpty then ir0.params else mergeParams sig ir0.params).mapM
                         (setNameAndType env it)
          let returns ← fnRetStep env it (interpolateReturn (splitDoc body).2 annot ir0.returns)
          pure { name := some name, type := some (foundTypeOf args.args), doc := ir0.doc, params := params, returns := returns }) := by
  rfl

/-- **names of `parseFunction`**: the signature's names when the docstring layer has no entries, otherwise the
    docstring layer's names followed by the signature names it did not mention, in signature order -/
theorem parseFunction_keys {env : Env} {it : Bool} {t : Top} {ir : IR} (h : parseFunction env it t = .ok ir) :
    dkeys ir.params = (if (fnDocIR env it t).params.isEmpty then sigNames t
                       else addKeys (dkeys (fnDocIR env it t).params) (sigNames t)) ∧
    ∀ k ∈ dkeys ir.params, endsWith k "kwargs" = false ∧ startsWith k "*" = false := by
  cases t with
  | cls n b body => simp [parseFunction] at h
  | fn name args body annot =>
    rw [parseFunction_unfold] at h
    simp only [bind, Except.bind, pure, Except.pure] at h
    split at h
    · cases h
    · rename_i ps hps
      split at h
      · cases h
      · cases h
        obtain ⟨k1, k2⟩ := mapM_snt_keys hps
        simp only
        rw [k1]
        refine ⟨?_, k2⟩
        have hsig : dkeys (sigParams (fnPosArgs args) (args.defaults.map some) ++ sigParams args.kwonly args.kwDefaults) =
            sigNames (.fn name args body annot) := by
          rw [dkeys_append, dkeys_sigParams, dkeys_sigParams]; rfl
        by_cases h0 : (fnDocIR env it (.fn name args body annot)).params.isEmpty = true
        · simp only [h0, ↓reduceIte, hsig]
        · simp only [h0, Bool.false_eq_true, ↓reduceIte]
          split
          · rename_i he
            have : sigNames (.fn name args body annot) = [] := by
              rw [← hsig]
              simp only [List.isEmpty_iff] at he
              rw [he]; rfl
            rw [this]; rfl
          · rw [dkeys_mergeParams, hsig]

/-! ## argparse -/

theorem parseOutParam_name {env : Env} {a : AddArg} {kv : String × Param} (h : parseOutParam env a = .ok kv) : kv.1 = a.name := by
  unfold parseOutParam at h
  simp only [bind, Except.bind, pure, Except.pure] at h
  cases hd : a.default with
  | none => simp only [hd] at h; cases h; rfl
  | some e =>
    simp only [hd] at h
    cases hg : getValue e with
    | val d => simp only [hg] at h; cases h; rfl
    | node n => simp [hg] at h

/-- the name an argparse-body statement inserts -/
def argNew : Stmt → List String
  | .addArg a => [a.name]
  | _ => []

theorem argparseStep_keys {env : Env} {docIR : IR} {raw : String} {ir ir' : IR} {s : Stmt}
    (h : argparseStep env docIR raw ir s = .ok ir') : dkeys ir'.params = addKeys (dkeys ir.params) (argNew s) := by
  cases s with
  | addArg a =>
    simp only [argparseStep, bind, Except.bind, pure, Except.pure] at h
    cases hp : parseOutParam env a with
    | error m => simp [hp] at h
    | ok kv =>
      obtain ⟨name, p⟩ := kv
      have hn : name = a.name := parseOutParam_name hp
      subst hn
      simp only [hp] at h
      simp only [argNew, addKeys, List.foldl_cons, List.foldl_nil]
      rw [← dkeys_upsert ir.params a.name (fun q => { doc := p.doc, typ := p.typ, default := match p.default with | some d => some d | none => q.default }) p]
      split at h <;> (rename_i hh; cases h; simp only [hh, ↓reduceIte, Bool.false_eq_true]; try rfl)
  | descr c =>
    simp only [argparseStep] at h
    split at h
    · simp only [pure, Except.pure] at h; cases h; rfl
    · cases h
  | retTuple e =>
    simp only [argparseStep, bind, Except.bind, pure, Except.pure] at h
    split at h
    · cases h
    · cases h; rfl
  | doc s => simp only [argparseStep, pure, Except.pure] at h; cases h; rfl
  | ann a b c => simp only [argparseStep, pure, Except.pure] at h; cases h; rfl
  | ret e => simp only [argparseStep, pure, Except.pure] at h; cases h; rfl
  | retParser => simp only [argparseStep, pure, Except.pure] at h; cases h; rfl
  | ellipsis => simp only [argparseStep, pure, Except.pure] at h; cases h; rfl
  | other s => simp only [argparseStep, pure, Except.pure] at h; cases h; rfl

theorem argparseFold_keys {env : Env} {docIR : IR} {raw : String} : ∀ (body : List Stmt) (ir ir' : IR),
    body.foldlM (argparseStep env docIR raw) ir = .ok ir' → dkeys ir'.params = addKeys (dkeys ir.params) (body.flatMap argNew)
  | [], ir, ir', h => by
    simp only [List.foldlM_nil, pure, Except.pure] at h
    cases h; rfl
  | s :: body, ir, ir', h => by
    rw [List.foldlM_cons] at h
    simp only [bind, Except.bind] at h
    split at h
    · cases h
    · rename_i ir1 h1
      rw [argparseFold_keys body ir1 ir' h, argparseStep_keys h1, List.flatMap_cons, addKeys_append]

/-- the `add_argument` names of the body, in order -/
def apBodyNames : Top → List String
  | .fn _ _ body _ => (splitDoc body).2.flatMap argNew
  | _ => []

/-- **names of `parseArgparse`**: the `add_argument` names, first occurrences, in body order -/
theorem parseArgparse_keys {env : Env} {t : Top} {ir : IR} (h : parseArgparse env t = .ok ir) :
    dkeys ir.params = addKeys [] (apBodyNames t) := by
  cases t with
  | cls n b body => simp [parseArgparse] at h
  | fn name args body annot =>
    simp only [parseArgparse] at h
    split at h
    · exact argparseFold_keys _ _ _ h
    · cases h

/-! ## a present type is a non-empty string -/

/-- the entry has no type, or a non-empty one -/
def TypNE (p : Param) : Prop := p.typ ≠ some ""
instance (p : Param) : Decidable (TypNE p) := inferInstanceAs (Decidable (p.typ ≠ some ""))
def IRTypNE (ir : IR) : Prop := (∀ kv ∈ ir.params, TypNE kv.2) ∧ ∀ r, ir.returns = some r → TypNE r
/-- the docstring layer never answers an empty type -/
def DocTypNE (env : Env) : Prop := ∀ cfg s, IRTypNE (env.docParse cfg s)
/-- `parse_adhoc_doc_for_typ` never answers an empty type -/
def AdhocNE (env : Env) : Prop := ∀ d n b, env.adhocTyp d n b ≠ some ""

theorem str_append_ne_left {a : String} (b : String) (h : a ≠ "") : a ++ b ≠ "" := by
  intro he
  have := congrArg String.toList he
  simp only [String.toList_append] at this
  have e : "".toList = [] := by decide
  rw [e, List.append_eq_nil_iff] at this
  exact h (toList_inj' (by rw [this.1, e]))

theorem str_append_ne_right (a : String) {b : String} (h : b ≠ "") : a ++ b ≠ "" := by
  intro he
  have := congrArg String.toList he
  simp only [String.toList_append] at this
  have e : "".toList = [] := by decide
  rw [e, List.append_eq_nil_iff] at this
  exact h (toList_inj' (by rw [this.2, e]))

theorem optional_wrap_ne (t : String) : "Optional[" ++ t ++ "]" ≠ "" := str_append_ne_right _ (by decide)

theorem typeName_ne (d : Default) : d.typeName ≠ "" := by cases d <;> (simp only [Default.typeName]; decide)

theorem pyTypeName_ne {d : DVal} {n : String} (h : d.pyTypeName = some n) : n ≠ "" := by
  cases d with
  | val v => simp only [DVal.pyTypeName, Option.some.injEq] at h; subst h; exact typeName_ne v
  | node e =>
    cases e with
    | const c => simp only [DVal.pyTypeName, nodeTypeName, Option.some.injEq] at h; subst h; decide
    | neg c => simp only [DVal.pyTypeName, nodeTypeName, Option.some.injEq] at h; subst h; decide
    | name c => simp only [DVal.pyTypeName, nodeTypeName, Option.some.injEq] at h; subst h; decide
    | code src t =>
      simp only [DVal.pyTypeName, nodeTypeName] at h
      split at h
      · simp only [Option.some.injEq] at h; subst h; decide
      · cases h

/-! ### `_infer_default`

The `do` block compiles to nested join points (the continuation after each `let typ ← if … then … else …`); the proof
states the invariant "the type is absent or non-empty" at each join point, innermost first. -/

theorem inferDefault_typ {it : Bool} {p q : Param} (h : inferDefault it p = .ok q) (hp : TypNE p) : TypNE q := by
  obtain ⟨doc, typ, dflt⟩ := p
  have hp' : typ ≠ some "" := hp
  cases dflt with
  | none => cases h; exact hp
  | some d =>
    unfold inferDefault at h
    simp -zeta only [] at h
    extract_lets dA dB jpX jpT at h
    clear_value dB
    have hjpX : ∀ x : DVal × Option String, x.2 ≠ some "" → ∀ q, jpX x = .ok q → TypNE q := by
      intro x hx q hq
      simp -zeta only [jpX] at hq
      extract_lets jp4 jp3 at hq
      have hjp4 : ∀ ty, ty ≠ some "" → ∀ q, jp4 ty = .ok q → TypNE q := by
        intro ty hty q hq; simp only [jp4, pure, Except.pure] at hq; cases hq; exact hty
      have hjp3 : ∀ ty, ty ≠ some "" → ∀ q, jp3 ty = .ok q → TypNE q := by
        intro ty hty q hq
        simp -zeta only [jp3] at hq
        split at hq
        · split at hq
          · rename_i t _
            simp only [bind, Except.bind, pure, Except.pure] at hq
            refine hjp4 _ ?_ q hq
            split
            · exact hty
            · simp
          · simp only [bind, Except.bind] at hq; cases hq
        · exact hjp4 ty hty q hq
      split at hq
      · split at hq
        · rename_i n hn
          simp only [bind, Except.bind, pure, Except.pure] at hq
          exact hjp3 (some n) (by simpa using pyTypeName_ne hn) q hq
        · simp only [bind, Except.bind] at hq; cases hq
      · exact hjp3 _ hx q hq
    have hjpT : ∀ ty, ty ≠ some "" → ∀ q, jpT ty = .ok q → TypNE q := by
      intro ty hty q hq
      simp -zeta only [jpT] at hq
      repeat' (split at hq)
      all_goals (simp only [bind, Except.bind, pure, Except.pure] at hq)
      all_goals (first | cases hq | refine hjpX _ ?_ q hq)
      all_goals (try simp only [])
      all_goals (first | exact hty | (intro he; exact typeName_ne _ (Option.some.inj he)))
    split at h
    · split at h
      · rename_i n hn
        simp only [bind, Except.bind, pure, Except.pure] at h
        exact hjpT (some n) (by simpa using pyTypeName_ne hn) q h
      · simp only [bind, Except.bind] at h; cases h
    · exact hjpT _ hp' q h

/-! ### `_set_name_and_type` -/

theorem sntMerge_typ (env : Env) (p : Param) : (sntMerge env p).typ = p.typ := by
  unfold sntMerge
  split
  · rw [mergePresent_typ]; simp
  · rfl

theorem sntGoogle_typ {p : Param} (h : TypNE p) : TypNE (sntGoogle p) := by
  unfold sntGoogle
  split
  · split
    · unfold TypNE; simp
    · exact h
  · exact h

theorem sntDoc_typ {env : Env} (hA : AdhocNE env) (name : String) (wasNone : Bool) {p : Param} (h : TypNE p) :
    TypNE (sntDoc env name wasNone p) := by
  unfold sntDoc
  split
  · exact h
  · rename_i d _
    simp only
    have h1 : TypNE (match env.adhocTyp (tidyDoc d) name (isNoneStrD p.default) with
        | some t => { doc := some (tidyDoc d), typ := some t, default := p.default }
        | none => { doc := some (tidyDoc d), typ := p.typ, default := p.default } : Param) := by
      split
      · rename_i t ht
        unfold TypNE; simp only [ne_eq, Option.some.injEq]
        intro he; subst he; exact hA _ _ _ ht
      · exact h
    split
    · split
      · split
        · exact h1
        · unfold TypNE; simp
      · exact h1
    · exact h1

theorem setNameAndType_typ {env : Env} (hA : AdhocNE env) {it : Bool} {kv kv' : String × Param}
    (h : setNameAndType env it kv = .ok kv') (hp : TypNE kv.2) : TypNE kv'.2 := by
  obtain ⟨n, p⟩ := kv
  unfold setNameAndType at h
  simp only [bind, Except.bind, pure, Except.pure] at h
  have hm : TypNE (sntMerge env p) := by unfold TypNE; rw [sntMerge_typ]; exact hp
  by_cases hc : (endsWith n "kwargs" || startsWith n "*") = true
  · simp [hc] at h
  · have hc' : (endsWith n "kwargs" || startsWith n "*") = false := by simpa using hc
    simp only [hc', Bool.false_eq_true, ↓reduceIte] at h
    split at h
    · split at h
      · cases h
      · rename_i q hq
        cases h
        exact sntDoc_typ hA _ _ (by unfold sntDropEmptyDoc; split <;> exact sntGoogle_typ (inferDefault_typ hq hm))
    · cases h
      exact sntDoc_typ hA _ _ (by unfold sntDropEmptyDoc; split <;> exact sntGoogle_typ hm)

theorem mapM_snt_typ {env : Env} (hA : AdhocNE env) {it : Bool} : ∀ {ps ps' : Dict}, ps.mapM (setNameAndType env it) = .ok ps' →
    (∀ kv ∈ ps, TypNE kv.2) → ∀ kv ∈ ps', TypNE kv.2
  | [], ps', h, _ => by
    simp only [List.mapM_nil, pure, Except.pure] at h
    cases h
    simp
  | kv :: ps, ps', h, hall => by
    rw [List.mapM_cons] at h
    simp only [bind, Except.bind, pure, Except.pure] at h
    split at h
    · cases h
    · rename_i kv' hkv
      split at h
      · cases h
      · rename_i r hr
        cases h
        intro x hx
        rcases List.mem_cons.mp hx with hx | hx
        · subst hx; exact setNameAndType_typ hA hkv (hall kv (List.mem_cons_self ..))
        · exact mapM_snt_typ hA hr (fun y hy => hall y (List.mem_cons_of_mem _ hy)) x hx

/-! ### class / pydantic: types of the entries and of the return entry -/

/-- the annotation of an `AnnAssign` is a non-empty source text (CPython: it is `ast.unparse` of an expression) -/
def annNE : Stmt → Prop
  | .ann _ a _ => a ≠ ""
  | _ => True
def clsAnnNE : Top → Prop
  | .cls _ _ body => ∀ s ∈ body, annNE s
  | _ => True

theorem dget?_mem {d : Dict} {k : String} {p : Param} (h : dget? d k = some p) : ∃ k', (k', p) ∈ d := by
  unfold dget? at h
  cases hf : d.find? (fun x => x.1 == k) with
  | none => simp [hf] at h
  | some x =>
    simp only [hf, Option.map_some, Option.some.injEq] at h
    subst h
    exact ⟨x.1, List.mem_of_find?_eq_some hf⟩

theorem dmodify_all {P : Param → Prop} {d : Dict} {k : String} {f : Param → Param} (hf : ∀ p, P (f p))
    (hd : ∀ kv ∈ d, P kv.2) : ∀ kv ∈ dmodify d k f, P kv.2 := by
  intro kv hkv
  unfold dmodify at hkv
  simp only [List.mem_map] at hkv
  obtain ⟨x, hx, he⟩ := hkv
  split at he
  · subst he; exact hf _
  · subst he; exact hd x hx

theorem classAnnTail_typ {ir ir' : IR} {target ann : String} {dv : Option DVal}
    (h : classAnnTail ir target ann dv = .ok ir') (ha : ann ≠ "") (hi : IRTypNE ir) : IRTypNE ir' := by
  have hann : (some ann : Option String) ≠ some "" := by simpa using ha
  unfold classAnnTail at h
  simp only at h
  split at h
  · cases h
  · split at h
    · cases h
      refine ⟨?_, hi.2⟩
      simp only
      refine dmodify_all ?_ hi.1
      intro p; exact hann
    · split at h
      · split at h
        · cases h
          refine ⟨hi.1, ?_⟩
          intro r hr
          simp only [Option.some.injEq] at hr
          subst hr; exact hann
        · cases h
          refine ⟨hi.1, ?_⟩
          intro r hr
          simp only [Option.some.injEq] at hr
          subst hr; exact hann
      · cases h
        refine ⟨?_, hi.2⟩
        intro kv hkv
        rcases List.mem_append.mp hkv with hkv | hkv
        · exact hi.1 kv hkv
        · simp only [List.mem_singleton] at hkv
          subst hkv; exact hann

theorem classStep_typ {ir ir' : IR} {s : Stmt} (h : classStep ir s = .ok ir') (hs : annNE s) (hi : IRTypNE ir) : IRTypNE ir' := by
  cases s with
  | ann target ann value =>
    obtain ⟨dv, hdv⟩ := classStep_ann h
    exact classAnnTail_typ hdv hs hi
  | descr c => simp [classStep] at h
  | doc s => simp only [classStep, pure, Except.pure] at h; cases h; exact hi
  | addArg a => simp only [classStep, pure, Except.pure] at h; cases h; exact hi
  | ret e => simp only [classStep, pure, Except.pure] at h; cases h; exact hi
  | retTuple e => simp only [classStep, pure, Except.pure] at h; cases h; exact hi
  | retParser => simp only [classStep, pure, Except.pure] at h; cases h; exact hi
  | ellipsis => simp only [classStep, pure, Except.pure] at h; cases h; exact hi
  | other s => simp only [classStep, pure, Except.pure] at h; cases h; exact hi

theorem classFold_typ : ∀ (body : List Stmt) (ir ir' : IR), body.foldlM classStep ir = .ok ir' → (∀ s ∈ body, annNE s) →
    IRTypNE ir → IRTypNE ir'
  | [], ir, ir', h, _, hi => by
    simp only [List.foldlM_nil, pure, Except.pure] at h
    cases h; exact hi
  | s :: body, ir, ir', h, hb, hi => by
    rw [List.foldlM_cons] at h
    simp only [bind, Except.bind] at h
    split at h
    · cases h
    · rename_i ir1 h1
      exact classFold_typ body ir1 ir' h (fun x hx => hb x (List.mem_cons_of_mem _ hx))
        (classStep_typ h1 (hb s (List.mem_cons_self ..)) hi)

theorem splitDoc_rest_subset (body : List Stmt) : ∀ s ∈ (splitDoc body).2, s ∈ body := by
  intro s hs
  unfold splitDoc at hs
  split at hs
  · exact List.mem_cons_of_mem _ hs
  · exact hs

/-- **types of `parseClass`**: no entry and no return entry carries an empty type, provided the docstring layer and the
    ad-hoc type reader never answer one and every annotation in the body is non-empty -/
theorem parseClass_typ {env : Env} (hA : AdhocNE env) (hD : DocTypNE env) {it : Bool} {t : Top} {ir : IR}
    (ht : clsAnnNE t) (h : parseClass env it t = .ok ir) : IRTypNE ir := by
  cases t with
  | fn n a b r => simp [parseClass] at h
  | cls cname bases body =>
    simp only [parseClass, bind, Except.bind, pure, Except.pure] at h
    split at h
    · cases h
    · rename_i ir2 h2
      split at h
      · cases h
      · rename_i ps hps
        cases h
        have h1 : IRTypNE (match dget? (match (splitDoc body).1 with
              | none => ({ name := none, type := some "static", doc := "", params := [], returns := none } : IR)
              | some s => env.docParse .cls s).params "return_type" with
            | some p => { (match (splitDoc body).1 with
              | none => ({ name := none, type := some "static", doc := "", params := [], returns := none } : IR)
              | some s => env.docParse .cls s) with
                params := dpop (match (splitDoc body).1 with
              | none => ({ name := none, type := some "static", doc := "", params := [], returns := none } : IR)
              | some s => env.docParse .cls s).params "return_type", returns := some p }
            | none => (match (splitDoc body).1 with
              | none => ({ name := none, type := some "static", doc := "", params := [], returns := none } : IR)
              | some s => env.docParse .cls s)) := by
          have h0 : IRTypNE (match (splitDoc body).1 with
              | none => ({ name := none, type := some "static", doc := "", params := [], returns := none } : IR)
              | some s => env.docParse .cls s) := by
            split
            · exact ⟨by simp, by simp⟩
            · exact hD _ _
          generalize (match (splitDoc body).1 with
              | none => ({ name := none, type := some "static", doc := "", params := [], returns := none } : IR)
              | some s => env.docParse .cls s) = ir0 at h0 ⊢
          split
          · rename_i p hp
            obtain ⟨k', hk'⟩ := dget?_mem hp
            refine ⟨?_, ?_⟩
            · intro kv hkv
              exact h0.1 kv (List.mem_filter.mp hkv).1
            · intro r hr
              simp only [Option.some.injEq] at hr
              subst hr
              exact h0.1 _ hk'
          · exact h0
        have h2' := classFold_typ _ _ _ h2 (fun s hs => ht s (splitDoc_rest_subset body s hs)) h1
        exact ⟨mapM_snt_typ hA hps h2'.1, h2'.2⟩

/-! ### `merge_params`: every entry of the result is a merged target entry or an entry of `other` -/

theorem dkv_stepCommon_all {P : Param → Prop} (hmp : ∀ o t, P o → P t → P (mergePresent o t)) {other T : Dict} (k : String)
    (ho : ∀ kv ∈ other, P kv.2) (hT : ∀ kv ∈ T, P kv.2) : ∀ kv ∈ stepCommon other T k, P kv.2 := by
  unfold stepCommon
  split
  · rename_i o hg
    obtain ⟨k', hk'⟩ := dget?_mem hg
    intro kv hkv
    unfold dmodify at hkv
    simp only [List.mem_map] at hkv
    obtain ⟨x, hx, he⟩ := hkv
    split at he
    · subst he; exact hmp _ _ (ho (k', o) hk') (hT x hx)
    · subst he; exact hT x hx
  · exact hT

theorem foldl_stepCommon_all {P : Param → Prop} (hmp : ∀ o t, P o → P t → P (mergePresent o t)) {other : Dict}
    (ho : ∀ kv ∈ other, P kv.2) : ∀ (ks : List String) (T : Dict), (∀ kv ∈ T, P kv.2) →
    ∀ kv ∈ ks.foldl (stepCommon other) T, P kv.2
  | [], _, hT => hT
  | k :: ks, T, hT => by
    rw [List.foldl_cons]
    exact foldl_stepCommon_all hmp ho ks _ (dkv_stepCommon_all hmp k ho hT)

theorem dkv_stepMissing_all {P : Param → Prop} {other T : Dict} (k : String)
    (ho : ∀ kv ∈ other, P kv.2) (hT : ∀ kv ∈ T, P kv.2) : ∀ kv ∈ stepMissing other T k, P kv.2 := by
  unfold stepMissing
  split
  · rename_i o hg
    obtain ⟨k', hk'⟩ := dget?_mem hg
    split
    · exact hT
    · rename_i hh
      unfold dset
      simp only [hh, Bool.false_eq_true, ↓reduceIte]
      intro kv hkv
      rcases List.mem_append.mp hkv with hkv | hkv
      · exact hT kv hkv
      · simp only [List.mem_singleton] at hkv
        subst hkv; exact ho (k', o) hk'
  · exact hT

theorem foldl_stepMissing_all {P : Param → Prop} {other : Dict} (ho : ∀ kv ∈ other, P kv.2) :
    ∀ (ks : List String) (T : Dict), (∀ kv ∈ T, P kv.2) → ∀ kv ∈ ks.foldl (stepMissing other) T, P kv.2
  | [], _, hT => hT
  | k :: ks, T, hT => by
    rw [List.foldl_cons]
    exact foldl_stepMissing_all ho ks _ (dkv_stepMissing_all k ho hT)

theorem mergeParams_all {P : Param → Prop} (hmp : ∀ o t, P o → P t → P (mergePresent o t)) {other target : Dict}
    (ho : ∀ kv ∈ other, P kv.2) (ht : ∀ kv ∈ target, P kv.2) : ∀ kv ∈ mergeParams other target, P kv.2 := by
  unfold mergeParams
  exact foldl_stepMissing_all ho _ _ (foldl_stepCommon_all hmp ho _ _ ht)

theorem mergePresent_typNE (o t : Param) (ho : TypNE o) (ht : TypNE t) : TypNE (mergePresent o t) := by
  unfold TypNE
  rw [mergePresent_typ]
  split <;> (split <;> first | exact ho | exact ht)

/-! ### function: types of the entries and of the return entry -/

/-- annotations of the signature are non-empty source texts (CPython) -/
def fnAnnNE : Top → Prop
  | .fn _ a _ r => (∀ x ∈ a.args ++ a.kwonly, x.ann ≠ some "") ∧ r ≠ some ""
  | _ => True

theorem sigParams_typ (args : List Arg) (ds : List (Option Expr)) (h : ∀ x ∈ args, x.ann ≠ some "") :
    ∀ kv ∈ sigParams args ds, TypNE kv.2 := by
  intro kv hkv
  unfold sigParams at hkv
  simp only [List.mem_map] at hkv
  obtain ⟨x, hx, he⟩ := hkv
  subst he
  exact h x.1 (List.fst_mem_of_mem_zipIdx hx)

theorem dropPlainTyp_typNE {p : Param} (h : TypNE p) : TypNE (dropPlainTyp p) := by
  unfold dropPlainTyp
  split
  · split
    · exact h
    · unfold TypNE; simp
  · exact h

theorem interpolateReturn_typ (body : List Stmt) (annot : Option String) (returns : Option Param)
    (ha : annot ≠ some "") (hr : ∀ r, returns = some r → TypNE r) :
    ∀ r, interpolateReturn body annot returns = some r → TypNE r := by
  intro r h
  unfold interpolateReturn at h
  simp only at h
  have hgd : TypNE (returns.getD {}) := by
    cases returns with
    | none => unfold TypNE; simp
    | some r0 => exact hr r0 rfl
  have h1 : ∀ r, (match (body.reverse.filterMap Stmt.returnExpr?).head? with
      | some e => some { (dropPlainTyp (returns.getD {})) with default := some (returnDefault e) }
      | none => returns) = some r → TypNE r := by
    intro r hr'
    split at hr'
    · simp only [Option.some.injEq] at hr'
      subst hr'
      exact dropPlainTyp_typNE hgd
    · exact hr r hr'
  split at h
  · simp only [Option.some.injEq] at h
    subst h
    exact ha
  · exact h1 r h

/-- **types of `parseFunction`** -/
theorem parseFunction_typ {env : Env} (hA : AdhocNE env) (hD : DocTypNE env) {it : Bool} {t : Top} {ir : IR}
    (ht : fnAnnNE t) (h : parseFunction env it t = .ok ir) : IRTypNE ir := by
  cases t with
  | cls n b body => simp [parseFunction] at h
  | fn name args body annot =>
    obtain ⟨hargs, hann⟩ := ht
    rw [parseFunction_unfold] at h
    simp only [bind, Except.bind, pure, Except.pure] at h
    have h0 : IRTypNE (fnDocIR env it (.fn name args body annot)) := by
      simp only [fnDocIR]
      cases (splitDoc body).1 with
      | none => exact ⟨by simp, by simp⟩
      | some s => exact hD _ _
    have hsig : ∀ kv ∈ sigParams (fnPosArgs args) (args.defaults.map some) ++ sigParams args.kwonly args.kwDefaults, TypNE kv.2 := by
      intro kv hkv
      rcases List.mem_append.mp hkv with hkv | hkv
      · refine sigParams_typ _ _ (fun x hx => hargs x (List.mem_append_left _ ?_)) kv hkv
        unfold fnPosArgs at hx
        split at hx
        · exact hx
        · exact List.mem_of_mem_drop hx
      · exact sigParams_typ _ _ (fun x hx => hargs x (List.mem_append_right _ hx)) kv hkv
    split at h
    · cases h
    · rename_i ps hps
      split at h
      · cases h
      · rename_i rets hrets
        cases h
        refine ⟨mapM_snt_typ hA hps ?_, ?_⟩
        · split
          · exact hsig
          · split
            · exact h0.1
            · exact mergeParams_all mergePresent_typNE hsig h0.1
        · intro r hr
          simp only at hr
          subst hr
          unfold fnRetStep at hrets
          split at hrets
          · rename_i r0 hr0
            simp only [bind, Except.bind, pure, Except.pure] at hrets
            split at hrets
            · cases hrets
            · rename_i kv' hkv'
              cases hrets
              exact setNameAndType_typ hA hkv' (interpolateReturn_typ _ _ _ hann h0.2 r0 hr0)
          · cases hrets

/-! ### argparse: types of the entries and of the return entry -/

theorem handleChoices_ne (cs : List String) (typ : String) : handleChoices cs typ ≠ "" := by
  unfold handleChoices
  split <;> exact str_append_ne_right _ (by decide)

theorem parseOutParam_typ {env : Env} {a : AddArg} {kv : String × Param} (h : parseOutParam env a = .ok kv)
    (ha : a.typ ≠ some "") : TypNE kv.2 := by
  have h0 : (match a.typ with | some id => if id == "loads" then "Optional[dict]" else id | none => "str") ≠ "" := by
    split
    · rename_i id hid
      split
      · decide
      · intro he; subst he; exact ha hid
    · decide
  have h1 : (match a.choices with
      | some cs => handleChoices cs (match a.typ with | some id => if id == "loads" then "Optional[dict]" else id | none => "str")
      | none => (match a.typ with | some id => if id == "loads" then "Optional[dict]" else id | none => "str")) ≠ "" := by
    split
    · exact handleChoices_ne _ _
    · exact h0
  have key : ∀ x : String, x ≠ "" →
      (if (!a.required && !hasSub (if a.action == some "append" then "List[" ++ x ++ "]" else x) "Optional") = true then
        "Optional[" ++ (if a.action == some "append" then "List[" ++ x ++ "]" else x) ++ "]"
       else (if a.action == some "append" then "List[" ++ x ++ "]" else x)) ≠ "" := by
    intro x hx
    have hy : (if a.action == some "append" then "List[" ++ x ++ "]" else x) ≠ "" := by
      split
      · exact str_append_ne_right _ (by decide)
      · exact hx
    generalize (if a.action == some "append" then "List[" ++ x ++ "]" else x) = y at hy ⊢
    split
    · exact optional_wrap_ne _
    · exact hy
  have hfin := key _ h1
  unfold parseOutParam at h
  simp only [bind, Except.bind, pure, Except.pure] at h
  cases hd : a.default with
  | none =>
    simp only [hd] at h; cases h
    unfold TypNE
    simp only [ne_eq, Option.some.injEq]
    exact hfin
  | some e =>
    simp only [hd] at h
    cases hg : getValue e with
    | val d =>
      simp only [hg] at h; cases h
      unfold TypNE
      simp only [ne_eq, Option.some.injEq]
      exact hfin
    | node n => simp [hg] at h

theorem tupleInner_ne {typ : String} (h1 : startsWith typ tupleParserPrefix = true) (h2 : endsWith typ "]" = true)
    (hnt : typ ≠ "Tuple[ArgumentParser, ]") :
    String.ofList ((typ.toList.drop tupleParserPrefix.toList.length).dropLast) ≠ "" := by
  unfold startsWith at h1
  obtain ⟨rest, hrest⟩ := List.isPrefixOf_iff_prefix.mp h1
  intro he
  have he' := congrArg String.toList he
  have e0 : "".toList = [] := by decide
  rw [String.toList_ofList, ← hrest, List.drop_left, e0] at he'
  have e1 : "]".toList = [']'] := by decide
  cases rest with
  | nil =>
    have : typ = tupleParserPrefix := toList_inj' (by rw [← hrest]; simp)
    rw [this] at h2
    exact absurd h2 (by decide)
  | cons c cs =>
    cases cs with
    | cons c2 cs2 => simp at he'
    | nil =>
      unfold endsWith at h2
      rw [← hrest, e1] at h2
      simp only [List.reverse_append, List.reverse_cons, List.reverse_nil, List.nil_append, List.singleton_append,
        List.isPrefixOf, Bool.and_true, beq_iff_eq] at h2
      apply hnt
      apply toList_inj'
      rw [← hrest, ← h2]
      decide

/-- what `_parse_return` needs of the docstring layer's return type: non-empty and not the degenerate `Tuple[ArgumentParser, ]` -/
def apRetTypOK (docIR : IR) : Prop :=
  ∀ rt t, docIR.returns = some rt → rt.typ = some t → t ≠ "" ∧ t ≠ "Tuple[ArgumentParser, ]"

theorem parseReturn_typ {env : Env} {docIR : IR} {raw : String} {e : Expr} {r : Param}
    (h : parseReturn env docIR raw e = .ok r) (hd : apRetTypOK docIR) : TypNE r := by
  unfold parseReturn at h
  simp only [bind, Except.bind, pure, Except.pure] at h
  cases hr : docIR.returns with
  | none => simp [hr] at h
  | some rt =>
    cases ht : rt.typ with
    | none => simp [hr, ht] at h
    | some typ =>
      simp only [hr, ht] at h
      obtain ⟨hne, hnt⟩ := hd rt typ hr ht
      by_cases hb : hasChar typ '[' = true
      · simp only [hb, ↓reduceIte] at h
        by_cases hp : (startsWith typ tupleParserPrefix && endsWith typ "]") = true
        · simp only [hp, ↓reduceIte] at h
          simp only [Bool.and_eq_true] at hp
          split at h
          · cases h
            unfold TypNE
            simp only [ne_eq, Option.some.injEq]
            exact tupleInner_ne hp.1 hp.2 hnt
          · cases h
        · simp [hp] at h
      · simp only [hb, Bool.false_eq_true, ↓reduceIte] at h
        split at h
        · cases h
          unfold TypNE
          simpa using hne
        · cases h

def addArgNE : Stmt → Prop
  | .addArg a => a.typ ≠ some ""
  | _ => True
/-- every `type=` keyword of an `add_argument` call is a non-empty name (CPython) -/
def apAnnNE : Top → Prop
  | .fn _ _ body _ => ∀ s ∈ body, addArgNE s
  | _ => True

theorem argparseStep_typ {env : Env} {docIR : IR} {raw : String} {ir ir' : IR} {s : Stmt}
    (h : argparseStep env docIR raw ir s = .ok ir') (hs : addArgNE s) (hd : apRetTypOK docIR) (hi : IRTypNE ir) : IRTypNE ir' := by
  cases s with
  | addArg a =>
    simp only [argparseStep, bind, Except.bind, pure, Except.pure] at h
    cases hp : parseOutParam env a with
    | error m => simp [hp] at h
    | ok kv =>
      obtain ⟨name, p⟩ := kv
      have hpt : TypNE p := parseOutParam_typ hp hs
      simp only [hp] at h
      split at h
      · cases h
        refine ⟨?_, hi.2⟩
        simp only
        refine dmodify_all ?_ hi.1
        intro q; exact hpt
      · cases h
        refine ⟨?_, hi.2⟩
        intro kv hkv
        rcases List.mem_append.mp hkv with hkv | hkv
        · exact hi.1 kv hkv
        · simp only [List.mem_singleton] at hkv
          subst hkv; exact hpt
  | descr c =>
    simp only [argparseStep] at h
    split at h
    · simp only [pure, Except.pure] at h; cases h; exact hi
    · cases h
  | retTuple e =>
    simp only [argparseStep, bind, Except.bind, pure, Except.pure] at h
    split at h
    · cases h
    · rename_i r hr
      cases h
      refine ⟨hi.1, ?_⟩
      intro r' hr'
      simp only [Option.some.injEq] at hr'
      subst hr'
      exact parseReturn_typ hr hd
  | doc s => simp only [argparseStep, pure, Except.pure] at h; cases h; exact hi
  | ann a b c => simp only [argparseStep, pure, Except.pure] at h; cases h; exact hi
  | ret e => simp only [argparseStep, pure, Except.pure] at h; cases h; exact hi
  | retParser => simp only [argparseStep, pure, Except.pure] at h; cases h; exact hi
  | ellipsis => simp only [argparseStep, pure, Except.pure] at h; cases h; exact hi
  | other s => simp only [argparseStep, pure, Except.pure] at h; cases h; exact hi

theorem argparseFold_typ {env : Env} {docIR : IR} {raw : String} (hd : apRetTypOK docIR) : ∀ (body : List Stmt) (ir ir' : IR),
    body.foldlM (argparseStep env docIR raw) ir = .ok ir' → (∀ s ∈ body, addArgNE s) → IRTypNE ir → IRTypNE ir'
  | [], ir, ir', h, _, hi => by
    simp only [List.foldlM_nil, pure, Except.pure] at h
    cases h; exact hi
  | s :: body, ir, ir', h, hb, hi => by
    rw [List.foldlM_cons] at h
    simp only [bind, Except.bind] at h
    split at h
    · cases h
    · rename_i ir1 h1
      exact argparseFold_typ hd body ir1 ir' h (fun x hx => hb x (List.mem_cons_of_mem _ hx))
        (argparseStep_typ h1 (hb s (List.mem_cons_self ..)) hd hi)

/-- **types of `parseArgparse`** -/
theorem parseArgparse_typ {env : Env} (hR : ∀ s, apRetTypOK (env.docParse .argparse s)) {t : Top} {ir : IR}
    (ht : apAnnNE t) (h : parseArgparse env t = .ok ir) : IRTypNE ir := by
  cases t with
  | cls n b body => simp [parseArgparse] at h
  | fn name args body annot =>
    simp only [parseArgparse] at h
    split at h
    · exact argparseFold_typ (hR _) _ _ _ h (fun s hs => ht s (splitDoc_rest_subset body s hs)) ⟨by simp, by simp⟩
    · cases h

/-! ## small list facts -/

theorem count_eq_one_of_nodup {l : List String} {a : String} (h : l.Nodup) (ha : a ∈ l) : l.count a = 1 := by
  induction l with
  | nil => cases ha
  | cons x xs ih =>
    obtain ⟨hx, hxs⟩ := List.nodup_cons.mp h
    rw [List.count_cons]
    rcases List.mem_cons.mp ha with e | e
    · subst e
      have : xs.count a = 0 := List.count_eq_zero.mpr hx
      simp [this]
    · have hne : x ≠ a := fun e' => hx (e' ▸ e)
      simp [ih hxs e, hne]

/-- evaluate a parser result under a Boolean test (`Except` has no `DecidableEq`; the witnesses are closed by `decide`) -/
def okAnd (x : Except String IR) (p : IR → Bool) : Bool :=
  match x with
  | .ok ir => p ir
  | .error _ => false

theorem okAnd_spec {x : Except String IR} {p : IR → Bool} (h : okAnd x p = true) : ∃ ir, x = .ok ir ∧ p ir = true := by
  unfold okAnd at h
  split at h
  · exact ⟨_, rfl, h⟩
  · cases h

/-! ## hypotheses about the docstring layer and about CPython's parser -/

/-- the docstring layer's answers have pairwise distinct names (C14 for the docstring parsers: `C14.parseRest_wf`,
    `C14GN.parseDocstring_wf`) -/
def DocDistinct (env : Env) : Prop := ∀ cfg s, (dkeys (env.docParse cfg s).params).Nodup
/-- the docstring layer never answers an empty name (false of the real ReST/Google/NumPy parsers on some texts:
    `C14.empty_name_witness`, `C14GN.empty_name_*`) -/
def DocNamesNE (env : Env) : Prop := ∀ cfg s, ∀ k ∈ dkeys (env.docParse cfg s).params, k ≠ ""
/-- the signature's names, after the `self`/`cls` drop, are pairwise distinct.  **CPython's own guarantee**:
    `def f(a, a)` is a `SyntaxError` ("duplicate argument 'a' in function definition"); the model type `Top` allows it. -/
def SigDistinct (t : Top) : Prop := (sigNames t).Nodup
instance (t : Top) : Decidable (SigDistinct t) := inferInstanceAs (Decidable (sigNames t).Nodup)

/-- an ideal docstring layer for witnesses and non-vacuity: whatever the docstring, it answers `d` -/
def envK (d : IR) : Env :=
  { docEmit := fun _ _ => "", docParse := fun _ _ => d, extractDefault := fun _ s => (s, none), adhocTyp := fun _ _ _ => none,
    pyExpr := fun _ => none }

theorem docDistinct_envK {d : IR} (h : (dkeys d.params).Nodup) : DocDistinct (envK d) := fun _ _ => h
theorem docNamesNE_envK {d : IR} (h : ∀ k ∈ dkeys d.params, k ≠ "") : DocNamesNE (envK d) := fun _ _ => h
theorem docTypNE_envK {d : IR} (h : IRTypNE d) : DocTypNE (envK d) := fun _ _ => h
theorem adhocNE_envK (d : IR) : AdhocNE (envK d) := fun _ _ _ => by simp [envK]

theorem clsDocParams_nodup {env : Env} (hdoc : DocDistinct env) (t : Top) : (dkeys (clsDocParams env t)).Nodup := by
  cases t with
  | fn _ _ _ _ => exact List.nodup_nil
  | cls n b body =>
    simp only [clsDocParams]
    cases (splitDoc body).1 with
    | none => exact List.nodup_nil
    | some s => exact hdoc _ _

theorem fnDocParams_nodup {env : Env} (hdoc : DocDistinct env) (it : Bool) (t : Top) : (dkeys (fnDocIR env it t).params).Nodup := by
  cases t with
  | cls _ _ _ => exact List.nodup_nil
  | fn n a body r =>
    simp only [fnDocIR]
    cases (splitDoc body).1 with
    | none => exact List.nodup_nil
    | some s => exact hdoc _ _

theorem mem_clsDocParams {env : Env} (hne : DocNamesNE env) (t : Top) : ∀ k ∈ dkeys (clsDocParams env t), k ≠ "" := by
  cases t with
  | fn _ _ _ _ => intro k hk; cases hk
  | cls n b body =>
    simp only [clsDocParams]
    cases (splitDoc body).1 with
    | none => intro k hk; cases hk
    | some s => exact hne _ _

theorem mem_fnDocParams {env : Env} (hne : DocNamesNE env) (it : Bool) (t : Top) : ∀ k ∈ dkeys (fnDocIR env it t).params, k ≠ "" := by
  cases t with
  | cls _ _ _ => intro k hk; cases hk
  | fn n a body r =>
    simp only [fnDocIR]
    cases (splitDoc body).1 with
    | none => intro k hk; cases hk
    | some s => exact hne _ _

end Iface
