import CddVerif.Proofs.DocNPRoundTripEmit
/-!
# NumPy-style whole-docstring round trip (C01) — scanner, parser, fold, `parse ∘ emit`

The entries are parsed by the same `interpolate` / `sntParam` as in the Google style (`DocGNRT.interpolate_entry`,
`sntParam_entry`), so the predicted interface is the same function `DocGNRT.expIRG` (latch included).
-/
namespace DocNPRT
open Py Doc DocRT DocGN DocGNRT

/-! ### the scan phase on the emitted NumPy text -/

theorem appendLast_snoc (st : List (List Str)) (u : List Str) (l : Str) : appendLast (st ++ [u]) l = st ++ [u ++ [l]] := by
  induction st with
  | nil => rfl
  | cons x r ih =>
    cases hr : r ++ [u] with
    | nil => simp at hr
    | cons y r' =>
      show appendLast (x :: (r ++ [u])) l = _
      rw [hr, appendLast.eq_3 _ _ _ (by simp), ← hr, ih]; rfl

theorem scanLines_pairs (ps : List (Str × Str)) (st : List (List Str))
    (h : ∀ q ∈ ps, indentOf q.1 = 0 ∧ 0 < indentOf q.2) :
    scanLines 0 (ps.flatMap (fun q => [q.1, q.2])) st = (st ++ ps.map (fun q => [q.1, q.2]), Option.none) := by
  induction ps generalizing st with
  | nil => simp [scanLines]
  | cons q r ih =>
    have hq := h q (by simp)
    have h2 : (indentOf q.2 == 0) = false := by
      cases hb : (indentOf q.2 == 0) with
      | false => rfl
      | true => have := beq_iff_eq.mp hb; omega
    simp only [List.flatMap_cons, List.cons_append, List.nil_append, scanLines, hq.1, beq_self_eq_true, if_true, h2,
      Bool.false_eq_true, if_false, Nat.not_lt_zero]
    rw [appendLast_snoc, ih _ (fun x hx => h x (by simp [hx]))]
    simp

theorem retIdxAux_pairs (rev : List Str) (hrev : rev.length = 2) (st : List (List Str)) (i : Nat) (best : Option Nat)
    (h : ∀ e ∈ st, e.length = 2) : retIdxAux rev st i best = best := by
  induction st generalizing i best with
  | nil => simp [retIdxAux]
  | cons a r ih =>
    cases r with
    | nil => simp [retIdxAux]
    | cons b r' =>
      have hne : (b ++ a == rev) = false := by
        cases hb : (b ++ a == rev) with
        | false => rfl
        | true =>
          have e := beq_iff_eq.mp hb
          have := congrArg List.length e
          simp only [List.length_append, h a (by simp), h b (by simp), hrev] at this
          omega
      simp only [retIdxAux, hne, Bool.and_false, Bool.false_eq_true, if_false]
      exact ih (i + 1) best (fun e he => h e (by simp [he]))

def sParamWord : Str := ['P','a','r','a','m','e','t','e','r','s']

theorem isPrefixOf_of_append (a b s : Str) (h : (a ++ b).isPrefixOf s = true) : a.isPrefixOf s = true := by
  have := List.isPrefixOf_iff_prefix.mp h
  exact List.isPrefixOf_iff_prefix.mpr ((List.prefix_append a b).trans this)

/-- no earlier occurrence of the section token when the header does not contain the word `Parameters` -/
theorem noEarly_params (h : Str) (hc : contains h sParamWord = false) : NoEarly sParams (h ++ ['\n', '\n']) := by
  intro k hk
  by_cases hlt : k < h.length
  · rw [List.drop_append_of_le_length (by omega)]
    cases hb : sParams.isPrefixOf (h.drop k ++ ['\n', '\n'] ++ sParams) with
    | false => rfl
    | true =>
      have e : sParams = sParamWord ++ ['\n','-','-','-','-','-','-','-','-','-','-'] := rfl
      rw [e] at hb
      have h1 := isPrefixOf_of_append _ _ _ hb
      have : h.drop k ++ ['\n', '\n'] ++ (sParamWord ++ ['\n','-','-','-','-','-','-','-','-','-','-'])
          = h.drop k ++ '\n' :: ('\n' :: (sParamWord ++ ['\n','-','-','-','-','-','-','-','-','-','-'])) := by simp
      rw [this, isPrefixOf_append_of_notin _ _ _ '\n' (by decide)] at h1
      rw [C01Whole.isPrefixOf_drop_false h _ (by decide) hc k] at h1
      cases h1
  · have hk' : k = h.length ∨ k = h.length + 1 := by
      simp only [List.length_append, List.length_cons, List.length_nil] at hk; omega
    rcases hk' with rfl | rfl
    · rw [List.drop_left]; decide
    · have : (h ++ ['\n', '\n']).drop (h.length + 1) = ['\n'] := by
        rw [List.drop_append]; simp
      rw [this]; decide

/-- what the scanner needs to know about the two lines of an entry -/
structure NScanPair (q : Str × Str) : Prop where
  nb1 : GNoBreak q.1
  nb2 : GNoBreak q.2
  ind1 : indentOf q.1 = 0
  ind2 : 0 < indentOf q.2
  last1 : q.1.getLast? ≠ some ':'
  noRet : startsWith (lstrip q.2) ['R','e','t','u','r','n','s'] = false
  len2 : 1 < q.2.length

theorem getLast?_flatMap_pairs (ps : List (Str × Str)) (q : Str × Str) (h : ps.getLast? = some q) :
    (ps.flatMap (fun q => [q.1, q.2])).getLast? = some q.2 := by
  obtain ⟨ys, rfl⟩ := List.getLast?_eq_some_iff.mp h
  simp [List.flatMap_append]

/-- **the scan phase on the emitted NumPy text**: one unit of two lines per entry, and — a quirk of the scanner — the
    last description line copied into `scanned_afterward` -/
theorem scan_emitted_numpy (h pre : Str) (ps : List (Str × Str)) (qn : Str × Str)
    (hpre : (h = [] ∧ pre = []) ∨ (GoodHeader h ∧ pre = h ++ ['\n', '\n'])) (hc : contains h sParamWord = false)
    (hlast : ps.getLast? = some qn) (hl : ∀ q ∈ ps, NScanPair q) :
    scanPhase .numpydoc (pre ++ (sParams ++ ['\n'] ++ join ['\n'] (ps.flatMap (fun q => [q.1, q.2]))) ++ ['\n'])
      = .ok { doc := h, args := ps.map (fun q => [q.1, q.2]), rets := [], afterward := some [qn.2] } := by
  have hne : ps ≠ [] := by rintro rfl; cases hlast
  generalize hlines : ps.flatMap (fun q => [q.1, q.2]) = lines
  have hlne : lines ≠ [] := by
    rw [← hlines]
    cases ps with
    | nil => exact absurd rfl hne
    | cons _ _ => simp
  have hNE : NoEarly sParams pre := by
    rcases hpre with ⟨_, rfl⟩ | ⟨_, rfl⟩
    · intro k hk; simp at hk
    · exact noEarly_params h hc
  have hfind : find (pre ++ (sParams ++ ['\n'] ++ join ['\n'] lines) ++ ['\n']) sParams = some pre.length := by
    have e : pre ++ (sParams ++ ['\n'] ++ join ['\n'] lines) ++ ['\n'] = pre ++ sParams ++ (['\n'] ++ join ['\n'] lines ++ ['\n']) := by simp
    rw [e]; exact find_append sParams pre _ (by decide) hNE
  have hloc : locateSection .numpydoc (pre ++ (sParams ++ ['\n'] ++ join ['\n'] lines) ++ ['\n']) = some (pre.length, pre.length + 21, true) := by
    unfold locateSection locate
    have hlen : ¬ (sParams.length > (pre ++ (sParams ++ ['\n'] ++ join ['\n'] lines) ++ ['\n']).length) := by
      simp only [List.length_append, show sParams.length = 21 from rfl]; omega
    have : argTok .numpydoc = sParams := rfl
    simp only [this, hlen, if_false, hfind]
    rfl
  have hdrop : (pre ++ (sParams ++ ['\n'] ++ join ['\n'] lines) ++ ['\n']).drop (pre.length + 21 + 1) = join ['\n'] lines ++ ['\n'] := by
    have e : pre ++ (sParams ++ ['\n'] ++ join ['\n'] lines) ++ ['\n'] = (pre ++ sParams ++ ['\n']) ++ (join ['\n'] lines ++ ['\n']) := by simp
    rw [e]; exact List.drop_left' (by simp [sParams])
  have htake : (pre ++ (sParams ++ ['\n'] ++ join ['\n'] lines) ++ ['\n']).take pre.length = pre := by
    rw [List.append_assoc]; exact List.take_left' rfl
  have hws : whiteSpacerScan pre = h := by
    unfold whiteSpacerScan
    rcases hpre with ⟨rfl, rfl⟩ | ⟨hg, rfl⟩
    · rfl
    · obtain ⟨c, cs, rfl⟩ : ∃ c cs, h = c :: cs := by
        cases h with
        | nil => exact absurd rfl hg.ne
        | cons c cs => exact ⟨c, cs, rfl⟩
      rw [isspace_of_mem _ c (by simp) (hg.headNS c rfl)]
      simp only [Bool.false_eq_true, if_false]
      have := strip_core [] (c :: cs) ['\n', '\n'] allSpace_nil (by intro x hx; simp at hx; subst hx; decide) hg.headNS hg.lastNS
      simpa using this
  have hnb : ∀ l ∈ lines, GNoBreak l := by
    intro l hl'
    rw [← hlines] at hl'
    obtain ⟨q, hq, hlq⟩ := List.mem_flatMap.mp hl'
    simp only [List.mem_cons, List.not_mem_nil, or_false] at hlq
    rcases hlq with rfl | rfl
    · exact (hl q hq).nb1
    · exact (hl q hq).nb2
  unfold scanPhase
  rw [hloc]
  simp only [hdrop, htake, hws]
  rw [splitlines_joined lines hlne hnb]
  have hal : afterLoop .numpydoc true lines = ({ stacker := ps.map (fun q => [q.1, q.2]) }, some qn.2) := by
    obtain ⟨l1, r1, hl1, hi1⟩ : ∃ l1 r1, lines = l1 :: r1 ∧ indentOf l1 = 0 := by
      rw [← hlines]
      cases ps with
      | nil => exact absurd rfl hne
      | cons q r => exact ⟨q.1, _, by simp only [List.flatMap_cons, List.cons_append]; rfl, (hl q (by simp)).ind1⟩
    have hsl := scanLines_pairs ps [] (fun q hq => ⟨(hl q hq).ind1, (hl q hq).ind2⟩)
    rw [hlines] at hsl
    have hgl := getLast?_flatMap_pairs ps qn hlast
    rw [hlines] at hgl
    subst hl1
    unfold afterLoop
    simp only []
    rw [hi1, hsl]
    simp only [List.nil_append, hgl]
  rw [hal]
  have hcopy : copyLastLine { stacker := ps.map (fun q => [q.1, q.2]) } (some qn.2)
      = { stacker := ps.map (fun q => [q.1, q.2]), afterward := some [qn.2] } := by
    unfold copyLastLine
    have : (ps.map (fun q => [q.1, q.2])).getLast? = some [qn.1, qn.2] := by
      rw [List.getLast?_map, hlast]; rfl
    have hqn := hl qn (List.mem_of_getLast? hlast)
    have hneq : (qn.1 != qn.2) = true := by
      cases hb : (qn.1 != qn.2) with
      | true => rfl
      | false =>
        have e : qn.1 = qn.2 := by simpa using hb
        have h1 := hqn.ind1; have h2 := hqn.ind2
        rw [e] at h1; omega
    simp only [this, hneq, if_true, Option.getD_none]
  simp only [hcopy]
  unfold finishScan
  have hqn := hl qn (List.mem_of_getLast? hlast)
  have hret : returnPhase .numpydoc { stacker := ps.map (fun q => [q.1, q.2]), afterward := some [qn.2] }
      = .ok { stacker := ps.map (fun q => [q.1, q.2]), afterward := some [qn.2] } := by
    unfold returnPhase returnStep1 retIdx
    rw [retIdxAux_pairs _ (by decide) _ 1 Option.none (by intro e he; obtain ⟨l, _, rfl⟩ := List.mem_map.mp he; rfl)]
    simp only []
    unfold returnStep2
    have hrs : retScan ((retTokLines .numpydoc).headD []) [qn.2] 0 {} = {} := by
      have : (retTokLines .numpydoc).headD [] = ['R','e','t','u','r','n','s'] := rfl
      rw [this]
      simp [retScan, hqn.noRet]
    simp only [List.isEmpty_nil, Option.getD_some, List.length_cons, List.length_nil, hrs]
    rfl
  simp only [List.isEmpty_nil, if_true, hret]
  have hsne : (ps.map (fun q => [q.1, q.2])).isEmpty = false := by
    cases ps with
    | nil => exact absurd rfl hne
    | cons _ _ => rfl
  simp only [hsne, Bool.false_eq_true, if_false, setNs, if_true]

/-! ### `_parse` on one emitted NumPy entry, the "afterward" quirk, the fold, and `parse ∘ emit` -/

theorem numpyParse_entry (name t D : Str) (hn1 : ':' ∉ name) (hnh : HeadNS name) (hnl : LastNS name) (htne : t ≠ [])
    (hth : HeadNS t) (hdh : HeadNS D) :
    numpyParse [nNameLine name t, nDocLine D] = .cur name { typ := some t, doc := some D } := by
  unfold numpyParse nNameLine nDocLine
  have hfind : find (name ++ [' ', ':'] ++ ([' '] ++ t)) [':'] = some (name ++ [' ']).length := by
    have e : name ++ [' ', ':'] ++ ([' '] ++ t) = (name ++ [' ']) ++ ':' :: ([' '] ++ t) := by simp
    rw [e]; exact find_char ':' _ _ (by
      intro hm; rcases List.mem_append.mp hm with h | h
      · exact hn1 h
      · revert h; decide)
  have hpart : partition (name ++ [' ', ':'] ++ ([' '] ++ t)) [':'] = (name ++ [' '], [':'], [' '] ++ t) := by
    unfold partition
    rw [hfind]
    have e : name ++ [' ', ':'] ++ ([' '] ++ t) = (name ++ [' ']) ++ ([':'] ++ ([' '] ++ t)) := by simp
    have h1 : (name ++ [' ', ':'] ++ ([' '] ++ t)).take (name ++ [' ']).length = name ++ [' '] := by
      rw [e]; exact List.take_left' rfl
    have h2 : (name ++ [' ', ':'] ++ ([' '] ++ t)).drop ((name ++ [' ']).length + [':'].length) = [' '] ++ t := by
      have e' : name ++ [' ', ':'] ++ ([' '] ++ t) = (name ++ [' '] ++ [':']) ++ ([' '] ++ t) := by simp
      rw [e']; exact List.drop_left' (by simp)
    simp only [h1, h2]
  simp only [hpart]
  have hne1 : (name ++ [' ']).isEmpty = false := by simp
  have hne2 : ([' '] ++ t).isEmpty = false := rfl
  have hname : strip (name ++ [' ']) = name := by
    have := strip_core [] name [' '] allSpace_nil allSpace_sp hnh hnl
    simpa using this
  have htyp : lstrip ([' '] ++ t) = t := by
    rw [lstrip_spaces_append _ _ allSpace_sp]; exact lstrip_headNS t hth
  have hdoc : lstrip (tab ++ D) = D := by
    rw [lstrip_spaces_append tab _ (by intro c hc; simp [tab] at hc; subst hc; decide)]; exact lstrip_headNS D hdh
  simp only [hne1, hne2, Bool.false_eq_true, if_false, hname, htyp, List.map_cons, List.map_nil, hdoc, join]

theorem docAndParams_numpy (h : Str) (ps : List (Str × Str)) (qn : Str × Str) (hqn : qn ∈ ps)
    (hl : ∀ q ∈ ps, q.1.getLast? ≠ some ':') (hlen : 1 < qn.2.length) :
    docAndParams { doc := h, args := ps.map (fun q => [q.1, q.2]), rets := [], afterward := some [qn.2] }
      = (h, ps.map (fun q => [q.1, q.2])) := by
  unfold docAndParams
  have hidx : (ps.map (fun q => [q.1, q.2])).findIdx isAfterwardHead = (ps.map (fun q => [q.1, q.2])).length := by
    apply findIdx_none
    intro e he'
    obtain ⟨q, hq, rfl⟩ := List.mem_map.mp he'
    unfold isAfterwardHead
    simp only [List.headD_cons, endsWith_colon_false q.1 (hl q hq), Bool.false_and]
  simp only [hidx, Nat.lt_irrefl, if_false, List.headD_cons]
  have hseen : afterwardSeen qn.2 h (ps.map (fun q => [q.1, q.2])) [] = true := by
    unfold afterwardSeen
    have hne : qn.2.isEmpty = false := by
      cases hq2 : qn.2 with
      | nil => rw [hq2] at hlen; simp at hlen
      | cons _ _ => rfl
    have hany : (ps.map (fun q => [q.1, q.2])).any (fun e => e.contains qn.2) = true := by
      rw [List.any_eq_true]
      exact ⟨[qn.1, qn.2], List.mem_map.mpr ⟨qn, hqn, rfl⟩, by simp⟩
    simp only [hne, Bool.not_false, Bool.true_and, hany, Bool.or_true, Bool.true_or]
  simp only [hseen, if_true]

/-- the NumPy domain (proof side); types are emitted (`emit_types = True`) -/
structure NGoodIR (ir : IR) : Prop where
  hdr : ir.doc = [] ∨ GoodHeader ir.doc
  hdrWord : contains ir.doc sParamWord = false
  hdrAscii : Ascii ir.doc
  noRet : ir.returns = Option.none
  ne : ir.params ≠ []
  names : ∀ np ∈ ir.params, GName np.1
  entries : ∀ np ∈ ir.params, GEntry np.1 np.2
  typed : ∀ np ∈ ir.params, ∃ t, np.2.typ = some t ∧ t ≠ [] ∧ HeadNS t ∧ LastNS t
  pairs : ∀ np ∈ ir.params, ∀ edd, NScanPair (nNameLine np.1 (np.2.typ.getD []), nDocLine (docText np.2 edd))
    ∧ Ascii (nNameLine np.1 (np.2.typ.getD [])) ∧ Ascii (nDocLine (docText np.2 edd))
  nodup : (ir.params.map (·.1)).Nodup

theorem fold_entries_np (edd : Bool) (ps : List (Str × Param)) (rd : Bool) (acc : List (Str × GParam))
    (hn : ∀ np ∈ ps, GName np.1) (hg : ∀ np ∈ ps, GEntry np.1 np.2)
    (hty : ∀ np ∈ ps, ∃ t, np.2.typ = some t ∧ t ≠ [] ∧ HeadNS t ∧ LastNS t)
    (hnd : (acc.map (·.1) ++ ps.map (·.1)).Nodup) :
    ∃ rd', foldParams .numpydoc edd (ps.map (fun np => [nNameLine np.1 (np.2.typ.getD []), nDocLine (docText np.2 edd)])) rd acc
      = .ok (acc ++ expParamsG edd rd ps, rd') := by
  induction ps generalizing rd acc with
  | nil => exact ⟨rd, by simp [foldParams, expParamsG]⟩
  | cons np r ih =>
    obtain ⟨n, p⟩ := np
    have hfresh : n ∉ acc.map (·.1) := by
      intro hm
      have := (List.nodup_append.mp hnd).2.2 _ hm n (by simp)
      exact this rfl
    have hN := hn (n, p) (by simp)
    have hG := hg (n, p) (by simp)
    obtain ⟨t, ht, htne, hth, _⟩ := hty (n, p) (by simp)
    simp only at ht
    have hparse : parseOne .numpydoc [nNameLine n (p.typ.getD []), nDocLine (docText p edd)]
        = .cur n { typ := p.typ, doc := some (docText p edd) } := by
      unfold parseOne
      rw [ht]
      exact numpyParse_entry n t _ (fun h => (hN.base.chars _ h).1 rfl) hN.headNS hN.lastNS htne hth (hG.text edd).good.headNS
    simp only [List.map_cons, foldParams, hparse, interpolate_entry n p rd edd hG,
      sntParam_entry n p rd edd hN hG, sntName_good n hN.base, dictInsert_fresh acc n _ hfresh]
    have hlatch : (rd || (dfltG rd edd p).isSome) = (rd || (dfltOf p edd).isSome) := by
      unfold dfltG; cases dfltOf p edd <;> cases rd <;> rfl
    rw [hlatch]
    obtain ⟨rd', h⟩ := ih (rd || (dfltOf p edd).isSome) (acc ++ [(n, expParamG rd edd p)])
      (fun x hx => hn x (by simp [hx])) (fun x hx => hg x (by simp [hx])) (fun x hx => hty x (by simp [hx])) (by
        simp only [List.map_append, List.map_cons, List.map_nil, List.append_assoc, List.singleton_append]
        simpa using hnd)
    exact ⟨rd', by rw [h]; simp [expParamsG]⟩

/-- **parse ∘ emit for the NumPy style on the domain** (types emitted) -/
theorem parse_emitted_numpy (ir : IR) (ww edd : Bool) (s : Str) (g : NGoodIR ir) (he : emit ir .numpydoc true ww edd = .ok s) :
    parseGN .numpydoc s edd = .ok (expIRG ir edd) := by
  obtain ⟨pre, hpre, hs⟩ := emit_numpy_text ir ww edd s g.hdr g.noRet g.ne
    (fun np hnp => (g.names np hnp).base.notRet) (fun np hnp => (g.entries np hnp).base)
    (fun np hnp => by obtain ⟨t, h1, h2, _, h4⟩ := g.typed np hnp; exact ⟨t, h1, h2, h4⟩) he
  have hpairs : ∀ q ∈ nPairs ir edd, NScanPair q ∧ Ascii q.1 ∧ Ascii q.2 := by
    intro q hq
    unfold nPairs at hq
    obtain ⟨np, hnp, rfl⟩ := List.mem_map.mp hq
    exact g.pairs np hnp edd
  obtain ⟨qn, hqn⟩ : ∃ qn, (nPairs ir edd).getLast? = some qn := by
    cases hgl : (nPairs ir edd).getLast? with
    | none =>
      have := List.getLast?_eq_none_iff.mp hgl
      unfold nPairs at this
      exact absurd (List.map_eq_nil_iff.mp this) g.ne
    | some q => exact ⟨q, rfl⟩
  have hqmem := List.mem_of_getLast? hqn
  have hasc : Ascii s := by
    rw [hs]
    refine ascii_append (ascii_append ?_ (ascii_append (ascii_append (by intro c hc; revert hc; revert c; decide)
      (by intro c hc; simp at hc; subst hc; decide)) (ascii_join _ ?_))) (by intro c hc; simp at hc; subst hc; decide)
    · rcases hpre with ⟨_, rfl⟩ | ⟨_, rfl⟩
      · intro c hc; cases hc
      · exact ascii_append g.hdrAscii (by intro c hc; simp at hc; subst hc; decide)
    · intro l hl
      unfold nLines at hl
      obtain ⟨q, hq, hlq⟩ := List.mem_flatMap.mp hl
      simp only [List.mem_cons, List.not_mem_nil, or_false] at hlq
      rcases hlq with rfl | rfl
      · exact (hpairs q hq).2.1
      · exact (hpairs q hq).2.2
  unfold parseGN
  simp only [ascii_any s hasc, Bool.false_eq_true, if_false]
  rw [hs]
  unfold nLines
  rw [scan_emitted_numpy ir.doc pre (nPairs ir edd) qn hpre g.hdrWord hqn (fun q hq => (hpairs q hq).1)]
  simp only []
  unfold parsePhase
  rw [docAndParams_numpy ir.doc (nPairs ir edd) qn hqmem (fun q hq => (hpairs q hq).1.last1) (hpairs qn hqmem).1.len2]
  simp only []
  have hmap : (nPairs ir edd).map (fun q => [q.1, q.2])
      = ir.params.map (fun np => [nNameLine np.1 (np.2.typ.getD []), nDocLine (docText np.2 edd)]) := by
    unfold nPairs; rw [List.map_map]; rfl
  obtain ⟨rd', hfold⟩ := fold_entries_np edd ir.params false [] g.names g.entries g.typed (by simpa using g.nodup)
  rw [hmap, hfold]
  simp only [List.nil_append]
  have hfd : finalDoc ir.doc = ir.doc := by
    unfold finalDoc
    rcases g.hdr with h | h
    · rw [h]; rfl
    · obtain ⟨c, cs, hc⟩ : ∃ c cs, ir.doc = c :: cs := by
        cases hd : ir.doc with
        | nil => exact absurd hd h.ne
        | cons c cs => exact ⟨c, cs, rfl⟩
      rw [isspace_of_mem _ c (by rw [hc]; simp) (h.headNS c (by rw [hc]; rfl))]
      simp only [Bool.false_eq_true, if_false]
      exact lstrip_headNS _ h.headNS
  simp only [parseReturns, List.isEmpty_nil, if_true, hfd]
  rfl

end DocNPRT
