import CddVerif.Model.DocTransAst
/-! Helper definitions and lemmas for C07 (ii): `erase (DocTrans m) = erase m` on the flat AST. -/
namespace DocTransAst
open PyAst

def isStr : Stmt → Bool
  | .strExpr _ => true
  | _ => false

/-- a body that begins with two string-expression statements -/
def doubleStr : List Stmt → Bool
  | .strExpr _ :: .strExpr _ :: _ => true
  | _ => false

mutual
/-- the region on which `DocTrans` is erase-preserving: no function body starts with two string expressions
    (deleting the docstring would promote the second one) or with a bare name / `None` expression statement
    (`set_docstring` overwrites it), and — without type annotations — no bare
    declaration `x: T` (it is turned into the assignment `x = '```(None)```'`) -/
def okStmt (ta : Bool) : Stmt → Bool
  | .fn false _ _ b _ _ => !doubleStr b && !(b.head?.map strLikeExpr).getD false && okList ta b
  | .fn true _ _ b _ _ => okList ta b
  | .cls _ _ _ b _ => okList ta b
  | .ann _ _ none => ta
  | _ => true
def okList (ta : Bool) : List Stmt → Bool
  | [] => true
  | s :: ss => okStmt ta s && okList ta ss
end

theorem eraseArgs_rewriteArgs (o : Oracle) (ta : Bool) (p : List String) (g : Args) :
    eraseArgs (rewriteArgs o ta p g) = eraseArgs g := by
  unfold rewriteArgs eraseArgs
  split <;> simp [eraseArg, List.map_map, Function.comp_def]

theorem eraseBodyList_cons (s : Stmt) (ss : List Stmt) :
    eraseBodyList (s :: ss) = if isStr s then eraseList ss else eraseList (s :: ss) := by
  cases s <;> simp [eraseBodyList, eraseList, isStr]

theorem eraseStmt_isStr (s : Stmt) : isStr (eraseStmt s) = isStr s := by
  cases s with
  | ann t a v => cases v <;> simp [eraseStmt, isStr]
  | _ => simp [eraseStmt, isStr]

theorem doubleStr_cons_cons (s t : Stmt) (rest : List Stmt) : doubleStr (s :: t :: rest) = (isStr s && isStr t) := by
  cases s <;> cases t <;> simp [doubleStr, isStr]

/-- the docstring surgery of `_handle_function` disappears under `erase` -/
theorem eraseBodyList_setDoc (b b2 : List Stmt) (nd : Option String)
    (he : eraseList b2 = eraseList b) (hs : b2.map isStr = b.map isStr) (hl : b2.map strLikeExpr = b.map strLikeExpr)
    (hd : doubleStr b = false) (hsl : (b.head?.map strLikeExpr).getD false = false) :
    eraseBodyList (setDoc b2 (docstringOf b) nd) = eraseBodyList b := by
  cases b with
  | nil =>
    have : b2 = [] := by cases b2 <;> simp_all
    subst this
    cases nd <;> simp [setDoc, docstringOf, eraseBodyList, eraseList]
  | cons s rest =>
    cases b2 with
    | nil => simp at hs
    | cons s2 rest2 =>
      simp only [List.map_cons, List.cons.injEq] at hs hl
      simp only [eraseList, List.cons.injEq] at he
      simp only [List.head?_cons, Option.map_some, Option.getD_some] at hsl
      obtain ⟨hs1, hs2⟩ := hs
      obtain ⟨hl1, _⟩ := hl
      obtain ⟨_, he2⟩ := he
      cases s with
      | strExpr t =>
        -- the function has a docstring
        cases s2 with
        | strExpr t2 =>
          cases nd with
          | none =>
            simp only [setDoc, docstringOf, List.tail_cons]
            -- the statement after the docstring is not a string expression
            cases rest with
            | nil =>
              have : rest2 = [] := by cases rest2 <;> simp_all
              subst this
              simp [eraseBodyList, eraseList]
            | cons r rest' =>
              cases rest2 with
              | nil => simp at hs2
              | cons r2 rest2' =>
                rw [doubleStr_cons_cons] at hd
                rw [show isStr (Stmt.strExpr t) = true from rfl, Bool.true_and] at hd
                simp only [List.map_cons, List.cons.injEq] at hs2
                rw [eraseBodyList_cons, hs2.1, hd]
                simp only [Bool.false_eq_true, if_false]
                rw [he2, eraseBodyList_cons]
                simp [isStr]
          | some d =>
            simp only [setDoc]
            rw [eraseBodyList_cons, eraseBodyList_cons]
            simp [isStr, he2]
        | _ => simp [isStr] at hs1
      | _ =>
        all_goals (
          have hns2 : isStr s2 = false := by simpa [isStr] using hs1
          have hnl2 : strLikeExpr s2 = false := by rw [hl1]; exact hsl
          have hdoc : ∀ (x : Stmt) (l : List Stmt), isStr x = false → docstringOf (x :: l) = none := by
            intro x l hx; cases x <;> simp_all [docstringOf, isStr]
          rw [hdoc _ _ (by simp [isStr])]
          have hset : ∀ d, setDoc (s2 :: rest2) none (some d) = .strExpr d :: s2 :: rest2 := by
            intro d; cases s2 <;> simp_all [setDoc, isStr]
          cases nd with
          | none =>
            simp only [setDoc]
            rw [eraseBodyList_cons, eraseBodyList_cons, hns2]
            simp [isStr, eraseList, *]
          | some d =>
            rw [hset d, eraseBodyList_cons, eraseBodyList_cons]
            simp [isStr, eraseList, *])

/-- bodies of classes / async functions: only the statements are visited -/
theorem eraseBodyList_congr (b b2 : List Stmt) (he : eraseList b2 = eraseList b) (hs : b2.map isStr = b.map isStr) :
    eraseBodyList b2 = eraseBodyList b := by
  cases b with
  | nil =>
    have : b2 = [] := by cases b2 <;> simp_all
    subst this; rfl
  | cons s rest =>
    cases b2 with
    | nil => simp at hs
    | cons s2 rest2 =>
      simp only [List.map_cons, List.cons.injEq] at hs
      simp only [eraseList, List.cons.injEq] at he
      rw [eraseBodyList_cons, eraseBodyList_cons, hs.1]
      split
      · exact he.2
      · simp [eraseList, he.1, he.2]

mutual
theorem erase_docTransStmt (o : Oracle) (ta : Bool) :
    ∀ (s : Stmt) (p : List String) (s' : Stmt), okStmt ta s = true → docTransStmt o ta p s = .ok s' →
      eraseStmt s' = eraseStmt s ∧ isStr s' = isStr s ∧ strLikeExpr s' = strLikeExpr s
  | .fn false n g b d r, p, s', hok, h => by
    simp only [okStmt, Bool.and_eq_true, Bool.not_eq_true'] at hok
    simp only [docTransStmt, bind, Except.bind] at h
    cases hb : docTransList o ta (p ++ [n]) b with
    | error x => simp [hb] at h
    | ok b2 =>
      simp only [hb, pure, Except.pure, Except.ok.injEq] at h
      obtain ⟨he, hs, hl⟩ := erase_docTransList o ta b (p ++ [n]) b2 hok.2 hb
      subst h
      refine ⟨?_, rfl, rfl⟩
      simp only [eraseStmt, eraseArgs_rewriteArgs]
      rw [eraseBodyList_setDoc b b2 _ he hs hl hok.1.1 hok.1.2]
  | .fn true n g b d r, p, s', hok, h => by
    simp only [okStmt] at hok
    simp only [docTransStmt, bind, Except.bind] at h
    cases hb : docTransList o ta (p ++ [n]) b with
    | error x => simp [hb] at h
    | ok b2 =>
      simp only [hb, pure, Except.pure, Except.ok.injEq] at h
      obtain ⟨he, hs, _⟩ := erase_docTransList o ta b (p ++ [n]) b2 hok hb
      subst h
      refine ⟨?_, rfl, rfl⟩
      simp only [eraseStmt]
      rw [eraseBodyList_congr b b2 he hs]
  | .cls n bs ks b d, p, s', hok, h => by
    simp only [okStmt] at hok
    simp only [docTransStmt, bind, Except.bind] at h
    cases hb : docTransList o ta (p ++ [n]) b with
    | error x => simp [hb] at h
    | ok b2 =>
      simp only [hb, pure, Except.pure, Except.ok.injEq] at h
      obtain ⟨he, hs, _⟩ := erase_docTransList o ta b (p ++ [n]) b2 hok hb
      subst h
      refine ⟨?_, rfl, rfl⟩
      simp only [eraseStmt]
      rw [eraseBodyList_congr b b2 he hs]
  | .ann t a v, p, s', hok, h => by
    simp only [docTransStmt] at h
    cases ta with
    | true =>
      simp only [if_true, pure, Except.pure, Except.ok.injEq] at h
      subst h
      cases v <;> simp [eraseStmt, isStr, strLikeExpr]
    | false =>
      cases v with
      | none => simp [okStmt] at hok
      | some x =>
        simp only [Bool.false_eq_true, if_false, pure, Except.pure, Except.ok.injEq, Option.getD_some] at h
        subst h
        simp [eraseStmt, isStr, strLikeExpr]
  | .assign ts v, p, s', _, h => by
    simp only [docTransStmt] at h
    split at h
    · split at h
      · simp only [pure, Except.pure, Except.ok.injEq] at h
        subst h
        simp [eraseStmt, isStr, strLikeExpr]
      · simp at h
    · simp only [pure, Except.pure, Except.ok.injEq] at h
      subst h
      simp [eraseStmt, isStr, strLikeExpr]
  | .strExpr x, p, s', _, h => by
    simp only [docTransStmt, pure, Except.pure, Except.ok.injEq] at h
    subst h; exact ⟨rfl, rfl, rfl⟩
  | .expr x, p, s', _, h => by
    simp only [docTransStmt, pure, Except.pure, Except.ok.injEq] at h
    subst h; exact ⟨rfl, rfl, rfl⟩
  | .other x, p, s', _, h => by
    simp only [docTransStmt, pure, Except.pure, Except.ok.injEq] at h
    subst h; exact ⟨rfl, rfl, rfl⟩
theorem erase_docTransList (o : Oracle) (ta : Bool) :
    ∀ (l : List Stmt) (p : List String) (l' : List Stmt), okList ta l = true → docTransList o ta p l = .ok l' →
      eraseList l' = eraseList l ∧ l'.map isStr = l.map isStr ∧ l'.map strLikeExpr = l.map strLikeExpr
  | [], p, l', _, h => by
    simp only [docTransList, pure, Except.pure, Except.ok.injEq] at h
    subst h; exact ⟨rfl, rfl, rfl⟩
  | s :: ss, p, l', hok, h => by
    simp only [okList, Bool.and_eq_true] at hok
    simp only [docTransList, bind, Except.bind] at h
    cases hs : docTransStmt o ta p s with
    | error x => simp [hs] at h
    | ok s' =>
      simp only [hs] at h
      cases hss : docTransList o ta p ss with
      | error x => simp [hss] at h
      | ok ss' =>
        simp only [hss, pure, Except.pure, Except.ok.injEq] at h
        subst h
        obtain ⟨h1, h2, h2'⟩ := erase_docTransStmt o ta s p s' hok.1 hs
        obtain ⟨h3, h4, h4'⟩ := erase_docTransList o ta ss p ss' hok.2 hss
        simp [eraseList, h1, h2, h2', h3, h4, h4']
end

end DocTransAst
