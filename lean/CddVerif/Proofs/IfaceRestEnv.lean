import CddVerif.Model.IfaceRestEnv
import CddVerif.Properties.C01Whole
import CddVerif.Proofs.Iface
import CddVerif.Properties.C08Iface
/-!
# C02 with the concrete ReST docstring layer — lemmas

* the emitter of `Model/IfaceRestEnv.lean` at `purpose="function"`, `indent_level=0` is `Doc.emit … .rest` (`emitText_fn0`);
* descriptions of the `C01Whole` domain are *quiet* for the environment `restEnv` (`docQuiet_good`);
* the indent stage on the emitted text (`indentStage_lines`), `normText` undoes it (`normText_indented`), the text has no
  `:cvar` (`indented_noCvar`, `replace_none`);
* the shape of the function-purpose candidate (`candidate_fn_shape`, `body_lines`);
* an `emit_default_doc=False` docstring is the `emit_default_doc=True` docstring of the interface without defaults
  (`candidate_strip`, `inDomain_strip`);
* the class purpose: shape of the candidate (`candidate_cls_shape`), `rstrip_cls`, `normText_cls`, and the parser on
  consecutive `:param` lines (`fold_clsLines`, `parse_cls_text` — a `purpose="class"` analogue of `DocRT.parse_emitted`);
* the bridges `argparse_bridge`, `function_bridge` (uses `C01Whole.rest_roundtrip_full` as it stands), `class_bridge`:
  the decidable predicates `inRestArgparse`, `inRestFn`, `inRestCls` imply the docstring-layer hypotheses `argparseHyp`,
  `functionHyp`, `classHyp` of C02 for `restEnv pyExpr`, for every `pyExpr`; `rest_docHyp` packs them;
* closure under hops: on the region `DomR` a hop returns the input's header, raw descriptions, entries (`hop_raw`,
  `params_eq_of_view_docs`), hence `domR_closed` and the chain theorem `chain_rest` (C03 for the concrete layer).
-/
namespace IfaceRest
open Py Doc DocSplit DocRT C01Whole



theorem mapOut_eq {α β : Type} (f : α → Out β) (l : List α) : IfaceRest.mapOut f l = DocRT.mapOut f l := by
  induction l with
  | nil => rfl
  | cons a as ih =>
    simp only [IfaceRest.mapOut, DocRT.mapOut, ih]
    cases f a with
    | outside w => rfl
    | ok b => cases DocRT.mapOut f as <;> rfl

theorem outOf_eq (d p r : Str) : IfaceRest.outOf d p r = DocRT.outOf d p r := rfl

theorem retPart_eq (p l : Str) : IfaceRest.retPart p l = DocRT.retPart p l := rfl

/-- the function-purpose candidate is the text `Doc.emit` finishes -/
theorem emit_eq_candidate (ir : Doc.IR) (et ww edd : Bool) :
    emit ir .rest et ww edd = (match candidate false ir et ww edd with | .ok T => .ok (DocRT.finish T) | .outside w => .outside w) := by
  rw [emit_rest_eq]
  unfold candidate emitRest'
  simp only [paramStr, Bool.false_eq_true, if_false, mapOut_eq, sepOf]
  cases hm : DocRT.mapOut (fun np => emitParamStr np.1 np.2 .rest et ww edd) ir.params with
  | outside w => rfl
  | ok blocks =>
    simp only []
    cases hr : ir.returns with
    | none => rfl
    | some rp =>
      simp only []
      cases hl : emitParamStr sReturnType rp .rest et ww edd with
      | outside w => rfl
      | ok line => rfl

theorem findFrom_none_of_notin (c : Char) (s : Str) (k : Nat) (h : c ∉ s) : findFrom [c] s k = none := by
  induction s generalizing k with
  | nil => simp [findFrom]
  | cons x xs ih =>
    have hx : (c == x) = false := by
      cases hb : (c == x) with
      | false => rfl
      | true => exact absurd (by simp [beq_iff_eq.mp hb]) h
    simp only [findFrom, List.isPrefixOf, hx, Bool.false_and, Bool.false_eq_true, if_false]
    exact ih (k + 1) (fun hm => h (by simp [hm]))

theorem indentStage_zero (sepTab : Bool) (T : Str) : indentStage 0 sepTab T = DocRT.finish T := by
  unfold indentStage DocRT.finish
  split
  · rfl
  · cases hc : T.contains '\n' with
    | false =>
      have : '\n' ∉ T := fun hm => by rw [List.contains_iff_mem.mpr hm] at hc; cases hc
      simp only [Bool.not_false, if_true, Py.find, findFrom_none_of_notin '\n' T 0 this]
    | true =>
      obtain ⟨i, hi⟩ := find_single T '\n' (List.contains_iff_mem.mp hc)
      simp [hi]

/-- `indent_level = 0`: `emitText false 0 _` is `Doc.emit … .rest` -/
theorem emitText_fn0 (ir : Doc.IR) (et ww edd sepTab : Bool) : emitText false 0 sepTab ir et ww edd = emit ir .rest et ww edd := by
  rw [emit_eq_candidate]
  unfold emitText
  cases candidate false ir et ww edd with
  | ok T => simp only [indentStage_zero]
  | outside w => rfl



/-- a description that announces no default (`extract_default` finds nothing in it) -/
def quietB (d : Str) : Bool :=
  announceVariants.all (fun v => (find (lower d) (lower v)).isNone) && announceVariants.all (fun v => !contains (lower d) ('(' :: lower v))

theorem quietB_of_good (d : Str) (h : goodDescB d = true) : quietB d = true := by
  simp only [goodDescB, Bool.and_eq_true] at h
  simp only [quietB, Bool.and_eq_true]
  exact ⟨h.1.1.1.2, h.1.1.2⟩

theorem docExtract_quiet (d : Str) (typ : Option Str) (edd : Bool) (h : quietB d = true) :
    Doc.extractDefault d typ edd = .ok (d, Option.none) := by
  simp only [quietB, Bool.and_eq_true] at h
  apply extract_plain
  · apply hasParenAnnounce_plain
    intro w hw
    have := List.all_eq_true.mp h.2 w hw
    simpa using this
  · intro v hv
    have := List.all_eq_true.mp h.1 v hv
    simpa using this

theorem extractDefault_quiet (edd : Bool) (d : String) (h : quietB d.toList = true) : extractDefault edd d = (d, none) := by
  unfold extractDefault
  rw [docExtract_quiet d.toList Option.none edd h]
  simp [String.ofList_toList]

theorem tidyDoc_id (d : String) (hb : NoBreak d.toList) (hh : HeadNS d.toList) (hl : LastNS d.toList) : Iface.tidyDoc d = d := by
  unfold Iface.tidyDoc
  rw [split1_no _ _ (noBreak_no_nl _ hb)]
  simp only [List.map_cons, List.map_nil, Py.join, strip_id _ hh hl, rstrip_lastNS _ hl, String.ofList_toList]

theorem lit_Optional : "Optional".toList = sOptionalW := by decide

theorem lit_POptional : "(Optional)".toList = sPOptionalW := by decide

/-- the Boolean description check of `C01Whole` plus: the ad-hoc type inference finds nothing in the prose -/
def descOKB (name : String) (isNone : Bool) (d : String) : Bool := goodDescB d.toList && adhocTyp d name isNone == none

theorem docQuiet_good (px : String → Option Iface.Expr) (name : String) (isNone : Bool) (d : String)
    (h : descOKB name isNone d = true) : Iface.docQuiet (restEnv px) name isNone d = true := by
  simp only [descOKB, Bool.and_eq_true] at h
  have g := goodDesc_sound d.toList h.1
  have ht := tidyDoc_id d g.noBreak g.headNS g.lastNS
  unfold Iface.docQuiet
  simp only [restEnv, ht, extractDefault_quiet true d (quietB_of_good _ h.1), beq_self_eq_true, Bool.true_and, h.2, Iface.startsWith,
    lit_Optional, lit_POptional]
  have h1 := g.noOpt
  have h2 := g.noPOpt
  unfold Py.startsWith at h1 h2
  simp [sOptionalW, sPOptionalW, h1, h2]

theorem docView_good (d : String) (g : GoodDesc d.toList) : Iface.docView true (some d) = Iface.normDoc d := by
  have hne : (d == "") = false := by
    cases hb : (d == "") with
    | false => rfl
    | true => have := beq_iff_eq.mp hb; subst this; exact absurd rfl g.ne
  simp only [Iface.docView, hne, Bool.false_eq_true, if_false, if_true, tidyDoc_id d g.noBreak g.headNS g.lastNS]

/-- **argparse**: every description announces no default and is not wrapped in one kind of quote; the return entry has no
    default (so the docstring heading the argparse function is not read back) -/
def inRestArgparse (ir : Iface.IR) : Bool :=
  ir.params.all (fun kv => quietB (kv.2.doc.getD "").toList && Iface.setValueStr (kv.2.doc.getD "") == kv.2.doc.getD "") &&
  (match ir.returns with | some r => r.default.isNone || r.typ.isNone | Option.none => true)

theorem argparse_bridge (px : String → Option Iface.Expr) (cfg : Iface.Cfg) (ir : Iface.IR) (h : inRestArgparse ir = true) :
    Iface.argparseHyp (restEnv px) cfg ir = true := by
  simp only [inRestArgparse, Bool.and_eq_true] at h
  unfold Iface.argparseHyp
  simp only [Bool.and_eq_true]
  constructor
  · rw [List.all_eq_true] at h ⊢
    intro kv hkv
    have := h.1 kv hkv
    simp only [Bool.and_eq_true] at this
    unfold Iface.argparseParamHyp
    simp only [restEnv, extractDefault_quiet _ _ this.1, beq_self_eq_true, Bool.true_and]
    exact this.2
  · unfold Iface.argparseReturnHyp
    cases hr : ir.returns with
    | none => rfl
    | some r =>
      have h2 := h.2
      rw [hr] at h2
      simp only [Bool.or_eq_true, Option.isNone_iff_eq_none] at h2
      rcases h2 with h2 | h2 <;> simp [h2]



/-! ### `splitlines` on `\n`-terminated lines -/

theorem splitlinesNK_line (l rest acc : Str) (h : NoBreak l) :
    splitlinesNK (l ++ '\n' :: rest) acc = (acc.reverse ++ l) :: splitlinesNK rest [] := by
  induction l generalizing acc with
  | nil =>
    simp only [List.nil_append, List.append_nil]
    rw [splitlinesNK.eq_3 _ _ _ (by intro _ h; exact absurd h (by decide))]
    simp [nl_isLineBreak]
  | cons c cs ih =>
    have hc : isLineBreak c = false := h c (by simp)
    have hcs : NoBreak cs := fun d hd => h d (by simp [hd])
    have hr : c ≠ '\r' := by rintro rfl; revert hc; decide
    simp only [List.cons_append]
    rw [splitlinesNK.eq_3 _ _ _ (by intro _ h; exact absurd h hr), hc]
    simp only [Bool.false_eq_true, if_false]
    rw [ih _ hcs]
    simp

theorem splitlinesNK_lines (ls : List Str) (h : ∀ l ∈ ls, NoBreak l) (hne : ls ≠ []) :
    splitlinesNK (join ['\n'] ls ++ ['\n']) [] = ls := by
  induction ls with
  | nil => exact absurd rfl hne
  | cons x r ih =>
    cases r with
    | nil =>
      simp only [join]
      rw [splitlinesNK_line x [] [] (h x (by simp))]
      simp [splitlinesNK]
    | cons y r' =>
      rw [join_cons2]
      have e : x ++ ['\n'] ++ join ['\n'] (y :: r') ++ ['\n'] = x ++ '\n' :: (join ['\n'] (y :: r') ++ ['\n']) := by simp
      rw [e, splitlinesNK_line x _ [] (h x (by simp)), ih (fun l hl => h l (by simp [hl])) (by simp)]
      simp



def tabify (n : Nat) (sepTab : Bool) (l : Str) : Str := if !l.isEmpty || sepTab then tabs n ++ l else l

theorem allSpace_tabs (n : Nat) : AllSpace (tabs n) := by
  intro c hc
  have := List.eq_of_mem_replicate hc
  subst this; decide

theorem drop_len_succ (a : Str) (c : Char) (b : Str) : (a ++ c :: b).drop (a.length + 1) = b := by
  induction a with
  | nil => rfl
  | cons x xs ih => simp [ih]

theorem getLast?_not_nl (z : Str) (hz : z ≠ []) (hl : LastNS z) (pre : Str) : ((pre ++ z).getLast? == some '\n') = false := by
  cases hb : ((pre ++ z).getLast? == some '\n') with
  | false => rfl
  | true =>
    have := lastNS_append pre z hz hl '\n' (by simpa using hb)
    revert this; decide

/-- **the indent stage on a text `L0 \n \n l1 \n … \n lk \n`** (header line, blank line, body lines) -/
theorem indentStage_lines (n : Nat) (sepTab : Bool) (L0 : Str) (Ls : List Str) (hn : n ≠ 0)
    (h0 : L0 ≠ []) (hh0 : HeadNS L0) (hb0 : NoBreak L0) (hLs : ∀ l ∈ Ls, NoBreak l) (hne : Ls ≠ [])
    (hlast : ∀ z, Ls.getLast? = some z → z ≠ [] ∧ LastNS z) :
    indentStage n sepTab (join ['\n'] (L0 :: [] :: Ls) ++ ['\n'])
      = ['\n'] ++ join ['\n'] ((L0 :: [] :: Ls).map (tabify n sepTab)) ++ ['\n'] ++ tabs n := by
  obtain ⟨y, ys, hLsc⟩ : ∃ y ys, Ls = y :: ys := by
    cases Ls with
    | nil => exact absurd rfl hne
    | cons y ys => exact ⟨y, ys, rfl⟩
  obtain ⟨c0, cs0, hL0⟩ : ∃ c cs, L0 = c :: cs := by
    cases L0 with
    | nil => exact absurd rfl h0
    | cons c cs => exact ⟨c, cs, rfl⟩
  have hc0 : isSpaceC c0 = false := hh0 c0 (by rw [hL0]; rfl)
  -- the text
  have hT : join ['\n'] (L0 :: [] :: Ls) ++ ['\n'] = L0 ++ '\n' :: ('\n' :: (join ['\n'] Ls ++ ['\n'])) := by
    rw [hLsc, join_cons2, join_cons2]; simp
  rw [hT]
  generalize hX : join ['\n'] Ls ++ ['\n'] = X
  have hnl0 : '\n' ∉ L0 := noBreak_no_nl L0 hb0
  have hsplit : split1 (L0 ++ '\n' :: ('\n' :: X)) '\n' = L0 :: [] :: split1 X '\n' := by
    rw [split1_append_sep, split1_no L0 '\n' hnl0, split1_cons_sep]; rfl
  have hscan : scanLines (split1 (L0 ++ '\n' :: ('\n' :: X)) '\n') 0 = (L0, L0.length) := by
    rw [hsplit]
    have hsp : isspace L0 = false := isspace_of_mem L0 c0 (by rw [hL0]; simp) hc0
    simp [scanLines, hsp]
  have hsl : splitlinesNK ('\n' :: X) [] = [] :: Ls := by
    have := splitlinesNK_line [] X [] (fun c hc => by cases hc)
    simp only [List.nil_append, List.reverse_nil] at this
    rw [this, ← hX, splitlinesNK_lines Ls hLs hne]
  unfold indentStage
  have he : (L0 ++ '\n' :: ('\n' :: X)).isEmpty = false := by rw [hL0]; rfl
  have hsp : isspace (L0 ++ '\n' :: ('\n' :: X)) = false := isspace_of_mem _ c0 (by rw [hL0]; simp) hc0
  have hcn : (L0 ++ '\n' :: ('\n' :: X)).contains '\n' = true := by simp
  have hn0 : (n == 0) = false := by simpa using hn
  simp only [he, hsp, Bool.or_self, Bool.false_eq_true, if_false, hcn, Bool.not_true, hn0, hscan]
  have hlen : ((L0 ++ '\n' :: ('\n' :: X)).length == L0.length) = false := by simp
  have hget : (L0 ++ '\n' :: ('\n' :: X))[L0.length + 1]? = some '\n' := by
    rw [← List.head?_drop, drop_len_succ]; rfl
  simp only [hlen, hget, bne_self_eq_false, Bool.and_false, Bool.or_self, Bool.false_eq_true, if_false, drop_len_succ, hsl]
  have hL0e : L0.isEmpty = false := by rw [hL0]; rfl
  simp only [hL0e, Bool.false_eq_true, if_false, List.singleton_append]
  have hlen2 : (L0 :: [] :: Ls).length > 1 := by simp
  simp only [hlen2, if_true]
  have hmap : (L0 :: [] :: Ls).map (fun l => if (!l.isEmpty || sepTab) = true then tabs n ++ l else l) = (L0 :: [] :: Ls).map (tabify n sepTab) := rfl
  rw [hmap]
  -- starts with the tab
  have hstart : startsWith (join ['\n'] ((L0 :: [] :: Ls).map (tabify n sepTab))) (tabs n) = true := by
    simp only [List.map_cons, join_cons2, tabify, hL0e, Bool.not_false, Bool.true_or, if_true, List.append_assoc]
    unfold startsWith
    exact List.isPrefixOf_iff_prefix.mpr (List.prefix_append _ _)
  -- does not end with a newline
  have hend : ((join ['\n'] ((L0 :: [] :: Ls).map (tabify n sepTab))).getLast? == some '\n') = false := by
    obtain ⟨z, hz⟩ : ∃ z, Ls.getLast? = some z := by
      cases hg : Ls.getLast? with
      | none => exact absurd (List.getLast?_eq_none_iff.mp hg) hne
      | some z => exact ⟨z, rfl⟩
    obtain ⟨ys', hys⟩ := List.getLast?_eq_some_iff.mp hz
    obtain ⟨hzne, hzl⟩ := hlast z hz
    have hze : z.isEmpty = false := by cases z with | nil => exact absurd rfl hzne | cons _ _ => rfl
    have e : (L0 :: [] :: Ls).map (tabify n sepTab) = ((L0 :: [] :: ys').map (tabify n sepTab)) ++ [tabs n ++ z] := by
      rw [hys]; simp [tabify, hze]
    rw [e, join_append_singleton _ _ _ (by simp), ← List.append_assoc]
    exact getLast?_not_nl z hzne hzl _
  simp only [hstart, if_true, hend, Bool.false_eq_true, if_false]
  simp



/-- an entry line of the function-purpose ReST text -/
structure FLine (l : Str) : Prop where
  good : GoodLine l
  entry : EntryLine l

theorem FLine.ne {l : Str} (h : FLine l) : l ≠ [] := by
  obtain ⟨r, rfl, _⟩ := h.good.colon; simp

theorem FLine.headNS {l : Str} (h : FLine l) : HeadNS l := by
  obtain ⟨r, rfl, _⟩ := h.good.colon
  intro c hc; simp only [List.head?_cons, Option.some.injEq] at hc; subst hc; decide

theorem FLine.noBreak {l : Str} (h : FLine l) : NoBreak l := by
  obtain ⟨r, rfl, hr⟩ := h.good.colon
  intro c hc
  simp only [List.mem_cons] at hc
  rcases hc with rfl | hc
  · decide
  · exact hr c hc

theorem sCvar_mem : sCvar ∈ allRestTokens := by rw [allRestTokens_eq]; simp [sCvar]

theorem FLine.noCvarStart {l : Str} (h : FLine l) : startsWith l sCvar = false := by
  have := h.entry.c2
  unfold check2 at this
  rw [otherTokens_eq] at this
  simp only [List.any_cons, List.any_nil, Bool.or_false, Bool.or_eq_false_iff] at this
  exact this.2.1

theorem FLine.tokStart {l : Str} (h : FLine l) : allRestTokens.any (fun t => startsWith l t) = true := by
  have := h.entry.tok
  unfold isTok at this
  rw [restTokens_eq] at this
  rw [allRestTokens_eq]
  simp only [List.any_cons, List.any_nil, Bool.or_false, Bool.or_eq_true] at this ⊢
  rcases this with h | h | h | h
  · left; exact h
  · right; right; right; right; left; exact h
  · right; right; right; right; right; right; left; exact h
  · right; right; right; right; right; right; right; exact h

theorem normLine_nil : normLine [] = [] := by decide

theorem normLine_tabs (n : Nat) : normLine (tabs n) = tabs n := by
  unfold normLine
  rw [lstrip_allSpace _ (allSpace_tabs n)]
  simp only []
  have h1 : startsWith ([] : Str) sCvar = false := by decide
  have h2 : allRestTokens.any (fun t => startsWith ([] : Str) t) = false := by decide
  simp [h1, h2]

theorem normLine_fline (n : Nat) (l : Str) (h : FLine l) : normLine (tabs n ++ l) = l := by
  unfold normLine
  rw [lstrip_spaces_append _ _ (allSpace_tabs n), lstrip_headNS _ h.headNS]
  simp only [h.noCvarStart, Bool.false_eq_true, if_false, h.tokStart, if_true]

theorem normLine_hdr (n : Nat) (H : Str) (hh : HeadNS H) (ht : NoTok H) : normLine (tabs n ++ H) = tabs n ++ H := by
  unfold normLine
  rw [lstrip_spaces_append _ _ (allSpace_tabs n), lstrip_headNS _ hh]
  have h1 : startsWith H sCvar = false := noTok_startsWith H _ ht sCvar_mem
  have h2 : allRestTokens.any (fun t => startsWith H t) = false := any_false_of _ _ (fun t htm => noTok_startsWith H t ht htm)
  simp only [h1, h2, Bool.false_eq_true, if_false]

theorem allSpace_append (a b : Str) (ha : AllSpace a) (hb : AllSpace b) : AllSpace (a ++ b) := by
  intro c hc
  rcases List.mem_append.mp hc with h | h
  · exact ha c h
  · exact hb c h

/-- **`normText` undoes the indent stage** (function purpose, `emit_separating_tab=False`) -/
theorem normText_indented (n : Nat) (H : Str) (Ls : List Str) (hH : GoodHeader H) (hb : NoBreak H) (ht : NoTok H)
    (hLs : ∀ l ∈ Ls, l = [] ∨ FLine l) (hne : Ls ≠ []) (hlast : ∀ z, Ls.getLast? = some z → FLine z) :
    normText (['\n'] ++ join ['\n'] ((H :: [] :: Ls).map (tabify n false)) ++ ['\n'] ++ tabs n)
      = join ['\n'] (H :: [] :: Ls) ++ ['\n'] := by
  have hHe : H.isEmpty = false := by cases H with | nil => exact absurd rfl hH.ne | cons _ _ => rfl
  -- the indented text as a join of lines
  have hR : ['\n'] ++ join ['\n'] ((H :: [] :: Ls).map (tabify n false)) ++ ['\n'] ++ tabs n
      = join ['\n'] (([] :: (H :: [] :: Ls).map (tabify n false)) ++ [tabs n]) := by
    rw [join_append_singleton _ _ _ (by simp)]
    simp only [List.map_cons, join_cons2]
    simp
  have hnl_tabs : '\n' ∉ tabs n := fun hm => by
    have := List.eq_of_mem_replicate hm; revert this; decide
  have hnoNl : ∀ l ∈ ([] :: (H :: [] :: Ls).map (tabify n false)) ++ [tabs n], '\n' ∉ l := by
    intro l hl
    simp only [List.map_cons, List.cons_append, List.mem_cons, List.mem_append, List.mem_map, List.not_mem_nil, or_false] at hl
    rcases hl with rfl | rfl | rfl | ⟨a, ha, rfl⟩ | rfl
    · simp
    · simp only [tabify, hHe, Bool.not_false, Bool.true_or, if_true]
      exact notin_append hnl_tabs (noBreak_no_nl H hb)
    · simp [tabify]
    · rcases hLs a ha with rfl | hf
      · simp [tabify]
      · have hae : a.isEmpty = false := by cases a with | nil => exact absurd rfl hf.ne | cons _ _ => rfl
        simp only [tabify, hae, Bool.not_false, Bool.true_or, if_true]
        exact notin_append hnl_tabs (noBreak_no_nl a hf.noBreak)
    · exact hnl_tabs
  unfold normText
  rw [hR, split1_join '\n' _ (by simp) hnoNl]
  -- the normalised lines
  have hmapLs : (Ls.map (tabify n false)).map normLine = Ls := by
    rw [List.map_map]
    apply map_id_of
    intro l hl
    rcases hLs l hl with rfl | hf
    · simp [tabify, normLine_nil]
    · have hae : l.isEmpty = false := by cases l with | nil => exact absurd rfl hf.ne | cons _ _ => rfl
      simp only [Function.comp, tabify, hae, Bool.not_false, Bool.true_or, if_true]
      exact normLine_fline n l hf
  have hmap : (([] :: (H :: [] :: Ls).map (tabify n false)) ++ [tabs n]).map normLine = ([] :: (tabs n ++ H) :: [] :: Ls) ++ [tabs n] := by
    simp only [List.map_cons, List.map_append, List.map_nil, List.cons_append, hmapLs, normLine_nil, normLine_tabs]
    simp only [tabify, hHe, Bool.not_false, Bool.true_or, if_true, normLine_hdr n H hH.headNS ht, List.isEmpty_nil, Bool.not_true,
      Bool.or_self, Bool.false_eq_true, if_false, normLine_nil]
  rw [hmap, join_append_singleton _ _ _ (by simp)]
  obtain ⟨y, ys, hLsc⟩ : ∃ y ys, Ls = y :: ys := by
    cases Ls with
    | nil => exact absurd rfl hne
    | cons y ys => exact ⟨y, ys, rfl⟩
  have hjoin : join ['\n'] ([] :: (tabs n ++ H) :: [] :: Ls) = (['\n'] ++ tabs n) ++ (H ++ ['\n', '\n'] ++ join ['\n'] Ls) := by
    rw [hLsc]; simp only [join_cons2]; simp
  have hjoin2 : join ['\n'] (H :: [] :: Ls) = H ++ ['\n', '\n'] ++ join ['\n'] Ls := by
    rw [hLsc]; simp only [join_cons2]; simp
  rw [hjoin, hjoin2]
  -- strip
  obtain ⟨z, hz⟩ : ∃ z, Ls.getLast? = some z := by
    cases hg : Ls.getLast? with
    | none => exact absurd (List.getLast?_eq_none_iff.mp hg) hne
    | some z => exact ⟨z, rfl⟩
  obtain ⟨ys', hys⟩ := List.getLast?_eq_some_iff.mp hz
  have hfz := hlast z hz
  have hcoreL : LastNS (H ++ ['\n', '\n'] ++ join ['\n'] Ls) := by
    rw [hys]
    cases ys' with
    | nil => simp only [List.nil_append, join]; exact lastNS_append _ z hfz.ne hfz.good.lastNS
    | cons a as =>
      rw [join_append_singleton _ _ _ (by simp), ← List.append_assoc, ← List.append_assoc]
      exact lastNS_append _ z hfz.ne hfz.good.lastNS
  have hcoreH : HeadNS (H ++ ['\n', '\n'] ++ join ['\n'] Ls) := by
    intro c hc
    cases H with
    | nil => exact absurd rfl hH.ne
    | cons x xs => simp only [List.cons_append, List.head?_cons, Option.some.injEq] at hc; subst hc; exact hH.headNS x rfl
  have := strip_core (['\n'] ++ tabs n) (H ++ ['\n', '\n'] ++ join ['\n'] Ls) (['\n'] ++ tabs n)
    (allSpace_append _ _ allSpace_nl (allSpace_tabs n)) (allSpace_append _ _ allSpace_nl (allSpace_tabs n)) hcoreH hcoreL
  have e : (['\n'] ++ tabs n) ++ (H ++ ['\n', '\n'] ++ join ['\n'] Ls) ++ ['\n'] ++ tabs n
      = (['\n'] ++ tabs n) ++ (H ++ ['\n', '\n'] ++ join ['\n'] Ls) ++ (['\n'] ++ tabs n) := by simp
  rw [e, this]



/-! ### `str.replace` when the pattern does not occur -/

theorem splitOnAux_none (sep : Str) (fuel : Nat) (rest acc : Str) (h : contains rest sep = false) :
    splitOnAux sep fuel rest acc = [acc.reverse ++ rest] := by
  induction rest generalizing fuel acc with
  | nil => cases fuel <;> simp [splitOnAux]
  | cons c cs ih =>
    simp only [contains, Bool.or_eq_false_iff] at h
    cases fuel with
    | zero => simp [splitOnAux]
    | succ f =>
      simp only [splitOnAux, h.1, Bool.false_eq_true, if_false]
      rw [ih f (c :: acc) h.2]
      simp

theorem replace_none (s a b : Str) (h : contains s a = false) : Py.replace s a b = s := by
  unfold Py.replace splitOn
  rw [splitOnAux_none a _ s [] h]
  simp [join]

theorem contains_join_false (c : Char) (t : Str) (hc : c ∉ t) (hne : t ≠ []) (ls : List Str) (h : ∀ l ∈ ls, contains l t = false) :
    contains (join [c] ls) t = false := by
  induction ls with
  | nil => cases t with
    | nil => exact absurd rfl hne
    | cons _ _ => rfl
  | cons x r ih =>
    cases r with
    | nil => simpa [join] using h x (by simp)
    | cons y r' =>
      rw [join_cons2, List.append_assoc, List.singleton_append]
      apply contains_append_notin x _ t c hc (h x (by simp))
      have ih' := ih (fun l hl => h l (by simp [hl]))
      cases t with
      | nil => exact absurd rfl hne
      | cons t0 ts =>
        have : (t0 == c) = false := by
          cases hb : (t0 == c) with
          | false => rfl
          | true => exact absurd (by simp [beq_iff_eq.mp hb]) hc
        simp only [contains, List.isPrefixOf, this, Bool.false_and, Bool.false_or]
        exact ih'

theorem contains_tabs_append (n : Nat) (l : Str) (h : contains l sCvar = false) : contains (tabs n ++ l) sCvar = false := by
  unfold tabs
  induction (4 * n) with
  | zero => simpa using h
  | succ k ih =>
    simp only [List.replicate_succ, List.cons_append, contains, Bool.or_eq_false_iff]
    exact ⟨by simp [sCvar, List.isPrefixOf], ih⟩

theorem FLine.noCvar {l : Str} (h : FLine l) : contains l sCvar = false := by
  obtain ⟨r, rfl, _⟩ := h.good.colon
  simp only [contains, Bool.or_eq_false_iff]
  refine ⟨h.noCvarStart, ?_⟩
  have := h.entry.c1
  unfold check1 at this
  have h2 := List.any_eq_false.mp this sCvar sCvar_mem
  simpa using h2

/-- the indented function-purpose text has no `:cvar` -/
theorem indented_noCvar (n : Nat) (sepTab : Bool) (H : Str) (Ls : List Str) (ht : NoTok H) (hLs : ∀ l ∈ Ls, l = [] ∨ FLine l) :
    contains (['\n'] ++ join ['\n'] ((H :: [] :: Ls).map (tabify n sepTab)) ++ ['\n'] ++ tabs n) sCvar = false := by
  have hR : ['\n'] ++ join ['\n'] ((H :: [] :: Ls).map (tabify n sepTab)) ++ ['\n'] ++ tabs n
      = join ['\n'] (([] :: (H :: [] :: Ls).map (tabify n sepTab)) ++ [tabs n]) := by
    rw [join_append_singleton _ _ _ (by simp)]
    simp only [List.map_cons, join_cons2]
    simp
  rw [hR]
  have hnil : contains ([] : Str) sCvar = false := by decide
  have htab : contains (tabs n) sCvar = false := by simpa using contains_tabs_append n [] hnil
  have hany : ∀ l, contains l sCvar = false → contains (tabify n sepTab l) sCvar = false := by
    intro l hl
    unfold tabify
    split
    · exact contains_tabs_append n l hl
    · exact hl
  apply contains_join_false '\n' sCvar (by decide) (by decide)
  intro l hl
  simp only [List.map_cons, List.cons_append, List.mem_cons, List.mem_append, List.mem_map, List.not_mem_nil, or_false] at hl
  rcases hl with rfl | rfl | rfl | ⟨a, ha, rfl⟩ | rfl
  · exact hnil
  · exact hany H (ht _ sCvar_mem)
  · exact hany [] hnil
  · rcases hLs a ha with rfl | hf
    · exact hany [] hnil
    · exact hany a hf.noCvar
  · exact htab

theorem finish_id_of (T X : Str) (h : DocRT.finish T = X) (hne : X ≠ []) (hh : HeadNS X) : T = X := by
  unfold DocRT.finish at h
  split at h
  · exact absurd h.symm hne
  · split at h
    · split at h
      · exact h
      · rw [← h] at hh
        have := hh '\n' rfl
        exact absurd this (by decide)
    · exact h

/-- **shape of the function-purpose candidate**: header, blank line, the entry blocks separated by blank lines, newline -/
theorem candidate_fn_shape (D : Doc.IR) (et ww edd : Bool) (T : Str) (g : GoodIR D) (hh : GoodHeader D.doc)
    (hne : allBlocks D et edd ≠ []) (h : candidate false D et ww edd = .ok T) :
    T = D.doc ++ ['\n', '\n'] ++ join ['\n', '\n'] ((allBlocks D et edd).map (join ['\n'])) ++ ['\n'] := by
  unfold candidate at h
  simp only [paramStr, Bool.false_eq_true, if_false, mapOut_eq, sepOf] at h
  cases hm : DocRT.mapOut (fun np => emitParamStr np.1 np.2 .rest et ww edd) D.params with
  | outside w => rw [hm] at h; cases h
  | ok blocks =>
    rw [hm] at h
    simp only [] at h
    have hblocks := mapOut_blocks D.params et ww edd blocks g.names g.entries hm
    have hbody : ∀ b ∈ blocks, Bodyish b := by
      intro b hb
      rw [hblocks] at hb
      obtain ⟨np, hnp, rfl⟩ := List.mem_map.mp hb
      exact bodyish_join _ _ (by simp [entryLines]) (fun l hl =>
        goodLine_bodyish l (entryLines_good np.1 np.2 et edd (g.names np hnp) (g.entries np hnp) l hl))
    have hP : join ['\n', '\n'] blocks = [] ∨ Bodyish (join ['\n', '\n'] blocks) := by
      cases hbl : blocks with
      | nil => left; rfl
      | cons b r => right; rw [← hbl]; exact bodyish_join _ _ (by rw [hbl]; simp) hbody
    have hdne : D.doc ≠ [] := hh.ne
    have pre_hdr : ∀ pre, Pre D.doc pre → pre = D.doc ++ ['\n', '\n'] := by
      intro pre hp
      cases hp with
      | none h0 => exact absurd h0 hdne
      | nl h0 => exact absurd h0 hdne
      | hdr _ => rfl
    have hheadX : ∀ Y : Str, HeadNS (D.doc ++ Y) := by
      intro Y c hc
      cases hd : D.doc with
      | nil => exact absurd hd hdne
      | cons x xs => rw [hd] at hc; simp only [List.cons_append, List.head?_cons, Option.some.injEq] at hc; subst hc; exact hh.headNS x (by rw [hd]; rfl)
    cases hr : D.returns with
    | none =>
      rw [hr] at h
      simp only [] at h
      have hs := Out.ok.inj h
      have hab : allBlocks D et edd = D.params.map (fun np => entryLines np.1 np.2 et edd) := by
        simp [allBlocks, retBlocks, hr]
      have hjb : blocks = (allBlocks D et edd).map (join ['\n']) := by
        rw [hab, hblocks, List.map_map]; rfl
      rcases hP with hP | hP
      · exfalso
        have hnil : blocks = [] := by
          cases hbl : blocks with
          | nil => rfl
          | cons b r =>
            have := bodyish_ne _ (bodyish_join ['\n', '\n'] blocks (by rw [hbl]; simp) hbody)
            exact absurd hP this
        rw [hnil] at hjb
        exact hne (List.map_eq_nil_iff.mp hjb.symm)
      · obtain ⟨pre, hpre, hfin⟩ := outOf_shape_noret D.doc _ (Or.inr hh) hP
        rw [pre_hdr pre hpre] at hfin
        rw [← hs]
        have := finish_id_of _ _ hfin (by simp) (by rw [List.append_assoc, List.append_assoc]; exact hheadX _)
        show DocRT.outOf _ _ _ = _
        rw [this, hjb]
    | some rp =>
      rw [hr] at h
      simp only [] at h
      cases hl : emitParamStr sReturnType rp .rest et ww edd with
      | outside w => rw [hl] at h; cases h
      | ok line =>
        rw [hl] at h
        simp only [] at h
        have hs := Out.ok.inj h
        have hline := emitRet_good rp et ww edd line (g.ret rp hr) hl
        have hB2 : Bodyish line := by
          rw [hline]
          exact bodyish_join _ _ (by simp [retLines]) (fun l hl =>
            goodLine_bodyish l (retLines_good rp et edd (g.ret rp hr) l hl))
        obtain ⟨pre, hpre, hfin⟩ := outOf_shape D.doc _ line (Or.inr hh) hP hB2
        rw [pre_hdr pre hpre] at hfin
        have hab : allBlocks D et edd = D.params.map (fun np => entryLines np.1 np.2 et edd) ++ [retLines rp et edd] := by
          simp [allBlocks, retBlocks, hr]
        have hjb : (allBlocks D et edd).map (join ['\n']) = blocks ++ [line] := by
          rw [hab, List.map_append, hblocks, List.map_map, hline]; rfl
        rw [← hs]
        have := finish_id_of _ _ hfin (by simp) (by rw [List.append_assoc, List.append_assoc]; exact hheadX _)
        show DocRT.outOf _ _ (DocRT.retPart _ _) = _
        rw [this, hjb]
        cases hbl : blocks with
        | nil => simp [join]
        | cons b r =>
          have : (join ['\n', '\n'] (b :: r)).isEmpty = false := by
            have := bodyish_ne _ (bodyish_join ['\n', '\n'] (b :: r) (by simp) (by rw [← hbl]; exact hbody))
            cases hj : join ['\n', '\n'] (b :: r) with
            | nil => exact absurd hj this
            | cons _ _ => rfl
          rw [this, join_append_singleton _ _ _ (by simp)]
          simp

theorem allBlocks_fline (D : Doc.IR) (et edd : Bool) (g : GoodIR D) : ∀ b ∈ allBlocks D et edd, b ≠ [] ∧ ∀ l ∈ b, FLine l := by
  intro b hb
  have he := allBlocks_entry D et edd g b hb
  refine ⟨he.1, fun l hl => ⟨?_, he.2 l hl⟩⟩
  unfold allBlocks at hb
  rcases List.mem_append.mp hb with hb | hb
  · obtain ⟨np, hnp, rfl⟩ := List.mem_map.mp hb
    exact entryLines_good np.1 np.2 et edd (g.names np hnp) (g.entries np hnp) l hl
  · unfold retBlocks at hb
    cases hr : D.returns with
    | none => rw [hr] at hb; cases hb
    | some rp =>
      rw [hr] at hb
      simp only [List.mem_singleton] at hb
      subst hb
      exact retLines_good rp et edd (g.ret rp hr) l hl

/-- the body of the emitted text as a list of lines: every line is empty or an entry line, the last one is an entry line -/
theorem body_lines (bs : List (List Str)) (hne : bs ≠ []) (h : ∀ b ∈ bs, b ≠ [] ∧ ∀ l ∈ b, FLine l) :
    ∃ Ls : List Str, join ['\n'] Ls = join ['\n', '\n'] (bs.map (join ['\n'])) ∧ Ls ≠ [] ∧ (∀ l ∈ Ls, l = [] ∨ FLine l)
      ∧ (∀ z, Ls.getLast? = some z → FLine z) := by
  have hnl : ∀ b ∈ bs, b ≠ [] ∧ ∀ l ∈ b, '\n' ∉ l := fun b hb =>
    ⟨(h b hb).1, fun l hl => goodLine_no_nl l ((h b hb).2 l hl).good⟩
  have hsb := split1_body bs hne hnl
  refine ⟨split1 (join ['\n', '\n'] (bs.map (join ['\n']))) '\n', join_split1 _ _, join_split1_nonempty _, ?_, ?_⟩
  · intro l hl
    have : l ∈ bs.flatMap (· ++ [[]]) := by rw [← hsb]; simp [hl]
    obtain ⟨b, hb, hlb⟩ := List.mem_flatMap.mp this
    rcases List.mem_append.mp hlb with h1 | h1
    · exact Or.inr ((h b hb).2 l h1)
    · simp only [List.mem_singleton] at h1; exact Or.inl h1
  · intro z hz
    obtain ⟨ys, hys⟩ := List.getLast?_eq_some_iff.mp hz
    obtain ⟨bz, hbz⟩ : ∃ bz, bs.getLast? = some bz := by
      cases hg : bs.getLast? with
      | none => exact absurd (List.getLast?_eq_none_iff.mp hg) hne
      | some b => exact ⟨b, rfl⟩
    obtain ⟨bs', hbs⟩ := List.getLast?_eq_some_iff.mp hbz
    have hbzm : bz ∈ bs := by rw [hbs]; simp
    obtain ⟨w, hw⟩ : ∃ w, bz.getLast? = some w := by
      cases hg : bz.getLast? with
      | none => exact absurd (List.getLast?_eq_none_iff.mp hg) (h bz hbzm).1
      | some b => exact ⟨b, rfl⟩
    obtain ⟨bz', hbz'⟩ := List.getLast?_eq_some_iff.mp hw
    rw [hys, hbs, hbz'] at hsb
    simp only [List.flatMap_append, List.flatMap_cons, List.flatMap_nil, List.append_nil] at hsb
    have e : ys ++ [z] ++ [[]] = (ys ++ [z]) ++ [[]] := rfl
    have e2 : List.flatMap (fun x => x ++ [[]]) bs' ++ (bz' ++ [w] ++ [[]]) = (List.flatMap (fun x => x ++ [[]]) bs' ++ bz' ++ [w]) ++ [[]] := by simp
    rw [e2] at hsb
    have h3 := List.append_cancel_right hsb
    have h4 : (ys ++ [z]).getLast? = (List.flatMap (fun x => x ++ [[]]) bs' ++ bz' ++ [w]).getLast? := by rw [h3]
    simp only [List.getLast?_append, List.getLast?_singleton, Option.some_or, Option.some.injEq] at h4
    subst h4
    exact (h bz hbzm).2 z (by rw [hbz']; simp)

/-! ### an `emit_default_doc=False` docstring is the `emit_default_doc=True` docstring of the interface without defaults -/

def stripP (p : Doc.Param) : Doc.Param := { p with default := Option.none }

def stripD (D : Doc.IR) : Doc.IR := { D with params := D.params.map (fun np => (np.1, stripP np.2)), returns := D.returns.map stripP }

theorem setDefaultDoc_strip (name : Str) (p : Doc.Param) (h : ∀ d, p.doc = some d → contains d "Defaults".toList = false ∧ contains d "defaults".toList = false) :
    setDefaultDoc name p false = setDefaultDoc name (stripP p) true := by
  unfold setDefaultDoc stripP
  cases hd : p.doc with
  | none => rfl
  | some d =>
    obtain ⟨h1, h2⟩ := h d hd
    simp only [h1, h2, Bool.or_self, Bool.false_and, Bool.false_eq_true, if_false, Bool.not_false, Bool.and_false, Bool.not_true]
    cases p.default <;> rfl

theorem emitParamStr_strip (name : Str) (p : Doc.Param) (et ww : Bool)
    (h : ∀ d, p.doc = some d → contains d "Defaults".toList = false ∧ contains d "defaults".toList = false) :
    emitParamStr name p .rest et ww false = emitParamStr name (stripP p) .rest et ww true := by
  unfold emitParamStr
  rw [setDefaultDoc_strip name p h]
  rfl

theorem mapOut_congr_map {α β γ : Type} (f : α → Out γ) (g : β → Out γ) (φ : α → β) (l : List α) (h : ∀ x ∈ l, f x = g (φ x)) :
    mapOut f l = mapOut g (l.map φ) := by
  induction l with
  | nil => rfl
  | cons a as ih =>
    simp only [mapOut, List.map_cons, h a (by simp), ih (fun x hx => h x (by simp [hx]))]

theorem noDefaults_of_good (p : Doc.Param) (g : GoodEntry p) :
    ∀ d, p.doc = some d → contains d "Defaults".toList = false ∧ contains d "defaults".toList = false :=
  fun d hd => ⟨(g.doc d hd).noDef1, (g.doc d hd).noDef2⟩

theorem candidate_strip (D : Doc.IR) (et ww : Bool) (g : GoodIR D) :
    candidate false D et ww false = candidate false (stripD D) et ww true := by
  unfold candidate
  simp only [paramStr, Bool.false_eq_true, if_false, stripD]
  rw [mapOut_congr_map (fun np => emitParamStr np.1 np.2 .rest et ww false) (fun np => emitParamStr np.1 np.2 .rest et ww true)
    (fun np => (np.1, stripP np.2)) D.params (fun np hnp => emitParamStr_strip np.1 np.2 et ww (noDefaults_of_good _ (g.entries np hnp)))]
  cases mapOut (fun np => emitParamStr np.1 np.2 .rest et ww true) (D.params.map (fun np => (np.1, stripP np.2))) with
  | outside w => rfl
  | ok blocks =>
    simp only []
    cases hr : D.returns with
    | none => rfl
    | some rp =>
      simp only [Option.map_some, emitParamStr_strip sReturnType rp et ww (noDefaults_of_good _ (g.ret rp hr))]

theorem goodEntryB_strip (p : Doc.Param) (h : goodEntryB p = true) : goodEntryB (stripP p) = true := by
  simp only [goodEntryB, Bool.and_eq_true] at h ⊢
  exact ⟨⟨h.1.1, h.1.2⟩, rfl⟩

theorem inDomain_strip (D : Doc.IR) (h : InDomain D) : InDomain (stripD D) := by
  unfold InDomain at h ⊢
  simp only [inDomainB, Bool.and_eq_true] at h ⊢
  obtain ⟨⟨⟨h1, h2⟩, h3⟩, h4⟩ := h
  refine ⟨⟨⟨h1, ?_⟩, ?_⟩, ?_⟩
  · simp only [stripD, List.all_map]
    rw [List.all_eq_true] at h2 ⊢
    intro np hnp
    have := h2 np hnp
    simp only [Bool.and_eq_true, Function.comp] at this ⊢
    exact ⟨this.1, goodEntryB_strip _ this.2⟩
  · have e : (stripD D).params.map (·.1) = D.params.map (·.1) := by
      simp only [stripD, List.map_map]; rfl
    rw [e]; exact h3
  · cases hr : D.returns with
    | none => simp [stripD, hr]
    | some rp => rw [hr] at h4; simpa [stripD, hr] using goodEntryB_strip rp h4

/-! ### the function format: what the docstring reader gets back, and the bridge -/



theorem quietB_of_goodDesc (d : Str) (g : GoodDesc d) : quietB d = true := by
  simp only [quietB, Bool.and_eq_true, List.all_eq_true]
  refine ⟨fun v hv => by simp [g.noAnn v hv], fun v hv => by simp [g.noParenAnn v hv]⟩

theorem docQuiet_good' (px : String → Option Iface.Expr) (name : String) (isNone : Bool) (d : String)
    (g : GoodDesc d.toList) (ha : adhocTyp d name isNone = none) : Iface.docQuiet (restEnv px) name isNone d = true := by
  have ht := tidyDoc_id d g.noBreak g.headNS g.lastNS
  unfold Iface.docQuiet
  simp only [restEnv, ht, extractDefault_quiet true d (quietB_of_goodDesc _ g), beq_self_eq_true, Bool.true_and, ha, Iface.startsWith,
    lit_Optional, lit_POptional]
  have h1 := g.noOpt
  have h2 := g.noPOpt
  unfold Py.startsWith at h1 h2
  simp [sOptionalW, sPOptionalW, h1, h2]

theorem expParam_strip (et : Bool) (q : Doc.Param) :
    expParam et true (stripP q) = { typ := if et && truthy q.typ then q.typ else Option.none, doc := some (q.doc.getD []), default := Option.none } := by
  unfold expParam stripP dfltOf docText
  cases q.doc <;> simp

theorem expRet_strip (et : Bool) (q : Doc.Param) : expRet et true (stripP q) = expParam et true (stripP q) := by
  unfold expRet expParam stripP dfltOf
  simp

/-- what the function parser's docstring reader answers for one entry, checked against the entry -/
theorem fn_entry_ok (px : String → Option Iface.Expr) (cfg : Iface.Cfg) (n : String) (isNone : Bool) (p : Iface.Param)
    (g : GoodEntry (stripP (paramToDoc p))) (ha : ∀ d, p.doc = some d → adhocTyp d n isNone = none) :
    Iface.fnDescOK (restEnv px) n isNone (paramOfDoc (expParam (!cfg.typeAnnotations) true (stripP (paramToDoc p)))).doc p.doc = true
    ∧ Iface.fnTypOK cfg (paramOfDoc (expParam (!cfg.typeAnnotations) true (stripP (paramToDoc p)))).typ p.typ = true
    ∧ (paramOfDoc (expParam (!cfg.typeAnnotations) true (stripP (paramToDoc p)))).default = none := by
  rw [expParam_strip]
  obtain ⟨d, hd⟩ : ∃ d, p.doc = some d := by
    cases hp : p.doc with
    | none => exact absurd (by simp [stripP, paramToDoc, hp]) g.docSome
    | some d => exact ⟨d, rfl⟩
  have gd : GoodDesc d.toList := g.doc d.toList (by simp [stripP, paramToDoc, hd])
  refine ⟨?_, ?_, ?_⟩
  · simp only [paramOfDoc, paramToDoc, hd, Option.map_some, Option.getD_some, String.ofList_toList]
    unfold Iface.fnDescOK
    simp only [docView_good d gd, Option.bind_some, beq_self_eq_true, Bool.true_and]
    exact docQuiet_good' px n isNone d gd (ha d hd)
  · unfold Iface.fnTypOK
    cases hta : cfg.typeAnnotations with
    | true => simp [paramOfDoc]
    | false =>
      simp only [Bool.false_eq_true, if_false, Bool.not_false, Bool.true_and, paramOfDoc, paramToDoc]
      cases ht : p.typ with
      | none => simp
      | some t =>
        have gt := g.typ t.toList (by simp [stripP, paramToDoc, ht])
        have : truthy (some t.toList) = true := by
          cases hl : t.toList with
          | nil => exact absurd hl gt.ne
          | cons _ _ => rfl
        simp [this, String.ofList_toList]
  · simp [paramOfDoc]



theorem candidate_strip' (D : Doc.IR) (et ww : Bool) (g : GoodIR (stripD D)) :
    candidate false D et ww false = candidate false (stripD D) et ww true := by
  have hent : ∀ np ∈ D.params, ∀ d, np.2.doc = some d → contains d "Defaults".toList = false ∧ contains d "defaults".toList = false := by
    intro np hnp d hd
    have := g.entries (np.1, stripP np.2) (by simp only [stripD]; exact List.mem_map.mpr ⟨np, hnp, rfl⟩)
    exact noDefaults_of_good _ this d hd
  unfold candidate
  simp only [paramStr, Bool.false_eq_true, if_false, stripD]
  rw [mapOut_congr_map (fun np => emitParamStr np.1 np.2 .rest et ww false) (fun np => emitParamStr np.1 np.2 .rest et ww true)
    (fun np => (np.1, stripP np.2)) D.params (fun np hnp => emitParamStr_strip np.1 np.2 et ww (hent np hnp))]
  cases mapOut (fun np => emitParamStr np.1 np.2 .rest et ww true) (D.params.map (fun np => (np.1, stripP np.2))) with
  | outside w => rfl
  | ok blocks =>
    simp only []
    cases hr : D.returns with
    | none => rfl
    | some rp =>
      have := g.ret (stripP rp) (by simp [stripD, hr])
      simp only [Option.map_some, emitParamStr_strip sReturnType rp et ww (fun d hd => noDefaults_of_good (stripP rp) this d hd)]

def Out.isOk {α : Type} : Out α → Bool | .ok _ => true | .outside _ => false

/-- `parse_adhoc_doc_for_typ` finds no type in the description (and there is a description) -/
def adhocQuiet (name : String) (isNone : Bool) (p : Iface.Param) : Bool :=
  match p.doc with | some d => adhocTyp d name isNone == none | Option.none => false

/-- **function**: ReST, `emit_default_doc=False`; the interface without its defaults (such a docstring carries none) is in
    the `C01Whole` domain; a one-line, non-empty header; at least one parameter; the emitter model answers (`textwrap.fill`
    re-flows no line); the prose of no description triggers the ad-hoc type inference -/
def inRestFn (cfg : Iface.Cfg) (ir : Iface.IR) : Bool :=
  cfg.style == .rest && !cfg.emitDefaultDoc &&
  inDomainB (stripD (irToDoc ir)) && !ir.doc.toList.isEmpty && oneLineB ir.doc.toList && !ir.params.isEmpty &&
  Out.isOk (candidate false (irToDoc ir) (!cfg.typeAnnotations) true false) &&
  ir.params.all (fun kv => adhocQuiet kv.1 (kv.2.default.isNone || Iface.isNoneStrD kv.2.default) kv.2) &&
  (match ir.returns with | some r => adhocQuiet "return_type" false r | Option.none => true)

theorem setValueStr_nl (R : Str) (h : R.head? = some '\n') : Iface.setValueStr (String.ofList R) = String.ofList R := by
  cases R with
  | nil => cases h
  | cons c cs =>
    simp only [List.head?_cons, Option.some.injEq] at h
    subst h
    simp [Iface.setValueStr, Iface.quotedLike, String.toList_ofList]

theorem lit_cvar : ":cvar".toList = sCvar := by decide

theorem forall2_map_left {α β : Type} (f : β → α → Bool) (φ : α → β) (l : List α) (h : ∀ a ∈ l, f (φ a) a = true) :
    Iface.forall2 f (l.map φ) l = true := by
  induction l with
  | nil => rfl
  | cons a as ih => simp only [List.map_cons, Iface.forall2, h a (by simp), ih (fun x hx => h x (by simp [hx])), Bool.and_self]

/-- what the function parser's docstring reader gets back from the docstring the function emitter wrote -/
theorem fnDocIR0_rest (px : String → Option Iface.Expr) (cfg : Iface.Cfg) (ir : Iface.IR) (h : inRestFn cfg ir = true) :
    Iface.fnDocIR0 (restEnv px) cfg ir = irOfDoc (expIR (stripD (irToDoc ir)) (!cfg.typeAnnotations) true) := by
  simp only [inRestFn, Bool.and_eq_true, Bool.not_eq_true', beq_iff_eq] at h
  obtain ⟨⟨⟨⟨⟨⟨⟨⟨hstyle, hedd⟩, hdom⟩, hdne⟩, hone⟩, hpne⟩, hok⟩, _⟩, _⟩ := h
  have g := inDomain_sound _ hdom
  generalize hD : irToDoc ir = D at *
  generalize het : (!cfg.typeAnnotations) = et at *
  obtain ⟨T, hT⟩ : ∃ T, candidate false D et true false = .ok T := by
    cases hc : candidate false D et true false with
    | ok T => exact ⟨T, rfl⟩
    | outside w => rw [hc] at hok; cases hok
  have hT' : candidate false (stripD D) et true true = .ok T := by rw [← candidate_strip' D et true g]; exact hT
  have hdoc : (stripD D).doc = ir.doc.toList := by rw [← hD]; rfl
  have hdne' : (stripD D).doc ≠ [] := by rw [hdoc]; intro e; rw [e] at hdne; cases hdne
  obtain ⟨hH, hNT⟩ : GoodHeader (stripD D).doc ∧ NoTok (stripD D).doc := by
    rcases g.hdr with h0 | h0
    · exact absurd h0 hdne'
    · exact h0
  have hNB : NoBreak (stripD D).doc := by rw [hdoc]; exact oneLineB_sound _ hone
  have hblocks : allBlocks (stripD D) et true ≠ [] := by
    have : (stripD D).params ≠ [] := by
      rw [← hD]; simp only [stripD, irToDoc, ne_eq, List.map_eq_nil_iff]
      intro e; rw [e] at hpne; cases hpne
    unfold allBlocks
    intro e
    have h1 := (List.append_eq_nil_iff.mp e).1
    exact this (List.map_eq_nil_iff.mp h1)
  have hshape := candidate_fn_shape (stripD D) et true true T g hH hblocks hT'
  obtain ⟨Ls, hjoin, hLne, hLs, hlast⟩ := body_lines (allBlocks (stripD D) et true) hblocks (allBlocks_fline _ et true g)
  generalize hHd : (stripD D).doc = H at *
  have hTl : T = join ['\n'] (H :: [] :: Ls) ++ ['\n'] := by
    rw [hshape, ← hjoin]
    cases Ls with
    | nil => exact absurd rfl hLne
    | cons y ys => simp only [join_cons2]; simp
  have hLsNB : ∀ l ∈ Ls, NoBreak l := by
    intro l hl
    rcases hLs l hl with rfl | hf
    · intro c hc; cases hc
    · exact hf.noBreak
  have hlast' : ∀ z, Ls.getLast? = some z → z ≠ [] ∧ LastNS z := fun z hz => ⟨(hlast z hz).ne, (hlast z hz).good.lastNS⟩
  -- the emitted docstring
  have hR : docEmit (Iface.fnDocCfg cfg) ir
      = String.ofList (['\n'] ++ join ['\n'] ((H :: [] :: Ls).map (tabify 2 false)) ++ ['\n'] ++ tabs 2) := by
    unfold docEmit docEmitL
    simp only [Iface.fnDocCfg, hstyle, hedd, emitText, hD, het, hT]
    rw [hTl, indentStage_lines 2 false H Ls (by decide) hH.ne hH.headNS hNB hLsNB hLne hlast']
  -- `Doc.emit` of the interface without defaults, `emit_default_doc=True`, is the candidate
  have hemit : emit (stripD D) .rest et true true = .ok T := by
    rw [emit_eq_candidate, hT']
    simp only []
    congr 1
    obtain ⟨c, cs, hc⟩ : ∃ c cs, H = c :: cs := by
      cases hh : H with
      | nil => exact absurd hh hH.ne
      | cons c cs => exact ⟨c, cs, rfl⟩
    apply finish_with_nl T (by rw [hTl]; simp) c (by rw [hTl, hc, join_cons2]; simp) (hH.headNS c (by rw [hc]; rfl))
  have hparse := rest_roundtrip_full (stripD D) et true true hdom T hemit
  unfold Iface.fnDocIR0
  simp only [restEnv]
  rw [hR, setValueStr_nl _ rfl, String.toList_ofList, lit_cvar, replace_none _ _ _ (indented_noCvar 2 false H Ls hNT hLs)]
  unfold docParse
  have hRe : (['\n'] ++ join ['\n'] ((H :: [] :: Ls).map (tabify 2 false)) ++ ['\n'] ++ tabs 2).isEmpty = false := rfl
  simp only [String.toList_ofList, hRe, Bool.false_eq_true, if_false, parseEdd,
    normText_indented 2 H Ls hH hNB hNT hLs hLne hlast, ← hTl, hparse]

/-- **the bridge, function format**: on `inRestFn` the docstring-layer hypothesis of `C02_function` holds for the concrete layer -/
theorem function_bridge (px : String → Option Iface.Expr) (cfg : Iface.Cfg) (ir : Iface.IR) (h : inRestFn cfg ir = true) :
    Iface.functionHyp (restEnv px) cfg ir = true := by
  have hd := fnDocIR0_rest px cfg ir h
  simp only [inRestFn, Bool.and_eq_true, Bool.not_eq_true', beq_iff_eq] at h
  obtain ⟨⟨⟨⟨⟨⟨⟨⟨_, _⟩, hdom⟩, _⟩, _⟩, _⟩, _⟩, hadP⟩, hadR⟩ := h
  have g := inDomain_sound _ hdom
  unfold Iface.functionHyp
  simp only [hd, Bool.and_eq_true]
  constructor
  · have hparams : (irOfDoc (expIR (stripD (irToDoc ir)) (!cfg.typeAnnotations) true)).params
        = ir.params.map (fun kv => (String.ofList kv.1.toList, paramOfDoc (expParam (!cfg.typeAnnotations) true (stripP (paramToDoc kv.2))))) := by
      simp only [irOfDoc, expIR, stripD, irToDoc, List.map_map]; rfl
    rw [hparams]
    apply forall2_map_left
    intro kv hkv
    have ge : GoodEntry (stripP (paramToDoc kv.2)) :=
      g.entries (kv.1.toList, stripP (paramToDoc kv.2)) (by
        simp only [stripD, irToDoc, List.map_map]; exact List.mem_map.mpr ⟨kv, hkv, rfl⟩)
    have hq := List.all_eq_true.mp hadP kv hkv
    have ha : ∀ d, kv.2.doc = some d → adhocTyp d kv.1 (kv.2.default.isNone || Iface.isNoneStrD kv.2.default) = none := by
      intro d hdd
      simp only [adhocQuiet, hdd, beq_iff_eq] at hq
      exact hq
    obtain ⟨h1, h2, h3⟩ := fn_entry_ok px cfg kv.1 (kv.2.default.isNone || Iface.isNoneStrD kv.2.default) kv.2 ge ha
    unfold Iface.fnEntryOK
    simp only [String.ofList_toList, beq_self_eq_true, h1, h2, h3, Bool.true_and, Iface.fnDefaultOK, Iface.isNoneLike, Bool.true_or]
  · have hret : (irOfDoc (expIR (stripD (irToDoc ir)) (!cfg.typeAnnotations) true)).returns
        = ir.returns.map (fun r => paramOfDoc (expParam (!cfg.typeAnnotations) true (stripP (paramToDoc r)))) := by
      simp only [irOfDoc, expIR, stripD, irToDoc, Option.map_map]
      cases ir.returns with
      | none => rfl
      | some r => simp only [Option.map_some, Function.comp, expRet_strip]
    rw [hret]
    cases hr : ir.returns with
    | none => rfl
    | some r =>
      have ge : GoodEntry (stripP (paramToDoc r)) := g.ret _ (by simp [stripD, irToDoc, hr])
      rw [hr] at hadR
      have ha : ∀ d, r.doc = some d → adhocTyp d "return_type" false = none := by
        intro d hdd
        simp only [adhocQuiet, hdd, beq_iff_eq] at hadR
        exact hadR
      obtain ⟨h1, h2, h3⟩ := fn_entry_ok px cfg "return_type" false r ge ha
      simp only [Option.map_some, Iface.fnReturnOK, h1, h3, Option.isNone_none, Bool.or_true, Bool.and_true, Bool.true_and]
      unfold Iface.fnTypOK at h2
      cases hta : cfg.typeAnnotations with
      | true => rfl
      | false => simpa [hta] using h2



/-! ### the class format: `:cvar` lines, one newline between them -/

def clsLines (ps : List (Str × Doc.Param)) (edd : Bool) : List Str := ps.map (fun np => paramLine np.1 (docText np.2 edd))

theorem expParam_noTypes (edd : Bool) (p : Doc.Param) :
    expParam false edd p = { typ := (dfltOf p edd).map tyName, doc := some (docText p edd), default := dfltOf p edd } := by
  simp [expParam]

/-- the chunks of consecutive `:param` lines (the last one takes the blank line) append the parsed parameters -/
theorem fold_clsLines (ps : List (Str × Doc.Param)) (ir0 : Doc.IR) (edd : Bool) (hne : ps ≠ [])
    (hn : ∀ np ∈ ps, GoodName np.1) (hp : ∀ np ∈ ps, GoodEntry np.2)
    (hnd : (ir0.params.map (·.1) ++ ps.map (·.1)).Nodup) :
    foldChunks edd ir0 (chunksOfBlock (clsLines ps edd))
      = .ok { ir0 with params := ir0.params ++ ps.map (fun np => (np.1, expParam false edd np.2)) } := by
  induction ps generalizing ir0 with
  | nil => exact absurd rfl hne
  | cons np r ih =>
    have hfresh : np.1 ∉ ir0.params.map (·.1) := by
      intro hm
      have := (List.nodup_append.mp hnd).2.2 _ hm np.1 (by simp)
      exact this rfl
    have hnn := hn np (by simp)
    have hpp := hp np (by simp)
    have hncol : ':' ∉ np.1 := fun h => (hnn.chars _ h).1 rfl
    have gd := docText_good np.2 edd hpp
    cases r with
    | nil =>
      simp only [clsLines, List.map_cons, List.map_nil, chunksOfBlock]
      rw [foldChunks_cons_ok edd ir0 _ _ []
        (stepChunk_param ir0 _ edd np.1 (docText np.2 edd) ['\n'] _ (join_line_blank _) hncol gd.headNS gd.lastNS allSpace_nl
          (upsert_fresh _ _ _ _ hfresh (fDoc_good np.1 np.2 edd hnn hpp)))]
      simp only [foldChunks, expParam_noTypes]
    | cons np2 r' =>
      have e : chunksOfBlock (clsLines (np :: np2 :: r') edd) = [paramLine np.1 (docText np.2 edd)] :: chunksOfBlock (clsLines (np2 :: r') edd) := by
        simp [clsLines, chunksOfBlock]
      rw [e, foldChunks_cons_ok edd ir0 _ _ _
        (stepChunk_param ir0 _ edd np.1 (docText np.2 edd) [] _ (join_line _) hncol gd.headNS gd.lastNS allSpace_nil
          (upsert_fresh _ _ _ _ hfresh (fDoc_good np.1 np.2 edd hnn hpp)))]
      rw [ih _ (by simp) (fun x hx => hn x (by simp [hx])) (fun x hx => hp x (by simp [hx])) (by
        simp only [List.map_append, List.map_cons, List.map_nil, List.append_assoc, List.singleton_append]
        simpa using hnd)]
      simp [expParam_noTypes]



theorem cvarLine_good (name doc : Str) (hn : GoodName name) (hd : GoodText doc) : GoodLine (cvarLine name doc) := by
  refine ⟨⟨['c','v','a','r',' '] ++ name ++ [':',' '] ++ doc, by simp [cvarLine, pfxCvar], ?_⟩, ?_⟩
  · exact noBreak_append _ _ (noBreak_append _ _ (noBreak_append _ _ (noBreak_lit _ (by decide)) (noBreak_of_chars _ hn.chars))
      (noBreak_lit _ (by decide))) hd.noBreak
  · exact lastNS_append _ doc hd.ne hd.lastNS

/-- one `:cvar` block, as emitted with `emit_default_doc=False` -/
theorem clsParamStr_good (name : Str) (p : Doc.Param) (ww : Bool) (blk : Str) (hn : GoodName name) (g : GoodEntry (stripP p))
    (h : clsParamStr name p ww false = .ok blk) : blk = cvarLine name (docText (stripP p) true) := by
  have htr : truthy p.doc = true := goodEntry_truthy (stripP p) g
  have hs : setDefaultDoc name p false = .ok (some (docText (stripP p) true)) := by
    rw [setDefaultDoc_strip name p (fun d hd => noDefaults_of_good (stripP p) g d hd)]
    exact setDefaultDoc_good name (stripP p) true g
  have gd := docText_good (stripP p) true g
  unfold clsParamStr at h
  simp only [htr, if_true, hs, lstrip_headNS _ gd.headNS] at h
  cases hf : fillLine ww (cvarLine name (docText (stripP p) true)) with
  | outside w => rw [hf] at h; cases h
  | ok l =>
    rw [hf] at h
    simp only [] at h
    have := fillLine_ok ww _ l hf
    subst this
    have hi := goodLine_indent _ (cvarLine_good name _ hn gd)
    rw [hi] at h
    exact (Out.ok.inj h).symm

theorem mapOut_cls_blocks (ps : List (Str × Doc.Param)) (ww : Bool) (blocks : List Str)
    (hn : ∀ np ∈ ps, GoodName np.1) (hp : ∀ np ∈ ps, GoodEntry (stripP np.2))
    (h : mapOut (fun np => clsParamStr np.1 np.2 ww false) ps = .ok blocks) :
    blocks = ps.map (fun np => cvarLine np.1 (docText (stripP np.2) true)) := by
  induction ps generalizing blocks with
  | nil => simp only [mapOut] at h; cases h; rfl
  | cons np r ih =>
    simp only [mapOut] at h
    cases hf : clsParamStr np.1 np.2 ww false with
    | outside w => rw [hf] at h; cases h
    | ok b =>
      rw [hf] at h
      cases hm : mapOut (fun np => clsParamStr np.1 np.2 ww false) r with
      | outside w => rw [hm] at h; cases h
      | ok bs =>
        rw [hm] at h; cases h
        rw [clsParamStr_good np.1 np.2 ww b (hn np (by simp)) (hp np (by simp)) hf,
          ih bs (fun x hx => hn x (by simp [hx])) (fun x hx => hp x (by simp [hx])) hm]
        rfl

/-- **shape of the class-purpose candidate** (no return entry): header, blank line, the `:cvar` lines, newline -/
theorem candidate_cls_shape (D : Doc.IR) (et ww : Bool) (T : Str) (g : GoodIR (stripD D)) (hh : GoodHeader D.doc)
    (hne : D.params ≠ []) (hr : D.returns = Option.none) (h : candidate true D et ww false = .ok T) :
    T = join ['\n'] (D.doc :: [] :: D.params.map (fun np => cvarLine np.1 (docText (stripP np.2) true))) ++ ['\n'] := by
  have hnames : ∀ np ∈ D.params, GoodName np.1 := fun np hnp =>
    g.names (np.1, stripP np.2) (by simp only [stripD]; exact List.mem_map.mpr ⟨np, hnp, rfl⟩)
  have hents : ∀ np ∈ D.params, GoodEntry (stripP np.2) := fun np hnp =>
    g.entries (np.1, stripP np.2) (by simp only [stripD]; exact List.mem_map.mpr ⟨np, hnp, rfl⟩)
  unfold candidate at h
  simp only [paramStr, if_true, sepOf, hr] at h
  cases hm : mapOut (fun np => clsParamStr np.1 np.2 ww false) D.params with
  | outside w => rw [hm] at h; cases h
  | ok blocks =>
    rw [hm] at h
    simp only [] at h
    have hs := Out.ok.inj h
    have hblocks := mapOut_cls_blocks D.params ww blocks hnames hents hm
    have hbne : blocks ≠ [] := by rw [hblocks]; simpa using hne
    have hbody : ∀ b ∈ blocks, Bodyish b := by
      intro b hb
      rw [hblocks] at hb
      obtain ⟨np, hnp, rfl⟩ := List.mem_map.mp hb
      exact goodLine_bodyish _ (cvarLine_good np.1 _ (hnames np hnp) (docText_good _ true (hents np hnp)))
    have hP : Bodyish (join ['\n'] blocks) := bodyish_join _ _ hbne hbody
    obtain ⟨pre, hpre, hfin⟩ := outOf_shape_noret D.doc _ (Or.inr hh) hP
    have hpre' : pre = D.doc ++ ['\n', '\n'] := by
      cases hpre with
      | none h0 => exact absurd h0 hh.ne
      | nl h0 => exact absurd h0 hh.ne
      | hdr _ => rfl
    rw [hpre'] at hfin
    have hheadX : HeadNS (D.doc ++ ['\n', '\n'] ++ join ['\n'] blocks ++ ['\n']) := by
      intro c hc
      cases hd : D.doc with
      | nil => exact absurd hd hh.ne
      | cons x xs => rw [hd] at hc; simp only [List.cons_append, List.head?_cons, Option.some.injEq] at hc; subst hc; exact hh.headNS x (by rw [hd]; rfl)
    have := finish_id_of _ _ hfin (by simp) hheadX
    rw [← hs]
    show DocRT.outOf _ _ _ = _
    rw [this, hblocks]
    cases hps : D.params with
    | nil => exact absurd hps hne
    | cons np r => simp only [List.map_cons, join_cons2]; simp



theorem normLine_cvar (n : Nat) (name d : Str) : normLine (tabs n ++ cvarLine name d) = paramLine name d := by
  unfold normLine
  have hl : lstrip (tabs n ++ cvarLine name d) = cvarLine name d := by
    rw [lstrip_spaces_append _ _ (allSpace_tabs n)]
    exact lstrip_cons_ns ':' _ (by decide)
  rw [hl]
  have h1 : startsWith (cvarLine name d) sCvar = true := by simp [cvarLine, pfxCvar, sCvar, startsWith, List.isPrefixOf]
  simp only [h1, if_true]
  simp [cvarLine, pfxCvar, paramLine, pfxParam, sParam]

theorem headNS_append (H Y : Str) (hne : H ≠ []) (hh : HeadNS H) : HeadNS (H ++ Y) := by
  intro c hc
  cases H with
  | nil => exact absurd rfl hne
  | cons x xs => simp only [List.cons_append, List.head?_cons, Option.some.injEq] at hc; subst hc; exact hh x rfl

theorem lastNS_cons (c : Char) (s : Str) (hs : s ≠ []) (h : LastNS s) : LastNS (c :: s) := by
  have := lastNS_append [c] s hs h
  simpa using this

/-- the class emitter's `.rstrip()` removes the closing `"\n" + tab` of the indented docstring -/
theorem rstrip_cls (n : Nat) (H : Str) (nds : List (Str × Str)) (hne : nds ≠ []) (hnds : ∀ nd ∈ nds, nd.2 ≠ [] ∧ LastNS nd.2) :
    rstrip (['\n'] ++ join ['\n'] ((H :: [] :: nds.map (fun nd => cvarLine nd.1 nd.2)).map (tabify n true)) ++ ['\n'] ++ tabs n)
      = ['\n'] ++ join ['\n'] ((H :: [] :: nds.map (fun nd => cvarLine nd.1 nd.2)).map (tabify n true)) := by
  obtain ⟨z, hz⟩ : ∃ z, nds.getLast? = some z := by
    cases hg : nds.getLast? with
    | none => exact absurd (List.getLast?_eq_none_iff.mp hg) hne
    | some z => exact ⟨z, rfl⟩
  obtain ⟨ys, hys⟩ := List.getLast?_eq_some_iff.mp hz
  obtain ⟨hzne, hzl⟩ := hnds z (by rw [hys]; simp)
  have hlastC : LastNS (tabify n true (cvarLine z.1 z.2)) := by
    simp only [tabify, Bool.or_true, if_true]
    unfold cvarLine
    rw [← List.append_assoc]
    exact lastNS_append _ z.2 hzne hzl
  have hbodyL : LastNS (['\n'] ++ join ['\n'] ((H :: [] :: nds.map (fun nd => cvarLine nd.1 nd.2)).map (tabify n true))) := by
    rw [hys]
    have e : (H :: [] :: (ys ++ [z]).map (fun nd => cvarLine nd.1 nd.2)).map (tabify n true)
        = ((H :: [] :: ys.map (fun nd => cvarLine nd.1 nd.2)).map (tabify n true)) ++ [tabify n true (cvarLine z.1 z.2)] := by simp
    rw [e, join_append_singleton _ _ _ (by simp), ← List.append_assoc]
    exact lastNS_append _ _ (by simp [tabify, cvarLine, pfxCvar]) hlastC
  rw [List.append_assoc, rstrip_append_spaces _ _ (allSpace_append _ _ allSpace_nl (allSpace_tabs n)), rstrip_lastNS _ hbodyL]

/-- **`normText` on the right-stripped, indented class docstring**: `:cvar` lines become `:param` lines, the blank-only
    separator line stays -/
theorem normText_cls (n : Nat) (H : Str) (nds : List (Str × Str)) (hH : GoodHeader H) (hb : NoBreak H) (ht : NoTok H)
    (hne : nds ≠ []) (hnds : ∀ nd ∈ nds, '\n' ∉ nd.1 ∧ '\n' ∉ nd.2 ∧ nd.2 ≠ [] ∧ LastNS nd.2) :
    normText (['\n'] ++ join ['\n'] ((H :: [] :: nds.map (fun nd => cvarLine nd.1 nd.2)).map (tabify n true)))
      = H ++ ['\n'] ++ tabs n ++ ['\n'] ++ join ['\n'] (nds.map (fun nd => paramLine nd.1 nd.2)) ++ ['\n'] := by
  have hHe : H.isEmpty = false := by cases H with | nil => exact absurd rfl hH.ne | cons _ _ => rfl
  have hnl_tabs : '\n' ∉ tabs n := fun hm => by
    have := List.eq_of_mem_replicate hm; revert this; decide
  have hmapT : (H :: [] :: nds.map (fun nd => cvarLine nd.1 nd.2)).map (tabify n true)
      = (tabs n ++ H) :: tabs n :: nds.map (fun nd => tabs n ++ cvarLine nd.1 nd.2) := by
    simp [tabify, List.map_map, Function.comp]
  rw [hmapT]
  obtain ⟨z, hz⟩ : ∃ z, nds.getLast? = some z := by
    cases hg : nds.getLast? with
    | none => exact absurd (List.getLast?_eq_none_iff.mp hg) hne
    | some z => exact ⟨z, rfl⟩
  obtain ⟨ys, hys⟩ := List.getLast?_eq_some_iff.mp hz
  have hzm : z ∈ nds := by rw [hys]; simp
  obtain ⟨_, _, hzne, hzl⟩ := hnds z hzm
  have hlastP : LastNS (paramLine z.1 z.2) := lastNS_append _ z.2 hzne hzl
  have hR : ['\n'] ++ join ['\n'] ((tabs n ++ H) :: tabs n :: nds.map (fun nd => tabs n ++ cvarLine nd.1 nd.2))
      = join ['\n'] ([] :: (tabs n ++ H) :: tabs n :: nds.map (fun nd => tabs n ++ cvarLine nd.1 nd.2)) := by
    rw [join_cons2 ['\n'] ([] : Str) (tabs n ++ H)]
    rfl
  have hnoNl : ∀ l ∈ ([] :: (tabs n ++ H) :: tabs n :: nds.map (fun nd => tabs n ++ cvarLine nd.1 nd.2)), '\n' ∉ l := by
    intro l hl
    simp only [List.mem_cons, List.mem_map] at hl
    rcases hl with rfl | rfl | rfl | ⟨nd, hnd, rfl⟩
    · simp
    · exact notin_append hnl_tabs (noBreak_no_nl H hb)
    · exact hnl_tabs
    · obtain ⟨h1, h2, _, _⟩ := hnds nd hnd
      refine notin_append hnl_tabs ?_
      unfold cvarLine pfxCvar
      exact notin_append (notin_append (notin_append (by decide) h1) (by decide)) h2
  unfold normText
  rw [hR, split1_join '\n' _ (by simp) hnoNl]
  have hmap : ([] :: (tabs n ++ H) :: tabs n :: nds.map (fun nd => tabs n ++ cvarLine nd.1 nd.2)).map normLine
      = [] :: (tabs n ++ H) :: tabs n :: nds.map (fun nd => paramLine nd.1 nd.2) := by
    simp only [List.map_cons, normLine_nil, normLine_hdr n H hH.headNS ht, normLine_tabs, List.map_map]
    congr 3
    apply List.map_congr_left
    intro nd _
    exact normLine_cvar n nd.1 nd.2
  rw [hmap]
  obtain ⟨y, ys', hyc⟩ : ∃ y ys', nds = y :: ys' := by
    cases nds with
    | nil => exact absurd rfl hne
    | cons y ys' => exact ⟨y, ys', rfl⟩
  have hjoin : join ['\n'] ([] :: (tabs n ++ H) :: tabs n :: nds.map (fun nd => paramLine nd.1 nd.2))
      = (['\n'] ++ tabs n) ++ (H ++ ['\n'] ++ tabs n ++ ['\n'] ++ join ['\n'] (nds.map (fun nd => paramLine nd.1 nd.2))) ++ [] := by
    rw [hyc]; simp only [List.map_cons, join_cons2]; simp
  rw [hjoin]
  have hcoreL : LastNS (H ++ ['\n'] ++ tabs n ++ ['\n'] ++ join ['\n'] (nds.map (fun nd => paramLine nd.1 nd.2))) := by
    rw [hys, List.map_append, List.map_cons, List.map_nil]
    cases ys with
    | nil => simp only [List.map_nil, List.nil_append, join]; exact lastNS_append _ _ (by simp [paramLine, pfxParam]) hlastP
    | cons a as =>
      rw [join_append_singleton _ _ _ (by simp), ← List.append_assoc, ← List.append_assoc]
      exact lastNS_append _ _ (by simp [paramLine, pfxParam]) hlastP
  have hcoreH : HeadNS (H ++ ['\n'] ++ tabs n ++ ['\n'] ++ join ['\n'] (nds.map (fun nd => paramLine nd.1 nd.2))) := by
    rw [List.append_assoc, List.append_assoc, List.append_assoc]
    exact headNS_append H _ hH.ne hH.headNS
  rw [strip_core (['\n'] ++ tabs n) _ [] (allSpace_append _ _ allSpace_nl (allSpace_tabs n)) allSpace_nil hcoreH hcoreL]

theorem noTok_allSpace (s : Str) (h : AllSpace s) : NoTok s := by
  apply noTok_of_noColon
  intro hm
  have := h ':' hm
  revert this; decide

/-- **the class docstring, read back**: header, a blank-only line, consecutive `:param` lines -/
theorem parse_cls_text (H tb : Str) (ps : List (Str × Doc.Param)) (edd : Bool) (hH : GoodHeader H) (hNT : NoTok H) (hNB : NoBreak H)
    (htb : AllSpace tb) (htbn : '\n' ∉ tb) (hne : ps ≠ [])
    (hn : ∀ np ∈ ps, GoodName np.1) (hp : ∀ np ∈ ps, GoodEntry np.2) (hnd : (ps.map (·.1)).Nodup) :
    parseRest (H ++ ['\n'] ++ tb ++ ['\n'] ++ join ['\n'] (clsLines ps edd) ++ ['\n']) edd
      = .ok { doc := H, params := ps.map (fun np => (np.1, expParam false edd np.2)), returns := Option.none } := by
  have hgood : ∀ l ∈ clsLines ps edd, GoodLine l ∧ EntryLine l := by
    intro l hl
    obtain ⟨np, hnp, rfl⟩ := List.mem_map.mp hl
    have hncol : ':' ∉ np.1 := fun h => ((hn np hnp).chars _ h).1 rfl
    exact ⟨paramLine_good np.1 _ (hn np hnp) (docText_good np.2 edd (hp np hnp)),
      paramLine_entry np.1 _ hncol (docText_good np.2 edd (hp np hnp)).noTok⟩
  have hcne : clsLines ps edd ≠ [] := by simpa [clsLines] using hne
  have hlines : split1 (H ++ ['\n'] ++ tb ++ ['\n'] ++ join ['\n'] (clsLines ps edd) ++ ['\n']) '\n'
      = [H, tb] ++ [clsLines ps edd].flatMap (· ++ [[]]) := by
    have e : H ++ ['\n'] ++ tb ++ ['\n'] ++ join ['\n'] (clsLines ps edd) ++ ['\n']
        = H ++ '\n' :: (tb ++ '\n' :: (join ['\n'] (clsLines ps edd) ++ '\n' :: [])) := by simp
    rw [e, split1_append_sep, split1_append_sep, split1_append_sep, split1_no H '\n' (noBreak_no_nl H hNB), split1_no tb '\n' htbn,
      split1_join '\n' _ hcne (fun l hl => goodLine_no_nl l (hgood l hl).1), split1_nil]
    simp
  have hhdr : ∀ l ∈ [H, tb], NoTok l := by
    intro l hl
    simp only [List.mem_cons, List.not_mem_nil, or_false] at hl
    rcases hl with rfl | rfl
    · exact hNT
    · exact noTok_allSpace _ htb
  have hline : ∀ l ∈ split1 (H ++ ['\n'] ++ tb ++ ['\n'] ++ join ['\n'] (clsLines ps edd) ++ ['\n']) '\n', NoTok l ∨ EntryLine l := by
    intro l hl
    rw [hlines] at hl
    rcases List.mem_append.mp hl with hl | hl
    · exact Or.inl (hhdr l hl)
    · simp only [List.flatMap_cons, List.flatMap_nil, List.append_nil, List.mem_append, List.mem_singleton] at hl
      rcases hl with hl | rfl
      · exact Or.inr (hgood l hl).2
      · exact Or.inl noTok_nil
  have hc1 : (split1 (H ++ ['\n'] ++ tb ++ ['\n'] ++ join ['\n'] (clsLines ps edd) ++ ['\n']) '\n').any (fun l => allRestTokens.any (fun t => contains (l.drop 1) t)) = false := by
    apply any_false_of
    intro l hl
    rcases hline l hl with h | h
    · exact (noTok_checks l h).2.1
    · exact h.c1
  have hc2 : (split1 (H ++ ['\n'] ++ tb ++ ['\n'] ++ join ['\n'] (clsLines ps edd) ++ ['\n']) '\n').any (fun l => [":raises".toList, ":cvar".toList, ":ivar".toList, ":var".toList].any (fun t => startsWith l t)) = false := by
    apply any_false_of
    intro l hl
    rcases hline l hl with h | h
    · exact (noTok_checks l h).2.2
    · exact h.c2
  have hgroup : groupLines (split1 (H ++ ['\n'] ++ tb ++ ['\n'] ++ join ['\n'] (clsLines ps edd) ++ ['\n']) '\n') Option.none [] []
      = ([H, tb], [clsLines ps edd].flatMap chunksOfBlock) := by
    rw [hlines]
    exact groupLines_emitted [H, tb] _ (fun l hl => (noTok_checks l (hhdr l hl)).1)
      (fun b hb => by
        simp only [List.mem_singleton] at hb; subst hb
        exact ⟨hcne, fun l hl => (hgood l hl).2.tok⟩)
  have hstrip : strip (join ['\n'] [H, tb]) = H := by
    have := strip_core [] H (['\n'] ++ tb) allSpace_nil (allSpace_append _ _ allSpace_nl htb) hH.headNS hH.lastNS
    simpa [join] using this
  have hfold := fold_clsLines ps { doc := H } edd hne hn hp (by simpa using hnd)
  unfold parseRest
  simp only [hc1, hc2, Bool.false_eq_true, if_false, hgroup, hstrip, List.flatMap_cons, List.flatMap_nil, List.append_nil, hfold,
    List.nil_append, mapVals_final ps false edd hp]

/-! ### the class format: what the docstring reader gets back, and the bridge -/

theorem docText_strip (q : Doc.Param) (edd : Bool) : docText (stripP q) edd = q.doc.getD [] := by
  unfold docText stripP
  cases q.doc <;> cases edd <;> rfl

/-- **class / pydantic**: ReST, `emit_default_doc=False` (the class parser reads with `emit_default_doc=False`), no return
    entry; the interface without its defaults is in the `C01Whole` domain; a one-line, non-empty header; at least one
    attribute; the emitter model answers; no description triggers the ad-hoc type inference -/
def inRestCls (cfg : Iface.Cfg) (ir : Iface.IR) : Bool :=
  cfg.style == .rest && !cfg.emitDefaultDoc && ir.returns.isNone &&
  inDomainB (stripD (irToDoc ir)) && !ir.doc.toList.isEmpty && oneLineB ir.doc.toList && !ir.params.isEmpty &&
  Out.isOk (candidate true (irToDoc ir) false true false) &&
  ir.params.all (fun kv => adhocQuiet kv.1 (Iface.isNoneStrD kv.2.default) kv.2)

theorem classDocIR_noret (ir : Iface.IR) (h : ir.returns = none) : Iface.classDocIR ir = ir := by
  unfold Iface.classDocIR Iface.mergedParams
  cases ir with
  | mk name type doc params returns =>
    simp only at h
    subst h
    rfl

/-- the docstring interface the class parser starts from: header, every attribute with its description only -/
def clsExp (ir : Iface.IR) : Doc.IR :=
  { doc := ir.doc.toList, params := (stripD (irToDoc ir)).params.map (fun np => (np.1, expParam false false np.2)),
    returns := Option.none }

/-- what the class parser's docstring reader gets back from the docstring the class emitter wrote -/
theorem clsDocIR0_rest (px : String → Option Iface.Expr) (cfg : Iface.Cfg) (ir : Iface.IR) (h : inRestCls cfg ir = true) :
    Iface.clsDocIR0 (restEnv px) cfg ir = irOfDoc (clsExp ir) := by
  unfold clsExp
  simp only [inRestCls, Bool.and_eq_true, Bool.not_eq_true', beq_iff_eq, Option.isNone_iff_eq_none] at h
  obtain ⟨⟨⟨⟨⟨⟨⟨⟨hstyle, hedd⟩, hret⟩, hdom⟩, hdne⟩, hone⟩, hpne⟩, hok⟩, _⟩ := h
  have g := inDomain_sound _ hdom
  have hcd := classDocIR_noret ir hret
  generalize hD : irToDoc ir = D at *
  obtain ⟨T, hT⟩ : ∃ T, candidate true D false true false = .ok T := by
    cases hc : candidate true D false true false with
    | ok T => exact ⟨T, rfl⟩
    | outside w => rw [hc] at hok; cases hok
  have hdoc : D.doc = ir.doc.toList := by rw [← hD]; rfl
  have hdne' : D.doc ≠ [] := by rw [hdoc]; intro e; rw [e] at hdne; cases hdne
  obtain ⟨hH, hNT⟩ : GoodHeader D.doc ∧ NoTok D.doc := by
    rcases g.hdr with h0 | h0
    · exact absurd h0 hdne'
    · exact h0
  have hNB : NoBreak D.doc := by rw [hdoc]; exact oneLineB_sound _ hone
  have hpsne : D.params ≠ [] := by
    rw [← hD]; simp only [irToDoc, ne_eq, List.map_eq_nil_iff]
    intro e; rw [e] at hpne; cases hpne
  have hDret : D.returns = Option.none := by rw [← hD]; simp [irToDoc, hret]
  have hshape := candidate_cls_shape D false true T g hH hpsne hDret hT
  -- names and descriptions
  have hnames : ∀ np ∈ D.params, GoodName np.1 := fun np hnp =>
    g.names (np.1, stripP np.2) (by simp only [stripD]; exact List.mem_map.mpr ⟨np, hnp, rfl⟩)
  have hents : ∀ np ∈ D.params, GoodEntry (stripP np.2) := fun np hnp =>
    g.entries (np.1, stripP np.2) (by simp only [stripD]; exact List.mem_map.mpr ⟨np, hnp, rfl⟩)
  generalize hnds : D.params.map (fun np => (np.1, docText (stripP np.2) true)) = nds at *
  have hcl : D.params.map (fun np => cvarLine np.1 (docText (stripP np.2) true)) = nds.map (fun nd => cvarLine nd.1 nd.2) := by
    rw [← hnds, List.map_map]; rfl
  have hndsne : nds ≠ [] := by rw [← hnds]; simpa using hpsne
  have hndsP : ∀ nd ∈ nds, '\n' ∉ nd.1 ∧ '\n' ∉ nd.2 ∧ nd.2 ≠ [] ∧ LastNS nd.2 := by
    intro nd hnd
    rw [← hnds] at hnd
    obtain ⟨np, hnp, rfl⟩ := List.mem_map.mp hnd
    have gd := docText_good (stripP np.2) true (hents np hnp)
    refine ⟨?_, noBreak_no_nl _ gd.noBreak, gd.ne, gd.lastNS⟩
    intro hm
    have := ((hnames np hnp).chars _ hm).2
    rw [nl_isLineBreak] at this; cases this
  rw [hcl] at hshape
  have hLsNB : ∀ l ∈ nds.map (fun nd => cvarLine nd.1 nd.2), NoBreak l := by
    intro l hl
    obtain ⟨nd, hnd, rfl⟩ := List.mem_map.mp hl
    rw [← hnds] at hnd
    obtain ⟨np, hnp, rfl⟩ := List.mem_map.mp hnd
    obtain ⟨r, hr, hrb⟩ := (cvarLine_good np.1 _ (hnames np hnp) (docText_good (stripP np.2) true (hents np hnp))).colon
    simp only []
    rw [hr]
    intro c hc
    simp only [List.mem_cons] at hc
    rcases hc with rfl | hc
    · decide
    · exact hrb c hc
  have hlast' : ∀ z, (nds.map (fun nd => cvarLine nd.1 nd.2)).getLast? = some z → z ≠ [] ∧ LastNS z := by
    intro z hz
    have hzm := List.mem_of_getLast? hz
    obtain ⟨nd, hnd, rfl⟩ := List.mem_map.mp hzm
    obtain ⟨_, _, h3, h4⟩ := hndsP nd hnd
    exact ⟨by simp [cvarLine, pfxCvar], lastNS_append _ nd.2 h3 h4⟩
  -- the emitted docstring
  have hR : docEmit (Iface.classDocCfg cfg) (Iface.classDocIR ir)
      = String.ofList (['\n'] ++ join ['\n'] ((D.doc :: [] :: nds.map (fun nd => cvarLine nd.1 nd.2)).map (tabify 1 true)) ++ ['\n'] ++ tabs 1) := by
    unfold docEmit docEmitL
    simp only [Iface.classDocCfg, hstyle, hedd, emitText, hcd, hD, hT]
    rw [hshape, indentStage_lines 1 true D.doc _ (by decide) hH.ne hH.headNS hNB hLsNB (by simpa using hndsne) hlast']
  have hparse := parse_cls_text D.doc (tabs 1) (stripD D).params false hH hNT hNB (allSpace_tabs 1)
    (fun hm => by have := List.eq_of_mem_replicate hm; revert this; decide)
    (by simpa [stripD] using hpsne) g.names g.entries g.nodup
  have hcls : clsLines (stripD D).params false = nds.map (fun nd => paramLine nd.1 nd.2) := by
    rw [← hnds]
    simp only [clsLines, stripD, List.map_map]
    apply List.map_congr_left
    intro np _
    simp only [Function.comp, docText_strip]
  rw [hcls] at hparse
  have hds : String.ofList (Py.rstrip (docEmit (Iface.classDocCfg cfg) (Iface.classDocIR ir)).toList)
      = String.ofList (['\n'] ++ join ['\n'] ((D.doc :: [] :: nds.map (fun nd => cvarLine nd.1 nd.2)).map (tabify 1 true))) := by
    rw [hR, String.toList_ofList, rstrip_cls 1 D.doc nds hndsne (fun nd hnd => ⟨(hndsP nd hnd).2.2.1, (hndsP nd hnd).2.2.2⟩)]
  have hRe2 : (['\n'] ++ join ['\n'] ((D.doc :: [] :: nds.map (fun nd => cvarLine nd.1 nd.2)).map (tabify 1 true))).isEmpty = false := rfl
  unfold Iface.clsDocIR0
  have hsv := setValueStr_nl (['\n'] ++ join ['\n'] ((D.doc :: [] :: nds.map (fun nd => cvarLine nd.1 nd.2)).map (tabify 1 true))) rfl
  simp only [restEnv, hds, String.toList_ofList, hRe2, Bool.false_eq_true, if_false, hsv]
  unfold docParse
  simp only [String.toList_ofList, hRe2, Bool.false_eq_true, if_false, parseEdd, normText_cls 1 D.doc nds hH hNB hNT hndsne hndsP, hparse]
  rw [hdoc]

theorem expParam_ff (q : Doc.Param) :
    expParam false false (stripP q) = { typ := Option.none, doc := some (q.doc.getD []), default := Option.none } := by
  simp [expParam, dfltOf, docText_strip]

theorem lit_return_type : "return_type".toList = sReturnType := rfl

/-- **the bridge, class / pydantic format**: on `inRestCls` the docstring-layer hypothesis of `C02_class` / `C02_pydantic`
    holds for the concrete layer -/
theorem class_bridge (px : String → Option Iface.Expr) (cfg : Iface.Cfg) (ir : Iface.IR) (h : inRestCls cfg ir = true) :
    Iface.classHyp (restEnv px) cfg ir = true := by
  have hd := clsDocIR0_rest px cfg ir h
  simp only [inRestCls, Bool.and_eq_true, Bool.not_eq_true', beq_iff_eq, Option.isNone_iff_eq_none] at h
  obtain ⟨⟨⟨⟨⟨⟨⟨⟨_, _⟩, hret⟩, hdom⟩, _⟩, _⟩, _⟩, _⟩, hadP⟩ := h
  have g := inDomain_sound _ hdom
  unfold Iface.classHyp
  have hmp : Iface.mergedParams ir = ir.params := by simp [Iface.mergedParams, hret]
  simp only [hd, hmp, Bool.and_eq_true]
  constructor
  · have hparams : (irOfDoc (clsExp ir)).params
        = ir.params.map (fun kv => (String.ofList kv.1.toList, paramOfDoc (expParam false false (stripP (paramToDoc kv.2))))) := by
      simp only [irOfDoc, clsExp, stripD, irToDoc, List.map_map]; rfl
    rw [hparams]
    apply forall2_map_left
    intro kv hkv
    have hmem : (kv.1.toList, stripP (paramToDoc kv.2)) ∈ (stripD (irToDoc ir)).params := by
      simp only [stripD, irToDoc, List.map_map]; exact List.mem_map.mpr ⟨kv, hkv, rfl⟩
    have ge : GoodEntry (stripP (paramToDoc kv.2)) := g.entries _ hmem
    have gn : GoodName kv.1.toList := g.names _ hmem
    have hq := List.all_eq_true.mp hadP kv hkv
    obtain ⟨d, hdd⟩ : ∃ d, kv.2.doc = some d := by
      cases hp : kv.2.doc with
      | none => simp [adhocQuiet, hp] at hq
      | some d => exact ⟨d, rfl⟩
    have ha : adhocTyp d kv.1 (Iface.isNoneStrD kv.2.default) = none := by
      simp only [adhocQuiet, hdd, beq_iff_eq] at hq
      exact hq
    have gd : GoodDesc d.toList := ge.doc d.toList (by simp [stripP, paramToDoc, hdd])
    have hnr : (kv.1 == "return_type") = false := by
      cases hb : (kv.1 == "return_type") with
      | false => rfl
      | true =>
        have := beq_iff_eq.mp hb
        exact absurd (by rw [this]; rfl) gn.notRet
    unfold Iface.clsEntryOK Iface.clsDescOK Iface.clsDefaultOK
    simp only [String.ofList_toList, beq_self_eq_true, hnr, Bool.false_eq_true, if_false, Bool.true_and]
    rw [expParam_ff]
    simp only [paramOfDoc, paramToDoc, hdd, Option.map_some, Option.getD_some, String.ofList_toList, docView_good d gd,
      Option.bind_some, beq_self_eq_true, docQuiet_good' px kv.1 _ d gd ha, Option.map_none, Option.isNone_none,
      Bool.or_true, Bool.and_self]
  · simp [irOfDoc, clsExp]

/-! ### the bridge for all four formats -/

/-- **`InRest f cfg ir`** (decidable): the region of interfaces on which the concrete ReST docstring layer is proved to
    satisfy the docstring-layer hypothesis `docHyp` of the C02 theorems -/
def inRest (f : Iface.Format) (cfg : Iface.Cfg) (ir : Iface.IR) : Bool :=
  match f with
  | .class_ | .pydantic => inRestCls cfg ir
  | .function => inRestFn cfg ir
  | .argparse => inRestArgparse ir

def InRest (f : Iface.Format) (cfg : Iface.Cfg) (ir : Iface.IR) : Prop := inRest f cfg ir = true

instance (f : Iface.Format) (cfg : Iface.Cfg) (ir : Iface.IR) : Decidable (InRest f cfg ir) := by unfold InRest; infer_instance

/-- **the bridge**: on `InRest` the docstring-layer hypothesis of C02 holds for `restEnv pyExpr`, whatever `pyExpr` is -/
theorem rest_docHyp (px : String → Option Iface.Expr) (f : Iface.Format) (cfg : Iface.Cfg) (ir : Iface.IR) (h : InRest f cfg ir) :
    Iface.docHyp (restEnv px) f cfg ir = true := by
  cases f with
  | class_ => exact class_bridge px cfg ir h
  | pydantic => exact class_bridge px cfg ir h
  | function => exact function_bridge px cfg ir h
  | argparse => exact argparse_bridge px cfg ir h

/-- the one CPython fact of C02 (`EnvOK`) is a fact about `pyExpr` alone -/
theorem restEnv_ok (px : String → Option Iface.Expr) (h : ∀ s, Iface.codeQuoted s = true → px s = none) : Iface.EnvOK (restEnv px) := h

/-- the class docstring reader of `restEnv` always answers the receiver kind `static` (`ClsTypeLaw` of C08Iface) -/
theorem restEnv_docParse_type (px : String → Option Iface.Expr) (c : Iface.DocParseCfg) (s : String) :
    ((restEnv px).docParse c s).type = some "static" := by
  simp only [restEnv, docParse]
  split
  · rfl
  · split <;> rfl

end IfaceRest

namespace IfaceRest
open Iface C03Iface C08Iface



/-! ### closure of the region under hops (C03's `closed` hypothesis, for the concrete layer) -/

theorem clsTypeLaw (px : String → Option Expr) : ClsTypeLaw (restEnv px) := by
  intro s
  unfold okFnType
  rw [restEnv_docParse_type]
  rfl

/-- two interfaces with the same view and the same raw descriptions have the same entries -/
theorem params_eq_of_view_docs : ∀ {l l' : Dict}, l.map viewOf = l'.map viewOf → l.map (·.2.doc) = l'.map (·.2.doc) → l = l'
  | [], [], _, _ => rfl
  | [], _ :: _, h, _ => by simp at h
  | _ :: _, [], h, _ => by simp at h
  | a :: l, b :: l', h, hd => by
    simp only [List.map_cons, List.cons.injEq] at h hd
    obtain ⟨h1, h2, h3, _⟩ := viewOf_eq h.1
    have : a = b := by
      obtain ⟨n, p⟩ := a
      obtain ⟨m, q⟩ := b
      obtain ⟨pd, pt, pf⟩ := p
      obtain ⟨qd, qt, qf⟩ := q
      simp only at h1 h2 h3 hd
      rw [h1, h2, h3, hd.1]
    rw [this, params_eq_of_view_docs h.2 hd.2]

theorem zipFinal_map_docs (φ : String × Param → String × Param) : ∀ (l : Dict),
    (zipFinal (l.map φ) l).map (·.2.doc) = l.map (fun kv => docAfter (φ kv).2.doc)
  | [] => rfl
  | kv :: l => by simp only [List.map_cons, zipFinal, finalOf, zipFinal_map_docs φ l]

theorem zipFnFinal_map_docs (φ : String × Param → String × Param) : ∀ (l : Dict),
    (zipFnFinal (l.map φ) l).map (·.2.doc) = l.map (fun kv => docAfter (φ kv).2.doc)
  | [] => rfl
  | kv :: l => by simp only [List.map_cons, zipFnFinal, fnFinal, zipFnFinal_map_docs φ l]

theorem docAfter_good (d : String) (g : DocRT.GoodDesc d.toList) : docAfter (some d) = some d := by
  have hne : (d == "") = false := by
    cases hb : (d == "") with
    | false => rfl
    | true => have := beq_iff_eq.mp hb; subst this; exact absurd rfl g.ne
  simp only [docAfter, hne, Bool.false_eq_true, if_false, tidyDoc_id d g.noBreak g.headNS g.lastNS]

/-- the region of C03 / C08 for the concrete layer: `InRest` and the C02 domain for every format, the statement's
    normalisations are the identity, the header is not wrapped in one kind of quote (argparse passes it through `set_value`) -/
def DomR (px : String → Option Expr) (cfg : Cfg) (ir : IR) : Prop :=
  (∀ f, InRest f cfg ir) ∧ (∀ f, inD02 (restEnv px) f cfg ir = true) ∧ (∀ f, (C02.norm f ir).view = ir.view) ∧ setValueStr ir.doc = ir.doc

/-- `DomR` lies inside the region `Dom` of `C03Iface` — its docstring-layer clause is *proved* (`rest_docHyp`) -/
theorem domR_dom {px : String → Option Expr} {cfg : Cfg} {ir : IR} (h : DomR px cfg ir) : Dom (restEnv px) cfg ir :=
  fun f => ⟨h.2.1 f, rest_docHyp px f cfg ir (h.1 f), h.2.2.1 f⟩

/-- on `inRestCls` every attribute has a description of the `C01Whole` domain -/
theorem cls_raw_docs (cfg : Cfg) (ir : IR) (h : inRestCls cfg ir = true) :
    ir.returns = none ∧ ∀ kv ∈ ir.params, ∃ d, kv.2.doc = some d ∧ DocRT.GoodDesc d.toList := by
  simp only [inRestCls, Bool.and_eq_true, Bool.not_eq_true', beq_iff_eq, Option.isNone_iff_eq_none] at h
  obtain ⟨⟨⟨⟨⟨⟨⟨⟨_, _⟩, hret⟩, hdom⟩, _⟩, _⟩, _⟩, _⟩, _⟩ := h
  have g := C01Whole.inDomain_sound _ hdom
  refine ⟨hret, fun kv hkv => ?_⟩
  have ge : DocRT.GoodEntry (stripP (paramToDoc kv.2)) :=
    g.entries (kv.1.toList, stripP (paramToDoc kv.2)) (by
      simp only [stripD, irToDoc, List.map_map]; exact List.mem_map.mpr ⟨kv, hkv, rfl⟩)
  cases hp : kv.2.doc with
  | none => exact absurd (by simp [stripP, paramToDoc, hp]) ge.docSome
  | some d => exact ⟨d, rfl, ge.doc d.toList (by simp [stripP, paramToDoc, hp])⟩

theorem clsExp_params (ir : IR) : (irOfDoc (clsExp ir)).params
    = ir.params.map (fun kv => (String.ofList kv.1.toList, paramOfDoc (DocRT.expParam false false (stripP (paramToDoc kv.2))))) := by
  simp only [irOfDoc, clsExp, stripD, irToDoc, List.map_map]; rfl

theorem fnExp_params (ir : IR) (et : Bool) : (irOfDoc (DocRT.expIR (stripD (irToDoc ir)) et true)).params
    = ir.params.map (fun kv => (String.ofList kv.1.toList, paramOfDoc (DocRT.expParam et true (stripP (paramToDoc kv.2))))) := by
  simp only [irOfDoc, DocRT.expIR, stripD, irToDoc, List.map_map]; rfl

/-- **what a hop leaves of the raw interface**: header, raw descriptions and the (absent) return entry are the input's -/
theorem hop_raw (px : String → Option Expr) (cfg : Cfg) (f : Format) (ir : IR) (h : DomR px cfg ir) :
    (hopIR (restEnv px) cfg f ir).doc = ir.doc ∧
    (hopIR (restEnv px) cfg f ir).params.map (·.2.doc) = ir.params.map (·.2.doc) ∧
    (hopIR (restEnv px) cfg f ir).returns = none := by
  obtain ⟨hret, hdocs⟩ := cls_raw_docs cfg ir (h.1 .class_)
  have hcls := clsDocIR0_rest px cfg ir (h.1 .class_)
  have hfn := fnDocIR0_rest px cfg ir (h.1 .function)
  have hmapdocs : ∀ (φ : String × Param → String × Param), (∀ kv ∈ ir.params, ∀ d, kv.2.doc = some d → (φ kv).2.doc = some d) →
      ir.params.map (fun kv => docAfter (φ kv).2.doc) = ir.params.map (·.2.doc) := by
    intro φ hφ
    apply List.map_congr_left
    intro kv hkv
    obtain ⟨d, hd, gd⟩ := hdocs kv hkv
    rw [hφ kv hkv d hd, hd, docAfter_good d gd]
  have hclsF : (clsHopIR (restEnv px) cfg ir).doc = ir.doc ∧
      (clsHopIR (restEnv px) cfg ir).params.map (·.2.doc) = ir.params.map (·.2.doc) ∧ (clsHopIR (restEnv px) cfg ir).returns = none := by
    unfold clsHopIR
    simp only [hcls, hret, Option.map_none, and_true]
    refine ⟨by simp [irOfDoc, clsExp, String.ofList_toList], ?_⟩
    rw [clsExp_params, zipFinal_map_docs]
    apply hmapdocs
    intro kv _ d hd
    rw [expParam_ff]
    simp [paramOfDoc, paramToDoc, hd, String.ofList_toList]
  have hfnF : (fnHopIR (restEnv px) cfg ir).doc = ir.doc ∧
      (fnHopIR (restEnv px) cfg ir).params.map (·.2.doc) = ir.params.map (·.2.doc) ∧ (fnHopIR (restEnv px) cfg ir).returns = none := by
    unfold fnHopIR
    simp only [hfn, hret]
    refine ⟨by simp [irOfDoc, DocRT.expIR, stripD, irToDoc, String.ofList_toList], ?_, ?_⟩
    · rw [fnExp_params, zipFnFinal_map_docs]
      apply hmapdocs
      intro kv _ d hd
      rw [expParam_strip]
      simp [paramOfDoc, paramToDoc, hd, String.ofList_toList]
    · unfold fnRetFinal
      cases (irOfDoc (DocRT.expIR (stripD (irToDoc ir)) (!cfg.typeAnnotations) true)).returns <;> rfl
  have hapF : (apHopIR (restEnv px) cfg ir).doc = ir.doc ∧
      (apHopIR (restEnv px) cfg ir).params.map (·.2.doc) = ir.params.map (·.2.doc) ∧ (apHopIR (restEnv px) cfg ir).returns = none := by
    unfold apHopIR apRetFinal
    simp only [hret, h.2.2.2, true_and, and_true, List.map_map]
    apply List.map_congr_left
    intro kv hkv
    obtain ⟨d, hd, gd⟩ := hdocs kv hkv
    have hne : d.toList.isEmpty = false := by
      cases hl : d.toList with
      | nil => exact absurd hl gd.ne
      | cons _ _ => rfl
    simp [backOf, addArgOf, hd, hne]
  cases f with
  | class_ => exact hclsF
  | pydantic => exact hclsF
  | function => exact hfnF
  | argparse => exact hapF

/-- `InRest` does not read the name or the receiver kind -/
theorem inRest_congr (f : Format) (cfg : Cfg) (a b : IR) (hdoc : a.doc = b.doc) (hp : a.params = b.params) (hr : a.returns = b.returns) :
    inRest f cfg a = inRest f cfg b := by
  obtain ⟨an, at_, ad, ap, ar⟩ := a
  obtain ⟨bn, bt, bd, bp, br⟩ := b
  simp only at hdoc hp hr
  subst hdoc hp hr
  cases f <;> rfl

/-- **closure**: a hop from `DomR` lands in `DomR` (C03's `closed` hypothesis for the concrete layer, on this region) -/
theorem domR_closed (px : String → Option Expr) (hpx : ∀ s, codeQuoted s = true → px s = none) (cfg : Cfg) (f : Format) (ir ir' : IR)
    (h : DomR px cfg ir) (hh : hopE (restEnv px) cfg f ir = .ok ir') : DomR px cfg ir' := by
  have hd := domR_dom h
  have hEnv := restEnv_ok px hpx
  have e := hop_eq_hopIR (restEnv px) hEnv cfg f ir ir' hd hh
  obtain ⟨hv, _, _⟩ := hop_fields (restEnv px) hEnv (clsTypeLaw px) cfg f ir ir' hd hh
  have hk := hop_keeps_inD02 (restEnv px) hEnv (clsTypeLaw px) cfg f ir ir' hd hh
  obtain ⟨r1, r2, r3⟩ := hop_raw px cfg f ir h
  rw [← e] at r1 r2 r3
  have hret : ir.returns = none := (cls_raw_docs cfg ir (h.1 .class_)).1
  have hps : ir'.params = ir.params := params_eq_of_view_docs (view_params hv) r2
  refine ⟨fun g => ?_, fun g => (hk g).1, fun g => (hk g).2, by rw [r1]; exact h.2.2.2⟩
  unfold InRest
  rw [inRest_congr g cfg ir' ir r1 hps (by rw [r3, hret])]
  exact h.1 g

/-- **C03 for the concrete ReST layer, any chain of class / pydantic / function / argparse hops**: from `DomR` every chain
    succeeds, preserves names, order, types, defaults and descriptions, and stays in `DomR` — no docstring-layer hypothesis,
    no closure hypothesis; the only assumption is the CPython fact about `pyExpr` -/
theorem chain_rest (px : String → Option Expr) (hpx : ∀ s, codeQuoted s = true → px s = none) (cfg : Cfg) :
    ∀ (fs : List Format) (ir : IR), DomR px cfg ir →
      ∃ ir', chainE (restEnv px) cfg fs ir = .ok ir' ∧ ir'.view = ir.view ∧ DomR px cfg ir' := by
  intro fs
  induction fs with
  | nil => intro ir h; exact ⟨ir, rfl, rfl, h⟩
  | cons f fs ih =>
    intro ir h
    obtain ⟨ir1, h1, hv1⟩ := single (restEnv px) (restEnv_ok px hpx) cfg f ir (domR_dom h)
    obtain ⟨ir2, h2, hv2, hd2⟩ := ih ir1 (domR_closed px hpx cfg f ir ir1 h h1)
    refine ⟨ir2, ?_, hv2.trans hv1, hd2⟩
    unfold chainE
    rw [h1]
    exact h2

end IfaceRest
