import CddVerif.Model.JoinNonNone
import Mathlib.Data.List.Dedup
import Mathlib.Data.List.Perm.Basic
import Mathlib.Tactic.SplitIfs
/-! Lemmas for C10 (`_join_non_none`, `ir_merge` returns, `merge_present_params` on dicts). -/
namespace JoinNonNone
variable {κ : Type} [DecidableEq κ] {β : Type}

/-! ### dict primitives -/

theorem has_iff_mem_keys (d : D κ β) (k : κ) : has d k = true ↔ k ∈ keys d := by
  induction d with
  | nil => simp [has, lookup?, keys]
  | cons kv r ih =>
    simp only [has, keys] at ih
    by_cases h : kv.1 = k
    · simp [has, lookup?, keys, h]
    · have h' : ¬ k = kv.1 := fun e => h e.symm
      simp [has, lookup?, keys, h, h', ih]

theorem has_false_iff (d : D κ β) (k : κ) : has d k = false ↔ k ∉ keys d := by
  rw [← has_iff_mem_keys]; simp

theorem lookup?_eq_none_iff (d : D κ β) (k : κ) : lookup? d k = none ↔ has d k = false := by
  simp [has]

theorem get_of_not_has (d : D κ β) (k : κ) (h : has d k = false) : get d k = none := by
  have := (lookup?_eq_none_iff d k).mpr h
  simp [get, this]

theorem has_of_get_isSome (d : D κ β) (k : κ) (h : (get d k).isSome = true) : has d k = true := by
  cases hh : has d k
  · rw [get_of_not_has d k hh] at h; cases h
  · rfl

theorem lookup?_mapset (d : D κ β) (k k' : κ) (v : Option β) :
    lookup? (d.map (fun kv => if kv.1 = k then (k, v) else kv)) k' =
      if k' = k then (lookup? d k).map (fun _ => v) else lookup? d k' := by
  induction d with
  | nil => simp [lookup?]
  | cons kv r ih =>
    simp only [List.map_cons, lookup?]
    by_cases h1 : kv.1 = k <;> by_cases h2 : k' = k
    · subst h2; simp [h1]
    · have : ¬ k = k' := fun e => h2 e.symm
      simp [h1, h2, this, ih]
    · subst h2; simp [h1, ih]
    · by_cases h3 : kv.1 = k'
      · simp [h2, h3]
      · simp [h1, h2, h3, ih]

theorem lookup?_append_single (d : D κ β) (k k' : κ) (v : Option β) :
    lookup? (d ++ [(k, v)]) k' = (lookup? d k').or (if k = k' then some v else none) := by
  induction d with
  | nil => simp [lookup?]
  | cons kv r ih =>
    simp only [List.cons_append, lookup?]
    by_cases h : kv.1 = k'
    · simp [h]
    · simp [h, ih]

theorem lookup?_set (d : D κ β) (k k' : κ) (v : Option β) :
    lookup? (set d k v) k' = if k' = k then some v else lookup? d k' := by
  unfold set
  cases h : has d k
  · have hn : lookup? d k = none := (lookup?_eq_none_iff d k).mpr h
    simp only [Bool.false_eq_true, if_false]
    rw [lookup?_append_single]
    by_cases h2 : k' = k
    · subst h2; simp [hn]
    · have : ¬ k = k' := fun e => h2 e.symm
      simp [h2, this]
  · simp only [if_true]
    rw [lookup?_mapset]
    by_cases h2 : k' = k
    · simp only [h2, if_true]
      simp only [has] at h
      obtain ⟨x, hx⟩ := Option.isSome_iff_exists.mp h
      simp [hx]
    · simp [h2]

theorem has_set (d : D κ β) (k k' : κ) (v : Option β) : has (set d k v) k' = (decide (k' = k) || has d k') := by
  simp only [has, lookup?_set]
  by_cases h : k' = k <;> simp [h]

theorem get_set (d : D κ β) (k k' : κ) (v : Option β) : get (set d k v) k' = if k' = k then v else get d k' := by
  simp only [get, lookup?_set]
  by_cases h : k' = k <;> simp [h]

theorem keys_mapset (d : D κ β) (k : κ) (v : Option β) :
    keys (d.map (fun kv => if kv.1 = k then (k, v) else kv)) = keys d := by
  unfold keys; simp only [List.map_map]
  apply List.map_congr_left; intro kv _; simp only [Function.comp]
  by_cases h : kv.1 = k <;> simp [h]

theorem keys_set (d : D κ β) (k : κ) (v : Option β) :
    keys (set d k v) = if has d k then keys d else keys d ++ [k] := by
  unfold set
  cases h : has d k
  · simp [keys]
  · simp only [if_true]; exact keys_mapset d k v

/-! ### the comprehension -/

theorem lookup?_compLoop (p o : D κ β) (σ : List κ) (acc : D κ β) (k : κ) :
    lookup? (σ.foldl (compStep p o) acc) k =
      if k ∈ σ ∧ cond p o k = true then some (get o k) else lookup? acc k := by
  induction σ generalizing acc with
  | nil => simp
  | cons x σ ih =>
    simp only [List.foldl_cons]
    rw [ih]
    by_cases hc : cond p o k = true
    · by_cases hm : k ∈ σ
      · simp [hm, hc]
      · by_cases hx : k = x
        · subst hx; simp [hm, hc, compStep, lookup?_set]
        · have : cond p o x = true ∨ cond p o x = false := by cases cond p o x <;> simp
          rcases this with h | h <;> simp [hm, hx, compStep, h, lookup?_set]
    · have hc' : cond p o k = false := by simpa using hc
      simp only [hc', Bool.false_eq_true, and_false, if_false]
      unfold compStep
      by_cases h : cond p o x = true
      · have hx : ¬ k = x := fun e => by rw [e] at hc; exact hc h
        simp [h, lookup?_set, hx]
      · simp [h]

theorem keys_compLoop (p o : D κ β) (σ : List κ) (hnd : σ.Nodup) (acc : D κ β)
    (hacc : ∀ k ∈ σ, has acc k = false) :
    keys (σ.foldl (compStep p o) acc) = keys acc ++ σ.filter (cond p o) := by
  induction σ generalizing acc with
  | nil => simp
  | cons x σ ih =>
    have hx : x ∉ σ := (List.nodup_cons.mp hnd).1
    have hnd' : σ.Nodup := (List.nodup_cons.mp hnd).2
    have hax : has acc x = false := hacc x (by simp)
    simp only [List.foldl_cons]
    have hacc' : ∀ k ∈ σ, has (compStep p o acc x) k = false := by
      intro k hk
      have hkx : ¬ k = x := fun e => hx (e ▸ hk)
      unfold compStep
      by_cases h : cond p o x = true
      · simp [h, has_set, hkx, hacc k (by simp [hk])]
      · simp [h, hacc k (by simp [hk])]
    rw [ih hnd' _ hacc']
    unfold compStep
    by_cases h : cond p o x = true
    · simp [h, keys_set, hax]
    · simp [h]

theorem keys_comp (p o : D κ β) (σ : List κ) (hnd : σ.Nodup) : keys (comp σ p o) = σ.filter (cond p o) := by
  unfold comp
  rw [keys_compLoop p o σ hnd [] (fun k _ => by simp [has, lookup?])]
  simp [keys]

theorem lookup?_comp (p o : D κ β) (σ : List κ) (k : κ) :
    lookup? (comp σ p o) k = if k ∈ σ ∧ cond p o k = true then some (get o k) else none := by
  unfold comp; rw [lookup?_compLoop]; simp [lookup?]

/-! ### `dict.update` -/

theorem lookup?_update (d e : D κ β) (hnd : (keys e).Nodup) (k : κ) :
    lookup? (update d e) k = (lookup? e k).or (lookup? d k) := by
  unfold update
  induction e generalizing d with
  | nil => simp [lookup?]
  | cons kv e ih =>
    have hkv : kv.1 ∉ keys e := by
      simp only [keys, List.map_cons, List.nodup_cons] at hnd; exact hnd.1
    have hnd' : (keys e).Nodup := by
      simp only [keys, List.map_cons, List.nodup_cons] at hnd; exact hnd.2
    simp only [List.foldl_cons]
    rw [ih _ hnd', lookup?_set]
    simp only [lookup?]
    by_cases h : kv.1 = k
    · have : lookup? e k = none := by
        rw [lookup?_eq_none_iff, has_false_iff]; exact h ▸ hkv
      simp [h, this]
    · have h' : ¬ k = kv.1 := fun e => h e.symm
      simp [h, h']

theorem keys_update (d e : D κ β) (hnd : (keys e).Nodup) :
    keys (update d e) = keys d ++ (keys e).filter (fun k => !has d k) := by
  unfold update
  induction e generalizing d with
  | nil => simp [keys]
  | cons kv e ih =>
    have hkv : kv.1 ∉ keys e := by
      simp only [keys, List.map_cons, List.nodup_cons] at hnd; exact hnd.1
    have hnd' : (keys e).Nodup := by
      simp only [keys, List.map_cons, List.nodup_cons] at hnd; exact hnd.2
    simp only [List.foldl_cons]
    rw [ih _ hnd']
    have hf : (keys e).filter (fun k => !has (set d kv.1 kv.2) k) = (keys e).filter (fun k => !has d k) := by
      apply List.filter_congr
      intro x hx
      have : ¬ x = kv.1 := fun e' => hkv (e' ▸ hx)
      simp [has_set, this]
    rw [hf, keys_set]
    have hk : keys (kv :: e) = kv.1 :: keys e := by simp [keys]
    rw [hk, List.filter_cons]
    cases h : has d kv.1 <;> simp

/-! ### `_join_non_none` -/

theorem join_nil_left (σ : List κ) (o : D κ β) : join σ [] o = o := by simp [join]
theorem join_nil_right (σ : List κ) (p : D κ β) : join σ p [] = p := by
  cases p <;> simp [join]

theorem join_eq_update (σ : List κ) (p o : D κ β) (hp : p ≠ []) (ho : o ≠ []) :
    join σ p o = update p (comp σ p o) := by
  cases p with
  | nil => exact absurd rfl hp
  | cons a p =>
    cases o with
    | nil => exact absurd rfl ho
    | cons b o => simp [join]

theorem cond_and_not_has (p o : D κ β) (k : κ) : (cond p o k && !has p k) = fresh p o k := by
  unfold cond fresh
  cases h : has p k
  · simp [get_of_not_has p k h]
  · simp

/-- exact key order of the result -/
theorem keys_join_of_nodup (σ : List κ) (p o : D κ β) (hnd : σ.Nodup) (hp : p ≠ []) (ho : o ≠ []) :
    keys (join σ p o) = keys p ++ σ.filter (fresh p o) := by
  rw [join_eq_update σ p o hp ho]
  have hk : keys (comp σ p o) = σ.filter (cond p o) := keys_comp p o σ hnd
  have hknd : (keys (comp σ p o)).Nodup := by rw [hk]; exact hnd.filter _
  rw [keys_update p _ hknd, hk, List.filter_filter]
  congr 1
  apply List.filter_congr
  intro x _
  rw [Bool.and_comm]; exact cond_and_not_has p o x

/-- exact content of the result -/
theorem lookup?_join_of_cover (σ : List κ) (p o : D κ β) (hnd : σ.Nodup) (hcov : ∀ k ∈ keys o, k ∈ σ)
    (hp : p ≠ []) (ho : o ≠ []) (k : κ) :
    lookup? (join σ p o) k = if cond p o k = true then some (get o k) else lookup? p k := by
  rw [join_eq_update σ p o hp ho]
  have hk : keys (comp σ p o) = σ.filter (cond p o) := keys_comp p o σ hnd
  have hknd : (keys (comp σ p o)).Nodup := by rw [hk]; exact hnd.filter _
  rw [lookup?_update p _ hknd, lookup?_comp]
  by_cases hc : cond p o k = true
  · have hm : k ∈ σ := by
      apply hcov
      rw [← has_iff_mem_keys]
      apply has_of_get_isSome
      unfold cond at hc; simp only [Bool.and_eq_true] at hc; exact hc.2
    simp [hc, hm]
  · simp [hc]

theorem get_join_of_cover (σ : List κ) (p o : D κ β) (hnd : σ.Nodup) (hcov : ∀ k ∈ keys o, k ∈ σ) (k : κ) :
    get (join σ p o) k = (get p k).or (get o k) := by
  cases p with
  | nil => simp [join, get, lookup?]
  | cons a p =>
    cases o with
    | nil =>
      have : get ([] : D κ β) k = none := by simp [get, lookup?]
      simp [join, this]
    | cons b o =>
      have := lookup?_join_of_cover σ (a :: p) (b :: o) hnd hcov (by simp) (by simp) k
      unfold get at *
      rw [this]
      unfold cond get
      cases h1 : lookup? (a :: p) k with
      | none =>
        cases h2 : ((lookup? (b :: o) k).getD none) <;> simp
      | some v =>
        cases v with
        | none => cases h2 : ((lookup? (b :: o) k).getD none) <;> simp
        | some w => simp

/-! ### oracles -/

omit [DecidableEq κ] in
theorem Oracle.perm {σ₁ σ₂ : List κ} {p o : D κ β} (h₁ : Oracle σ₁ p o) (h₂ : Oracle σ₂ p o) : σ₁.Perm σ₂ :=
  (List.perm_ext_iff_of_nodup h₁.nodup h₂.nodup).mpr (fun k => by rw [h₁.mem, h₂.mem])

omit [DecidableEq κ] in
theorem Oracle.cover {σ : List κ} {p o : D κ β} (h : Oracle σ p o) : ∀ k ∈ keys o, k ∈ σ :=
  fun k hk => (h.mem k).mpr (Or.inr hk)

theorem oracle_dedup (p o : D κ β) : Oracle ((keys p ++ keys o).dedup) p o :=
  ⟨List.nodup_dedup _, fun k => by simp [List.mem_dedup]⟩

theorem oracle_allKeys (p o : D κ β) (hp : WF p) (ho : WF o) : Oracle (allKeys p o) p o := by
  constructor
  · unfold allKeys
    apply List.Nodup.append hp (ho.filter _)
    intro a ha hb
    simp only [List.mem_filter, Bool.not_eq_true'] at hb
    have := (has_iff_mem_keys p a).mpr ha
    rw [this] at hb; exact absurd hb.2 (by simp)
  · intro k
    unfold allKeys
    simp only [List.mem_append, List.mem_filter, Bool.not_eq_true']
    constructor
    · rintro (h | h)
      · exact Or.inl h
      · exact Or.inr h.1
    · rintro (h | h)
      · exact Or.inl h
      · cases hh : has p k
        · exact Or.inr ⟨h, rfl⟩
        · exact Or.inl ((has_iff_mem_keys p k).mp hh)

theorem oracle_iff_perm (σ : List κ) (p o : D κ β) (hp : WF p) (ho : WF o) :
    Oracle σ p o ↔ σ.Perm (allKeys p o) := by
  have ha := oracle_allKeys p o hp ho
  constructor
  · intro h; exact h.perm ha
  · intro h
    exact ⟨(h.nodup_iff).mpr ha.nodup, fun k => by rw [h.mem_iff, ha.mem]⟩

/-- swapping two distinct listed keys to the front gives another oracle -/
theorem oracle_front (L : List κ) (p o : D κ β) (hL : Oracle L p o) (a b : κ) (hab : a ≠ b) (ha : a ∈ L) (hb : b ∈ L) :
    Oracle (a :: b :: (L.erase a).erase b) p o := by
  have hnd1 : (L.erase a).Nodup := hL.nodup.erase a
  have hnd2 : ((L.erase a).erase b).Nodup := hnd1.erase b
  have hm : ∀ k, k ∈ (L.erase a).erase b ↔ k ≠ b ∧ k ≠ a ∧ k ∈ L := by
    intro k; rw [hnd1.mem_erase_iff, hL.nodup.mem_erase_iff]
  constructor
  · rw [List.nodup_cons, List.nodup_cons]
    refine ⟨?_, ?_, hnd2⟩
    · simp only [List.mem_cons, hm]; rintro (e | ⟨_, h, _⟩)
      · exact hab e
      · exact h rfl
    · rw [hm]; rintro ⟨h, _⟩; exact h rfl
  · intro k
    rw [← hL.mem]
    simp only [List.mem_cons, hm]
    constructor
    · rintro (e | e | ⟨_, _, h⟩)
      · exact e ▸ ha
      · exact e ▸ hb
      · exact h
    · intro h
      by_cases h1 : k = a
      · exact Or.inl h1
      · by_cases h2 : k = b
        · exact Or.inr (Or.inl h2)
        · exact Or.inr (Or.inr ⟨h2, h1, h⟩)

omit [DecidableEq κ] in
/-- two permuted duplicate-free lists whose members are pairwise equal are equal -/
theorem eq_of_perm_of_subsingleton {l₁ l₂ : List κ} (hp : l₁.Perm l₂) (hnd : l₁.Nodup)
    (h : ∀ a ∈ l₁, ∀ b ∈ l₁, a = b) : l₁ = l₂ := by
  match l₁, hp, hnd, h with
  | [], hp, _, _ => exact (List.nil_perm.mp hp).symm
  | [a], hp, _, _ => exact List.singleton_perm.mp hp
  | a :: b :: t, _, hnd, h =>
    have : a = b := h a (by simp) b (by simp)
    rw [List.nodup_cons] at hnd
    exact absurd (this ▸ List.mem_cons_self) hnd.1

/-! ### same map, possibly another key order -/

theorem SameMap.get_eq {d d' : D κ β} (h : SameMap d d') (k : κ) : get d k = get d' k := by
  simp [get, h.1 k]

theorem SameMap.has_eq {d d' : D κ β} (h : SameMap d d') (k : κ) : has d k = has d' k := by
  simp [has, h.1 k]

theorem SameMap.set_set {d d' : D κ β} (h : SameMap d d') (k : κ) (v : Option β) :
    SameMap (set d k v) (set d' k v) := by
  refine ⟨fun k' => by rw [lookup?_set, lookup?_set, h.1], ?_⟩
  rw [keys_set, keys_set, ← h.has_eq k]
  cases has d k
  · simpa using h.2.append_right [k]
  · simpa using h.2

/-! ### `merge_present_params` on dicts -/

theorem mergePresentD_congr_other (o o' t : D String String) (h : ∀ k, get o k = get o' k) :
    mergePresentD o t = mergePresentD o' t := by
  have h1 : ∀ t, docStep o t = docStep o' t := fun t => by unfold docStep; rw [h]
  have h2 : ∀ t, typStep o t = typStep o' t := fun t => by unfold typStep; rw [h]
  have h3 : ∀ t, defaultStep o t = defaultStep o' t := fun t => by unfold defaultStep; rw [h]
  unfold mergePresentD; rw [h1, h2, h3]

theorem docStep_sameMap (o : D String String) {t t' : D String String} (h : SameMap t t') :
    SameMap (docStep o t) (docStep o t') := by
  unfold docStep; rw [← h.get_eq]; split
  · exact h.set_set _ _
  · exact h

theorem typStep_sameMap (o : D String String) {t t' : D String String} (h : SameMap t t') :
    SameMap (typStep o t) (typStep o t') := by
  unfold typStep; rw [← h.get_eq]; split
  · exact h.set_set _ _
  · exact h

theorem defaultStep_sameMap (o : D String String) {t t' : D String String} (h : SameMap t t') :
    SameMap (defaultStep o t) (defaultStep o t') := by
  unfold defaultStep; rw [← h.get_eq]; split
  · exact h.set_set _ _
  · exact h

theorem mergePresentD_sameMap (o : D String String) {t t' : D String String} (h : SameMap t t') :
    SameMap (mergePresentD o t) (mergePresentD o t') :=
  defaultStep_sameMap o (typStep_sameMap o (docStep_sameMap o h))

/-! ### extensionality for well-formed dicts -/

theorem eq_of_keys_lookup (d d' : D κ β) (hk : keys d = keys d') (hnd : (keys d).Nodup)
    (hl : ∀ k, lookup? d k = lookup? d' k) : d = d' := by
  induction d generalizing d' with
  | nil => cases d' with
    | nil => rfl
    | cons a r => simp [keys] at hk
  | cons kv r ih =>
    cases d' with
    | nil => simp [keys] at hk
    | cons kv' r' =>
      simp only [keys, List.map_cons, List.cons.injEq] at hk
      simp only [keys, List.map_cons, List.nodup_cons] at hnd
      have h1 : kv.2 = kv'.2 := by
        have := hl kv.1
        simp only [lookup?, if_true, hk.1] at this
        simpa using this
      have hkv : kv = kv' := Prod.ext hk.1 h1
      have hr : r = r' := by
        apply ih r' hk.2 hnd.2
        intro k
        by_cases hm : k ∈ keys r
        · have hne : ¬ kv.1 = k := fun e => hnd.1 (by simpa [keys, e] using hm)
          have := hl k
          simp only [lookup?, hne, if_false] at this
          rw [← hk.1] at this
          simpa [hne] using this
        · have a1 : lookup? r k = none := by rw [lookup?_eq_none_iff, has_false_iff]; exact hm
          have a2 : lookup? r' k = none := by
            rw [lookup?_eq_none_iff, has_false_iff]; unfold keys at hm ⊢; rw [← hk.2]; exact hm
          rw [a1, a2]
      rw [hkv, hr]

theorem wf_join (σ : List κ) (p o : D κ β) (hnd : σ.Nodup) (hp : WF p) (ho : WF o) : WF (join σ p o) := by
  by_cases h1 : p = []
  · subst h1; rw [join_nil_left]; exact ho
  · by_cases h2 : o = []
    · subst h2; rw [join_nil_right]; exact hp
    · unfold WF
      rw [keys_join_of_nodup σ p o hnd h1 h2]
      apply List.Nodup.append hp (hnd.filter _)
      intro a ha hb
      simp only [List.mem_filter, fresh, Bool.and_eq_true, Bool.not_eq_true'] at hb
      have := (has_iff_mem_keys p a).mpr ha
      rw [this] at hb; exact absurd hb.2.1 (by simp)

/-! ### the `ParamVal` view -/

theorem toParam_set_doc (t : D String String) (v : Option String) :
    toParam (set t "doc" v) = { toParam t with doc := v } := by
  simp [toParam, get_set]

theorem toParam_set_typ (t : D String String) (v : Option String) :
    toParam (set t "typ" v) = { toParam t with typ := v } := by
  simp [toParam, get_set]

theorem toParam_set_default (t : D String String) (v : Option String) :
    toParam (set t "default" v) = { toParam t with default := v } := by
  simp [toParam, get_set]

/-- the three assignments of `Merge.mergePresent`, one by one -/
def docP (o t : Merge.Param) : Merge.Param :=
  if (t.doc == none || t.doc == some "") && (o.doc != none && o.doc != some "") then { t with doc := o.doc } else t
def typP (o t1 : Merge.Param) : Merge.Param :=
  if o.typ != none &&
       (t1.typ == none || (match t1.typ, o.typ with
                           | some tt, some ot => Merge.simpleTypes.contains tt && !Merge.simpleTypes.contains ot
                           | _, _ => false))
  then { t1 with typ := o.typ } else t1
def defP (o t2 : Merge.Param) : Merge.Param :=
  if Merge.isNoneLike t2.default && o.default != none then { t2 with default := o.default } else t2

theorem mergePresent_eq_steps (o t : Merge.Param) : Merge.mergePresent o t = defP o (typP o (docP o t)) := rfl

theorem toParam_docStep (o t : D String String) : toParam (docStep o t) = docP (toParam o) (toParam t) := by
  have hc : (falsy (get t "doc") && !falsy (get o "doc")) =
      (((toParam t).doc == none || (toParam t).doc == some "") && ((toParam o).doc != none && (toParam o).doc != some "")) := by
    show (falsy (get t "doc") && !falsy (get o "doc")) =
      ((get t "doc" == none || get t "doc" == some "") && (get o "doc" != none && get o "doc" != some ""))
    unfold falsy
    cases get o "doc" <;> simp [bne]
  unfold docStep docP
  rw [hc]
  by_cases h : (((toParam t).doc == none || (toParam t).doc == some "") && ((toParam o).doc != none && (toParam o).doc != some "")) = true
  · rw [if_pos h, if_pos h, toParam_set_doc]; rfl
  · rw [if_neg h, if_neg h]

theorem toParam_typStep (o t : D String String) : toParam (typStep o t) = typP (toParam o) (toParam t) := by
  have hc : ((get o "typ").isSome && ((get t "typ").isNone || (isSimple (get t "typ") && !isSimple (get o "typ")))) =
      ((toParam o).typ != none &&
       ((toParam t).typ == none || (match (toParam t).typ, (toParam o).typ with
                           | some tt, some ot => Merge.simpleTypes.contains tt && !Merge.simpleTypes.contains ot
                           | _, _ => false))) := by
    show _ = (get o "typ" != none && (get t "typ" == none || (match get t "typ", get o "typ" with
                           | some tt, some ot => Merge.simpleTypes.contains tt && !Merge.simpleTypes.contains ot
                           | _, _ => false)))
    cases get o "typ" <;> cases get t "typ" <;> simp [isSimple, bne]
  unfold typStep typP
  rw [hc]
  split_ifs
  · rw [toParam_set_typ]; rfl
  · rfl

theorem toParam_defaultStep (o t : D String String) : toParam (defaultStep o t) = defP (toParam o) (toParam t) := by
  have hc : (Merge.isNoneLike (get t "default") && (get o "default").isSome) =
      (Merge.isNoneLike (toParam t).default && (toParam o).default != none) := by
    show _ = (Merge.isNoneLike (get t "default") && get o "default" != none)
    cases get o "default" <;> simp [bne]
  unfold defaultStep defP
  rw [hc]
  split_ifs
  · rw [toParam_set_default]; rfl
  · rfl

end JoinNonNone
