import CddVerif.Model.Adhoc
/-! Helper lemmas for C17 (Properties/C17.lean): facts about `containsSub` and about the ASCII range of `wordChar`. -/
namespace C17
open Adhoc Py

/-- a string without `_` has no `__` in it -/
theorem not_contains_of_not_mem (t : CStr) (c : Char) (rest : CStr) (h : c ∉ t) : containsSub t (c :: rest) = false := by
  induction t with
  | nil => simp [containsSub]
  | cons d ds ih =>
    have hd : d ≠ c := fun e => h (by simp [e])
    have hds : c ∉ ds := fun e => h (by simp [e])
    have hd' : c ≠ d := fun e => hd e.symm
    simp [containsSub, List.isPrefixOf, hd', ih hds]

/-- every character accepted by `wordChar` is ASCII (so a table over `range 128` decides the whitelist) -/
theorem wordChar_ascii (c : Char) (h : wordChar c = true) : c.toNat < 128 := by
  simp only [wordChar, isAsciiDigit, isAsciiLetter, isAsciiLower, isAsciiUpper, Bool.or_eq_true, Bool.and_eq_true, decide_eq_true_eq,
    beq_iff_eq] at h
  have e (a b : Char) : a ≤ b ↔ a.toNat ≤ b.toNat := by
    show a.val ≤ b.val ↔ _
    rw [UInt32.le_iff_toNat_le]; rfl
  rcases h with (((((h | h) | h) | h) | h) | h) | h
  · have := (e _ _).mp h.2; have : ('9' : Char).toNat = 57 := by decide
    omega
  · rcases h with h | h
    · have := (e _ _).mp h.2; have : ('z' : Char).toNat = 122 := by decide
      omega
    · have := (e _ _).mp h.2; have : ('Z' : Char).toNat = 90 := by decide
      omega
  all_goals (subst h; decide)

end C17
