import CddVerif.Proofs.DocSplitStructShapes
import CddVerif.Proofs.DocSplitStructEval
/-!
# C15 (structural split) — field-list docstrings (ReST and Google): the frame shared by all shapes

`d = unlines hs ++ unlines ss ++ L ++ '\n' :: post`:
`hs` = header lines, `ss ++ [L]` = the lines of the parameter section up to the line `L` that holds the last token word.
-/
namespace DSS
open Py DocUtils DocSplit Loop

/-! ### the decidable clauses of the domain -/

/-- one line: no newline inside -/
def lineOk (l : Str) : Bool := !l.contains '\n'
/-- a header line: one line that does not start (after indentation) with any member of `TOKENS_SET` -/
def headerLineOk (l : Str) : Bool := lineOk l && !startsWithAny tokensSet (lstrip l)
/-- the first line of a field-list section: starts (after indentation) with a ReST or Google token -/
def fieldStart (l : Str) : Bool := startsWithAny fieldTokens (lstrip l)
/-- the line that holds the last token: one line whose last token event is a plain token word (a member of `TOKENS_SET`
    delimited by white space) -/
def tokLine (l : Str) : Bool := lineOk l && (lastEv none [] (l ++ ['\n']) .none == .plain)

theorem lineOk_sound (l : Str) (h : lineOk l = true) : '\n' ∉ l := by
  simpa [lineOk] using h

theorem headerOk_sound (hs : List Str) (h : hs.all headerLineOk = true) :
    ∀ l ∈ hs, '\n' ∉ l ∧ startsWithAny tokensSet (lstrip l) = false := by
  intro l hl
  have := List.all_eq_true.mp h l hl
  simp only [headerLineOk, Bool.and_eq_true, Bool.not_eq_true'] at this
  exact ⟨lineOk_sound l this.1, this.2⟩

/-! ### pieces -/

theorem unlines_end (ls : List Str) : unlines ls = [] ∨ ∃ c, (unlines ls).getLast? = some c ∧ isSpaceC c = true := by
  rcases List.eq_nil_or_concat ls with h | ⟨ls', l, h⟩
  · left; subst h; rfl
  · right
    subst h
    refine ⟨'\n', ?_, isSpaceC_nl⟩
    rw [List.concat_eq_append, unlines_append, unlines_cons, unlines_nil]
    simp [List.getLast?_append]

theorem unlines_snoc (ls : List Str) (h : 2 ≤ (unlines ls).length) : ∃ p, p ≠ [] ∧ unlines ls = p ++ ['\n'] := by
  rcases List.eq_nil_or_concat ls with h0 | ⟨ls', l, h0⟩
  · subst h0; simp [unlines] at h
  · subst h0
    rw [List.concat_eq_append, unlines_append, unlines_cons, unlines_nil] at h ⊢
    refine ⟨unlines ls' ++ l, ?_, by simp⟩
    intro hn
    have := congrArg List.length hn
    simp only [List.length_append, List.length_cons, List.length_nil] at this h
    omega

theorem field_not_numpy : fieldTokens.all (fun t => numpySet.all (fun u => !t.toList.isPrefixOf u.toList)) = true := by decide
theorem field_sub_tokens : fieldTokens.all (fun t => tokensSet.contains t) = true := by decide

/-- a line that starts with a ReST/Google token starts with a token, and is not exactly `Parameters` / `Returns` -/
theorem fieldStart_fires (F : Str) (h : fieldStart F = true) :
    inSet numpySet (lstrip F) = false ∧ startsWithAny tokensSet (lstrip F) = true := by
  unfold fieldStart startsWithAny at h
  rw [List.any_eq_true] at h
  obtain ⟨t, ht, hp⟩ := h
  constructor
  · cases hn : inSet numpySet (lstrip F) with
    | false => rfl
    | true =>
      unfold inSet at hn
      rw [List.any_eq_true] at hn
      obtain ⟨u, hu, he⟩ := hn
      have hl : u.toList = lstrip F := beq_iff_eq.mp he
      have h1 := List.all_eq_true.mp (List.all_eq_true.mp field_not_numpy t ht) u hu
      rw [hl, hp] at h1; cases h1
  · unfold startsWithAny
    rw [List.any_eq_true]
    refine ⟨t, ?_, hp⟩
    have := List.all_eq_true.mp field_sub_tokens t ht
    simpa using this

/-- a non-empty line made of dashes has no plain last event -/
theorem lastEv_dashes (L stack : Str) (e : Ev) (hL : allDashes L = true) (hs : allDashes stack = true) (hne : stack ++ L ≠ []) :
    lastEv none stack (L ++ ['\n']) e = .bad := by
  induction L generalizing stack with
  | nil =>
    have hse : stack.isEmpty = false := by
      cases stack with
      | nil => simp at hne
      | cons _ _ => rfl
    simp [lastEv, isSpaceC_nl, hse, hs]
  | cons c cs ih =>
    simp only [allDashes, List.all_cons, Bool.and_eq_true, beq_iff_eq] at hL
    have hc : isSpaceC c = false := by rw [hL.1]; decide
    simp only [List.cons_append, lastEv, hc, Bool.false_eq_true, if_false]
    apply ih
    · simpa [allDashes] using hL.2
    · simp only [allDashes, List.all_append, List.all_cons, List.all_nil, Bool.and_true, Bool.and_eq_true, beq_iff_eq]
      exact ⟨by simpa [allDashes] using hs, hL.1⟩
    · simp

theorem tokLine_not_dashes (L : Str) (h : tokLine L = true) : (!L.isEmpty && allDashes L) = false := by
  cases hd : (!L.isEmpty && allDashes L) with
  | false => rfl
  | true =>
    simp only [Bool.and_eq_true, Bool.not_eq_true', List.isEmpty_eq_false_iff] at hd
    have := lastEv_dashes L [] .none hd.2 rfl (by simpa using hd.1)
    simp only [tokLine, Bool.and_eq_true, beq_iff_eq] at h
    rw [this] at h; cases h.2

/-- the frame: where the section starts, that the format is not numpydoc, and in which line the last token is -/
theorem field_frame (hs ss : List Str) (L post : Str)
    (hh : hs.all headerLineOk = true) (hss : ss.all lineOk = true)
    (hF : fieldStart ((ss ++ [L]).headD []) = true) (hL : tokLine L = true)
    (hq : quiet none [] post = true) :
    tokenStartIdx (unlines (hs ++ ss) ++ L ++ '\n' :: post).toArray = ((unlines hs).length : Int)
    ∧ deriveFormat (unlines (hs ++ ss) ++ L ++ '\n' :: post).toArray ≠ .numpydoc
    ∧ ∃ lf : Int, lastDocStrToken (unlines (hs ++ ss) ++ L ++ '\n' :: post).toArray = some lf
        ∧ ((unlines (hs ++ ss)).length : Int) ≤ lf ∧ lf < ((unlines (hs ++ ss)).length + L.length : Nat) := by
  have hLok : '\n' ∉ L := by
    simp only [tokLine, Bool.and_eq_true] at hL; exact lineOk_sound L hL.1
  -- decomposition around the first section line
  obtain ⟨F, tl, hFt⟩ : ∃ F tl, ss ++ [L] = F :: tl := by
    cases hsl : ss ++ [L] with
    | nil => simp at hsl
    | cons F tl => exact ⟨F, tl, rfl⟩
  have hFhead : (ss ++ [L]).headD [] = F := by rw [hFt]; rfl
  rw [hFhead] at hF
  have hFok : '\n' ∉ F := by
    have hm : F ∈ ss ++ [L] := by rw [hFt]; exact List.mem_cons_self
    rcases List.mem_append.mp hm with hm | hm
    · exact lineOk_sound F (List.all_eq_true.mp hss F hm)
    · simp only [List.mem_singleton] at hm; rw [hm]; exact hLok
  have hd : unlines (hs ++ ss) ++ L ++ '\n' :: post = unlines hs ++ (F ++ '\n' :: (unlines tl ++ post)) := by
    have : unlines (hs ++ ss) ++ L ++ '\n' :: post = unlines hs ++ (unlines (ss ++ [L]) ++ post) := by
      simp [unlines_append, unlines_cons, unlines_nil]
    rw [this, hFt, unlines_cons]; simp
  refine ⟨?_, ?_, ?_⟩
  · rw [tokenStartIdx_eq, hd, startScan_header _ hs _ 0 (headerOk_sound hs hh)]
    obtain ⟨h1, h2⟩ := fieldStart_fires F hF
    rw [startScan_fire _ F _ _ hFok h1 h2]; simp
  · rw [hd]
    have := deriveFormat_ne_numpydoc (unlines hs) F ('\n' :: (unlines tl ++ post)) hF
    rw [List.append_assoc] at this; exact this
  · have hM : lastEv none [] (L ++ ['\n']) .none = .plain := by
      simp only [tokLine, Bool.and_eq_true, beq_iff_eq] at hL; exact hL.2
    obtain ⟨v, hv, hlo, hhi⟩ := lastTok_struct (unlines (hs ++ ss)) (L ++ ['\n']) post (unlines_end _) hM
      (Or.inr ⟨'\n', by simp, isSpaceC_nl⟩) hq
    refine ⟨v, ?_, hlo, ?_⟩
    · have : unlines (hs ++ ss) ++ (L ++ ['\n']) ++ post = unlines (hs ++ ss) ++ L ++ '\n' :: post := by simp
      rw [this] at hv; exact hv
    · simp only [List.length_append, List.length_singleton] at hhi; omega

/-- the frame when the last-token line `L` is the last line and has no newline after it (`ss` non-empty: the first
    section line must be terminated to be seen by `_get_token_start_idx`) -/
theorem field_frame_unterminated (hs ss : List Str) (L : Str)
    (hh : hs.all headerLineOk = true) (hss : ss.all lineOk = true)
    (hF : fieldStart (ss.headD []) = true) (hne : ss ≠ []) (hL : lastEv none [] L .none = .plain) :
    tokenStartIdx (unlines (hs ++ ss) ++ L).toArray = ((unlines hs).length : Int)
    ∧ deriveFormat (unlines (hs ++ ss) ++ L).toArray ≠ .numpydoc
    ∧ ∃ lf : Int, lastDocStrToken (unlines (hs ++ ss) ++ L).toArray = some lf
        ∧ ((unlines (hs ++ ss)).length : Int) ≤ lf ∧ lf < ((unlines (hs ++ ss)).length + L.length : Nat) := by
  obtain ⟨F, tl, hFt⟩ : ∃ F tl, ss = F :: tl := by
    cases ss with
    | nil => exact absurd rfl hne
    | cons F tl => exact ⟨F, tl, rfl⟩
  subst hFt
  simp only [List.headD_cons] at hF
  have hFok : '\n' ∉ F := lineOk_sound F (List.all_eq_true.mp hss F List.mem_cons_self)
  have hd : unlines (hs ++ F :: tl) ++ L = unlines hs ++ (F ++ '\n' :: (unlines tl ++ L)) := by
    simp [unlines_append, unlines_cons]
  refine ⟨?_, ?_, ?_⟩
  · rw [tokenStartIdx_eq, hd, startScan_header _ hs _ 0 (headerOk_sound hs hh)]
    obtain ⟨h1, h2⟩ := fieldStart_fires F hF
    rw [startScan_fire _ F _ _ hFok h1 h2]; simp
  · rw [hd]
    have := deriveFormat_ne_numpydoc (unlines hs) F ('\n' :: (unlines tl ++ L)) hF
    rw [List.append_assoc] at this; exact this
  · obtain ⟨v, hv, hlo, hhi⟩ := lastTok_struct (unlines (hs ++ F :: tl)) L [] (unlines_end _) hL (Or.inl rfl) rfl
    rw [List.append_nil] at hv
    exact ⟨v, hv, hlo, by omega⟩

/-- a last line without a newline is never examined by `_get_token_start_idx` -/
theorem startScan_noNl (d Z : Str) (k : Nat) (stack : Str) (h : '\n' ∉ Z) : startScan d Z k stack = -1 := by
  have := startScan_line d Z [] k stack h
  rw [List.append_nil] at this
  rw [this]; rfl

/-- the frame when the whole section is one last line `L` without a newline: `_get_token_start_idx` finds nothing -/
theorem field_frame_single (hs : List Str) (L : Str)
    (hh : hs.all headerLineOk = true) (hF : fieldStart L = true) (hLok : '\n' ∉ L) (hL : lastEv none [] L .none = .plain) :
    tokenStartIdx (unlines hs ++ L).toArray = -1
    ∧ deriveFormat (unlines hs ++ L).toArray ≠ .numpydoc
    ∧ ∃ lf : Int, lastDocStrToken (unlines hs ++ L).toArray = some lf
        ∧ ((unlines hs).length : Int) ≤ lf ∧ lf < ((unlines hs).length + L.length : Nat) := by
  refine ⟨?_, ?_, ?_⟩
  · rw [tokenStartIdx_eq]
    have := startScan_header (unlines hs ++ L) hs L 0 (headerOk_sound hs hh)
    rw [this, startScan_noNl _ L _ _ hLok]
  · have := deriveFormat_ne_numpydoc (unlines hs) L [] hF
    rw [List.append_nil] at this; exact this
  · obtain ⟨v, hv, hlo, hhi⟩ := lastTok_struct (unlines hs) L [] (unlines_end _) hL (Or.inl rfl) rfl
    rw [List.append_nil] at hv
    exact ⟨v, hv, hlo, by omega⟩

theorem tokens_head_nd : tokensSet.all (fun t => match t.toList with | c :: _ => c != '-' | [] => false) = true := by decide

/-- a line that starts (after indentation) with a token is not made of dashes -/
theorem tokStart_not_dashes (L : Str) (h : startsWithAny tokensSet (lstrip L) = true) : (!L.isEmpty && allDashes L) = false := by
  unfold startsWithAny at h
  rw [List.any_eq_true] at h
  obtain ⟨t, ht, hp⟩ := h
  have h1 := List.all_eq_true.mp tokens_head_nd t ht
  rw [List.isPrefixOf_iff_prefix] at hp
  obtain ⟨r, hr⟩ := hp
  cases htl : t.toList with
  | nil => rw [htl] at h1; cases h1
  | cons c cs =>
    rw [htl] at h1 hr
    have hc : c ≠ '-' := by simpa using h1
    have hm : c ∈ L := by
      obtain ⟨ws, hws⟩ := lstrip_decomp L
      rw [hws, ← hr]; simp
    cases hd : allDashes L with
    | false => simp
    | true =>
      have := List.all_eq_true.mp hd c hm
      exact absurd (beq_iff_eq.mp this) hc

/-! ### from the index pair to the parts, the partition and `ensure_doc_args_whence_original` -/

theorem idxPair_of (d : Str) (s l : Int) (h1 : tokenStartIdx d.toArray = s) (h2 : tokenLastIdx d.toArray = .ok l) :
    idxPair d = .ok (s, l) := by
  unfold idxPair
  simp only [h1, h2]; rfl

/-- slicing `h ++ s ++ f` at `|h|` and `|h| + |s|` gives back the three pieces, byte for byte -/
theorem rawParts_exact (h s f : Str) :
    rawParts (h ++ s ++ f) (h.length : Int) ((h.length + s.length : Nat) : Int) = (some h, s, some f) := by
  unfold rawParts
  have h1 : ((h.length : Int) > -1) = True := by simp; omega
  have h2 : (((h.length + s.length : Nat) : Int) > -1) = True := by simp; omega
  have h3 : (((h.length + s.length : Nat) : Int) != -1) = true := by simp; omega
  simp only [h1, h2, h3, if_true]
  have e1 : slice (h ++ s ++ f) none (some (h.length : Int)) = h := by
    rw [slice_to _ _ (by omega)]; simp [List.append_assoc]
  have e2 : slice (h ++ s ++ f) (some (h.length : Int)) (some ((h.length + s.length : Nat) : Int)) = s := by
    rw [slice_mid_nat, List.append_assoc, List.drop_left]; simp
  have e3 : slice (h ++ s ++ f) (some ((h.length + s.length : Nat) : Int)) none = f := by
    rw [slice_from_nat, ← List.length_append, List.drop_left]
  rw [e1, e2, e3]

/-- `header_args_footer_to_str` puts the header first and the footer last, without overlap -/
theorem sandwich4 (h A B C f : Str) : ∃ mid, h ++ A ++ B ++ C ++ f = h ++ mid ++ f := ⟨A ++ B ++ C, by simp⟩

theorem haf_sandwich (h a f : Str) : ∃ mid, hafToStr h a f = h ++ mid ++ f := by
  unfold hafToStr
  exact sandwich4 _ _ _ _ _

/-- `parse_docstring_into_header_args_footer` returns the original's header and footer slices -/
theorem parseHAF_parts (cur org : Str) (s l : Int) (hne : org ≠ []) (hidx : idxPair org = .ok (s, l))
    (hd a ft : Option Str) (hp : parseHAF cur org = .ok (hd, a, ft)) :
    hd = (rawParts org s l).1 ∧ ft = (rawParts org s l).2.2 := by
  unfold parseHAF at hp
  have he : org.isEmpty = false := by cases org with | nil => exact absurd rfl hne | cons _ _ => rfl
  simp only [he, Bool.false_eq_true, if_false, hidx] at hp
  by_cases hce : cur.isEmpty = true
  · simp only [hce, if_true, ok_bind, pure, Except.pure] at hp
    injection hp with hp
    simp only [Prod.mk.injEq] at hp
    exact ⟨hp.1.symm, hp.2.2.symm⟩
  · simp only [hce, Bool.false_eq_true, if_false] at hp
    cases hic : idxPair cur with
    | error e => rw [hic] at hp; cases hp
    | ok c =>
      rw [hic] at hp
      simp only [ok_bind, pure, Except.pure] at hp
      injection hp with hp
      simp only [Prod.mk.injEq] at hp
      exact ⟨hp.1.symm, hp.2.2.symm⟩

/-- **conversion keeps header and footer** around whatever the new parameter section is -/
theorem whence_sandwich (cur h s f r : Str) (hne : h ++ s ++ f ≠ [])
    (hidx : idxPair (h ++ s ++ f) = .ok ((h.length : Int), ((h.length + s.length : Nat) : Int)))
    (hw : whence cur (h ++ s ++ f) = .ok r) : r = h ++ s ++ f ∨ ∃ mid, r = h ++ mid ++ f := by
  unfold whence at hw
  split at hw
  · left; cases hw; rfl
  · right
    cases hp : parseHAF cur (h ++ s ++ f) with
    | error e => rw [hp] at hw; cases hw
    | ok p =>
      obtain ⟨hd, a, ft⟩ := p
      rw [hp] at hw
      cases hw
      obtain ⟨e1, e2⟩ := parseHAF_parts cur _ _ _ hne hidx hd a ft hp
      rw [rawParts_exact] at e1 e2
      simp only at e1 e2
      subst e1 e2
      exact haf_sandwich _ _ _

/-- no token word anywhere: `_get_token_last_idx` answers −1 -/
theorem tokenLastIdx_quiet (d : Str) (h : quiet none [] d = true) : tokenLastIdx d.toArray = .ok (-1) := by
  have h1 : lastDocStrToken d.toArray = none := by
    rw [lastDocStrToken_eq, tokScan_eq_run]
    exact quiet_sound d 0 none none [] [] (Or.inl rfl) h
  unfold tokenLastIdx tokenLastIdxCount
  rw [h1]; rfl

/-! ### the last line of a string -/

/-- the text after the last newline -/
def lastLine (d : Str) : Str := (d.reverse.takeWhile (· != '\n')).reverse

theorem mem_takeWhile_pred {α : Type} (p : α → Bool) (l : List α) (x : α) (h : x ∈ l.takeWhile p) : p x = true := by
  induction l with
  | nil => simp at h
  | cons a as ih =>
    by_cases ha : p a = true
    · simp only [List.takeWhile_cons, ha, if_true, List.mem_cons] at h
      rcases h with h | h
      · rw [h]; exact ha
      · exact ih h
    · simp [ha] at h

theorem dropWhile_head_false {α : Type} (p : α → Bool) (l : List α) (c : α) (R : List α) (h : l.dropWhile p = c :: R) : p c = false := by
  induction l with
  | nil => simp at h
  | cons a as ih =>
    by_cases ha : p a = true
    · simp only [List.dropWhile_cons, ha, if_true] at h; exact ih h
    · simp only [List.dropWhile_cons, ha, Bool.false_eq_true, if_false, List.cons.injEq] at h
      rw [← h.1]; simpa using ha

theorem lastLine_noNl (d : Str) : '\n' ∉ lastLine d := by
  unfold lastLine
  intro h
  rw [List.mem_reverse] at h
  have := mem_takeWhile_pred _ _ _ h
  simp at this

theorem lastLine_decomp (d : Str) (h : '\n' ∈ d) : ∃ A, d = A ++ '\n' :: lastLine d := by
  have hsplit := List.takeWhile_append_dropWhile (p := (· != '\n')) (l := d.reverse)
  have hmem : '\n' ∈ d.reverse := List.mem_reverse.mpr h
  cases hdw : d.reverse.dropWhile (· != '\n') with
  | nil =>
    rw [hdw, List.append_nil] at hsplit
    rw [← hsplit] at hmem
    have := mem_takeWhile_pred _ _ _ hmem
    simp at this
  | cons c R =>
    have hc : c = '\n' := by
      have := dropWhile_head_false _ _ _ _ hdw
      simpa using this
    subst hc
    refine ⟨R.reverse, ?_⟩
    rw [hdw] at hsplit
    have := congrArg List.reverse hsplit
    simp only [List.reverse_append, List.reverse_cons, List.reverse_reverse, List.append_assoc, List.singleton_append] at this
    exact this.symm

theorem lastLine_append_nl (a : Str) : lastLine (a ++ ['\n']) = [] := by
  simp [lastLine]

/-- the footer of the absorbed shape: the last line without its indentation — unless it starts with a token -/
def absorbedFooter (d : Str) : Str := if startsWithAny tokensSet (lstrip (lastLine d)) then [] else lstrip (lastLine d)

theorem takeWhile_append_stop {α : Type} (p : α → Bool) (x : List α) (c : α) (y : List α) (hc : p c = false)
    (hx : ∀ a ∈ x, p a = true) : (x ++ c :: y).takeWhile p = x := by
  induction x with
  | nil => simp [hc]
  | cons a as ih =>
    have ha := hx a List.mem_cons_self
    simp only [List.cons_append, List.takeWhile_cons, ha, if_true]
    rw [ih (fun b hb => hx b (List.mem_cons_of_mem _ hb))]

/-- the last line of `a ++ '\n' :: b` lies inside `b` -/
theorem lastLine_le (a b : Str) : (lastLine (a ++ '\n' :: b)).length ≤ b.length := by
  unfold lastLine
  rw [List.length_reverse]
  have hr : (a ++ '\n' :: b).reverse = b.reverse ++ '\n' :: a.reverse := by simp
  rw [hr]
  have hsplit := List.takeWhile_append_dropWhile (p := (· != '\n')) (l := b.reverse)
  cases hdw : b.reverse.dropWhile (· != '\n') with
  | nil =>
    rw [hdw, List.append_nil] at hsplit
    rw [takeWhile_append_stop (fun x => x != '\n') _ _ _ (by simp)
      (fun x hx => by rw [← hsplit] at hx; exact mem_takeWhile_pred (fun x => x != '\n') _ _ hx)]
    simp
  | cons c R =>
    have hc : (c != '\n') = false := dropWhile_head_false (fun x => x != '\n') _ _ _ hdw
    rw [hdw] at hsplit
    rw [← hsplit, List.append_assoc, List.cons_append,
      takeWhile_append_stop (fun x => x != '\n') _ c _ hc (fun x hx => mem_takeWhile_pred (fun x => x != '\n') _ _ hx)]
    have := congrArg List.length hsplit
    simp only [List.length_append, List.length_cons, List.length_reverse] at this
    omega

theorem absorbedFooter_suffix (d : Str) (h : '\n' ∈ d) : absorbedFooter d <:+ d := by
  unfold absorbedFooter
  split
  · exact List.nil_suffix
  · obtain ⟨A, hA⟩ := lastLine_decomp d h
    obtain ⟨ws, hws⟩ := lstrip_decomp (lastLine d)
    exact ⟨A ++ '\n' :: ws, by rw [List.append_assoc, List.cons_append, ← hws, ← hA]⟩

theorem absorbedFooter_le (d : Str) : (absorbedFooter d).length ≤ (lastLine d).length := by
  unfold absorbedFooter
  split
  · simp
  · rw [← drop_leadingWs, List.length_drop]; omega

/-- a prefix and a suffix that do not overlap leave a middle -/
theorem split3 (d h f : Str) (hp : h <+: d) (hs : f <:+ d) (hlen : h.length + f.length ≤ d.length) :
    ∃ sec, d = h ++ sec ++ f := by
  obtain ⟨r, hr⟩ := hp
  have hrs : r <:+ d := ⟨h, hr⟩
  have hlr : f.length ≤ r.length := by
    have := congrArg List.length hr
    simp only [List.length_append] at this; omega
  obtain ⟨sec, hsec⟩ := List.suffix_of_suffix_length_le hs hrs hlr
  exact ⟨sec, by rw [List.append_assoc, hsec, hr]⟩

/-! ### small facts used by the property theorems -/

/-- `L` is the Google `Raises:` heading (treated specially by `_get_token_last_idx_if_no_next_token`) -/
def isRaises (L : Str) : Bool := lstrip L == "Raises:".toList

theorem lineVerdict_none (n : Nat) (L : Str) (h : isRaises L = false) : lineVerdict n L = none := by
  unfold lineVerdict; unfold isRaises at h; rw [h]; rfl

theorem lineVerdict_raises (n : Nat) (L : Str) (h : isRaises L = true) : lineVerdict n L = some ((n : Int) - 1) := by
  unfold lineVerdict; unfold isRaises at h; rw [h]; rfl

theorem tokLine_lineOk (L : Str) (h : tokLine L = true) : '\n' ∉ L := by
  simp only [tokLine, Bool.and_eq_true] at h; exact lineOk_sound L h.1

theorem lstrip_length (Z : Str) : (lstrip Z).length = Z.length - leadingWs Z := by
  rw [← drop_leadingWs, List.length_drop]

/-- what `_get_token_last_idx` returns in the absorbed shape, in terms of the whole string -/
theorem absorbed_last (d A : Str) (hd : d = A ++ '\n' :: lastLine d) (v : Option Int) :
    (if startsWithAny tokensSet (lstrip (lastLine d)) then (d.length : Int)
      else v.getD ((A.length + 1 + leadingWs (lastLine d) : Nat) : Int))
    = if startsWithAny tokensSet (lstrip (lastLine d)) then (d.length : Int)
      else v.getD (((d.length - (absorbedFooter d).length : Nat)) : Int) := by
  by_cases ht : startsWithAny tokensSet (lstrip (lastLine d)) = true
  · simp only [ht, if_true]
  · simp only [ht, Bool.false_eq_true, if_false, absorbedFooter]
    have h1 := congrArg List.length hd
    have h2 := lstrip_length (lastLine d)
    have h3 := leadingWs_le (lastLine d)
    simp only [List.length_append, List.length_cons] at h1
    congr 3
    omega

/-- the header slice of `h ++ rest` cut at `|h|` is `h` -/
theorem rawParts_header (h rest : Str) (l : Int) : (rawParts (h ++ rest) (h.length : Int) l).1 = some h := by
  unfold rawParts
  have h1 : ((h.length : Int) > -1) = True := by simp; omega
  simp only [h1, if_true]
  rw [slice_to _ _ (by omega)]; simp


end DSS
