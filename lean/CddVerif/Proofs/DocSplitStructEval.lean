import CddVerif.Proofs.DocSplitStructLoops
/-!
# C15 (structural split) — a kernel-evaluable twin of the two index walkers

`idxPairF` is `DocSplit.idxPair` with every `for` loop replaced by its structural scan (`Proofs/DocSplitStructLoops.lean`)
and every `WhileLoop.run` replaced by the fuelled twin `runFuel` with `measure + 1` fuel.  `idxPair_eq_F` proves it equal to
the model's `idxPair` for **every** string, so `decide` can evaluate the model on concrete witnesses through it.
-/
namespace DSS
open Py DocUtils DocSplit Loop

/-- `run` through the fuelled twin (reduces in the kernel) -/
def runF {σ : Type} (L : WhileLoop σ) (s : σ) : σ × Exit × Nat := (L.runFuel (L.measure s + 1) s).getD (s, .cond, 0)

theorem run_eq_runF {σ : Type} (L : WhileLoop σ) (s : σ) : L.run s = runF L s := by
  unfold runF
  rw [WhileLoop.runFuel_eq L s _ (Nat.lt_succ_self _)]
  rfl

/-! ### the numpydoc exit of `_get_end_of_last_found` -/

def numBody (s : S) (idx : Nat) (st : Option Int × Array Char) : ForInStep (Option Int × Array Char) :=
  let c := s[idx]!
  if c == '\n' then
    if st.2.any (fun x => x == ':') then .yield (some (idx : Int), #[]) else .yield (st.1, #[])
  else .yield (st.1, st.2.push c)

/-- last newline (at or after `last_found`) that ends a line containing `:` -/
def numScan : Str → Nat → Option Int → Str → Option Int
  | [], _, lt, _ => lt
  | c :: cs, k, lt, stack =>
    if c == '\n' then numScan cs (k + 1) (if stack.any (fun x => x == ':') then some (k : Int) else lt) []
    else numScan cs (k + 1) lt (stack ++ [c])

theorem numLoop_eq (d : Str) (rem : Str) (k : Nat) (lt : Option Int) (stack : Str) (h : d.drop k = rem) :
    (listLoop (numBody d.toArray) (List.range' k rem.length) (lt, stack.toArray)).1 = numScan rem k lt stack := by
  induction rem generalizing k lt stack with
  | nil => rfl
  | cons c cs ih =>
    have hc := getElem!_of_drop d k c cs h
    have hd := drop_succ_of_drop d k c cs h
    simp only [List.length_cons, List.range'_succ, listLoop, numBody, hc, numScan]
    by_cases hnl : (c == '\n') = true
    · simp only [hnl, if_true]
      by_cases h1 : (stack.any fun x => x == ':') = true
      · have h1' : (stack.toArray.any fun x => x == ':') = true := by rw [List.any_toArray]; exact h1
        simp only [h1, h1', if_true]
        exact ih (k + 1) _ [] hd
      · have h1' : (stack.toArray.any fun x => x == ':') = false := by rw [List.any_toArray]; exact Bool.eq_false_iff.mpr h1
        simp only [h1, h1', Bool.false_eq_true, if_false]
        exact ih (k + 1) _ [] hd
    · simp only [hnl]
      have := ih (k + 1) lt (stack ++ [c]) hd
      simpa using this

def endOfLastFoundNumpydocF (d : Str) (lastFound lastFoundStarts : Int) : Except String (Option Int) := do
  let countdownFrom := lastFoundStarts - 1
  let nls ← scanBackNl d.toArray (countdownFrom - 1)
  if inSet numpySet (slice d nls (some countdownFrom)) then
    match numScan (d.drop lastFound.toNat) lastFound.toNat none [] with
    | none => return none
    | some lta =>
      match ← scanBackNlHit d.toArray lta.toNat with
      | none => return some lta
      | some v => return some v
  else return none

theorem endOfLastFoundNumpydoc_eq (d : Str) (lf lfs : Int) :
    endOfLastFoundNumpydoc d.toArray lf lfs = endOfLastFoundNumpydocF d lf lfs := by
  unfold endOfLastFoundNumpydoc endOfLastFoundNumpydocF
  dsimp only
  congr 1
  funext nls
  rw [sl_eq]
  by_cases hc : inSet numpySet (slice d nls (some (lfs - 1))) = true
  · rw [if_pos hc, if_pos hc]
    rw [forIn_range_pure _ (numBody d.toArray)]
    · have hlen : d.toArray.size - lf.toNat = (d.drop lf.toNat).length := by simp
      simp only [pure_bind]
      rw [hlen, numLoop_eq d _ lf.toNat none [] rfl]
      cases numScan (d.drop lf.toNat) lf.toNat none [] <;> rfl
    · intro a b; simp only [numBody]; repeat' split
      all_goals rfl
  · rw [if_neg hc, if_neg hc]

def endOfLastFoundF (d : Str) (lf : Int) (lfs : Option Int) (fmt : Style) : Except String (Option Int) :=
  match endScan (d.drop lf.toNat) lf.toNat none with
  | some v =>
    if fmt == .numpydoc && allDashes (slice d lfs (some lf)) then endOfLastFoundNumpydocF d lf (lfs.getD 0)
    else .ok (some (v + 1))
  | none => .error "TypeError"

theorem endOfLastFound_eq_F (d : Str) (lf : Int) (lfs : Option Int) (fmt : Style) :
    endOfLastFound d.toArray lf lfs fmt = endOfLastFoundF d lf lfs fmt := by
  rw [endOfLastFound_eq]; unfold endOfLastFoundF
  simp only [endOfLastFoundNumpydoc_eq]
  cases endScan (d.drop lf.toNat) lf.toNat none <;> rfl

/-! ### `_get_token_last_idx_if_no_next_token`, `_get_token_last_idx`, the index pair -/

def lastIdxIfNoNextTokenCountF (d : Str) (lfs : Int) : Option Int × Nat :=
  let s := d.toArray
  let nextNl : Int := lfs + countUntilNl (sl s (some lfs) none)
  let nextLine := sl s (some lfs) (some nextNl)
  if !nextLine.isEmpty && allDashes nextLine then
    let start := (nextNl + 1).toNat
    let r := runF (loopC s) { lineStart := start, lineEnd := start, prevEnd := start }
    (some ((r.1.prevEnd : Int) + 1), r.2.2)
  else if lstrip (sl s (some lfs) (some nextNl)) == "Raises:".toList then (some (lfs - 1), 0)
  else (none, 0)

theorem lastIdxIfNoNextTokenCount_eq_F (d : Str) (lfs : Int) :
    lastIdxIfNoNextTokenCount d.toArray lfs = lastIdxIfNoNextTokenCountF d lfs := by
  unfold lastIdxIfNoNextTokenCount lastIdxIfNoNextTokenCountF
  simp only [run_eq_runF]

def tokenLastIdxCountF (d : Str) : Except String (Int × Counts) := do
  let s := d.toArray
  match tokScan d 0 none [] [] with
  | none => return (-1, {})
  | some lastFound =>
    let fmt := deriveFormat s
    let lfs ← startOfLastFound s lastFound
    let lfe ← endOfLastFoundF d lastFound lfs fmt
    let idx0 := findEndOfArgsReturns s lfe
    let ra := runF (loopA s) idx0
    if ra.2.1 == .raise then throw "IndexError"
    let idx := ra.1
    let ind := leadingWs (sl s (some (idx + 1)) none)
    let started : Int := ind + idx + 1
    let mut i := started
    let mut cb := 0
    if startsWithAny tokensSet (sl s (some i) none) then
      let rb := runF (loopB s) (i + 1)
      if rb.2.1 == .raise then throw "IndexError"
      i := rb.1
      cb := rb.2.2
    if started == i then
      let (r, cc) := lastIdxIfNoNextTokenCountF d (lfs.getD 0)
      match r with
      | some v => return (v, { a := ra.2.2, b := cb, c := cc })
      | none => return (i, { a := ra.2.2, b := cb, c := cc })
    return (i, { a := ra.2.2, b := cb, c := 0 })

theorem tokenLastIdxCount_eq_F (d : Str) : tokenLastIdxCount d.toArray = tokenLastIdxCountF d := by
  unfold tokenLastIdxCount tokenLastIdxCountF
  simp only [lastDocStrToken_eq, endOfLastFound_eq_F, run_eq_runF, lastIdxIfNoNextTokenCount_eq_F]
  cases tokScan d 0 none [] [] <;> rfl

/-- the whole index pair, kernel-evaluable -/
def idxPairF (d : Str) : Except String (Int × Int) :=
  match tokenLastIdxCountF d with
  | .ok r => .ok (startScan d d 0 [], r.1)
  | .error e => .error e

/-- **the twin is the model** (every string) -/
theorem idxPair_eq_F (d : Str) : idxPair d = idxPairF d := by
  unfold idxPair idxPairF tokenLastIdx
  simp only [tokenLastIdxCount_eq_F, tokenStartIdx_eq]
  cases tokenLastIdxCountF d <;> rfl

/-- `Except` results as options, for `decide` -/
def okPair (r : Except String (Int × Int)) : Option (Int × Int) := match r with | .ok p => some p | .error _ => none

theorem idxPair_of_F (d : Str) (p : Int × Int) (h : okPair (idxPairF d) = some p) : idxPair d = .ok p := by
  rw [idxPair_eq_F]
  cases hr : idxPairF d with
  | ok q => rw [hr] at h; simp only [okPair, Option.some.injEq] at h; rw [h]
  | error e => rw [hr] at h; cases h

theorem idxPair_raises_of_F (d : Str) (h : okPair (idxPairF d) = none) : ∃ e, idxPair d = .error e := by
  rw [idxPair_eq_F]
  cases hr : idxPairF d with
  | ok q => rw [hr] at h; cases h
  | error e => exact ⟨e, rfl⟩

end DSS
