import CddVerif.Proofs.DocSplitStructNumpy
/-!
# C15 (every string) — range, index-safety and ordering lemmas for the two index walkers

`Proofs/DocSplitStruct*.lean` compute the index pair of `_get_token_start_idx` / `_get_token_last_idx` exactly on structured
docstrings.  Here every lemma is about **every** string `d` (no shape hypothesis): each helper of `_get_token_last_idx` gets
a specification in terms of positions (`d[q]? = some '\n'`), and the specifications are chained through
`DSS.tokenLastIdx_pipeline`.
-/
namespace DSA
open Py DocUtils DocSplit Loop DSS

/-! ### `_get_token_start_idx` -/

/-- what `_get_token_start_idx` can return: `-1`, or the first index `r` of a line that is terminated by a newline at `q` -/
theorem startScan_spec (d : Str) : ∀ (rem : Str) (k : Nat) (stack : Str), d.drop k = rem → stack.length ≤ k →
    (k = stack.length ∨ d[k - stack.length - 1]? = some '\n') →
    startScan d rem k stack = -1 ∨
      ∃ r q : Nat, startScan d rem k stack = (r : Int) ∧ r ≤ q ∧ q < d.length ∧ d[q]? = some '\n' ∧ (r = 0 ∨ d[r - 1]? = some '\n') := by
  intro rem
  induction rem with
  | nil => intro k stack _ _ _; exact Or.inl rfl
  | cons c cs ih =>
    intro k stack h hk hls
    have hd := drop_succ_of_drop d k c cs h
    have hc : d[k]? = some c := by rw [← List.head?_drop, h]; rfl
    have hklt : k < d.length := (List.getElem?_eq_some_iff.mp hc).1
    have fire : ∃ r q : Nat, ((k : Int) - (stack.length : Int)) = (r : Int) ∧ r ≤ q ∧ q < d.length ∧ d[q]? = some c
        ∧ (r = 0 ∨ d[r - 1]? = some '\n') := by
      refine ⟨k - stack.length, k, by omega, by omega, hklt, hc, ?_⟩
      rcases hls with h0 | h0
      · left; omega
      · right; exact h0
    simp only [startScan]
    by_cases hnl : (c == '\n') = true
    · have hcn : c = '\n' := by simpa using hnl
      simp only [hnl, if_true]
      split
      · split
        · right; rw [hcn] at fire; exact fire
        · exact ih (k + 1) [] hd (by simp) (Or.inr (by simpa [hcn] using hc))
      · split
        · right; rw [hcn] at fire; exact fire
        · exact ih (k + 1) [] hd (by simp) (Or.inr (by simpa [hcn] using hc))
    · simp only [hnl]
      refine ih (k + 1) (stack ++ [c]) hd (by simp; omega) ?_
      simp only [List.length_append, List.length_singleton]
      rcases hls with h0 | h0
      · left; omega
      · right
        have : k + 1 - (stack.length + 1) - 1 = k - stack.length - 1 := by omega
        rw [this]; exact h0

/-- **Range of `_get_token_start_idx` (every string):** `-1`, or an index `r < |d|` that begins a line (`r = 0` or the
    character before it is a newline) which is terminated by a newline at some `q ≥ r` -/
theorem tokenStartIdx_range (d : Str) :
    tokenStartIdx d.toArray = -1 ∨
      ∃ r q : Nat, tokenStartIdx d.toArray = (r : Int) ∧ r ≤ q ∧ q < d.length ∧ d[q]? = some '\n' ∧ (r = 0 ∨ d[r - 1]? = some '\n') := by
  rw [tokenStartIdx_eq]
  exact startScan_spec d d 0 [] rfl (by simp) (Or.inl rfl)

/-! ### `_last_doc_str_token` -/

theorem tokScan_nonneg : ∀ (rem : Str) (i : Nat) (lf : Option Int) (pen stack : Str), stack.length ≤ i →
    (∀ v, lf = some v → 0 ≤ v) → ∀ v, tokScan rem i lf pen stack = some v → 0 ≤ v := by
  intro rem
  induction rem with
  | nil => intro i lf pen stack _ hlf v h; exact hlf v h
  | cons c cs ih =>
    intro i lf pen stack hi hlf v h
    simp only [tokScan] at h
    split at h
    · split at h
      · exact ih (i + 1) lf pen stack (by omega) hlf v h
      · split at h
        · refine ih (i + 1) _ stack [] (by simp) ?_ v h
          intro w hw
          split at hw
          · cases hw; omega
          · exact hlf w hw
        · refine ih (i + 1) _ stack [] (by simp) ?_ v h
          intro w hw
          split at hw
          · cases hw; omega
          · exact hlf w hw
    · exact ih (i + 1) lf pen (stack ++ [c]) (by simp; omega) hlf v h

theorem lastDocStrToken_nonneg (d : Str) (lf : Int) (h : lastDocStrToken d.toArray = some lf) : 0 ≤ lf := by
  rw [lastDocStrToken_eq] at h
  exact tokScan_nonneg d 0 none [] [] (by simp) (by intro v hv; cases hv) lf h

/-! ### `_get_start_of_last_found` (the countdown `for v in range(hi, 0, -1)`) -/

theorem scanBackNlAux_spec (d : Str) : ∀ (k : Nat) (v r : Option Int), scanBackNlAux d.toArray k v = .ok r →
    (k = 0 ∧ r = v) ∨
      ∃ w : Nat, r = some (w : Int) ∧ 1 ≤ w ∧ w ≤ k + 1 ∧ ∀ j, w ≤ j → j ≤ k → d[j]? ≠ some '\n' := by
  intro k
  induction k with
  | zero => intro v r h; left; simp only [scanBackNlAux] at h; cases h; exact ⟨rfl, rfl⟩
  | succ k ih =>
    intro v r h
    right
    rw [scanBackNlAux, at?_nat] at h
    cases hc : d[k + 1]? with
    | none => rw [hc] at h; cases h
    | some c =>
      rw [hc] at h
      simp only at h
      by_cases hnl : (c == '\n') = true
      · simp only [hnl, if_true] at h
        cases h
        exact ⟨k + 2, congrArg some (by omega), by omega, by omega, by intro j h1 h2; omega⟩
      · simp only [hnl] at h
        have hne : d[k + 1]? ≠ some '\n' := by
          rw [hc]; intro e; cases e; exact hnl rfl
        rcases ih _ r h with ⟨hk0, hr⟩ | ⟨w, hr, h1, h2, h3⟩
        · subst hk0
          refine ⟨1, by rw [hr], by omega, by omega, ?_⟩
          intro j h1 h2
          have : j = 1 := by omega
          subst this; exact hne
        · refine ⟨w, hr, h1, by omega, ?_⟩
          intro j hj1 hj2
          by_cases hj : j = k + 1
          · subst hj; exact hne
          · exact h3 j hj1 (by omega)

/-- `_get_start_of_last_found`-style countdown: `None` when the range is empty, otherwise an index `w ≥ 1` such that no
    newline lies in `[w, hi]` -/
theorem scanBackNl_spec (d : Str) (hi : Int) (r : Option Int) (h : scanBackNl d.toArray hi = .ok r) :
    (hi ≤ 0 ∧ r = none) ∨
      (0 < hi ∧ ∃ w : Nat, r = some (w : Int) ∧ 1 ≤ w ∧ (w : Int) ≤ hi + 1 ∧ ∀ j : Nat, w ≤ j → (j : Int) ≤ hi → d[j]? ≠ some '\n') := by
  unfold scanBackNl at h
  split at h
  · left; cases h; exact ⟨by assumption, rfl⟩
  · right
    rename_i hpos
    refine ⟨by omega, ?_⟩
    rcases scanBackNlAux_spec d _ _ _ h with ⟨hk0, _⟩ | ⟨w, hr, h1, h2, h3⟩
    · omega
    · exact ⟨w, hr, h1, by omega, fun j hj1 hj2 => h3 j hj1 (by omega)⟩

/-- `for i in range(hi, 0, -1)` started on a newline at an index `≥ 1` stops at once -/
theorem scanBackNlHit_at_nl (d : Str) (r : Nat) (h1 : 1 ≤ r) (h : d[r]? = some '\n') :
    scanBackNlHit d.toArray r = .ok (some ((r : Int) + 1)) := by
  obtain ⟨k, rfl⟩ : ∃ k, r = k + 1 := ⟨r - 1, by omega⟩
  rw [scanBackNlHit, at?_nat, h]
  simp

/-! ### `_get_end_of_last_found` -/

theorem endScan_spec (d : Str) : ∀ (rem : Str) (k : Nat) (e : Option Int), d.drop k = rem → ∀ v, endScan rem k e = some v →
    (e = some v ∧ rem = []) ∨
      ∃ p : Nat, v = (p : Int) ∧ k ≤ p ∧ p < d.length ∧ (d[p]? = some '\n' ∨ p + 1 = d.length) := by
  intro rem
  induction rem with
  | nil => intro k e _ v h; left; exact ⟨h, rfl⟩
  | cons c cs ih =>
    intro k e h v hv
    right
    have hd := drop_succ_of_drop d k c cs h
    have hc : d[k]? = some c := by rw [← List.head?_drop, h]; rfl
    have hklt : k < d.length := (List.getElem?_eq_some_iff.mp hc).1
    simp only [endScan] at hv
    by_cases hnl : (c == '\n') = true
    · have hcn : c = '\n' := by simpa using hnl
      simp only [hnl, if_true, Option.some.injEq] at hv
      exact ⟨k, hv.symm, by omega, hklt, Or.inl (by rw [hc, hcn])⟩
    · simp only [hnl] at hv
      rcases ih (k + 1) _ hd v hv with ⟨he, hnil⟩ | ⟨p, hp, h1, h2, h3⟩
      · simp only [Option.some.injEq] at he
        refine ⟨k, he.symm, by omega, hklt, Or.inr ?_⟩
        have := congrArg List.length hd
        rw [hnil] at this
        simp only [List.length_drop, List.length_nil] at this
        omega
      · exact ⟨p, hp, by omega, h2, h3⟩

/-- the inner scan of `_get_end_of_last_found_numpydoc`: the answer is a newline strictly after the scan's start -/
theorem numScan_spec (d : Str) : ∀ (rem : Str) (k : Nat) (lt : Option Int) (stack : Str), d.drop k = rem → ∀ r, numScan rem k lt stack = some r →
    lt = some r ∨ ∃ p : Nat, r = (p : Int) ∧ k ≤ p ∧ (k : Int) - stack.length < p ∧ p < d.length ∧ d[p]? = some '\n' := by
  intro rem
  induction rem with
  | nil => intro k lt stack _ r h; left; exact h
  | cons c cs ih =>
    intro k lt stack h r hr
    have hd := drop_succ_of_drop d k c cs h
    have hc : d[k]? = some c := by rw [← List.head?_drop, h]; rfl
    have hklt : k < d.length := (List.getElem?_eq_some_iff.mp hc).1
    simp only [numScan] at hr
    by_cases hnl : (c == '\n') = true
    · have hcn : c = '\n' := by simpa using hnl
      simp only [hnl, if_true] at hr
      rcases ih (k + 1) _ [] hd r hr with h1 | ⟨p, hp, h1, h2, h3, h4⟩
      · split at h1
        · rename_i hany
          right
          simp only [Option.some.injEq] at h1
          have hne : stack ≠ [] := by intro e; rw [e] at hany; cases hany
          have hpos : 0 < stack.length := List.length_pos_iff.mpr hne
          exact ⟨k, h1.symm, by omega, by omega, hklt, by rw [hc, hcn]⟩
        · left; exact h1
      · right
        simp only [List.length_nil] at h2
        exact ⟨p, hp, by omega, by omega, h3, h4⟩
    · simp only [hnl] at hr
      rcases ih (k + 1) lt (stack ++ [c]) hd r hr with h1 | ⟨p, hp, h1, h2, h3, h4⟩
      · left; exact h1
      · right
        simp only [List.length_append, List.length_singleton] at h2
        exact ⟨p, hp, by omega, by omega, h3, h4⟩

/-- what `_get_end_of_last_found` can return when it returns: `None`, or an index `e` with `last_found < e ≤ |d|` that is
    one past a newline (or is `|d|`) -/
theorem endOfLastFound_spec (d : Str) (lf : Int) (lfs : Option Int) (fmt : Style) (lfe : Option Int) (h0 : 0 ≤ lf)
    (h : endOfLastFound d.toArray lf lfs fmt = .ok lfe) :
    lf < d.length ∧
    (lfe = none ∨ ∃ e : Nat, lfe = some (e : Int) ∧ lf < e ∧ e ≤ d.length ∧ (d[e - 1]? = some '\n' ∨ e = d.length)) := by
  rw [endOfLastFound_eq_F] at h
  unfold endOfLastFoundF at h
  cases hes : endScan (d.drop lf.toNat) lf.toNat none with
  | none => rw [hes] at h; cases h
  | some v =>
    rw [hes] at h
    simp only at h
    rcases endScan_spec d _ lf.toNat none rfl v hes with ⟨he, _⟩ | ⟨p, hp, h1, h2, h3⟩
    · cases he
    · refine ⟨by omega, ?_⟩
      split at h
      · -- numpydoc exit
        unfold endOfLastFoundNumpydocF at h
        dsimp only at h
        cases hsb : scanBackNl d.toArray (lfs.getD 0 - 1 - 1) with
        | error e => rw [hsb] at h; cases h
        | ok nls =>
          rw [hsb] at h
          simp only [ok_bind] at h
          split at h
          · cases hns : numScan (d.drop lf.toNat) lf.toNat none [] with
            | none => rw [hns] at h; left; cases h; rfl
            | some lta =>
              rw [hns] at h
              simp only at h
              rcases numScan_spec d _ lf.toNat none [] rfl lta hns with hc | ⟨q, hq, hq1, hq2, hq3, hq4⟩
              · cases hc
              · simp only [List.length_nil] at hq2
                have hq0 : 1 ≤ q := by omega
                rw [hq, Int.toNat_natCast, scanBackNlHit_at_nl d q hq0 hq4] at h
                simp only [ok_bind] at h
                cases h
                right
                refine ⟨q + 1, congrArg some (by omega), by omega, by omega, Or.inl ?_⟩
                simpa using hq4
          · left; cases h; rfl
      · cases h
        right
        refine ⟨p + 1, congrArg some (by omega), by omega, by omega, ?_⟩
        rcases h3 with h3 | h3
        · left; simpa using h3
        · right; exact h3

/-! ### the `while` loops, for every string -/

/-- `while idx != 0 and doc_str[idx] != "\n": idx -= 1` from any index inside the string: never raises, stops on the nearest
    newline at or before `idx0`, or at `0` -/
theorem loopA_spec (d : Str) : ∀ (idx0 : Nat), idx0 < d.length →
    ∃ (idx c : Nat), (loopA d.toArray).run (idx0 : Int) = ((idx : Int), .cond, c) ∧ idx ≤ idx0 ∧
      (idx = 0 ∨ d[idx]? = some '\n') ∧ ∀ j, idx < j → j ≤ idx0 → d[j]? ≠ some '\n' := by
  intro idx0
  induction idx0 with
  | zero =>
    intro _
    refine ⟨0, 1, ?_, by omega, Or.inl rfl, by intro j h1 h2; omega⟩
    rw [run_exitCond]
    simp [loopA]
  | succ k ih =>
    intro hk
    have h0 : (((k + 1 : Nat) : Int) == 0) = false := by simp only [beq_eq_false_iff_ne, ne_eq]; omega
    by_cases hnl : d[k + 1]? = some '\n'
    · refine ⟨k + 1, 1, ?_, by omega, Or.inr hnl, by intro j h1 h2; omega⟩
      rw [run_exitCond]
      simp only [loopA, h0, Bool.false_eq_true, if_false]
      rw [at?_nat, hnl]; simp
    · obtain ⟨idx, c, hrun, h1, h2, h3⟩ := ih (by omega)
      refine ⟨idx, c + 1, ?_, by omega, h2, ?_⟩
      · have hstep : (loopA d.toArray).step ((k + 1 : Nat) : Int) = .next ((k : Nat) : Int) := by
          simp only [loopA, h0, Bool.false_eq_true, if_false]
          rw [at?_nat, List.getElem?_eq_getElem hk]
          have hne : d[k + 1] ≠ '\n' := by
            intro e; apply hnl; rw [List.getElem?_eq_getElem hk, e]
          simp only [beq_iff_eq, hne, if_false]
          congr 1; omega
        rw [run_next _ _ _ hstep, hrun]
      · intro j hj1 hj2
        by_cases hj : j = k + 1
        · subst hj; exact hnl
        · exact h3 j hj1 (by omega)

/-- `while i < len(doc_str) and doc_str[i] != "\n": i += 1` from any index `≤ |d|`: never raises, ends in `[i, |d|]` -/
theorem loopB_spec (d : Str) : ∀ (m i : Nat), i + m = d.length →
    ∃ (r c : Nat), (loopB d.toArray).run (i : Int) = ((r : Int), .cond, c) ∧ i ≤ r ∧ r ≤ d.length := by
  intro m
  induction m with
  | zero =>
    intro i hi
    refine ⟨i, 1, ?_, by omega, by omega⟩
    rw [run_exitCond]
    simp only [loopB, n_eq]
    have : ¬ ((i : Int) < (d.length : Int)) := by omega
    simp only [this, if_false]
  | succ m ih =>
    intro i hi
    have hlt : i < d.length := by omega
    by_cases hnl : d[i] = '\n'
    · refine ⟨i, 1, ?_, by omega, by omega⟩
      rw [run_exitCond]
      simp only [loopB, n_eq, at?_nat, List.getElem?_eq_getElem hlt, hnl]
      have : ((i : Int) < (d.length : Int)) := by omega
      simp [this]
    · obtain ⟨r, c, hrun, h1, h2⟩ := ih (i + 1) (by omega)
      refine ⟨r, c + 1, ?_, by omega, h2⟩
      have hstep : (loopB d.toArray).step (i : Int) = .next ((i + 1 : Nat) : Int) := by
        simp only [loopB, n_eq, at?_nat, List.getElem?_eq_getElem hlt]
        have : ((i : Int) < (d.length : Int)) := by omega
        simp only [this, if_true, bne_iff_ne, ne_eq, hnl, not_false_eq_true]
        congr 1
      rw [run_next _ _ _ hstep, hrun]

theorem countUntilNl_le (l : Str) : countUntilNl l ≤ l.length := by
  unfold countUntilNl
  exact (List.takeWhile_sublist _).length_le

/-- the line loop of `_get_token_last_idx_if_no_next_token` never moves its answer beyond `|d| + 1` -/
theorem loopC_prevEnd_le (d : Str) (S0 : Nat) (h : S0 ≤ d.length + 1) :
    ((loopC d.toArray).run { lineStart := S0, lineEnd := S0, prevEnd := S0 }).1.prevEnd ≤ d.length + 1 := by
  have := run_invariant (loopC d.toArray)
    (fun st => st.prevEnd ≤ d.length + 1 ∧ st.lineStart ≤ st.lineEnd ∧ st.lineEnd ≤ st.lineStart + 1)
    (by
      intro st st' hinv hstep
      simp only [loopC] at hstep
      split at hstep
      · rename_i hlt
        injection hstep with hstep
        subst hstep
        simp only
        have hlt' : st.lineEnd < d.length := by simpa using hlt
        have hc : countUntilNl (sl d.toArray (some (st.lineStart : Int)) none) ≤ d.length - st.lineStart := by
          rw [sl_eq, slice_from_nat]
          have := countUntilNl_le (d.drop st.lineStart)
          simpa using this
        refine ⟨?_, by omega, by omega⟩
        split
        · exact hinv.1
        · split
          · split
            · simp only; omega
            · exact hinv.1
          · split
            · simp only; omega
            · exact hinv.1
      · cases hstep)
    (by intro st st' _ h; simp only [loopC] at h; split at h <;> cases h)
    (by intro st _ h; simp only [loopC] at h; split at h <;> cases h)
    { lineStart := S0, lineEnd := S0, prevEnd := S0 } ⟨h, Nat.le_refl _, by simp⟩
  exact this.1.1

/-! ### lines by position -/

/-- the index `countUntilNl l` holds a newline unless it is the end of the text -/
theorem countUntilNl_nl (l : Str) (h : countUntilNl l < l.length) : l[countUntilNl l]? = some '\n' := by
  induction l with
  | nil => simp at h
  | cons c cs ih =>
    unfold countUntilNl at h ⊢
    by_cases hc : c = '\n'
    · subst hc; simp
    · simp only [List.takeWhile_cons, bne_iff_ne, ne_eq, hc, not_false_eq_true, if_true, List.length_cons] at h ⊢
      rw [List.getElem?_cons_succ]
      exact ih (by unfold countUntilNl; omega)

/-- … and no newline comes before it -/
theorem countUntilNl_min (l : Str) (j : Nat) (h : l[j]? = some '\n') : countUntilNl l ≤ j := by
  induction l generalizing j with
  | nil => simp at h
  | cons c cs ih =>
    unfold countUntilNl
    by_cases hc : c = '\n'
    · subst hc; simp
    · cases j with
      | zero => simp only [List.getElem?_cons_zero, Option.some.injEq] at h; exact absurd h hc
      | succ j =>
        simp only [List.takeWhile_cons, bne_iff_ne, ne_eq, hc, not_false_eq_true, if_true, List.length_cons]
        rw [List.getElem?_cons_succ] at h
        have := ih j h
        unfold countUntilNl at this; omega

/-- first newline at or after position `k` (or `|d|`) -/
def nlFrom (d : Str) (k : Nat) : Nat := k + countUntilNl (d.drop k)

theorem nlFrom_le (d : Str) (k : Nat) (hk : k ≤ d.length) : nlFrom d k ≤ d.length := by
  unfold nlFrom
  have := countUntilNl_le (d.drop k)
  simp only [List.length_drop] at this; omega

theorem nlFrom_nl (d : Str) (k : Nat) (h : nlFrom d k < d.length) : d[nlFrom d k]? = some '\n' := by
  unfold nlFrom at h ⊢
  have := countUntilNl_nl (d.drop k) (by simp only [List.length_drop]; omega)
  rwa [List.getElem?_drop] at this

theorem nlFrom_min (d : Str) (k q : Nat) (hq : k ≤ q) (h : d[q]? = some '\n') : nlFrom d k ≤ q := by
  unfold nlFrom
  have : (d.drop k)[q - k]? = some '\n' := by
    rw [List.getElem?_drop]
    have : k + (q - k) = q := by omega
    rw [this]; exact h
  have := countUntilNl_min _ _ this
  omega

/-- the text of the line that starts at index `L` (up to, not including, the next newline) -/
def lineAt (d : Str) (L : Nat) : Str := (d.drop L).take (countUntilNl (d.drop L))

/-- `"Raises:"` as a character list (evaluates under `decide`) -/
def raisesLit : Str := ['R', 'a', 'i', 's', 'e', 's', ':']
theorem raisesLit_eq : "Raises:".toList = raisesLit := by decide

/-! ### `_get_token_last_idx_if_no_next_token` -/

/-- the three exits of `_get_token_last_idx_if_no_next_token`, for a line start `L ≤ |d|`: `None`; the line at `L` is a
    non-empty run of dashes and the answer lies in `[end of that line + 2, |d| + 2]`; or the line at `L` is the heading
    `Raises:` (after indentation) and the answer is `L - 1` -/
theorem noNext_spec (d : Str) (L : Nat) (hL : L ≤ d.length) :
    (lastIdxIfNoNextTokenCount d.toArray (L : Int)).1 = none ∨
    (∃ v : Int, (lastIdxIfNoNextTokenCount d.toArray (L : Int)).1 = some v ∧ L < nlFrom d L ∧ (nlFrom d L : Int) + 2 ≤ v
        ∧ v ≤ (d.length : Int) + 2 ∧ allDashes (lineAt d L) = true) ∨
    ((lastIdxIfNoNextTokenCount d.toArray (L : Int)).1 = some ((L : Int) - 1) ∧ lstrip (lineAt d L) = raisesLit) := by
  unfold lastIdxIfNoNextTokenCount
  simp only [sl_eq, slice_from_nat]
  have hcast : (L : Int) + ((countUntilNl (d.drop L) : Nat) : Int) = ((nlFrom d L : Nat) : Int) := by
    unfold nlFrom; omega
  rw [hcast, slice_mid_nat]
  have hsub : nlFrom d L - L = countUntilNl (d.drop L) := by unfold nlFrom; omega
  rw [hsub]
  have hle := nlFrom_le d L hL
  split
  · rename_i hd
    right; left
    simp only [Bool.and_eq_true, Bool.not_eq_true', List.isEmpty_eq_false_iff] at hd
    have hne := hd.1
    have hc : 0 < countUntilNl (d.drop L) := by
      rcases Nat.eq_zero_or_pos (countUntilNl (d.drop L)) with h0 | h0
      · rw [h0] at hne; simp at hne
      · exact h0
    have hstart : (((nlFrom d L : Nat) : Int) + 1).toNat = nlFrom d L + 1 := by omega
    rw [hstart]
    refine ⟨_, rfl, by unfold nlFrom; omega, ?_, ?_, hd.2⟩
    · have := loopC_prevEnd_ge d.toArray (nlFrom d L + 1) (cStart (nlFrom d L + 1)) (Nat.le_refl _) (Nat.le_refl _)
      unfold cStart at this
      omega
    · have := loopC_prevEnd_le d (nlFrom d L + 1) (by omega)
      omega
  · split
    · rename_i hr
      right; right
      refine ⟨rfl, ?_⟩
      rw [← raisesLit_eq]
      exact beq_iff_eq.mp hr
    · left; rfl

/-! ### `_get_end_of_last_found`, exactly, when its numpydoc exit is not taken -/

theorem countUntilNl_cons_ne (c : Char) (cs : Str) (h : c ≠ '\n') : countUntilNl (c :: cs) = countUntilNl cs + 1 := by
  unfold countUntilNl
  simp only [List.takeWhile_cons, bne_iff_ne, ne_eq, h, not_false_eq_true, if_true, List.length_cons]

theorem countUntilNl_cons_nl (cs : Str) : countUntilNl ('\n' :: cs) = 0 := by
  unfold countUntilNl; simp

theorem endScan_eq (d : Str) : ∀ (rem : Str) (k : Nat) (e : Option Int), d.drop k = rem → rem ≠ [] →
    endScan rem k e = some ((min (nlFrom d k) (d.length - 1) : Nat) : Int) := by
  intro rem
  induction rem with
  | nil => intro k e _ h; exact absurd rfl h
  | cons c cs ih =>
    intro k e h _
    have hd := drop_succ_of_drop d k c cs h
    have hc : d[k]? = some c := by rw [← List.head?_drop, h]; rfl
    have hklt : k < d.length := (List.getElem?_eq_some_iff.mp hc).1
    simp only [endScan]
    by_cases hnl : (c == '\n') = true
    · have hcn : c = '\n' := by simpa using hnl
      simp only [hnl, if_true]
      have : nlFrom d k = k := by unfold nlFrom; rw [h, hcn, countUntilNl_cons_nl]; rfl
      rw [this]
      congr 2; omega
    · simp only [hnl, Bool.false_eq_true, if_false]
      have hcn : c ≠ '\n' := by simpa using hnl
      have hnk : nlFrom d k = nlFrom d (k + 1) := by
        unfold nlFrom; rw [h, hd, countUntilNl_cons_ne c cs hcn]; omega
      cases cs with
      | nil =>
        simp only [endScan]
        have hl := congrArg List.length hd
        simp only [List.length_drop, List.length_nil] at hl
        have : nlFrom d k = k + 1 := by unfold nlFrom; rw [h, countUntilNl_cons_ne c [] hcn]; rfl
        rw [this]
        congr 2; omega
      | cons c' cs' =>
        rw [ih (k + 1) _ hd (by simp), hnk]

/-- when the numpydoc exit is not taken, `_get_end_of_last_found` answers one past the first newline at or after
    `last_found` (or `|d|` when there is none) -/
theorem endOfLastFound_nonnumpy (d : Str) (lf : Nat) (lfs : Option Int) (fmt : Style) (lfe : Option Int)
    (hnb : (fmt == .numpydoc && allDashes (slice d lfs (some (lf : Int)))) = false)
    (h : endOfLastFound d.toArray (lf : Int) lfs fmt = .ok lfe) :
    lfe = some ((min (nlFrom d lf) (d.length - 1) + 1 : Nat) : Int) := by
  rw [endOfLastFound_eq_F] at h
  unfold endOfLastFoundF at h
  simp only [Int.toNat_natCast] at h
  by_cases hne : d.drop lf = []
  · rw [hne] at h; simp only [endScan] at h; cases h
  · rw [endScan_eq d _ lf none rfl hne] at h
    simp only [hnb, Bool.false_eq_true, if_false] at h
    injection h with h
    rw [← h]
    congr 1

/-- the hypothesis of the *absorbed* exit: `_get_end_of_last_found` does not take its numpydoc exit, and the line after the
    line of the last token word starts with white space (it is blank or indented) -/
def AbsorbHyp (d : Str) (lf : Nat) (lfs : Option Int) : Prop :=
  (deriveFormat d.toArray == .numpydoc && allDashes (slice d lfs (some (lf : Int)))) = false
    ∧ leadingWs (d.drop (nlFrom d lf + 1)) ≠ 0

/-- under `AbsorbHyp` the backward `while` of `_get_token_last_idx` starts at the last character of the string -/
theorem findEnd_absorbed (d : Str) (lf : Nat) (lfs lfe : Option Int) (hlf : lf < d.length) (ha : AbsorbHyp d lf lfs)
    (h : endOfLastFound d.toArray (lf : Int) lfs (deriveFormat d.toArray) = .ok lfe) :
    findEndOfArgsReturns d.toArray lfe = (d.length : Int) - 1 := by
  have hlfe := endOfLastFound_nonnumpy d lf lfs _ lfe ha.1 h
  have hle := nlFrom_le d lf (by omega)
  have hmin : min (nlFrom d lf) (d.length - 1) = nlFrom d lf := by
    rcases Nat.lt_or_ge (nlFrom d lf) d.length with hlt | hge
    · omega
    · exfalso
      apply ha.2
      rw [List.drop_of_length_le (by omega)]; rfl
  rw [hlfe, hmin]
  exact findEnd_ws d _ ha.2

/-! ### `_get_token_last_idx`: which exits exist, for every string -/

theorem tokenLastIdx_none (d : Str) (h1 : lastDocStrToken d.toArray = none) : tokenLastIdx d.toArray = .ok (-1) := by
  unfold tokenLastIdx tokenLastIdxCount
  rw [h1]; rfl

theorem tokenLastIdx_err2 (d : Str) (lf : Int) (e : String) (h1 : lastDocStrToken d.toArray = some lf)
    (h2 : startOfLastFound d.toArray lf = .error e) : tokenLastIdx d.toArray = .error e := by
  unfold tokenLastIdx tokenLastIdxCount
  simp only [h1, h2]; rfl

theorem tokenLastIdx_err3 (d : Str) (lf : Int) (lfs : Option Int) (e : String) (h1 : lastDocStrToken d.toArray = some lf)
    (h2 : startOfLastFound d.toArray lf = .ok lfs)
    (h3 : endOfLastFound d.toArray lf lfs (deriveFormat d.toArray) = .error e) : tokenLastIdx d.toArray = .error e := by
  unfold tokenLastIdx tokenLastIdxCount
  simp only [h1, h2, ok_bind, h3]; rfl

/-- where the backward `while` of `_get_token_last_idx` starts: inside the string; at `|d| - 1`, or on a newline at or
    after the last token -/
theorem findEnd_spec (d : Str) (lf : Nat) (lfe : Option Int) (hlf : lf < d.length)
    (h : lfe = none ∨ ∃ e : Nat, lfe = some (e : Int) ∧ (lf : Int) < e ∧ e ≤ d.length ∧ (d[e - 1]? = some '\n' ∨ e = d.length)) :
    ∃ idx0 : Nat, findEndOfArgsReturns d.toArray lfe = (idx0 : Int) ∧ idx0 < d.length ∧
      (idx0 + 1 = d.length ∨ (d[idx0]? = some '\n' ∧ lf ≤ idx0)) := by
  rcases h with h | ⟨e, he, h1, h2, h3⟩
  · subst h
    refine ⟨d.length - 1, ?_, by omega, Or.inl (by omega)⟩
    unfold findEndOfArgsReturns; simp only [n_eq]; omega
  · subst he
    by_cases hws : leadingWs (d.drop e) = 0
    · rw [findEnd_ns d e hws]
      refine ⟨e - 1, by omega, by omega, ?_⟩
      rcases h3 with h3 | h3
      · right; exact ⟨h3, by omega⟩
      · left; omega
    · rw [findEnd_ws d e hws]
      exact ⟨d.length - 1, by omega, by omega, Or.inl (by omega)⟩

/-- **The exits of `_get_token_last_idx` (every string on which it returns).**  Either no token word exists and the answer is
    `-1`; or, with `lf` the index of the last token word and `L` the line start `_get_start_of_last_found` computes
    (`0` for `None`), the answer `l` is one of

    * (*next line / absorbed*) at least some index `started` that is beyond the line of `lf` or beyond every newline of
      the string, and at most `|d|`;
    * (*dashes*) from the line loop of `_get_token_last_idx_if_no_next_token`: beyond the line of `lf` by two, at most `|d| + 2`;
    * (*`Raises:` short-circuit*) `L - 1`, the line at `L` being the heading `Raises:`. -/
theorem tokenLastIdx_cases (d : Str) (l : Int) (h : tokenLastIdx d.toArray = .ok l) :
    (lastDocStrToken d.toArray = none ∧ l = -1) ∨
    ∃ (lf L : Nat) (lfs : Option Int), lastDocStrToken d.toArray = some (lf : Int) ∧ lf < d.length
      ∧ startOfLastFound d.toArray lf = .ok lfs ∧ lfs.getD 0 = (L : Int) ∧ L ≤ lf ∧
      ((∃ started : Nat, (started : Int) ≤ l ∧ l ≤ d.length
          ∧ (nlFrom d lf + 1 ≤ started ∨ ∀ q, d[q]? = some '\n' → q < started)
          ∧ (AbsorbHyp d lf lfs → ∀ q, d[q]? = some '\n' → q < started))
       ∨ ((nlFrom d lf : Int) + 2 ≤ l ∧ l ≤ (d.length : Int) + 2 ∧ L < nlFrom d L ∧ allDashes (lineAt d L) = true)
       ∨ (l = (L : Int) - 1 ∧ lstrip (lineAt d L) = raisesLit)) := by
  cases h1 : lastDocStrToken d.toArray with
  | none =>
    left
    rw [tokenLastIdx_none d h1] at h
    cases h; exact ⟨rfl, rfl⟩
  | some lfI =>
    right
    have h0 := lastDocStrToken_nonneg d lfI h1
    obtain ⟨lf, rfl⟩ : ∃ lf : Nat, lfI = (lf : Int) := ⟨lfI.toNat, by omega⟩
    cases h2 : startOfLastFound d.toArray (lf : Int) with
    | error e => rw [tokenLastIdx_err2 d _ e h1 h2] at h; cases h
    | ok lfs =>
      cases h3 : endOfLastFound d.toArray (lf : Int) lfs (deriveFormat d.toArray) with
      | error e => rw [tokenLastIdx_err3 d _ lfs e h1 h2 h3] at h; cases h
      | ok lfe =>
        obtain ⟨hlfn, hlfe⟩ := endOfLastFound_spec d lf lfs _ lfe h0 h3
        have hlfn' : lf < d.length := by omega
        -- the line start
        obtain ⟨L, hL, hLle, hLnl⟩ : ∃ L : Nat, lfs.getD 0 = (L : Int) ∧ L ≤ lf ∧
            (L < nlFrom d L → lf ≤ nlFrom d L) := by
          unfold startOfLastFound at h2
          rcases scanBackNl_spec d _ lfs h2 with ⟨hhi, hr⟩ | ⟨hhi, w, hr, hw1, hw2, hw3⟩
          · subst hr
            refine ⟨0, rfl, by omega, ?_⟩
            intro hpos; omega
          · subst hr
            refine ⟨w, rfl, by omega, ?_⟩
            intro _
            rcases Nat.lt_or_ge (nlFrom d w) lf with hlt | hge
            · exfalso
              have hnl := nlFrom_nl d w (by omega)
              exact hw3 (nlFrom d w) (by unfold nlFrom; omega) (by omega) hnl
            · exact hge
        refine ⟨lf, L, lfs, rfl, hlfn', h2, hL, hLle, ?_⟩
        -- the backward loop
        obtain ⟨idx0, hidx0, hidx0lt, hidx0c⟩ := findEnd_spec d lf lfe hlfn' hlfe
        obtain ⟨idx, ca, hrun, hidxle, hidxnl, hidxmax⟩ := loopA_spec d idx0 hidx0lt
        rw [← hidx0] at hrun
        have hpipe := tokenLastIdx_pipeline d lf lfs lfe idx ca h1 h2 h3 hrun
        rw [hpipe] at h
        have e1 : ((idx : Nat) : Int) + 1 = ((idx + 1 : Nat) : Int) := by omega
        simp only [e1, slice_from_nat] at h
        have hws := leadingWs_le (d.drop (idx + 1))
        simp only [List.length_drop] at hws
        obtain ⟨st, hst⟩ : ∃ st : Nat, st = leadingWs (d.drop (idx + 1)) + idx + 1 := ⟨_, rfl⟩
        have e2 : ((leadingWs (d.drop (idx + 1)) : Nat) : Int) + (idx : Int) + 1 = ((st : Nat) : Int) := by omega
        simp only [e2, slice_from_nat] at h
        have hstn : st ≤ d.length := by omega
        -- `started` is beyond the line of `lf`, or beyond every newline
        have hstP : nlFrom d lf + 1 ≤ st ∨ ∀ q, d[q]? = some '\n' → q < st := by
          rcases hidx0c with hc | ⟨hc1, hc2⟩
          · right
            intro q hq
            have hqlt : q < d.length := (List.getElem?_eq_some_iff.mp hq).1
            rcases Nat.lt_or_ge idx q with hlt | hge
            · exact absurd hq (hidxmax q hlt (by omega))
            · omega
          · left
            have hidx : idx = idx0 := by
              rcases Nat.lt_or_ge idx idx0 with hlt | hge
              · exact absurd hc1 (hidxmax idx0 hlt (Nat.le_refl _))
              · omega
            have := nlFrom_min d lf idx0 hc2 hc1
            omega
        have hstA : AbsorbHyp d lf lfs → ∀ q, d[q]? = some '\n' → q < st := by
          intro ha q hq
          have hqlt : q < d.length := (List.getElem?_eq_some_iff.mp hq).1
          have hfe := findEnd_absorbed d lf lfs lfe hlfn' ha h3
          have hi0 : idx0 + 1 = d.length := by omega
          rcases Nat.lt_or_ge idx q with hlt | hge
          · exact absurd hq (hidxmax q hlt (by omega))
          · omega
        rw [hL] at h
        -- the answer of `_get_token_last_idx_if_no_next_token`
        have hnn := noNext_spec d L (by omega)
        have hno : ∀ (dflt : Int), (dflt = (st : Int)) →
            (match (lastIdxIfNoNextTokenCount d.toArray (L : Int)).1 with | some v => (Except.ok v : Except String Int) | none => Except.ok dflt) = Except.ok l →
            ((∃ started : Nat, (started : Int) ≤ l ∧ l ≤ d.length
                ∧ (nlFrom d lf + 1 ≤ started ∨ ∀ q, d[q]? = some '\n' → q < started)
                ∧ (AbsorbHyp d lf lfs → ∀ q, d[q]? = some '\n' → q < started))
             ∨ ((nlFrom d lf : Int) + 2 ≤ l ∧ l ≤ (d.length : Int) + 2 ∧ L < nlFrom d L ∧ allDashes (lineAt d L) = true)
             ∨ (l = (L : Int) - 1 ∧ lstrip (lineAt d L) = raisesLit)) := by
          intro dflt hdf hm
          rcases hnn with hn | ⟨v, hv, hv0, hv1, hv2, hv3⟩ | ⟨hv, hr⟩
          · rw [hn] at hm
            simp only at hm
            injection hm with hm
            left
            exact ⟨st, by omega, by omega, hstP, hstA⟩
          · rw [hv] at hm
            simp only at hm
            injection hm with hm
            right; left
            have := hLnl hv0
            have hmin : nlFrom d lf ≤ nlFrom d L := by
              rcases Nat.lt_or_ge (nlFrom d L) d.length with hlt | hge
              · exact nlFrom_min d lf _ this (nlFrom_nl d L hlt)
              · have := nlFrom_le d lf (by omega); omega
            exact ⟨by omega, by omega, hv0, hv3⟩
          · rw [hv] at hm
            simp only at hm
            injection hm with hm
            right; right
            exact ⟨hm.symm, hr⟩
        split at h
        · rename_i htok
          obtain ⟨c, cs, hcs, _⟩ := tok_head_ns _ htok
          have hstlt : st < d.length := by
            rcases Nat.lt_or_ge st d.length with hlt | hge
            · exact hlt
            · rw [List.drop_of_length_le hge] at hcs; cases hcs
          obtain ⟨r, cb, hrb, hr1, hr2⟩ := loopB_spec d (d.length - (st + 1)) (st + 1) (by omega)
          have e3 : ((st : Nat) : Int) + 1 = ((st + 1 : Nat) : Int) := by omega
          simp only [e3, hrb] at h
          have hce : (Exit.cond == Exit.raise) = false := rfl
          have hne : (((st : Nat) : Int) == ((r : Nat) : Int)) = false := by
            simp only [beq_eq_false_iff_ne, ne_eq]; omega
          simp only [hce, Bool.false_eq_true, if_false, hne] at h
          injection h with h
          left
          exact ⟨st, by omega, by omega, hstP, hstA⟩
        · exact hno _ rfl h

/-! ### index safety: when `_get_token_last_idx` raises -/

theorem endScan_none : ∀ (rem : Str) (k : Nat) (e : Option Int), endScan rem k e = none → rem = [] ∧ e = none := by
  intro rem
  induction rem with
  | nil => intro k e h; exact ⟨rfl, h⟩
  | cons c cs ih =>
    intro k e h
    simp only [endScan] at h
    split at h
    · cases h
    · have := (ih _ _ h).2; cases this

theorem scanBackNlHit_total (d : Str) : ∀ (k : Nat), k < d.length → ∃ r, scanBackNlHit d.toArray k = .ok r := by
  intro k
  induction k with
  | zero => intro _; exact ⟨none, rfl⟩
  | succ k ih =>
    intro hk
    rw [scanBackNlHit, at?_nat, List.getElem?_eq_getElem hk]
    simp only
    split
    · exact ⟨_, rfl⟩
    · exact ih (by omega)

theorem numScan_lt (d : Str) : ∀ (rem : Str) (k : Nat) (lt : Option Int) (stack : Str), d.drop k = rem →
    (∀ v, lt = some v → 0 ≤ v ∧ v < d.length) → ∀ r, numScan rem k lt stack = some r → 0 ≤ r ∧ r < d.length := by
  intro rem k lt stack h hlt r hr
  rcases numScan_spec d rem k lt stack h r hr with h1 | ⟨p, hp, _, _, h3, _⟩
  · exact hlt r h1
  · omega

/-- `_get_end_of_last_found` returns whenever `last_found` is inside the string -/
theorem endOfLastFound_total (d : Str) (lf : Nat) (lfs : Option Int) (fmt : Style) (hlf : lf < d.length)
    (hlfs : lfs.getD 0 ≤ lf) : ∃ lfe, endOfLastFound d.toArray (lf : Int) lfs fmt = .ok lfe := by
  rw [endOfLastFound_eq_F]
  unfold endOfLastFoundF
  cases hes : endScan (d.drop (lf : Int).toNat) (lf : Int).toNat none with
  | none =>
    have := (endScan_none _ _ _ hes).1
    have hl := congrArg List.length this
    simp only [Int.toNat_natCast, List.length_drop, List.length_nil] at hl
    omega
  | some v =>
    simp only
    split
    · unfold endOfLastFoundNumpydocF
      dsimp only
      obtain ⟨nls, hnls⟩ := scanBackNl_total d (lfs.getD 0 - 1 - 1) (by omega)
      rw [hnls]
      simp only [ok_bind]
      split
      · cases hns : numScan (d.drop (lf : Int).toNat) (lf : Int).toNat none [] with
        | none => exact ⟨_, rfl⟩
        | some lta =>
          simp only
          have hb := numScan_lt d _ (lf : Int).toNat none [] rfl (by intro v hv; cases hv) lta hns
          obtain ⟨r, hr⟩ := scanBackNlHit_total d lta.toNat (by omega)
          rw [hr]
          simp only [ok_bind]
          cases r <;> exact ⟨_, rfl⟩
      · exact ⟨_, rfl⟩
    · exact ⟨_, rfl⟩

/-- **`_get_token_last_idx` returns whenever the last token index lies inside the string** -/
theorem tokenLastIdx_total (d : Str) (lf : Nat) (h1 : lastDocStrToken d.toArray = some (lf : Int)) (hlf : lf < d.length) :
    ∃ l, tokenLastIdx d.toArray = .ok l := by
  obtain ⟨lfs, h2⟩ := startOfLastFound_total d lf (by omega)
  have hlfs : lfs.getD 0 ≤ lf := by
    have h2' := h2
    unfold startOfLastFound at h2'
    rcases scanBackNl_spec d _ lfs h2' with ⟨_, hr⟩ | ⟨_, w, hr, _, hw2, _⟩
    · subst hr; simp
    · subst hr; simp only [Option.getD_some]; omega
  obtain ⟨lfe, h3⟩ := endOfLastFound_total d lf lfs (deriveFormat d.toArray) hlf hlfs
  obtain ⟨_, hlfe⟩ := endOfLastFound_spec d lf lfs _ lfe (by omega) h3
  obtain ⟨idx0, hidx0, hidx0lt, _⟩ := findEnd_spec d lf lfe hlf hlfe
  obtain ⟨idx, ca, hrun, _, _, _⟩ := loopA_spec d idx0 hidx0lt
  rw [← hidx0] at hrun
  rw [tokenLastIdx_pipeline d lf lfs lfe idx ca h1 h2 h3 hrun]
  have e1 : ((idx : Nat) : Int) + 1 = ((idx + 1 : Nat) : Int) := by omega
  simp only [e1, slice_from_nat]
  have hws := leadingWs_le (d.drop (idx + 1))
  simp only [List.length_drop] at hws
  obtain ⟨st, hst⟩ : ∃ st : Nat, st = leadingWs (d.drop (idx + 1)) + idx + 1 := ⟨_, rfl⟩
  have e2 : ((leadingWs (d.drop (idx + 1)) : Nat) : Int) + (idx : Int) + 1 = ((st : Nat) : Int) := by omega
  simp only [e2, slice_from_nat]
  split
  · rename_i htok
    obtain ⟨c, cs, hcs, _⟩ := tok_head_ns _ htok
    have hstlt : st < d.length := by
      rcases Nat.lt_or_ge st d.length with hlt | hge
      · exact hlt
      · rw [List.drop_of_length_le hge] at hcs; cases hcs
    obtain ⟨r, cb, hrb, hr1, hr2⟩ := loopB_spec d (d.length - (st + 1)) (st + 1) (by omega)
    have e3 : ((st : Nat) : Int) + 1 = ((st + 1 : Nat) : Int) := by omega
    simp only [e3, hrb]
    have hce : (Exit.cond == Exit.raise) = false := rfl
    simp only [hce, Bool.false_eq_true, if_false]
    split
    · split <;> exact ⟨_, rfl⟩
    · exact ⟨_, rfl⟩
  · split <;> exact ⟨_, rfl⟩

theorem lastDocStrToken_nil : lastDocStrToken ([] : Str).toArray = none := by
  rw [lastDocStrToken_eq]; rfl

/-- `last_found == len(doc_str)`: the `for` of `_get_end_of_last_found` has an empty range, `None + 1` is a `TypeError` -/
theorem tokenLastIdx_typeError (d : Str) (h1 : lastDocStrToken d.toArray = some (d.length : Int)) :
    tokenLastIdx d.toArray = .error "TypeError" := by
  obtain ⟨lfs, h2⟩ := startOfLastFound_total d d.length (by omega)
  apply tokenLastIdx_err3 d _ lfs _ h1 h2
  rw [endOfLastFound_eq_F]
  unfold endOfLastFoundF
  simp [endScan]

/-- `last_found > len(doc_str)`: `_get_start_of_last_found` reads `doc_str[last_found - 1]`, an `IndexError` -/
theorem tokenLastIdx_indexError (d : Str) (lf : Int) (h1 : lastDocStrToken d.toArray = some lf) (h : (d.length : Int) < lf) :
    tokenLastIdx d.toArray = .error "IndexError" := by
  apply tokenLastIdx_err2 d lf _ h1
  have hne : d ≠ [] := by intro e; subst e; rw [lastDocStrToken_nil] at h1; cases h1
  have hpos : 0 < d.length := List.length_pos_iff.mpr hne
  unfold startOfLastFound scanBackNl
  have : ¬ (lf - 1 ≤ 0) := by omega
  simp only [this, if_false]
  obtain ⟨k, hk⟩ : ∃ k, (lf - 1).toNat = k + 1 := ⟨(lf - 1).toNat - 1, by omega⟩
  rw [hk, scanBackNlAux, at?_nat]
  have : d[k + 1]? = none := by rw [List.getElem?_eq_none_iff]; omega
  rw [this]

/-- **Index safety of `_get_token_last_idx` (every string):** it raises exactly when the index computed by
    `_last_doc_str_token` is not inside the string -/
theorem tokenLastIdx_raises_iff (d : Str) :
    (∃ e, tokenLastIdx d.toArray = .error e) ↔ ∃ lf : Int, lastDocStrToken d.toArray = some lf ∧ (d.length : Int) ≤ lf := by
  constructor
  · rintro ⟨e, he⟩
    cases h1 : lastDocStrToken d.toArray with
    | none => rw [tokenLastIdx_none d h1] at he; cases he
    | some lfI =>
      refine ⟨lfI, rfl, ?_⟩
      have h0 := lastDocStrToken_nonneg d lfI h1
      rcases Int.lt_or_le lfI d.length with hlt | hge
      · obtain ⟨lf, rfl⟩ : ∃ lf : Nat, lfI = (lf : Int) := ⟨lfI.toNat, by omega⟩
        obtain ⟨l, hl⟩ := tokenLastIdx_total d lf h1 (by omega)
        rw [hl] at he; cases he
      · exact hge
  · rintro ⟨lf, h1, hge⟩
    rcases Int.lt_or_eq_of_le hge with hlt | heq
    · exact ⟨_, tokenLastIdx_indexError d lf h1 hlt⟩
    · subst heq; exact ⟨_, tokenLastIdx_typeError d h1⟩

/-! ### a docstring without `-` never makes `_get_token_last_idx` raise -/

theorem allDashes_false_of_no_dash (stack : Str) (hne : stack.isEmpty = false) (h : ∀ c ∈ stack, c ≠ '-') :
    allDashes stack = false := by
  cases stack with
  | nil => cases hne
  | cons c cs =>
    have hc := h c List.mem_cons_self
    simp [allDashes, hc]

theorem tokScan_lt : ∀ (rem : Str) (i : Nat) (lf : Option Int) (pen stack : Str), (∀ c ∈ stack, c ≠ '-') → (∀ c ∈ rem, c ≠ '-') →
    (∀ v, lf = some v → v < ((i + rem.length : Nat) : Int)) → ∀ v, tokScan rem i lf pen stack = some v → v < ((i + rem.length : Nat) : Int) := by
  intro rem
  induction rem with
  | nil => intro i lf pen stack _ _ hlf v h; exact hlf v h
  | cons c cs ih =>
    intro i lf pen stack hst hrem hlf v h
    have hlen : i + (c :: cs).length = (i + 1) + cs.length := by simp only [List.length_cons]; omega
    rw [hlen] at hlf ⊢
    have hcs : ∀ x ∈ cs, x ≠ '-' := fun x hx => hrem x (List.mem_cons_of_mem _ hx)
    simp only [tokScan] at h
    split at h
    · split at h
      · exact ih (i + 1) lf pen stack hst hcs hlf v h
      · rename_i hne
        have hne' : stack.isEmpty = false := by simpa using hne
        rw [allDashes_false_of_no_dash stack hne' hst] at h
        simp only [Bool.false_eq_true, if_false] at h
        refine ih (i + 1) _ stack [] (by simp) hcs ?_ v h
        intro w hw
        split at hw
        · cases hw; omega
        · exact hlf w hw
    · refine ih (i + 1) lf pen (stack ++ [c]) ?_ hcs hlf v h
      intro x hx
      rcases List.mem_append.mp hx with hx | hx
      · exact hst x hx
      · simp only [List.mem_singleton] at hx; rw [hx]; exact hrem c List.mem_cons_self

theorem lastDocStrToken_lt_of_no_dash (d : Str) (h : '-' ∉ d) (lf : Int) (h1 : lastDocStrToken d.toArray = some lf) :
    lf < d.length := by
  rw [lastDocStrToken_eq] at h1
  have := tokScan_lt d 0 none [] [] (by simp) (fun c hc e => h (e ▸ hc)) (by intro v hv; cases hv) lf h1
  simpa using this

/-! ### the ordering condition -/

/-- index of the last token word (`_last_doc_str_token`, as a structural scan — equal to the model's loop by
    `DSS.lastDocStrToken_eq`) -/
def lastTok (d : Str) : Option Int := tokScan d 0 none [] []

/-- the line start computed by `_get_start_of_last_found` for the last token (`0` for `None`) -/
def lastTokLine (d : Str) (lf : Int) : Nat :=
  match startOfLastFound d.toArray lf with
  | .ok (some v) => v.toNat
  | _ => 0

/-- the line that starts at `L` is, after its indentation, exactly the heading `Raises:` -/
def raisesHeading (d : Str) (L : Nat) : Bool := lstrip (lineAt d L) == raisesLit

/-- the `Optional[int]` answer of `_get_start_of_last_found` for the last token -/
def lastTokLfs (d : Str) (lf : Int) : Option Int :=
  match startOfLastFound d.toArray lf with
  | .ok r => r
  | .error _ => none

/-- the line that starts at `L` is a non-empty run of dashes -/
def dashLine (d : Str) (L : Nat) : Bool := !(lineAt d L).isEmpty && allDashes (lineAt d L)

/-- clause A₁ (*near*): the first section line (`start`) begins no later than the line **after** the line of the last token word -/
def nearClause (d : Str) (lf : Int) : Bool := decide (startScan d d 0 [] ≤ ((nlFrom d lf.toNat + 1 : Nat) : Int))

/-- clause A₂ (*absorbed*): the line after the line of the last token word starts with white space (it is blank or
    indented); `_get_end_of_last_found` does not take its numpydoc exit (the format is not numpydoc, or the text between
    the line start and the last token is not made of dashes); and the line of the last token word is not a run of dashes -/
def absorbClause (d : Str) (lf : Int) : Bool :=
  !(deriveFormat d.toArray == .numpydoc && allDashes (slice d (lastTokLfs d lf) (some lf)))
    && leadingWs (d.drop (nlFrom d lf.toNat + 1)) != 0
    && !dashLine d (lastTokLine d lf)

/-- clause B: if the line of the last token word is the heading `Raises:`, the section starts on an earlier line (or that
    line is computed as index `0`, where the short-circuit answers `-1`) -/
def raisesClause (d : Str) (lf : Int) : Bool :=
  !raisesHeading d (lastTokLine d lf) || lastTokLine d lf == 0 || decide (startScan d d 0 [] < ((lastTokLine d lf : Nat) : Int))

/-- **`Ordered d`** (decidable, every string): no token word at all, or no section start at all, or (A₁ or A₂) and B -/
def Ordered (d : Str) : Bool :=
  match lastTok d with
  | none => true
  | some lf => startScan d d 0 [] == -1 || ((nearClause d lf || absorbClause d lf) && raisesClause d lf)

theorem lineAt_length (d : Str) (L : Nat) : (lineAt d L).length = nlFrom d L - L := by
  unfold lineAt nlFrom
  have := countUntilNl_le (d.drop L)
  rw [List.length_take]; omega

theorem dashLine_of (d : Str) (L : Nat) (h1 : L < nlFrom d L) (h2 : allDashes (lineAt d L) = true) : dashLine d L = true := by
  unfold dashLine
  have hl := lineAt_length d L
  have : (lineAt d L).isEmpty = false := by
    cases hx : lineAt d L with
    | nil => rw [hx] at hl; simp at hl; omega
    | cons _ _ => rfl
  rw [this, h2]; rfl

theorem lastTokLfs_of (d : Str) (lf : Int) (lfs : Option Int) (h2 : startOfLastFound d.toArray lf = .ok lfs) :
    lastTokLfs d lf = lfs := by
  unfold lastTokLfs; rw [h2]

theorem lastTokLine_of (d : Str) (lf : Int) (lfs : Option Int) (L : Nat) (h2 : startOfLastFound d.toArray lf = .ok lfs)
    (hL : lfs.getD 0 = (L : Int)) : lastTokLine d lf = L := by
  unfold lastTokLine
  rw [h2]
  cases lfs with
  | none => simp only [Option.getD_none] at hL ⊢; omega
  | some v => simp only [Option.getD_some] at hL ⊢; omega

theorem idxPair_inv (d : Str) (s l : Int) (h : idxPair d = .ok (s, l)) :
    s = tokenStartIdx d.toArray ∧ tokenLastIdx d.toArray = .ok l := by
  unfold idxPair at h
  dsimp only at h
  cases hl : tokenLastIdx d.toArray with
  | error e => rw [hl] at h; cases h
  | ok l' =>
    rw [hl] at h
    simp only [ok_bind] at h
    injection h with h
    simp only [Prod.mk.injEq] at h
    exact ⟨h.1.symm, by rw [h.2]⟩

end DSA
