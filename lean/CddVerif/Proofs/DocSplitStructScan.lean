import CddVerif.Proofs.DocSplitStructLoops
/-!
# C15 (structural split) — what the scans do on a line-structured string

* `startScan` (= `_get_token_start_idx`) skips every line that does not start with a token and stops at the first that does;
* `tokRun` (= the state of `_last_doc_str_token`) composes over `++`; `quiet` (no token event) and `lastEv` (kind of the last
  token event) are decidable summaries of a piece of text, with soundness lemmas;
* `endScan`, `scanBackNl`, `countUntilNl`, `leadingWs` on `pre ++ line ++ '\n' :: post`.
-/
namespace DSS
open Py DocUtils DocSplit Loop

/-- the lines, each terminated by a newline -/
def unlines (ls : List Str) : Str := (ls.map (· ++ ['\n'])).flatten

theorem unlines_cons (l : Str) (ls : List Str) : unlines (l :: ls) = l ++ '\n' :: unlines ls := by
  simp [unlines]

theorem unlines_nil : unlines [] = [] := rfl

theorem unlines_append (a b : List Str) : unlines (a ++ b) = unlines a ++ unlines b := by
  simp [unlines]

/-! ### small facts about `leadingWs`, `lstrip`, token sets -/

theorem drop_leadingWs (l : Str) : l.drop (leadingWs l) = lstrip l := by
  unfold leadingWs lstrip
  induction l with
  | nil => rfl
  | cons c cs ih =>
    by_cases h : isSpaceC c = true
    · simp only [List.takeWhile_cons, h, if_true, List.length_cons, List.drop_succ_cons, List.dropWhile_cons]
      exact ih
    · simp [h]

theorem leadingWs_ns (c : Char) (cs : Str) (h : isSpaceC c = false) : leadingWs (c :: cs) = 0 := by
  simp [leadingWs, h]

theorem leadingWs_nil : leadingWs [] = 0 := rfl

theorem leadingWs_le (l : Str) : leadingWs l ≤ l.length := by
  unfold leadingWs
  exact (List.takeWhile_sublist _).length_le

theorem any_isPrefix_append (set : List String) (a b : Str) (h : startsWithAny set a = true) : startsWithAny set (a ++ b) = true := by
  unfold startsWithAny at *
  rw [List.any_eq_true] at *
  obtain ⟨t, ht, hp⟩ := h
  refine ⟨t, ht, ?_⟩
  rw [List.isPrefixOf_iff_prefix] at *
  exact List.IsPrefix.trans hp (List.prefix_append _ _)

/-- a line that is exactly `Parameters` / `Returns` also starts with a token -/
theorem startsWith_of_inSet_numpy (l : Str) (h : inSet numpySet l = true) : startsWithAny tokensSet l = true := by
  unfold inSet at h
  rw [List.any_eq_true] at h
  obtain ⟨t, ht, he⟩ := h
  have hl : l = t.toList := (beq_iff_eq.mp he).symm
  unfold startsWithAny
  rw [List.any_eq_true]
  refine ⟨t, ?_, ?_⟩
  · simp only [tokensSet, List.mem_append]; exact Or.inr ht
  · rw [hl, List.isPrefixOf_iff_prefix]; exact List.prefix_refl _

/-! ### `startScan` on lines -/

theorem startScan_line (d line rest : Str) (k : Nat) (stack : Str) (h : '\n' ∉ line) :
    startScan d (line ++ rest) k stack = startScan d rest (k + line.length) (stack ++ line) := by
  induction line generalizing k stack with
  | nil => simp
  | cons c cs ih =>
    have hc : (c == '\n') = false := by
      simp only [beq_eq_false_iff_ne, ne_eq]; intro e; exact h (e ▸ List.mem_cons_self)
    have hcs : '\n' ∉ cs := fun m => h (List.mem_cons_of_mem _ m)
    simp only [List.cons_append, startScan, hc, Bool.false_eq_true, if_false]
    rw [ih (k + 1) (stack ++ [c]) hcs]
    simp only [List.length_cons, List.append_assoc, List.singleton_append]
    congr 1; omega

/-- a complete line that does not start (after indentation) with a token is skipped -/
theorem startScan_skip (d line rest : Str) (k : Nat) (h : '\n' ∉ line)
    (hno : startsWithAny tokensSet (lstrip line) = false) :
    startScan d (line ++ '\n' :: rest) k [] = startScan d rest (k + line.length + 1) [] := by
  rw [startScan_line d line _ k [] h]
  have hnum : inSet numpySet (lstrip line) = false := by
    cases hn : inSet numpySet (lstrip line) with
    | false => rfl
    | true => rw [startsWith_of_inSet_numpy _ hn] at hno; cases hno
  simp only [List.nil_append, startScan, beq_self_eq_true, if_true, drop_leadingWs, hnum, hno, Bool.false_eq_true, if_false]

/-- the header lines are skipped -/
theorem startScan_header (d : Str) (hs : List Str) (rest : Str) (k : Nat)
    (hh : ∀ l ∈ hs, '\n' ∉ l ∧ startsWithAny tokensSet (lstrip l) = false) :
    startScan d (unlines hs ++ rest) k [] = startScan d rest (k + (unlines hs).length) [] := by
  induction hs generalizing k with
  | nil => simp [unlines]
  | cons l ls ih =>
    have hl := hh l List.mem_cons_self
    rw [unlines_cons, List.append_assoc, List.cons_append, startScan_skip d l _ k hl.1 hl.2,
      ih _ (fun x hx => hh x (List.mem_cons_of_mem _ hx))]
    simp only [List.length_append, List.length_cons]
    congr 1; omega

/-- a complete line that starts with a token which is not exactly `Parameters` / `Returns` stops the scan at its first
    character (indentation included) -/
theorem startScan_fire (d line rest : Str) (k : Nat) (h : '\n' ∉ line)
    (hnum : inSet numpySet (lstrip line) = false) (htok : startsWithAny tokensSet (lstrip line) = true) :
    startScan d (line ++ '\n' :: rest) k [] = (k : Int) := by
  rw [startScan_line d line _ k [] h]
  simp only [List.nil_append, startScan, beq_self_eq_true, if_true, drop_leadingWs, hnum, htok, Bool.false_eq_true, if_false]
  omega

/-- the numpydoc case: the line is exactly `Parameters` / `Returns` and the look-ahead slice is all dashes -/
theorem startScan_fire_numpy (d line rest : Str) (k : Nat) (h : '\n' ∉ line)
    (hnum : inSet numpySet (lstrip line) = true)
    (hd : allDashes (slice d (some ((leadingWs line + (k + line.length) + 1 : Nat) : Int))
            (some (findAtI d ['\n'] (leadingWs line + (k + line.length) + 1)))) = true) :
    startScan d (line ++ '\n' :: rest) k [] = (k : Int) := by
  rw [startScan_line d line _ k [] h]
  simp only [List.nil_append, startScan, beq_self_eq_true, if_true, drop_leadingWs, hnum, hd]
  omega

/-! ### the state of `_last_doc_str_token` -/

/-- (last token found, previous word, current word) -/
abbrev TSt := Option Int × Str × Str

/-- one character of the `_last_doc_str_token` loop; `i` = its index -/
def tokStep (i : Nat) (σ : TSt) (c : Char) : TSt :=
  if isSpaceC c then
    if σ.2.2.isEmpty then σ
    else if allDashes σ.2.2 then
      (if inSet numpySet σ.2.1 then some ((i : Int) - σ.2.2.length + σ.2.1.length) else σ.1, σ.2.2, [])
    else (if inSet tokensSet σ.2.2 then some ((i : Int) - σ.2.2.length) else σ.1, σ.2.2, [])
  else (σ.1, σ.2.1, σ.2.2 ++ [c])

def tokRun : Str → Nat → TSt → TSt
  | [], _, σ => σ
  | c :: cs, i, σ => tokRun cs (i + 1) (tokStep i σ c)

theorem tokScan_eq_run (rem : Str) (i : Nat) (lf : Option Int) (pen stack : Str) :
    tokScan rem i lf pen stack = (tokRun rem i (lf, pen, stack)).1 := by
  induction rem generalizing i lf pen stack with
  | nil => rfl
  | cons c cs ih =>
    simp only [tokScan, tokRun, tokStep]
    by_cases hsp : isSpaceC c = true
    · simp only [hsp, if_true]
      by_cases he : stack.isEmpty = true
      · simp only [he, if_true]; exact ih _ _ _ _
      · simp only [he]
        by_cases h1 : allDashes stack = true
        · simp only [h1, if_true]; exact ih _ _ _ _
        · simp only [h1]; exact ih _ _ _ _
    · simp only [hsp]; exact ih _ _ _ _

theorem tokRun_append (a b : Str) (i : Nat) (σ : TSt) : tokRun (a ++ b) i σ = tokRun b (i + a.length) (tokRun a i σ) := by
  induction a generalizing i σ with
  | nil => rfl
  | cons c cs ih =>
    simp only [List.cons_append, tokRun, List.length_cons]
    rw [ih]; congr 1; omega

/-- after a white-space character the current word is empty -/
theorem tokStep_space_stack (i : Nat) (σ : TSt) (c : Char) (h : isSpaceC c = true) : (tokStep i σ c).2.2 = [] := by
  unfold tokStep
  simp only [h, if_true]
  by_cases he : σ.2.2.isEmpty = true
  · simp only [he, if_true]; exact List.isEmpty_iff.mp he
  · have he' : σ.2.2.isEmpty = false := by simpa using he
    simp only [he', Bool.false_eq_true, if_false]; split <;> rfl

theorem tokRun_snoc (a : Str) (c : Char) (i : Nat) (σ : TSt) :
    tokRun (a ++ [c]) i σ = tokStep (i + a.length) (tokRun a i σ) c := by
  rw [tokRun_append]; rfl

/-- text that is empty or ends in white space leaves the current word empty (if it was empty before) -/
theorem tokRun_stack_nil (a : Str) (i : Nat) (σ : TSt) (h0 : σ.2.2 = [])
    (ha : a = [] ∨ ∃ c, a.getLast? = some c ∧ isSpaceC c = true) : (tokRun a i σ).2.2 = [] := by
  rcases ha with ha | ⟨c, hc, hsp⟩
  · subst ha; exact h0
  · obtain ⟨a', rfl⟩ : ∃ a', a = a' ++ [c] := by
      rcases List.eq_nil_or_concat a with hn | ⟨a', c', hcc⟩
      · subst hn; cases hc
      · subst hcc; simp only [List.concat_eq_append, List.getLast?_append, List.getLast?_singleton, Option.some_or, Option.some.injEq] at hc
        exact ⟨a', by rw [hc]; simp⟩
    rw [tokRun_snoc]; exact tokStep_space_stack _ _ _ hsp

/-! ### `quiet`: a piece of text in which the walker finds no token -/

/-- no token event while scanning `txt`, starting with current word `stack` and previous word `pen?` (`none` = unknown:
    a first word made of dashes is then rejected, because it would be a token after `Parameters` / `Returns`) -/
def quiet : Option Str → Str → Str → Bool
  | _, _, [] => true
  | pen?, stack, c :: cs =>
    if isSpaceC c then
      if stack.isEmpty then quiet pen? stack cs
      else if allDashes stack then
        (match pen? with | none => false | some p => !inSet numpySet p) && quiet (some stack) [] cs
      else !inSet tokensSet stack && quiet (some stack) [] cs
    else quiet pen? (stack ++ [c]) cs

/-- `pen?` describes the real previous word -/
def Compat (pen? : Option Str) (pen : Str) : Prop := pen? = none ∨ pen? = some pen

theorem quiet_sound (txt : Str) (i : Nat) (lf : Option Int) (pen? : Option Str) (pen stack : Str)
    (hc : Compat pen? pen) (hq : quiet pen? stack txt = true) : (tokRun txt i (lf, pen, stack)).1 = lf := by
  induction txt generalizing i pen? pen stack with
  | nil => rfl
  | cons c cs ih =>
    simp only [tokRun, tokStep]
    simp only [quiet] at hq
    by_cases hsp : isSpaceC c = true
    · simp only [hsp, if_true] at hq ⊢
      by_cases he : stack.isEmpty = true
      · simp only [he, if_true] at hq ⊢; exact ih _ _ _ _ hc hq
      · simp only [he, Bool.false_eq_true, if_false] at hq ⊢
        by_cases h1 : allDashes stack = true
        · simp only [h1, if_true, Bool.and_eq_true] at hq ⊢
          have hp : inSet numpySet pen = false := by
            rcases hc with hc | hc
            · rw [hc] at hq; cases hq.1
            · rw [hc] at hq; simpa using hq.1
          simp only [hp, Bool.false_eq_true, if_false]
          exact ih _ _ _ _ (Or.inr rfl) hq.2
        · simp only [h1, Bool.false_eq_true, if_false, Bool.and_eq_true] at hq ⊢
          have hp : inSet tokensSet stack = false := by simpa using hq.1
          simp only [hp, Bool.false_eq_true, if_false]
          exact ih _ _ _ _ (Or.inr rfl) hq.2
    · simp only [hsp, Bool.false_eq_true, if_false] at hq ⊢
      exact ih _ _ _ _ hc hq

/-! ### `lastEv`: the kind of the last token event in a piece of text -/

inductive Ev | none | plain | bad
deriving DecidableEq, Repr

/-- kind of the last token event while scanning `txt`: `.plain` = a word that is a member of `TOKENS_SET` (its position is
    the start of that word), `.bad` = a dashes-after-`Parameters`/`Returns` event (its position is computed differently) -/
def lastEv : Option Str → Str → Str → Ev → Ev
  | _, _, [], e => e
  | pen?, stack, c :: cs, e =>
    if isSpaceC c then
      if stack.isEmpty then lastEv pen? stack cs e
      else if allDashes stack then
        lastEv (some stack) [] cs (match pen? with | none => .bad | some p => if inSet numpySet p then .bad else e)
      else lastEv (some stack) [] cs (if inSet tokensSet stack then .plain else e)
    else lastEv pen? (stack ++ [c]) cs e

/-- if the last event in `txt` is a plain token word, the walker's answer lies inside `txt` (strictly before its last
    character) -/
theorem lastEv_sound (lo hi : Nat) (txt : Str) (i : Nat) (lf : Option Int) (pen? : Option Str) (pen stack : Str) (e : Ev)
    (hc : Compat pen? pen) (hlo : lo + stack.length ≤ i) (hhi : i + txt.length ≤ hi)
    (hinv : e = .plain → ∃ v : Int, lf = some v ∧ (lo : Int) ≤ v ∧ v + 2 ≤ hi)
    (hp : lastEv pen? stack txt e = .plain) :
    ∃ v : Int, (tokRun txt i (lf, pen, stack)).1 = some v ∧ (lo : Int) ≤ v ∧ v + 2 ≤ hi := by
  induction txt generalizing i lf pen? pen stack e with
  | nil => exact hinv hp
  | cons c cs ih =>
    simp only [tokRun, tokStep]
    simp only [lastEv] at hp
    simp only [List.length_cons] at hhi
    by_cases hsp : isSpaceC c = true
    · simp only [hsp, if_true] at hp ⊢
      by_cases he : stack.isEmpty = true
      · simp only [he, if_true] at hp ⊢
        exact ih _ _ _ _ _ _ hc (by omega) (by omega) hinv hp
      · simp only [he, Bool.false_eq_true, if_false] at hp ⊢
        have hne : 0 < stack.length := by
          cases stack with
          | nil => simp at he
          | cons _ _ => simp
        by_cases h1 : allDashes stack = true
        · simp only [h1, if_true] at hp ⊢
          refine ih _ _ _ _ _ _ (Or.inr rfl) (by simp; omega) (by omega) ?_ hp
          intro hev
          rcases hc with hc | hc
          · rw [hc] at hev; cases hev
          · rw [hc] at hev
            by_cases hn : inSet numpySet pen = true
            · simp only [hn, if_true] at hev; cases hev
            · simp only [hn, Bool.false_eq_true, if_false] at hev ⊢
              exact hinv hev
        · simp only [h1, Bool.false_eq_true, if_false] at hp ⊢
          refine ih _ _ _ _ _ _ (Or.inr rfl) (by simp; omega) (by omega) ?_ hp
          intro hev
          by_cases ht : inSet tokensSet stack = true
          · simp only [ht, if_true]
            exact ⟨_, rfl, by omega, by omega⟩
          · simp only [ht, Bool.false_eq_true, if_false] at hev ⊢
            exact hinv hev
    · simp only [hsp, Bool.false_eq_true, if_false] at hp ⊢
      exact ih _ _ _ _ _ _ hc (by simp; omega) (by omega) hinv hp

theorem isSpaceC_nl : isSpaceC '\n' = true := by decide

/-- **`_last_doc_str_token` on `pre ++ M ++ post`**: if `pre` is empty or ends in white space, the last token event of `M`
    is a plain token word, `M` ends in white space (or nothing follows), and `post` is quiet, then the answer is the start
    of a word of `M` -/
theorem lastTok_struct (pre M post : Str)
    (hpre : pre = [] ∨ ∃ c, pre.getLast? = some c ∧ isSpaceC c = true)
    (hM : lastEv none [] M .none = .plain)
    (hMend : post = [] ∨ ∃ c, M.getLast? = some c ∧ isSpaceC c = true)
    (hq : quiet none [] post = true) :
    ∃ v : Int, lastDocStrToken (pre ++ M ++ post).toArray = some v ∧ (pre.length : Int) ≤ v ∧ v + 2 ≤ (pre.length + M.length : Nat) := by
  rw [lastDocStrToken_eq, tokScan_eq_run, List.append_assoc, tokRun_append, tokRun_append]
  have h1 : (tokRun pre 0 (none, [], [])).2.2 = [] := tokRun_stack_nil pre 0 _ rfl hpre
  generalize tokRun pre 0 (none, [], []) = σ1 at h1 ⊢
  obtain ⟨lf1, pen1, st1⟩ := σ1
  simp only at h1; subst h1
  obtain ⟨v, hv, hlo, hhi⟩ := lastEv_sound pre.length (pre.length + M.length) M (0 + pre.length) lf1 none pen1 [] .none
    (Or.inl rfl) (by simp) (by omega) (by intro h; cases h) hM
  refine ⟨v, ?_, hlo, hhi⟩
  rcases hMend with hp | hMend
  · subst hp; exact hv
  · have h2 : (tokRun M (0 + pre.length) (lf1, pen1, [])).2.2 = [] := tokRun_stack_nil M _ _ rfl (Or.inr hMend)
    generalize tokRun M (0 + pre.length) (lf1, pen1, []) = σ2 at h2 hv ⊢
    obtain ⟨lf2, pen2, st2⟩ := σ2
    simp only at h2 hv; subst h2
    rw [quiet_sound post _ lf2 none pen2 [] (Or.inl rfl) hq]
    exact hv

/-! ### `endScan`, `countUntilNl`, `scanBackNl` on a line -/

theorem endScan_line (a b : Str) (k : Nat) (e : Option Int) (h : '\n' ∉ a) :
    endScan (a ++ '\n' :: b) k e = some ((k + a.length : Nat) : Int) := by
  induction a generalizing k e with
  | nil => simp [endScan]
  | cons c cs ih =>
    have hc : (c == '\n') = false := by
      simp only [beq_eq_false_iff_ne, ne_eq]; intro e; exact h (e ▸ List.mem_cons_self)
    simp only [List.cons_append, endScan, hc, Bool.false_eq_true, if_false]
    rw [ih _ _ (fun m => h (List.mem_cons_of_mem _ m))]
    simp only [List.length_cons]; congr 2; omega

theorem endScan_noNl (a : Str) (k : Nat) (e : Option Int) (h : '\n' ∉ a) (hne : a ≠ []) :
    endScan a k e = some ((k + a.length - 1 : Nat) : Int) := by
  induction a generalizing k e with
  | nil => exact absurd rfl hne
  | cons c cs ih =>
    have hc : (c == '\n') = false := by
      simp only [beq_eq_false_iff_ne, ne_eq]; intro e; exact h (e ▸ List.mem_cons_self)
    simp only [endScan, hc, Bool.false_eq_true, if_false]
    cases cs with
    | nil => simp [endScan]
    | cons c' cs' =>
      rw [ih _ _ (fun m => h (List.mem_cons_of_mem _ m)) (by simp)]
      simp only [List.length_cons]; congr 2; omega

theorem countUntilNl_line (a b : Str) (h : '\n' ∉ a) : countUntilNl (a ++ '\n' :: b) = a.length := by
  unfold countUntilNl
  induction a with
  | nil => simp
  | cons c cs ih =>
    have hc : c ≠ '\n' := fun e => h (e ▸ List.mem_cons_self)
    simp only [List.cons_append, List.takeWhile_cons, bne_iff_ne, ne_eq, hc, not_false_eq_true, if_true, List.length_cons]
    rw [ih (fun m => h (List.mem_cons_of_mem _ m))]

theorem countUntilNl_noNl (a : Str) (h : '\n' ∉ a) : countUntilNl a = a.length := by
  unfold countUntilNl
  induction a with
  | nil => simp
  | cons c cs ih =>
    have hc : c ≠ '\n' := fun e => h (e ▸ List.mem_cons_self)
    simp only [List.takeWhile_cons, bne_iff_ne, ne_eq, hc, not_false_eq_true, if_true, List.length_cons]
    rw [ih (fun m => h (List.mem_cons_of_mem _ m))]

/-- `for v in range(hi, 0, -1)` started inside a line whose preceding newline is at an index ≥ 1 finds that newline -/
theorem scanBackNlAux_line (pre mid post : Str) (hpre : pre ≠ []) (hmid : '\n' ∉ mid) (j : Nat) (hj : j ≤ mid.length)
    (v : Option Int) :
    scanBackNlAux (pre ++ '\n' :: (mid ++ post)).toArray (pre.length + j) v = .ok (some ((pre.length + 1 : Nat) : Int)) := by
  induction j generalizing v with
  | zero =>
    obtain ⟨k, hk⟩ : ∃ k, pre.length = k + 1 := by
      cases pre with
      | nil => exact absurd rfl hpre
      | cons _ t => exact ⟨t.length, rfl⟩
    simp only [Nat.add_zero]
    rw [hk, scanBackNlAux, ← hk, at?_nat]
    simp
  | succ j ih =>
    have hlt : j < mid.length := by omega
    have hne : mid[j] ≠ '\n' := fun h => hmid (h ▸ List.getElem_mem hlt)
    have hidx : pre.length + (j + 1) = (pre.length + j) + 1 := by omega
    rw [hidx, scanBackNlAux, ← hidx, at?_nat]
    have : (pre ++ '\n' :: (mid ++ post))[pre.length + (j + 1)]? = some mid[j] := by
      have := getElem?_mid (pre ++ ['\n']) mid post j hlt
      simp only [List.append_assoc, List.singleton_append, List.length_append, List.length_singleton] at this
      rw [← this]; congr 1; omega
    rw [this]
    simp only [beq_iff_eq, hne, if_false]
    exact ih (by omega) _

theorem scanBackNl_line (pre mid post : Str) (hpre : pre ≠ []) (hmid : '\n' ∉ mid) (j : Nat) (hj : j ≤ mid.length) :
    scanBackNl (pre ++ '\n' :: (mid ++ post)).toArray ((pre.length + j : Nat) : Int) = .ok (some ((pre.length + 1 : Nat) : Int)) := by
  unfold scanBackNl
  have hpos : 0 < pre.length := List.length_pos_iff.mpr hpre
  have : ¬ (((pre.length + j : Nat) : Int) ≤ 0) := by omega
  simp only [this, if_false, Int.toNat_natCast]
  exact scanBackNlAux_line pre mid post hpre hmid j hj none

/-- the countdown never raises below the length of the string -/
theorem scanBackNlAux_total (d : Str) (k : Nat) (hk : k < d.length) (v : Option Int) :
    ∃ r, scanBackNlAux d.toArray k v = .ok r := by
  induction k generalizing v with
  | zero => exact ⟨v, rfl⟩
  | succ k ih =>
    rw [scanBackNlAux, at?_nat, List.getElem?_eq_getElem hk]
    simp only
    split
    · exact ⟨_, rfl⟩
    · exact ih (by omega) _

theorem scanBackNl_total (d : Str) (hi : Int) (h : hi < d.length) : ∃ r, scanBackNl d.toArray hi = .ok r := by
  unfold scanBackNl
  split
  · exact ⟨none, rfl⟩
  · exact scanBackNlAux_total d hi.toNat (by omega) none

/-! ### the format is not numpydoc as soon as some line starts with a ReST or Google token -/

theorem contains_of_isPrefixOf (s p : Str) (h : p.isPrefixOf s = true) : contains s p = true := by
  cases s with
  | nil => cases p with
    | nil => rfl
    | cons _ _ => simp at h
  | cons c cs => simp [contains, h]

theorem contains_append_right (a b p : Str) (h : contains b p = true) : contains (a ++ b) p = true := by
  induction a with
  | nil => exact h
  | cons c cs ih => simp [contains, ih]

theorem contains_append_left (a b p : Str) (h : contains a p = true) : contains (a ++ b) p = true := by
  induction a with
  | nil =>
    simp only [contains, List.isEmpty_iff] at h
    subst h
    cases b <;> simp [contains]
  | cons c cs ih =>
    simp only [contains, Bool.or_eq_true] at h
    simp only [List.cons_append, contains, Bool.or_eq_true]
    rcases h with h | h
    · left
      rw [List.isPrefixOf_iff_prefix] at *
      exact h.trans (List.prefix_append (c :: cs) b)
    · right; exact ih h

theorem lstrip_decomp (l : Str) : ∃ ws, l = ws ++ lstrip l := ⟨l.takeWhile isSpaceC, (List.takeWhile_append_dropWhile).symm⟩

/-- ReST and Google tokens -/
def fieldTokens : List String := restTokens ++ googleTokens

theorem deriveFormat_ne_numpydoc (pre L post : Str) (h : startsWithAny fieldTokens (lstrip L) = true) :
    deriveFormat (pre ++ L ++ post).toArray ≠ .numpydoc := by
  unfold startsWithAny at h
  rw [List.any_eq_true] at h
  obtain ⟨t, ht, hp⟩ := h
  obtain ⟨ws, hws⟩ := lstrip_decomp L
  have hc : contains (pre ++ L ++ post) t.toList = true := by
    rw [hws, List.append_assoc]
    apply contains_append_right
    rw [List.append_assoc]
    apply contains_append_right
    apply contains_append_left
    exact contains_of_isPrefixOf _ _ hp
  simp only [fieldTokens, List.mem_append] at ht
  show (if (restTokens.any fun t => contains (pre ++ L ++ post) t.toList) = true then Style.rest
        else if (googleTokens.any fun t => contains (pre ++ L ++ post) t.toList) = true then Style.google else Style.numpydoc) ≠ _
  rcases ht with ht | ht
  · have : (restTokens.any fun t => contains (pre ++ L ++ post) t.toList) = true := List.any_eq_true.mpr ⟨t, ht, hc⟩
    rw [if_pos this]; decide
  · have : (googleTokens.any fun t => contains (pre ++ L ++ post) t.toList) = true := List.any_eq_true.mpr ⟨t, ht, hc⟩
    rw [if_pos this]
    split <;> decide

end DSS
