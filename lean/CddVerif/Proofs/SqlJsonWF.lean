import CddVerif.Proofs.Sql
import CddVerif.Proofs.JsonSchema
/-!
# Helper lemmas for C14 on the SQLAlchemy and JSON-schema model parsers

`Sql.WF`: what `Sql.parseTableCall` / `parseTable` / `parseClass` return for **every** `TableCall` / `ClassDef`
(not only emitter images): the parameter dict is built by `OrderedDict(pairs)` (`dictOfPairs`), so its keys are the
first occurrences of the column names; a column name is whatever string constant stands first in the `Column(…)` call
(or an identifier); a present `typ` is a non-empty string (table values of `column_type2typ` are non-empty — a `decide`
over the regenerated table — and a table miss falls back to the identifier itself).

`JsonSchema.WF`: what `JsonSchema.parse` returns for **every** JSON value: the parameters are the entries of the
`properties` object, one for one and in order; a present `typ` is non-empty (table values of `json_type2typ`; a miss
raises); the return entry comes from the description's `:return:` / `:rtype:` lines.

Core Lean only.
-/

/-! ## SQLAlchemy -/
namespace Sql.WF
open Py Sql

/-- a well-formed parameter name: non-empty, no leading asterisk -/
def GoodName (k : Str) : Prop := k ≠ [] ∧ startsWith k ['*'] = false

instance (k : Str) : Decidable (GoodName k) := by unfold GoodName; exact inferInstance

theorem isIdentifier_ne_nil {s : Str} (h : isIdentifier s = true) : s ≠ [] := by
  intro e; subst e; simp [isIdentifier] at h

theorem isIdentifier_good {s : Str} (h : isIdentifier s = true) : GoodName s := by
  refine ⟨isIdentifier_ne_nil h, ?_⟩
  cases s with
  | nil => rfl
  | cons c cs =>
    simp only [isIdentifier, Bool.and_eq_true] at h
    have hc := h.1
    cases hs : startsWith (c :: cs) ['*'] with
    | false => rfl
    | true =>
      exfalso
      have : c = '*' := by
        simp only [startsWith, List.isPrefixOf, Bool.and_eq_true, beq_iff_eq] at hs
        exact hs.1.symm
      subst this
      revert hc
      decide

/-- a string that does not start with a quote character is left alone by `set_value` -/
theorem setValueStr_of_head (name : Str) (h1 : name.head? ≠ some '"') (h2 : name.head? ≠ some '\'') :
    setValueStr name = name := by
  unfold setValueStr
  have e1 : (name.head? == some '"') = false := by simpa using h1
  have e2 : (name.head? == some '\'') = false := by simpa using h2
  simp [e1, e2]

theorem setValueStr_identifier {s : Str} (h : isIdentifier s = true) : setValueStr s = s := by
  cases s with
  | nil => rfl
  | cons c cs =>
    simp only [isIdentifier, Bool.and_eq_true] at h
    have hc := h.1
    apply setValueStr_of_head
    · intro e
      have : c = '"' := by simpa using e
      subst this; revert hc; decide
    · intro e
      have : c = '\'' := by simpa using e
      subst this; revert hc; decide

/-! ### `OrderedDict(pairs)` -/

/-- one step of `OrderedDict(pairs)` -/
def dstep (d : List (Str × Parsed)) (kv : Str × Parsed) : List (Str × Parsed) :=
  if d.any (·.1 == kv.1) then d.map (fun e => if e.1 == kv.1 then (e.1, kv.2) else e) else d ++ [kv]

theorem dictOfPairs_eq (l : List (Str × Parsed)) : dictOfPairs l = l.foldl dstep [] := rfl

/-- one step on the keys: a new key is appended, a known one changes nothing -/
def kstep (ks : List Str) (k : Str) : List Str := if k ∈ ks then ks else ks ++ [k]

/-- the first occurrences of a list of names, in order (the keys of `OrderedDict(zip(names, …))`) -/
def firstOcc (l : List Str) : List Str := l.foldl kstep []

theorem any_key_iff (d : List (Str × Parsed)) (k : Str) : d.any (·.1 == k) = true ↔ k ∈ d.map (·.1) := by
  simp [List.any_eq_true]

theorem dstep_keys (d : List (Str × Parsed)) (kv : Str × Parsed) :
    (dstep d kv).map (·.1) = kstep (d.map (·.1)) kv.1 := by
  unfold dstep kstep
  by_cases h : d.any (·.1 == kv.1) = true
  · have hm := (any_key_iff d kv.1).mp h
    rw [if_pos h, if_pos hm, List.map_map]
    apply List.map_congr_left
    intro e _
    simp only [Function.comp]
    split <;> rfl
  · have hm : kv.1 ∉ d.map (·.1) := fun hm => h ((any_key_iff d kv.1).mpr hm)
    rw [if_neg h, if_neg hm]
    simp

theorem dstep_mem {d : List (Str × Parsed)} {kv e : Str × Parsed} (h : e ∈ dstep d kv) : e ∈ d ∨ e = kv := by
  unfold dstep at h
  split at h
  · obtain ⟨e', he', rfl⟩ := List.mem_map.mp h
    split
    · rename_i hk
      have hk' : e'.1 = kv.1 := by simpa using hk
      right
      rw [hk']
    · exact Or.inl he'
  · rcases List.mem_append.mp h with h | h
    · exact Or.inl h
    · exact Or.inr (by simpa using h)

theorem foldl_dstep_keys (l acc : List (Str × Parsed)) :
    (l.foldl dstep acc).map (·.1) = (l.map (·.1)).foldl kstep (acc.map (·.1)) := by
  induction l generalizing acc with
  | nil => rfl
  | cons x xs ih => simp only [List.foldl_cons, List.map_cons]; rw [ih, dstep_keys]

theorem foldl_dstep_mem (l acc : List (Str × Parsed)) (e : Str × Parsed) (h : e ∈ l.foldl dstep acc) :
    e ∈ acc ∨ e ∈ l := by
  induction l generalizing acc with
  | nil => exact Or.inl h
  | cons x xs ih =>
    simp only [List.foldl_cons] at h
    rcases ih _ h with h | h
    · rcases dstep_mem h with h | h
      · exact Or.inl h
      · exact Or.inr (by simp [h])
    · exact Or.inr (by simp [h])

theorem kstep_nodup (ks : List Str) (k : Str) (h : ks.Nodup) : (kstep ks k).Nodup := by
  unfold kstep
  split
  · exact h
  · rename_i hm
    rw [List.nodup_append]
    refine ⟨h, by simp, ?_⟩
    intro a ha b hb
    simp only [List.mem_singleton] at hb
    subst hb
    exact fun e => hm (e ▸ ha)

theorem kstep_mem (ks : List Str) (k a : Str) : a ∈ kstep ks k ↔ a ∈ ks ∨ a = k := by
  unfold kstep
  split
  · rename_i hm
    constructor
    · exact Or.inl
    · rintro (h | h)
      · exact h
      · exact h ▸ hm
  · simp

theorem foldl_kstep_nodup (l acc : List Str) (h : acc.Nodup) : (l.foldl kstep acc).Nodup := by
  induction l generalizing acc with
  | nil => exact h
  | cons x xs ih => exact ih _ (kstep_nodup acc x h)

theorem foldl_kstep_mem (l acc : List Str) (a : Str) : a ∈ l.foldl kstep acc ↔ a ∈ acc ∨ a ∈ l := by
  induction l generalizing acc with
  | nil => simp
  | cons x xs ih =>
    simp only [List.foldl_cons, ih, kstep_mem, List.mem_cons]
    constructor
    · rintro ((h | h) | h)
      · exact Or.inl h
      · exact Or.inr (Or.inl h)
      · exact Or.inr (Or.inr h)
    · rintro (h | h | h)
      · exact Or.inl (Or.inl h)
      · exact Or.inl (Or.inr h)
      · exact Or.inr h

theorem firstOcc_nodup (l : List Str) : (firstOcc l).Nodup := foldl_kstep_nodup l [] List.nodup_nil

theorem mem_firstOcc (l : List Str) (a : Str) : a ∈ firstOcc l ↔ a ∈ l := by
  unfold firstOcc; rw [foldl_kstep_mem]; simp

theorem foldl_kstep_of_nodup (l acc : List Str) (h : (acc ++ l).Nodup) : l.foldl kstep acc = acc ++ l := by
  induction l generalizing acc with
  | nil => simp
  | cons x xs ih =>
    have hx : x ∉ acc := by
      intro hm
      exact (List.nodup_append.mp h).2.2 x hm x (by simp) rfl
    simp only [List.foldl_cons, kstep, if_neg hx]
    rw [ih]
    · simp
    · simpa [List.append_assoc] using h

/-- on pairwise distinct names nothing is dropped -/
theorem firstOcc_of_nodup (l : List Str) (h : l.Nodup) : firstOcc l = l := by
  unfold firstOcc; rw [foldl_kstep_of_nodup l [] (by simpa using h)]; rfl

/-- a repeated name is dropped: the result is shorter -/
theorem firstOcc_length_lt (l : List Str) (h : ¬ l.Nodup) : (firstOcc l).length < l.length := by
  have hle : ∀ (l acc : List Str), (l.foldl kstep acc).length ≤ acc.length + l.length := by
    intro l
    induction l with
    | nil => intro acc; simp
    | cons x xs ih =>
      intro acc
      simp only [List.foldl_cons, List.length_cons]
      have := ih (kstep acc x)
      have h2 : (kstep acc x).length ≤ acc.length + 1 := by
        unfold kstep; split <;> simp
      omega
  have key : ∀ (l acc : List Str), acc.Nodup → ¬ (acc ++ l).Nodup → (l.foldl kstep acc).length < acc.length + l.length := by
    intro l
    induction l with
    | nil => intro acc ha hn; simp at hn; exact absurd ha hn
    | cons x xs ih =>
      intro acc ha hn
      simp only [List.foldl_cons, List.length_cons]
      by_cases hx : x ∈ acc
      · have : kstep acc x = acc := by simp [kstep, hx]
        rw [this]
        have := hle xs acc
        omega
      · have hk : kstep acc x = acc ++ [x] := by simp [kstep, hx]
        rw [hk]
        have hnd : (acc ++ [x]).Nodup := by rw [← hk]; exact kstep_nodup acc x ha
        have := ih (acc ++ [x]) hnd (by simpa [List.append_assoc] using hn)
        simp only [List.length_append, List.length_singleton] at this
        omega
  have := key l [] List.nodup_nil (by simpa using h)
  simpa [firstOcc] using this

/-- **the keys of `OrderedDict(pairs)` are the first occurrences of the pairs' keys** -/
theorem dictOfPairs_keys (l : List (Str × Parsed)) : (dictOfPairs l).map (·.1) = firstOcc (l.map (·.1)) := by
  rw [dictOfPairs_eq, foldl_dstep_keys]; rfl

theorem dictOfPairs_keys_nodup (l : List (Str × Parsed)) : ((dictOfPairs l).map (·.1)).Nodup := by
  rw [dictOfPairs_keys]; exact firstOcc_nodup _

/-- every entry of the dict is one of the pairs -/
theorem dictOfPairs_mem (l : List (Str × Parsed)) (e : Str × Parsed) (h : e ∈ dictOfPairs l) : e ∈ l := by
  rw [dictOfPairs_eq] at h
  rcases foldl_dstep_mem l [] e h with h | h
  · simp at h
  · exact h

/-! ### `mapE` -/

theorem mapE_mem_right {α β : Type} {f : α → Except String β} :
    ∀ {l : List α} {r : List β}, mapE f l = .ok r → ∀ b ∈ r, ∃ a ∈ l, f a = .ok b := by
  intro l
  induction l with
  | nil => intro r h; cases h; simp
  | cons a as ih =>
    intro r h b hb
    obtain ⟨b0, bs, hb0, hbs, rfl⟩ := mapE_ok_cons h
    rcases List.mem_cons.mp hb with rfl | hb
    · exact ⟨a, by simp, hb0⟩
    · obtain ⟨a', ha', hf⟩ := ih hbs b hb
      exact ⟨a', by simp [ha'], hf⟩

theorem mapE_mem_left {α β : Type} {f : α → Except String β} :
    ∀ {l : List α} {r : List β}, mapE f l = .ok r → ∀ a ∈ l, ∃ b ∈ r, f a = .ok b := by
  intro l
  induction l with
  | nil => intro r _ a ha; simp at ha
  | cons a as ih =>
    intro r h a' ha'
    obtain ⟨b0, bs, hb0, hbs, rfl⟩ := mapE_ok_cons h
    rcases List.mem_cons.mp ha' with rfl | ha'
    · exact ⟨b0, by simp, hb0⟩
    · obtain ⟨b, hb, hf⟩ := ih hbs a' ha'
      exact ⟨b, by simp [hb], hf⟩

/-- a pointwise consequence of `f a = .ok b` carries over to a second `mapE` -/
theorem mapE_comp {α β γ : Type} {f : α → Except String β} {g : α → Except String γ} (p : β → γ)
    (hfg : ∀ a b, f a = .ok b → g a = .ok (p b)) :
    ∀ {l : List α} {r : List β}, mapE f l = .ok r → mapE g l = .ok (r.map p) := by
  intro l
  induction l with
  | nil => intro r h; cases h; rfl
  | cons a as ih =>
    intro r h
    obtain ⟨b0, bs, hb0, hbs, rfl⟩ := mapE_ok_cons h
    simp only [mapE, hfg a b0 hb0, ih hbs, List.map_cons]

/-! ### the column name -/

theorem columnName_cases {args : List Arg} {n : Str} (h : columnName args = .ok n) :
    args.head? = some (.const (.str n)) ∨ (args.head? = some (.name n) ∧ isIdentifier n = true) := by
  unfold columnName at h
  split at h
  · rename_i s hs; cases h; exact Or.inl hs
  · rename_i id hid
    split at h
    · rename_i hi; cases h; exact Or.inr ⟨hid, hi⟩
    · cases h
  · cases h
  · cases h

theorem columnName_const (s : Str) (rest : List Arg) : columnName (.const (.str s) :: rest) = .ok s := rfl

/-! ### the type string -/

/-- **table fact** (regenerated table): no value of `column_type2typ` is the empty string -/
theorem columnType2Typ_values_ne : ∀ kv ∈ Gen.SqlTables.columnType2Typ, kv.2 ≠ [] := by decide

theorem col2typ_ne {id : Str} (h : id ≠ []) : col2typ id ≠ [] := by
  unfold col2typ lookup
  cases hf : List.find? (fun x => x.1 == id) Gen.SqlTables.columnType2Typ with
  | none => simpa using h
  | some kv =>
    simp only [Option.map_some, Option.getD_some]
    exact columnType2Typ_values_ne kv (List.mem_of_find?_eq_some hf)

/-- a table miss: the type string is the identifier itself, and no `x_typ.sql.type` is recorded -/
theorem col2typ_miss {id : Str} (h : inCol2typ id = false) : col2typ id = id := by
  unfold inCol2typ at h
  unfold col2typ
  cases hl : lookup Gen.SqlTables.columnType2Typ id with
  | none => rfl
  | some v => rw [hl] at h; cases h

theorem reparse_name {a : Arg} {id : Str} (h : reparse a = .name id) : isIdentifier id = true := by
  cases a with
  | name id' =>
    simp only [reparse] at h
    split at h
    · rename_i hi; cases h; exact hi
    · cases h
  | _ => cases h

theorem contains_ne_nil {s p : Str} (hp : p ≠ []) (h : Py.contains s p = true) : s ≠ [] := by
  intro e; subst e
  cases p with
  | nil => exact hp rfl
  | cons c cs => simp [Py.contains] at h

/-- the invariant: a recorded type is not the empty string -/
def TypNE (o : Option Str) : Prop := ∀ t, o = some t → t ≠ []

theorem typNE_some {t : Str} (h : t ≠ []) : TypNE (some t) := by
  intro t' e; cases e; exact h

theorem parseArg_typNE {r r' : Raw} {i : Nat} {a : Arg} (hr : TypNE r.typ) (h : parseArg r i a = .ok r') :
    TypNE r'.typ := by
  unfold parseArg at h
  split at h
  · rename_i id hid
    split at h
    · cases h; exact typNE_some (col2typ_ne (isIdentifier_ne_nil (reparse_name hid)))
    · cases h; exact hr
  · cases h; exact typNE_some (by simp)
  · cases h; exact hr
  · cases h; exact typNE_some (by simp)
  · split at h
    · cases h; exact hr
    · cases h; exact hr
  · rename_i code _
    split at h
    · rename_i hc
      dsimp only at h
      split at h
      · cases h; exact typNE_some (contains_ne_nil (by simp) hc)
      · cases h
    · split at h
      · split at h
        · cases h; exact hr
        · cases h; exact hr
      · split at h
        · split at h
          · cases h; exact hr
          · cases h; exact hr
        · cases h

theorem parseArgs_typNE {r r' : Raw} {i : Nat} {as : List Arg} (hr : TypNE r.typ) (h : parseArgs r i as = .ok r') :
    TypNE r'.typ := by
  induction as generalizing r i with
  | nil => unfold parseArgs at h; cases h; exact hr
  | cons a as ih =>
    unfold parseArgs at h
    split at h
    · cases h
    · rename_i r1 h1
      exact ih (parseArg_typNE hr h1) h

theorem applyNullable_typNE {n : Option Val} {typ o : Option Str} (ht : TypNE typ) (h : applyNullable n typ = .ok o) :
    TypNE o := by
  unfold applyNullable at h
  split at h
  · split at h
    · split at h
      · rename_i t
        cases h
        apply typNE_some
        split
        · exact ht t rfl
        · simp
      · cases h
    · cases h; exact ht
  · cases h; exact ht

/-- what a successful `column_call_to_param` says about its result: the name is `get_value(call.args[0])`, the type is
    the raw type after the `nullable` step -/
theorem columnToParam_ok {c : ColumnCall} {n : Str} {p : Parsed} (h : columnToParam c = .ok (n, p)) :
    columnName c.args = .ok n ∧
    ∃ raw, parseArgs {} 0 c.args = .ok raw ∧
      applyNullable (kwGet (c.kws.map (fun kv => (kv.1, getValue kv.2))) c!"nullable") raw.typ = .ok p.typ := by
  unfold columnToParam at h
  split at h
  · cases h
  · split at h
    · cases h
    · rename_i raw hraw
      dsimp only at h
      split at h
      · cases h
      · split at h
        · cases h
        · rename_i typ htyp
          split at h
          · cases h
          · rename_i name hname
            cases h
            exact ⟨hname, raw, hraw, htyp⟩

theorem columnToParam_typNE {c : ColumnCall} {n : Str} {p : Parsed} (h : columnToParam c = .ok (n, p)) : TypNE p.typ := by
  obtain ⟨_, raw, hraw, hn⟩ := columnToParam_ok h
  exact applyNullable_typNE (parseArgs_typNE (r := {}) (by intro t e; cases e) hraw) hn

/-! ### the table parser -/

/-- the names `get_value(call.args[0])` of the columns, in call order (`.error` as soon as one column has none) -/
def columnNames (cols : List ColumnCall) : Except String (List Str) := mapE (fun c => columnName c.args) cols

theorem parseTableCall_ok {t : TableCall} {ir : ParsedIR} (h : parseTableCall t = .ok ir) :
    ∃ ps, mapE columnToParam t.cols = .ok ps ∧ ir = { name := t.tname, params := dictOfPairs ps } := by
  unfold parseTableCall at h
  split at h
  · cases h
  · split at h
    · cases h
    · rename_i ps hps
      cases h
      exact ⟨ps, hps, rfl⟩

theorem mapE_columnToParam_names {cols : List ColumnCall} {ps : List (Str × Parsed)}
    (h : mapE columnToParam cols = .ok ps) : columnNames cols = .ok (ps.map (·.1)) := by
  unfold columnNames
  exact mapE_comp (f := columnToParam) (g := fun c => columnName c.args) (fun b => b.1)
    (fun _ b hb => (columnToParam_ok (n := b.1) (p := b.2) hb).1) h

/-- **the parameter names are the first occurrences of the column names, in order** -/
theorem parseTableCall_keys {t : TableCall} {ir : ParsedIR} (h : parseTableCall t = .ok ir) :
    ∃ names, columnNames t.cols = .ok names ∧ ir.params.map (·.1) = firstOcc names := by
  obtain ⟨ps, hps, rfl⟩ := parseTableCall_ok h
  exact ⟨ps.map (·.1), mapE_columnToParam_names hps, dictOfPairs_keys ps⟩

theorem parseTableCall_typNE {t : TableCall} {ir : ParsedIR} (h : parseTableCall t = .ok ir) :
    ∀ kp ∈ ir.params, TypNE kp.2.typ := by
  obtain ⟨ps, hps, rfl⟩ := parseTableCall_ok h
  intro kp hkp
  obtain ⟨c, _, hc⟩ := mapE_mem_right hps kp (dictOfPairs_mem ps kp hkp)
  exact columnToParam_typNE (n := kp.1) (p := kp.2) hc

theorem columnNames_mem {cols : List ColumnCall} {names : List Str} (h : columnNames cols = .ok names) (k : Str) :
    k ∈ names ↔ ∃ c ∈ cols, columnName c.args = .ok k := by
  constructor
  · intro hk
    exact mapE_mem_right h k hk
  · rintro ⟨c, hc, hn⟩
    obtain ⟨b, hb, hf⟩ := mapE_mem_left h c hc
    rw [hn] at hf
    cases hf
    exact hb

/-! ### the class parser -/

/-- `parse.sqlalchemy(ClassDef)` is `parse.sqlalchemy_table` of the table the class is turned into -/
theorem parseClass_ok {cls : ClassDef} {ir : ParsedIR} (h : parseClass cls = .ok ir) :
    ∃ tbl, ((∃ t, classToTable cls = .ok (.inl (t, tbl))) ∨ classToTable cls = .ok (.inr tbl)) ∧
      parseTableCall tbl = .ok ir := by
  unfold parseClass at h
  split at h
  · cases h
  · rename_i t tbl hc; exact ⟨tbl, Or.inl ⟨t, hc⟩, h⟩
  · rename_i tbl hc; exact ⟨tbl, Or.inr hc, h⟩

theorem stmtColumn_ok {s : Stmt} {c : ColumnCall} (h : stmtColumn s = .ok c) :
    ∃ t c0, s = .assignCol t c0 ∧ c = mergeName t c0 := by
  cases s with
  | assignCol t c0 => simp only [stmtColumn] at h; cases h; exact ⟨t, c0, rfl, rfl⟩
  | _ => simp [stmtColumn] at h

/-- the columns of the table a declarative class is turned into are its `target = Column(…)` statements with the
    target put in front -/
theorem classToTable_inr {cls : ClassDef} {tbl : TableCall} (h : classToTable cls = .ok (.inr tbl)) :
    ∀ c ∈ tbl.cols, ∃ t c0, Stmt.assignCol t c0 ∈ cls.body ∧ c = mergeName t c0 := by
  unfold classToTable at h
  split at h
  · cases h
  · cases h
  · split at h
    · split at h
      · cases h
      · rename_i cols hcols
        cases h
        intro c hc
        obtain ⟨s, hs, hf⟩ := mapE_mem_right hcols c hc
        obtain ⟨t, c0, rfl, rfl⟩ := stmtColumn_ok hf
        exact ⟨t, c0, (List.mem_filter.mp hs).1, rfl⟩
    · cases h
    · cases h

theorem columnName_mergeName (t : Str) (c : ColumnCall) : columnName (mergeName t c).args = .ok (setValueStr t) := rfl

/-- `parse.sqlalchemy_table(Assign)` is `parse.sqlalchemy_table(Call)` of the bound call -/
theorem parseTable_reduces {a : Str × TableCall} {ir : ParsedIR} (h : parseTable a = .ok ir) :
    parseTableCall a.2 = .ok ir := by
  unfold parseTable at h
  split at h
  · cases h
  · exact h

/-- an assignment target a Python class body can have, as far as the name clause cares: non-empty, no asterisk, no
    leading quote (every identifier, ASCII or not) -/
def TargetOk (t : Str) : Prop := GoodName t ∧ t.head? ≠ some '"' ∧ t.head? ≠ some '\''

theorem targetOk_of_identifier {t : Str} (h : isIdentifier t = true) : TargetOk t := by
  refine ⟨isIdentifier_good h, ?_, ?_⟩
  all_goals
    cases t with
    | nil => simp
    | cons c cs =>
      simp only [isIdentifier, Bool.and_eq_true] at h
      have hc := h.1
      intro e
      simp only [List.head?_cons, Option.some.injEq] at e
      subst e; revert hc; decide

end Sql.WF

/-! ## JSON schema -/
namespace JsonSchema.WF
open Py JsonSchema Gen.JsonSchemaTables

/-- a well-formed parameter name: non-empty, no leading asterisk -/
def GoodName (k : Str) : Prop := k ≠ [] ∧ startsWith k ['*'] = false

instance (k : Str) : Decidable (GoodName k) := by unfold GoodName; exact inferInstance

/-- the invariant: a recorded type is not the empty string -/
def TypNE (o : Option Str) : Prop := ∀ t, o = some t → t ≠ []

theorem typNE_some {t : Str} (h : t ≠ []) : TypNE (some t) := by
  intro t' e; cases e; exact h

theorem typNE_none : TypNE none := by intro t e; cases e

/-- the entries of the `properties` object of a schema, in order (nothing when the key is absent) -/
def propsOf : J → List (Str × J)
  | .obj kvs => match lookup js!"properties" kvs with
    | some (.obj ps) => ps
    | _ => []
  | _ => []

/-- the top-level `description` of a schema (empty when the key is absent) -/
def descOf : J → Str
  | .obj kvs => match lookup js!"description" kvs with
    | some (.str s) => s
    | _ => []
  | _ => []

/-- the value under `required`, if any -/
def requiredOf : J → Option J
  | .obj kvs => lookup js!"required" kvs
  | _ => none

/-! ### `lookup`, `parseProps` -/

theorem lookup_mem {α} (k : Str) (l : List (Str × α)) (v : α) (h : lookup k l = some v) : (k, v) ∈ l := by
  induction l with
  | nil => simp [lookup] at h
  | cons x xs ih =>
    obtain ⟨k', v'⟩ := x
    unfold lookup at h
    split at h
    · rename_i hk; cases h; subst hk; simp
    · exact List.mem_cons_of_mem _ (ih h)

theorem parseProps_keys {req : List Str} : ∀ {ps : List (Str × J)} {r : List (Str × PParam)},
    parseProps req ps = .ok r → r.map (·.1) = ps.map (·.1) := by
  intro ps
  induction ps with
  | nil => intro r h; unfold parseProps at h; cases h; rfl
  | cons x xs ih =>
    intro r h
    obtain ⟨n, v⟩ := x
    unfold parseProps at h
    split at h
    · cases h
    · split at h
      · cases h
      · rename_i ps' hps'
        cases h
        simp only [List.map_cons, ih hps']

theorem parseProps_mem {req : List Str} : ∀ {ps : List (Str × J)} {r : List (Str × PParam)},
    parseProps req ps = .ok r → ∀ np ∈ r, ∃ v, (np.1, v) ∈ ps ∧ parseProp req np.1 v = .ok np.2 := by
  intro ps
  induction ps with
  | nil => intro r h; unfold parseProps at h; cases h; simp
  | cons x xs ih =>
    intro r h np hnp
    obtain ⟨n, v⟩ := x
    unfold parseProps at h
    split at h
    · cases h
    · rename_i p hp
      split at h
      · cases h
      · rename_i ps' hps'
        cases h
        rcases List.mem_cons.mp hnp with rfl | hnp
        · exact ⟨v, by simp, hp⟩
        · obtain ⟨v', hv', hf⟩ := ih hps' np hnp
          exact ⟨v', List.mem_cons_of_mem _ hv', hf⟩

/-! ### the type string of one property -/

/-- **table fact** (regenerated table): no value of `json_type2typ` is the empty string -/
theorem jsonType2typ_values_ne : ∀ kv ∈ jsonType2typ, kv.2 ≠ [] := by decide

/-- truthiness of the value under an optional key (`_param.get(k)` as a condition) -/
def optTruthy : Option J → Bool
  | some t => t.truthy
  | none => false

theorem typeStep_ok {typ0 typ1 : Option Str} {t : Option J} {kept : List (Str × J)}
    (h : typeStep typ0 t = .ok (typ1, kept)) :
    (optTruthy t = true → ∃ s r, t = some (.str s) ∧ lookup s jsonType2typ = some r ∧ typ1 = some r ∧ kept = []) ∧
    (optTruthy t = false → typ1 = typ0) := by
  unfold typeStep at h
  split at h
  · rename_i t
    split at h
    · rename_i ht
      split at h
      · rename_i s
        split at h
        · rename_i r hr
          cases h
          exact ⟨fun _ => ⟨s, r, rfl, hr, rfl, rfl⟩, fun hf => by simp [optTruthy, ht] at hf⟩
        · cases h
      · cases h
    · rename_i ht
      cases h
      exact ⟨fun hf => absurd hf (by simpa [optTruthy] using ht), fun _ => rfl⟩
  · cases h
    exact ⟨fun hf => by simp [optTruthy] at hf, fun _ => rfl⟩

theorem typeStep_typNE {typ0 typ1 : Option Str} {t : Option J} {kept : List (Str × J)} (h0 : TypNE typ0)
    (h : typeStep typ0 t = .ok (typ1, kept)) : TypNE typ1 := by
  obtain ⟨h1, h2⟩ := typeStep_ok h
  cases ht : optTruthy t with
  | true =>
    obtain ⟨s, r, _, hr, rfl, _⟩ := h1 ht
    exact typNE_some (jsonType2typ_values_ne (s, r) (lookup_mem s _ r hr))
  | false => rw [h2 ht]; exact h0

theorem literalOf_ne (ms : List Str) : literalOf ms ≠ [] := by simp [literalOf]

theorem patternStep_ok {typ1 typ2 : Option Str} {p : Option J} {kept : List (Str × J)}
    (h : patternStep typ1 p = .ok (typ2, kept)) :
    (optTruthy p = true → ∃ s, p = some (.str s) ∧ typ2 = some (literalOf (splitBar s)) ∧ kept = []) ∧
    (optTruthy p = false → typ2 = typ1) := by
  unfold patternStep at h
  split at h
  · rename_i p
    split at h
    · rename_i ht
      split at h
      · rename_i s
        rw [maybeEnum_always] at h
        simp only [if_true] at h
        cases h
        exact ⟨fun _ => ⟨s, rfl, rfl, rfl⟩, fun hf => by simp [optTruthy, ht] at hf⟩
      · cases h
    · rename_i ht
      cases h
      exact ⟨fun hf => absurd hf (by simpa [optTruthy] using ht), fun _ => rfl⟩
  · cases h
    exact ⟨fun hf => by simp [optTruthy] at hf, fun _ => rfl⟩

theorem patternStep_typNE {typ1 typ2 : Option Str} {p : Option J} {kept : List (Str × J)} (h1 : TypNE typ1)
    (h : patternStep typ1 p = .ok (typ2, kept)) : TypNE typ2 := by
  obtain ⟨ha, hb⟩ := patternStep_ok h
  cases ht : optTruthy p with
  | true =>
    obtain ⟨s, _, rfl, _⟩ := ha ht
    exact typNE_some (literalOf_ne _)
  | false => rw [hb ht]; exact h1

theorem wrapOpt_ne (req : List Str) (name t : Str) (h : t ≠ []) : wrapOpt req name t ≠ [] := by
  unfold wrapOpt
  split
  · simp
  · exact h

/-- the type the `kwargs` rule starts from -/
def typ0Of (name : Str) : Option Str := if endsWith name js!"kwargs" then some js!"Optional[dict]" else none

/-- what a successful `json_schema_property_to_param` says about its `typ` -/
theorem parseProp_ok {req : List Str} {name : Str} {v : J} {p : PParam} (h : parseProp req name v = .ok p) :
    ∃ kvs typ1 typ2 k1 k2, v = .obj kvs ∧
      typeStep (typ0Of name) (lookup js!"type" kvs) = .ok (typ1, k1) ∧
      patternStep typ1 (lookup js!"pattern" kvs) = .ok (typ2, k2) ∧
      p.typ = typ2.map (wrapOpt req name) ∧
      p.extra = k1 ++ k2 ++ kvs.filter (fun kv => !consumed.contains kv.1) := by
  unfold parseProp at h
  split at h
  · rename_i kvs
    split at h
    · cases h
    · dsimp only at h
      split at h
      · cases h
      · rename_i typ1 k1 h1
        split at h
        · cases h
        · rename_i typ2 k2 h2
          cases h
          exact ⟨kvs, typ1, typ2, k1, k2, rfl, h1, h2, rfl, rfl⟩
  · cases h

/-- **a present `typ` is a non-empty string** -/
theorem parseProp_typNE {req : List Str} {name : Str} {v : J} {p : PParam} (h : parseProp req name v = .ok p) :
    TypNE p.typ := by
  obtain ⟨kvs, typ1, typ2, k1, k2, _, h1, h2, hp, _⟩ := parseProp_ok h
  have h0 : TypNE (typ0Of name) := by
    unfold typ0Of; split
    · exact typNE_some (by decide)
    · exact typNE_none
  have hn2 := patternStep_typNE (typeStep_typNE h0 h1) h2
  rw [hp]
  intro t ht
  cases h2' : typ2 with
  | none => rw [h2'] at ht; cases ht
  | some t2 =>
    rw [h2'] at ht
    cases ht
    exact wrapOpt_ne req name t2 (hn2 t2 h2')

/-- **when a `typ` is present**: the name ends in `kwargs`, or the `type` is truthy, or the `pattern` is truthy -/
theorem parseProp_typ_isSome {req : List Str} {name : Str} {kvs : List (Str × J)} {p : PParam}
    (h : parseProp req name (.obj kvs) = .ok p) :
    p.typ.isSome = (endsWith name js!"kwargs" || optTruthy (lookup js!"type" kvs) || optTruthy (lookup js!"pattern" kvs)) := by
  obtain ⟨kvs', typ1, typ2, k1, k2, e, h1, h2, hp, _⟩ := parseProp_ok h
  cases e
  obtain ⟨a1, b1⟩ := typeStep_ok h1
  obtain ⟨a2, b2⟩ := patternStep_ok h2
  rw [hp, Option.isSome_map]
  cases hpat : optTruthy (lookup js!"pattern" kvs) with
  | true =>
    obtain ⟨s, _, e2, _⟩ := a2 hpat
    rw [e2]; simp
  | false =>
    rw [b2 hpat]
    cases hty : optTruthy (lookup js!"type" kvs) with
    | true =>
      obtain ⟨s, r, _, _, e1, _⟩ := a1 hty
      rw [e1]; simp
    | false =>
      rw [b1 hty]
      unfold typ0Of
      split <;> simp_all

/-- a falsy `type` (`""`, `null`, `0`, `[]` …) is neither used nor popped: the key `type` stays in the record -/
theorem parseProp_falsy_type_kept {req : List Str} {name : Str} {kvs : List (Str × J)} {p : PParam} {t : J}
    (ht : lookup js!"type" kvs = some t) (hf : t.truthy = false) (h : parseProp req name (.obj kvs) = .ok p) :
    (js!"type", t) ∈ p.extra := by
  obtain ⟨kvs', typ1, typ2, k1, k2, e, h1, _, _, hx⟩ := parseProp_ok h
  cases e
  rw [ht] at h1
  unfold typeStep at h1
  simp only [hf, Bool.false_eq_true, if_false] at h1
  cases h1
  rw [hx]
  simp

/-- **a table miss raises**: a non-empty string `type` that `json_type2typ` does not list -/
theorem parseProp_type_miss {req : List Str} {name : Str} {kvs : List (Str × J)} {s : Str}
    (hfrag : outOfFragment.any (fun k => hasKey k kvs) = false)
    (ht : lookup js!"type" kvs = some (.str s)) (hs : s ≠ []) (hmiss : lookup s jsonType2typ = none) :
    parseProp req name (.obj kvs) = .error js!"KeyError" := by
  unfold parseProp
  have htr : (J.str s).truthy = true := by
    cases s with
    | nil => exact absurd rfl hs
    | cons c cs => rfl
  simp only [hfrag, Bool.false_eq_true, if_false, ht, typeStep, htr, if_true, hmiss]

/-! ### the whole schema -/

/-- what a successful `json_schema` says about its result -/
theorem parse_ok {j : J} {pir : PIR} (h : parse j = .ok pir) :
    ∃ req, requiredSet (requiredOf j) = .ok req ∧ parseProps req (propsOf j) = .ok pir.params ∧
      pir.doc = (parseDesc (descOf j)).1 ∧ pir.returns = (parseDesc (descOf j)).2 := by
  unfold parse at h
  split at h
  · rename_i kvs
    split at h
    · cases h
    · rename_i req hreq
      dsimp only at h
      split at h
      · cases h
      · rename_i desc hdesc
        split at h
        · cases h
        · rename_i params hparams
          cases h
          have hd : descOf (.obj kvs) = desc := by
            unfold descOf
            split at hdesc
            · cases hdesc; rename_i hl; simp [hl]
            · cases hdesc; rename_i s hl; simp [hl]
            · cases hdesc
          have hp : parseProps req (propsOf (.obj kvs)) = .ok params := by
            unfold propsOf
            split at hparams
            · cases hparams; rename_i hl; simp [hl, parseProps]
            · rename_i ps hl; simp only [hl]; exact hparams
            · cases hparams
          exact ⟨req, hreq, hp, by rw [hd], by rw [hd]⟩
  · cases h

/-- **the parameter names are the keys of the `properties` object, one for one and in order** -/
theorem parse_keys {j : J} {pir : PIR} (h : parse j = .ok pir) : pir.params.map (·.1) = (propsOf j).map (·.1) := by
  obtain ⟨req, _, hp, _⟩ := parse_ok h
  exact parseProps_keys hp

theorem parse_typNE {j : J} {pir : PIR} (h : parse j = .ok pir) : ∀ np ∈ pir.params, TypNE np.2.typ := by
  obtain ⟨req, _, hp, _⟩ := parse_ok h
  intro np hnp
  obtain ⟨v, _, hf⟩ := parseProps_mem hp np hnp
  exact parseProp_typNE hf

/-! ### the return entry -/

theorem dropWhile_nil_iff {α} (p : α → Bool) (l : List α) : l.dropWhile p = [] ↔ ∀ x ∈ l, p x = true := by
  induction l with
  | nil => simp
  | cons x xs ih =>
    simp only [List.dropWhile_cons, List.mem_cons, forall_eq_or_imp]
    cases hp : p x with
    | true => simpa using ih
    | false => simp

theorem parseDesc_returns_none (s : Str) : (parseDesc s).2 = none ↔ ∀ l ∈ splitNl s, isRetLine l = false := by
  unfold parseDesc
  simp only
  constructor
  · intro h
    split at h
    · rename_i he
      have : List.dropWhile (fun l => !isRetLine l) (splitNl s) = [] := by simpa using he
      rw [dropWhile_nil_iff] at this
      intro l hl
      simpa using this l hl
    · cases h
  · intro h
    have : List.dropWhile (fun l => !isRetLine l) (splitNl s) = [] := by
      rw [dropWhile_nil_iff]
      intro l hl
      simp [h l hl]
    simp [this]

end JsonSchema.WF
