import CddVerif.Model.Exmod
/-! String-level lemmas about the ported `posixpath` functions, for the confinement theorem of C20. -/
set_option linter.unusedSimpArgs false
namespace Exmod
open Py

/-- strictly below `out` -/
def SU (out p : Path) : Prop := (out ++ ['/']) <+: p
/-- `out` itself or below it -/
def U (out p : Path) : Prop := underB out p = true

theorem U_iff (out p : Path) : U out p ↔ p = out ∨ SU out p := by
  unfold U SU underB
  simp [List.isPrefixOf_iff_prefix]

theorem SU.U {out p : Path} (h : SU out p) : U out p := (U_iff out p).mpr (Or.inr h)
theorem U_self (out : Path) : U out out := (U_iff out out).mpr (Or.inl rfl)

theorem SU_append {out p : Path} (h : SU out p) (s : Path) : SU out (p ++ s) :=
  List.IsPrefix.trans h (List.prefix_append p s)

theorem isAbs_iff (p : Path) : isAbs p = true ↔ ∃ r, p = '/' :: r := by
  unfold isAbs
  cases p with
  | nil => simp
  | cons c r => simp

theorem not_isAbs_nil : isAbs [] = false := rfl

/-- `out` is a non-empty path that does not end with a slash -/
structure OutOk (out : Path) : Prop where
  abs : isAbs out = true
  noSlash : out.getLast? ≠ some '/'

theorem OutOk.ne_nil {out : Path} (h : OutOk out) : out ≠ [] := by
  intro e; rw [e] at h; exact absurd h.abs (by decide)

theorem U.isAbs {out p : Path} (ho : OutOk out) (h : U out p) : isAbs p = true := by
  rcases (U_iff out p).mp h with rfl | ⟨r, hr⟩
  · exact ho.abs
  · obtain ⟨t, ht⟩ := (isAbs_iff out).mp ho.abs
    rw [← hr, ht]; rfl

/-- joining a relative piece to a path below `out` lands strictly below `out` -/
theorem SU_join2 {out a b : Path} (ho : OutOk out) (ha : U out a) (hb : isAbs b = false) : SU out (join2 a b) := by
  unfold join2
  simp only [hb, Bool.false_eq_true, if_false]
  rcases (U_iff out a).mp ha with rfl | hs
  · have h1 : a.isEmpty = false := by
      cases a with
      | nil => exact absurd rfl ho.ne_nil
      | cons _ _ => rfl
    have h2 : (a.getLast? == some '/') = false := by
      cases h : a.getLast? with
      | none => rfl
      | some c =>
        have : c ≠ '/' := by intro e; exact ho.noSlash (by rw [h, e])
        simp [this]
    simp only [h1, h2, Bool.or_self, Bool.false_eq_true, if_false]
    exact ⟨b, by simp⟩
  · split
    · exact SU_append hs b
    · exact SU_append hs ('/' :: b)

theorem isAbs_join2_left {a b : Path} (ha : isAbs a = true) : isAbs (join2 a b) = true := by
  unfold join2
  split
  · assumption
  · obtain ⟨r, hr⟩ := (isAbs_iff a).mp ha
    split <;> (rw [hr]; rfl)

theorem join2_abs {a b : Path} (hb : isAbs b = true) : join2 a b = b := by
  unfold join2; simp [hb]

/-! ### `basename` never contains a slash -/

theorem mem_takeWhile_sat {α} (q : α → Bool) : ∀ (l : List α) (x : α), x ∈ l.takeWhile q → q x = true
  | [], _, h => by cases h
  | a :: l, x, h => by
    rw [List.takeWhile_cons] at h
    split at h
    · rcases List.mem_cons.mp h with rfl | h'
      · assumption
      · exact mem_takeWhile_sat q l x h'
    · cases h

theorem basename_no_slash (p : Path) : ∀ c ∈ basename p, c ≠ '/' := by
  intro c hc
  unfold basename at hc
  have h1 : c ∈ p.reverse.takeWhile (· != '/') := List.mem_reverse.mp hc
  have := mem_takeWhile_sat _ _ _ h1
  simpa using this

theorem isAbs_basename (p : Path) : isAbs (basename p) = false := by
  cases h : basename p with
  | nil => rfl
  | cons c r =>
    have := basename_no_slash p c (by rw [h]; exact List.mem_cons_self)
    unfold isAbs; simp [this]

/-! ### `dirname` stays below `out` -/

theorem dropWhile_append_stop {α} (q : α → Bool) (a : α) (l2 : List α) (ha : q a = false) :
    ∀ l1 : List α, ∃ t, (l1 ++ a :: l2).dropWhile q = t ++ a :: l2
  | [] => ⟨[], by simp [List.dropWhile_cons, ha]⟩
  | x :: l1 => by
    by_cases hx : q x = true
    · obtain ⟨t, ht⟩ := dropWhile_append_stop q a l2 ha l1
      exact ⟨t, by simp [List.dropWhile_cons, hx, ht]⟩
    · exact ⟨x :: l1, by simp [List.dropWhile_cons, hx]⟩

theorem dropWhile_append_cases {α} (q : α → Bool) (l2 : List α) :
    ∀ l1 : List α, (l1.dropWhile q ≠ [] ∧ (l1 ++ l2).dropWhile q = l1.dropWhile q ++ l2) ∨
                   (l1.dropWhile q = [] ∧ (l1 ++ l2).dropWhile q = l2.dropWhile q)
  | [] => Or.inr ⟨rfl, rfl⟩
  | x :: l1 => by
    by_cases hx : q x = true
    · rcases dropWhile_append_cases q l2 l1 with h | h
      · left; simp [List.dropWhile_cons, hx, h.1, h.2]
      · right; simp [List.dropWhile_cons, hx, h.1, h.2]
    · left; simp [List.dropWhile_cons, hx]

theorem headRaw_of_SU {out p : Path} (h : SU out p) : ∃ s, headRaw p = out ++ '/' :: s := by
  obtain ⟨r, hr⟩ := h
  unfold headRaw
  have e : p.reverse = r.reverse ++ '/' :: out.reverse := by rw [← hr]; simp
  obtain ⟨t, ht⟩ := dropWhile_append_stop (fun c : Char => c != '/') '/' out.reverse (by simp) r.reverse
  exact ⟨t.reverse, by rw [e, ht]; simp⟩

theorem OutOk.last {out : Path} (ho : OutOk out) : ∃ c r, out.reverse = c :: r ∧ c ≠ '/' := by
  cases h : out.reverse with
  | nil => exact absurd (List.reverse_eq_nil_iff.mp h) ho.ne_nil
  | cons c r =>
    refine ⟨c, r, rfl, ?_⟩
    intro e
    apply ho.noSlash
    rw [← List.head?_reverse, h, e]; rfl

theorem rstripSlash_below {out s : Path} (ho : OutOk out) : U out (rstripSlash (out ++ '/' :: s)) := by
  unfold rstripSlash
  have e : (out ++ '/' :: s).reverse = ('/' :: s).reverse ++ out.reverse := by simp
  rw [e]
  rcases dropWhile_append_cases (fun c : Char => c == '/') out.reverse ('/' :: s).reverse with h | h
  · rw [h.2]
    apply SU.U
    have hsuf : (('/' :: s).reverse.dropWhile (fun c : Char => c == '/')) <:+ ('/' :: s).reverse := List.dropWhile_suffix _
    have hpre := List.reverse_prefix.mpr hsuf
    rw [List.reverse_reverse] at hpre
    obtain ⟨u, hu⟩ := hpre
    cases ht : (('/' :: s).reverse.dropWhile (fun c : Char => c == '/')).reverse with
    | nil => exact absurd (List.reverse_eq_nil_iff.mp ht) h.1
    | cons c t =>
      rw [ht] at hu
      have hc : c = '/' := by
        have := congrArg List.head? hu
        simpa using this
      refine ⟨t, ?_⟩
      rw [List.reverse_append, ht, hc]; simp
  · rw [h.2]
    obtain ⟨c, r, hc, hne⟩ := ho.last
    have : (out.reverse.dropWhile (fun c : Char => c == '/')) = out.reverse := by
      rw [hc, List.dropWhile_cons]; simp [hne]
    rw [this, List.reverse_reverse]
    exact U_self out

theorem not_all_slash {out s : Path} (ho : OutOk out) : (out ++ s).all (· == '/') = false := by
  obtain ⟨c, r, hc, hne⟩ := ho.last
  have hm : c ∈ out := by
    have : c ∈ out.reverse := by rw [hc]; exact List.mem_cons_self
    exact List.mem_reverse.mp this
  cases h : (out ++ s).all (· == '/') with
  | false => rfl
  | true =>
    have := (List.all_eq_true.mp h) c (List.mem_append_left _ hm)
    exact absurd (by simpa using this) hne

theorem U_dirname {out p : Path} (ho : OutOk out) (h : SU out p) : U out (dirname p) := by
  obtain ⟨s, hs⟩ := headRaw_of_SU h
  unfold dirname
  simp only [hs, not_all_slash ho, Bool.false_eq_true, if_false]
  exact rstripSlash_below ho

/-- the parent of `out` is not touched by `dirname` of something below: either still below `out`… -/
theorem U_cases {out p : Path} (h : U out p) : p = out ∨ SU out p := (U_iff out p).mp h

theorem basename_ne_nil {out : Path} (ho : OutOk out) : (basename out).isEmpty = false := by
  obtain ⟨c, r, hc, hne⟩ := ho.last
  unfold basename
  rw [hc, List.takeWhile_cons]
  simp [hne]

end Exmod
