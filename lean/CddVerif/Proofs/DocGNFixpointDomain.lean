import CddVerif.Proofs.DocGNFixpoint
/-!
# C08 for Google / NumPy — closure statements on the decidable domains (Boolean level)

* `InDomainG ir → InDomainG (typedUp ir edd)`: filling in the types round 1 infers stays in the domain;
* `InDomainG ir → InDomainG (backIR (expIRG ir false))`: with `emit_default_doc = False` the round-1 result itself is in
  the domain again; the same for `InDomainN`.
-/
namespace DocGNFix
open Py Doc DocRT DocGN DocGNRT C01Whole C01Google C01Numpy DocNPRT

theorem gLineOKB_complete (l : Str) (h : GScanLine l ∧ Ascii l) : gLineOKB l = true := by
  unfold gLineOKB
  simp only [Bool.and_eq_true]
  refine ⟨⟨?_, by simpa using h.1.indent⟩, by simpa using h.1.last⟩
  rw [List.all_eq_true]
  intro c hc
  simp only [Bool.and_eq_true, decide_eq_true_eq, Bool.not_eq_true']
  exact ⟨h.2 c hc, h.1.noBreak c hc⟩

theorem gEntryB_up (name : Str) (edd : Bool) (p : Param) (hn : gNameB name = true) (h : gEntryB name p = true) :
    gEntryB name (upParam edd p) = true := by
  have ge := (gEntry_sound name p h).1
  rcases upTyp_cases edd p ge.intBool with hu | ⟨hnone, v, hv, hi, hu⟩
  · have : upParam edd p = p := by unfold upParam; rw [hu]
    rw [this]; exact h
  · have gN := gName_sound name hn
    have hlines := (gEntry_sound name p h).2
    unfold gEntryB at h ⊢
    simp only [Bool.and_eq_true] at h ⊢
    obtain ⟨⟨⟨⟨h1, h2⟩, h3⟩, h4⟩, h5⟩ := h
    have hty : (upParam edd p).typ = some (Doc.tyName v) := hu
    have hdf : (upParam edd p).default = some v := hv
    have hdoc : (upParam edd p).doc = p.doc := rfl
    have tk := tyName_google_ok v hi
    have key : goodTypB (Doc.tyName v) = true ∧ compatB (some (Doc.tyName v)) v = true
        ∧ (!contains (Doc.tyName v) sOr && (match needsQuotingG (some (Doc.tyName v)) with | .ok _ => true | _ => false)) = true := by
      have kk : ∀ t : Str, (t = ['i','n','t'] ∨ t = ['b','o','o','l']) → goodTypB t = true
          ∧ (!contains t sOr && (match needsQuotingG (some t) with | .ok _ => true | _ => false)) = true := by
        intro t ht
        rcases ht with rfl | rfl
        · exact ⟨by decide, by decide⟩
        · exact ⟨by decide, by decide⟩
      have hc : compatB (some (Doc.tyName v)) v = true := by simp [compatB]
      cases v with
      | int i => exact ⟨(kk _ (Or.inl rfl)).1, hc, (kk _ (Or.inl rfl)).2⟩
      | bool b => exact ⟨(kk _ (Or.inr rfl)).1, hc, (kk _ (Or.inr rfl)).2⟩
      | float _ => exact absurd hi (by simp [IntBool])
      | str _ => exact absurd hi (by simp [IntBool])
      | none => exact absurd hi (by simp [IntBool])
      | code _ => exact absurd hi (by simp [IntBool])
    refine ⟨⟨⟨⟨?_, ?_⟩, ?_⟩, ?_⟩, ?_⟩
    · -- goodEntryB
      unfold goodEntryB at h1 ⊢
      simp only [Bool.and_eq_true] at h1 ⊢
      rw [hty, hdf, hdoc]
      rw [hv] at h1
      simp only [Bool.and_eq_true] at h1
      exact ⟨⟨h1.1.1, key.1⟩, by simp only [Bool.and_eq_true]; exact ⟨h1.2.1, key.2.1⟩⟩
    · rw [hdf]; rw [hv] at h2; exact h2
    · -- both settings of edd: same description, re-typed line
      have h3' := all_bool _ h3
      have : ∀ e, (asciiB (docText (upParam edd p) e) && adhocNoneB name (docText (upParam edd p) e)
          && gLineOKB (gLine name (upParam edd p).typ (docText (upParam edd p) e))) = true := by
        intro e
        have he := h3' e
        simp only [Bool.and_eq_true] at he ⊢
        rw [docText_up, hty]
        refine ⟨he.1, ?_⟩
        have hold := hlines e
        rw [hnone] at hold
        exact gLineOKB_complete _ (gLine_retype name _ _ gN (ge.text e).good.ne hold ⟨tk.2.2.1, tk.2.2.2⟩
          (goodTyp_tyName v (intBool_good v hi)).1.ne)
      simp only [List.all_cons, List.all_nil, Bool.and_true, Bool.and_eq_true]
      exact ⟨by simpa [Bool.and_eq_true] using this true, by simpa [Bool.and_eq_true] using this false⟩
    · rw [hdoc]; exact h4
    · rw [hty]; exact key.2.2

/-- **closure of the decidable Google domain under filling in the inferred types** -/
theorem inDomainG_typedUp (ir : IR) (edd : Bool) (h : InDomainG ir) : InDomainG (typedUp ir edd) := by
  unfold InDomainG at h ⊢
  unfold inDomainGB at h ⊢
  simp only [Bool.and_eq_true] at h ⊢
  obtain ⟨⟨⟨⟨⟨⟨h1, h2⟩, h3⟩, h4⟩, h5⟩, h6⟩, h7⟩ := h
  have hp : (typedUp ir edd).params = ir.params.map (fun np => (np.1, upParam edd np.2)) := rfl
  refine ⟨⟨⟨⟨⟨⟨h1, h2⟩, h3⟩, h4⟩, ?_⟩, ?_⟩, ?_⟩
  · rw [hp]; cases hps : ir.params with
    | nil => rw [hps] at h5; exact h5
    | cons _ _ => rfl
  · rw [hp, List.all_map, List.all_eq_true]
    intro np hnp
    have := List.all_eq_true.mp h6 np hnp
    simp only [Bool.and_eq_true] at this
    simp only [Function.comp, Bool.and_eq_true]
    exact ⟨this.1, gEntryB_up np.1 edd np.2 this.1 this.2⟩
  · rw [hp, List.map_map]; exact h7

/-! ### `emit_default_doc = False`: the round-1 result is in the domain -/

/-- the entry without its default -/
def dropDefault (p : Param) : Param := { p with default := Option.none }

theorem docText_drop (p : Param) (e : Bool) : docText (dropDefault p) e = docText p false := by
  unfold docText dropDefault
  cases p.doc with
  | none => rfl
  | some d => cases e <;> rfl

theorem gEntryB_drop (name : Str) (p : Param) (h : gEntryB name p = true) : gEntryB name (dropDefault p) = true := by
  unfold gEntryB at h ⊢
  simp only [Bool.and_eq_true] at h ⊢
  obtain ⟨⟨⟨⟨h1, h2⟩, h3⟩, h4⟩, h5⟩ := h
  refine ⟨⟨⟨⟨?_, rfl⟩, ?_⟩, h4⟩, h5⟩
  · unfold goodEntryB at h1 ⊢
    simp only [Bool.and_eq_true] at h1 ⊢
    exact ⟨h1.1, rfl⟩
  · have hf := all_bool _ h3 false
    simp only [List.all_cons, List.all_nil, Bool.and_true, Bool.and_eq_true, docText_drop]
    simp only [Bool.and_eq_true] at hf
    exact ⟨hf, hf⟩

theorem backIR_expIRG_false (ir : IR) (hret : ir.returns = Option.none) (hp : ∀ np ∈ ir.params, np.2.doc ≠ Option.none) :
    backIR (expIRG ir false) = { ir with params := ir.params.map (fun np => (np.1, dropDefault np.2)) } := by
  have hps : ∀ (ps : List (Str × Param)), (∀ np ∈ ps, np.2.doc ≠ Option.none) →
      (expParamsG false false ps).map (fun nq => (nq.1, pBack nq.2)) = ps.map (fun np => (np.1, dropDefault np.2)) := by
    intro ps
    induction ps with
    | nil => intro _; rfl
    | cons np r ih =>
      intro hd
      obtain ⟨n, p⟩ := np
      have h0 : dfltOf p false = Option.none := rfl
      simp only [expParamsG, h0, Option.isSome_none, Bool.or_self, List.map_cons, ih (fun x hx => hd x (by simp [hx]))]
      congr 2
      have hdoc := hd (n, p) (by simp)
      unfold expParamG pBack dropDefault
      simp only [h0, Bool.false_eq_true, if_false, Option.map_none]
      obtain ⟨t, d, df⟩ := p
      cases d with
      | none => exact absurd rfl hdoc
      | some d => rfl
  unfold backIR expIRG
  simp only [hps ir.params hp, Option.map_none]
  obtain ⟨doc, params, returns⟩ := ir
  simp only at hret
  subst hret
  rfl

/-- **with `emit_default_doc = False` the Google round-1 result is in the decidable domain again** -/
theorem inDomainG_hop_false (ir : IR) (h : InDomainG ir) : InDomainG (backIR (expIRG ir false)) := by
  have g := inDomainG_sound ir h
  rw [backIR_expIRG_false ir g.noRet (fun np hnp => (g.entries np hnp).base.docSome)]
  unfold InDomainG at h ⊢
  unfold inDomainGB at h ⊢
  simp only [Bool.and_eq_true] at h ⊢
  obtain ⟨⟨⟨⟨⟨⟨h1, h2⟩, h3⟩, h4⟩, h5⟩, h6⟩, h7⟩ := h
  refine ⟨⟨⟨⟨⟨⟨h1, h2⟩, h3⟩, h4⟩, ?_⟩, ?_⟩, ?_⟩
  · cases hps : ir.params with
    | nil => rw [hps] at h5; exact h5
    | cons _ _ => rfl
  · simp only [List.all_map, List.all_eq_true]
    intro np hnp
    have := List.all_eq_true.mp h6 np hnp
    simp only [Bool.and_eq_true] at this
    simp only [Function.comp, Bool.and_eq_true]
    exact ⟨this.1, gEntryB_drop np.1 np.2 this.2⟩
  · simp only [List.map_map]; exact h7

/-- **… and so is the NumPy one** -/
theorem inDomainN_hop_false (ir : IR) (h : InDomainN ir) : InDomainN (backIR (expIRG ir false)) := by
  have g := inDomainN_sound ir h
  rw [backIR_expIRG_false ir g.noRet (fun np hnp => (g.entries np hnp).base.docSome)]
  unfold InDomainN at h ⊢
  unfold inDomainNB at h ⊢
  simp only [Bool.and_eq_true] at h ⊢
  obtain ⟨⟨⟨⟨⟨⟨h1, h2⟩, h3⟩, h4⟩, h5⟩, h6⟩, h7⟩ := h
  refine ⟨⟨⟨⟨⟨⟨h1, h2⟩, h3⟩, h4⟩, ?_⟩, ?_⟩, ?_⟩
  · cases hps : ir.params with
    | nil => rw [hps] at h5; exact h5
    | cons _ _ => rfl
  · simp only [List.all_map, List.all_eq_true]
    intro np hnp
    have := List.all_eq_true.mp h6 np hnp
    simp only [Bool.and_eq_true] at this
    simp only [Function.comp, Bool.and_eq_true]
    obtain ⟨⟨⟨a1, a2⟩, a3⟩, a4⟩ := this
    refine ⟨⟨⟨a1, gEntryB_drop np.1 np.2 a2⟩, a3⟩, ?_⟩
    have hf := all_bool _ a4 false
    simp only [List.all_cons, List.all_nil, Bool.and_true, Bool.and_eq_true, docText_drop]
    exact ⟨hf, hf⟩
  · simp only [List.map_map]; exact h7

end DocGNFix
