import CddVerif.Model.DocTransCst
/-! Helper lemmas for C07 (iv): `str.find` / `str.rfind` on concatenations, Python slices with natural bounds,
    and where `maybe_replace_function_args` locates the parentheses of a canonical header. -/
namespace DocTransCst
open Py

/-- `p` occurs in `s` at index `k` -/
def occursAt (p s : Str) (k : Nat) : Prop := p.isPrefixOf (s.drop k) = true

theorem isPrefixOf_nil_right (p : Str) (hp : p ≠ []) : p.isPrefixOf ([] : Str) = false := by
  cases p with
  | nil => exact absurd rfl hp
  | cons a as => rfl

theorem occursAt_succ_cons (p : Str) (c : Char) (cs : Str) (j : Nat) : occursAt p (c :: cs) (j + 1) ↔ occursAt p cs j := by
  simp [occursAt]

theorem rfindFrom_spec (p : Str) (hp : p ≠ []) (s : Str) (i : Nat) (best : Option Nat) :
    (rfindFrom p s i best = best ∧ ∀ k, k ≤ s.length → ¬ occursAt p s k) ∨
    (∃ k, k ≤ s.length ∧ rfindFrom p s i best = some (i + k) ∧ occursAt p s k ∧
      ∀ j, k < j → j ≤ s.length → ¬ occursAt p s j) := by
  induction s generalizing i best with
  | nil =>
    left
    have he : p.isEmpty = false := by cases p <;> simp_all
    refine ⟨by simp [rfindFrom, he], ?_⟩
    intro k _
    simp [occursAt, isPrefixOf_nil_right p hp]
  | cons c cs ih =>
    simp only [rfindFrom]
    rcases ih (i + 1) (if p.isPrefixOf (c :: cs) then some i else best) with ⟨hA, hno⟩ | ⟨k, hk, hr, ho, hl⟩
    · by_cases hpre : p.isPrefixOf (c :: cs) = true
      · right
        refine ⟨0, by simp, ?_, by simpa [occursAt] using hpre, ?_⟩
        · rw [hA]; simp [hpre]
        · intro j hj hjl
          cases j with
          | zero => omega
          | succ j =>
            rw [occursAt_succ_cons]
            exact hno j (by simp at hjl; omega)
      · left
        refine ⟨by rw [hA]; simp [hpre], ?_⟩
        intro k hk
        cases k with
        | zero => simpa [occursAt] using hpre
        | succ k =>
          rw [occursAt_succ_cons]
          exact hno k (by simp at hk; omega)
    · right
      refine ⟨k + 1, by simp; omega, ?_, (occursAt_succ_cons p c cs k).2 ho, ?_⟩
      · rw [hr]; congr 1; omega
      · intro j hj hjl
        cases j with
        | zero => omega
        | succ j =>
          rw [occursAt_succ_cons]
          exact hl j (by omega) (by simp at hjl; omega)

/-- `s.rfind(p)` is the last index at which `p` occurs -/
theorem rfind_eq_some (p s : Str) (hp : p ≠ []) (k : Nat) (hk : k ≤ s.length) (ho : occursAt p s k)
    (hl : ∀ j, k < j → j ≤ s.length → ¬ occursAt p s j) : rfind s p = some k := by
  unfold rfind
  rcases rfindFrom_spec p hp s 0 none with ⟨_, hno⟩ | ⟨k', hk', hr, ho', hl'⟩
  · exact absurd ho (hno k hk)
  · rw [hr]
    congr 1
    rcases Nat.lt_trichotomy k k' with h | h | h
    · exact absurd ho' (hl k' h hk')
    · omega
    · exact absurd ho (hl' k h hk)

theorem rfind_eq_none (p s : Str) (hp : p ≠ []) (h : ∀ k, k ≤ s.length → ¬ occursAt p s k) : rfind s p = none := by
  unfold rfind
  rcases rfindFrom_spec p hp s 0 none with ⟨hr, _⟩ | ⟨k', hk', _, ho', _⟩
  · exact hr
  · exact absurd ho' (h k' hk')

theorem drop_append_ge {α} (xs ys : List α) (j : Nat) (h : xs.length ≤ j) : (xs ++ ys).drop j = ys.drop (j - xs.length) := by
  rw [List.drop_append]
  have : xs.drop j = [] := List.drop_eq_nil_of_le h
  simp [this]

theorem singleton_isPrefixOf (c : Char) (l : Str) : [c].isPrefixOf l = true ↔ l.head? = some c := by
  cases l with
  | nil => simp
  | cons a as =>
    simp only [List.isPrefixOf, List.head?_cons, Option.some.injEq, Bool.and_true, beq_iff_eq]
    exact eq_comm

theorem not_occursAt_char_of_not_mem (c : Char) (ys : Str) (h : c ∉ ys) (j : Nat) : ¬ occursAt [c] ys j := by
  intro ho
  rw [occursAt, singleton_isPrefixOf] at ho
  have : c ∈ ys.drop j := List.mem_of_mem_head? ho
  exact h (List.mem_of_mem_drop this)

/-- `(xs + c + ys).rfind(c) == len(xs)` when `c` does not occur in `ys` -/
theorem rfind_char_append (xs ys : Str) (c : Char) (h : c ∉ ys) : rfind (xs ++ c :: ys) [c] = some xs.length := by
  apply rfind_eq_some _ _ (by simp) _ (by simp)
  · simp [occursAt]
  · intro j hj _ ho
    rw [occursAt, drop_append_ge _ _ _ (by omega)] at ho
    have hj' : j - xs.length = (j - xs.length - 1) + 1 := by omega
    rw [hj', List.drop_succ_cons] at ho
    exact not_occursAt_char_of_not_mem c ys h _ ho

theorem isPrefixOf_append_self (p tl : Str) : p.isPrefixOf (p ++ tl) = true := by
  induction p with
  | nil => simp
  | cons a as ih => simp [ih]

/-- `(xs + pat + tl).rfind(pat) == len(xs)` when `pat` does not occur again later -/
theorem rfind_pat_append (xs pat tl : Str) (hp : pat ≠ []) (h : ∀ j, 0 < j → ¬ occursAt pat (pat ++ tl) j) :
    rfind (xs ++ (pat ++ tl)) pat = some xs.length := by
  apply rfind_eq_some _ _ hp _ (by simp)
  · simp [occursAt, isPrefixOf_append_self]
  · intro j hj _ ho
    rw [occursAt, drop_append_ge _ _ _ (by omega)] at ho
    exact h (j - xs.length) (by omega) ho

theorem contains_false_no_occurrence (s p : Str) (h : contains s p = false) (k : Nat) : p.isPrefixOf (s.drop k) = false := by
  induction s generalizing k with
  | nil =>
    simp only [contains] at h
    cases p with
    | nil => simp at h
    | cons a as => simp
  | cons c cs ih =>
    simp only [contains, Bool.or_eq_false_iff] at h
    cases k with
    | zero => simpa using h.1
    | succ k => simpa using ih h.2 k

theorem no_later_arrow (ann : Str) (h : contains ann sArrow = false) : ∀ j, 0 < j → ¬ occursAt sArrow (sArrow ++ ann) j := by
  intro j hj ho
  simp only [occursAt, sArrow] at ho
  match j, hj with
  | 1, _ => simp [List.isPrefixOf] at ho
  | j + 2, _ =>
    have := contains_false_no_occurrence ann sArrow h j
    simp [sArrow] at this
    simp [this] at ho

theorem no_occurrence_of_contains_false (s p : Str) (h : contains s p = false) : ∀ k, k ≤ s.length → ¬ occursAt p s k := by
  intro k _ ho
  rw [occursAt, contains_false_no_occurrence s p h k] at ho
  exact Bool.false_ne_true ho

/-- `(xs + ys).find(c, i)` finds the `c` that starts `ys` when none occurs in `xs` -/
theorem findFrom_char_append (c : Char) (xs ys : Str) (i : Nat) (h : c ∉ xs) :
    findFrom [c] (xs ++ c :: ys) i = some (i + xs.length) := by
  induction xs generalizing i with
  | nil => simp [findFrom, List.isPrefixOf]
  | cons x xs ih =>
    have hx : x ≠ c := fun e => h (by simp [e])
    have hxs : c ∉ xs := fun e => h (by simp [e])
    simp only [List.cons_append, findFrom]
    have : [c].isPrefixOf (x :: (xs ++ c :: ys)) = false := by simp [List.isPrefixOf, Ne.symm hx]
    rw [this]
    simp only [Bool.false_eq_true, if_false]
    rw [ih (i + 1) hxs]
    simp; omega

/-! ## slices with natural bounds -/

theorem clampIdx_nat (n k : Nat) (h : k ≤ n) : clampIdx n (k : Int) = k := by
  unfold clampIdx
  simp only
  have h1 : ¬ ((k : Int) < 0) := by omega
  simp only [h1, if_false]
  have h2 : ¬ ((k : Int) > (n : Int)) := by omega
  simp [h2]

theorem slice_to_nat {α} (l : List α) (k : Nat) (h : k ≤ l.length) : slice l none (some (k : Int)) = l.take k := by
  simp [slice, clampIdx_nat _ _ h]

theorem slice_from_nat {α} (l : List α) (k : Nat) (h : k ≤ l.length) : slice l (some (k : Int)) none = l.drop k := by
  simp only [slice, clampIdx_nat _ _ h]
  rw [List.take_of_length_le]
  simp

theorem rfindI_some (s p : Str) (k : Nat) (h : rfind s p = some k) : rfindI s p = (k : Int) := by simp [rfindI, h]
theorem rfindI_none (s p : Str) (h : rfind s p = none) : rfindI s p = -1 := by simp [rfindI, h]

/-! ## where the parentheses of a canonical header are located -/

/-- `value.find("(", function_name_starts_at)` -/
theorem findAtI_paren (p rest : Str) (start : Nat) (hs : start ≤ p.length) (hno : '(' ∉ p.drop start) :
    findAtI (p ++ '(' :: rest) ['('] start = (p.length : Int) := by
  unfold findAtI findAt
  have hle : ¬ (start > (p ++ '(' :: rest).length) := by simp; omega
  simp only [hle, if_false]
  have hd : (p ++ '(' :: rest).drop start = p.drop start ++ '(' :: rest := by
    rw [List.drop_append]
    have : start - p.length = 0 := by omega
    simp [this]
  rw [hd, findFrom_char_append '(' _ _ _ hno]
  simp; omega

/-- the `func_end` computation on `A ) ws -> ann :` -/
theorem funcEnd_arrow (v A ws ann : Str) (hv : v = ((A ++ ')' :: ws) ++ (sArrow ++ ann)) ++ [':'])
    (hws : ')' ∉ ws) (hann : contains ann sArrow = false) :
    rfindI v [':'] = (((A ++ ')' :: ws) ++ (sArrow ++ ann)).length : Int) ∧
    rfindEndI v sArrow (((A ++ ')' :: ws) ++ (sArrow ++ ann)).length : Int) = ((A ++ ')' :: ws).length : Int) ∧
    rfindEndI v [')'] ((A ++ ')' :: ws).length : Int) = (A.length : Int) := by
  refine ⟨?_, ?_, ?_⟩
  · apply rfindI_some
    rw [hv]
    exact rfind_char_append _ [] ':' (by simp)
  · unfold rfindEndI
    rw [slice_to_nat _ _ (by rw [hv]; simp)]
    apply rfindI_some
    have : v.take ((A ++ ')' :: ws) ++ (sArrow ++ ann)).length = (A ++ ')' :: ws) ++ (sArrow ++ ann) := by
      rw [hv]; exact List.take_left
    rw [this]
    exact rfind_pat_append _ sArrow ann (by simp [sArrow]) (no_later_arrow ann hann)
  · unfold rfindEndI
    rw [slice_to_nat _ _ (by rw [hv]; simp <;> omega)]
    apply rfindI_some
    have : v.take (A ++ ')' :: ws).length = A ++ ')' :: ws := by
      rw [hv, List.append_assoc]; exact List.take_left
    rw [this]
    exact rfind_char_append _ ws ')' hws

/-- the `func_end` computation on `A ) ws :` without any `->` -/
theorem funcEnd_plain (v A ws : Str) (hv : v = (A ++ ')' :: ws) ++ [':'])
    (hws : ')' ∉ ws) (harrow : contains (A ++ ')' :: ws) sArrow = false) :
    rfindI v [':'] = ((A ++ ')' :: ws).length : Int) ∧
    rfindEndI v sArrow ((A ++ ')' :: ws).length : Int) = -1 ∧
    rfindEndI v [')'] ((A ++ ')' :: ws).length : Int) = (A.length : Int) := by
  have htake : v.take (A ++ ')' :: ws).length = A ++ ')' :: ws := by rw [hv]; exact List.take_left
  refine ⟨?_, ?_, ?_⟩
  · apply rfindI_some
    rw [hv]
    exact rfind_char_append _ [] ':' (by simp)
  · unfold rfindEndI
    rw [slice_to_nat _ _ (by rw [hv]; simp)]
    apply rfindI_none
    rw [htake]
    exact rfind_eq_none _ _ (by simp [sArrow]) (no_occurrence_of_contains_false _ _ harrow)
  · unfold rfindEndI
    rw [slice_to_nat _ _ (by rw [hv]; simp)]
    apply rfindI_some
    rw [htake]
    exact rfind_char_append _ ws ')' hws

/-- the two slices, given the located indices -/
theorem slices_at (v p params tail : Str) (hv : v = (p ++ '(' :: params) ++ ')' :: tail) :
    slice v none (some ((p.length : Int) + 1)) = p ++ ['('] ∧
    slice v (some (((p ++ '(' :: params).length : Int) + 1 - 1)) none = ')' :: tail := by
  have e1 : ((p.length : Int) + 1) = ((p.length + 1 : Nat) : Int) := by simp
  have e2 : (((p ++ '(' :: params).length : Int) + 1 - 1) = ((p ++ '(' :: params).length : Int) := by omega
  rw [e1, e2, slice_to_nat _ _ (by rw [hv]; simp <;> omega), slice_from_nat _ _ (by rw [hv]; simp)]
  constructor
  · have hv' : v = (p ++ ['(']) ++ (params ++ ')' :: tail) := by simp [hv]
    have hl : p.length + 1 = (p ++ ['(']).length := by simp
    rw [hv', hl]; exact List.take_left
  · rw [hv]; exact List.drop_left

/-- header with a return annotation: `p ( params ) ws -> ann :` -/
theorem locateParens_arrow (v p params ws ann : Str)
    (hv : v = p ++ '(' :: params ++ ')' :: ws ++ sArrow ++ ann ++ [':'])
    (hs : (fnNameStartsAt v).toNat ≤ p.length) (hno : '(' ∉ p.drop (fnNameStartsAt v).toNat)
    (hws : ')' ∉ ws) (hann : contains ann sArrow = false) :
    locateParens v = (p ++ ['('], ')' :: ws ++ sArrow ++ ann ++ [':']) := by
  have hv1 : v = (((p ++ '(' :: params) ++ ')' :: ws) ++ (sArrow ++ ann)) ++ [':'] := by simp [hv]
  obtain ⟨h1, h2, h4⟩ := funcEnd_arrow v (p ++ '(' :: params) ws ann hv1 hws hann
  have h5 : findAtI v ['('] (fnNameStartsAt v).toNat = (p.length : Int) := by
    have hv' : v = p ++ '(' :: (params ++ ')' :: ws ++ sArrow ++ ann ++ [':']) := by simp [hv]
    rw [hv'] at hs hno ⊢
    exact findAtI_paren p _ _ hs hno
  have hv2 : v = (p ++ '(' :: params) ++ ')' :: (ws ++ sArrow ++ ann ++ [':']) := by simp [hv]
  obtain ⟨s1, s2⟩ := slices_at v p params _ hv2
  unfold locateParens
  simp only [h1, h2, h5]
  have hpos : (((p ++ '(' :: params) ++ ')' :: ws).length : Int) > -1 := by omega
  simp only [hpos, if_true, h4, s1, s2]
  simp

/-- header without a return annotation: `p ( params ) ws :` -/
theorem locateParens_plain (v p params ws : Str)
    (hv : v = p ++ '(' :: params ++ ')' :: ws ++ [':'])
    (hs : (fnNameStartsAt v).toNat ≤ p.length) (hno : '(' ∉ p.drop (fnNameStartsAt v).toNat)
    (hws : ')' ∉ ws) (harrow : contains (p ++ '(' :: params ++ ')' :: ws) sArrow = false) :
    locateParens v = (p ++ ['('], ')' :: ws ++ [':']) := by
  have hv1 : v = ((p ++ '(' :: params) ++ ')' :: ws) ++ [':'] := by simp [hv]
  have harrow' : contains ((p ++ '(' :: params) ++ ')' :: ws) sArrow = false := by
    have : (p ++ '(' :: params) ++ ')' :: ws = p ++ '(' :: params ++ ')' :: ws := by simp
    rw [this]; exact harrow
  obtain ⟨h1, h2, h4⟩ := funcEnd_plain v (p ++ '(' :: params) ws hv1 hws harrow'
  have h5 : findAtI v ['('] (fnNameStartsAt v).toNat = (p.length : Int) := by
    have hv' : v = p ++ '(' :: (params ++ ')' :: ws ++ [':']) := by simp [hv]
    rw [hv'] at hs hno ⊢
    exact findAtI_paren p _ _ hs hno
  have hv2 : v = (p ++ '(' :: params) ++ ')' :: (ws ++ [':']) := by simp [hv]
  obtain ⟨s1, s2⟩ := slices_at v p params _ hv2
  unfold locateParens
  simp only [h1, h2, h5]
  have hneg : ¬ ((-1 : Int) > -1) := by omega
  simp only [hneg, if_false, h4, s1, s2]
  simp

/-! ## the re-synthesised text versus the full parameter list -/

theorem unparsePositional_plain (i : Nat) (as : List HArg) (ds : List (Option Str)) (h : ∀ d ∈ ds, d = none) :
    unparsePositional 0 i as ds = as.map synthArg := by
  induction as generalizing i ds with
  | nil => simp [unparsePositional]
  | cons a as ih =>
    have hd : ds.head?.getD none = none := by
      cases ds with
      | nil => rfl
      | cons d ds' => simp [h d (by simp)]
    have ht : ∀ d ∈ ds.tail, d = none := fun d hd' => h d (List.mem_of_mem_tail hd')
    simp only [unparsePositional, hd, unparseArg]
    have : (i + 1 == 0) = false := by simp
    simp [this, ih (i + 1) ds.tail ht]

/-- only plain positional-or-keyword parameters without defaults -/
def PlainArgs (a : HArgs) : Prop :=
  a.posonly = [] ∧ a.vararg = none ∧ a.kwonly = [] ∧ a.kwarg = none ∧ a.defaults = []

theorem synthArgs_eq_unparseArgs (a : HArgs) (h : PlainArgs a) : synthArgs a.args = unparseArgs a := by
  obtain ⟨h1, h2, h3, h4, h5⟩ := h
  unfold unparseArgs synthArgs
  simp only [h1, h2, h3, h4, h5, List.nil_append, List.length_nil, List.map_nil, List.append_nil, List.isEmpty_nil, if_true,
    List.zip_nil_left, Nat.sub_zero]
  rw [unparsePositional_plain 0 a.args _ (by intro d hd; exact (List.mem_replicate.1 hd).2)]

end DocTransCst
