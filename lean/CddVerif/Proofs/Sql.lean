import CddVerif.Model.Sql
/-! Lemmas for C05 (SQLAlchemy emitters / parsers).  No Mathlib. -/
namespace Sql
open Py

/-! ### `sorted(keywords)` is a permutation; lookups in a keyword list without duplicate keys survive it -/

theorem insertKw_perm (x : Str × Val) (l : List (Str × Val)) : (insertKw x l).Perm (x :: l) := by
  induction l with
  | nil => exact List.Perm.refl _
  | cons y ys ih =>
    unfold insertKw
    split
    · exact (List.Perm.cons y ih).trans (List.Perm.swap x y ys)
    · exact List.Perm.refl _

theorem foldl_insertKw_perm (l acc : List (Str × Val)) :
    (l.foldl (fun acc x => insertKw x acc) acc).Perm (l.reverse ++ acc) := by
  induction l generalizing acc with
  | nil => simp
  | cons x xs ih =>
    simp only [List.foldl_cons, List.reverse_cons, List.append_assoc, List.singleton_append]
    exact (ih (insertKw x acc)).trans (List.Perm.append_left _ (insertKw_perm x acc))

theorem sortKws_perm (l : List (Str × Val)) : (sortKws l).Perm l := by
  unfold sortKws
  have := foldl_insertKw_perm l []
  simp only [List.append_nil] at this
  exact this.trans (List.reverse_perm l)

theorem kwGet_cons (y : Str × Val) (ys : List (Str × Val)) (k : Str) :
    kwGet (y :: ys) k = (kwGet ys k).or (if y.1 == k then some y.2 else none) := by
  unfold kwGet
  simp only [List.reverse_cons, List.find?_append, List.find?_cons, List.find?_nil]
  cases h : List.find? (fun x => x.1 == k) ys.reverse <;> simp
  split <;> simp_all

theorem kwGet_nil (k : Str) : kwGet [] k = none := rfl

theorem kwGet_none_of_not_mem (l : List (Str × Val)) (k : Str) (h : k ∉ l.map (·.1)) : kwGet l k = none := by
  induction l with
  | nil => rfl
  | cons y ys ih =>
    rw [kwGet_cons]
    simp only [List.map_cons, List.mem_cons, not_or] at h
    rw [ih h.2]
    have : (y.1 == k) = false := by
      apply beq_false_of_ne; exact fun e => h.1 e.symm
    simp [this]

theorem kwGet_eq_some_iff (l : List (Str × Val)) (hnd : (l.map (·.1)).Nodup) (k : Str) (v : Val) :
    kwGet l k = some v ↔ (k, v) ∈ l := by
  induction l with
  | nil => simp [kwGet_nil]
  | cons y ys ih =>
    rw [kwGet_cons]
    simp only [List.map_cons, List.nodup_cons] at hnd
    have ih := ih hnd.2
    constructor
    · intro h
      cases hk : kwGet ys k with
      | some w =>
        rw [hk] at h; simp at h; subst h
        exact List.mem_cons_of_mem _ (ih.mp hk)
      | none =>
        rw [hk] at h; simp at h
        obtain ⟨h1, h2⟩ := h
        have : y = (k, v) := by cases y; simp_all
        rw [this]; exact List.mem_cons_self
    · intro h
      rcases List.mem_cons.mp h with h | h
      · subst h
        have : kwGet ys k = none := kwGet_none_of_not_mem ys k hnd.1
        simp [this]
      · rw [ih.mpr h]; simp

theorem kwGet_perm {l l' : List (Str × Val)} (p : l.Perm l') (hnd : (l.map (·.1)).Nodup) (k : Str) :
    kwGet l k = kwGet l' k := by
  have hnd' : (l'.map (·.1)).Nodup := (p.map (·.1)).nodup_iff.mp hnd
  cases h : kwGet l k with
  | some v =>
    have := (kwGet_eq_some_iff l hnd k v).mp h
    exact ((kwGet_eq_some_iff l' hnd' k v).mpr (p.mem_iff.mp this)).symm
  | none =>
    cases h' : kwGet l' k with
    | none => rfl
    | some v =>
      have := (kwGet_eq_some_iff l' hnd' k v).mp h'
      have := (kwGet_eq_some_iff l hnd k v).mpr (p.mem_iff.mpr this)
      rw [h] at this; cases this

theorem kwGet_sortKws (l : List (Str × Val)) (hnd : (l.map (·.1)).Nodup) (k : Str) : kwGet (sortKws l) k = kwGet l k :=
  (kwGet_perm (sortKws_perm l).symm hnd k).symm


/-! ### table facts, keyword lookups on the emitted keyword list -/

/-- table facts the round trip of a scalar column needs -/
def scalarFacts (s : Str) : Bool :=
  isSqlImport (typ2col s) && isIdentifier (typ2col s) && inCol2typ (typ2col s) &&
  (col2typ (typ2col s) == (if s == c!"dict" then c!"Optional[dict]" else s)) && !startsWith s c!"Optional["

theorem tables_agree : (scalarNames ++ [c!"dict"]).all scalarFacts = true ∧ isSqlImport c!"Enum" = true := by
  decide

theorem kwGet_append (a b : List (Str × Val)) (k : Str) : kwGet (a ++ b) k = (kwGet b k).or (kwGet a k) := by
  unfold kwGet
  simp only [List.reverse_append, List.find?_append]
  cases List.find? (fun x => x.1 == k) b.reverse <;> simp

theorem kwGet_optKw (k k' : Str) (o : Option Val) : kwGet (optKw k o) k' = if k == k' then o else none := by
  cases o with
  | none => simp [optKw, kwGet]
  | some v =>
    simp only [optKw, kwGet, List.reverse_cons, List.reverse_nil, List.nil_append, List.find?_cons, List.find?_nil]
    split <;> simp_all

def kwOrder : List Str := [c!"primary_key", c!"comment", c!"server_default", c!"default", c!"nullable"]

theorem keys_optKw_sublist (k : Str) (o : Option Val) : ((optKw k o).map (·.1)).Sublist [k] := by
  cases o <;> simp [optKw]

theorem columnKws_keys_nodup (ds : DocSplit) (p : Param) (n : Option Bool) : ((columnKws ds p n).map (·.1)).Nodup := by
  have h : ((columnKws ds p n).map (·.1)).Sublist kwOrder := by
    unfold columnKws kwOrder
    simp only [List.map_append]
    exact (keys_optKw_sublist _ _).append ((keys_optKw_sublist _ _).append ((keys_optKw_sublist _ _).append
      ((keys_optKw_sublist _ _).append (keys_optKw_sublist _ _))))
  exact List.Nodup.sublist h (by decide)

theorem kwGet_columnKws (ds : DocSplit) (p : Param) (n : Option Bool) :
    kwGet (columnKws ds p n) c!"primary_key" = (if ds.pk then some (.bool true) else none) ∧
    kwGet (columnKws ds p n) c!"comment" = commentOf ds.text ∧
    kwGet (columnKws ds p n) c!"server_default" = p.serverDefault.map emitConstraint ∧
    kwGet (columnKws ds p n) c!"default" = p.default.map emitDefault ∧
    kwGet (columnKws ds p n) c!"nullable" = n.map Val.bool ∧
    kwGet (columnKws ds p n) c!"doc" = none := by
  unfold columnKws
  simp only [kwGet_append, kwGet_optKw]
  refine ⟨?_, ?_, ?_, ?_, ?_, ?_⟩ <;> simp (decide := true)

/-! ### a domain column: its arguments, and what the parser reads off them -/

/-- the type argument of a domain column -/
def typeArg (name : Str) : Typ → Arg
  | .name s => .name (typ2col s)
  | .optional (.name s) => .name (typ2col s)
  | .literal ms => .enum ms (setValueStr name)
  | .optional (.literal ms) => .enum ms (setValueStr name)
  | _ => .name []

theorem scalarFacts_of_mem {s : Str} (h : s ∈ scalarNames ++ [c!"dict"]) : scalarFacts s = true :=
  (List.all_eq_true.mp tables_agree.1) s h

theorem scalar_or_dict {s : Str} (h : (scalarNames.contains s || (Typ.name s == Typ.name c!"dict")) = true) :
    s ∈ scalarNames ++ [c!"dict"] := by
  simp only [Bool.or_eq_true, List.contains_iff_mem, beq_iff_eq, Typ.name.injEq] at h
  rcases h with h | h
  · exact List.mem_append_left _ h
  · subst h; exact List.mem_append_right _ (List.mem_singleton.mpr rfl)

theorem addFallback_of_sql (pre : List Arg) (a : Arg) (h : a.isSqlType = true) : addFallback (pre ++ [a]) = pre ++ [a] := by
  unfold addFallback
  simp [h]

theorem inferTyp_name (p : Param) (name s : Str) (n : Option Bool) (hx : p.xSqlType = none) (hi : p.itemsType = none) :
    inferTyp p name n (.name s) = .ok (n, .name (typ2col s)) := by
  simp [inferTyp, Typ.hasLiteral, hi, hx, scalarArg, Typ.render]

theorem inferTyp_opt_name (p : Param) (name s : Str) (n : Option Bool) (hx : p.xSqlType = none) (hi : p.itemsType = none) :
    inferTyp p name n (.optional (.name s)) = .ok (some true, .name (typ2col s)) := by
  simp [inferTyp, Typ.hasLiteral, hi, hx, scalarArg, Typ.render]

theorem inferTyp_lit (p : Param) (name : Str) (ms : List Str) (n : Option Bool) (h : 2 ≤ ms.length) :
    inferTyp p name n (.literal ms) = .ok (n, .enum ms (setValueStr name)) := by
  simp [inferTyp, Typ.hasLiteral, h]

theorem inferTyp_opt_lit (p : Param) (name : Str) (ms : List Str) (n : Option Bool) (h : 2 ≤ ms.length) :
    inferTyp p name n (.optional (.literal ms)) = .ok (some true, .enum ms (setValueStr name)) := by
  simp [inferTyp, Typ.hasLiteral, h]


theorem inDomain_elim {name : Str} {p : Param} (h : inDomain name p = true) :
    ∃ t, p.typ = some (some t) ∧ typOk t = true ∧ setValueStr name = name ∧ p.xSqlType = none ∧ p.itemsType = none ∧
      (p.serverDefault = none ∨ ∃ s, p.serverDefault = some (.code s)) ∧
      (isOptional t = true → hasRealDefault p = false) := by
  unfold inDomain at h
  split at h
  · rename_i t ht
    refine ⟨t, ht, ?_⟩
    simp only [Bool.and_eq_true, beq_iff_eq, Option.isNone_iff_eq_none, Bool.or_eq_true, Bool.not_eq_true'] at h
    obtain ⟨⟨⟨⟨⟨h1, h2⟩, h3⟩, h4⟩, h5⟩, h6⟩ := h
    refine ⟨h1, h2, h3, h4, ?_, ?_⟩
    · unfold serverDefaultOk at h5
      split at h5
      · rename_i s hs; exact Or.inr ⟨s, hs⟩
      · rename_i hs; exact Or.inl hs
      · cases h5
    · intro ho
      rcases h6 with h6 | h6
      · rw [ho] at h6; cases h6
      · exact h6
  · cases h

theorem typOk_cases {t : Typ} (h : typOk t = true) :
    (∃ s, t = .name s ∧ s ∈ scalarNames) ∨ (∃ ms, t = .literal ms ∧ 2 ≤ ms.length) ∨
    (∃ s, t = .optional (.name s) ∧ s ∈ scalarNames ++ [c!"dict"]) ∨ (∃ ms, t = .optional (.literal ms) ∧ 2 ≤ ms.length) := by
  cases t with
  | name s => left; exact ⟨s, rfl, by simpa [typOk, baseOk] using h⟩
  | literal ms => right; left; exact ⟨ms, rfl, by simpa [typOk, baseOk] using h⟩
  | optional u =>
    cases u with
    | name s => right; right; left; exact ⟨s, rfl, scalar_or_dict (by simpa [typOk, baseOk] using h)⟩
    | literal ms => right; right; right; exact ⟨ms, rfl, by simpa [typOk, baseOk] using h⟩
    | optional _ => simp [typOk, baseOk] at h
    | list _ => simp [typOk, baseOk] at h
    | union _ _ => simp [typOk, baseOk] at h
  | list _ => simp [typOk, baseOk] at h
  | union _ _ => simp [typOk, baseOk] at h

theorem handleColumnArgs_dom {name : Str} {p : Param} {t : Typ} (ht : p.typ = some (some t)) (hok : typOk t = true)
    (hn : setValueStr name = name) (hx : p.xSqlType = none) (hi : p.itemsType = none) :
    handleColumnArgs p true name = .ok ([.const (.str name), typeArg name t], if isOptional t then some true else none) := by
  have henum : ∀ ms nm, Arg.isSqlType (.enum ms nm) = true := fun _ _ => tables_agree.2
  unfold handleColumnArgs
  simp only [ht, if_true, setValue, hn]
  rcases typOk_cases hok with ⟨s, rfl, hs⟩ | ⟨ms, rfl, hm⟩ | ⟨s, rfl, hs⟩ | ⟨ms, rfl, hm⟩
  · have hf := scalarFacts_of_mem (List.mem_append_left _ hs)
    simp only [scalarFacts, Bool.and_eq_true] at hf
    rw [inferTyp_name p name s none hx hi]
    simp only [typeArg, isOptional]
    rw [addFallback_of_sql [.const (.str name)] (.name (typ2col s)) (by simpa [Arg.isSqlType] using hf.1.1.1.1)]
    rfl
  · rw [inferTyp_lit p name ms none hm]
    simp only [typeArg, isOptional]
    rw [addFallback_of_sql [.const (.str name)] _ (henum ms (setValueStr name))]
    rfl
  · have hf := scalarFacts_of_mem hs
    simp only [scalarFacts, Bool.and_eq_true] at hf
    rw [inferTyp_opt_name p name s none hx hi]
    simp only [typeArg, isOptional]
    rw [addFallback_of_sql [.const (.str name)] (.name (typ2col s)) (by simpa [Arg.isSqlType] using hf.1.1.1.1)]
    rfl
  · rw [inferTyp_opt_lit p name ms none hm]
    simp only [typeArg, isOptional]
    rw [addFallback_of_sql [.const (.str name)] _ (henum ms (setValueStr name))]
    rfl

/-- the type string the parser reads off the type argument (before `nullable` is applied) -/
def parsedBase : Typ → Str
  | .name s => col2typ (typ2col s)
  | .optional (.name s) => col2typ (typ2col s)
  | .literal ms => Typ.render (.literal ms)
  | .optional (.literal ms) => Typ.render (.literal ms)
  | _ => []

theorem parseArgs_fk (r : Raw) (i : Nat) (fkv : Option Str) (h : r.fk = none) :
    parseArgs r i (fkArgs fkv) = .ok { r with fk := fkv } := by
  cases fkv with
  | none => simp [fkArgs, parseArgs, ← h]
  | some v => simp [fkArgs, parseArgs, parseArg, reparse]

theorem parseArgs_dom (name : Str) {t : Typ} (hok : typOk t = true) (fkv : Option Str) :
    parseArgs {} 0 ([.const (.str name), typeArg name t] ++ fkArgs fkv) =
      .ok { typ := some (parsedBase t), xSqlType := sqlTypeOf t, fk := fkv } := by
  have scalar : ∀ s, s ∈ scalarNames ++ [c!"dict"] →
      parseArgs {} 0 ([.const (.str name), .name (typ2col s)] ++ fkArgs fkv) =
        .ok { typ := some (col2typ (typ2col s)), xSqlType := some (typ2col s), fk := fkv } := by
    intro s hs
    have hf := scalarFacts_of_mem hs
    simp only [scalarFacts, Bool.and_eq_true] at hf
    simp only [List.cons_append, List.nil_append, parseArgs, parseArg, reparse, hf.1.1.1.2, hf.1.1.2, if_true]
    simp only [show (0:Nat) == 0 from rfl, if_true, show (0 + 1 < 2) from by decide]
    rw [parseArgs_fk _ _ _ rfl]
  have lit : ∀ ms nm, parseArgs {} 0 ([.const (.str name), .enum ms nm] ++ fkArgs fkv) =
        .ok { typ := some (Typ.render (.literal ms)), xSqlType := none, fk := fkv } := by
    intro ms nm
    simp only [List.cons_append, List.nil_append, parseArgs, parseArg, reparse]
    simp only [show (0:Nat) == 0 from rfl, if_true]
    rw [parseArgs_fk _ _ _ rfl]
    rfl
  rcases typOk_cases hok with ⟨s, rfl, hs⟩ | ⟨ms, rfl, _⟩ | ⟨s, rfl, hs⟩ | ⟨ms, rfl, _⟩
  · exact scalar s (List.mem_append_left _ hs)
  · exact lit ms _
  · exact scalar s hs
  · exact lit ms _



/-! ### keyword values after the parser's `get_value`; `nullable` ↔ `Optional[…]` on the domain -/

theorem kwGet_map_getValue (l : List (Str × Val)) (k : Str) :
    kwGet (l.map (fun kv => (kv.1, getValue kv.2))) k = (kwGet l k).map getValue := by
  induction l with
  | nil => rfl
  | cons y ys ih =>
    rw [List.map_cons, kwGet_cons, kwGet_cons, ih]
    cases kwGet ys k <;> simp

theorem getValue_emitDefault (d : Val) : getValue (emitDefault d) = normVal d := by
  cases d with
  | str s =>
    by_cases h : s = NoneStr
    · subst h; decide
    · have : (Val.str s == Val.str NoneStr) = false := by simp [h]
      simp [emitDefault, this, setValue, getValue, normVal]
  | none => decide
  | bool b => cases b <;> decide
  | int i => simp [emitDefault, setValue, getValue, normVal]
  | float r => simp [emitDefault, setValue, getValue, normVal]
  | code s => simp [emitDefault, getValue, normVal]

theorem finalNullable_none (ds : DocSplit) (p : Param) :
    finalNullable ds p none = none ∨ finalNullable ds p none = some false := by
  unfold finalNullable
  by_cases h : (!ds.pk && ds.fk.isNone && hasRealDefault p) = true
  · exact Or.inr (if_pos h)
  · exact Or.inl (if_neg h)

theorem applyNullable_dom {t : Typ} (hok : typOk t = true) (ds : DocSplit) (p : Param)
    (hopt : isOptional t = true → hasRealDefault p = false) :
    applyNullable (((finalNullable ds p (if isOptional t then some true else none)).map Val.bool).map getValue)
      (some (parsedBase t)) = .ok (some t.render) := by
  have hnon : ∀ (b : Str), isOptional t = false →
      applyNullable (((finalNullable ds p (if isOptional t then some true else none)).map Val.bool).map getValue) (some b) = .ok (some b) := by
    intro b ho
    rw [ho]
    rcases finalNullable_none ds p with h | h <;> simp [h, applyNullable, getValue, truthy]
  have hopt' : isOptional t = true → finalNullable ds p (some true) = some true := by
    intro ho
    unfold finalNullable
    rw [hopt ho]; simp
  have hcol : ∀ s, s ∈ scalarNames ++ [c!"dict"] →
      col2typ (typ2col s) = (if s = c!"dict" then c!"Optional[dict]" else s) ∧ startsWith s c!"Optional[" = false := by
    intro s hs
    have hf := scalarFacts_of_mem hs
    simp only [scalarFacts, Bool.and_eq_true, beq_iff_eq, Bool.not_eq_true'] at hf
    exact ⟨by simpa using hf.1.2, hf.2⟩
  rcases typOk_cases hok with ⟨s, rfl, hs⟩ | ⟨ms, rfl, _⟩ | ⟨s, rfl, hs⟩ | ⟨ms, rfl, _⟩
  · rw [hnon _ rfl]
    have hne : s ≠ c!"dict" := by
      revert hs; simp only [scalarNames, List.mem_cons, List.not_mem_nil, or_false]
      rintro (rfl | rfl | rfl | rfl) <;> decide
    simp only [parsedBase, Typ.render, (hcol s (List.mem_append_left _ hs)).1, if_neg hne]
  · rw [hnon _ rfl]; rfl
  · simp only [isOptional, if_true, hopt' rfl, Option.map_some, getValue, applyNullable, truthy, parsedBase]
    by_cases hd : s = c!"dict"
    · subst hd
      simp only [(hcol _ hs).1, if_true]
      decide
    · simp only [(hcol s hs).1, if_neg hd, (hcol s hs).2]
      rfl
  · simp only [isOptional, if_true, hopt' rfl, Option.map_some, getValue, applyNullable, truthy, parsedBase]
    have : startsWith (Typ.render (.literal ms)) c!"Optional[" = false := by
      simp [Typ.render, startsWith, List.isPrefixOf]
    simp only [this]
    rfl


/-! ### one column: emit, then parse -/

theorem rawDoc_dom (ds : DocSplit) (p : Param) (n : Option Bool) :
    rawDoc ((sortKws (columnKws ds p n)).map (fun kv => (kv.1, getValue kv.2))) = .ok (normText ds.text) := by
  have hk := kwGet_columnKws ds p n
  have hnd := columnKws_keys_nodup ds p n
  unfold rawDoc
  simp only [kwGet_map_getValue, kwGet_sortKws _ hnd, hk.2.2.2.2.2, hk.2.1, Option.map_none]
  unfold commentOf normText
  by_cases h : (rstripChars ds.text ['.']).isEmpty = true <;> simp [h, getValue]

theorem serverDefault_dom {p : Param} (h : p.serverDefault = none ∨ ∃ s, p.serverDefault = some (.code s)) :
    (p.serverDefault.map emitConstraint).map getValue = p.serverDefault := by
  rcases h with h | ⟨s, h⟩ <;> simp [h, emitConstraint, getValue]

theorem column_round_trip_aux (name : Str) (p : Param) (hd : inDomain name p = true) :
    andThen (paramToColumn true (name, p)) columnToParam = .ok (name, normSql name p) := by
  obtain ⟨t, ht, hok, hn, hx, hi, hsd, hopt⟩ := inDomain_elim hd
  unfold paramToColumn
  simp only [handleColumnArgs_dom ht hok hn hx hi, andThen]
  generalize hds : splitDoc (p.doc.getD []) = ds
  have hk := kwGet_columnKws ds p (finalNullable ds p (if isOptional t then some true else none))
  have hnd := columnKws_keys_nodup ds p (finalNullable ds p (if isOptional t then some true else none))
  unfold columnToParam
  have hlen : ([Arg.const (Val.str name), typeArg name t] ++ fkArgs (ds.fk.map setValueStr)).length < 4 := by
    cases ds.fk <;> simp [fkArgs]
  simp only [hlen, decide_true, Bool.not_true, Bool.false_eq_true, if_false, parseArgs_dom name hok, rawDoc_dom,
    kwGet_map_getValue, kwGet_sortKws _ hnd, hk.1, hk.2.1, hk.2.2.1, hk.2.2.2.1, hk.2.2.2.2.1, hk.2.2.2.2.2,
    applyNullable_dom hok ds p hopt, serverDefault_dom hsd]
  simp only [columnName, List.cons_append, List.head?_cons, normSql, ht, normDoc, hds]
  have hpk : (if ds.pk = true then some (Val.bool true) else none).isSome = ds.pk := by
    cases ds.pk <;> rfl
  have hdef : (p.default.map emitDefault).map getValue = p.default.map normVal := by
    cases p.default <;> simp [getValue_emitDefault]
  simp only [hpk, hdef, Option.isSome_map, Option.isSome_none, Bool.false_eq_true, if_false]


/-! ### primary keys -/

theorem splitDoc_pk (d : Str) : (splitDoc d).pk = startsWith d c!"[PK]" := by
  unfold splitDoc
  by_cases h : startsWith d c!"[PK]" = true
  · simp [h]
  · have h' : startsWith d c!"[PK]" = false := by simpa using h
    simp only [h', Bool.false_eq_true, if_false]
    by_cases h2 : startsWith d c!"[FK" = true <;> simp [h2]

theorem any_optKw_other (k : Str) (o : Option Val) (h : (k == c!"primary_key") = false) :
    (optKw k o).any (fun kv => kv.1 == c!"primary_key" && kv.2 == .bool true) = false := by
  cases o <;> simp [optKw, h]

theorem isPKCol_paramToColumn {incl : Bool} {np : Str × Param} {c : ColumnCall} (h : paramToColumn incl np = .ok c) :
    isPKCol c = docHasPK np.2 := by
  unfold paramToColumn at h
  split at h
  · cases h
  · rename_i args nullable _
    simp only [Except.ok.injEq] at h
    subst h
    unfold isPKCol
    simp only
    rw [(sortKws_perm _).any_eq]
    unfold columnKws
    simp only [List.any_append, any_optKw_other _ _ (show (c!"comment" == c!"primary_key") = false by decide),
      any_optKw_other _ _ (show (c!"server_default" == c!"primary_key") = false by decide),
      any_optKw_other _ _ (show (c!"default" == c!"primary_key") = false by decide),
      any_optKw_other _ _ (show (c!"nullable" == c!"primary_key") = false by decide), Bool.or_false]
    rw [splitDoc_pk]
    unfold docHasPK
    cases startsWith (np.2.doc.getD []) c!"[PK]" <;> simp [optKw]


/-! ### dict operations -/

theorem keys_modify (d : Params) (k : Str) (f : Param → Param) : keys (modify d k f) = keys d := by
  unfold keys modify
  rw [List.map_map]
  apply List.map_congr_left
  intro kv _
  simp only [Function.comp]
  split <;> rfl

theorem has_iff_mem_keys (d : Params) (k : Str) : has d k = true ↔ k ∈ keys d := by
  unfold has keys
  simp only [List.any_eq_true, beq_iff_eq, List.mem_map]

theorem keys_set (d : Params) (k : Str) (v : Param) : keys (set d k v) = if has d k then keys d else keys d ++ [k] := by
  unfold set
  split
  · exact keys_modify _ _ _
  · simp [keys]

theorem modify_of_not_mem (d : Params) (k : Str) (f : Param → Param) (h : k ∉ keys d) : modify d k f = d := by
  unfold modify
  conv => rhs; rw [← List.map_id d]
  apply List.map_congr_left
  intro kv hkv
  have : (kv.1 == k) = false := by
    apply beq_false_of_ne
    intro e; apply h; rw [← e]; exact List.mem_map_of_mem hkv
  simp [this]

theorem mem_modify {d : Params} {k : Str} {f : Param → Param} {kv : Str × Param} (h : kv ∈ modify d k f) :
    kv ∈ d ∨ ∃ p, (kv.1, p) ∈ d ∧ kv.1 = k ∧ kv.2 = f p := by
  unfold modify at h
  obtain ⟨x, hx, rfl⟩ := List.mem_map.mp h
  by_cases hk : (x.1 == k) = true
  · right
    have hxk : x.1 = k := by simpa using hk
    refine ⟨x.2, ?_, ?_, ?_⟩
    · simp only [hk, if_true]; exact hx
    · simp only [hk, if_true]; exact hxk
    · simp only [hk, if_true]
  · left; simp only [hk]; exact hx

theorem mem_set {d : Params} {k : Str} {v : Param} {kv : Str × Param} (h : kv ∈ set d k v) :
    kv ∈ d ∨ kv = (k, v) := by
  unfold set at h
  split at h
  · rcases mem_modify h with h | ⟨p, _, h2, h3⟩
    · exact Or.inl h
    · right; cases kv; simp_all
  · rcases List.mem_append.mp h with h | h
    · exact Or.inl h
    · exact Or.inr (List.mem_singleton.mp h)

/-! ### `ensure_has_primary_key` -/

theorem idBranch_false (ps : Params) : idBranch ps = false := by
  unfold idBranch; split <;> rfl

theorem docHasPK_markPK (p : Param) : docHasPK (markPK p) = true := by
  unfold docHasPK markPK
  cases p.doc with
  | none => rfl
  | some d =>
    simp only [Option.getD_some]
    split
    · rfl
    · simp [startsWith, List.isPrefixOf]

theorem countP_modify_one (q : Param → Bool) (f : Param → Param) (k : Str) (ps : Params) (hnd : (keys ps).Nodup)
    (hk : k ∈ keys ps) (h0 : ∀ kv ∈ ps, q kv.2 = false) (h1 : ∀ p, q (f p) = true) :
    (modify ps k f).countP (fun kv => q kv.2) = 1 := by
  induction ps with
  | nil => simp [keys] at hk
  | cons x xs ih =>
    have hnd' : x.1 ∉ keys xs ∧ (keys xs).Nodup := by simpa [keys] using hnd
    have h0x : q x.2 = false := h0 x List.mem_cons_self
    have h0xs : ∀ kv ∈ xs, q kv.2 = false := fun kv hkv => h0 kv (List.mem_cons_of_mem _ hkv)
    have hcount0 : xs.countP (fun kv => q kv.2) = 0 := by
      rw [List.countP_eq_zero]; intro kv hkv; simp [h0xs kv hkv]
    by_cases hx : (x.1 == k) = true
    · have hxk : x.1 = k := by simpa using hx
      have : modify (x :: xs) k f = (x.1, f x.2) :: xs := by
        show (if (x.1 == k) = true then (x.1, f x.2) else x) :: modify xs k f = _
        rw [if_pos hx, modify_of_not_mem xs k f (hxk ▸ hnd'.1)]
      rw [this, List.countP_cons, hcount0]
      simp [h1]
    · have hk' : k ∈ keys xs := by
        simp only [keys, List.map_cons, List.mem_cons] at hk
        rcases hk with hk | hk
        · exfalso; apply hx; simp [hk]
        · exact hk
      have : modify (x :: xs) k f = x :: modify xs k f := by
        show (if (x.1 == k) = true then (x.1, f x.2) else x) :: modify xs k f = _
        rw [if_neg hx]
      rw [this, List.countP_cons, ih hnd'.2 hk' h0xs]
      simp [h0x]

/-- after `ensure_has_primary_key` the number of `[PK]` descriptions is the old number, or one if there was none -/
theorem countP_ensurePK (force : Bool) (ps : Params) (hnd : (keys ps).Nodup) :
    (ensurePK force ps).countP (fun kv => docHasPK kv.2) =
      if ps.countP (fun kv => docHasPK kv.2) = 0 then 1 else ps.countP (fun kv => docHasPK kv.2) := by
  unfold ensurePK
  by_cases hany : ps.any (fun kv => docHasPK kv.2) = true
  · rw [if_pos hany]
    have : ps.countP (fun kv => docHasPK kv.2) ≠ 0 := by
      rw [Ne, List.countP_eq_zero]
      obtain ⟨x, hx, hq⟩ := List.any_eq_true.mp hany
      intro h; exact h x hx hq
    rw [if_neg this]
  · rw [if_neg hany]
    have h0 : ∀ kv ∈ ps, docHasPK kv.2 = false := by
      intro kv hkv
      cases h : docHasPK kv.2 with
      | false => rfl
      | true => exact absurd (List.any_eq_true.mpr ⟨kv, hkv, h⟩) hany
    have hc0 : ps.countP (fun kv => docHasPK kv.2) = 0 := by
      rw [List.countP_eq_zero]; intro kv hkv; simp [h0 kv hkv]
    rw [if_pos hc0]
    have hset : (set ps c!"id" idParam).countP (fun kv => docHasPK kv.2) = 1 := by
      unfold set
      by_cases hh : has ps c!"id" = true
      · rw [if_pos hh]
        exact countP_modify_one docHasPK _ _ ps hnd ((has_iff_mem_keys _ _).mp hh) h0 (fun _ => by decide)
      · rw [if_neg hh, List.countP_append, hc0]
        decide
    simp only [idBranch_false, Bool.false_eq_true, if_false]
    split
    · rename_i c hc
      have hmem : c ∈ keys ps := by
        have : c ∈ (keys ps).filter isCandidate := by rw [hc]; exact List.mem_singleton.mpr rfl
        exact (List.mem_filter.mp this).1
      exact countP_modify_one docHasPK markPK c ps hnd hmem h0 docHasPK_markPK
    · exact hset


/-! ### `mapE` -/

theorem mapE_ok_cons {α β : Type} {f : α → Except String β} {a : α} {as : List α} {r : List β}
    (h : mapE f (a :: as) = .ok r) : ∃ b bs, f a = .ok b ∧ mapE f as = .ok bs ∧ r = b :: bs := by
  unfold mapE at h
  split at h
  · cases h
  · rename_i b hb
    split at h
    · cases h
    · rename_i bs hbs
      exact ⟨b, bs, hb, hbs, by cases h; rfl⟩

theorem mapE_countP {α β : Type} {f : α → Except String β} (q : β → Bool) (q' : α → Bool)
    (hq : ∀ a b, f a = .ok b → q b = q' a) :
    ∀ {l : List α} {r : List β}, mapE f l = .ok r → r.countP q = l.countP q' := by
  intro l
  induction l with
  | nil => intro r h; cases h; rfl
  | cons a as ih =>
    intro r h
    obtain ⟨b, bs, hb, hbs, rfl⟩ := mapE_ok_cons h
    rw [List.countP_cons, List.countP_cons, ih hbs, hq a b hb]

theorem mapE_map_fst {β : Type} {g : Str × Param → Except String β} :
    ∀ {l : Params} {r : List (Str × β)},
      mapE (keyed g) l = .ok r →
      r.map (·.1) = keys l := by
  intro l
  induction l with
  | nil => intro r h; cases h; rfl
  | cons a as ih =>
    intro r h
    obtain ⟨b, bs, hb, hbs, rfl⟩ := mapE_ok_cons h
    simp only [List.map_cons, keys]
    have : b.1 = a.1 := by
      unfold keyed at hb
      split at hb
      · cases hb
      · cases hb; rfl
    rw [this]
    congr 1
    exact ih hbs

/-- **every emission has exactly one primary key** (helper in terms of the parameter dict) -/
theorem countPK_emitCols {incl force : Bool} {ps : Params} {cols : List (Str × ColumnCall)}
    (h : emitCols incl force ps = .ok cols) :
    countPK (cols.map (·.2)) = (ensurePK force ps).countP (fun kv => docHasPK kv.2) := by
  unfold emitCols at h
  unfold countPK
  rw [List.countP_map]
  refine mapE_countP (isPKCol ∘ (·.2)) (fun kv => docHasPK kv.2) ?_ h
  intro a b hab
  unfold keyed at hab
  split at hab
  · cases hab
  · rename_i c hc
    cases hab
    exact isPKCol_paramToColumn hc


theorem ensurePK_cases (force : Bool) (ps : Params) :
    ensurePK force ps = ps ∨ (∃ c, c ∈ keys ps ∧ ensurePK force ps = modify ps c markPK) ∨
      ensurePK force ps = set ps c!"id" idParam := by
  unfold ensurePK
  split
  · exact Or.inl rfl
  · simp only [idBranch_false, Bool.false_eq_true, if_false]
    split
    · rename_i c hc
      have : c ∈ (keys ps).filter isCandidate := by rw [hc]; exact List.mem_singleton.mpr rfl
      exact Or.inr (Or.inl ⟨c, (List.mem_filter.mp this).1, rfl⟩)
    · exact Or.inr (Or.inr rfl)

theorem ensurePK_keys (force : Bool) (ps : Params) :
    keys (ensurePK force ps) = keys ps ∨ (c!"id" ∉ keys ps ∧ keys (ensurePK force ps) = keys ps ++ [c!"id"]) := by
  rcases ensurePK_cases force ps with h | ⟨c, _, h⟩ | h
  · rw [h]; exact Or.inl rfl
  · rw [h, keys_modify]; exact Or.inl rfl
  · rw [h, keys_set]
    by_cases hh : has ps c!"id" = true
    · rw [if_pos hh]; exact Or.inl rfl
    · rw [if_neg hh]; exact Or.inr ⟨fun hm => hh ((has_iff_mem_keys _ _).mpr hm), rfl⟩

theorem ensurePK_keys_nodup (force : Bool) (ps : Params) (hnd : (keys ps).Nodup) : (keys (ensurePK force ps)).Nodup := by
  rcases ensurePK_keys force ps with h | ⟨hid, h⟩
  · rw [h]; exact hnd
  · rw [h]
    apply List.nodup_append.mpr
    refine ⟨hnd, by simp, ?_⟩
    intro a ha b hb
    simp only [List.mem_singleton] at hb
    subst hb
    intro e; subst e; exact hid ha

theorem ensurePK_keys_sub (force : Bool) (ps : Params) (k : Str) (h : k ∈ keys (ensurePK force ps)) :
    k ∈ keys ps ∨ k = c!"id" := by
  rcases ensurePK_keys force ps with e | ⟨_, e⟩
  · rw [e] at h; exact Or.inl h
  · rw [e] at h
    rcases List.mem_append.mp h with h | h
    · exact Or.inl h
    · exact Or.inr (List.mem_singleton.mp h)

theorem ensurePK_ne_nil (force : Bool) (ps : Params) : ensurePK force ps ≠ [] := by
  intro h
  have hk : keys (ensurePK force ps) = [] := by rw [h]; rfl
  rcases ensurePK_keys force ps with e | ⟨_, e⟩
  · rw [hk] at e
    have hps : ps = [] := by
      cases ps with
      | nil => rfl
      | cons x xs => simp [keys] at e
    subst hps
    revert h; decide +revert
  · rw [hk] at e; simp at e

theorem inDomain_markPK (name : Str) (p : Param) : inDomain name (markPK p) = inDomain name p := by
  unfold inDomain markPK serverDefaultOk hasRealDefault
  rfl

theorem ensurePK_inDomain (force : Bool) (ps : Params) (h : ∀ kv ∈ ps, inDomain kv.1 kv.2 = true) :
    ∀ kv ∈ ensurePK force ps, inDomain kv.1 kv.2 = true := by
  intro kv hkv
  rcases ensurePK_cases force ps with e | ⟨c, _, e⟩ | e
  · rw [e] at hkv; exact h kv hkv
  · rw [e] at hkv
    rcases mem_modify hkv with hm | ⟨p, hp, _, h3⟩
    · exact h kv hm
    · rw [h3, inDomain_markPK]; exact h (kv.1, p) hp
  · rw [e] at hkv
    rcases mem_set hkv with hm | hm
    · exact h kv hm
    · rw [hm]; decide

theorem dictOfPairs_foldl (l acc : List (Str × Parsed)) (hnd : (acc.map (·.1) ++ l.map (·.1)).Nodup) :
    l.foldl (fun d kv => if d.any (·.1 == kv.1) then d.map (fun e => if e.1 == kv.1 then (e.1, kv.2) else e) else d ++ [kv]) acc
      = acc ++ l := by
  induction l generalizing acc with
  | nil => simp
  | cons x xs ih =>
    simp only [List.foldl_cons]
    have hx : acc.any (·.1 == x.1) = false := by
      rw [List.any_eq_false]
      intro e he heq
      have h1 : e.1 = x.1 := by simpa using heq
      have hd := (List.nodup_append.mp hnd).2.2 e.1 (List.mem_map_of_mem he) x.1 (by simp)
      exact hd h1
    simp only [hx, Bool.false_eq_true, if_false]
    rw [ih]
    · simp
    · simpa [List.map_append, List.append_assoc] using hnd

theorem dictOfPairs_nodup (l : List (Str × Parsed)) (hnd : (l.map (·.1)).Nodup) : dictOfPairs l = l := by
  unfold dictOfPairs
  rw [dictOfPairs_foldl l [] (by simpa using hnd)]
  rfl

/-- emit every parameter, parse every column: the composition maps pointwise -/
theorem mapE_roundtrip {β γ : Type} (f : Str × Param → Except String β) (g : β → Except String γ) (h : Str × Param → γ) :
    ∀ (l : Params), (∀ kv ∈ l, andThen (f kv) g = .ok (h kv)) →
      ∃ cols, mapE (keyed f) l = .ok cols ∧
        mapE g (cols.map (·.2)) = .ok (l.map h) ∧ cols.length = l.length := by
  intro l
  induction l with
  | nil => intro _; exact ⟨[], rfl, rfl, rfl⟩
  | cons a as ih =>
    intro hl
    obtain ⟨cols, h1, h2, h3⟩ := ih (fun kv hkv => hl kv (List.mem_cons_of_mem _ hkv))
    have ha := hl a List.mem_cons_self
    unfold andThen at ha
    split at ha
    · cases ha
    · rename_i c hc
      refine ⟨(a.1, c) :: cols, ?_, ?_, by simp [h3]⟩
      · unfold mapE; simp only [keyed, hc, h1]
      · simp only [List.map_cons]
        unfold mapE; simp only [ha, h2]


/-- the table emission of a domain interface parses back to the normal form of `ensurePK`'s result -/
theorem table_round_trip (force : Bool) (ir : IR) (hdom : ∀ kv ∈ ir.params, inDomain kv.1 kv.2 = true)
    (hnd : (keys ir.params).Nodup) (hname : setValueStr ir.name = ir.name) (hne : ir.name ≠ []) :
    andThen (emitTable force ir) parseTable =
      .ok { name := ir.name, params := (ensurePK force ir.params).map (fun kv => (kv.1, normSql kv.1 kv.2)) } := by
  obtain ⟨cols, h1, h2, h3⟩ := mapE_roundtrip (paramToColumn true) columnToParam (fun kv => (kv.1, normSql kv.1 kv.2))
    (ensurePK force ir.params) (fun kv hkv => column_round_trip_aux kv.1 kv.2 (ensurePK_inDomain force ir.params hdom kv hkv))
  unfold emitTable emitTableNamed emitCols
  simp only [h1, andThen]
  have hemp : ir.name.isEmpty = false := by
    cases hn : ir.name with
    | nil => exact absurd hn hne
    | cons _ _ => rfl
  have hcfg : (c!"config_tbl" != c!"config_tbl") = false := by decide
  simp only [hcfg, hemp, Bool.or_self, Bool.false_eq_true, if_false, Option.getD_some, hname]
  unfold parseTable
  simp only [bne_self_eq_false, Bool.false_eq_true, if_false]
  unfold parseTableCall
  have hlen : (cols.map (·.2)).length > 0 := by
    rw [List.length_map, h3]
    exact List.length_pos_iff.mpr (ensurePK_ne_nil force ir.params)
  simp only [hlen, decide_true, Bool.not_true, Bool.false_eq_true, if_false, h2]
  rw [dictOfPairs_nodup]
  rw [List.map_map]
  exact ensurePK_keys_nodup force ir.params hnd


/-! ### the class form is the table form with the name taken out -/

theorem addFallback_const_cons (v : Val) (l : List Arg) : addFallback (.const v :: l) = .const v :: addFallback l := by
  unfold addFallback
  simp only [List.any_cons, Arg.isSqlType, Bool.false_or]
  split <;> rfl

theorem handleColumnArgs_true (p : Param) (name : Str) :
    handleColumnArgs p true name =
      andThen (handleColumnArgs p false name) (fun an => .ok (.const (setValue (.str name)) :: an.1, an.2)) := by
  unfold handleColumnArgs
  simp only [if_true, Bool.false_eq_true, if_false]
  cases p.typ with
  | none => simp only [andThen]; rw [addFallback_const_cons]
  | some ot =>
    cases ot with
    | none => simp only [andThen]; rw [addFallback_const_cons]
    | some t =>
      simp only
      cases inferTyp p name none t with
      | error e => rfl
      | ok na => simp only [andThen, List.nil_append, List.singleton_append]; rw [addFallback_const_cons]

theorem paramToColumn_true (np : Str × Param) :
    paramToColumn true np = andThen (paramToColumn false np) (fun c => .ok (mergeName np.1 c)) := by
  unfold paramToColumn
  rw [handleColumnArgs_true]
  cases handleColumnArgs np.2 false np.1 with
  | error e => rfl
  | ok an => simp only [andThen, mergeName, List.cons_append]

theorem emitCols_true (force : Bool) (ps : Params) :
    emitCols true force ps =
      andThen (emitCols false force ps) (fun cols => .ok (cols.map (fun kc => (kc.1, mergeName kc.1 kc.2)))) := by
  unfold emitCols
  generalize ensurePK force ps = l
  induction l with
  | nil => rfl
  | cons a as ih =>
    unfold mapE
    rw [ih]
    simp only [keyed, paramToColumn_true a]
    cases paramToColumn false a with
    | error e => rfl
    | ok c =>
      simp only [andThen]
      cases mapE (keyed (paramToColumn false)) as with
      | error e => rfl
      | ok cols => rfl


/-- what makes a list of keyed columns safe to put in a class body: no column is called `__tablename__` / `__table__` -/
def plainNames (names : List Str) : Prop := ∀ k ∈ names, k ≠ c!"__tablename__" ∧ k ≠ c!"__table__"

instance (names : List Str) : Decidable (plainNames names) := by unfold plainNames; infer_instance

theorem mapE_stmtColumn (cols : List (Str × ColumnCall)) :
    mapE stmtColumn (cols.map (fun kc => Stmt.assignCol kc.1 kc.2)) = .ok (cols.map (fun kc => mergeName kc.1 kc.2)) := by
  induction cols with
  | nil => rfl
  | cons a as ih => simp only [List.map_cons]; unfold mapE; simp only [stmtColumn, ih]

theorem find_table_none (cols : List (Str × ColumnCall)) (h : plainNames (cols.map (·.1))) :
    (cols.map (fun kc => Stmt.assignCol kc.1 kc.2)).find? (fun s => s.target? == some c!"__table__") = none := by
  rw [List.find?_eq_none]
  intro s hs
  obtain ⟨kc, hkc, rfl⟩ := List.mem_map.mp hs
  have := (h kc.1 (List.mem_map_of_mem hkc)).2
  simp [Stmt.target?, this]

theorem find_tablename_none (cols : List (Str × ColumnCall)) (h : plainNames (cols.map (·.1))) :
    (cols.map (fun kc => Stmt.assignCol kc.1 kc.2)).filter isColumnStmt = cols.map (fun kc => Stmt.assignCol kc.1 kc.2) := by
  rw [List.filter_eq_self]
  intro s hs
  obtain ⟨kc, hkc, rfl⟩ := List.mem_map.mp hs
  have := (h kc.1 (List.mem_map_of_mem hkc)).1
  simp [isColumnStmt, Stmt.target?, this]

/-- `parse.sqlalchemy` on an emitted declarative class -/
theorem parseClass_emitted (hasDoc : Bool) (text name nm r : Str) (cols : List (Str × ColumnCall)) (h : plainNames (cols.map (·.1))) :
    parseClass { name := name,
                 body := (if hasDoc then [Stmt.docstring text] else []) ++
                         (Stmt.assignStr c!"__tablename__" nm :: (cols.map (fun kc => Stmt.assignCol kc.1 kc.2) ++ [Stmt.funcDef r])) } =
      parseTableCall { tname := setValueStr nm, metaName := c!"metadata_obj", cols := cols.map (fun kc => mergeName kc.1 kc.2) } := by
  have h1 := find_table_none cols h
  have h2 := find_tablename_none cols h
  have hne : (c!"__tablename__" == c!"__table__") = false := by decide
  have e1 : ∀ t : Str, (some c!"__tablename__" == some t) = (c!"__tablename__" == t) := fun t => by simp
  have hd : (Stmt.docstring text).target? = none := rfl
  have hf : (Stmt.funcDef r).target? = none := rfl
  have ha : (Stmt.assignStr c!"__tablename__" nm).target? = some c!"__tablename__" := rfl
  have c1 : isColumnStmt (Stmt.docstring text) = false := rfl
  have c2 : isColumnStmt (Stmt.funcDef r) = false := rfl
  have c3 : isColumnStmt (Stmt.assignStr c!"__tablename__" nm) = false := by
    simp [isColumnStmt, Stmt.target?]
  unfold parseClass classToTable
  cases hasDoc <;>
    simp only [if_true, Bool.false_eq_true, if_false, List.nil_append, List.singleton_append, List.find?_append, List.find?_cons,
      List.find?_nil, List.filter_append, List.filter_cons, List.filter_nil, hd, hf, ha, c1, c2, c3, h1, h2, e1, hne,
      Option.none_or, beq_self_eq_true, mapE_stmtColumn, List.append_nil] <;> rfl

/-- `parse.sqlalchemy` on an emitted hybrid class -/
theorem parseClass_hybrid (hasDoc : Bool) (text name nm : Str) (tbl : TableCall) (rest : List Stmt) :
    parseClass { name := name,
                 body := (if hasDoc then [Stmt.docstring text] else []) ++
                         (Stmt.assignStr c!"__tablename__" nm :: Stmt.assignTable c!"__table__" tbl :: rest) } =
      parseTableCall tbl := by
  have hne : (c!"__tablename__" == c!"__table__") = false := by decide
  have e1 : ∀ t : Str, (some c!"__tablename__" == some t) = (c!"__tablename__" == t) := fun t => by simp
  have hd : (Stmt.docstring text).target? = none := rfl
  have ha : (Stmt.assignStr c!"__tablename__" nm).target? = some c!"__tablename__" := rfl
  have ht : (Stmt.assignTable c!"__table__" tbl).target? = some c!"__table__" := rfl
  unfold parseClass classToTable
  cases hasDoc <;>
    simp only [if_true, Bool.false_eq_true, if_false, List.nil_append, List.singleton_append, List.find?_cons, hd, ha, ht, e1, hne,
      beq_self_eq_true] <;> rfl

theorem parseTableCall_meta (t : TableCall) (m : Str) : parseTableCall { t with metaName := m } = parseTableCall t := by
  unfold parseTableCall; rfl


theorem plainNames_ensurePK (force : Bool) (ps : Params) (h : plainNames (keys ps)) : plainNames (keys (ensurePK force ps)) := by
  intro k hk
  rcases ensurePK_keys_sub force ps k hk with h' | h'
  · exact h k h'
  · subst h'; constructor <;> decide

theorem variants_agree_aux (force : Bool) (ir : IR) (hk : plainNames (keys ir.params))
    (hname : setValueStr ir.name = ir.name) (hne : ir.name ≠ []) :
    andThen (emitClass force ir) parseClass = andThen (emitTable force ir) parseTable ∧
    andThen (emitHybrid force ir) parseClass = andThen (emitTable force ir) parseTable := by
  have hemp : ir.name.isEmpty = false := by
    cases hn : ir.name with
    | nil => exact absurd hn hne
    | cons _ _ => rfl
  have hcfg : (c!"config_tbl" != c!"config_tbl") = false := by decide
  have htbl : (c!"__table__" != c!"config_tbl") = true := by decide
  unfold emitClass emitHybrid emitTable emitTableNamed headerStmts
  rw [emitCols_true]
  cases hF : emitCols false force ir.params with
  | error e => exact ⟨rfl, rfl⟩
  | ok cols =>
    have hkeys : cols.map (·.1) = keys (ensurePK force ir.params) := mapE_map_fst hF
    have hplain : plainNames (cols.map (·.1)) := by rw [hkeys]; exact plainNames_ensurePK force ir.params hk
    simp only [andThen, hcfg, htbl, hemp, Bool.or_self, Bool.false_eq_true, if_false, Bool.true_or, if_true, Option.getD_some, hname]
    have hT : ∀ ht : Option Str, parseTable (ir.name, { tname := ir.name, metaName := c!"metadata", cols := (cols.map (fun kc => (kc.1, mergeName kc.1 kc.2))).map (·.2), headerText := ht }) =
              parseTableCall { tname := ir.name, metaName := c!"metadata", cols := cols.map (fun kc => mergeName kc.1 kc.2) } := by
      intro ht
      unfold parseTable
      simp only [bne_self_eq_false, Bool.false_eq_true, if_false, List.map_map]
      rfl
    constructor
    · rw [parseClass_emitted (classHasDoc ir) ir.doc ir.name ir.name _ cols hplain, hT, hname]
      exact parseTableCall_meta { tname := ir.name, metaName := c!"metadata", cols := cols.map (fun kc => mergeName kc.1 kc.2) } _
    · rw [hT]
      have := parseClass_hybrid (classHasDoc ir) ir.doc ir.name ir.name
        { tname := ir.name, metaName := c!"metadata", cols := (cols.map (fun kc => (kc.1, mergeName kc.1 kc.2))).map (·.2), headerText := tableHeaderText ir }
        [Stmt.funcDef c!"__repr__", Stmt.funcDef c!"create_from_attr"]
      rw [this, List.map_map]
      rfl

/-! ### string facts for clean descriptions -/

theorem rstripChars_of_getLast (s : Str) (cs : List Char) (h : ∀ c, s.getLast? = some c → cs.contains c = false) :
    rstripChars s cs = s := by
  unfold rstripChars
  cases hs : s.reverse with
  | nil => have : s = [] := by simpa using hs
           subst this; rfl
  | cons c rest =>
    have hl : s.getLast? = some c := by
      rw [List.getLast?_eq_head?_reverse, hs]; rfl
    have hc := h c hl
    rw [List.dropWhile_cons_of_neg (by rw [hc]; exact Bool.false_ne_true)]
    rw [← hs, List.reverse_reverse]

theorem lstrip_of_head (s : Str) (h : ∀ c, s.head? = some c → isSpaceC c = false) : lstrip s = s := by
  unfold lstrip
  cases s with
  | nil => rfl
  | cons c cs => rw [List.dropWhile_cons_of_neg (by simp [h c rfl])]

theorem findFrom_single (x : Char) (pre rest : Str) (i : Nat) (h : x ∉ pre) :
    findFrom [x] (pre ++ x :: rest) i = some (i + pre.length) := by
  induction pre generalizing i with
  | nil => simp [findFrom, List.isPrefixOf]
  | cons c cs ih =>
    have hc : c ≠ x := fun e => h (by simp [e])
    have hcs : x ∉ cs := fun e => h (by simp [e])
    simp only [List.cons_append, findFrom, List.isPrefixOf]
    have : (x == c) = false := by simp [Ne.symm hc]
    simp only [this, Bool.false_and, Bool.false_eq_true, if_false]
    rw [ih (i + 1) hcs]
    simp only [List.length_cons]
    congr 1; omega

theorem clampIdx_nat (n a : Nat) (h : a ≤ n) : clampIdx n (a : Int) = a := by
  unfold clampIdx
  have h1 : ¬ ((a : Int) < 0) := by omega
  have h2 : ¬ ((a : Int) > (n : Int)) := by omega
  simp only [h1, if_false, h2]
  simp

theorem slice_nat {α : Type} (l : List α) (a b : Nat) (ha : a ≤ l.length) (hb : b ≤ l.length) :
    slice l (some (a : Int)) (some (b : Int)) = (l.drop a).take (b - a) := by
  unfold slice
  simp only [clampIdx_nat _ _ ha, clampIdx_nat _ _ hb]

theorem slice_from {α : Type} (l : List α) (a : Nat) (ha : a ≤ l.length) :
    slice l (some (a : Int)) none = l.drop a := by
  unfold slice
  simp only [clampIdx_nat _ _ ha]
  apply List.take_of_length_le
  simp

/-- a marker in front of a description -/
inductive Marker
  | none
  | pk
  | fk (v : Str)

/-- the description as the IR writes it -/
def renderDoc : Marker → Str → Str
  | .none, t => t
  | .pk, t => c!"[PK] " ++ t
  | .fk v, t => c!"[FK(" ++ (v ++ (c!")] " ++ t))

/-- a description text the round trip keeps verbatim -/
structure CleanText (t : Str) : Prop where
  ne : t ≠ []
  head : ∀ c, t.head? = some c → isSpaceC c = false
  last : ∀ c, t.getLast? = some c → ['.'].contains c = false
  unquoted : setValueStr t = t

theorem splitDoc_pk_clean (t : Str) (h : CleanText t) :
    splitDoc (renderDoc .pk t) = { pk := true, fk := none, text := t } := by
  unfold splitDoc renderDoc
  have h1 : startsWith (c!"[PK] " ++ t) c!"[PK]" = true := by simp [startsWith, List.isPrefixOf]
  simp only [h1, if_true]
  have : (c!"[PK] " ++ t).drop 4 = ' ' :: t := by simp
  rw [this]
  have : lstrip (' ' :: t) = lstrip t := by
    unfold lstrip; rw [List.dropWhile_cons_of_pos (by decide)]
  rw [this, lstrip_of_head t h.head]

theorem splitDoc_fk_clean (v t : Str) (hv : ']' ∉ v) (h : CleanText t) :
    splitDoc (renderDoc (.fk v) t) = { pk := false, fk := some v, text := t } := by
  unfold splitDoc renderDoc
  have h1 : startsWith (c!"[FK(" ++ (v ++ (c!")] " ++ t))) c!"[PK]" = false := by simp [startsWith, List.isPrefixOf]
  have h2 : startsWith (c!"[FK(" ++ (v ++ (c!")] " ++ t))) c!"[FK" = true := by simp [startsWith, List.isPrefixOf]
  simp only [h1, h2, Bool.false_eq_true, if_false, if_true]
  have hd : c!"[FK(" ++ (v ++ (c!")] " ++ t)) = (c!"[FK(" ++ (v ++ [')'])) ++ ']' :: (' ' :: t) := by simp
  have hnot : ']' ∉ c!"[FK(" ++ (v ++ [')']) := by
    simp only [List.mem_append, List.mem_cons, List.not_mem_nil, or_false, not_or]
    exact ⟨by decide, hv, by decide⟩
  have hfind : findI (c!"[FK(" ++ (v ++ (c!")] " ++ t))) [']'] = ((v.length + 5 : Nat) : Int) := by
    unfold findI find
    rw [hd, findFrom_single ']' _ _ 0 hnot]
    simp only [List.length_append, List.length_cons, List.length_nil]
    congr 1; omega
  rw [hfind]
  have hlen : (c!"[FK(" ++ (v ++ (c!")] " ++ t))).length = v.length + 7 + t.length := by
    simp only [List.length_append, List.length_cons, List.length_nil]; omega
  have e1 : ((v.length + 5 : Nat) : Int) + 1 - 2 = ((v.length + 4 : Nat) : Int) := by omega
  have e2 : ((v.length + 5 : Nat) : Int) + 1 = ((v.length + 6 : Nat) : Int) := by omega
  have e4 : (4 : Int) = ((4 : Nat) : Int) := rfl
  rw [e1, e2, e4, slice_nat _ 4 (v.length + 4) (by omega) (by omega), slice_from _ (v.length + 6) (by omega)]
  have d1 : (c!"[FK(" ++ (v ++ (c!")] " ++ t))).drop 4 = v ++ (c!")] " ++ t) := by simp
  have d2 : (c!"[FK(" ++ (v ++ (c!")] " ++ t))).drop (v.length + 6) = ' ' :: t := by
    have : c!"[FK(" ++ (v ++ (c!")] " ++ t)) = (c!"[FK(" ++ (v ++ c!")]")) ++ (' ' :: t) := by simp
    rw [this]
    apply List.drop_left'
    simp only [List.length_append, List.length_cons, List.length_nil]; omega
  rw [d1, d2]
  have : v.length + 4 - 4 = v.length := by omega
  rw [this, List.take_left']
  · have : lstrip (' ' :: t) = lstrip t := by
      unfold lstrip; rw [List.dropWhile_cons_of_pos (by decide)]
    rw [this, lstrip_of_head t h.head]
  · rfl


theorem normText_clean (t : Str) (h : CleanText t) : normText t = some t := by
  unfold normText
  simp only [rstripChars_of_getLast t ['.'] h.last]
  have : t.isEmpty = false := by
    cases ht : t with
    | nil => exact absurd ht h.ne
    | cons _ _ => rfl
  simp [this, h.unquoted]

/-- side condition per marker: a plain description does not itself start with a marker; a foreign-key target has no
    `]` and is not wrapped in quotes -/
def MarkerOk : Marker → Str → Prop
  | .none, t => startsWith t c!"[PK]" = false ∧ startsWith t c!"[FK" = false
  | .pk, _ => True
  | .fk v, _ => ']' ∉ v ∧ setValueStr v = v

theorem splitDoc_plain (t : Str) (h1 : startsWith t c!"[PK]" = false) (h2 : startsWith t c!"[FK" = false) :
    splitDoc t = { pk := false, fk := none, text := t } := by
  unfold splitDoc
  simp [h1, h2]

theorem normDoc_clean_aux (name : Str) (m : Marker) (t : Str) (hasDefault : Bool) (ht : CleanText t) (hm : MarkerOk m t) :
    normDoc name (some (renderDoc m t)) hasDefault =
      some (renderDoc m t ++ (if hasDefault && !endsWith name c!"kwargs" then ['.'] else [])) := by
  have hemp : t.isEmpty = false := by
    cases h : t with
    | nil => exact absurd h ht.ne
    | cons _ _ => rfl
  unfold normDoc
  simp only [Option.getD_some]
  cases m with
  | none =>
    rw [show renderDoc .none t = t from rfl, splitDoc_plain t hm.1 hm.2]
    simp only [normText_clean t ht, foldDoc, Option.map_none, Bool.false_eq_true, if_false, addDot]
    split <;> simp
  | pk =>
    rw [splitDoc_pk_clean t ht]
    simp only [normText_clean t ht, foldDoc, Option.map_none, if_true, foldMarker, hemp, Bool.false_eq_true, if_false, addDot, renderDoc]
    split <;> simp
  | fk v =>
    rw [splitDoc_fk_clean v t hm.1 ht]
    simp only [normText_clean t ht, foldDoc, Option.map_some, hm.2, Bool.false_eq_true, if_false, foldMarker, hemp, addDot, renderDoc]
    split <;> simp


/-- when does `ensure_has_primary_key` leave every input column alone (apart from marking one as `[PK]`)?
    there is no column called `id`, or a `[PK]` marker exists, or the candidate rule applies -/
def KeepsColumns (force : Bool) (ps : Params) : Prop :=
  c!"id" ∉ keys ps ∨ ps.any (fun kv => docHasPK kv.2) = true ∨ (force = false ∧ ((keys ps).filter isCandidate).length = 1)

theorem ensurePK_keeps_aux (force : Bool) (ps : Params) (h : KeepsColumns force ps) :
    ensurePK force ps = ps ∨ (∃ c, c ∈ keys ps ∧ ensurePK force ps = modify ps c markPK) ∨
      (c!"id" ∉ keys ps ∧ ensurePK force ps = ps ++ [(c!"id", idParam)]) := by
  by_cases hany : ps.any (fun kv => docHasPK kv.2) = true
  · left; unfold ensurePK; rw [if_pos hany]
  · rcases h with h | h | ⟨hf, hl⟩
    · rcases ensurePK_cases force ps with e | e | e
      · exact Or.inl e
      · exact Or.inr (Or.inl e)
      · right; right
        refine ⟨h, ?_⟩
        rw [e]; unfold set
        have : has ps c!"id" = false := by
          cases hh : has ps c!"id" with
          | false => rfl
          | true => exact absurd ((has_iff_mem_keys _ _).mp hh) h
        simp [this]
    · exact absurd h hany
    · right; left
      subst hf
      match hc : (keys ps).filter isCandidate, hl with
      | [c], _ =>
        have hm : c ∈ (keys ps).filter isCandidate := by rw [hc]; exact List.mem_singleton.mpr rfl
        refine ⟨c, (List.mem_filter.mp hm).1, ?_⟩
        unfold ensurePK
        rw [if_neg hany]
        simp only [hc]


/-! ### `sqlalchemy_table_to_class` -/

theorem mapE_columnStmt (cols : List (Str × ColumnCall)) (hn : ∀ kc ∈ cols, setValueStr kc.1 = kc.1) :
    mapE columnStmt (cols.map (fun kc => mergeName kc.1 kc.2)) = .ok (cols.map (fun kc => Stmt.assignCol kc.1 kc.2)) := by
  induction cols with
  | nil => rfl
  | cons a as ih =>
    simp only [List.map_cons]
    unfold mapE
    have ha := hn a List.mem_cons_self
    have : columnStmt (mergeName a.1 a.2) = .ok (Stmt.assignCol a.1 a.2) := by
      simp only [columnStmt, mergeName, setValue, ha]
    rw [this, ih (fun kc hkc => hn kc (List.mem_cons_of_mem _ hkc))]

theorem parseClass_plain (name nm : Str) (cols : List (Str × ColumnCall)) (h : plainNames (cols.map (·.1))) :
    parseClass { name := name, body := Stmt.assignStr c!"__tablename__" nm :: cols.map (fun kc => Stmt.assignCol kc.1 kc.2) } =
      parseTableCall { tname := setValueStr nm, metaName := c!"metadata_obj", cols := cols.map (fun kc => mergeName kc.1 kc.2) } := by
  have h1 := find_table_none cols h
  have h2 := find_tablename_none cols h
  have hne : (c!"__tablename__" == c!"__table__") = false := by decide
  have e1 : ∀ t : Str, (some c!"__tablename__" == some t) = (c!"__tablename__" == t) := fun t => by simp
  have ha : (Stmt.assignStr c!"__tablename__" nm).target? = some c!"__tablename__" := rfl
  have c3 : isColumnStmt (Stmt.assignStr c!"__tablename__" nm) = false := by
    simp [isColumnStmt, Stmt.target?]
  unfold parseClass classToTable
  simp only [List.find?_cons, List.filter_cons, ha, c3, h1, h2, e1, hne, beq_self_eq_true, mapE_stmtColumn,
    Bool.false_eq_true, if_false]
  rfl

/-- turning a table whose columns are called by plain names into a class and parsing that class gives the parse of the table -/
theorem tableToClass_parse (target t m : Str) (cols : List (Str × ColumnCall)) (hplain : plainNames (cols.map (·.1)))
    (hn : ∀ kc ∈ cols, setValueStr kc.1 = kc.1) (ht : setValueStr t = t) :
    andThen (tableToClass (target, { tname := t, metaName := m, cols := cols.map (fun kc => mergeName kc.1 kc.2) })) parseClass =
      parseTableCall { tname := t, metaName := m, cols := cols.map (fun kc => mergeName kc.1 kc.2) } := by
  unfold tableToClass
  simp only [mapE_columnStmt cols hn, andThen]
  rw [parseClass_plain _ _ cols hplain, ht, ht]
  exact parseTableCall_meta { tname := t, metaName := m, cols := cols.map (fun kc => mergeName kc.1 kc.2) } _

end Sql
