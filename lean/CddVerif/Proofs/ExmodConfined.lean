import CddVerif.Proofs.Exmod
import CddVerif.Proofs.ExmodPaths
/-! Confinement of the real (non-dry) run below the output directory — lemmas for `C20.confined_partial`. -/
set_option linter.unusedSimpArgs false
set_option linter.unusedVariables false
namespace Exmod
open Py

/-! ### the abstract file system under the model's updates -/

/-- the update `setFile` applies to an existing entry -/
def upd (p : Path) (f : PyFile) (kv : Path × PyFile) : Path × PyFile := if kv.1 == p then (p, f) else kv

theorem find_map_set (p : Path) (f : PyFile) :
    ∀ files : List (Path × PyFile), files.any (·.1 == p) = true →
      (files.map (upd p f)).find? (·.1 == p) = some (p, f)
  | [], h => by cases h
  | kv :: files, h => by
    rw [List.map_cons, List.find?_cons]
    cases hk : (kv.1 == p) with
    | true =>
      have : upd p f kv = (p, f) := by unfold upd; rw [hk]; rfl
      rw [this]
      have : ((p, f).1 == p) = true := beq_self_eq_true p
      rw [this]
    | false =>
      have e : upd p f kv = kv := by unfold upd; rw [hk]; rfl
      rw [e, hk]
      have h' : files.any (·.1 == p) = true := by
        rw [List.any_cons, hk, Bool.false_or] at h; exact h
      exact find_map_set p f files h'

theorem find_map_other (p q : Path) (f : PyFile) (hq : q ≠ p) :
    ∀ files : List (Path × PyFile), (files.map (upd p f)).find? (·.1 == q) = files.find? (·.1 == q)
  | [] => rfl
  | kv :: files => by
    rw [List.map_cons, List.find?_cons, List.find?_cons]
    cases hk : (kv.1 == p) with
    | true =>
      have e : upd p f kv = (p, f) := by unfold upd; rw [hk]; rfl
      have hk' : kv.1 = p := eq_of_beq hk
      have h1 : (p == q) = false := beq_eq_false_iff_ne.mpr (fun e => hq e.symm)
      have h2 : (kv.1 == q) = false := by rw [hk']; exact h1
      rw [e, h2]
      show (match (p == q) with | true => _ | false => _) = _
      rw [h1]
      exact find_map_other p q f hq files
    | false =>
      have e : upd p f kv = kv := by unfold upd; rw [hk]; rfl
      rw [e]
      cases (kv.1 == q) with
      | true => rfl
      | false => exact find_map_other p q f hq files

theorem setFile_eq (fs : FS) (p : Path) (f : PyFile) :
    fs.setFile p f = if fs.isfile p then { fs with files := fs.files.map (upd p f) } else { fs with files := fs.files ++ [(p, f)] } := rfl

theorem find_none_of_not_isfile (fs : FS) (p : Path) (h : fs.isfile p = false) : fs.files.find? (·.1 == p) = none := by
  rw [List.find?_eq_none]
  intro x hx
  have := (List.any_eq_false.mp h) x hx
  exact this

theorem read_setFile_same (fs : FS) (p : Path) (f : PyFile) : (fs.setFile p f).read p = some f := by
  rw [setFile_eq]
  cases h : fs.isfile p with
  | true =>
    show (((fs.files.map (upd p f)).find? (·.1 == p)).map (·.2)) = some f
    rw [find_map_set p f fs.files h]; rfl
  | false =>
    show (((fs.files ++ [(p, f)]).find? (·.1 == p)).map (·.2)) = some f
    rw [List.find?_append, find_none_of_not_isfile fs p h]
    show ((List.find? (fun x => x.1 == p) [(p, f)]).map (·.2)) = some f
    rw [List.find?_cons]
    have : ((p, f).1 == p) = true := beq_self_eq_true p
    rw [this]; rfl

theorem read_setFile_other (fs : FS) (p q : Path) (f : PyFile) (hq : q ≠ p) : (fs.setFile p f).read q = fs.read q := by
  rw [setFile_eq]
  cases h : fs.isfile p with
  | true =>
    show (((fs.files.map (upd p f)).find? (·.1 == q)).map (·.2)) = _
    rw [find_map_other p q f hq]; rfl
  | false =>
    show (((fs.files ++ [(p, f)]).find? (·.1 == q)).map (·.2)) = (fs.files.find? (·.1 == q)).map (·.2)
    rw [List.find?_append]
    cases hf : fs.files.find? (·.1 == q) with
    | some x => rfl
    | none =>
      have h1 : ((p, f).1 == q) = false := beq_eq_false_iff_ne.mpr (fun e => hq e.symm)
      show ((List.find? (fun x => x.1 == q) [(p, f)]).map (·.2)) = none
      rw [List.find?_cons, h1]; rfl

theorem isdir_setFile (fs : FS) (p q : Path) (f : PyFile) : (fs.setFile p f).isdir q = fs.isdir q := by
  rw [setFile_eq]; cases fs.isfile p <;> rfl

theorem isdir_addDir (fs : FS) (p q : Path) (h : fs.isdir q = true) : (fs.addDir p).isdir q = true := by
  unfold FS.addDir FS.isdir at *
  simp only [List.contains_eq_mem, List.mem_append, decide_eq_true_eq] at *
  exact Or.inl h

theorem read_addDir (fs : FS) (p q : Path) : (fs.addDir p).read q = fs.read q := rfl

theorem isfile_iff_read (fs : FS) (p : Path) : fs.isfile p = true ↔ ∃ g, fs.read p = some g := by
  unfold FS.isfile FS.read
  constructor
  · intro h
    obtain ⟨x, hx, hxp⟩ := List.any_eq_true.mp h
    cases hf : fs.files.find? (·.1 == p) with
    | some y => exact ⟨y.2, rfl⟩
    | none =>
      have := (List.find?_eq_none.mp hf) x hx
      exact absurd hxp this
  · rintro ⟨g, hg⟩
    cases hf : fs.files.find? (·.1 == p) with
    | none => rw [hf] at hg; cases hg
    | some y =>
      have h1 := List.find?_some hf
      have h2 := List.mem_of_find?_eq_some hf
      exact List.any_eq_true.mpr ⟨y, h2, h1⟩

/-! ### invariant and effect predicate -/

/-- every path an effect creates or changes lies below `out` -/
def Conf (out : Path) (e : Effect) : Prop := ∀ p, e.target? = some p → U out p

/-- `file` exists and defines `n` at top level -/
def HasDef (fs : FS) (file : Path) (n : Str) : Prop := ∃ g, fs.read file = some g ∧ n ∈ defNames g

/-- the parent of the output directory exists, and the listed (file, name) pairs are still defined -/
def IS (out : Path) (S : List (Path × Str)) (fs : FS) : Prop :=
  fs.isdir (dirname out) = true ∧ ∀ x ∈ S, HasDef fs x.1 x.2

theorem IS.mono {out : Path} {S S' : List (Path × Str)} {fs : FS} (h : IS out S fs) (hs : ∀ x ∈ S', x ∈ S) : IS out S' fs :=
  ⟨h.1, fun x hx => h.2 x (hs x hx)⟩

abbrev ItemsOk : Item → Prop := fun it => itemOk it = true

section
variable {out : Path} {S : List (Path × Str)}

theorem conf_print (s : Str) : AllEff ItemsOk (IS out S) (Conf out) (print s) :=
  allEff_print s (by intro p hp; cases hp)

/-- a primitive that logs exactly one effect and updates the state by `upd` when it succeeds -/
theorem conf_osMkdir (p : Path) (eo : Bool) (hp : U out p) : AllEff ItemsOk (IS out S) (Conf out) (osMkdir p eo) := by
  intro fs hfs _
  unfold osMkdir
  have hc : ∀ e ∈ [Effect.mkdir p], Conf out e := by
    intro e he
    rw [List.mem_singleton.mp he]
    intro q hq
    cases hq; exact hp
  split
  · exact ⟨hc, fun _ _ => hfs⟩
  · split
    · exact ⟨hc, fun _ _ => hfs⟩
    · refine ⟨hc, fun _ _ => ⟨isdir_addDir _ _ _ hfs.1, ?_⟩⟩
      intro x hx
      exact hfs.2 x hx

theorem conf_openA (p : Path) (hp : U out p) : AllEff ItemsOk (IS out S) (Conf out) (openA p) := by
  intro fs hfs _
  unfold openA
  have hc : ∀ e ∈ [Effect.openA p], Conf out e := by
    intro e he
    rw [List.mem_singleton.mp he]
    intro q hq
    cases hq; exact hp
  split
  · exact ⟨hc, fun _ _ => hfs⟩
  · rename_i hnf
    split
    · exact ⟨hc, fun _ _ => hfs⟩
    · split
      · exact ⟨hc, fun _ _ => hfs⟩
      · refine ⟨hc, fun _ _ => ⟨by show (FS.setFile _ _ _).isdir _ = true; rw [isdir_setFile]; exact hfs.1, ?_⟩⟩
        intro x hx
        obtain ⟨g, hg, hn⟩ := hfs.2 x hx
        have hne : x.1 ≠ p := by
          intro e
          have : fs.isfile p = true := (isfile_iff_read fs p).mpr ⟨g, e ▸ hg⟩
          exact hnf this
        exact ⟨g, by show (FS.setFile _ _ _).read _ = _; rw [read_setFile_other _ _ _ _ hne]; exact hg, hn⟩

theorem defNames_emittedContent (kind : EmitKind) (name : Str) (old : PyFile) :
    ∀ n ∈ defNames old, n ∈ defNames (emittedContent kind name (some old)) := by
  intro n hn
  unfold emittedContent defNames at *
  simp only [List.mem_filterMap, List.filterMap_append] at *
  obtain ⟨st, hst, hsn⟩ := hn
  simp only [List.mem_append, List.mem_filterMap, List.mem_filter]
  left; left
  refine ⟨st, ⟨hst, ?_⟩, hsn⟩
  cases st <;> simp_all

/-- writing the emitted symbol into a (possibly existing) file keeps every definition that was there -/
theorem conf_writeEmitted (p : Path) (kind : EmitKind) (name : Str) (hp : U out p) :
    AllEff ItemsOk (IS out S) (Conf out) (writeFile p (emittedContent kind name)) := by
  intro fs hfs _
  unfold writeFile
  have hc : ∀ e ∈ [Effect.openW p], Conf out e := by
    intro e he
    rw [List.mem_singleton.mp he]
    intro q hq
    cases hq; exact hp
  split
  · exact ⟨hc, fun _ _ => hfs⟩
  · split
    · exact ⟨hc, fun _ _ => hfs⟩
    · refine ⟨hc, fun _ _ => ⟨by show (FS.setFile _ _ _).isdir _ = true; rw [isdir_setFile]; exact hfs.1, ?_⟩⟩
      intro x hx
      obtain ⟨g, hg, hn⟩ := hfs.2 x hx
      by_cases hxp : x.1 = p
      · refine ⟨emittedContent kind name (fs.read p), by show (FS.setFile _ _ _).read _ = _; rw [hxp, read_setFile_same], ?_⟩
        rw [← hxp, hg]
        exact defNames_emittedContent kind name g _ hn
      · exact ⟨g, by show (FS.setFile _ _ _).read _ = _; rw [read_setFile_other _ _ _ _ hxp]; exact hg, hn⟩

/-- writing a file that does not exist yet cannot remove a definition -/
theorem conf_writeFresh (p : Path) (c : Option PyFile → PyFile) (hp : U out p) :
    Spec ItemsOk (fun fs => IS out S fs ∧ fs.isfile p = false) (Conf out) (writeFile p c) (fun _ fs => IS out S fs) := by
  intro fs hfs _
  unfold writeFile
  have hc : ∀ e ∈ [Effect.openW p], Conf out e := by
    intro e he
    rw [List.mem_singleton.mp he]
    intro q hq
    cases hq; exact hp
  split
  · exact ⟨hc, fun _ _ => hfs.1⟩
  · split
    · exact ⟨hc, fun _ _ => hfs.1⟩
    · refine ⟨hc, fun _ _ => ⟨by show (FS.setFile _ _ _).isdir _ = true; rw [isdir_setFile]; exact hfs.1.1, ?_⟩⟩
      intro x hx
      obtain ⟨g, hg, hn⟩ := hfs.1.2 x hx
      have hne : x.1 ≠ p := by
        intro e
        have : fs.isfile p = true := (isfile_iff_read fs p).mpr ⟨g, e ▸ hg⟩
        rw [hfs.2] at this; cases this
      exact ⟨g, by show (FS.setFile _ _ _).read _ = _; rw [read_setFile_other _ _ _ _ hne]; exact hg, hn⟩

/-- any write, when no definition has to be remembered -/
theorem conf_writeAny (p : Path) (c : Option PyFile → PyFile) (hp : U out p) :
    AllEff ItemsOk (IS out []) (Conf out) (writeFile p c) := by
  intro fs hfs _
  unfold writeFile
  have hc : ∀ e ∈ [Effect.openW p], Conf out e := by
    intro e he
    rw [List.mem_singleton.mp he]
    intro q hq
    cases hq; exact hp
  split
  · exact ⟨hc, fun _ _ => hfs⟩
  · split
    · exact ⟨hc, fun _ _ => hfs⟩
    · exact ⟨hc, fun _ _ => ⟨by show (FS.setFile _ _ _).isdir _ = true; rw [isdir_setFile]; exact hfs.1, by intro x hx; cases hx⟩⟩

/-! ### `makedirs` below `out` creates only below `out` (the parent of `out` exists) -/

theorem makedirs_head_cases (ho : OutOk out) {t : Path} (ht : U out t) :
    U out (if (basename t).isEmpty then dirname (dirname t) else dirname t) ∨
    (if (basename t).isEmpty then dirname (dirname t) else dirname t) = dirname out := by
  rcases U_cases ht with rfl | hs
  · right; rw [basename_ne_nil ho]; rfl
  · cases hb : (basename t).isEmpty with
    | false => left; exact U_dirname ho hs
    | true =>
      simp only [if_true]
      rcases U_cases (U_dirname ho hs) with e | hs2
      · right; rw [e]
      · left; exact U_dirname ho hs2

theorem pexists_of_isdir (fs : FS) (p : Path) (h : fs.isdir p = true) : fs.pexists p = true := by
  unfold FS.pexists; rw [h]; rfl

theorem conf_makedirsAux (ho : OutOk out) : ∀ (fuel : Nat) (t : Path) (eo : Bool), U out t →
    AllEff ItemsOk (IS out S) (Conf out) (makedirsAux fuel t eo)
  | 0, t, eo, ht => by unfold makedirsAux; exact conf_osMkdir t eo ht
  | fuel + 1, t, eo, ht => by
    unfold makedirsAux
    have hcases := makedirs_head_cases (out := out) ho ht
    split
    rename_i head tail heq
    have hhead : head = (if (basename t).isEmpty then dirname (dirname t) else dirname t) := by
      cases hb : (basename t).isEmpty <;> simp [hb] at heq <;> exact heq.1.symm
    rw [← hhead] at hcases
    refine spec_bind (spec_pexists head) (fun b => ?_)
    dsimp only
    apply spec_ite
    · intro hc
      rcases hcases with hu | he
      · exact spec_bind (spec_conseq (conf_makedirsAux ho fuel head eo hu) (fun _ h => h.1) (fun _ _ h => h))
          (fun _ => conf_osMkdir t eo ht)
      · intro fs hfs _
        exfalso
        have hb : b = true := by rw [hfs.2, he]; exact pexists_of_isdir fs _ hfs.1.1
        rw [hb] at hc
        simp at hc
    · intro _
      exact spec_conseq (conf_osMkdir t eo ht) (fun _ h => h.1) (fun _ _ h => h)

theorem conf_makedirs (ho : OutOk out) (t : Path) (eo : Bool) (ht : U out t) :
    AllEff ItemsOk (IS out S) (Conf out) (makedirs t eo) := by
  unfold makedirs; exact conf_makedirsAux ho _ t eo ht

/-! ### `_emit_symbol` and `emit_file_on_hierarchy` in a real run -/

/-- `if <cond> and not path.isfile(p): file(…, p, "wt")` — the file is new, so no definition can be lost -/
theorem conf_guardedFresh (p : Path) (x : Bool) (c : Option PyFile → PyFile) (hp : U out p) :
    AllEff ItemsOk (IS out S) (Conf out)
      (isfile p >>= fun b => if (x && !b) = true then writeFile p c else pure ()) := by
  refine spec_bind (spec_isfile p) (fun b => ?_)
  apply spec_ite
  · intro hc
    have hb : b = false := by
      cases b with
      | false => rfl
      | true => simp at hc
    exact spec_conseq (conf_writeFresh p _ hp) (fun fs h => ⟨h.1, by rw [← h.2, hb]⟩) (fun _ _ h => h)
  · intro _; exact spec_pure (fun _ h => h.1)

end

/-- one step of structural decomposition of a confinement goal; path side conditions are taken from the context -/
macro "conf_step" : tactic =>
  `(tactic| first
    | exact allEff_pure _
    | exact allEff_raise _
    | exact allEff_isdir _
    | exact allEff_isfile _
    | exact allEff_pexists _
    | exact allEff_readFile _
    | exact allEff_note _
    | (apply conf_osMkdir; assumption)
    | (apply conf_openA; assumption)
    | (apply conf_writeEmitted; assumption)
    | (apply conf_makedirs <;> assumption)
    | (apply conf_guardedFresh; assumption)
    | (apply conf_writeAny; assumption)
    | apply allEff_mapErr
    | (apply allEff_forEach; intro _)
    | (apply allEff_mapM'; intro _)
    | (apply allEff_bind; rotate_left; intro _; rotate_left)
    | (apply allEff_ite <;> intro _)
    | split)

section
variable {out : Path} {S : List (Path × Str)}

theorem conf_emitSymbol (c : Ctx) (hdry : c.dryRun = false) (name : Str) (ef ifp : Path) (hef : U out ef) (hifp : U out ifp) :
    AllEff ItemsOk (IS out S) (Conf out) (emitSymbol c name ef ifp) := by
  unfold emitSymbol
  simp only [hdry, Bool.false_eq_true, if_false]
  repeat conf_step

/-- hypotheses on the folder visit: its output directory lies below `out`; when it *is* `out`, it is not taken for the
    new module itself; the new module name is a relative path -/
structure FolderOk (out : Path) (c : Ctx) : Prop where
  dry : c.dryRun = false
  od : U out c.outputDirectory
  notModule : c.outputDirectory = out → outputDirIsModule c = false
  nmnRel : isAbs c.newModuleName = false

theorem U_modPath (ho : OutOk out) {c : Ctx} (hc : FolderOk out c) (modName : Str) (hm : isAbs (replace modName ['.'] ['/']) = false) :
    SU out (joinL c.outputDirectory [c.newModuleName, replace modName ['.'] ['/']]) := by
  show SU out (join2 (join2 c.outputDirectory c.newModuleName) (replace modName ['.'] ['/']))
  exact SU_join2 ho (SU_join2 ho hc.od hc.nmnRel).U hm

theorem isAbs_INIT : isAbs INIT = false := by decide

theorem conf_efhPrepare (ho : OutOk out) (c : Ctx) (hc : FolderOk out c) (modName : Str)
    (hm : isAbs (replace modName ['.'] ['/']) = false) :
    AllEff ItemsOk (IS out S) (Conf out) (efhPrepare c modName) := by
  unfold efhPrepare
  simp only [hc.dry, Bool.false_eq_true, if_false]
  -- the directory `mod_path` is strictly below `out`
  have hmp : SU out (if outputDirIsModule c = true then c.outputDirectory
      else joinL c.outputDirectory [c.newModuleName, replace modName ['.'] ['/']]) := by
    cases hodim : outputDirIsModule c with
    | false => simp only [Bool.false_eq_true, if_false]; exact U_modPath ho hc modName hm
    | true =>
      simp only [if_true]
      rcases U_cases hc.od with e | hs
      · rw [hc.notModule e] at hodim; cases hodim
      · exact hs
  have h1 := hmp.U
  have h2 := (SU_join2 ho (U_dirname ho hmp) isAbs_INIT).U
  repeat conf_step

/-- second half, when the three paths it derives lie below `out` (second phase: `orig = output_directory/<file>`) -/
theorem conf_efhEmit_paths (ho : OutOk out) (c : Ctx) (hdry : c.dryRun = false) (name : Str) (rel : Path) (irName : Option Str)
    (hef : U out (join2 (if outputDirIsModule c = true then c.outputDirectory else join2 c.outputDirectory c.newModuleName) rel))
    (hifp : U out (join2 (if outputDirIsModule c = true then c.outputDirectory else join2 c.outputDirectory c.newModuleName)
                    (join2 (dirname rel) INIT)))
    (hdir : U out (dirname (join2 (if outputDirIsModule c = true then c.outputDirectory else join2 c.outputDirectory c.newModuleName) rel))) :
    AllEff ItemsOk (IS out S) (Conf out) (efhEmit c name rel irName) := by
  unfold efhEmit
  simp only [hdry, Bool.false_eq_true, if_false]
  repeat (first | (apply conf_emitSymbol <;> assumption) | conf_step)

theorem conf_efhEmit_B (ho : OutOk out) (c : Ctx) (hc : FolderOk out c) (name : Str) (b : Path) (hb : isAbs b = false)
    (irName : Option Str) :
    AllEff ItemsOk (IS out S) (Conf out) (efhEmit c name (join2 c.outputDirectory b) irName) := by
  have hrel : SU out (join2 c.outputDirectory b) := SU_join2 ho hc.od hb
  have habs : isAbs (join2 c.outputDirectory b) = true := hrel.U.isAbs ho
  have hd : U out (dirname (join2 c.outputDirectory b)) := U_dirname ho hrel
  have hi : SU out (join2 (dirname (join2 c.outputDirectory b)) INIT) := SU_join2 ho hd isAbs_INIT
  apply conf_efhEmit_paths ho c hc.dry
  · rw [join2_abs habs]; exact hrel.U
  · rw [join2_abs (hi.U.isAbs ho)]; exact hi.U
  · rw [join2_abs habs]; exact hd

/-- second half in the first phase: the original path is the (absolute) source file of the node, which still defines the
    name, so nothing is emitted -/
theorem conf_efhEmit_A (c : Ctx) (name : Str) (rel : Path) (irName : Option Str) (habs : isAbs rel = true)
    (hS : (rel, name) ∈ S) : AllEff ItemsOk (IS out S) (Conf out) (efhEmit c name rel irName) := by
  unfold efhEmit
  simp only [join2_abs habs]
  refine spec_bind (spec_isfile rel) (fun b => ?_)
  refine spec_bind (mid := fun sif fs => IS out S fs ∧ sif = true) ?_ (fun sif => ?_)
  · apply spec_ite
    · intro _
      refine spec_bind (spec_readFile rel) (fun existent => ?_)
      apply spec_pure
      intro fs hfs
      refine ⟨hfs.1.1, ?_⟩
      obtain ⟨g, hg, hn⟩ := hfs.1.1.2 _ hS
      have : g = existent := by
        have := hfs.2
        rw [hg] at this; exact Option.some.inj this
      rw [← this]
      exact List.any_eq_true.mpr ⟨name, hn, beq_self_eq_true name⟩
    · intro hb fs hfs _
      exfalso
      obtain ⟨g, hg, _⟩ := hfs.1.2 _ hS
      have : fs.isfile rel = true := (isfile_iff_read fs rel).mpr ⟨g, hg⟩
      rw [← hfs.2] at this
      exact hb this
  · apply spec_ite
    · intro hcnd fs hfs _
      exfalso
      rw [hfs.2] at hcnd
      simp at hcnd
    · intro _; exact spec_pure (fun _ h => h.1)

theorem conf_emitFileOnHierarchy (ho : OutOk out) (c : Ctx) (hc : FolderOk out c) (mn key : Str) (orig : Path)
    (irName : Option Str)
    (hm : isAbs (replace (rpartition key ['.']).1 ['.'] ['/']) = false)
    (hstrip : startsWith orig (replace mn ['.'] ['/'] ++ ['/']) = false)
    (hcase : (∃ b, isAbs b = false ∧ orig = join2 c.outputDirectory b) ∨
             (isAbs orig = true ∧ (orig, efhName (rpartition key ['.']).2.2 irName) ∈ S)) :
    AllEff ItemsOk (IS out S) (Conf out) (emitFileOnHierarchy c mn key orig irName) := by
  unfold emitFileOnHierarchy
  have hrel : efhRel mn orig = orig := by unfold efhRel; simp only [hstrip, Bool.false_eq_true, if_false]
  rw [hrel]
  have h2 : AllEff ItemsOk (IS out S) (Conf out) (efhEmit c (efhName (rpartition key ['.']).2.2 irName) orig irName) := by
    rcases hcase with ⟨b, hb, rfl⟩ | ⟨habs, hS⟩
    · exact conf_efhEmit_B ho c hc _ b hb irName
    · exact conf_efhEmit_A c _ orig irName habs hS
  have h1 := conf_efhPrepare (S := S) ho c hc (rpartition key ['.']).1 hm
  repeat (first | exact h1 | exact h2 | conf_step)

/-! ### `get_module_contents`: every entry names a definition of the file it points to -/

theorem dictSet_forall {β} (R : β → Prop) (d : List (Str × β)) (k : Str) (v : β)
    (hd : ∀ kv ∈ d, R kv.2) (hv : R v) : ∀ kv ∈ dictSet d k v, R kv.2 := by
  unfold dictSet
  split
  · intro kv hkv
    obtain ⟨x, hx, rfl⟩ := List.mem_map.mp hkv
    split
    · exact hv
    · exact hd x hx
  · intro kv hkv
    rcases List.mem_append.mp hkv with h | h
    · exact hd kv h
    · rw [List.mem_singleton.mp h]; exact hv

theorem foldl_dictSet_forall {β} (R : β → Prop) (l : List (Str × β)) :
    ∀ (d : List (Str × β)), (∀ kv ∈ d, R kv.2) → (∀ kv ∈ l, R kv.2) →
      ∀ kv ∈ l.foldl (fun d (kv : Str × β) => dictSet d kv.1 kv.2) d, R kv.2 := by
  induction l with
  | nil => intro d hd _; exact hd
  | cons x l ih =>
    intro d hd hl
    rw [List.foldl_cons]
    exact ih _ (dictSet_forall R d x.1 x.2 hd (hl x List.mem_cons_self)) (fun kv h => hl kv (List.mem_cons_of_mem _ h))

theorem foldl_dictSet_forall' {β} (R : β → Prop) (g : Str → β) (l : List Str) :
    ∀ (d : List (Str × β)), (∀ kv ∈ d, R kv.2) → (∀ n ∈ l, R (g n)) →
      ∀ kv ∈ l.foldl (fun d n => dictSet d n (g n)) d, R kv.2 := by
  induction l with
  | nil => intro d hd _; exact hd
  | cons x l ih =>
    intro d hd hl
    rw [List.foldl_cons]
    exact ih _ (dictSet_forall R d x (g x) hd (hl x List.mem_cons_self)) (fun n h => hl n (List.mem_cons_of_mem _ h))

/-- invariant of read-only code: the state is literally `fs0` -/
def At (fs0 : FS) (fs : FS) : Prop := fs = fs0

theorem spec_contentsOfFile (env : Env) (file : Path) (fs0 : FS) :
    Spec ItemsOk (At fs0) (Conf out) (contentsOfFile env file)
      (fun res fs => At fs0 fs ∧ ∀ kv ∈ res, HasDef fs0 kv.2.1 kv.2.2) := by
  unfold contentsOfFile
  refine spec_bind (spec_readFile file) (fun f => ?_)
  refine spec_bind (mid := fun parts fs => (At fs0 fs ∧ fs.read file = some f) ∧
      ∀ part ∈ parts, ∀ kv ∈ part, HasDef fs0 (kv : Content).2.1 kv.2.2) ?_ (fun parts => ?_)
  · apply spec_mapM' (I := fun fs => At fs0 fs ∧ fs.read file = some f)
      (Q := fun part => ∀ kv ∈ part, HasDef fs0 (kv : Content).2.1 kv.2.2)
    intro ms _
    refine spec_bind (allEff_findModuleFilepath env _ _ _) (fun r => ?_)
    split
    · exact spec_pure (fun _ h => ⟨h, by intro kv hkv; cases hkv⟩)
    · rename_i fp
      refine spec_bind (spec_readFile fp) (fun g => ?_)
      apply spec_pure
      intro fs hfs
      refine ⟨hfs.1, ?_⟩
      intro kv hkv
      obtain ⟨n, hn, rfl⟩ := List.mem_map.mp hkv
      have e : fs = fs0 := hfs.1.1
      exact ⟨g, by rw [← e]; exact hfs.2, hn⟩
  · apply spec_pure
    intro fs hfs
    refine ⟨hfs.1.1, ?_⟩
    have e : fs = fs0 := hfs.1.1
    apply foldl_dictSet_forall' (fun x : Path × Str => HasDef fs0 x.1 x.2) (fun n => (file, n))
    · apply foldl_dictSet_forall (fun x : Path × Str => HasDef fs0 x.1 x.2)
      · intro kv hkv; cases hkv
      · intro kv hkv
        obtain ⟨part, hp, hk⟩ := List.mem_flatten.mp hkv
        exact hfs.2 part hp kv hk
    · intro n hn
      exact ⟨f, by rw [← e]; exact hfs.1.2, hn⟩

theorem spec_getModuleContents (env : Env) (d : Path) (fs0 : FS) :
    Spec ItemsOk (At fs0) (Conf out) (getModuleContents env d)
      (fun res fs => At fs0 fs ∧ ∀ kv ∈ res, HasDef fs0 kv.2.1 kv.2.2) := by
  unfold getModuleContents
  refine spec_bind (spec_isfile' d) (fun b => ?_)
  apply spec_ite
  · intro _; exact spec_contentsOfFile env d fs0
  · intro _
    refine spec_bind (spec_isfile' _) (fun b2 => ?_)
    apply spec_ite
    · intro _; exact spec_contentsOfFile env _ fs0
    · intro _; exact spec_pure (fun _ h => ⟨h, by intro kv hkv; cases hkv⟩)

theorem efhName_self (n : Str) : efhName n (some n) = n := by
  show (if n.isEmpty then n else n) = n
  split <;> rfl

theorem conf_emitFiles (ho : OutOk out) (env : Env) (c : Ctx) (hc : FolderOk out c) (mn : Str) (mrd : Path) :
    AllEff ItemsOk (IS out []) (Conf out) (emitFiles env c mn mrd) := by
  intro fs0 hfs0
  have key : Spec ItemsOk (At fs0) (Conf out) (emitFiles env c mn mrd) (fun _ fs => IS out [] fs) := by
    unfold emitFiles
    refine spec_bind (spec_getModuleContents env mrd fs0) (fun contents => ?_)
    refine spec_conseq (spec_forEach (fun (rest : List Content) fs => IS out (rest.map (·.2)) fs) _ contents ?_) ?_ ?_
    · -- one item
      intro kv rest
      refine spec_bind (spec_isfile' mrd) (fun fromFile => ?_)
      simp only [hc.dry, Bool.false_eq_true, if_false]
      refine spec_bind (spec_note _) (fun _ => ?_)
      intro fs hfs hit
      have hok := hfs.2
      simp only [ItemsOk, itemOk, Item.modName, Item.name, Bool.and_eq_true, Bool.not_eq_true', Bool.or_eq_true,
        beq_iff_eq] at hok
      obtain ⟨⟨hm, hstrip⟩, hph⟩ := hok
      have hcase : (∃ b, isAbs b = false ∧
            (if fromFile = true then join2 c.outputDirectory (basename mrd)
             else if startsWith kv.2.1 mn = true then List.drop (mn.length + 1) kv.2.1 else kv.2.1) = join2 c.outputDirectory b) ∨
          (isAbs (if fromFile = true then join2 c.outputDirectory (basename mrd)
             else if startsWith kv.2.1 mn = true then List.drop (mn.length + 1) kv.2.1 else kv.2.1) = true ∧
           ((if fromFile = true then join2 c.outputDirectory (basename mrd)
             else if startsWith kv.2.1 mn = true then List.drop (mn.length + 1) kv.2.1 else kv.2.1),
            efhName (rpartition (if startsWith kv.1 mn = true then List.drop (mn.length + 1) kv.1 else kv.1) ['.']).2.2
              (some kv.2.2)) ∈ (kv :: rest).map (·.2)) := by
        rcases hph with hff | ⟨⟨ho1, ho2⟩, ho3⟩
        · left
          exact ⟨basename mrd, isAbs_basename mrd, by rw [hff]; rfl⟩
        · right
          rw [ho1, ho3, efhName_self]
          exact ⟨ho2, List.mem_map.mpr ⟨kv, List.mem_cons_self, rfl⟩⟩
      have := conf_emitFileOnHierarchy (S := (kv :: rest).map (·.2)) ho c hc mn _ _ (some kv.2.2) hm hstrip hcase fs hfs.1 hit
      exact ⟨this.1, fun a ha => (this.2 a ha).mono (by intro x hx; exact List.mem_cons_of_mem _ hx)⟩
    · intro fs hfs
      have e : fs = fs0 := hfs.1
      refine ⟨by rw [e]; exact hfs0.1, ?_⟩
      intro x hx
      obtain ⟨kv, hkv, rfl⟩ := List.mem_map.mp hx
      rw [e]; exact hfs.2 kv hkv
    · intro _ fs h; exact h
  exact key fs0 rfl

/-! ### `exmod_single_folder`, `exmod` -/

theorem SU_ne {p : Path} (h : SU out p) : p ≠ out := by
  intro e
  rw [e] at h
  have := List.IsPrefix.length_le h
  simp at this
  omega

theorem conf_singleFolder (ho : OutOk out) (r : Run) (hdry : r.cfg.dryRun = false) (mn : Str) (mrd od : Path)
    (hod : U out od) (hnm : od = out → endsWith (replace od ['/'] ['.']) r.newModuleName = false)
    (hrel : isAbs r.newModuleName = false) :
    AllEff ItemsOk (IS out []) (Conf out) (singleFolder r mn mrd od) := by
  unfold singleFolder
  simp only [hdry, Bool.false_eq_true, if_false]
  have hc : FolderOk out { emit := r.emit, dryRun := false, newModuleName := r.newModuleName,
                           outputDirectory := od, firstOutputDirectory := r.cfg.out } :=
    ⟨rfl, hod, hnm, hrel⟩
  have hfin : SU out (finalInitPath od r.newModuleName) := by
    unfold finalInitPath
    split
    · exact SU_join2 ho hod isAbs_INIT
    · exact SU_join2 ho (SU_join2 ho hod hrel).U isAbs_INIT
  have h1 := hfin.U
  have h2 := U_dirname ho hfin
  apply allEff_ite
  · intro _; exact allEff_pure _
  · intro _
    refine allEff_bind (conf_emitFiles ho _ _ hc _ _) (fun _ => ?_)
    refine allEff_bind (allEff_readFile _) (fun mod => ?_)
    refine allEff_bind ?_ (fun entries => ?_)
    · apply allEff_mapM'
      intro imp
      repeat (first | exact allEff_findModuleFilepath _ _ _ _ | alleff_step)
    refine allEff_bind (allEff_forEach _ (fun g => conf_emitFiles ho _ _ hc _ _)) (fun _ => ?_)
    refine allEff_bind (conf_makedirs ho _ _ h2) (fun _ => ?_)
    exact conf_writeAny _ _ h1

theorem isAbs_SQLMOD : isAbs SQLMOD = false := by decide

theorem conf_createSqlalchemyMod (ho : OutOk out) :
    AllEff ItemsOk (IS out []) (Conf out) (createSqlalchemyMod (join2 out SQLMOD)) := by
  unfold createSqlalchemyMod
  have h0 := (SU_join2 ho (U_self out) isAbs_SQLMOD).U
  have h1 := (SU_join2 ho h0 isAbs_INIT).U
  have h2 := (SU_join2 ho h0 (b := ['c', 'o', 'n', 'n', 'e', 'c', 't', 'i', 'o', 'n', '.', 'p', 'y']) (by decide)).U
  have h3 := (SU_join2 ho h0 (b := ['c', 'r', 'e', 'a', 't', 'e', '_', 't', 'a', 'b', 'l', 'e', 's', '.', 'p', 'y']) (by decide)).U
  repeat conf_step

theorem conf_addImportsToCreateAll (ho : OutOk out) :
    AllEff ItemsOk (IS out []) (Conf out) (addImportsToCreateAll (join2 out SQLMOD)) := by
  unfold addImportsToCreateAll
  have h0 := (SU_join2 ho (U_self out) isAbs_SQLMOD).U
  have h3 := (SU_join2 ho h0 (b := ['c', 'r', 'e', 'a', 't', 'e', '_', 't', 'a', 'b', 'l', 'e', 's', '.', 'p', 'y']) (by decide)).U
  repeat conf_step

theorem conf_announceOut (ho : OutOk out) (cfg : Cfg) (hout : cfg.out = out) :
    AllEff ItemsOk (IS out []) (Conf out) (announceOut cfg) := by
  unfold announceOut
  have h0 : U out cfg.out := by rw [hout]; exact U_self out
  repeat (first | (apply conf_print) | conf_step)

theorem conf_exmodStr (ho : OutOk out) (cfg : Cfg) (env : Env) (hout : cfg.out = out) (hdry : cfg.dryRun = false)
    (hrel : isAbs cfg.newModuleName = false)
    (hnm : endsWith (replace cfg.out ['/'] ['.']) cfg.newModuleName = false)
    (hpk : ∀ p ∈ env.allPackages, isAbs (replace p ['.'] ['/']) = false)
    (emit : EmitKind) (announce : Bool) :
    AllEff ItemsOk (IS out []) (Conf out) (exmodStr cfg env emit announce) := by
  unfold exmodStr
  split
  rename_i moduleRoot _x submodule heq
  have hroot : newModuleNameOf cfg moduleRoot = cfg.newModuleName := by
    unfold Cfg.newModuleName; rw [heq]
  simp only [hroot, hout]
  rw [hout] at hnm
  have hA := conf_announceOut ho cfg hout
  have hS := conf_createSqlalchemyMod ho
  have hI := conf_addImportsToCreateAll ho
  have hTop : ∀ mrd, AllEff ItemsOk (IS out []) (Conf out)
      (singleFolder { cfg := cfg, env := env, emit := emit, moduleRoot := moduleRoot, newModuleName := cfg.newModuleName }
        cfg.module mrd out) :=
    fun mrd => conf_singleFolder ho _ hdry _ _ _ (U_self out) (fun _ => hnm) hrel
  have hPk : ∀ (package : Str) mrd, package ∈ packagesOf cfg env → AllEff ItemsOk (IS out []) (Conf out)
      (singleFolder { cfg := cfg, env := env, emit := emit, moduleRoot := moduleRoot, newModuleName := cfg.newModuleName }
        package mrd (join2 out (replace package ['.'] ['/']))) := by
    intro package mrd hp
    have hp' : package ∈ env.allPackages := (List.mem_filter.mp hp).1
    have hsu := SU_join2 ho (U_self out) (hpk package hp')
    exact conf_singleFolder ho _ hdry _ _ _ hsu.U (fun e => absurd e (SU_ne hsu)) hrel
  repeat (first | exact hA | exact hS | exact hI | exact hTop _ | exact allEff_findModuleFilepath _ _ _ _
                | (apply spec_forEach'; intro package hp; exact hPk package _ hp) | conf_step)

theorem conf_exmodCli (ho : OutOk out) (cfg : Cfg) (env : Env) (hout : cfg.out = out) (hdry : cfg.dryRun = false)
    (hrel : isAbs cfg.newModuleName = false)
    (hnm : endsWith (replace cfg.out ['/'] ['.']) cfg.newModuleName = false)
    (hpk : ∀ p ∈ env.allPackages, isAbs (replace p ['.'] ['/']) = false) :
    AllEff ItemsOk (IS out []) (Conf out) (exmodCli cfg env) := by
  unfold exmodCli
  repeat (first | exact conf_exmodStr ho cfg env hout hdry hrel hnm hpk _ _ | conf_step)

end
end Exmod
