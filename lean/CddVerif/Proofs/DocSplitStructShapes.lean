import CddVerif.Proofs.DocSplitStructScan
/-!
# C15 (structural split) — `_get_token_last_idx` on the shapes a structured docstring can have

`d = pre ++ L ++ '\n' :: post` where `L` is the line that holds the last token word.  What `_get_token_last_idx` returns
depends on how `post` begins:

* **compact** (`post = T ++ …`, `T` a line starting with a token, e.g. `:return: …`): the end of `T`;
* **adjacent** (`post` empty or starting with a non-blank, non-token character): the start of `post`;
* **absorbed** (`post` starts with white space — a blank line, an indented line): the start of the *last line* of the
  whole string (after its indentation), or the length of the string if that line starts with a token or is empty;
* **Raises** (`L` is `Raises:` and nothing token-like follows): the newline before `L`.
-/
namespace DSS
open Py DocUtils DocSplit Loop

theorem ok_bind {ε α β : Type} (a : α) (f : α → Except ε β) : (Except.ok a >>= f) = f a := rfl

/-- `_get_token_last_idx` after the last-token line has been located and the backward `while` has run (non-numpydoc exit) -/
theorem tokenLastIdx_pipeline (d : Str) (lf : Int) (lfs : Option Int) (lfe : Option Int) (idx : Int) (ca : Nat)
    (h1 : lastDocStrToken d.toArray = some lf)
    (h2 : startOfLastFound d.toArray lf = .ok lfs)
    (h3 : endOfLastFound d.toArray lf lfs (deriveFormat d.toArray) = .ok lfe)
    (h4 : (loopA d.toArray).run (findEndOfArgsReturns d.toArray lfe) = (idx, .cond, ca)) :
    tokenLastIdx d.toArray =
      (let started : Int := leadingWs (slice d (some (idx + 1)) none) + idx + 1
       if startsWithAny tokensSet (slice d (some started) none) then
         let rb := (loopB d.toArray).run (started + 1)
         if rb.2.1 == .raise then .error "IndexError"
         else if started == rb.1 then
           (match (lastIdxIfNoNextTokenCount d.toArray (lfs.getD 0)).1 with | some v => .ok v | none => .ok rb.1)
         else .ok rb.1
       else match (lastIdxIfNoNextTokenCount d.toArray (lfs.getD 0)).1 with | some v => .ok v | none => .ok started) := by
  unfold tokenLastIdx tokenLastIdxCount
  have hce : (Exit.cond == Exit.raise) = false := rfl
  simp only [h1, h2, ok_bind, h3, h4, sl_eq, hce, Bool.false_eq_true, if_false]
  by_cases hs : startsWithAny tokensSet (slice d (some ((leadingWs (slice d (some (idx + 1)) none) : Int) + idx + 1)) none) = true
  · simp only [hs, if_true]
    by_cases hr : (((loopB d.toArray).run ((leadingWs (slice d (some (idx + 1)) none) : Int) + idx + 1 + 1)).2.1 == Exit.raise) = true
    · simp only [hr, if_true]; rfl
    · simp only [hr, Bool.false_eq_true, if_false]
      generalize lastIdxIfNoNextTokenCount d.toArray (lfs.getD 0) = q
      obtain ⟨r, cc⟩ := q
      split
      · cases r <;> rfl
      · rfl
  · simp only [hs, Bool.false_eq_true, if_false, beq_self_eq_true, if_true]
    generalize lastIdxIfNoNextTokenCount d.toArray (lfs.getD 0) = q
    obtain ⟨r, cc⟩ := q
    cases r <;> rfl

/-! ### locating the last-token line -/

theorem drop_in_line (pre L rest : Str) (j : Nat) (hj : j ≤ L.length) :
    (pre ++ L ++ rest).drop (pre.length + j) = L.drop j ++ rest := by
  rw [List.append_assoc, List.drop_append, List.drop_of_length_le (by omega), List.nil_append]
  have : pre.length + j - pre.length = j := by omega
  rw [this, List.drop_append_of_le_length hj]

theorem slice_from_nat (d : Str) (k : Nat) : slice d (some (k : Int)) none = d.drop k := by
  rw [slice_from d k (by omega)]; simp

theorem slice_mid_nat (d : Str) (a b : Nat) : slice d (some (a : Int)) (some (b : Int)) = (d.drop a).take (b - a) := by
  rw [slice_mid d a b (by omega) (by omega)]; simp

theorem notMem_drop {c : Char} {L : Str} (j : Nat) (h : c ∉ L) : c ∉ L.drop j := fun m => h (List.mem_of_mem_drop m)

/-- `_get_end_of_last_found`: one past the newline that ends the line holding the last token, whenever the numpydoc exit
    is not taken (the format is not numpydoc, or the text between line start and token is not made of dashes) -/
theorem endOfLastFound_line' (pre L post : Str) (lf : Int) (lfs : Option Int) (fmt : Style) (hL : '\n' ∉ L)
    (hlo : (pre.length : Int) ≤ lf) (hhi : lf ≤ (pre.length + L.length : Nat))
    (hnb : (fmt == .numpydoc && allDashes (slice (pre ++ L ++ '\n' :: post) lfs (some lf))) = false) :
    endOfLastFound (pre ++ L ++ '\n' :: post).toArray lf lfs fmt = .ok (some ((pre.length + L.length + 1 : Nat) : Int)) := by
  rw [endOfLastFound_eq]
  obtain ⟨j, hj⟩ : ∃ j : Nat, lf.toNat = pre.length + j := ⟨lf.toNat - pre.length, by omega⟩
  have hjl : j ≤ L.length := by omega
  rw [hj, drop_in_line pre L _ j hjl, endScan_line _ _ _ _ (notMem_drop j hL)]
  simp only [hnb, Bool.false_eq_true, if_false, List.length_drop]
  congr 2
  omega

/-- `_get_end_of_last_found`: one past the newline that ends the line holding the last token (non-numpydoc formats) -/
theorem endOfLastFound_line (pre L post : Str) (lf : Int) (lfs : Option Int) (fmt : Style) (hL : '\n' ∉ L)
    (hlo : (pre.length : Int) ≤ lf) (hhi : lf < (pre.length + L.length : Nat)) (hfmt : fmt ≠ .numpydoc) :
    endOfLastFound (pre ++ L ++ '\n' :: post).toArray lf lfs fmt = .ok (some ((pre.length + L.length + 1 : Nat) : Int)) := by
  apply endOfLastFound_line' pre L post lf lfs fmt hL hlo (Int.le_of_lt hhi)
  have hf : (fmt == Style.numpydoc) = false := by cases fmt <;> first | rfl | exact absurd rfl hfmt
  rw [hf]; rfl

/-- `_get_end_of_last_found` when the last-token line is the last line and has no newline after it -/
theorem endOfLastFound_lastline (pre L : Str) (lf : Int) (lfs : Option Int) (fmt : Style) (hL : '\n' ∉ L)
    (hlo : (pre.length : Int) ≤ lf) (hhi : lf < (pre.length + L.length : Nat)) (hfmt : fmt ≠ .numpydoc) :
    endOfLastFound (pre ++ L).toArray lf lfs fmt = .ok (some ((pre.length + L.length : Nat) : Int)) := by
  rw [endOfLastFound_eq]
  obtain ⟨j, hj⟩ : ∃ j : Nat, lf.toNat = pre.length + j := ⟨lf.toNat - pre.length, by omega⟩
  have hjl : j < L.length := by omega
  have := drop_in_line pre L [] j (by omega)
  simp only [List.append_nil] at this
  rw [hj, this, endScan_noNl _ _ _ (notMem_drop j hL) (by intro h; have := congrArg List.length h; simp at this; omega)]
  have hf : (fmt == Style.numpydoc) = false := by cases fmt <;> first | rfl | exact absurd rfl hfmt
  simp only [hf, Bool.false_and, Bool.false_eq_true, if_false, List.length_drop]
  congr 2
  omega

/-- `_get_start_of_last_found` never raises -/
theorem startOfLastFound_total (d : Str) (lf : Int) (h : lf ≤ d.length) : ∃ lfs, startOfLastFound d.toArray lf = .ok lfs :=
  scanBackNl_total d (lf - 1) (by omega)

/-- `_get_start_of_last_found`: the start of the line holding the last token, when a newline at an index ≥ 1 precedes it -/
theorem startOfLastFound_line (p L post : Str) (lf : Int) (hp : p ≠ []) (hL : '\n' ∉ L)
    (hlo : ((p ++ ['\n']).length : Int) ≤ lf) (hhi : lf ≤ ((p ++ ['\n']).length + L.length : Nat)) :
    startOfLastFound (p ++ ['\n'] ++ L ++ post).toArray lf = .ok (some (((p ++ ['\n']).length : Nat) : Int)) := by
  unfold startOfLastFound
  simp only [List.length_append, List.length_singleton] at hlo hhi ⊢
  obtain ⟨j, hj⟩ : ∃ j : Nat, lf - 1 = ((p.length + j : Nat) : Int) := ⟨(lf - 1).toNat - p.length, by omega⟩
  rw [hj]
  have hd : p ++ ['\n'] ++ L ++ post = p ++ '\n' :: (L ++ post) := by simp
  rw [hd]
  exact scanBackNl_line p L post hp hL j (by omega)

/-! ### the shapes -/

theorem tokens_head_ns : tokensSet.all (fun t => match t.toList with | c :: _ => !isSpaceC c | [] => false) = true := by decide

/-- text that starts with a token starts with a non-blank character -/
theorem tok_head_ns (T : Str) (h : startsWithAny tokensSet T = true) : ∃ c cs, T = c :: cs ∧ isSpaceC c = false := by
  unfold startsWithAny at h
  rw [List.any_eq_true] at h
  obtain ⟨t, ht, hp⟩ := h
  have := List.all_eq_true.mp tokens_head_ns t ht
  rw [List.isPrefixOf_iff_prefix] at hp
  obtain ⟨r, hr⟩ := hp
  cases htl : t.toList with
  | nil => rw [htl] at this; cases this
  | cons c cs =>
    rw [htl] at this hr
    exact ⟨c, cs ++ r, by rw [← hr]; rfl, by simpa using this⟩

theorem loopA_at_nl (a b : Str) : (loopA (a ++ '\n' :: b).toArray).run ((a.length : Nat) : Int) = ((a.length : Int), .cond, 1) := by
  have := loopA_back a [] b (by simp) 0 (by simp)
  simpa using this

theorem findEnd_ns (d : Str) (lfe : Nat) (h : leadingWs (d.drop lfe) = 0) :
    findEndOfArgsReturns d.toArray (some (lfe : Int)) = (lfe : Int) - 1 := by
  unfold findEndOfArgsReturns
  simp only [sl_eq, slice_from_nat, h, beq_self_eq_true, if_true]

theorem findEnd_ws (d : Str) (lfe : Nat) (h : leadingWs (d.drop lfe) ≠ 0) :
    findEndOfArgsReturns d.toArray (some (lfe : Int)) = (d.length : Int) - 1 := by
  unfold findEndOfArgsReturns
  have : (leadingWs (d.drop lfe) == 0) = false := by simpa using h
  simp only [sl_eq, slice_from_nat, this, Bool.false_eq_true, if_false, n_eq]

theorem drop_after_line (pre L post : Str) : (pre ++ L ++ '\n' :: post).drop (pre.length + L.length + 1) = post := by
  have : pre ++ L ++ '\n' :: post = (pre ++ L ++ ['\n']) ++ post := by simp
  rw [this, List.drop_append, List.drop_of_length_le (by simp; omega), List.nil_append]
  have h0 : pre.length + L.length + 1 - (pre ++ L ++ ['\n']).length = 0 := by simp; omega
  rw [h0]; rfl

/-- **compact shape**: the line after the last-token line starts with a token (`:return: …`, `:rtype: …`, …) —
    `_get_token_last_idx` is the end of that line -/
theorem last_compact (pre L T post : Str) (lf : Int)
    (hlf : lastDocStrToken (pre ++ L ++ '\n' :: (T ++ post)).toArray = some lf)
    (hlo : (pre.length : Int) ≤ lf) (hhi : lf < (pre.length + L.length : Nat))
    (hL : '\n' ∉ L) (hT : '\n' ∉ T) (htok : startsWithAny tokensSet T = true)
    (hpost : post = [] ∨ post.head? = some '\n')
    (hfmt : deriveFormat (pre ++ L ++ '\n' :: (T ++ post)).toArray ≠ .numpydoc) :
    tokenLastIdx (pre ++ L ++ '\n' :: (T ++ post)).toArray = .ok ((pre.length + L.length + 1 + T.length : Nat) : Int) := by
  obtain ⟨c, cs, hTc, hns⟩ := tok_head_ns T htok
  obtain ⟨lfs, h2⟩ := startOfLastFound_total (pre ++ L ++ '\n' :: (T ++ post)) lf (by simp; omega)
  have h3 := endOfLastFound_line pre L (T ++ post) lf lfs _ hL hlo hhi hfmt
  have hws : leadingWs (T ++ post) = 0 := by rw [hTc]; exact leadingWs_ns c _ hns
  have hfe : findEndOfArgsReturns (pre ++ L ++ '\n' :: (T ++ post)).toArray (some ((pre.length + L.length + 1 : Nat) : Int))
      = (((pre ++ L).length : Nat) : Int) := by
    rw [findEnd_ns _ _ (by rw [drop_after_line]; exact hws)]
    simp only [List.length_append]; omega
  have h4 : (loopA (pre ++ L ++ '\n' :: (T ++ post)).toArray).run
      (findEndOfArgsReturns (pre ++ L ++ '\n' :: (T ++ post)).toArray (some ((pre.length + L.length + 1 : Nat) : Int)))
      = ((((pre ++ L).length : Nat) : Int), .cond, 1) := by
    rw [hfe]; exact loopA_at_nl (pre ++ L) (T ++ post)
  rw [tokenLastIdx_pipeline _ lf lfs _ _ _ hlf h2 h3 h4]
  have hidx : (((pre ++ L).length : Nat) : Int) + 1 = ((pre.length + L.length + 1 : Nat) : Int) := by
    simp only [List.length_append]; omega
  simp only [hidx, slice_from_nat, drop_after_line, hws]
  have hst : ((0 : Nat) : Int) + (((pre ++ L).length : Nat) : Int) + 1 = ((pre.length + L.length + 1 : Nat) : Int) := by
    simp only [List.length_append]; omega
  simp only [hst, slice_from_nat, drop_after_line, any_isPrefix_append _ _ _ htok, if_true]
  have hT1 : 1 ≤ T.length := by rw [hTc]; simp
  obtain ⟨cb, hb⟩ := loopB_fwd (pre ++ L ++ ['\n']) T post hT hpost (T.length - 1) 1 (by omega)
  have hd : pre ++ L ++ ['\n'] ++ (T ++ post) = pre ++ L ++ '\n' :: (T ++ post) := by simp
  have hi : (((pre ++ L ++ ['\n']).length + 1 : Nat) : Int) = ((pre.length + L.length + 1 : Nat) : Int) + 1 := by
    simp only [List.length_append, List.length_singleton]; omega
  rw [hd, hi] at hb
  rw [hb]
  have hce : (Exit.cond == Exit.raise) = false := rfl
  have hne : (((pre.length + L.length + 1 : Nat) : Int) == (((pre ++ L ++ ['\n']).length + T.length : Nat) : Int)) = false := by
    simp only [List.length_append, List.length_singleton, beq_eq_false_iff_ne, ne_eq]; omega
  simp only [hce, Bool.false_eq_true, if_false, hne]
  simp only [List.length_append, List.length_singleton]

/-! ### `_get_token_last_idx_if_no_next_token` on an ordinary line -/

theorem countUntilNl_gen (L rest : Str) (hL : '\n' ∉ L) (hrest : rest = [] ∨ rest.head? = some '\n') :
    countUntilNl (L ++ rest) = L.length := by
  rcases hrest with h | h
  · subst h; rw [List.append_nil]; exact countUntilNl_noNl L hL
  · cases rest with
    | nil => cases h
    | cons c cs =>
      simp only [List.head?_cons, Option.some.injEq] at h
      subst h; exact countUntilNl_line L cs hL

/-- the line at `last_found_starts` is `L` -/
theorem noNext_eval (pre L rest : Str) (hL : '\n' ∉ L) (hrest : rest = [] ∨ rest.head? = some '\n') :
    (lastIdxIfNoNextTokenCount (pre ++ L ++ rest).toArray ((pre.length : Nat) : Int)).1 =
      if !L.isEmpty && allDashes L then
        some ((((loopC (pre ++ L ++ rest).toArray).run
          { lineStart := pre.length + L.length + 1, lineEnd := pre.length + L.length + 1, prevEnd := pre.length + L.length + 1 }).1.prevEnd : Int) + 1)
      else if lstrip L == "Raises:".toList then some ((pre.length : Int) - 1) else none := by
  unfold lastIdxIfNoNextTokenCount
  have hdrop : (pre ++ L ++ rest).drop pre.length = L ++ rest := by
    have := drop_in_line pre L rest 0 (by omega)
    rw [Nat.add_zero, List.drop_zero] at this; exact this
  have hnl : ((pre.length : Nat) : Int) + ((countUntilNl (slice (pre ++ L ++ rest) (some ((pre.length : Nat) : Int)) none) : Nat) : Int)
      = ((pre.length + L.length : Nat) : Int) := by
    rw [slice_from_nat, hdrop, countUntilNl_gen L rest hL hrest]; omega
  have hline : slice (pre ++ L ++ rest) (some ((pre.length : Nat) : Int)) (some ((pre.length + L.length : Nat) : Int)) = L := by
    rw [slice_mid_nat, hdrop]; simp
  simp only [sl_eq, hnl, hline]
  have hst : (((pre.length + L.length : Nat) : Int) + 1).toNat = pre.length + L.length + 1 := by omega
  rw [hst]
  split
  · rfl
  · split <;> rfl

theorem noNext_none (pre L rest : Str) (hL : '\n' ∉ L) (hrest : rest = [] ∨ rest.head? = some '\n')
    (hd : (!L.isEmpty && allDashes L) = false) (hr : (lstrip L == "Raises:".toList) = false) :
    (lastIdxIfNoNextTokenCount (pre ++ L ++ rest).toArray ((pre.length : Nat) : Int)).1 = none := by
  rw [noNext_eval pre L rest hL hrest, hd, hr]; rfl

theorem noNext_raises (pre L rest : Str) (hL : '\n' ∉ L) (hrest : rest = [] ∨ rest.head? = some '\n')
    (hd : (!L.isEmpty && allDashes L) = false) (hr : (lstrip L == "Raises:".toList) = true) :
    (lastIdxIfNoNextTokenCount (pre ++ L ++ rest).toArray ((pre.length : Nat) : Int)).1 = some ((pre.length : Int) - 1) := by
  rw [noNext_eval pre L rest hL hrest, hd, hr]; rfl

/-- what `_get_token_last_idx_if_no_next_token` says about the last-token line `L`: nothing, or "`L` is `Raises:`" -/
def lineVerdict (preLen : Nat) (L : Str) : Option Int :=
  if lstrip L == "Raises:".toList then some ((preLen : Int) - 1) else none

theorem noNext_verdict (pre L rest : Str) (hL : '\n' ∉ L) (hrest : rest = [] ∨ rest.head? = some '\n')
    (hd : (!L.isEmpty && allDashes L) = false) :
    (lastIdxIfNoNextTokenCount (pre ++ L ++ rest).toArray ((pre.length : Nat) : Int)).1 = lineVerdict pre.length L := by
  rw [noNext_eval pre L rest hL hrest, hd]; rfl

/-- **adjacent shape**: right after the last-token line comes nothing, or a line that starts with a non-blank character
    and not with a token — `_get_token_last_idx` is the start of that line (or the newline before `L` if `L` is `Raises:`) -/
theorem last_adjacent (p L post : Str) (lf : Int)
    (hlf : lastDocStrToken (p ++ ['\n'] ++ L ++ '\n' :: post).toArray = some lf)
    (hlo : ((p ++ ['\n']).length : Int) ≤ lf) (hhi : lf < ((p ++ ['\n']).length + L.length : Nat))
    (hp : p ≠ []) (hL : '\n' ∉ L)
    (hpost : post = [] ∨ ∃ c cs, post = c :: cs ∧ isSpaceC c = false)
    (hntok : startsWithAny tokensSet post = false)
    (hd : (!L.isEmpty && allDashes L) = false)
    (hfmt : deriveFormat (p ++ ['\n'] ++ L ++ '\n' :: post).toArray ≠ .numpydoc) :
    tokenLastIdx (p ++ ['\n'] ++ L ++ '\n' :: post).toArray =
      .ok ((lineVerdict (p ++ ['\n']).length L).getD (((p ++ ['\n']).length + L.length + 1 : Nat) : Int)) := by
  generalize hpre : p ++ ['\n'] = pre at *
  have h2 : startOfLastFound (pre ++ L ++ '\n' :: post).toArray lf = .ok (some ((pre.length : Nat) : Int)) := by
    subst hpre; exact startOfLastFound_line p L ('\n' :: post) lf hp hL hlo (Int.le_of_lt hhi)
  have h3 := endOfLastFound_line pre L post lf (some ((pre.length : Nat) : Int)) _ hL hlo hhi hfmt
  have hws : leadingWs post = 0 := by
    rcases hpost with h | ⟨c, cs, h, hns⟩
    · subst h; rfl
    · subst h; exact leadingWs_ns c cs hns
  have hfe : findEndOfArgsReturns (pre ++ L ++ '\n' :: post).toArray (some ((pre.length + L.length + 1 : Nat) : Int))
      = (((pre ++ L).length : Nat) : Int) := by
    rw [findEnd_ns _ _ (by rw [drop_after_line]; exact hws)]
    simp only [List.length_append]; omega
  have h4 : (loopA (pre ++ L ++ '\n' :: post).toArray).run
      (findEndOfArgsReturns (pre ++ L ++ '\n' :: post).toArray (some ((pre.length + L.length + 1 : Nat) : Int)))
      = ((((pre ++ L).length : Nat) : Int), .cond, 1) := by
    rw [hfe]; exact loopA_at_nl (pre ++ L) post
  rw [tokenLastIdx_pipeline _ lf _ _ _ _ hlf h2 h3 h4]
  have hidx : (((pre ++ L).length : Nat) : Int) + 1 = ((pre.length + L.length + 1 : Nat) : Int) := by
    simp only [List.length_append]; omega
  simp only [hidx, slice_from_nat, drop_after_line, hws]
  have hst : ((0 : Nat) : Int) + (((pre ++ L).length : Nat) : Int) + 1 = ((pre.length + L.length + 1 : Nat) : Int) := by
    simp only [List.length_append]; omega
  simp only [hst, slice_from_nat, drop_after_line, hntok, Bool.false_eq_true, if_false, Option.getD_some]
  rw [noNext_verdict pre L ('\n' :: post) hL (Or.inr rfl) hd]
  cases lineVerdict pre.length L <;> rfl

theorem leadingWs_ws (w : Char) (ws : Str) (h : isSpaceC w = true) : leadingWs (w :: ws) ≠ 0 := by
  simp [leadingWs, h]

theorem drop_after_nl (A Z : Str) : (A ++ '\n' :: Z).drop (A.length + 1) = Z := by
  have : A ++ '\n' :: Z = (A ++ ['\n']) ++ Z := by simp
  rw [this, List.drop_append, List.drop_of_length_le (by simp), List.nil_append]
  simp

/-- **absorbed shape**: the last-token line is followed by white space (a blank line, an indented line).  Then
    `_get_token_last_idx` does not look for the end of the section at all: it goes to the **last line of the whole
    string** `Z` and returns the length of the string if `Z` starts with a token, else the start of `Z` after its
    indentation (or the newline before `L` if `L` is `Raises:`). -/
theorem last_absorbed_gen (d p L post A Z : Str) (lf : Int)
    (hd1 : d = p ++ ['\n'] ++ L ++ '\n' :: post) (hd2 : d = A ++ '\n' :: Z)
    (hlf : lastDocStrToken d.toArray = some lf)
    (hlo : ((p ++ ['\n']).length : Int) ≤ lf) (hhi : lf ≤ ((p ++ ['\n']).length + L.length : Nat))
    (hp : p ≠ []) (hL : '\n' ∉ L) (hZ : '\n' ∉ Z)
    (hpost : ∃ w ws, post = w :: ws ∧ isSpaceC w = true)
    (hd : (!L.isEmpty && allDashes L) = false)
    (hnb : (deriveFormat d.toArray == .numpydoc
              && allDashes (slice d (some (((p ++ ['\n']).length : Nat) : Int)) (some lf))) = false) :
    tokenLastIdx d.toArray =
      .ok (if startsWithAny tokensSet (lstrip Z) then (d.length : Int)
           else (lineVerdict (p ++ ['\n']).length L).getD ((A.length + 1 + leadingWs Z : Nat) : Int)) := by
  generalize hpre : p ++ ['\n'] = pre at *
  have h2 : startOfLastFound d.toArray lf = .ok (some ((pre.length : Nat) : Int)) := by
    subst hpre; rw [hd1]; exact startOfLastFound_line p L ('\n' :: post) lf hp hL hlo hhi
  have h3 : endOfLastFound d.toArray lf (some ((pre.length : Nat) : Int)) (deriveFormat d.toArray)
      = .ok (some ((pre.length + L.length + 1 : Nat) : Int)) := by
    have := endOfLastFound_line' pre L post lf (some ((pre.length : Nat) : Int)) (deriveFormat d.toArray) hL hlo hhi
      (by rw [← hd1]; exact hnb)
    rw [← hd1] at this; exact this
  obtain ⟨w, ws, hw, hwsp⟩ := hpost
  have hfe : findEndOfArgsReturns d.toArray (some ((pre.length + L.length + 1 : Nat) : Int)) = ((A.length + Z.length : Nat) : Int) := by
    rw [findEnd_ws _ _ (by rw [hd1, drop_after_line, hw]; exact leadingWs_ws w ws hwsp)]
    rw [hd2]; simp only [List.length_append, List.length_cons]; omega
  have h4 : (loopA d.toArray).run (findEndOfArgsReturns d.toArray (some ((pre.length + L.length + 1 : Nat) : Int)))
      = ((A.length : Int), .cond, Z.length + 1) := by
    rw [hfe]
    have := loopA_back A Z [] hZ Z.length (Nat.le_refl _)
    rw [List.append_nil, ← hd2] at this; exact this
  rw [tokenLastIdx_pipeline _ lf _ _ _ _ hlf h2 h3 h4]
  have hdropA : d.drop (A.length + 1) = Z := by rw [hd2]; exact drop_after_nl A Z
  have hidx : (A.length : Int) + 1 = ((A.length + 1 : Nat) : Int) := by omega
  simp only [hidx, slice_from_nat, hdropA]
  have hst : ((leadingWs Z : Nat) : Int) + (A.length : Int) + 1 = ((A.length + 1 + leadingWs Z : Nat) : Int) := by omega
  have hdropS : d.drop (A.length + 1 + leadingWs Z) = lstrip Z := by
    rw [← List.drop_drop, hdropA, drop_leadingWs]
  simp only [hst, slice_from_nat, hdropS, Option.getD_some]
  have hverd : (lastIdxIfNoNextTokenCount d.toArray ((pre.length : Nat) : Int)).1 = lineVerdict pre.length L := by
    have := noNext_verdict pre L ('\n' :: post) hL (Or.inr rfl) hd
    rw [← hd1] at this; exact this
  by_cases htok : startsWithAny tokensSet (lstrip Z) = true
  · simp only [htok, if_true]
    obtain ⟨c, cs, hc, _⟩ := tok_head_ns _ htok
    obtain ⟨wsZ, hwsZ⟩ := lstrip_decomp Z
    have hwl : wsZ.length = leadingWs Z := by
      have h1 := congrArg List.length hwsZ
      have h2 := congrArg List.length (drop_leadingWs Z)
      have h3 := leadingWs_le Z
      simp only [List.length_append, List.length_drop] at h1 h2
      omega
    have hnl : '\n' ∉ lstrip Z := fun m => hZ (by rw [hwsZ]; exact List.mem_append_right _ m)
    have h1 : 1 ≤ (lstrip Z).length := by rw [hc]; simp
    obtain ⟨cb, hb⟩ := loopB_fwd (A ++ '\n' :: wsZ) (lstrip Z) [] hnl (Or.inl rfl) ((lstrip Z).length - 1) 1 (by omega)
    have hdd : A ++ '\n' :: wsZ ++ (lstrip Z ++ []) = d := by
      rw [hd2, List.append_nil, List.append_assoc, List.cons_append, ← hwsZ]
    have hi : (((A ++ '\n' :: wsZ).length + 1 : Nat) : Int) = ((A.length + 1 + leadingWs Z : Nat) : Int) + 1 := by
      simp only [List.length_append, List.length_cons]; omega
    rw [hdd, hi] at hb
    rw [hb]
    have hce : (Exit.cond == Exit.raise) = false := rfl
    have hlen : (A ++ '\n' :: wsZ).length + (lstrip Z).length = d.length := by
      rw [← hdd]; simp only [List.length_append, List.length_cons, List.length_nil]; omega
    have hne : (((A.length + 1 + leadingWs Z : Nat) : Int) == (((A ++ '\n' :: wsZ).length + (lstrip Z).length : Nat) : Int)) = false := by
      simp only [List.length_append, List.length_cons, beq_eq_false_iff_ne, ne_eq]; omega
    rw [hlen] at hne
    simp only [hce, Bool.false_eq_true, if_false, hlen, hne]
  · simp only [htok, Bool.false_eq_true, if_false]
    rw [hverd]
    cases lineVerdict pre.length L <;> rfl

theorem last_absorbed (d p L post A Z : Str) (lf : Int)
    (hd1 : d = p ++ ['\n'] ++ L ++ '\n' :: post) (hd2 : d = A ++ '\n' :: Z)
    (hlf : lastDocStrToken d.toArray = some lf)
    (hlo : ((p ++ ['\n']).length : Int) ≤ lf) (hhi : lf < ((p ++ ['\n']).length + L.length : Nat))
    (hp : p ≠ []) (hL : '\n' ∉ L) (hZ : '\n' ∉ Z)
    (hpost : ∃ w ws, post = w :: ws ∧ isSpaceC w = true)
    (hd : (!L.isEmpty && allDashes L) = false)
    (hfmt : deriveFormat d.toArray ≠ .numpydoc) :
    tokenLastIdx d.toArray =
      .ok (if startsWithAny tokensSet (lstrip Z) then (d.length : Int)
           else (lineVerdict (p ++ ['\n']).length L).getD ((A.length + 1 + leadingWs Z : Nat) : Int)) := by
  apply last_absorbed_gen d p L post A Z lf hd1 hd2 hlf hlo (Int.le_of_lt hhi) hp hL hZ hpost hd
  have hf : (deriveFormat d.toArray == Style.numpydoc) = false := by
    cases h : deriveFormat d.toArray <;> first | rfl | exact absurd h hfmt
  rw [hf]; rfl

/-- **unterminated shape**: the last-token line `L` is the last line of the string and has no newline after it —
    `_get_token_last_idx` is the length of the string if `L` starts (after indentation) with a token, else the start of
    `L` after its indentation (or the newline before `L` if `L` is `Raises:`). -/
theorem last_unterminated (p L : Str) (lf : Int)
    (hlf : lastDocStrToken (p ++ ['\n'] ++ L).toArray = some lf)
    (hlo : ((p ++ ['\n']).length : Int) ≤ lf) (hhi : lf < ((p ++ ['\n']).length + L.length : Nat))
    (hp : p ≠ []) (hL : '\n' ∉ L)
    (hd : (!L.isEmpty && allDashes L) = false)
    (hfmt : deriveFormat (p ++ ['\n'] ++ L).toArray ≠ .numpydoc) :
    tokenLastIdx (p ++ ['\n'] ++ L).toArray =
      .ok (if startsWithAny tokensSet (lstrip L) then ((p ++ ['\n'] ++ L).length : Int)
           else (lineVerdict (p ++ ['\n']).length L).getD (((p ++ ['\n']).length + leadingWs L : Nat) : Int)) := by
  generalize hdd : p ++ ['\n'] ++ L = d at *
  have hd2 : d = p ++ '\n' :: L := by rw [← hdd]; simp
  generalize hpre : p ++ ['\n'] = pre at *
  have hprelen : pre.length = p.length + 1 := by rw [← hpre]; simp
  have h2 : startOfLastFound d.toArray lf = .ok (some ((pre.length : Nat) : Int)) := by
    subst hpre
    have := startOfLastFound_line p L [] lf hp hL hlo (Int.le_of_lt hhi)
    rw [List.append_nil, hdd] at this; exact this
  have h3 : endOfLastFound d.toArray lf (some ((pre.length : Nat) : Int)) (deriveFormat d.toArray)
      = .ok (some ((pre.length + L.length : Nat) : Int)) := by
    have := endOfLastFound_lastline pre L lf (some ((pre.length : Nat) : Int)) (deriveFormat d.toArray) hL hlo hhi hfmt
    rw [hdd] at this; exact this
  have hdl : d.length = pre.length + L.length := by rw [← hdd]; simp
  have hfe : findEndOfArgsReturns d.toArray (some ((pre.length + L.length : Nat) : Int)) = ((p.length + L.length : Nat) : Int) := by
    rw [findEnd_ns _ _ (by rw [List.drop_of_length_le (by omega)]; rfl)]
    omega
  have h4 : (loopA d.toArray).run (findEndOfArgsReturns d.toArray (some ((pre.length + L.length : Nat) : Int)))
      = ((p.length : Int), .cond, L.length + 1) := by
    rw [hfe]
    have := loopA_back p L [] hL L.length (Nat.le_refl _)
    rw [List.append_nil, ← hd2] at this; exact this
  rw [tokenLastIdx_pipeline _ lf _ _ _ _ hlf h2 h3 h4]
  have hdropA : d.drop (p.length + 1) = L := by rw [hd2]; exact drop_after_nl p L
  have hidx : (p.length : Int) + 1 = ((p.length + 1 : Nat) : Int) := by omega
  simp only [hidx, slice_from_nat, hdropA]
  have hst : ((leadingWs L : Nat) : Int) + (p.length : Int) + 1 = ((pre.length + leadingWs L : Nat) : Int) := by omega
  have hdropS : d.drop (pre.length + leadingWs L) = lstrip L := by
    rw [hprelen, ← List.drop_drop, hdropA, drop_leadingWs]
  simp only [hst, slice_from_nat, hdropS, Option.getD_some]
  have hverd : (lastIdxIfNoNextTokenCount d.toArray ((pre.length : Nat) : Int)).1 = lineVerdict pre.length L := by
    have := noNext_verdict pre L [] hL (Or.inl rfl) hd
    rw [List.append_nil, hdd] at this; exact this
  by_cases htok : startsWithAny tokensSet (lstrip L) = true
  · simp only [htok, if_true]
    obtain ⟨c, cs, hc, _⟩ := tok_head_ns _ htok
    obtain ⟨wsZ, hwsZ⟩ := lstrip_decomp L
    have hwl : wsZ.length = leadingWs L := by
      have h1 := congrArg List.length hwsZ
      have h2 := congrArg List.length (drop_leadingWs L)
      have h3 := leadingWs_le L
      simp only [List.length_append, List.length_drop] at h1 h2
      omega
    have hnl : '\n' ∉ lstrip L := fun m => hL (by rw [hwsZ]; exact List.mem_append_right _ m)
    have h1 : 1 ≤ (lstrip L).length := by rw [hc]; simp
    obtain ⟨cb, hb⟩ := loopB_fwd (p ++ '\n' :: wsZ) (lstrip L) [] hnl (Or.inl rfl) ((lstrip L).length - 1) 1 (by omega)
    have hdd' : p ++ '\n' :: wsZ ++ (lstrip L ++ []) = d := by
      rw [hd2, List.append_nil, List.append_assoc, List.cons_append, ← hwsZ]
    have hi : (((p ++ '\n' :: wsZ).length + 1 : Nat) : Int) = ((pre.length + leadingWs L : Nat) : Int) + 1 := by
      simp only [List.length_append, List.length_cons]; omega
    rw [hdd', hi] at hb
    rw [hb]
    have hce : (Exit.cond == Exit.raise) = false := rfl
    have hlen : (p ++ '\n' :: wsZ).length + (lstrip L).length = d.length := by
      rw [← hdd']; simp only [List.length_append, List.length_cons, List.length_nil]; omega
    have hne : (((pre.length + leadingWs L : Nat) : Int) == (((p ++ '\n' :: wsZ).length + (lstrip L).length : Nat) : Int)) = false := by
      simp only [List.length_append, List.length_cons, beq_eq_false_iff_ne, ne_eq]; omega
    rw [hlen] at hne
    simp only [hce, Bool.false_eq_true, if_false, hlen, hne]
  · simp only [htok, Bool.false_eq_true, if_false]
    rw [hverd]
    cases lineVerdict pre.length L <;> rfl

end DSS
