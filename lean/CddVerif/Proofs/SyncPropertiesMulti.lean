import CddVerif.Model.SyncPropertiesMulti
import CddVerif.Proofs.SyncProperties
/-! Specification vocabulary and lemmas for the multi-pair model of `sync_properties` (C13):
    the same traversal invariant as `Proofs/SyncProperties.lean`, on trees with STORED `_location`s. -/
namespace SyncProps
open PyAst

mutual
/-- two annotated statements identical (attributes included) except for ONE statement `old ↦ new` with `P old new`,
    which is the statement itself or lies in the bodies of classes / `async def`s -/
inductive OneHoleTS (P : TStmt → TStmt → Prop) : TStmt → TStmt → Prop
  | here {old new : TStmt} : P old new → OneHoleTS P old new
  | cls {l : Option Loc} {n : String} {bs ks ds : List String} {body body' : List TStmt} :
      OneHoleT P body body' → OneHoleTS P (.cls l n bs ks body ds) (.cls l n bs ks body' ds)
  | afn {l : Option Loc} {n : String} {a : TArgs} {ds : List String} {ret : Option String} {body body' : List TStmt} :
      OneHoleT P body body' → OneHoleTS P (.fn true l n a body ds ret) (.fn true l n a body' ds ret)
/-- two annotated statement lists identical except for ONE statement somewhere inside -/
inductive OneHoleT (P : TStmt → TStmt → Prop) : List TStmt → List TStmt → Prop
  | head {s s' : TStmt} {ss : List TStmt} : OneHoleTS P s s' → OneHoleT P (s :: ss) (s' :: ss)
  | tail {s : TStmt} {ss ss' : List TStmt} : OneHoleT P ss ss' → OneHoleT P (s :: ss) (s :: ss')
end

theorem OneHoleT.length_eq {P} : ∀ {ss ss' : List TStmt}, OneHoleT P ss ss' → ss'.length = ss.length
  | _, _, .head _ => by simp
  | _, _, .tail h => by simp [OneHoleT.length_eq h]

theorem OneHoleT.all_but_one {P} : ∀ {ss ss' : List TStmt}, OneHoleT P ss ss' →
    ∃ i : Nat, ∀ j : Nat, j ≠ i → ss'[j]? = ss[j]?
  | _, _, .head _ => ⟨0, fun j hj => by cases j with | zero => exact absurd rfl hj | succ k => simp⟩
  | _, _, .tail h => by
    obtain ⟨i, hi⟩ := OneHoleT.all_but_one h
    refine ⟨i + 1, fun j hj => ?_⟩
    cases j with
    | zero => simp
    | succ k => simpa using hi k (by omega)

/-- `l'` is `l`, or `l` with ONE element — one that CARRIES the search path as its `_location` — replaced by `r` -/
def ListChangeT (search : Loc) (r : TArg) (l l' : List TArg) : Prop :=
  l' = l ∨ ∃ j x, l[j]? = some x ∧ x.loc = some search ∧ l' = l.set j r

def ArgsChangeT (search : Loc) (r : TArg) (a a' : TArgs) : Prop :=
  a'.posonly = a.posonly ∧ a'.vararg = a.vararg ∧ a'.kwarg = a.kwarg ∧ a'.kwDefaults = a.kwDefaults ∧
  a'.defaults.length = a.defaults.length ∧
  ListChangeT search r a.args a'.args ∧ ListChangeT search r a.kwonly a'.kwonly

def ConvT (repl0 repl : TNode) : Prop := repl = repl0 ∨ ∃ r, asArgA repl0 = some r ∧ repl = .arg r

/-- the statement a replacement node becomes in a statement list -/
def placedStmt (argOk : Bool) : TNode → TStmt
  | .stmt r => r
  | .arg a => if argOk then .argStmt a else .other "<ast.arg>"

/-- the one change a pair may make: the statement that CARRIES the search path is replaced by the replacement node, or
    the parameter that carries it (in a function) is replaced by the replacement's `ast.arg` form -/
def SlotT (search : Loc) (repl0 : TNode) (old new : TStmt) : Prop :=
  (old.loc? = some search ∧ ∃ argOk repl, ConvT repl0 repl ∧ new = placedStmt argOk repl)
  ∨ (∃ async l n a a' body ds ret r, old = .fn async l n a body ds ret ∧ new = .fn async l n a' body ds ret ∧
      asArgA repl0 = some r ∧ ArgsChangeT search r a a')

theorem replaceFirstA_spec (search : Loc) (r : TArg) (l : List TArg) :
    ((replaceFirstA search r l).2 = false → (replaceFirstA search r l).1 = l) ∧
    ((replaceFirstA search r l).2 = true →
      ∃ j x, l[j]? = some x ∧ x.loc = some search ∧ (replaceFirstA search r l).1 = l.set j r) := by
  induction l with
  | nil => simp [replaceFirstA]
  | cons x xs ih =>
    unfold replaceFirstA
    by_cases h : (x.loc == some search) = true
    · simp only [h, if_true]
      exact ⟨fun h' => (by cases h'), fun _ => ⟨0, x, (by simp), (by simpa using h), (by simp)⟩⟩
    · simp only [h]
      refine ⟨fun h' => (by simp [ih.1 h']), fun h' => ?_⟩
      obtain ⟨j, y, hj, hy, he⟩ := ih.2 h'
      exact ⟨j + 1, y, by simpa using hj, hy, by simp [he]⟩

theorem replaceFirstA_change (search : Loc) (r : TArg) (l : List TArg) :
    ListChangeT search r l (replaceFirstA search r l).1 := by
  cases h : (replaceFirstA search r l).2 with
  | false => exact .inl ((replaceFirstA_spec search r l).1 h)
  | true => exact .inr ((replaceFirstA_spec search r l).2 h)

theorem prepareA_repl (a : TArgs) (node : TNode) : (prepareA a node).repl = asArgA node := by
  unfold prepareA
  split
  · split
    · split <;> rfl
    · rfl
  · split
    · split <;> rfl
    · rfl
  · rfl

theorem prepareA_args (a : TArgs) (node : TNode) :
    ∃ ds, ds.length = a.defaults.length ∧ (prepareA a node).args = { a with defaults := ds } ∧
      ((prepareA a node).touched = false → ds = a.defaults) := by
  unfold prepareA
  split
  · split
    · split
      · exact ⟨_, by simp, rfl, fun h => by cases h⟩
      · exact ⟨a.defaults, rfl, rfl, fun _ => rfl⟩
    · exact ⟨a.defaults, rfl, rfl, fun _ => rfl⟩
  · split
    · split
      · exact ⟨a.defaults, rfl, rfl, fun _ => rfl⟩
      · exact ⟨a.defaults, rfl, rfl, fun _ => rfl⟩
    · exact ⟨a.defaults, rfl, rfl, fun _ => rfl⟩
  · exact ⟨a.defaults, rfl, rfl, fun _ => rfl⟩

structure PostT (repl0 : TNode) (st st' : TState) (same hole : Prop) : Prop where
  err : st.err ≠ none → same ∧ st' = st
  rep : st.replaced = true → same ∧ st' = st
  ph : st.phantom = true → st'.phantom = true
  main : st.err = none → st.replaced = false → ConvT repl0 st.repl → st'.err = none → st'.phantom = false →
    ConvT repl0 st'.repl ∧ ((st'.replaced = false ∧ same) ∨ (st'.replaced = true ∧ hole))

theorem PostT.seq {repl0 : TNode} {st st1 st2 : TState} {same1 hole1 same2 hole2 : Prop}
    (h1 : PostT repl0 st st1 same1 hole1) (h2 : PostT repl0 st1 st2 same2 hole2) :
    PostT repl0 st st2 (same1 ∧ same2) ((hole1 ∧ same2) ∨ (same1 ∧ hole2)) where
  err := fun he => by
    obtain ⟨s1, e1⟩ := h1.err he
    obtain ⟨s2, e2⟩ := h2.err (by rw [e1]; exact he)
    exact ⟨⟨s1, s2⟩, by rw [e2, e1]⟩
  rep := fun hr => by
    obtain ⟨s1, e1⟩ := h1.rep hr
    obtain ⟨s2, e2⟩ := h2.rep (by rw [e1]; exact hr)
    exact ⟨⟨s1, s2⟩, by rw [e2, e1]⟩
  ph := fun hp => h2.ph (h1.ph hp)
  main := fun he hr hc he2 hp2 => by
    have he1 : st1.err = none := by
      by_cases h : st1.err = none
      · exact h
      · have := (h2.err h).2; rw [this] at he2; exact absurd he2 h
    have hp1 : st1.phantom = false := by
      cases h : st1.phantom with
      | false => rfl
      | true => have := h2.ph h; rw [this] at hp2; cases hp2
    obtain ⟨hc1, hcase⟩ := h1.main he hr hc he1 hp1
    rcases hcase with ⟨hr1, s1⟩ | ⟨hr1, ho1⟩
    · obtain ⟨hc2, hcase2⟩ := h2.main he1 hr1 hc1 he2 hp2
      refine ⟨hc2, ?_⟩
      rcases hcase2 with ⟨hr2, s2⟩ | ⟨hr2, ho2⟩
      · exact .inl ⟨hr2, s1, s2⟩
      · exact .inr ⟨hr2, .inr ⟨s1, ho2⟩⟩
    · obtain ⟨s2, e2⟩ := h2.rep hr1
      rw [e2]
      exact ⟨hc1, .inr ⟨hr1, .inl ⟨ho1, s2⟩⟩⟩

theorem PostT.mono {repl0 : TNode} {st st' : TState} {same hole same' hole' : Prop}
    (h : PostT repl0 st st' same hole) (hs : same → same') (hh : hole → hole') : PostT repl0 st st' same' hole' where
  err := fun he => ⟨hs (h.err he).1, (h.err he).2⟩
  rep := fun hr => ⟨hs (h.rep hr).1, (h.rep hr).2⟩
  ph := h.ph
  main := fun he hr hc he2 hp2 => by
    obtain ⟨hc', hcase⟩ := h.main he hr hc he2 hp2
    exact ⟨hc', hcase.imp (fun ⟨a, b⟩ => ⟨a, hs b⟩) (fun ⟨a, b⟩ => ⟨a, hh b⟩)⟩

theorem PostT.refl {repl0 : TNode} {st : TState} {same hole : Prop} (hs : same) : PostT repl0 st st same hole where
  err := fun _ => ⟨hs, rfl⟩
  rep := fun _ => ⟨hs, rfl⟩
  ph := id
  main := fun _ hr hc _ _ => ⟨hc, .inl ⟨hr, hs⟩⟩

theorem convT_step {repl0 repl : TNode} {r : TArg} (hc : ConvT repl0 repl) (hr : asArgA repl = some r) :
    ConvT repl0 (.arg r) ∧ asArgA repl0 = some r := by
  rcases hc with h | ⟨r0, h0, h1⟩
  · subst h; exact ⟨.inr ⟨r, hr, rfl⟩, hr⟩
  · subst h1
    have : r0 = r := by simpa [asArgA] using hr
    subst this
    exact ⟨.inr ⟨r0, h0, rfl⟩, h0⟩

theorem visitFnA_skip {search : Loc} {st : TState} {loc : Option Loc} {a : TArgs}
    (hc : (st.replaced || st.err.isSome || (loc != some search.dropLast)) = true) :
    visitFnA search st loc a = (a, st) := by
  unfold visitFnA; simp only [hc, if_true]

theorem visitFnA_go {search : Loc} {st : TState} {loc : Option Loc} {a : TArgs}
    (hc : ¬ (st.replaced || st.err.isSome || (loc != some search.dropLast)) = true) :
    visitFnA search st loc a =
      match asArgA st.repl with
      | none => (a, { st with err := some .assertion })
      | some r =>
        let p := prepareA a st.repl
        let ra := replaceFirstA search r p.args.args
        let rk := replaceFirstA search r p.args.kwonly
        ({ p.args with args := ra.1, kwonly := rk.1 },
         { st with repl := .arg r, replaced := ra.2 || rk.2, poisoned := st.poisoned || p.poisoned,
                   phantom := st.phantom || (p.touched && !(ra.2 || rk.2)) }) := by
  unfold visitFnA; simp only [hc, prepareA_repl]; rfl

theorem visitFnA_post (search : Loc) (repl0 : TNode) (st : TState) (loc : Option Loc) (a : TArgs) :
    PostT repl0 st (visitFnA search st loc a).2 ((visitFnA search st loc a).1 = a)
      (∃ r, asArgA repl0 = some r ∧ ArgsChangeT search r a (visitFnA search st loc a).1) := by
  by_cases hc : (st.replaced || st.err.isSome || (loc != some search.dropLast)) = true
  · rw [visitFnA_skip hc]; exact PostT.refl rfl
  · rw [visitFnA_go hc]
    have hrep : st.replaced = false := by
      cases h : st.replaced with
      | false => rfl
      | true => simp [h] at hc
    have herr : st.err = none := by
      cases h : st.err with
      | none => rfl
      | some e => simp [h] at hc
    cases hr : asArgA st.repl with
    | none =>
      exact { err := fun h => absurd herr h, rep := fun h => (by rw [hrep] at h; cases h), ph := fun h => h,
              main := fun _ _ _ h _ => (by cases h) }
    | some r =>
      simp only []
      obtain ⟨ds, hlen, hargs, hunt⟩ := prepareA_args a st.repl
      generalize hp : prepareA a st.repl = p at *
      have hA := replaceFirstA_spec search r p.args.args
      have hK := replaceFirstA_spec search r p.args.kwonly
      have hCA := replaceFirstA_change search r p.args.args
      have hCK := replaceFirstA_change search r p.args.kwonly
      generalize hra : replaceFirstA search r p.args.args = ra at *
      generalize hrk : replaceFirstA search r p.args.kwonly = rk at *
      refine { err := fun h => absurd herr h, rep := fun h => (by rw [hrep] at h; cases h), ph := fun h => (by simp [h]), main := ?_ }
      intro _ _ hconv _ hph
      obtain ⟨hc1, hr0⟩ := convT_step hconv hr
      refine ⟨hc1, ?_⟩
      simp only [] at hph ⊢
      cases hb1 : ra.2 <;> cases hb2 : rk.2
      · left
        have htouched : p.touched = false := by
          cases h : p.touched with
          | false => rfl
          | true => simp [h, hb1, hb2] at hph
        refine ⟨by simp, ?_⟩
        rw [hA.1 hb1, hK.1 hb2, hargs, hunt htouched]
      all_goals
        right
        refine ⟨by simp, r, hr0, ?_⟩
        rw [hargs] at hCA hCK ⊢
        exact ⟨rfl, rfl, rfl, rfl, hlen, hCA, hCK⟩

theorem ListChangeT.cons {search : Loc} {r : TArg} {l l' : List TArg} (x : TArg) (h : ListChangeT search r l l') :
    ListChangeT search r (x :: l) (x :: l') := by
  rcases h with h | ⟨j, y, hj, hy, he⟩
  · exact .inl (by rw [h])
  · exact .inr ⟨j + 1, y, by simpa using hj, hy, by simp [he]⟩

theorem convT_arg {repl0 : TNode} {r : TArg} (hc : ConvT repl0 (.arg r)) : asArgA repl0 = some r := by
  rcases hc with h | ⟨r0, h0, h1⟩
  · rw [← h]; rfl
  · cases h1; exact h0

theorem visitAsyncArgsA_post (search : Loc) (repl0 : TNode) (st : TState) (l : List TArg) :
    PostT repl0 st (visitAsyncArgsA search st l).2 ((visitAsyncArgsA search st l).1 = l)
      (∃ r, asArgA repl0 = some r ∧ ListChangeT search r l (visitAsyncArgsA search st l).1) := by
  induction l with
  | nil => unfold visitAsyncArgsA; exact PostT.refl rfl
  | cons x xs ih =>
    unfold visitAsyncArgsA
    by_cases hc : (!st.replaced && st.err.isNone && x.loc == some search) = true
    · rw [if_pos hc]
      have hrep : st.replaced = false := by
        cases h : st.replaced with
        | false => rfl
        | true => simp [h] at hc
      have herr : st.err = none := by
        cases h : st.err with
        | none => rfl
        | some e => simp [h] at hc
      have hloc : x.loc = some search := by
        simp only [Bool.and_eq_true, beq_iff_eq] at hc; exact hc.2
      cases hr : st.repl with
      | arg r =>
        simp only []
        refine { err := fun h => absurd herr h, rep := fun h => (by rw [hrep] at h; cases h), ph := fun h => h, main := ?_ }
        intro _ _ hconv _ _
        rw [hr] at hconv
        exact ⟨hconv, .inr ⟨rfl, r, convT_arg hconv, .inr ⟨0, x, by simp, hloc, by simp⟩⟩⟩
      | stmt s =>
        simp only []
        exact { err := fun h => absurd herr h, rep := fun h => (by rw [hrep] at h; cases h), ph := fun h => h,
                main := fun _ _ _ h _ => (by cases h) }
    · rw [if_neg hc]
      exact ih.mono (fun h => by simp only []; rw [h]) (fun ⟨r, hr, hch⟩ => ⟨r, hr, hch.cons x⟩)

theorem hitA_iff {search : Loc} {st : TState} {s : TStmt} :
    hitA search st s = true ↔ st.replaced = false ∧ st.err = none ∧ s.loc? = some search := by
  unfold hitA
  cases st.replaced <;> cases st.err <;> simp

theorem placeA_post (search : Loc) (repl0 : TNode) (argOk : Bool) (st : TState) (s : TStmt)
    (hh : hitA search st s = true) :
    PostT repl0 st (placeA argOk st).2 ((placeA argOk st).1 = s) (OneHoleTS (SlotT search repl0) s (placeA argOk st).1) := by
  obtain ⟨hrep, herr, hloc⟩ := hitA_iff.mp hh
  unfold placeA
  cases hr : st.repl with
  | stmt r =>
    simp only []
    refine { err := fun h => absurd herr h, rep := fun h => (by rw [hrep] at h; cases h), ph := fun h => h, main := ?_ }
    intro _ _ hconv _ _
    rw [hr] at hconv
    exact ⟨hconv, .inr ⟨rfl, .here (.inl ⟨hloc, argOk, .stmt r, hconv, rfl⟩)⟩⟩
  | arg a =>
    simp only []
    cases argOk with
    | true =>
      simp only [if_true]
      refine { err := fun h => absurd herr h, rep := fun h => (by rw [hrep] at h; cases h), ph := fun h => h, main := ?_ }
      intro _ _ hconv _ _
      rw [hr] at hconv
      exact ⟨hconv, .inr ⟨rfl, .here (.inl ⟨hloc, true, .arg a, hconv, rfl⟩)⟩⟩
    | false =>
      simp only [Bool.false_eq_true, if_false]
      exact { err := fun h => absurd herr h, rep := fun h => (by rw [hrep] at h; cases h), ph := fun h => h,
              main := fun _ _ _ h _ => (by cases h) }

mutual
theorem visitA_post (search : Loc) (repl0 : TNode) (argOk : Bool) (st : TState) : (s : TStmt) →
    PostT repl0 st (visitA search argOk st s).2 ((visitA search argOk st s).1 = s)
      (OneHoleTS (SlotT search repl0) s (visitA search argOk st s).1)
  | .fn false loc name a body ds ret => by
    rw [visitA]
    exact (visitFnA_post search repl0 st loc a).mono (fun h => by simp only []; rw [h])
      (fun ⟨r, hr, hc⟩ => .here (.inr ⟨false, loc, name, a, _, body, ds, ret, r, rfl, rfl, hr, hc⟩))
  | .fn true loc name a body ds ret => by
    rw [visitA]
    by_cases hh : hitA search st (.fn true loc name a body ds ret) = true
    · rw [if_pos hh]; exact placeA_post search repl0 argOk st _ hh
    · rw [if_neg hh]
      simp only []
      have h1 := visitAsyncArgsA_post search repl0 st a.args
      have h2 := visitAsyncArgsA_post search repl0 (visitAsyncArgsA search st a.args).2 a.kwonly
      have h3 := visitListA_post search repl0 (body.length == 1)
        (visitAsyncArgsA search (visitAsyncArgsA search st a.args).2 a.kwonly).2 body
      refine ((h1.seq h2).seq h3).mono ?_ ?_
      · rintro ⟨⟨e1, e2⟩, e3⟩; rw [e1, e2, e3]
      · rintro (⟨(⟨⟨r, hr, hc⟩, e2⟩ | ⟨e1, ⟨r, hr, hc⟩⟩), e3⟩ | ⟨⟨e1, e2⟩, ho⟩)
        · rw [e2, e3]
          exact .here (.inr ⟨true, loc, name, a, _, body, ds, ret, r, rfl, rfl, hr, rfl, rfl, rfl, rfl, rfl, hc, .inl rfl⟩)
        · rw [e1, e3]
          exact .here (.inr ⟨true, loc, name, a, _, body, ds, ret, r, rfl, rfl, hr, rfl, rfl, rfl, rfl, rfl, .inl rfl, hc⟩)
        · rw [e1, e2]; exact .afn ho
  | .cls loc n bs ks body ds => by
    rw [visitA]
    by_cases hh : hitA search st (.cls loc n bs ks body ds) = true
    · rw [if_pos hh]; exact placeA_post search repl0 argOk st _ hh
    · rw [if_neg hh]
      exact (visitListA_post search repl0 (body.length == 1) st body).mono (fun h => by simp only []; rw [h]) (fun h => .cls h)
  | .ann l i t a v => by
    rw [visitA]
    by_cases hh : hitA search st (.ann l i t a v) = true
    · rw [if_pos hh]; exact placeA_post search repl0 argOk st _ hh
    · rw [if_neg hh]; exact PostT.refl rfl
  | .assign l ts v => by
    rw [visitA]
    by_cases hh : hitA search st (.assign l ts v) = true
    · rw [if_pos hh]; exact placeA_post search repl0 argOk st _ hh
    · rw [if_neg hh]; exact PostT.refl rfl
  | .argStmt a => by
    rw [visitA]
    by_cases hh : hitA search st (.argStmt a) = true
    · rw [if_pos hh]; exact placeA_post search repl0 argOk st _ hh
    · rw [if_neg hh]; exact PostT.refl rfl
  | .strExpr s => by rw [visitA]; exact PostT.refl rfl
  | .expr s => by rw [visitA]; exact PostT.refl rfl
  | .other s => by rw [visitA]; exact PostT.refl rfl
theorem visitListA_post (search : Loc) (repl0 : TNode) (argOk : Bool) (st : TState) : (ss : List TStmt) →
    PostT repl0 st (visitListA search argOk st ss).2 ((visitListA search argOk st ss).1 = ss)
      (OneHoleT (SlotT search repl0) ss (visitListA search argOk st ss).1)
  | [] => by rw [visitListA]; exact PostT.refl rfl
  | s :: ss => by
    rw [visitListA]
    simp only []
    refine ((visitA_post search repl0 argOk st s).seq
      (visitListA_post search repl0 false (visitA search argOk st s).2 ss)).mono ?_ ?_
    · rintro ⟨e1, e2⟩; rw [e1, e2]
    · rintro (⟨ho, e2⟩ | ⟨e1, ho⟩)
      · rw [e2]; exact .head ho
      · rw [e1]; exact .tail ho
end

/-- one rewrite on stored locations: replaced, no exception, no phantom default write ⇒ exactly one hole -/
theorem rewriteA_one_hole (search : Loc) (repl : TNode) (m : TModule)
    (he : (rewriteA search repl m).2.err = none) (hp : (rewriteA search repl m).2.phantom = false)
    (hr : (rewriteA search repl m).2.replaced = true) :
    OneHoleT (SlotT search repl) m (rewriteA search repl m).1 := by
  have := (visitListA_post search repl true { repl := repl } m).main rfl rfl (.inl rfl) he hp
  rcases this.2 with ⟨h, _⟩ | ⟨_, h⟩
  · unfold rewriteA at hr; rw [hr] at h; cases h
  · exact h

/-! ## one pair -/

/-- the assignment `replacement_node.annotation = …`: nothing happens, or the annotation of ONE object `i` changes —
    in the input tree and wherever that object sits in the output tree -/
def AliasUpd (ms msw : MState) : Prop :=
  msw = ms ∨ ∃ i w, msw = { ms with input := setAnnL i w ms.input, output := setAnnL i w ms.output }

theorem replacementA_alias {ev : Bool} {wrap : Option String} {ms msw : MState} {p : Pair} {node : TNode}
    (h : replacementA ev wrap ms p = .ok (node, msw)) : AliasUpd ms msw := by
  unfold replacementA at h
  split at h
  · cases h
  · split at h
    · cases h; exact .inl rfl
    · split at h
      · cases h
      · cases h; exact .inl rfl
      · rename_i i w _
        cases h; exact .inr ⟨i, w, rfl⟩

/-- without a wrap template nothing is assigned -/
theorem replacementA_no_wrap {ev : Bool} {ms msw : MState} {p : Pair} {node : TNode}
    (h : replacementA ev none ms p = .ok (node, msw)) : msw = ms := by
  unfold replacementA at h
  split at h
  · cases h
  · simp only [] at h; cases h; rfl

/-- under `--input-eval` the node is freshly built: assigning to its annotation is seen nowhere else -/
theorem replacementA_eval {wrap : Option String} {ms msw : MState} {p : Pair} {node : TNode}
    (h : replacementA true wrap ms p = .ok (node, msw)) : msw = ms := by
  unfold replacementA at h
  simp only [if_true] at h
  cases he : evalNodeA p (stripSplit p.outputParam) with
  | error e => rw [he] at h; cases h
  | ok n0 =>
    rw [he] at h
    simp only [] at h
    have hn : ∃ t lit, n0 = .stmt (.ann none none t lit none) := by
      unfold evalNodeA at he
      split at he
      · cases he
      · split at he
        · cases he
        · rename_i vs _
          cases hl : it2literal vs with
          | error e => rw [hl] at he; cases he
          | ok lit => rw [hl] at he; cases he; exact ⟨_, lit, rfl⟩
    obtain ⟨t, lit, rfl⟩ := hn
    cases wrap with
    | none => simp only [] at h; cases h; rfl
    | some tm =>
      simp only [wrapNodeA] at h
      cases hf : formatWrap tm lit with
      | error e => rw [hf] at h; cases h
      | ok w => rw [hf] at h; simp only [Except.map, Option.map] at h; cases h; rfl

theorem aliasUpd_phantom {ms msw : MState} (h : AliasUpd ms msw) : msw.phantom = ms.phantom := by
  rcases h with h | ⟨i, w, h⟩ <;> rw [h]

/-- **one pair:** a successful `stepPair` is: compute the replacement node (with the assignment to its annotation,
    `AliasUpd`), then ONE hole in the output tree at a node that carries the search path; the input tree is only
    touched by that assignment -/
theorem stepPair_spec {ev : Bool} {wrap : Option String} {ms ms1 : MState} {p : Pair}
    (h : stepPair ev wrap ms p = .ok ms1) :
    ∃ node msw, replacementA ev wrap ms p = .ok (node, msw) ∧ AliasUpd ms msw ∧ ms1.input = msw.input ∧
      (ms.phantom = true → ms1.phantom = true) ∧
      (ms1.phantom = false → OneHoleT (SlotT (stripSplit p.outputParam) node) msw.output ms1.output) := by
  unfold stepPair at h
  cases hr : replacementA ev wrap ms p with
  | error e => rw [hr] at h; cases h
  | ok nm =>
    obtain ⟨node, msw⟩ := nm
    rw [hr] at h
    simp only [] at h
    have hal := replacementA_alias hr
    cases he : (rewriteA (stripSplit p.outputParam) node msw.output).2.err with
    | some e => rw [he] at h; cases h
    | none =>
      rw [he] at h
      simp only [] at h
      cases hrep : (rewriteA (stripSplit p.outputParam) node msw.output).2.replaced with
      | false => simp [hrep] at h
      | true =>
        simp only [hrep, Bool.not_true, Bool.false_eq_true, if_false] at h
        cases h
        refine ⟨node, msw, rfl, hal, rfl, fun hp => ?_, fun hp => ?_⟩
        · simp [aliasUpd_phantom hal, hp]
        · simp only [Bool.or_eq_false_iff] at hp
          exact rewriteA_one_hole _ node msw.output he hp.2 hrep

/-! ## the loop -/

/-- "every pair, in order, none skipped": the states between the pairs -/
inductive Steps (ev : Bool) (wrap : Option String) : MState → List Pair → MState → Prop
  | nil (ms : MState) : Steps ev wrap ms [] ms
  | cons {ms ms1 ms' : MState} {p : Pair} {ps : List Pair} :
      stepPair ev wrap ms p = .ok ms1 → Steps ev wrap ms1 ps ms' → Steps ev wrap ms (p :: ps) ms'

theorem loopPairs_iff_steps (ev : Bool) (wrap : Option String) : ∀ (ps : List Pair) (ms ms' : MState),
    loopPairs ev wrap ms ps = .ok ms' ↔ Steps ev wrap ms ps ms'
  | [], ms, ms' => by
    constructor
    · intro h; unfold loopPairs at h; cases h; exact .nil ms
    · intro h; cases h; rfl
  | p :: ps, ms, ms' => by
    constructor
    · intro h
      unfold loopPairs at h
      cases hs : stepPair ev wrap ms p with
      | error e => rw [hs] at h; cases h
      | ok ms1 => rw [hs] at h; exact .cons hs ((loopPairs_iff_steps ev wrap ps ms1 ms').mp h)
    · intro h
      cases h with
      | cons hs ht => unfold loopPairs; rw [hs]; exact (loopPairs_iff_steps ev wrap ps _ ms').mpr ht

/-- the frame of a whole call: for every pair in turn — the assignment to the replacement's annotation (`AliasUpd`),
    then ONE hole `SlotT` for that pair's path and node; everything else (attributes included) is carried over
    literally from pair to pair -/
inductive FrameChain (ev : Bool) (wrap : Option String) : MState → List Pair → MState → Prop
  | nil (ms : MState) : FrameChain ev wrap ms [] ms
  | cons {ms msw ms1 ms' : MState} {p : Pair} {ps : List Pair} {node : TNode} :
      replacementA ev wrap ms p = .ok (node, msw) → AliasUpd ms msw →
      OneHoleT (SlotT (stripSplit p.outputParam) node) msw.output ms1.output → ms1.input = msw.input →
      FrameChain ev wrap ms1 ps ms' → FrameChain ev wrap ms (p :: ps) ms'

theorem steps_phantom_mono {ev : Bool} {wrap : Option String} {ms ms' : MState} {ps : List Pair}
    (h : Steps ev wrap ms ps ms') : ms.phantom = true → ms'.phantom = true := by
  induction h with
  | nil _ => exact id
  | cons hs _ ih =>
    obtain ⟨_, _, _, _, _, hm, _⟩ := stepPair_spec hs
    exact fun hp => ih (hm hp)

theorem steps_chain {ev : Bool} {wrap : Option String} {ms ms' : MState} {ps : List Pair}
    (h : Steps ev wrap ms ps ms') (hp : ms'.phantom = false) : FrameChain ev wrap ms ps ms' := by
  induction h with
  | nil ms => exact .nil ms
  | @cons ms ms1 ms' p ps hs ht ih =>
    obtain ⟨node, msw, hr, hal, hin, _, hole⟩ := stepPair_spec hs
    have hp1 : ms1.phantom = false := by
      cases hq : ms1.phantom with
      | false => rfl
      | true => have := steps_phantom_mono ht hq; rw [this] at hp; cases hp
    exact .cons hr hal (hole hp1) hin (ih hp)

/-! ## erasing the attributes -/

theorem eraseL_getElem? : ∀ (l : List TStmt) (j : Nat), (eraseL l)[j]? = (l[j]?).map eraseS
  | [], j => by simp [eraseL]
  | s :: ss, 0 => by simp [eraseL]
  | s :: ss, j + 1 => by simp [eraseL, eraseL_getElem? ss j]

theorem eraseL_length : ∀ l : List TStmt, (eraseL l).length = l.length
  | [] => by simp [eraseL]
  | s :: ss => by simp [eraseL, eraseL_length ss]

theorem annotArgsA_erase (fnLoc : Loc) (pos : Option NodeId) (tag : Nat) : ∀ (l : List Arg) (i : Int) (j : Nat),
    (annotArgsA fnLoc pos tag i j l).map TArg.erase = l
  | [], _, _ => by simp [annotArgsA]
  | x :: xs, i, j => by simp [annotArgsA, TArg.erase, annotArgsA_erase fnLoc pos tag xs]

mutual
/-- annotating and dropping the attributes again is the identity -/
theorem eraseS_annotateS (parent : Option String) (pos : Option NodeId) : (s : Stmt) → eraseS (annotateS parent pos s) = s
  | .fn a n g b d r => by
    rw [annotateS, eraseS, eraseL_annotateL (some n) pos 0 b]
    simp [annotArgs', TArgs.erase, annotArgsA_erase]
  | .cls n bs ks b d => by rw [annotateS, eraseS, eraseL_annotateL (some n) pos 0 b]
  | .ann t a v => by rw [annotateS, eraseS]
  | .assign ts v => by rw [annotateS, eraseS]
  | .strExpr s => by rw [annotateS, eraseS]
  | .expr s => by rw [annotateS, eraseS]
  | .other s => by rw [annotateS, eraseS]
theorem eraseL_annotateL (parent : Option String) (pos : Option NodeId) (i : Nat) : (ss : List Stmt) →
    eraseL (annotateL parent pos i ss) = ss
  | [] => by rw [annotateL, eraseL]
  | s :: ss => by rw [annotateL, eraseL, eraseS_annotateS parent _ s, eraseL_annotateL parent pos (i + 1) ss]
end

/-! ## how many top-level statements a call can change (no alias assignment: no template, or `--input-eval`) -/

theorem steps_top_level {ev : Bool} {wrap : Option String} (hw : wrap = none ∨ ev = true) {ms ms' : MState} {ps : List Pair}
    (h : Steps ev wrap ms ps ms') (hp : ms'.phantom = false) :
    ms'.output.length = ms.output.length ∧
    ∃ I : List Nat, I.length ≤ ps.length ∧ ∀ j : Nat, j ∉ I → ms'.output[j]? = ms.output[j]? := by
  induction h with
  | nil ms => exact ⟨rfl, [], Nat.le_refl _, fun _ _ => rfl⟩
  | @cons ms ms1 ms' p ps hs ht ih =>
    obtain ⟨node, msw, hr, _, _, _, hole⟩ := stepPair_spec hs
    have hp1 : ms1.phantom = false := by
      cases hq : ms1.phantom with
      | false => rfl
      | true => have := steps_phantom_mono ht hq; rw [this] at hp; cases hp
    have hmsw : msw = ms := by
      rcases hw with hw | hw
      · subst hw; exact replacementA_no_wrap hr
      · subst hw; exact replacementA_eval hr
    have ho := hole hp1
    rw [hmsw] at ho
    obtain ⟨hl, I, hI, hrest⟩ := ih hp
    obtain ⟨i, hi⟩ := ho.all_but_one
    refine ⟨by rw [hl, ho.length_eq], i :: I, by simpa using hI, fun j hj => ?_⟩
    simp only [List.mem_cons, not_or] at hj
    rw [hrest j hj.2, hi j hj.1]

/-! ## two pairs into one parameter list -/

theorem findIdx?_set_irrelevant {α} (p : α → Bool) : ∀ (l : List α) (j : Nat) (r x : α),
    l[j]? = some x → p x = false → p r = false → (l.set j r).findIdx? p = l.findIdx? p
  | [], _, _, _, h, _, _ => by simp at h
  | y :: ys, 0, r, x, h, hx, hr => by
    simp only [List.getElem?_cons_zero, Option.some.injEq] at h
    subst h
    simp [List.findIdx?_cons, hx, hr]
  | y :: ys, j + 1, r, x, h, hx, hr => by
    simp only [List.getElem?_cons_succ] at h
    simp only [List.set_cons_succ, List.findIdx?_cons]
    rw [findIdx?_set_irrelevant p ys j r x h hx hr]

theorem findIdx?_some_getElem {α} (p : α → Bool) : ∀ (l : List α) (j : Nat), l.findIdx? p = some j →
    ∃ x, l[j]? = some x ∧ p x = true
  | [], _, h => by simp at h
  | y :: ys, j, h => by
    rw [List.findIdx?_cons] at h
    by_cases hy : p y = true
    · simp only [hy, if_true, Option.some.injEq] at h
      subst h; exact ⟨y, by simp, hy⟩
    · cases hf : ys.findIdx? p with
      | none => simp [hy, hf] at h
      | some i =>
        simp [hy, hf] at h
        subst h
        obtain ⟨x, hx, hpx⟩ := findIdx?_some_getElem p ys i hf
        exact ⟨x, by simpa using hx, hpx⟩

theorem replaceFirstA_findIdx (search : Loc) (r : TArg) : ∀ l : List TArg,
    (replaceFirstA search r l).1 =
      match l.findIdx? (fun x => x.loc == some search) with
      | some j => l.set j r
      | none => l
  | [] => by simp [replaceFirstA]
  | x :: xs => by
    unfold replaceFirstA
    rw [List.findIdx?_cons]
    by_cases h : (x.loc == some search) = true
    · simp [h]
    · simp only [h]
      rw [replaceFirstA_findIdx search r xs]
      cases xs.findIdx? (fun x => x.loc == some search) with
      | none => simp
      | some j => simp

end SyncProps
