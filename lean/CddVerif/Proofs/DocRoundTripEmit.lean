import CddVerif.Proofs.DocRoundTripStr
import CddVerif.Properties.C01
/-!
# Whole-docstring round trip (C01) — emitter side

`Doc.emit … .rest` in a proof-friendly form, the domain of interfaces (`GoodIR`), and the **shape of the emitted
text**: its lines are some header lines followed, for each entry, by the entry's one or two lines and a blank line
(`emit_lines`).
-/
namespace DocRT
open Py Doc DocSplit DocUtils

/-! ### `emit` for the ReST style, without `do` notation -/

/-- the text handed to the last step of `emit` (ReST) -/
def outOf (doc params returns : Str) : Str :=
  let pe := nlsEnd params
  let re := nlsEnd returns
  let cand := params ++ (if pe < 2 && !returns.isEmpty then ['\n'] else []) ++ returns
              ++ (if (returns.isEmpty && pe > 0) || (!returns.isEmpty && re == 0) then ['\n'] else [])
  hafToStr doc (if isspace cand then [] else cand) []

def finish (out : Str) : Str :=
  if out.isEmpty || isspace out then []
  else match find out ['\n'] with
    | Option.none => (if out.head? == some '\n' then out else ['\n'] ++ out)
    | some _ => out

def finishO (out : Str) : Out Str :=
  if out.isEmpty || isspace out then .ok []
  else match find out ['\n'] with
    | Option.none => .ok (if out.head? == some '\n' then out else ['\n'] ++ out)
    | some _ => .ok out

theorem finishO_eq (out : Str) : finishO out = .ok (finish out) := by
  unfold finishO finish
  split
  · rfl
  · split <;> rfl

def retPart (params : Str) (line : Str) : Str :=
  if line.isEmpty then [] else (if params.isEmpty || params.getLast? == some '\n' then [] else ['\n']) ++ line

def emitRest' (ir : IR) (et ww edd : Bool) : Out Str :=
  match mapOut (fun np => emitParamStr np.1 np.2 .rest et ww edd) ir.params with
  | .outside w => .outside w
  | .ok blocks =>
    match ir.returns with
    | Option.none => .ok (finish (outOf ir.doc (join ['\n', '\n'] blocks) []))
    | some rp => match emitParamStr sReturnType rp .rest et ww edd with
      | .outside w => .outside w
      | .ok line => .ok (finish (outOf ir.doc (join ['\n', '\n'] blocks) (retPart (join ['\n', '\n'] blocks) line)))

theorem emit_rest_eq (ir : IR) (et ww edd : Bool) : emit ir .rest et ww edd = emitRest' ir et ww edd := by
  have hs1 : (Doc.Style.rest == Doc.Style.rest) = true := rfl
  have hs2 : (Doc.Style.rest != Doc.Style.rest) = false := rfl
  unfold emit emitRest'
  simp (config := {zeta := false}) only [mapM_eq, bind, pure, hs1, hs2, Bool.and_false, Bool.false_eq_true, if_false, if_true]
  cases mapOut (fun np => emitParamStr np.1 np.2 .rest et ww edd) ir.params with
  | outside w => rfl
  | ok blocks =>
    cases ir.returns with
    | none => 
      exact finishO_eq (outOf ir.doc (join ['\n', '\n'] blocks) [])
    | some rp => 
      simp (config := {zeta := false}) only []
      cases emitParamStr sReturnType rp .rest et ww edd with
      | outside w => rfl
      | ok line =>
        simp (config := {zeta := false}) only []
        unfold retPart
        cases hl : line.isEmpty
        · simp (config := {zeta := false}) only [Bool.false_eq_true, if_false]
          exact finishO_eq (outOf ir.doc (join ['\n', '\n'] blocks) _)
        · simp (config := {zeta := false}) only [if_true]
          exact finishO_eq (outOf ir.doc (join ['\n', '\n'] blocks) [])
/-! ### one entry -/

def pfxParam : Str := [':','p','a','r','a','m',' ']
def pfxType : Str := [':','t','y','p','e',' ']
def pfxReturn : Str := [':','r','e','t','u','r','n']
def pfxRtype : Str := [':','r','t','y','p','e']
def paramLine (name doc : Str) : Str := pfxParam ++ name ++ [':',' '] ++ doc
def typeLine (name typ : Str) : Str := pfxType ++ name ++ [':',' '] ++ bt3 ++ typ ++ bt3
def returnLine (doc : Str) : Str := pfxReturn ++ [':',' '] ++ doc
def rtypeLine (typ : Str) : Str := pfxRtype ++ [':',' '] ++ bt3 ++ typ ++ bt3

/-- the one or two lines of an entry, before `fill` / `indent_all_but_first` -/
def linesOf (isRet : Bool) (name d : Str) (typ : Option Str) (et : Bool) : List Str :=
  (if isRet then returnLine (lstrip d) else paramLine name (lstrip d))
    :: (if et && truthy typ then [if isRet then rtypeLine (typ.getD []) else typeLine name (typ.getD [])] else [])

theorem lit_param : "param ".toList = ['p','a','r','a','m',' '] := by decide
theorem lit_type : "type ".toList = ['t','y','p','e',' '] := by decide
theorem lit_return : "return".toList = ['r','e','t','u','r','n'] := by decide
theorem lit_rtype : "rtype".toList = ['r','t','y','p','e'] := by decide

theorem setDefaultDoc_some (name : Str) (p : Param) (edd : Bool) (d : Str) (o : Option Str) (hd : p.doc = some d)
    (h : setDefaultDoc name p edd = .ok o) : ∃ d', o = some d' := by
  unfold setDefaultDoc at h
  rw [hd] at h
  simp only at h
  split at h
  · split at h
    · cases h; exact ⟨_, rfl⟩
    · cases h
  · split at h
    · split at h <;> (cases h; exact ⟨_, rfl⟩)
    · cases h; exact ⟨_, rfl⟩

theorem emitParamStr_ok (name : Str) (p : Param) (et ww edd : Bool) (blk : Str) (hdoc : truthy p.doc = true)
    (h : emitParamStr name p .rest et ww edd = .ok blk) :
    ∃ d', setDefaultDoc name p edd = .ok (some d')
      ∧ blk = join ['\n'] ((linesOf (name == sReturnType) name d' p.typ et).map indentAllButFirst) := by
  unfold emitParamStr at h
  simp (config := {zeta := false}) only [bind, pure, hdoc, if_true] at h
  obtain ⟨d, hd⟩ : ∃ d, p.doc = some d := by
    cases hp : p.doc with
    | none => rw [hp] at hdoc; cases hdoc
    | some d => exact ⟨d, rfl⟩
  cases hs : setDefaultDoc name p edd with
  | outside w => rw [hs] at h; cases h
  | ok o =>
    obtain ⟨d', rfl⟩ := setDefaultDoc_some name p edd d o hd hs
    refine ⟨d', rfl, ?_⟩
    rw [hs] at h
    simp (config := {zeta := false}) only [mapM_eq] at h
    cases hr : (name == sReturnType) <;> cases ht : (et && truthy p.typ) <;>
      simp only [hr, ht, lit_param, lit_type, lit_return, lit_rtype, Option.map_some, if_true, if_false, Bool.false_eq_true,
        List.filterMap_cons, List.filterMap_nil, id, List.singleton_append, List.cons_append, List.nil_append, List.append_assoc,
        List.filter_cons, List.filter_nil, List.isEmpty_cons, Bool.not_false] at h <;>
      simp only [linesOf, ht, if_true, if_false, Bool.false_eq_true, paramLine, typeLine, returnLine, rtypeLine, pfxParam, pfxType,
        pfxReturn, pfxRtype, List.cons_append, List.nil_append, List.append_assoc] <;>
      (split at h
       · rename_i a hm; cases h; rw [mapOut_fillLine ww _ a hm]
       · cases h)


/-! ### the domain -/

/-- **descriptions** the theorems cover -/
structure GoodDesc (d : Str) : Prop where
  ne : d ≠ []
  noBreak : NoBreak d
  noTok : NoTok d
  headNS : HeadNS d
  lastNS : LastNS d
  noDef1 : contains d "Defaults".toList = false
  noDef2 : contains d "defaults".toList = false
  noAnn : ∀ v ∈ announceVariants, find (lower d) (lower v) = none
  /-- no parenthesised announce phrase `(<variant>` (case-insensitively) -/
  noParenAnn : ∀ w ∈ announceVariants, contains (lower d) ('(' :: lower w) = false
  /-- the emitted ` Defaults to ` is the first `defaults to ` of the completed line -/
  noEarly : NoEarly C01.ann (lower (C01.baseOf d) ++ [' '])
  noPOpt : startsWith d ['(','O','p','t','i','o','n','a','l',')'] = false
  noOpt : startsWith d ['O','p','t','i','o','n','a','l'] = false

/-- **types** the theorems cover -/
structure GoodTyp (t : Str) : Prop where
  ne : t ≠ []
  chars : ∀ c ∈ t, c ≠ ':' ∧ c ≠ '`' ∧ isLineBreak c = false
  noOptSuffix : endsWith t ", optional".toList = false

/-- `<digits>.<digits>` -/
def DecimalText (r : Str) : Prop :=
  ∃ c a f, r = c :: a ++ '.' :: f ∧ c.isDigit = true ∧ (∀ x ∈ a, x.isDigit = true) ∧ (∀ x ∈ f, x.isDigit = true) ∧ f ≠ []

theorem decimal_chars (r : Str) (h : DecimalText r) : ∀ x ∈ r, x = '.' ∨ x.isDigit = true := by
  obtain ⟨c, a, f, rfl, hc, ha, hf, _⟩ := h
  intro x hx
  simp only [List.cons_append, List.mem_cons, List.mem_append] at hx
  rcases hx with rfl | hx | rfl | hx
  · exact Or.inr hc
  · exact Or.inr (ha x hx)
  · exact Or.inl rfl
  · exact Or.inr (hf x hx)

/-- **defaults** the theorems cover: integers, booleans and non-negative decimals `<digits>.<digits>` -/
def GoodDefault : Default → Prop
  | .int _ => True
  | .bool _ => True
  | .float r => DecimalText r
  | _ => False

/-- the declared type does not make the parser coerce the default (`bool("5")`, `float("5")` …) -/
def Compat (typ : Option Str) (v : Default) : Prop :=
  ∀ t, typ = some t → simpleTypes.contains t = false ∨ t = tyName v

structure GoodEntry (p : Param) : Prop where
  docSome : p.doc ≠ none
  doc : ∀ d, p.doc = some d → GoodDesc d
  typ : ∀ t, p.typ = some t → GoodTyp t
  dflt : ∀ v, p.default = some v → GoodDefault v ∧ Compat p.typ v

structure GoodName (name : Str) : Prop where
  chars : ∀ c ∈ name, c ≠ ':' ∧ isLineBreak c = false
  notRet : name ≠ sReturnType
  noStar : startsWith name ['*'] = false
  noKwargs : endsWith name "kwargs".toList = false

/-- the description line as emitted (with the default prose when `emit_default_doc`) -/
def docText (p : Param) (edd : Bool) : Str :=
  match p.doc with
  | Option.none => []
  | some d => match (if edd then p.default else Option.none) with
    | Option.none => d
    | some v => C01.baseOf d ++ defaultsTo ++ renderVal v

theorem goodDefault_notStr (v : Default) (h : GoodDefault v) : v.isPyStr = false := by
  cases v <;> first | rfl | exact absurd h (by simp [GoodDefault])

theorem setDefaultDoc_good (name : Str) (p : Param) (edd : Bool) (hp : GoodEntry p) :
    setDefaultDoc name p edd = .ok (some (docText p edd)) := by
  unfold setDefaultDoc docText
  cases hd : p.doc with
  | none => exact absurd hd hp.docSome
  | some d =>
    have g := hp.doc d hd
    simp only [g.noDef1, g.noDef2, Bool.or_self, Bool.false_and, Bool.false_eq_true, if_false, Bool.not_false, Bool.true_and]
    cases hv : p.default with
    | none => cases edd <;> rfl
    | some v =>
      cases edd with
      | false => rfl
      | true =>
        simp only [if_true, goodDefault_notStr v (hp.dflt v hv).1, Bool.false_eq_true, if_false]
        unfold C01.baseOf
        cases d.getLast? <;> rfl

/-! ### the emitted description text -/

theorem digit_toNat (c : Char) (h : c.isDigit = true) : 48 ≤ c.toNat ∧ c.toNat ≤ 57 := by
  unfold Char.isDigit at h
  simp only [Bool.and_eq_true, decide_eq_true_eq, ge_iff_le] at h
  have h1 := UInt32.le_iff_toNat_le.mp h.1
  have h2 := UInt32.le_iff_toNat_le.mp h.2
  have e : c.toNat = c.val.toNat := rfl
  rw [e]
  exact ⟨h1, h2⟩

/-- characters that may occur in a rendered integer or boolean -/
theorem digit_plain (c : Char) (h : c.isDigit = true) : c ≠ ':' ∧ isLineBreak c = false ∧ isSpaceC c = false := by
  have hb := digit_toNat c h
  refine ⟨?_, ?_, ?_⟩
  · rintro rfl; revert h; decide
  · unfold isLineBreak
    simp only [Bool.or_eq_false_iff, beq_eq_false_iff_ne, ne_eq]
    omega
  · unfold isSpaceC
    simp only [Bool.or_eq_false_iff, Bool.and_eq_false_iff, decide_eq_false_iff_not, beq_eq_false_iff_ne, ne_eq]
    omega


theorem renderVal_chars (v : Default) (h : GoodDefault v) :
    renderVal v ≠ [] ∧ ∀ c ∈ renderVal v, c ≠ ':' ∧ isLineBreak c = false ∧ isSpaceC c = false := by
  cases v with
  | int i =>
    simp only [renderVal, intToStr]
    split
    · refine ⟨by simp, ?_⟩
      intro c hc
      simp only [List.mem_cons] at hc
      rcases hc with rfl | hc
      · decide
      · exact digit_plain c (C01.natToStr_isDigit _ c hc)
    · exact ⟨C01.natToStr_ne_nil _, fun c hc => digit_plain c (C01.natToStr_isDigit _ c hc)⟩
  | bool b =>
    cases b
    · refine ⟨by decide, ?_⟩
      intro c hc
      simp only [renderVal, sFalse, Bool.false_eq_true, if_false, List.mem_cons, List.not_mem_nil, or_false] at hc
      rcases hc with rfl | rfl | rfl | rfl | rfl <;> decide
    · refine ⟨by decide, ?_⟩
      intro c hc
      simp only [renderVal, sTrue, if_true, List.mem_cons, List.not_mem_nil, or_false] at hc
      rcases hc with rfl | rfl | rfl | rfl <;> decide
  | float r =>
    have hch := decimal_chars r h
    refine ⟨by obtain ⟨c, a, f, rfl, _⟩ := h; simp [renderVal], ?_⟩
    intro c hc
    rcases hch c hc with rfl | hd
    · decide
    · exact digit_plain c hd
  | str _ => exact absurd h (by simp [GoodDefault])
  | none => exact absurd h (by simp [GoodDefault])
  | code _ => exact absurd h (by simp [GoodDefault])

theorem baseOf_cases (d : Str) : C01.baseOf d = d ∨ C01.baseOf d = d ++ ['.'] := by
  unfold C01.baseOf
  cases d.getLast? with
  | none => right; rfl
  | some c => simp only []; split <;> simp

structure GoodText (t : Str) : Prop where
  ne : t ≠ []
  noBreak : NoBreak t
  noTok : NoTok t
  headNS : HeadNS t
  lastNS : LastNS t
  noOpt : startsWith t ['O','p','t','i','o','n','a','l'] = false
  noPOpt : startsWith t ['(','O','p','t','i','o','n','a','l',')'] = false

theorem docText_good (p : Param) (edd : Bool) (hp : GoodEntry p) : GoodText (docText p edd) := by
  unfold docText
  cases hd : p.doc with
  | none => exact absurd hd hp.docSome
  | some d =>
    have g := hp.doc d hd
    have gd : GoodText d := ⟨g.ne, g.noBreak, g.noTok, g.headNS, g.lastNS, g.noOpt, g.noPOpt⟩
    cases hv : (if edd then p.default else Option.none) with
    | none => exact gd
    | some v =>
      have hv' : p.default = some v := by
        cases edd
        · simp at hv
        · simpa using hv
      obtain ⟨rne, rch⟩ := renderVal_chars v (hp.dflt v hv').1
      simp only []
      obtain ⟨c0, cs0, hd0⟩ : ∃ c cs, d = c :: cs := by
        cases d with
        | nil => exact absurd rfl g.ne
        | cons c cs => exact ⟨c, cs, rfl⟩
      have hbase : ∃ tl, C01.baseOf d = c0 :: tl ∧ (tl = cs0 ∨ tl = cs0 ++ ['.']) := by
        rcases baseOf_cases d with e | e
        · exact ⟨cs0, by rw [e, hd0], Or.inl rfl⟩
        · exact ⟨cs0 ++ ['.'], by rw [e, hd0]; rfl, Or.inr rfl⟩
      have hrcol : ':' ∉ renderVal v := fun h => (rch _ h).1 rfl
      refine ⟨?_, ?_, ?_, ?_, ?_, ?_, ?_⟩
      · obtain ⟨tl, e, _⟩ := hbase; rw [e]; simp
      · intro c hc
        simp only [List.mem_append] at hc
        rcases hc with (hc | hc) | hc
        · rcases baseOf_cases d with e | e
          · rw [e] at hc; exact g.noBreak c hc
          · rw [e] at hc
            rcases List.mem_append.mp hc with h1 | h1
            · exact g.noBreak c h1
            · simp only [List.mem_singleton] at h1; subst h1; decide
        · revert hc; revert c; decide
        · exact (rch c hc).2.1
      · -- no token: none in the description, none can straddle into or lie in the appended prose
        rcases baseOf_cases d with e | e
        · rw [e, List.append_assoc]
          have : defaultsTo ++ renderVal v = ' ' :: (defaultsTo.drop 1 ++ renderVal v) := rfl
          rw [this]
          refine noTok_append d _ ' ' g.noTok (Or.inl rfl) ?_
          rw [← this]
          intro hm
          rcases List.mem_append.mp hm with h | h
          · revert h; decide
          · exact hrcol h
        · rw [e, List.append_assoc, List.append_assoc]
          have : ['.'] ++ (defaultsTo ++ renderVal v) = '.' :: (defaultsTo ++ renderVal v) := rfl
          rw [this]
          refine noTok_append d _ '.' g.noTok (Or.inr (Or.inl rfl)) ?_
          intro hm
          simp only [List.mem_cons, List.mem_append] at hm
          rcases hm with h | h | h
          · revert h; decide
          · revert h; decide
          · exact hrcol h
      · intro c hc
        obtain ⟨tl, e, _⟩ := hbase
        rw [e] at hc
        simp only [List.cons_append, List.head?_cons, Option.some.injEq] at hc
        subst hc
        exact g.headNS c0 (by rw [hd0]; rfl)
      · intro c hc
        rw [List.getLast?_append] at hc
        cases hr : (renderVal v).getLast? with
        | none => exact absurd (List.getLast?_eq_none_iff.mp hr) rne
        | some y =>
          rw [hr] at hc
          simp only [Option.some_or, Option.some.injEq] at hc
          subst hc
          exact (rch y (List.mem_of_getLast? hr)).2.2
      · unfold startsWith
        rcases baseOf_cases d with e | e
        · rw [e, List.append_assoc]
          have : defaultsTo ++ renderVal v = ' ' :: (defaultsTo.drop 1 ++ renderVal v) := rfl
          rw [this, isPrefixOf_append_of_notin _ d _ ' ' (by decide)]
          exact g.noOpt
        · rw [e, List.append_assoc, List.append_assoc]
          have : ['.'] ++ (defaultsTo ++ renderVal v) = '.' :: (defaultsTo ++ renderVal v) := rfl
          rw [this, isPrefixOf_append_of_notin _ d _ '.' (by decide)]
          exact g.noOpt
      · unfold startsWith
        rcases baseOf_cases d with e | e
        · rw [e, List.append_assoc]
          have : defaultsTo ++ renderVal v = ' ' :: (defaultsTo.drop 1 ++ renderVal v) := rfl
          rw [this, isPrefixOf_append_of_notin _ d _ ' ' (by decide)]
          exact g.noPOpt
        · rw [e, List.append_assoc, List.append_assoc]
          have : ['.'] ++ (defaultsTo ++ renderVal v) = '.' :: (defaultsTo ++ renderVal v) := rfl
          rw [this, isPrefixOf_append_of_notin _ d _ '.' (by decide)]
          exact g.noPOpt

/-! ### the shape of the whole text -/

/-- starts with `:` and ends with a non-blank -/
def Bodyish (s : Str) : Prop := (∃ r, s = ':' :: r) ∧ LastNS s

theorem lastNS_append (a b : Str) (hb : b ≠ []) (h : LastNS b) : LastNS (a ++ b) := by
  intro c hc
  rw [List.getLast?_append] at hc
  cases hr : b.getLast? with
  | none => exact absurd (List.getLast?_eq_none_iff.mp hr) hb
  | some y => rw [hr] at hc; simp only [Option.some_or, Option.some.injEq] at hc; subst hc; exact h y hr

theorem bodyish_ne (s : Str) (h : Bodyish s) : s ≠ [] := by
  obtain ⟨⟨r, rfl⟩, _⟩ := h; simp

theorem bodyish_append (a sep b : Str) (ha : Bodyish a) (hb : Bodyish b) : Bodyish (a ++ sep ++ b) := by
  obtain ⟨⟨r, rfl⟩, _⟩ := ha
  refine ⟨⟨r ++ sep ++ b, by simp⟩, lastNS_append _ b (bodyish_ne b hb) hb.2⟩

theorem bodyish_join (sep : Str) (bs : List Str) (hne : bs ≠ []) (h : ∀ b ∈ bs, Bodyish b) : Bodyish (join sep bs) := by
  induction bs with
  | nil => exact absurd rfl hne
  | cons x r ih =>
    cases r with
    | nil => simpa [join] using h x (by simp)
    | cons y r' =>
      rw [join_cons2]
      exact bodyish_append x sep _ (h x (by simp)) (ih (by simp) (fun b hb => h b (by simp [hb])))

theorem bodyish_isspace (s : Str) (h : Bodyish s) : isspace s = false := by
  obtain ⟨⟨r, rfl⟩, _⟩ := h
  unfold isspace
  have : isSpaceC ':' = false := by decide
  simp [this]

theorem isspace_of_mem (s : Str) (c : Char) (hc : c ∈ s) (hns : isSpaceC c = false) : isspace s = false := by
  unfold isspace
  have : s.all isSpaceC = false := by
    cases hb : s.all isSpaceC with
    | false => rfl
    | true => rw [List.all_eq_true] at hb; rw [hb c hc] at hns; cases hns
  simp [this]

theorem nlsStart_bodyish (s rest : Str) (h : Bodyish s) : nlsStart (s ++ rest) = 0 := by
  obtain ⟨⟨r, rfl⟩, _⟩ := h
  exact nlsStart_ns ':' _ (by decide)

/-- where a single character is found -/
theorem find_single (s : Str) (c : Char) (h : c ∈ s) : ∃ i, find s [c] = some i := by
  have key : ∀ (s : Str) (k : Nat), c ∈ s → ∃ i, findFrom [c] s k = some i := by
    intro s
    induction s with
    | nil => intro k h; cases h
    | cons x xs ih =>
      intro k h
      cases hb : (c == x) with
      | true => exact ⟨k, by simp [findFrom, List.isPrefixOf, hb]⟩
      | false =>
        have : c ∈ xs := by
          simp only [List.mem_cons] at h
          rcases h with rfl | h
          · simp at hb
          · exact h
        obtain ⟨i, hi⟩ := ih (k + 1) this
        exact ⟨i, by simp [findFrom, List.isPrefixOf, hb, hi]⟩
  exact key s 0 h

theorem finish_with_nl (t : Str) (h1 : '\n' ∈ t) (c : Char) (hc : c ∈ t) (hns : isSpaceC c = false) : finish t = t := by
  unfold finish
  have he : t.isEmpty = false := by cases t with | nil => cases h1 | cons _ _ => rfl
  rw [he, isspace_of_mem t c hc hns]
  obtain ⟨i, hi⟩ := find_single t '\n' h1
  simp [hi]

theorem nlsStart_two (X Y : Str) (h : nlsStart (X ++ Y) = 0) : nlsStart (List.replicate 2 '\n' ++ X ++ Y) = 2 := by
  show nlsStart ('\n' :: '\n' :: (X ++ Y)) = 2
  rw [nlsStart_nl, nlsStart_nl, h]

/-- the three possible texts in front of the first entry -/
inductive Pre (h : Str) : Str → Prop
  | none : h = [] → Pre h []
  | nl : h = [] → Pre h ['\n']
  | hdr : GoodHeader h → Pre h (h ++ ['\n', '\n'])

/-- the emitted text, for entries `P` (parameters, already joined) and `R` (return part) -/
theorem outOf_shape (h P B2 : Str) (hh : h = [] ∨ GoodHeader h) (hP : P = [] ∨ Bodyish P) (hB2 : Bodyish B2) :
    ∃ pre, Pre h pre ∧
      finish (outOf h P (retPart P B2)) = pre ++ (if P.isEmpty then B2 else P ++ ['\n', '\n'] ++ B2) ++ ['\n'] := by
  have hB2ne := bodyish_ne B2 hB2
  have hB2e : B2.isEmpty = false := by cases B2 with | nil => exact absurd rfl hB2ne | cons _ _ => rfl
  rcases hP with rfl | hP
  · -- no parameters
    have hR : retPart [] B2 = B2 := by simp [retPart, hB2e]
    have hcand : outOf h [] B2 = hafToStr h (['\n'] ++ B2 ++ ['\n']) [] := by
      unfold outOf
      have h1 : nlsEnd ([] : Str) = 0 := rfl
      have h2 : nlsEnd B2 = 0 := nlsEnd_lastNS B2 hB2.2
      have hsp : isspace (['\n'] ++ B2 ++ ['\n']) = false := by
        obtain ⟨⟨r, rfl⟩, _⟩ := hB2
        exact isspace_of_mem _ ':' (by simp) (by decide)
      simp only [h1, h2, hB2e, Bool.not_false, Bool.and_true, Bool.true_and, Bool.false_and, Bool.or_true, Bool.false_or, decide_true,
        beq_self_eq_true, if_true, hsp, Bool.false_eq_true, if_false, List.nil_append, show decide (0 < 2) = true from rfl]
    rw [hR, hcand]
    have hAne : (['\n'] ++ B2 ++ ['\n']) ≠ [] := by simp
    have hAend : nlsEnd (['\n'] ++ B2 ++ ['\n']) = 1 :=
      nlsEnd_append_nl (['\n'] ++ B2) (by simp) (lastNS_append _ B2 hB2ne hB2.2)
    have hAst : nlsStart (['\n'] ++ B2 ++ ['\n']) = 1 := by
      show nlsStart ('\n' :: (B2 ++ ['\n'])) = 1
      rw [nlsStart_nl, nlsStart_bodyish B2 _ hB2]
    rcases hh with rfl | hh
    · refine ⟨['\n'], Pre.nl rfl, ?_⟩
      rw [haf_noheader _ hAne, hAend]
      simp only [show ((1 : Nat) == 0) = false from rfl, Bool.false_eq_true, if_false, List.append_nil, List.isEmpty_nil, if_true]
      rw [finish_with_nl _ (by simp) ':' (by obtain ⟨⟨r, rfl⟩, _⟩ := hB2; simp) (by decide)]
    · refine ⟨h ++ ['\n', '\n'], Pre.hdr hh, ?_⟩
      rw [haf_header h _ hh hAne 1 hAst (by omega) (by
        simp only [show ((1 : Nat) == 0) = false from rfl, Bool.false_eq_true, if_false, hAend, List.append_nil]
        show nlsStart ('\n' :: '\n' :: (B2 ++ ['\n'])) = 2
        rw [nlsStart_nl, nlsStart_nl, nlsStart_bodyish B2 _ hB2])]
      simp only [show ((1 : Nat) == 0) = false from rfl, Bool.false_eq_true, if_false, hAend, List.append_nil, List.isEmpty_nil, if_true]
      rw [finish_with_nl _ (by simp) ':' (by obtain ⟨⟨r, rfl⟩, _⟩ := hB2; simp) (by decide)]
      simp
  · -- parameters and a return entry
    have hPne := bodyish_ne P hP
    have hPe : P.isEmpty = false := by cases P with | nil => exact absurd rfl hPne | cons _ _ => rfl
    have hPl : (P.getLast? == some '\n') = false := by
      cases hb : (P.getLast? == some '\n') with
      | false => rfl
      | true => have := hP.2 '\n' (by simpa using hb); revert this; decide
    have hR : retPart P B2 = ['\n'] ++ B2 := by simp [retPart, hB2e, hPe, hPl]
    have hRl : LastNS (['\n'] ++ B2) := lastNS_append _ B2 hB2ne hB2.2
    have hcand : outOf h P (['\n'] ++ B2) = hafToStr h (P ++ ['\n'] ++ (['\n'] ++ B2) ++ ['\n']) [] := by
      unfold outOf
      have h1 : nlsEnd P = 0 := nlsEnd_lastNS P hP.2
      have h2 : nlsEnd (['\n'] ++ B2) = 0 := nlsEnd_lastNS _ hRl
      have hsp : isspace (P ++ ['\n'] ++ (['\n'] ++ B2) ++ ['\n']) = false := by
        obtain ⟨⟨r, rfl⟩, _⟩ := hP
        exact isspace_of_mem _ ':' (by simp) (by decide)
      have hre : (['\n'] ++ B2).isEmpty = false := rfl
      simp only [h1, h2, hre, Bool.not_false, Bool.and_true, Bool.true_and, Bool.false_and, Bool.or_true, Bool.false_or, decide_true,
        beq_self_eq_true, if_true, hsp, Bool.false_eq_true, if_false, show decide (0 < 2) = true from rfl]
    rw [hR, hcand]
    have hAne : (P ++ ['\n'] ++ (['\n'] ++ B2) ++ ['\n']) ≠ [] := by simp
    have hAend : nlsEnd (P ++ ['\n'] ++ (['\n'] ++ B2) ++ ['\n']) = 1 :=
      nlsEnd_append_nl _ (by simp) (lastNS_append _ _ (by simp) hRl)
    have hAst : nlsStart (P ++ ['\n'] ++ (['\n'] ++ B2) ++ ['\n']) = 0 := by
      rw [List.append_assoc, List.append_assoc]; exact nlsStart_bodyish P _ hP
    have hcolon : ':' ∈ P := by obtain ⟨⟨r, rfl⟩, _⟩ := hP; simp
    rcases hh with rfl | hh
    · refine ⟨[], Pre.none rfl, ?_⟩
      rw [haf_noheader _ hAne, hAend]
      simp only [show ((1 : Nat) == 0) = false from rfl, Bool.false_eq_true, if_false, List.append_nil, hPe, List.nil_append]
      rw [finish_with_nl _ (by simp) ':' (by simp [hcolon]) (by decide)]
      simp
    · refine ⟨h ++ ['\n', '\n'], Pre.hdr hh, ?_⟩
      rw [haf_header h _ hh hAne 0 hAst (by omega) (by
        simp only [beq_self_eq_true, if_true, hAend, show ((1 : Nat) == 0) = false from rfl, Bool.false_eq_true, if_false]
        exact nlsStart_two _ [] (by rw [List.append_nil]; exact hAst))]
      simp only [beq_self_eq_true, if_true, show ((1 : Nat) == 0) = false from rfl, Bool.false_eq_true, if_false, hAend, List.append_nil,
        hPe]
      rw [finish_with_nl _ (by simp) ':' (by simp [hcolon]) (by decide)]
      simp

/-- the emitted text when there is no return entry -/
theorem outOf_shape_noret (h P : Str) (hh : h = [] ∨ GoodHeader h) (hP : Bodyish P) :
    ∃ pre, Pre h pre ∧ finish (outOf h P []) = pre ++ P ++ ['\n'] := by
  have hPne := bodyish_ne P hP
  have hPe : P.isEmpty = false := by cases P with | nil => exact absurd rfl hPne | cons _ _ => rfl
  have h1 : nlsEnd P = 0 := nlsEnd_lastNS P hP.2
  have hcand : outOf h P [] = hafToStr h P [] := by
    unfold outOf
    have hsp : isspace P = false := bodyish_isspace P hP
    simp only [h1, List.isEmpty_nil, Bool.not_true, Bool.and_false, Bool.false_eq_true, if_false, List.append_nil, Bool.true_and,
      show decide (0 > 0) = false from rfl, Bool.false_and, Bool.or_self, hsp]
  rw [hcand]
  have hcolon : ':' ∈ P := by obtain ⟨⟨r, rfl⟩, _⟩ := hP; simp
  have hAst : nlsStart P = 0 := by have := nlsStart_bodyish P [] hP; simpa using this
  rcases hh with rfl | hh
  · refine ⟨[], Pre.none rfl, ?_⟩
    rw [haf_noheader _ hPne, h1]
    simp only [beq_self_eq_true, if_true, List.nil_append]
    rw [finish_with_nl _ (by simp) ':' (by simp [hcolon]) (by decide)]
  · refine ⟨h ++ ['\n', '\n'], Pre.hdr hh, ?_⟩
    rw [haf_header h _ hh hPne 0 hAst (by omega) (by
      simp only [beq_self_eq_true, if_true, h1]
      exact nlsStart_two _ _ (nlsStart_bodyish P _ hP))]
    simp only [beq_self_eq_true, if_true, h1]
    rw [finish_with_nl _ (by simp) ':' (by simp [hcolon]) (by decide)]
    simp

/-- nothing to emit but the header -/
theorem outOf_shape_nothing (h : Str) (hh : h = [] ∨ GoodHeader h) :
    finish (outOf h [] []) = h ∨ finish (outOf h [] []) = '\n' :: h := by
  have hcand : outOf h [] [] = h := by
    unfold outOf
    have h1 : nlsEnd ([] : Str) = 0 := rfl
    have hsp : isspace ([] : Str) = false := rfl
    simp only [h1, List.isEmpty_nil, Bool.not_true, Bool.and_false, Bool.false_eq_true, if_false, List.append_nil, Bool.true_and,
      show decide (0 > 0) = false from rfl, Bool.or_self, hsp]
    exact haf_nothing h
  rw [hcand]
  rcases hh with rfl | hh
  · left; rfl
  · unfold finish
    obtain ⟨c, cs, rfl⟩ : ∃ c cs, h = c :: cs := by
      cases h with
      | nil => exact absurd rfl hh.ne
      | cons c cs => exact ⟨c, cs, rfl⟩
    have hc := hh.headNS c rfl
    have hsp : isspace (c :: cs) = false := isspace_of_mem _ c (by simp) hc
    have hcn : (c == '\n') = false := by
      cases hb : (c == '\n') with
      | false => rfl
      | true => have : c = '\n' := by simpa using hb
                subst this; revert hc; decide
    simp only [List.isEmpty_cons, hsp, Bool.or_self, Bool.false_eq_true, if_false, List.head?_cons]
    cases find (c :: cs) ['\n'] with
    | none => right; simp [hcn]
    | some i => left; rfl


/-! ### the lines of the entries -/

def entryLines (name : Str) (p : Param) (et edd : Bool) : List Str :=
  paramLine name (docText p edd) :: (if et && truthy p.typ then [typeLine name (p.typ.getD [])] else [])
def retLines (p : Param) (et edd : Bool) : List Str :=
  returnLine (docText p edd) :: (if et && truthy p.typ then [rtypeLine (p.typ.getD [])] else [])

/-- a line as the emitter writes it: `:` first, no line break inside, a non-blank last -/
structure GoodLine (l : Str) : Prop where
  colon : ∃ r, l = ':' :: r ∧ NoBreak r
  lastNS : LastNS l

theorem noBreak_of_chars (s : Str) (h : ∀ c ∈ s, c ≠ ':' ∧ isLineBreak c = false) : NoBreak s := fun c hc => (h c hc).2
theorem noBreak_lit (s : Str) (h : s.all (fun c => !isLineBreak c) = true) : NoBreak s := by
  intro c hc
  have := List.all_eq_true.mp h c hc
  simpa using this

theorem paramLine_good (name doc : Str) (hn : GoodName name) (hd : GoodText doc) : GoodLine (paramLine name doc) := by
  refine ⟨⟨['p','a','r','a','m',' '] ++ name ++ [':',' '] ++ doc, by simp [paramLine, pfxParam], ?_⟩, ?_⟩
  · exact noBreak_append _ _ (noBreak_append _ _ (noBreak_append _ _ (noBreak_lit _ (by decide)) (noBreak_of_chars _ hn.chars))
      (noBreak_lit _ (by decide))) hd.noBreak
  · exact lastNS_append _ doc hd.ne hd.lastNS

theorem returnLine_good (doc : Str) (hd : GoodText doc) : GoodLine (returnLine doc) := by
  refine ⟨⟨['r','e','t','u','r','n'] ++ [':',' '] ++ doc, by simp [returnLine, pfxReturn], ?_⟩, ?_⟩
  · exact noBreak_append _ _ (noBreak_lit _ (by decide)) hd.noBreak
  · exact lastNS_append _ doc hd.ne hd.lastNS

theorem lastNS_bt3 : LastNS bt3 := by intro c hc; simp [bt3] at hc; subst hc; decide

theorem typeLine_good (name t : Str) (hn : GoodName name) (ht : GoodTyp t) : GoodLine (typeLine name t) := by
  refine ⟨⟨['t','y','p','e',' '] ++ name ++ [':',' '] ++ bt3 ++ t ++ bt3, by simp [typeLine, pfxType], ?_⟩, ?_⟩
  · exact noBreak_append _ _ (noBreak_append _ _ (noBreak_append _ _ (noBreak_append _ _ (noBreak_append _ _ (noBreak_lit _ (by decide))
      (noBreak_of_chars _ hn.chars)) (noBreak_lit _ (by decide))) (noBreak_lit _ (by decide))) (fun c hc => (ht.chars c hc).2.2))
      (noBreak_lit _ (by decide))
  · exact lastNS_append _ bt3 (by decide) lastNS_bt3

theorem rtypeLine_good (t : Str) (ht : GoodTyp t) : GoodLine (rtypeLine t) := by
  refine ⟨⟨['r','t','y','p','e'] ++ [':',' '] ++ bt3 ++ t ++ bt3, by simp [rtypeLine, pfxRtype], ?_⟩, ?_⟩
  · exact noBreak_append _ _ (noBreak_append _ _ (noBreak_lit _ (by decide)) (fun c hc => (ht.chars c hc).2.2)) (noBreak_lit _ (by decide))
  · exact lastNS_append _ bt3 (by decide) lastNS_bt3

theorem goodLine_indent (l : Str) (h : GoodLine l) : indentAllButFirst l = l := by
  obtain ⟨r, rfl, hr⟩ := h.colon
  exact indentAllButFirst_line r hr

theorem goodLine_bodyish (l : Str) (h : GoodLine l) : Bodyish l := by
  obtain ⟨r, rfl, _⟩ := h.colon
  exact ⟨⟨r, rfl⟩, h.lastNS⟩

theorem goodLine_no_nl (l : Str) (h : GoodLine l) : '\n' ∉ l := by
  obtain ⟨r, rfl, hr⟩ := h.colon
  intro hm
  simp only [List.mem_cons] at hm
  rcases hm with hm | hm
  · revert hm; decide
  · exact noBreak_no_nl r hr hm

theorem truthy_some (o : Option Str) (h : truthy o = true) : ∃ t, o = some t ∧ t ≠ [] := by
  cases o with
  | none => cases h
  | some t => refine ⟨t, rfl, ?_⟩; rintro rfl; simp [truthy] at h

theorem goodEntry_truthy (p : Param) (hp : GoodEntry p) : truthy p.doc = true := by
  cases hd : p.doc with
  | none => exact absurd hd hp.docSome
  | some d =>
    have := (hp.doc d hd).ne
    cases d with
    | nil => exact absurd rfl this
    | cons _ _ => rfl

theorem entryLines_good (name : Str) (p : Param) (et edd : Bool) (hn : GoodName name) (hp : GoodEntry p) :
    ∀ l ∈ entryLines name p et edd, GoodLine l := by
  intro l hl
  unfold entryLines at hl
  simp only [List.mem_cons] at hl
  rcases hl with rfl | hl
  · exact paramLine_good name _ hn (docText_good p edd hp)
  · split at hl
    · rename_i ht
      simp only [Bool.and_eq_true] at ht
      obtain ⟨t, hto, _⟩ := truthy_some p.typ ht.2
      simp only [List.mem_singleton] at hl
      subst hl
      rw [hto]
      exact typeLine_good name t hn (hp.typ t hto)
    · cases hl

theorem retLines_good (p : Param) (et edd : Bool) (hp : GoodEntry p) :
    ∀ l ∈ retLines p et edd, GoodLine l := by
  intro l hl
  unfold retLines at hl
  simp only [List.mem_cons] at hl
  rcases hl with rfl | hl
  · exact returnLine_good _ (docText_good p edd hp)
  · split at hl
    · rename_i ht
      simp only [Bool.and_eq_true] at ht
      obtain ⟨t, hto, _⟩ := truthy_some p.typ ht.2
      simp only [List.mem_singleton] at hl
      subst hl
      rw [hto]
      exact rtypeLine_good t (hp.typ t hto)
    · cases hl

theorem map_id_of {α : Type} (f : α → α) (l : List α) (h : ∀ x ∈ l, f x = x) : l.map f = l := by
  induction l with
  | nil => rfl
  | cons a as ih => simp [h a (by simp), ih (fun x hx => h x (by simp [hx]))]

/-- **one parameter block**, as emitted -/
theorem emitParamStr_good (name : Str) (p : Param) (et ww edd : Bool) (blk : Str) (hn : GoodName name) (hp : GoodEntry p)
    (h : emitParamStr name p .rest et ww edd = .ok blk) : blk = join ['\n'] (entryLines name p et edd) := by
  obtain ⟨d', hs, hb⟩ := emitParamStr_ok name p et ww edd blk (goodEntry_truthy p hp) h
  rw [setDefaultDoc_good name p edd hp] at hs
  cases hs
  have hr : (name == sReturnType) = false := by
    cases hb' : (name == sReturnType) with
    | false => rfl
    | true => exact absurd (beq_iff_eq.mp hb') hn.notRet
  rw [hr] at hb
  have hl : linesOf false name (docText p edd) p.typ et = entryLines name p et edd := by
    unfold linesOf entryLines
    rw [lstrip_headNS _ (docText_good p edd hp).headNS]
    simp
  rw [hl, map_id_of _ _ (fun l hl => goodLine_indent l (entryLines_good name p et edd hn hp l hl))] at hb
  exact hb

/-- **the return block**, as emitted -/
theorem emitRet_good (p : Param) (et ww edd : Bool) (blk : Str) (hp : GoodEntry p)
    (h : emitParamStr sReturnType p .rest et ww edd = .ok blk) : blk = join ['\n'] (retLines p et edd) := by
  obtain ⟨d', hs, hb⟩ := emitParamStr_ok sReturnType p et ww edd blk (goodEntry_truthy p hp) h
  rw [setDefaultDoc_good sReturnType p edd hp] at hs
  cases hs
  rw [beq_self_eq_true] at hb
  have hl : linesOf true sReturnType (docText p edd) p.typ et = retLines p et edd := by
    unfold linesOf retLines
    rw [lstrip_headNS _ (docText_good p edd hp).headNS]
    simp
  rw [hl, map_id_of _ _ (fun l hl => goodLine_indent l (retLines_good p et edd hp l hl))] at hb
  exact hb

theorem mapOut_blocks (ps : List (Str × Param)) (et ww edd : Bool) (blocks : List Str)
    (hn : ∀ np ∈ ps, GoodName np.1) (hp : ∀ np ∈ ps, GoodEntry np.2)
    (h : mapOut (fun np => emitParamStr np.1 np.2 .rest et ww edd) ps = .ok blocks) :
    blocks = ps.map (fun np => join ['\n'] (entryLines np.1 np.2 et edd)) := by
  induction ps generalizing blocks with
  | nil => simp only [mapOut] at h; cases h; rfl
  | cons np r ih =>
    simp only [mapOut] at h
    cases hf : emitParamStr np.1 np.2 .rest et ww edd with
    | outside w => rw [hf] at h; cases h
    | ok b =>
      rw [hf] at h
      cases hm : mapOut (fun np => emitParamStr np.1 np.2 .rest et ww edd) r with
      | outside w => rw [hm] at h; cases h
      | ok bs =>
        rw [hm] at h; cases h
        rw [emitParamStr_good np.1 np.2 et ww edd b (hn np (by simp)) (hp np (by simp)) hf,
          ih bs (fun x hx => hn x (by simp [hx])) (fun x hx => hp x (by simp [hx])) hm]
        rfl

/-! ### the domain of interfaces, and the lines of the emitted text -/

structure GoodIR (ir : IR) : Prop where
  hdr : ir.doc = [] ∨ (GoodHeader ir.doc ∧ NoTok ir.doc)
  names : ∀ np ∈ ir.params, GoodName np.1
  entries : ∀ np ∈ ir.params, GoodEntry np.2
  nodup : (ir.params.map (·.1)).Nodup
  ret : ∀ rp, ir.returns = some rp → GoodEntry rp

def retBlocks (ir : IR) (et edd : Bool) : List (List Str) :=
  match ir.returns with
  | Option.none => []
  | some rp => [retLines rp et edd]

def allBlocks (ir : IR) (et edd : Bool) : List (List Str) :=
  ir.params.map (fun np => entryLines np.1 np.2 et edd) ++ retBlocks ir et edd

theorem split1_cons_sep (sep : Char) (b : Str) : split1 (sep :: b) sep = [] :: split1 b sep := by
  have := split1_append_sep sep [] b
  simpa [split1_nil] using this

/-- the lines of blocks joined by a blank line -/
theorem split1_body (bs : List (List Str)) (hne : bs ≠ []) (h : ∀ b ∈ bs, b ≠ [] ∧ ∀ l ∈ b, '\n' ∉ l) :
    split1 (join ['\n', '\n'] (bs.map (join ['\n']))) '\n' ++ [[]] = bs.flatMap (· ++ [[]]) := by
  induction bs with
  | nil => exact absurd rfl hne
  | cons b r ih =>
    have hb := h b (by simp)
    cases r with
    | nil =>
      simp only [List.map_cons, List.map_nil, join, List.flatMap_cons, List.flatMap_nil, List.append_nil]
      rw [split1_join '\n' b hb.1 hb.2]
    | cons b' r' =>
      have ih' := ih (by simp) (fun x hx => h x (by simp [hx]))
      simp only [List.map_cons] at ih' ⊢
      rw [join_cons2]
      have e : join ['\n'] b ++ ['\n', '\n'] ++ join ['\n', '\n'] (join ['\n'] b' :: List.map (join ['\n']) r')
          = join ['\n'] b ++ '\n' :: ('\n' :: join ['\n', '\n'] (join ['\n'] b' :: List.map (join ['\n']) r')) := by simp
      rw [e, split1_append_sep, split1_cons_sep, split1_join '\n' b hb.1 hb.2]
      simp only [List.flatMap_cons] at ih' ⊢
      rw [← ih']; simp

theorem join_split1_nonempty (s : Str) : split1 s '\n' ≠ [] := splitOn1_ne_nil _ _ _

/-- **Shape of the emitted text.**  Its lines are header lines (free of `:`, giving back the header when joined and
    stripped) followed, for each entry, by the entry's lines and one blank line. -/
theorem emit_lines (ir : IR) (et ww edd : Bool) (s : Str) (g : GoodIR ir) (he : emit ir .rest et ww edd = .ok s) :
    ∃ hdr, split1 s '\n' = hdr ++ (allBlocks ir et edd).flatMap (· ++ [[]]) ∧ (∀ l ∈ hdr, NoTok l)
      ∧ strip (join ['\n'] hdr) = ir.doc := by
  rw [emit_rest_eq] at he
  unfold emitRest' at he
  cases hm : mapOut (fun np => emitParamStr np.1 np.2 .rest et ww edd) ir.params with
  | outside w => rw [hm] at he; cases he
  | ok blocks =>
    rw [hm] at he
    simp only [] at he
    have hblocks := mapOut_blocks ir.params et ww edd blocks g.names g.entries hm
    -- facts about the header
    have hh : ir.doc = [] ∨ GoodHeader ir.doc := by
      rcases g.hdr with h | h
      · exact Or.inl h
      · exact Or.inr h.1
    have hcol : NoTok ir.doc := by
      rcases g.hdr with h | h
      · rw [h]; exact noTok_nil
      · exact h.2
    have hstrip : strip ir.doc = ir.doc := by
      rcases g.hdr with h | h
      · rw [h]; rfl
      · exact strip_id _ h.1.headNS h.1.lastNS
    -- every parameter block is body-like
    have hbody : ∀ b ∈ blocks, Bodyish b := by
      intro b hb
      rw [hblocks] at hb
      obtain ⟨np, hnp, rfl⟩ := List.mem_map.mp hb
      exact bodyish_join _ _ (by simp [entryLines]) (fun l hl =>
        goodLine_bodyish l (entryLines_good np.1 np.2 et edd (g.names np hnp) (g.entries np hnp) l hl))
    have hP : join ['\n', '\n'] blocks = [] ∨ Bodyish (join ['\n', '\n'] blocks) := by
      cases hbl : blocks with
      | nil => left; rfl
      | cons b r => right; rw [← hbl]; exact bodyish_join _ _ (by rw [hbl]; simp) hbody
    -- line facts for all blocks
    have hall : ∀ b ∈ allBlocks ir et edd, b ≠ [] ∧ ∀ l ∈ b, '\n' ∉ l := by
      intro b hb
      unfold allBlocks at hb
      rcases List.mem_append.mp hb with hb | hb
      · obtain ⟨np, hnp, rfl⟩ := List.mem_map.mp hb
        exact ⟨by simp [entryLines], fun l hl =>
          goodLine_no_nl l (entryLines_good np.1 np.2 et edd (g.names np hnp) (g.entries np hnp) l hl)⟩
      · unfold retBlocks at hb
        cases hr : ir.returns with
        | none => rw [hr] at hb; cases hb
        | some rp =>
          rw [hr] at hb
          simp only [List.mem_singleton] at hb
          subst hb
          exact ⟨by simp [retLines], fun l hl => goodLine_no_nl l (retLines_good rp et edd (g.ret rp hr) l hl)⟩
    -- from a text `pre ++ body ++ "\n"` to the lines
    have fromPre : ∀ pre : Str, Pre ir.doc pre → allBlocks ir et edd ≠ [] →
        s = pre ++ join ['\n', '\n'] ((allBlocks ir et edd).map (join ['\n'])) ++ ['\n'] →
        ∃ hdr, split1 s '\n' = hdr ++ (allBlocks ir et edd).flatMap (· ++ [[]]) ∧ (∀ l ∈ hdr, NoTok l)
          ∧ strip (join ['\n'] hdr) = ir.doc := by
      intro pre hpre hne hs
      have hbodyL := split1_body (allBlocks ir et edd) hne hall
      generalize join ['\n', '\n'] ((allBlocks ir et edd).map (join ['\n'])) = body at hs hbodyL
      have hbl : split1 (body ++ ['\n']) '\n' = (allBlocks ir et edd).flatMap (· ++ [[]]) := by
        rw [← hbodyL]
        have := split1_append_sep '\n' body []
        rw [this, split1_nil]
      cases hpre with
      | none h0 =>
        refine ⟨[], ?_, by simp, by rw [h0]; rfl⟩
        rw [hs, List.nil_append, List.nil_append, hbl]
      | nl h0 =>
        refine ⟨[[]], ?_, by intro l hl; simp only [List.mem_singleton] at hl; subst hl; exact noTok_nil, by rw [h0]; rfl⟩
        rw [hs]
        show split1 ('\n' :: (body ++ ['\n'])) '\n' = _
        rw [split1_cons_sep, hbl]; rfl
      | hdr hg =>
        refine ⟨split1 ir.doc '\n' ++ [[]], ?_, ?_, ?_⟩
        · rw [hs]
          have e : ir.doc ++ ['\n', '\n'] ++ body ++ ['\n'] = ir.doc ++ '\n' :: ('\n' :: (body ++ ['\n'])) := by simp
          rw [e, split1_append_sep, split1_cons_sep, hbl]; simp
        · intro l hl
          rcases List.mem_append.mp hl with hl | hl
          · exact noTok_lines _ _ hcol l hl
          · simp only [List.mem_singleton] at hl; subst hl; exact noTok_nil
        · rw [join_append_singleton _ _ _ (join_split1_nonempty _), join_split1]
          have := strip_core [] ir.doc ['\n'] allSpace_nil allSpace_nl hg.headNS hg.lastNS
          simpa using this
    cases hr : ir.returns with
    | none =>
      rw [hr] at he
      simp only [] at he
      have hs := Out.ok.inj he
      have hab : allBlocks ir et edd = ir.params.map (fun np => entryLines np.1 np.2 et edd) := by
        simp [allBlocks, retBlocks, hr]
      have hjb : blocks = (allBlocks ir et edd).map (join ['\n']) := by
        rw [hab, hblocks, List.map_map]; rfl
      rcases hP with hP | hP
      · -- nothing emitted but the header
        have hnil : blocks = [] := by
          cases hbl : blocks with
          | nil => rfl
          | cons b r =>
            have := bodyish_ne _ (bodyish_join ['\n', '\n'] blocks (by rw [hbl]; simp) hbody)
            exact absurd hP this
        have hab0 : allBlocks ir et edd = [] := by
          rw [hnil] at hjb
          exact List.map_eq_nil_iff.mp hjb.symm
        rw [hP] at hs
        rw [hab0]
        simp only [List.flatMap_nil, List.append_nil]
        rcases outOf_shape_nothing ir.doc hh with e | e
        · rw [e] at hs; rw [← hs]
          exact ⟨split1 ir.doc '\n', rfl, noTok_lines _ _ hcol, by rw [join_split1]; exact hstrip⟩
        · rw [e] at hs; rw [← hs]
          refine ⟨[] :: split1 ir.doc '\n', split1_cons_sep _ _, ?_, ?_⟩
          · intro l hl
            simp only [List.mem_cons] at hl
            rcases hl with rfl | hl
            · exact noTok_nil
            · exact noTok_lines _ _ hcol l hl
          · cases hsp : split1 ir.doc '\n' with
            | nil => exact absurd hsp (join_split1_nonempty _)
            | cons y r =>
              rw [join_cons2, ← hsp, join_split1]
              rcases g.hdr with h | h
              · rw [h]; decide
              · have := strip_core ['\n'] ir.doc [] allSpace_nl allSpace_nil h.1.headNS h.1.lastNS
                simpa using this
      · obtain ⟨pre, hpre, hfin⟩ := outOf_shape_noret ir.doc _ hh hP
        rw [hfin] at hs
        have hne : allBlocks ir et edd ≠ [] := by
          intro h0; rw [h0] at hjb; rw [hjb] at hP; exact bodyish_ne _ hP rfl
        exact fromPre pre hpre hne (by rw [← hs, hjb])
    | some rp =>
      rw [hr] at he
      simp only [] at he
      cases hl : emitParamStr sReturnType rp .rest et ww edd with
      | outside w => rw [hl] at he; cases he
      | ok line =>
        rw [hl] at he
        simp only [] at he
        have hs := Out.ok.inj he
        have hline := emitRet_good rp et ww edd line (g.ret rp hr) hl
        have hB2 : Bodyish line := by
          rw [hline]
          exact bodyish_join _ _ (by simp [retLines]) (fun l hl =>
            goodLine_bodyish l (retLines_good rp et edd (g.ret rp hr) l hl))
        obtain ⟨pre, hpre, hfin⟩ := outOf_shape ir.doc _ line hh hP hB2
        rw [hfin] at hs
        have hab : allBlocks ir et edd = ir.params.map (fun np => entryLines np.1 np.2 et edd) ++ [retLines rp et edd] := by
          simp [allBlocks, retBlocks, hr]
        have hjb : (allBlocks ir et edd).map (join ['\n']) = blocks ++ [line] := by
          rw [hab, List.map_append, hblocks, List.map_map, hline]; rfl
        have hne : allBlocks ir et edd ≠ [] := by rw [hab]; simp
        refine fromPre pre hpre hne ?_
        rw [← hs, hjb]
        cases hbl : blocks with
        | nil => simp [join]
        | cons b r =>
          have : (join ['\n', '\n'] (b :: r)).isEmpty = false := by
            have := bodyish_ne _ (bodyish_join ['\n', '\n'] (b :: r) (by simp) (by rw [← hbl]; exact hbody))
            cases hj : join ['\n', '\n'] (b :: r) with
            | nil => exact absurd hj this
            | cons _ _ => rfl
          rw [this, join_append_singleton _ _ _ (by simp)]
          simp

end DocRT
