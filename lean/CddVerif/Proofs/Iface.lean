import CddVerif.Model.IfaceDomain
/-!
# C02 — helper lemmas: strings, constants through render/re-read, `_infer_default`, `_set_name_and_type`
-/
namespace Iface

/-! ## strings -/

theorem toList_inj' {a b : String} (h : a.toList = b.toList) : a = b := String.toList_inj.mp h

theorem startsWith_dash {r : String} (h : startsWith r "-" = true) : r.toList = '-' :: r.toList.drop 1 := by
  unfold startsWith at h
  have : "-".toList = ['-'] := by decide
  rw [this] at h
  cases hl : r.toList with
  | nil => rw [hl] at h; simp [List.isPrefixOf] at h
  | cons c cs =>
    rw [hl] at h
    simp [List.isPrefixOf] at h
    simp

theorem dash_dropFirst {r : String} (h : isNegRepr r = true) : "-" ++ dropFirst r = r := by
  apply toList_inj'
  have := startsWith_dash h
  simp only [dropFirst, String.toList_append, String.toList_ofList]
  have e : "-".toList = ['-'] := by decide
  rw [e]; simpa using this.symm

theorem quotedLike_wrap (s : String) (h : s.toList ≠ []) : quotedLike ("\"" ++ s ++ "\"") = true := by
  unfold quotedLike
  have e : "\"".toList = ['"'] := by decide
  simp only [String.toList_append, e]
  simp [List.getLast?_append]

theorem dropEnds_wrap (s : String) : dropEnds ("\"" ++ s ++ "\"") = s := by
  unfold dropEnds
  have e : "\"".toList = ['"'] := by decide
  apply toList_inj'
  simp only [String.toList_append, e, String.toList_ofList]
  simp [List.dropLast_concat]

theorem setValueStr_quoteStr {s : String} (h : quotedLike s = false) : setValueStr (quoteStr s) = s := by
  unfold quoteStr
  cases hl : s.toList with
  | nil =>
    simp only [List.isEmpty_nil, Bool.true_or, ↓reduceIte]
    unfold setValueStr; simp [h]
  | cons c cs =>
    simp only [List.isEmpty_cons, h, Bool.or_self, Bool.false_eq_true, ↓reduceIte]
    have hne : s.toList ≠ [] := by rw [hl]; exact List.cons_ne_nil _ _
    unfold setValueStr
    rw [quotedLike_wrap s hne, dropEnds_wrap]
    have e : "\"".toList = ['"'] := by decide
    have : ("\"" ++ s ++ "\"").toList.length > 2 := by
      simp only [String.toList_append, e, List.length_append, List.length_cons, List.length_nil, hl]
      omega
    simp only [this, decide_true, Bool.and_self, ↓reduceIte]

theorem setValueStr_id {s : String} (h : quotedLike s = false) : setValueStr s = s := by
  unfold setValueStr; simp [h]
theorem unquoteStr_id {s : String} (h : quotedLike s = false) : unquoteStr s = s := by
  unfold unquoteStr; simp [h]

end Iface
