import CddVerif.Model.IfaceDomain
/-!
# C02 — helper lemmas: strings, constants through render/re-read, `_infer_default`, `_set_name_and_type`
-/
namespace Iface

/-! ## strings -/

theorem toList_inj' {a b : String} (h : a.toList = b.toList) : a = b := String.toList_inj.mp h

theorem startsWith_dash {r : String} (h : startsWith r "-" = true) : r.toList = '-' :: r.toList.drop 1 := by
  unfold startsWith at h
  have : "-".toList = ['-'] := by decide
  rw [this] at h
  cases hl : r.toList with
  | nil => rw [hl] at h; simp [List.isPrefixOf] at h
  | cons c cs =>
    rw [hl] at h
    simp [List.isPrefixOf] at h
    simp [h.symm]

theorem dash_dropFirst {r : String} (h : isNegRepr r = true) : "-" ++ dropFirst r = r := by
  apply toList_inj'
  have := startsWith_dash h
  simp only [dropFirst, String.toList_append, String.toList_ofList]
  have e : "-".toList = ['-'] := by decide
  rw [e]; simpa using this.symm

theorem quotedLike_wrap (s : String) (h : s.toList ≠ []) : quotedLike ("\"" ++ s ++ "\"") = true := by
  unfold quotedLike
  have e : "\"".toList = ['"'] := by decide
  simp only [String.toList_append, e]
  simp [List.getLast?_append]

theorem dropEnds_wrap (s : String) : dropEnds ("\"" ++ s ++ "\"") = s := by
  unfold dropEnds
  have e : "\"".toList = ['"'] := by decide
  apply toList_inj'
  simp only [String.toList_append, e, String.toList_ofList]
  simp [List.dropLast_concat]

theorem setValueStr_quoteStr {s : String} (h : quotedLike s = false) : setValueStr (quoteStr s) = s := by
  unfold quoteStr
  cases hl : s.toList with
  | nil =>
    simp only [List.isEmpty_nil, Bool.true_or, ↓reduceIte]
    unfold setValueStr; simp [h]
  | cons c cs =>
    simp only [List.isEmpty_cons, h, Bool.or_self, Bool.false_eq_true, ↓reduceIte]
    have hne : s.toList ≠ [] := by rw [hl]; exact List.cons_ne_nil _ _
    unfold setValueStr
    rw [quotedLike_wrap s hne, dropEnds_wrap]
    have e : "\"".toList = ['"'] := by decide
    have : ("\"" ++ s ++ "\"").toList.length > 2 := by
      simp only [String.toList_append, e, List.length_append, List.length_cons, List.length_nil, hl]
      omega
    simp only [this, decide_true, Bool.and_self, ↓reduceIte]

theorem setValueStr_id {s : String} (h : quotedLike s = false) : setValueStr s = s := by
  unfold setValueStr; simp [h]
theorem unquoteStr_id {s : String} (h : quotedLike s = false) : unquoteStr s = s := by
  unfold unquoteStr; simp [h]

/-- the user-level default of an entry -/
def userD (p : Param) : Option Default := match p.default with | some (.val d) => some d | _ => none

/-! ## constants through `to_code` + `ast.parse` + `get_value` -/

/-- numeric `repr`s the re-read model handles -/
def numOK : Default → Bool
  | .float r => okNumRepr r
  | .complex r => okNumRepr r
  | _ => true

theorem isNegRepr_dropFirst {r : String} (h : okNumRepr r = true) : isNegRepr (dropFirst r) = false := by
  unfold okNumRepr at h
  simp only [Bool.and_eq_true, Bool.not_eq_true'] at h
  exact h.1.1.1.1.2

theorem gv_const (d : Default) (h : numOK d = true) : getValue (Expr.reparse (.const (.val d))) = .val d := by
  cases d with
  | int i =>
    unfold Expr.reparse
    by_cases hi : i < 0
    · simp [hi, getValue, negDefault]
    · simp [hi, getValue]
  | float r =>
    unfold Expr.reparse
    by_cases hn : isNegRepr r = true
    · simp [hn, getValue, negDefault, isNegRepr_dropFirst h, dash_dropFirst hn]
    · simp [hn, getValue]
  | complex r =>
    unfold Expr.reparse
    by_cases hn : isNegRepr r = true
    · simp [hn, getValue, negDefault, isNegRepr_dropFirst h, dash_dropFirst hn]
    · simp [hn, getValue]
  | bool b => simp [Expr.reparse, getValue]
  | str s => simp [Expr.reparse, getValue]

theorem gv_none : getValue (Expr.reparse (.const .none)) = .val (.str NoneStr) := by
  simp [Expr.reparse, getValue]

/-- CPython facts about `env.pyExpr` the theorems use: a source wrapped in backticks is a `SyntaxError` -/
def EnvOK (env : Env) : Prop := ∀ s, codeQuoted s = true → env.pyExpr s = none

/-! ## `param2ast` -/

theorem okTyp_renamed {t : String} (h : okTyp t = true) :
    (t == "Str" || t == "Constant" || t == "NameConstant" || t == "Num") = false := by
  unfold okTyp renamedTyps at h
  simp only [Bool.and_eq_true, Bool.not_eq_true', List.contains_cons, List.contains_nil, Bool.or_false] at h
  have := h.1.1.1.2
  simp only [Bool.or_eq_false_iff] at this ⊢
  exact ⟨⟨⟨this.1, this.2.1⟩, this.2.2.1⟩, this.2.2.2.1⟩

theorem okTyp_unaryOp {t : String} (h : okTyp t = true) : t ≠ "UnaryOp" := by
  unfold okTyp renamedTyps at h
  simp only [Bool.and_eq_true, Bool.not_eq_true', List.contains_cons, List.contains_nil, Bool.or_false] at h
  have := h.1.1.1.2
  simp only [Bool.or_eq_false_iff, beq_eq_false_iff_ne, ne_eq] at this
  exact this.2.2.2.2

theorem okTyp_dict {t : String} (h : okTyp t = true) : (t == "dict" || startsWith t "*") = false := by
  unfold okTyp at h
  simp only [Bool.and_eq_true, Bool.not_eq_true', bne_iff_ne, ne_eq] at h
  simp [h.1.1.2, h.1.2]

theorem param2ast_none (env : Env) (n t : String) (doc : Option String) (ht : okTyp t = true) :
    param2ast env (n, { doc := doc, typ := some t, default := none }) = .ok (.ann n t none) := by
  unfold param2ast
  simp only [userDefault, okTyp_renamed ht, okTyp_dict ht]
  by_cases hq : needsQuoting (some t) = true
  · simp [hq, pure, Except.pure, bind, Except.bind]
  · by_cases hs : isSimple t = true
    · simp [hq, hs, pure, Except.pure, bind, Except.bind]
    · simp [hq, hs, pure, Except.pure, bind, Except.bind, genericParam2ast]

theorem codeQuoted_NoneStr : codeQuoted NoneStr = true := by decide
theorem quotedLike_NoneStr : quotedLike NoneStr = false := by decide
theorem inner3_NoneStr : inner3 NoneStr = "(None)" := by decide

theorem quoteStr_ne_NoneStr {s : String} (h : quotedLike s = false) (hs : s ≠ NoneStr) : (quoteStr s == NoneStr) = false := by
  unfold quoteStr
  cases hl : s.toList with
  | nil => simp [hs]
  | cons c cs =>
    simp only [List.isEmpty_cons, h, Bool.or_self, Bool.false_eq_true, ↓reduceIte, beq_eq_false_iff_ne, ne_eq]
    intro he
    have := congrArg String.toList he
    have e : "\"".toList = ['"'] := by decide
    have e2 : NoneStr.toList = ['`', '`', '`', '(', 'N', 'o', 'n', 'e', ')', '`', '`', '`'] := by decide
    simp [String.toList_append, e, e2] at this

/-- the shape of a default that `okDefault` admits, split the way the proofs use it -/
theorem okDefault_str_cases {fn : Bool} {t s : String} (h : okDefault fn t (.str s) = true) :
    (s = NoneStr ∧ startsWith t "Optional[" = true) ∨
    (s ≠ NoneStr ∧ codeQuoted s = true ∧ okCodeStr s = true ∧ hasChar t '[' = true) ∨
    (s ≠ NoneStr ∧ codeQuoted s = false ∧ okPlainStr s = true ∧ (needsQuoting (some t) || isSimple t) = true) := by
  unfold okDefault at h
  by_cases h1 : s = NoneStr
  · left; simp [h1] at h; exact ⟨h1, h⟩
  · have : (s == NoneStr) = false := by simpa using h1
    simp only [this, Bool.false_eq_true, ↓reduceIte] at h
    by_cases h2 : codeQuoted s = true
    · right; left; simp only [h2, ↓reduceIte, Bool.and_eq_true] at h; exact ⟨h1, h2, h.1, h.2⟩
    · right; right
      have h2' : codeQuoted s = false := by simpa using h2
      simp only [h2', Bool.false_eq_true, ↓reduceIte, Bool.and_eq_true] at h; exact ⟨h1, h2', h.1, h.2⟩

theorem okEmit_str_cases {t s : String} (h : okEmit t (.str s) = true) :
    s = NoneStr ∨ (s ≠ NoneStr ∧ codeQuoted s = true ∧ okCodeStr s = true) ∨
    (s ≠ NoneStr ∧ codeQuoted s = false ∧ okPlainStr s = true ∧ (needsQuoting (some t) || isSimple t) = true) := by
  unfold okEmit at h
  by_cases h1 : s = NoneStr
  · left; exact h1
  · have : (s == NoneStr) = false := by simpa using h1
    simp only [this, Bool.false_or] at h
    by_cases h2 : codeQuoted s = true
    · right; left; simp only [h2, ↓reduceIte] at h; exact ⟨h1, h2, h⟩
    · right; right
      have h2' : codeQuoted s = false := by simpa using h2
      simp only [h2', Bool.false_eq_true, ↓reduceIte, Bool.and_eq_true] at h; exact ⟨h1, h2', h.1, h.2⟩

theorem okDefault_okEmit {fn : Bool} {t : String} {d : Default} (h : okDefault fn t d = true) : okEmit t d = true := by
  cases d with
  | str s =>
    rcases okDefault_str_cases h with ⟨h1, _⟩ | ⟨h1, h2, h3, _⟩ | ⟨h1, h2, h3, h4⟩
    · simp [okEmit, h1]
    · simp [okEmit, h2, h3]
    · simp only [okEmit, h2, h3, Bool.false_eq_true, ↓reduceIte, Bool.true_and, Bool.or_eq_true]; right; simpa using h4
  | int i => rfl
  | bool b => rfl
  | float r => simp_all [okDefault, okEmit]
  | complex r => simp_all [okDefault, okEmit]

theorem okCodeStr_facts {s : String} (h : okCodeStr s = true) :
    quotedLike s = false ∧ (inner3 s == "None") = false ∧ (inner3 s == "(None)") = false := by
  unfold okCodeStr at h
  simp only [Bool.and_eq_true, Bool.not_eq_true', bne_iff_ne, ne_eq] at h
  refine ⟨h.1.1.1.2, ?_, ?_⟩ <;> simp [h.1.2, h.2]

theorem okPlainStr_facts {s : String} (h : okPlainStr s = true) : quotedLike s = false ∧ s ≠ "None" := by
  unfold okPlainStr at h
  simp only [Bool.and_eq_true, Bool.not_eq_true', bne_iff_ne, ne_eq] at h
  exact ⟨h.1.1.1, h.1.2⟩

theorem codeQuoted_nonempty {s : String} (h : codeQuoted s = true) : s.toList.isEmpty = false := by
  unfold codeQuoted at h
  simp only [Bool.and_eq_true, decide_eq_true_eq] at h
  cases hl : s.toList with
  | nil => rw [hl] at h; simp at h
  | cons c cs => rfl

theorem okEmit_numOK {t : String} {d : Default} (h : okEmit t d = true) : numOK d = true := by
  cases d <;> simp_all [okEmit, numOK]

/-- the expression `param2ast` writes for an admissible default -/
def attrExpr (d : Default) : Expr := if d.isNoneStr then .const .none else .const (.val d)

theorem attrExpr_back {d : Default} (h : numOK d = true) : getValue (attrExpr d).reparse = .val d := by
  unfold attrExpr
  by_cases hn : d.isNoneStr = true
  · cases d with
    | str s => simp only [Default.isNoneStr, beq_iff_eq] at hn; subst hn; simp [Default.isNoneStr, gv_none]
    | _ => simp [Default.isNoneStr] at hn
  · simp only [hn, Bool.false_eq_true, ↓reduceIte]; exact gv_const d h

/-- `param2ast` on a typed parameter with an admissible default: an annotated assignment whose value, once rendered,
    re-read and passed through `get_value`, is the default again (`attrExpr_back`) -/
theorem param2ast_some (env : Env) (hEnv : EnvOK env) (n t : String) (doc : Option String) (d : Default)
    (ht : okTyp t = true) (hd : okEmit t d = true) :
    param2ast env (n, { doc := doc, typ := some t, default := some (.val d) }) = .ok (.ann n t (some (attrExpr d))) := by
  unfold param2ast attrExpr
  simp only [userDefault, okTyp_renamed ht, okTyp_dict ht]
  by_cases hq : needsQuoting (some t) = true
  · -- quoting branch
    cases d with
    | str s =>
      rcases okEmit_str_cases hd with h1 | ⟨h1, _, h3⟩ | ⟨h1, _, h3, _⟩
      · subst h1
        simp [hq, pure, Except.pure, bind, Except.bind, Default.isNoneStr]
      · have hql := (okCodeStr_facts h3).1
        simp [hq, pure, Except.pure, bind, Except.bind, Default.isNoneStr, h1, getDefaultVal, quoteD, quoteStr_ne_NoneStr hql h1,
          setValue, setValueStr_quoteStr hql]
      · have hql := (okPlainStr_facts h3).1
        simp [hq, pure, Except.pure, bind, Except.bind, Default.isNoneStr, h1, getDefaultVal, quoteD, quoteStr_ne_NoneStr hql h1,
          setValue, setValueStr_quoteStr hql]
    | int i => simp [hq, pure, Except.pure, bind, Except.bind, Default.isNoneStr, getDefaultVal, quoteD, setValue]
    | float r => simp [hq, pure, Except.pure, bind, Except.bind, Default.isNoneStr, getDefaultVal, quoteD, setValue]
    | complex r => simp [hq, pure, Except.pure, bind, Except.bind, Default.isNoneStr, getDefaultVal, quoteD, setValue]
    | bool b => simp [hq, pure, Except.pure, bind, Except.bind, Default.isNoneStr, getDefaultVal, quoteD, setValue]
  · have hq' : needsQuoting (some t) = false := by simpa using hq
    by_cases hs : isSimple t = true
    · -- simple type
      cases d with
      | str s =>
        rcases okEmit_str_cases hd with h1 | ⟨h1, _, h3⟩ | ⟨h1, _, h3, _⟩
        · subst h1
          simp [hq', hs, pure, Except.pure, bind, Except.bind, Default.isNoneStr, getDefaultVal]
        · have hql := (okCodeStr_facts h3).1
          simp [hq', hs, pure, Except.pure, bind, Except.bind, Default.isNoneStr, h1, getDefaultVal, setValue, setValueStr_id hql]
        · have hql := (okPlainStr_facts h3).1
          simp [hq', hs, pure, Except.pure, bind, Except.bind, Default.isNoneStr, h1, getDefaultVal, setValue, setValueStr_id hql]
      | int i => simp [hq', hs, pure, Except.pure, bind, Except.bind, Default.isNoneStr, getDefaultVal, setValue]
      | float r => simp [hq', hs, pure, Except.pure, bind, Except.bind, Default.isNoneStr, getDefaultVal, setValue]
      | complex r => simp [hq', hs, pure, Except.pure, bind, Except.bind, Default.isNoneStr, getDefaultVal, setValue]
      | bool b => simp [hq', hs, pure, Except.pure, bind, Except.bind, Default.isNoneStr, getDefaultVal, setValue]
    · -- `_generic_param2ast`
      have hs' : isSimple t = false := by simpa using hs
      cases d with
      | str s =>
        rcases okEmit_str_cases hd with h1 | ⟨h1, h2, h3⟩ | ⟨_, _, _, h4⟩
        · subst h1
          simp [hq', hs', pure, Except.pure, bind, Except.bind, genericParam2ast, Default.isCode, codeQuoted_NoneStr, inner3_NoneStr, Default.isNoneStr]
        · obtain ⟨hql, hi1, hi2⟩ := okCodeStr_facts h3
          simp [hq', hs', pure, Except.pure, bind, Except.bind, genericParam2ast, Default.isCode, h2, hi1, hi2, codeQuoted_nonempty h2, hEnv s h2,
            setValue, setValueStr_id hql, Default.isNoneStr, h1]
        · simp [hq', hs'] at h4
      | int i => simp [hq', hs', pure, Except.pure, bind, Except.bind, genericParam2ast, Default.isCode, setValue, Default.isNoneStr]
      | float r => simp [hq', hs', pure, Except.pure, bind, Except.bind, genericParam2ast, Default.isCode, setValue, Default.isNoneStr]
      | complex r => simp [okEmit, hq', hs'] at hd
      | bool b => simp [hq', hs', pure, Except.pure, bind, Except.bind, genericParam2ast, Default.isCode, setValue, Default.isNoneStr]

/-! ## `_infer_default` -/

theorem codeQuoted_None : codeQuoted "None" = false := by decide

/-- what `_infer_default` needs of a value so that an entry of type `t` is left alone -/
def okInfer (t : String) : Default → Bool
  | .str s => s == NoneStr || (!quotedLike s && s != "None" && (!codeQuoted s || hasChar t '['))
  | _ => true

/-- … and the `was_none` rule: a `None` default sits under `Optional[…]` -/
def okSnt (t : String) (d : Default) : Bool := okInfer t d && (!d.inNoneTypes || startsWith t "Optional[")

theorem okDefault_okSnt {fn : Bool} {t : String} {d : Default} (h : okDefault fn t d = true) : okSnt t d = true := by
  cases d with
  | str s =>
    rcases okDefault_str_cases h with ⟨h1, h2⟩ | ⟨h1, h2, h3, h4⟩ | ⟨h1, h2, h3, _⟩
    · simp [okSnt, okInfer, h1, h2]
    · have hql := (okCodeStr_facts h3).1
      have hn : s ≠ "None" := by intro h; rw [h, codeQuoted_None] at h2; cases h2
      simp [okSnt, okInfer, h1, hql, hn, h4, Default.inNoneTypes]
    · obtain ⟨hql, hn⟩ := okPlainStr_facts h3
      simp [okSnt, okInfer, h1, hql, hn, h2, Default.inNoneTypes]
  | int i => rfl
  | float r => rfl
  | complex r => rfl
  | bool b => rfl

theorem okInfer_str_cases {t s : String} (h : okInfer t (.str s) = true) :
    s = NoneStr ∨ (s ≠ NoneStr ∧ quotedLike s = false ∧ s ≠ "None" ∧ (codeQuoted s = true → hasChar t '[' = true)) := by
  unfold okInfer at h
  by_cases h1 : s = NoneStr
  · left; exact h1
  · right
    have : (s == NoneStr) = false := by simpa using h1
    simp only [this, Bool.false_or, Bool.and_eq_true, Bool.not_eq_true', bne_iff_ne, ne_eq, Bool.or_eq_true] at h
    refine ⟨h1, h.1.1, h.1.2, ?_⟩
    intro hc
    rcases h.2 with h2 | h2
    · rw [hc] at h2; cases h2
    · exact h2

/-- on a Python value that `okInfer` admits, `_infer_default` changes nothing -/
theorem inferDefault_val (it : Bool) (doc : Option String) (t : String) (d : Default) (hd : okInfer t d = true) :
    inferDefault it { doc := doc, typ := some t, default := some (.val d) } = .ok { doc := doc, typ := some t, default := some (.val d) } := by
  unfold inferDefault
  cases d with
  | str s =>
    rcases okInfer_str_cases hd with h1 | ⟨h1, hql, hn, h4⟩
    · subst h1
      simp [DVal.inNoneTypes, Default.inNoneTypes, pure, Except.pure, bind, Except.bind, unquoteStr_id quotedLike_NoneStr, DVal.isNoneStr,
        Default.isNoneStr]
    · by_cases h2 : codeQuoted s = true
      · simp [DVal.inNoneTypes, Default.inNoneTypes, pure, Except.pure, bind, Except.bind, unquoteStr_id hql, DVal.isNoneStr,
          Default.isNoneStr, h1, hn, DVal.isCodeStr, Default.isCode, h2, h4 h2]
      · simp [DVal.inNoneTypes, Default.inNoneTypes, pure, Except.pure, bind, Except.bind, unquoteStr_id hql, DVal.isNoneStr,
          Default.isNoneStr, h1, hn, DVal.isCodeStr, Default.isCode, h2]
  | int i => by_cases hq : needsQuoting (some t) = true <;>
      simp [DVal.inNoneTypes, Default.inNoneTypes, pure, Except.pure, bind, Except.bind, DVal.isNoneStr, Default.isNoneStr, DVal.isCodeStr, Default.isCode, hq]
  | float r => by_cases hq : needsQuoting (some t) = true <;>
      simp [DVal.inNoneTypes, Default.inNoneTypes, pure, Except.pure, bind, Except.bind, DVal.isNoneStr, Default.isNoneStr, DVal.isCodeStr, Default.isCode, hq]
  | complex r => by_cases hq : needsQuoting (some t) = true <;>
      simp [DVal.inNoneTypes, Default.inNoneTypes, pure, Except.pure, bind, Except.bind, DVal.isNoneStr, Default.isNoneStr, DVal.isCodeStr, Default.isCode, hq]
  | bool b => by_cases hq : needsQuoting (some t) = true <;>
      simp [DVal.inNoneTypes, Default.inNoneTypes, pure, Except.pure, bind, Except.bind, DVal.isNoneStr, Default.isNoneStr, DVal.isCodeStr, Default.isCode, hq]

theorem okSnt_wasNone {t : String} {d : Default} (h : okSnt t d = true) (hw : d.inNoneTypes = true) : startsWith t "Optional[" = true := by
  unfold okSnt at h
  have := h
  simp only [hw, Bool.and_eq_true, Bool.not_true, Bool.false_or] at this
  exact this.2

theorem okSnt_okInfer {t : String} {d : Default} (h : okSnt t d = true) : okInfer t d = true := by
  unfold okSnt at h
  simp only [Bool.and_eq_true] at h
  exact h.1

/-! ## `_set_name_and_type` -/

theorem mergePresent_own_doc (p : Param) (d0 : String) (h : p.doc = some d0) :
    mergePresent { doc := some d0, typ := none, default := none } p = p := by
  unfold mergePresent mpDefault mpTyp mpDoc
  by_cases he : d0 = ""
  · simp [falsyDoc, h, he]
  · simp [falsyDoc, h, he]

/-- the description a parameter ends with: dropped when empty, otherwise tidied -/
def docAfter : Option String → Option String
  | none => none
  | some d0 => if d0 == "" then none else some (tidyDoc d0)

theorem docAfter_view (d0? : Option String) : (docAfter d0?).bind normDoc = docView true d0? := by
  cases d0? with
  | none => rfl
  | some d0 => unfold docAfter docView; by_cases h : (d0 == "") = true <;> simp [h]

theorem okName_facts {n : String} (h : okName n = true) : (endsWith n "kwargs" || startsWith n "*") = false ∧ n ≠ "return_type" := by
  unfold okName at h
  simp only [Bool.and_eq_true, Bool.not_eq_true', bne_iff_ne, ne_eq] at h
  exact ⟨by simp [h.1.1.1.1.2, h.1.1.1.2], h.1.1.2⟩

theorem okTyp_googleOpt {t : String} (h : okTyp t = true) : endsWith t googleOpt = false := by
  unfold okTyp at h
  simp only [Bool.and_eq_true, Bool.not_eq_true'] at h
  exact h.2

theorem sntMerge_quiet (env : Env) (n : String) (b : Bool) (p : Param)
    (hq : ∀ d0, p.doc = some d0 → docQuiet env n b d0 = true) : sntMerge env p = p := by
  unfold sntMerge
  cases hd : p.doc with
  | none => rfl
  | some d0 =>
    have := hq d0 hd
    unfold docQuiet at this
    simp only [Bool.and_eq_true, beq_iff_eq] at this
    simp only [this.1]
    exact mergePresent_own_doc _ d0 hd

theorem sntGoogle_id (p : Param) (t : String) (hp : p.typ = some t) (h : endsWith t googleOpt = false) : sntGoogle p = p := by
  unfold sntGoogle; simp [hp, h]

theorem sntDoc_quiet (env : Env) (n : String) (wasNone : Bool) (d0? : Option String) (t : String) (dv : Option DVal)
    (hq : ∀ d0, d0? = some d0 → docQuiet env n (isNoneStrD dv) d0 = true)
    (hw : wasNone = true → startsWith t "Optional[" = true) :
    sntDoc env n wasNone (sntDropEmptyDoc { doc := d0?, typ := some t, default := dv }) = { doc := docAfter d0?, typ := some t, default := dv } := by
  cases d0? with
  | none => simp [sntDropEmptyDoc, sntDoc, docAfter]
  | some d0 =>
    by_cases he : d0 = ""
    · subst he; simp [sntDropEmptyDoc, sntDoc, docAfter]
    · have := hq d0 rfl
      unfold docQuiet at this
      simp only [Bool.and_eq_true, beq_iff_eq, Bool.or_eq_true, Bool.not_eq_true'] at this
      obtain ⟨_, h2⟩ := this
      rcases h2 with h2 | ⟨⟨ha, ho1⟩, ho2⟩
      · exact absurd h2 he
      · simp only [sntDropEmptyDoc, sntDoc, Option.some.injEq, he, beq_iff_eq, ↓reduceIte, ha, ho1, ho2, docAfter,
          Bool.or_self, Bool.false_or]
        by_cases hwn : wasNone = true
        · simp [hwn, hw hwn]
        · simp [hwn]

/-- `_set_name_and_type` on an entry whose description is quiet and whose default is admissible: name, type and default
    stay, the description is tidied (or dropped when empty) -/
theorem setNameAndType_ok (env : Env) (it : Bool) (n : String) (d0? : Option String) (t : String) (dflt : Option Default)
    (hk : (endsWith n "kwargs" || startsWith n "*") = false) (hg : endsWith t googleOpt = false)
    (hd : ∀ d, dflt = some d → okSnt t d = true)
    (hq : ∀ d0, d0? = some d0 → docQuiet env n (isNoneStrD (dflt.map .val)) d0 = true) :
    setNameAndType env it (n, { doc := d0?, typ := some t, default := dflt.map .val }) =
      .ok (n, { doc := docAfter d0?, typ := some t, default := dflt.map .val }) := by
  unfold setNameAndType
  have hm : sntMerge env ⟨d0?, some t, dflt.map DVal.val⟩ = ⟨d0?, some t, dflt.map DVal.val⟩ :=
    sntMerge_quiet env n _ ⟨d0?, some t, dflt.map DVal.val⟩ hq
  simp only [hm, hk, Bool.false_eq_true, ↓reduceIte]
  cases dflt with
  | none =>
    simp only [Option.map_none, Option.isSome_none, Bool.false_eq_true, ↓reduceIte, bind, Except.bind, pure, Except.pure]
    rw [sntGoogle_id _ t rfl hg]
    have := sntDoc_quiet env n false d0? t none (by simpa using hq) (by intro h; cases h)
    simp only [this]
  | some d =>
    simp only [Option.map_some, Option.isSome_some, ↓reduceIte, inferDefault_val it d0? t d (okSnt_okInfer (hd d rfl)), bind, Except.bind, pure, Except.pure]
    rw [sntGoogle_id _ t rfl hg]
    have := sntDoc_quiet env n d.inNoneTypes d0? t (some (.val d)) (by simpa using hq) (okSnt_wasNone (hd d rfl))
    simp only [this]

/-! ## lists in the `Except` monad -/

theorem mapM_ok {α β : Type} (f : α → Except String β) (g : α → β) :
    ∀ l : List α, (∀ x ∈ l, f x = .ok (g x)) → l.mapM f = .ok (l.map g)
  | [], _ => rfl
  | x :: xs, h => by
    rw [List.mapM_cons, h x (List.mem_cons_self ..), mapM_ok f g xs (fun y hy => h y (List.mem_cons_of_mem _ hy))]
    rfl

theorem foldlM_ok {α σ : Type} (f : σ → α → Except String σ) (g : σ → α → σ) (inv : σ → List α → Prop) :
    ∀ (l : List α) (s : σ), inv s l → (∀ s x rest, inv s (x :: rest) → f s x = .ok (g s x) ∧ inv (g s x) rest) →
      l.foldlM f s = .ok (l.foldl g s)
  | [], _, _, _ => rfl
  | x :: xs, s, hi, hstep => by
    obtain ⟨h1, h2⟩ := hstep s x xs hi
    rw [List.foldlM_cons, h1]
    exact foldlM_ok f g inv xs (g s x) h2 hstep

/-! ## class / pydantic: emitter output -/

/-- the attribute statement of an entry -/
def attrOf (kv : String × Param) : Stmt :=
  .ann kv.1 (kv.2.typ.getD "") (match kv.2.default with | some (.val d) => some (attrExpr d) | _ => none)

/-- what the class emitter needs of an entry -/
def okAttr (kv : String × Param) : Bool :=
  match kv.2.typ with
  | some t => okTyp t && (match kv.2.default with | none => true | some (.val d) => okEmit t d | some (.node _) => false)
  | none => false

theorem param2ast_attr (env : Env) (hEnv : EnvOK env) (kv : String × Param) (h : okAttr kv = true) :
    param2ast env kv = .ok (attrOf kv) := by
  obtain ⟨n, doc, typ, dflt⟩ := kv
  unfold okAttr at h
  cases typ with
  | none => simp at h
  | some t =>
    simp only [Bool.and_eq_true] at h
    cases dflt with
    | none => simpa [attrOf] using param2ast_none env n t doc h.1
    | some dv =>
      cases dv with
      | val d => simpa [attrOf] using param2ast_some env hEnv n t doc d h.1 h.2
      | node e => simp at h

theorem okParam_okAttr {fn : Bool} {kv : String × Param} (h : okParam fn kv = true) : okAttr kv = true := by
  obtain ⟨n, doc, typ, dflt⟩ := kv
  unfold okParam at h
  unfold okAttr
  cases typ with
  | none => simp at h
  | some t =>
    simp only [Bool.and_eq_true] at h ⊢
    refine ⟨h.2.1, ?_⟩
    cases dflt with
    | none => rfl
    | some dv =>
      cases dv with
      | val d => exact okDefault_okEmit h.2.2
      | node e => simp at h

theorem okClassReturn_okAttr {r : Param} (h : okClassReturn r = true) : okAttr ("return_type", r) = true := by
  unfold okClassReturn at h
  unfold okAttr
  exact h

/-- the docstring statement the class emitter writes (none when the rendered docstring is blank) -/
def clsDocStmts (env : Env) (cfg : Cfg) (ir : IR) : List Stmt :=
  let ds := String.ofList (Py.rstrip (env.docEmit (classDocCfg cfg) (classDocIR ir)).toList)
  if ds.toList.isEmpty then [] else [.doc (setValueStr ds)]

def clsBody (env : Env) (cfg : Cfg) (ir : IR) : List Stmt :=
  let body := clsDocStmts env cfg ir ++ (mergedParams ir).map attrOf
  if body.isEmpty then [.ellipsis] else body

theorem emitClass_ok (env : Env) (hEnv : EnvOK env) (cfg : Cfg) (ir : IR) (name : String) (hname : ir.name = some name)
    (hall : ∀ kv ∈ mergedParams ir, okAttr kv = true) :
    emitClass env cfg ir = .ok (.cls name cfg.classBases (clsBody env cfg ir)) := by
  unfold emitClass
  simp only [hname, mapM_ok (param2ast env) attrOf (mergedParams ir) (fun kv hkv => param2ast_attr env hEnv kv (hall kv hkv)),
    bind, Except.bind, pure, Except.pure]
  rfl

/-! ## class / pydantic: the parser's loop over the attributes -/

/-- what an `AnnAssign` does to the entry it finds: `dict.update(typ=…, default=…)` -/
def updOf (kv : String × Param) (p : Param) : Param :=
  { p with typ := some (kv.2.typ.getD ""), default := match kv.2.default with | some (.val d) => some (.val d) | _ => p.default }

theorem classDefaultOf_attr {t : String} {d : Default} (h : okEmit t d = true) :
    classDefaultOf (attrExpr d).reparse = .ok (.val d) := by
  unfold classDefaultOf; rw [attrExpr_back (okEmit_numOK h)]; rfl

theorem classStep_attr (ir : IR) (kv : String × Param) (hk : dhas ir.params kv.1 = true) (hs : startsWith kv.1 "*" = false)
    (ha : okAttr kv = true) :
    classStep ir (attrOf kv).reparse = .ok { ir with params := dmodify ir.params kv.1 (updOf kv) } := by
  obtain ⟨n, doc, typ, dflt⟩ := kv
  unfold okAttr at ha
  cases typ with
  | none => simp at ha
  | some t =>
    simp only [Bool.and_eq_true] at ha
    cases dflt with
    | none =>
      simp only [attrOf, Stmt.reparse, classStep, Option.map_none, hs, hk, Bool.false_eq_true, ↓reduceIte, bind, Except.bind, pure, Except.pure]
      rfl
    | some dv =>
      cases dv with
      | node e => simp at ha
      | val d =>
        simp only [attrOf, Stmt.reparse, classStep, Option.map_some, classDefaultOf_attr ha.2, hs, hk, Bool.false_eq_true, ↓reduceIte,
          bind, Except.bind, pure, Except.pure]
        rfl

theorem classStep_ret (ir : IR) (r : Param) (hk : dhas ir.params "return_type" = false) (ha : okAttr ("return_type", r) = true) :
    classStep ir (attrOf ("return_type", r)).reparse = .ok { ir with returns := some (updOf ("return_type", r) (ir.returns.getD {})) } := by
  obtain ⟨doc, typ, dflt⟩ := r
  have hs : startsWith "return_type" "*" = false := by decide
  unfold okAttr at ha
  cases typ with
  | none => simp at ha
  | some t =>
    simp only [Bool.and_eq_true] at ha
    cases dflt with
    | none =>
      simp only [attrOf, Stmt.reparse, classStep, Option.map_none, hs, hk, Bool.false_eq_true, ↓reduceIte, bind, Except.bind, pure, Except.pure]
      cases ir.returns <;> rfl
    | some dv =>
      cases dv with
      | node e => simp at ha
      | val d =>
        simp only [attrOf, Stmt.reparse, classStep, Option.map_some, classDefaultOf_attr ha.2, hs, hk, Bool.false_eq_true, ↓reduceIte,
          bind, Except.bind, pure, Except.pure]
        cases ir.returns <;> rfl

theorem dmodify_at (pre post : Dict) (k : String) (p : Param) (f : Param → Param)
    (h1 : k ∉ dkeys pre) (h2 : k ∉ dkeys post) :
    dmodify (pre ++ (k, p) :: post) k f = pre ++ (k, f p) :: post := by
  unfold dmodify
  have hid : ∀ l : Dict, k ∉ dkeys l → l.map (fun kv => if (kv.1 == k) = true then (kv.1, f kv.2) else kv) = l := by
    intro l hl
    induction l with
    | nil => rfl
    | cons x xs ih =>
      simp only [dkeys, List.map_cons, List.mem_cons, not_or] at hl
      have hx : (x.1 == k) = false := by simpa using fun h => hl.1 h.symm
      simp only [List.map_cons, hx, Bool.false_eq_true, ↓reduceIte]
      rw [ih (by simpa [dkeys] using hl.2)]
  simp only [List.map_append, List.map_cons, beq_self_eq_true, ↓reduceIte, hid pre h1, hid post h2]

theorem dhas_mid (pre post : Dict) (k : String) (p : Param) : dhas (pre ++ (k, p) :: post) k = true := by
  simp [dhas]

/-- pointwise update of the docstring entries by the attributes (aligned lists) -/
def zipUpd : Dict → List (String × Param) → Dict
  | kv0 :: P0, kv :: L => (kv0.1, updOf kv kv0.2) :: zipUpd P0 L
  | _, _ => []

/-- keys of the two lists agree position by position -/
def aligned : Dict → List (String × Param) → Bool
  | [], [] => true
  | a :: as, b :: bs => a.1 == b.1 && aligned as bs
  | _, _ => false

theorem classFold_params : ∀ (L : List (String × Param)) (P0 pre : Dict) (irb : IR),
    aligned P0 L = true → (dkeys (pre ++ P0)).Nodup → (∀ kv ∈ L, okAttr kv = true ∧ startsWith kv.1 "*" = false) →
    (L.map (fun kv => (attrOf kv).reparse)).foldlM classStep { irb with params := pre ++ P0 } =
      .ok { irb with params := pre ++ zipUpd P0 L }
  | [], [], pre, irb, _, _, _ => by simp [zipUpd, pure, Except.pure]
  | [], _ :: _, _, _, h, _, _ => by simp [aligned] at h
  | _ :: _, [], _, _, h, _, _ => by simp [aligned] at h
  | kv :: L, kv0 :: P0, pre, irb, hal, hnd, hok => by
    simp only [aligned, Bool.and_eq_true, beq_iff_eq] at hal
    obtain ⟨hkey, hal'⟩ := hal
    obtain ⟨k0, p0⟩ := kv0
    simp only at hkey
    subst hkey
    have hnd' : (dkeys pre ++ kv.1 :: dkeys P0).Nodup := by simpa [dkeys] using hnd
    have h1 : kv.1 ∉ dkeys pre := by
      intro hm
      have := (List.nodup_append.mp hnd').2.2 _ hm _ (List.mem_cons_self ..)
      exact this rfl
    have h2 : kv.1 ∉ dkeys P0 := by
      have := (List.nodup_append.mp hnd').2.1
      exact (List.nodup_cons.mp this).1
    obtain ⟨ha, hs⟩ := hok kv (List.mem_cons_self ..)
    rw [List.map_cons, List.foldlM_cons]
    have hstep := classStep_attr { irb with params := pre ++ (kv.1, p0) :: P0 } kv (dhas_mid pre P0 kv.1 p0) hs ha
    simp only at hstep
    rw [hstep, dmodify_at pre P0 kv.1 p0 (updOf kv) h1 h2]
    simp only [bind, Except.bind]
    have hrec := classFold_params L P0 (pre ++ [(kv.1, updOf kv p0)]) irb hal' (by simpa [dkeys, List.append_assoc] using hnd)
      (fun x hx => hok x (List.mem_cons_of_mem _ hx))
    simpa [zipUpd, List.append_assoc] using hrec

/-! ## class / pydantic: the entries after `_set_name_and_type` -/

/-- the entry the class parser ends with -/
def finalOf (kv0 kv : String × Param) : String × Param := (kv.1, { doc := docAfter kv0.2.doc, typ := kv.2.typ, default := kv.2.default })

def zipFinal : Dict → List (String × Param) → Dict
  | kv0 :: P0, kv :: L => finalOf kv0 kv :: zipFinal P0 L
  | _, _ => []

theorem okParam_facts {fn : Bool} {kv : String × Param} (h : okParam fn kv = true) :
    okName kv.1 = true ∧ ∃ t, kv.2.typ = some t ∧ okTyp t = true ∧
      ((kv.2.default = none) ∨ ∃ d, kv.2.default = some (.val d) ∧ okDefault fn t d = true) := by
  obtain ⟨n, doc, typ, dflt⟩ := kv
  unfold okParam at h
  cases typ with
  | none => simp at h
  | some t =>
    simp only [Bool.and_eq_true] at h
    refine ⟨h.1, t, rfl, h.2.1, ?_⟩
    cases dflt with
    | none => left; rfl
    | some dv =>
      cases dv with
      | val d => right; exact ⟨d, rfl, h.2.2⟩
      | node e => simp at h

theorem class_entry (env : Env) (it : Bool) (kv0 kv : String × Param) (hp : okParam false kv = true) (he : clsEntryOK env kv0 kv = true) :
    setNameAndType env it (kv0.1, updOf kv kv0.2) = .ok (finalOf kv0 kv) ∧ (finalOf kv0 kv).2.view (finalOf kv0 kv).1 = kv.2.view kv.1 := by
  obtain ⟨hn, t, htyp, ht, hdflt⟩ := okParam_facts hp
  obtain ⟨hnk, hnr⟩ := okName_facts hn
  unfold clsEntryOK at he
  simp only [Bool.and_eq_true, beq_iff_eq] at he
  obtain ⟨⟨hkey, hdesc⟩, hdef⟩ := he
  have hrt : (kv.1 == "return_type") = false := by simpa using hnr
  unfold clsDescOK at hdesc
  simp only [hrt, Bool.false_eq_true, ↓reduceIte, Bool.and_eq_true, beq_iff_eq] at hdesc
  obtain ⟨hview, hquiet⟩ := hdesc
  obtain ⟨n0, p0⟩ := kv0
  obtain ⟨n, p⟩ := kv
  simp only at hkey htyp hdflt hview hquiet hn ht
  subst hkey
  constructor
  · rcases hdflt with hnone | ⟨d, hd, hok⟩
    · -- no default: the docstring must not have supplied one
      have h0 : p0.default = none := by
        unfold clsDefaultOK at hdef
        simpa [hnone] using hdef
      have hupd : updOf (n0, p) p0 = { doc := p0.doc, typ := some t, default := (none : Option Default).map .val } := by
        simp [updOf, htyp, hnone, h0]
      rw [hupd]
      have := setNameAndType_ok env it n0 p0.doc t none hnk (okTyp_googleOpt ht) (fun d h => by cases h)
        (fun d0 h => by
          have := hquiet
          simp only [h] at this
          simpa [hnone] using this)
      rw [this]
      simp [finalOf, htyp, hnone]
    · have hupd : updOf (n0, p) p0 = { doc := p0.doc, typ := some t, default := (some d).map .val } := by
        simp [updOf, htyp, hd]
      rw [hupd]
      have := setNameAndType_ok env it n0 p0.doc t (some d) hnk (okTyp_googleOpt ht) (fun d' h => by cases h; exact okDefault_okSnt hok)
        (fun d0 h => by
          have := hquiet
          simp only [h] at this
          simpa [hd] using this)
      rw [this]
      simp [finalOf, htyp, hd]
  · simp only [finalOf, Param.view, docAfter_view, hview]

theorem class_entries (env : Env) (it : Bool) : ∀ (P0 : Dict) (L : List (String × Param)),
    forall2 (clsEntryOK env) P0 L = true → (∀ kv ∈ L, okParam false kv = true) →
    (zipUpd P0 L).mapM (setNameAndType env it) = .ok (zipFinal P0 L) ∧
      (zipFinal P0 L).map (fun kv => kv.2.view kv.1) = L.map (fun kv => kv.2.view kv.1)
  | [], [], _, _ => by simp [zipUpd, zipFinal, pure, Except.pure]
  | [], _ :: _, h, _ => by simp [forall2] at h
  | _ :: _, [], h, _ => by simp [forall2] at h
  | kv0 :: P0, kv :: L, h, hok => by
    simp only [forall2, Bool.and_eq_true] at h
    obtain ⟨h1, h2⟩ := class_entry env it kv0 kv (hok kv (List.mem_cons_self ..)) h.1
    obtain ⟨r1, r2⟩ := class_entries env it P0 L h.2 (fun x hx => hok x (List.mem_cons_of_mem _ hx))
    constructor
    · simp only [zipUpd, zipFinal, List.mapM_cons, h1, r1, bind, Except.bind, pure, Except.pure]
    · simp only [zipFinal, List.map_cons, h2, r2]

theorem forall2_aligned (env : Env) : ∀ (P0 : Dict) (L : List (String × Param)), forall2 (clsEntryOK env) P0 L = true → aligned P0 L = true
  | [], [], _ => rfl
  | [], _ :: _, h => by simp [forall2] at h
  | _ :: _, [], h => by simp [forall2] at h
  | kv0 :: P0, kv :: L, h => by
    simp only [forall2, Bool.and_eq_true] at h
    simp only [aligned, Bool.and_eq_true]
    refine ⟨?_, forall2_aligned env P0 L h.2⟩
    have := h.1
    unfold clsEntryOK at this
    simp only [Bool.and_eq_true] at this
    exact this.1.1

theorem aligned_keys : ∀ (P0 : Dict) (L : List (String × Param)), aligned P0 L = true → dkeys P0 = dkeys L
  | [], [], _ => rfl
  | [], _ :: _, h => by simp [aligned] at h
  | _ :: _, [], h => by simp [aligned] at h
  | kv0 :: P0, kv :: L, h => by
    simp only [aligned, Bool.and_eq_true, beq_iff_eq] at h
    have ih := aligned_keys P0 L h.2
    simp only [dkeys] at ih ⊢
    simp [h.1, ih]

theorem forall2_snoc {α β : Type} (f : α → β → Bool) : ∀ (as : List α) (bs : List β) (b : β),
    forall2 f as (bs ++ [b]) = true → ∃ as' a, as = as' ++ [a] ∧ forall2 f as' bs = true ∧ f a b = true
  | [], [], b, h => by simp [forall2] at h
  | [a], [], b, h => by
    simp only [List.nil_append, forall2, Bool.and_true] at h
    exact ⟨[], a, rfl, rfl, h⟩
  | a :: a2 :: as, [], b, h => by simp [forall2] at h
  | [], _ :: _, b, h => by simp [forall2] at h
  | a :: as, b0 :: bs, b, h => by
    simp only [List.cons_append, forall2, Bool.and_eq_true] at h
    obtain ⟨as', x, e, h1, h2⟩ := forall2_snoc f as bs b h.2
    exact ⟨a :: as', x, by simp [e], by simp [forall2, h.1, h1], h2⟩

/-! ## class / pydantic: the parser on the emitter's output -/

/-- `if "return_type" in ir["params"]: ir["returns"] = {"return_type": ir["params"].pop("return_type")}` -/
def popRet (ir0 : IR) : IR :=
  match dget? ir0.params "return_type" with
  | some p => { ir0 with params := dpop ir0.params "return_type", returns := some p }
  | none => ir0

theorem splitDoc_attrs (kv : String × Param) (rest : List Stmt) :
    splitDoc ((attrOf kv).reparse :: rest) = (none, (attrOf kv).reparse :: rest) := by
  simp [attrOf, Stmt.reparse, splitDoc]

theorem parseClass_body (env : Env) (it : Bool) (cfg : Cfg) (ir : IR) (name : String) (bases : List String) :
    parseClass env it (Top.reparse (.cls name bases (clsBody env cfg ir))) =
      (do let ir2 ← ((mergedParams ir).map (fun kv => (attrOf kv).reparse)).foldlM classStep (popRet (clsDocIR0 env cfg ir))
          let ps ← ir2.params.mapM (setNameAndType env it)
          pure { ir2 with name := some name, params := ps }) := by
  unfold parseClass Top.reparse clsBody clsDocStmts clsDocIR0 popRet
  by_cases hds : (String.ofList (Py.rstrip (env.docEmit (classDocCfg cfg) (classDocIR ir)).toList)).toList.isEmpty = true
  · simp only [hds, ↓reduceIte, List.nil_append]
    cases hm : mergedParams ir with
    | nil => simp [splitDoc, Stmt.reparse, classStep, dget?, pure, Except.pure, bind, Except.bind]
    | cons kv rest =>
      simp only [List.map_cons, List.isEmpty_cons, Bool.false_eq_true, ↓reduceIte, List.map_map]
      rw [splitDoc_attrs]
      simp [dget?, Function.comp_def]
  · simp only [hds, Bool.false_eq_true, ↓reduceIte, List.cons_append, List.nil_append, List.isEmpty_cons, List.map_cons, Stmt.reparse, splitDoc,
      List.map_map]
    rfl

/-! ## class / pydantic: the round trip -/

theorem normDoc_empty : normDoc "" = none := by decide

theorem docView_false (d : Option String) : docView false d = d.bind normDoc := by
  cases d with
  | none => rfl
  | some d0 =>
    unfold docView
    by_cases h : d0 = ""
    · subst h; simp [normDoc_empty]
    · simp [h]

theorem dhas_false_of_not_mem (d : Dict) (k : String) (h : k ∉ dkeys d) : dhas d k = false := by
  unfold dhas
  simp only [List.any_eq_false, beq_iff_eq]
  intro x hx he
  exact h (by simp only [dkeys, List.mem_map]; exact ⟨x, hx, he⟩)

theorem dget?_none_of_not_mem (d : Dict) (k : String) (h : k ∉ dkeys d) : dget? d k = none := by
  unfold dget?
  have : d.find? (fun x => x.1 == k) = none := by
    simp only [List.find?_eq_none, beq_iff_eq]
    intro x hx he
    exact h (by simp only [dkeys, List.mem_map]; exact ⟨x, hx, he⟩)
  simp [this]

theorem dget?_snoc (d : Dict) (k : String) (p : Param) (h : k ∉ dkeys d) : dget? (d ++ [(k, p)]) k = some p := by
  unfold dget?
  have : d.find? (fun x => x.1 == k) = none := by
    simp only [List.find?_eq_none, beq_iff_eq]
    intro x hx he
    exact h (by simp only [dkeys, List.mem_map]; exact ⟨x, hx, he⟩)
  simp [List.find?_append, this]

theorem dpop_snoc (d : Dict) (k : String) (p : Param) (h : k ∉ dkeys d) : dpop (d ++ [(k, p)]) k = d := by
  unfold dpop
  simp only [List.filter_append, List.filter_cons, beq_self_eq_true, Bool.not_true, Bool.false_eq_true, ↓reduceIte, List.filter_nil,
    List.append_nil, List.filter_eq_self, Bool.not_eq_true', beq_eq_false_iff_ne, ne_eq]
  intro x hx he
  exact h (by simp only [dkeys, List.mem_map]; exact ⟨x, hx, he⟩)

theorem dkeys_zipUpd : ∀ (P0 : Dict) (L : List (String × Param)), aligned P0 L = true → dkeys (zipUpd P0 L) = dkeys P0
  | [], [], _ => rfl
  | [], _ :: _, h => by simp [aligned] at h
  | _ :: _, [], h => by simp [aligned] at h
  | kv0 :: P0, kv :: L, h => by
    simp only [aligned, Bool.and_eq_true] at h
    have ih := dkeys_zipUpd P0 L h.2
    simp only [dkeys] at ih ⊢
    simp [zipUpd, ih]

theorem mergedParams_none (ir : IR) (hr : ir.returns = none) : mergedParams ir = ir.params := by
  unfold mergedParams; simp [hr]

theorem mergedParams_some (ir : IR) (r : Param) (hr : ir.returns = some r) (hk : "return_type" ∉ dkeys ir.params) :
    mergedParams ir = ir.params ++ [("return_type", r)] := by
  unfold mergedParams; simp [hr, dset, dhas_false_of_not_mem _ _ hk]

def classRoundTrip (env : Env) (it : Bool) (cfg : Cfg) (ir : IR) : Except String (List PV × Option PV) := do
  let t ← emitClass env cfg ir
  let ir' ← parseClass env it t.reparse
  pure ir'.view

theorem class_roundtrip (env : Env) (hEnv : EnvOK env) (it : Bool) (cfg : Cfg) (ir : IR)
    (hD : inD02Class ir = true) (hH : classHyp env cfg ir = true) :
    classRoundTrip env it cfg ir = .ok ir.view := by
  unfold inD02Class at hD
  simp only [Bool.and_eq_true, List.all_eq_true] at hD
  obtain ⟨⟨⟨⟨hname, hnd⟩, _⟩, hall⟩, hret⟩ := hD
  obtain ⟨name, hname⟩ := Option.isSome_iff_exists.mp hname
  have hnd : (dkeys ir.params).Nodup := by simpa [namesOk] using hnd
  have hrt : "return_type" ∉ dkeys ir.params := by
    intro hm
    simp only [dkeys, List.mem_map] at hm
    obtain ⟨kv, hkv, he⟩ := hm
    exact (okName_facts (okParam_facts (hall kv hkv)).1).2 he
  have hstar : ∀ kv ∈ ir.params, okAttr kv = true ∧ startsWith kv.1 "*" = false := by
    intro kv hkv
    refine ⟨okParam_okAttr (hall kv hkv), ?_⟩
    have := (okName_facts (okParam_facts (hall kv hkv)).1).1
    simp only [Bool.or_eq_false_iff] at this
    exact this.2
  unfold classHyp at hH
  simp only [Bool.and_eq_true, Bool.or_eq_true] at hH
  obtain ⟨hfa, hretdoc⟩ := hH
  unfold classRoundTrip
  cases hr : ir.returns with
  | none =>
    rw [mergedParams_none ir hr] at hfa
    have hattr : ∀ kv ∈ mergedParams ir, okAttr kv = true := by
      rw [mergedParams_none ir hr]; exact fun kv hkv => (hstar kv hkv).1
    rw [emitClass_ok env hEnv cfg ir name hname hattr]
    simp only [bind, Except.bind]
    rw [parseClass_body, mergedParams_none ir hr]
    have hal := forall2_aligned env _ _ hfa
    have hkeys := aligned_keys _ _ hal
    have hpop : popRet (clsDocIR0 env cfg ir) = clsDocIR0 env cfg ir := by
      unfold popRet; rw [dget?_none_of_not_mem _ _ (by rw [hkeys]; exact hrt)]
    have hfold := classFold_params ir.params (clsDocIR0 env cfg ir).params [] (clsDocIR0 env cfg ir) hal
      (by simpa [hkeys] using hnd) hstar
    simp only [List.nil_append] at hfold
    rw [hpop, hfold]
    obtain ⟨hm, hv⟩ := class_entries env it _ _ hfa hall
    simp only [bind, Except.bind, hm, pure, Except.pure]
    have hdr : (clsDocIR0 env cfg ir).returns = none := by
      rcases hretdoc with h | h
      · simp [hr] at h
      · simpa using h
    simp [IR.view, hv, hdr, hr]
  | some r =>
    have hmp := mergedParams_some ir r hr hrt
    rw [hmp] at hfa
    obtain ⟨P0, kv0r, hsplit, hfa0, her⟩ := forall2_snoc _ _ _ _ hfa
    have hretok : okClassReturn r = true := by simpa [hr] using hret
    have hattr : ∀ kv ∈ mergedParams ir, okAttr kv = true := by
      rw [hmp]; intro kv hkv
      rcases List.mem_append.mp hkv with h | h
      · exact (hstar kv h).1
      · simp only [List.mem_singleton] at h; subst h; exact okClassReturn_okAttr hretok
    rw [emitClass_ok env hEnv cfg ir name hname hattr]
    simp only [bind, Except.bind]
    rw [parseClass_body, hmp]
    have hal := forall2_aligned env _ _ hfa0
    have hkeys := aligned_keys _ _ hal
    unfold clsEntryOK at her
    simp only [Bool.and_eq_true, beq_iff_eq] at her
    obtain ⟨⟨hk0, hdesc⟩, hdef⟩ := her
    obtain ⟨k0, p0r⟩ := kv0r
    simp only at hk0; subst hk0
    have hrt0 : "return_type" ∉ dkeys P0 := by rw [hkeys]; exact hrt
    have hpop : popRet (clsDocIR0 env cfg ir) = { clsDocIR0 env cfg ir with params := P0, returns := some p0r } := by
      unfold popRet; rw [hsplit, dget?_snoc _ _ _ hrt0, dpop_snoc _ _ _ hrt0]
    rw [hpop, List.map_append, List.foldlM_append]
    have hfold := classFold_params ir.params P0 [] { clsDocIR0 env cfg ir with params := P0, returns := some p0r } hal
      (by simpa [hkeys] using hnd) hstar
    simp only [List.nil_append] at hfold
    rw [hfold]
    simp only [bind, Except.bind, List.map_cons, List.map_nil, List.foldlM_cons, List.foldlM_nil]
    have hstep := classStep_ret { clsDocIR0 env cfg ir with params := zipUpd P0 ir.params, returns := some p0r } r
      (dhas_false_of_not_mem _ _ (by simpa [dkeys_zipUpd _ _ hal] using hrt0)) (okClassReturn_okAttr hretok)
    simp only at hstep
    rw [hstep]
    obtain ⟨hm, hv⟩ := class_entries env it _ _ hfa0 hall
    simp only [bind, Except.bind, hm, pure, Except.pure, Option.getD_some]
    -- the return entry
    unfold clsDescOK at hdesc
    simp only [beq_self_eq_true, ↓reduceIte, beq_iff_eq] at hdesc
    rw [docView_false] at hdesc
    have hrv : (updOf ("return_type", r) p0r).view "return_type" = r.view "return_type" := by
      unfold okClassReturn at hretok
      cases ht : r.typ with
      | none => simp [ht] at hretok
      | some t =>
        simp only [ht, Bool.and_eq_true] at hretok
        cases hd : r.default with
        | none =>
          have h0 : p0r.default = none := by unfold clsDefaultOK at hdef; simpa [hd] using hdef
          simp [updOf, Param.view, ht, hd, h0, hdesc]
        | some dv =>
          cases dv with
          | val d => simp [updOf, Param.view, ht, hd, hdesc]
          | node e => simp [hd] at hretok
    simp [IR.view, hv, hrv, hr]

end Iface
