import CddVerif.Model.Doc
/-! Lemmas for C01: substring search, the default-scanning loop, decimal parsing. -/
namespace Doc
open Py

/-! ### `find` -/

/-- no occurrence of `pat` starts inside `pre` when `pre` is followed by `pat` itself -/
def NoEarly (pat pre : Str) : Prop := ∀ k, k < pre.length → pat.isPrefixOf (pre.drop k ++ pat) = false

theorem isPrefixOf_append_right (pat a b : Str) (h : pat.length ≤ a.length) :
    pat.isPrefixOf (a ++ b) = pat.isPrefixOf a := by
  induction pat generalizing a with
  | nil => simp
  | cons p ps ih =>
    cases a with
    | nil => simp at h
    | cons x xs =>
      simp only [List.cons_append, List.isPrefixOf]
      rw [ih xs (by simpa using h)]

theorem isPrefixOf_self_append (pat post : Str) : pat.isPrefixOf (pat ++ post) = true := by
  induction pat with
  | nil => simp
  | cons p ps ih => simp [ih]

theorem findFrom_append (pat pre post : Str) (i : Nat) (hne : pat ≠ []) (h : NoEarly pat pre) :
    findFrom pat (pre ++ pat ++ post) i = some (i + pre.length) := by
  induction pre generalizing i with
  | nil =>
    cases hp : pat with
    | nil => exact absurd hp hne
    | cons p ps =>
      simp only [List.nil_append, List.cons_append, findFrom, List.length_nil, Nat.add_zero]
      have := isPrefixOf_self_append (p :: ps) post
      simp only [List.cons_append] at this
      simp [this]
  | cons c cs ih =>
    have h0 := h 0 (by simp)
    simp only [List.drop_zero] at h0
    have hlen : pat.length ≤ ((c :: cs) ++ pat).length := by simp only [List.length_append, List.length_cons]; omega
    have hpre : pat.isPrefixOf ((c :: cs) ++ pat ++ post) = false := by
      rw [isPrefixOf_append_right pat ((c :: cs) ++ pat) post hlen]; exact h0
    have hne' : NoEarly pat cs := by
      intro k hk
      have := h (k + 1) (by simp; omega)
      simpa using this
    simp only [List.cons_append] at hpre ⊢
    simp only [findFrom, hpre, Bool.false_eq_true, if_false]
    rw [ih (i + 1) hne']
    simp only [List.length_cons]; congr 1; omega

theorem find_append (pat pre post : Str) (hne : pat ≠ []) (h : NoEarly pat pre) :
    find (pre ++ pat ++ post) pat = some pre.length := by
  unfold find; rw [findFrom_append pat pre post 0 hne h]; simp

/-- a pattern whose first character does not occur in the text is not found -/
theorem findFrom_none_of_head (c : Char) (ps s : Str) (i : Nat) (h : c ∉ s) : findFrom (c :: ps) s i = none := by
  induction s generalizing i with
  | nil => simp [findFrom]
  | cons x xs ih =>
    have hx : x ≠ c := fun e => h (by simp [e])
    have hxs : c ∉ xs := fun e => h (by simp [e])
    have : (c == x) = false := by simpa using (Ne.symm hx)
    simp only [findFrom, List.isPrefixOf, this, Bool.false_and, Bool.false_eq_true, if_false]
    exact ih (i + 1) hxs

/-! ### characters -/

theorem isAsciiDigit_eq (c : Char) : isAsciiDigit c = c.isDigit := by
  unfold isAsciiDigit Char.isDigit
  simp only [Char.le_def, ge_iff_le]

/-! ### the scanning loop on digit text -/

theorem takeDefault_digits (par : Nat) (s : Str) (h : ∀ c ∈ s, c.isDigit = true) : takeDefault par s = s := by
  induction s generalizing par with
  | nil => rfl
  | cons c cs ih =>
    have hc : c.isDigit = true := h c (by simp)
    have hdot : (c == '.') = false := by
      cases hd : (c == '.') with
      | false => rfl
      | true => have : c = '.' := by simpa using hd
                subst this; revert hc; decide
    have hbr : (c == '{' || c == '[' || c == '(' || c == ')' || c == ']' || c == '}') = false := by
      cases hb : (c == '{' || c == '[' || c == '(' || c == ')' || c == ']' || c == '}') with
      | false => rfl
      | true =>
        simp only [Bool.or_eq_true, beq_iff_eq] at hb
        rcases hb with ((((rfl | rfl) | rfl) | rfl) | rfl) | rfl <;> revert hc <;> decide
    simp only [takeDefault, hdot, Bool.false_and, Bool.false_eq_true, if_false, hbr]
    rw [ih par (fun d hd => h d (by simp [hd]))]

theorem toDigits_isDigit (n : Nat) : ∀ c ∈ Nat.toDigits 10 n, c.isDigit = true := fun _ hc =>
  Nat.isDigit_of_mem_toDigits (by decide) (by decide) hc

theorem toDigits_isdecimal (n : Nat) : isdecimal (natToStr n) = true := by
  unfold isdecimal natToStr
  have hne : (Nat.toDigits 10 n).isEmpty = false := by
    cases h : Nat.toDigits 10 n with
    | nil => exact absurd h Nat.toDigits_ne_nil
    | cons _ _ => rfl
  simp only [hne, Bool.not_false, Bool.true_and, List.all_eq_true]
  intro c hc; rw [isAsciiDigit_eq]; exact toDigits_isDigit n c hc

theorem parseNat_natToStr (n : Nat) : parseNat (natToStr n) = n := by
  unfold parseNat natToStr; exact Nat.ofDigitChars_toDigits (by decide) (by decide)

/-- stripping spaces, tabs and backticks leaves digit text alone -/
theorem stripChars_digits (s : Str) (h : ∀ c ∈ s, c.isDigit = true) (hne : s ≠ []) :
    stripChars s [' ', '\t', '`'] = s := by
  have key : ∀ c, c.isDigit = true → ([' ', '\t', '`'].contains c) = false := by
    intro c hc
    cases hb : ([' ', '\t', '`'].contains c) with
    | false => rfl
    | true =>
      simp only [List.contains_cons, List.contains_nil, Bool.or_false, Bool.or_eq_true, beq_iff_eq] at hb
      rcases hb with rfl | rfl | rfl <;> revert hc <;> decide
  unfold stripChars lstripChars rstripChars
  cases s with
  | nil => exact absurd rfl hne
  | cons c cs =>
    have hc := key c (h c (by simp))
    simp only [List.dropWhile_cons, hc, Bool.false_eq_true, if_false]
    have hlast : ∀ l : Str, l ≠ [] → (∀ x ∈ l, x.isDigit = true) → (l.reverse.dropWhile ([' ', '\t', '`'].contains ·)).reverse = l := by
      intro l hl hd
      have : l.reverse ≠ [] := by simpa using hl
      cases hr : l.reverse with
      | nil => exact absurd hr this
      | cons y ys =>
        have hy : y ∈ l := by
          have : y ∈ l.reverse := by rw [hr]; simp
          simpa using this
        simp only [List.dropWhile_cons, key y (hd y hy), Bool.false_eq_true, if_false]
        rw [← hr]; simp
    exact hlast (c :: cs) (by simp) h

/-! ### the scanning loop on plain text (no `.` and no bracket) -/

def plainChar (c : Char) : Bool :=
  !(c == '.' || c == '{' || c == '[' || c == '(' || c == ')' || c == ']' || c == '}')

theorem takeDefault_plain (par : Nat) (s : Str) (h : s.all plainChar = true) : takeDefault par s = s := by
  induction s generalizing par with
  | nil => rfl
  | cons c cs ih =>
    simp only [List.all_cons, Bool.and_eq_true] at h
    have hc := h.1
    unfold plainChar at hc
    simp only [Bool.not_eq_true', Bool.or_eq_false_iff] at hc
    obtain ⟨⟨⟨⟨⟨⟨h1, h2⟩, h3⟩, h4⟩, h5⟩, h6⟩, h7⟩ := hc
    simp only [takeDefault, h1, Bool.false_and, Bool.false_eq_true, if_false, h2, h3, h4, h5, h6, h7, Bool.or_self]
    rw [ih par h.2]

/-- `split(".")` of a text without a dot is the text itself -/
theorem split1_no_sep (s acc : Str) (c : Char) (h : c ∉ s) : splitOn1 c s acc = [acc.reverse ++ s] := by
  induction s generalizing acc with
  | nil => simp [splitOn1]
  | cons x xs ih =>
    have hx : (x == c) = false := by
      cases hb : (x == c) with
      | false => rfl
      | true => exact absurd (by simp [(beq_iff_eq.mp hb)]) h
    have hxs : c ∉ xs := fun e => h (by simp [e])
    simp only [splitOn1, hx, Bool.false_eq_true, if_false]
    rw [ih (x :: acc) hxs]; simp

end Doc
