import CddVerif.Model.OpenApi
/-!
# Lemmas about the OpenAPI model (property C16)

Helper lemmas only; the property theorems are in `CddVerif/Properties/C16.lean`.
-/
set_option linter.unusedSimpArgs false
namespace OpenApi
open Py

/-! ### association lists as Python dicts -/

theorem any_setKey {α} (d : List (Str × α)) (k n : Str) (v : α) (h : d.any (·.1 == n) = true) :
    (setKey d k v).any (·.1 == n) = true := by
  unfold setKey; split
  · simp only [List.any_map, List.any_eq_true, Function.comp] at *
    obtain ⟨x, hx, hxn⟩ := h
    refine ⟨x, hx, ?_⟩
    by_cases hk : (x.1 == k) = true
    · have : x.1 = k := by simpa using hk
      simp [← this, hxn]
    · simp [hk, hxn]
  · simp only [List.any_append, h, Bool.true_or]

theorem any_setKey_self {α} (d : List (Str × α)) (k : Str) (v : α) : (setKey d k v).any (·.1 == k) = true := by
  unfold setKey; split
  · rename_i h
    simp only [List.any_map, List.any_eq_true, Function.comp] at *
    obtain ⟨x, hx, hxk⟩ := h
    exact ⟨x, hx, by simp [hxk]⟩
  · simp

theorem mem_setKey {α} (d : List (Str × α)) (k : Str) (v : α) (p : Str × α) (h : p ∈ setKey d k v) :
    p ∈ d ∨ p = (k, v) := by
  unfold setKey at h; split at h
  · simp only [List.mem_map] at h
    obtain ⟨x, hx, rfl⟩ := h
    split
    · exact Or.inr rfl
    · exact Or.inl hx
  · simp only [List.mem_append, List.mem_singleton] at h; exact h

theorem hasKey_setKey {α} (d : List (Str × α)) (k n : Str) (v : α) (h : hasKey d n = true) : hasKey (setKey d k v) n = true :=
  any_setKey d k n v h
theorem hasKey_setKey_self {α} (d : List (Str × α)) (k : Str) (v : α) : hasKey (setKey d k v) k = true :=
  any_setKey_self d k v

theorem setKey_fresh {α} (d : List (Str × α)) (k : Str) (v : α) (h : k ∉ keys d) : setKey d k v = d ++ [(k, v)] := by
  unfold setKey
  have : d.any (·.1 == k) = false := by
    rw [Bool.eq_false_iff]; intro hc
    simp only [List.any_eq_true, beq_iff_eq] at hc
    obtain ⟨x, hx, rfl⟩ := hc
    exact h (List.mem_map_of_mem (f := (·.1)) hx)
  simp [this]

theorem keys_setKey_fresh {α} (d : List (Str × α)) (k : Str) (v : α) (h : k ∉ keys d) : keys (setKey d k v) = keys d ++ [k] := by
  rw [setKey_fresh d k v h]; simp [keys]

theorem lookup_isSome {α} (d : List (Str × α)) (k : Str) : (lookup d k).isSome = hasKey d k := by
  induction d with
  | nil => simp [lookup, hasKey]
  | cons x xs ih =>
    obtain ⟨k', v⟩ := x
    simp only [lookup, hasKey, List.any_cons]
    by_cases hk : (k' == k) = true
    · simp [hk]
    · simp only [hk, Bool.false_eq_true, ↓reduceIte, Bool.false_or]; exact ih

/-! ### `$ref` collection -/

/-- the refs contributed by one key/value pair -/
def kvRefs (kv : Str × J) : List Str :=
  (if kv.1 = refKey then kv.2.strVal else []) ++ kv.2.refs

theorem refsKvs_cons (kv : Str × J) (rest : Dict) : refsKvs (kv :: rest) = kvRefs kv ++ refsKvs rest := by
  obtain ⟨k, v⟩ := kv; simp [refsKvs, kvRefs]

theorem refsKvs_append (a b : Dict) : refsKvs (a ++ b) = refsKvs a ++ refsKvs b := by
  induction a with
  | nil => simp [refsKvs]
  | cons x xs ih => rw [List.cons_append, refsKvs_cons, refsKvs_cons, ih, List.append_assoc]

theorem mem_refsKvs (r : Str) (kvs : Dict) : r ∈ refsKvs kvs ↔ ∃ kv ∈ kvs, r ∈ kvRefs kv := by
  induction kvs with
  | nil => simp [refsKvs]
  | cons x xs ih => rw [refsKvs_cons, List.mem_append, ih]; simp

theorem kvRefs_obj (k : Str) (o : Dict) : kvRefs (k, .obj o) = refsKvs o := by
  simp [kvRefs, J.refs, J.strVal]

theorem refsKvs_filter_nil (p : Str × J → Bool) (kvs : Dict) (h : refsKvs kvs = []) : refsKvs (kvs.filter p) = [] := by
  induction kvs with
  | nil => simp [refsKvs]
  | cons x xs ih =>
    rw [refsKvs_cons, List.append_eq_nil_iff] at h
    rw [List.filter_cons]; split
    · rw [refsKvs_cons, h.1, ih h.2]; rfl
    · exact ih h.2

/-! ### refs of the fixed templates -/

theorem refs_response (desc r : Str) : (response desc r).refs = [r] := by
  simp [response, jsonContent, refObj, J.refs, refsKvs, refKey, J.strVal]

theorem refs_postOp (name : Str) : (postOp name).refs = [bodyRef name, schemaRef name, schemaRef serverError] := by
  simp [postOp, J.refs, refsKvs, refKey, J.strVal, refs_response]

theorem refs_getOp (name : Str) : (getOp name).refs = [schemaRef name, schemaRef serverError] := by
  simp [getOp, J.refs, refsKvs, refKey, J.strVal, refs_response]

theorem refs_deleteOp (name : Str) : (deleteOp name).refs = [] := by
  simp [deleteOp, J.refs, refsKvs, refKey, J.strVal]

theorem refs_paramObj (id name : Str) : (paramObj id name).refs = [] := by
  simp [paramObj, J.refs, refsKvs, refKey, J.strVal]

theorem refs_bodyObj (name : Str) : (bodyObj name).refs = [schemaRef name] := by
  simp [bodyObj, jsonContent, refObj, J.refs, refsKvs, refKey, J.strVal]

/-! ### JSON pointers -/

theorem splitOn1_noSep (sep : Char) (s acc : Str) (h : sep ∉ s) : splitOn1 sep s acc = [acc.reverse ++ s] := by
  induction s generalizing acc with
  | nil => simp [splitOn1]
  | cons c cs ih =>
    have hc : (c == sep) = false := by
      rw [beq_eq_false_iff_ne]; intro e; exact h (e ▸ List.mem_cons_self)
    have hcs : sep ∉ cs := fun m => h (List.mem_cons_of_mem _ m)
    simp [splitOn1, hc, ih _ hcs]

theorem pointer_schemaRef (n : Str) (h : '/' ∉ n) : pointer (schemaRef n) = some [c!"components", c!"schemas", n] := by
  simp [pointer, schemaRef, schemaPrefix, startsWith, List.isPrefixOf, split1, splitOn1, splitOn1_noSep '/' n _ h]

theorem pointer_bodyPrefix (n : Str) (h : '/' ∉ n) : pointer (bodyPrefix ++ n) = some [c!"components", c!"requestBodies", n] := by
  simp [pointer, bodyPrefix, startsWith, List.isPrefixOf, split1, splitOn1, splitOn1_noSep '/' n _ h]

theorem getPath_obj_cons (kvs : Dict) (k : Str) (ks : List Str) :
    getPath (.obj kvs) (k :: ks) = (lookup kvs k).bind (fun v => getPath v ks) := by
  rw [getPath]

theorem getPath_nil (j : J) : getPath j [] = some j := by cases j <;> rfl

theorem getPath_obj_one (kvs : Dict) (k : Str) : getPath (.obj kvs) [k] = lookup kvs k := by
  rw [getPath_obj_cons]; cases lookup kvs k <;> simp [getPath]

theorem getPath_toJ_schemas (d : Doc) (n : Str) : getPath d.toJ [c!"components", c!"schemas", n] = lookup d.schemas n := by
  simp [Doc.toJ, getPath_obj_cons, getPath_nil, lookup]

theorem getPath_toJ_bodies (d : Doc) (n : Str) : getPath d.toJ [c!"components", c!"requestBodies", n] = lookup d.requestBodies n := by
  simp [Doc.toJ, getPath_obj_cons, getPath_nil, lookup]

theorem resolves_schemaRef (d : Doc) (n : Str) (h : '/' ∉ n) : resolves d.toJ (schemaRef n) = hasKey d.schemas n := by
  simp only [resolves, pointer_schemaRef n h, getPath_toJ_schemas, lookup_isSome]

theorem resolves_bodyRef (d : Doc) (n : Str) (h : '/' ∉ n) : resolves d.toJ (bodyPrefix ++ n) = hasKey d.requestBodies n := by
  simp only [resolves, pointer_bodyPrefix n h, getPath_toJ_bodies, lookup_isSome]

theorem refs_toJ (d : Doc) : d.toJ.refs = refsKvs d.requestBodies ++ refsKvs d.schemas ++ refsKvs d.paths := by
  simp [Doc.toJ, J.refs, refsKvs, refKey, J.strVal]

theorem pathsOf_toJ (d : Doc) : pathsOf d.toJ = d.paths := by
  simp [pathsOf, Doc.toJ, getPath_obj_one, lookup]

/-! ### the closure invariant of `step` -/

/-- shape of a reference that resolves in the document built from `d` -/
def Res (d : Doc) (r : Str) : Prop :=
  (∃ n, r = schemaRef n ∧ '/' ∉ n ∧ hasKey d.schemas n = true) ∨
  (∃ n, r = bodyPrefix ++ n ∧ '/' ∉ n ∧ hasKey d.requestBodies n = true)

theorem Res.resolves {d : Doc} {r : Str} (h : Res d r) : resolves d.toJ r = true := by
  rcases h with ⟨n, rfl, hn, hk⟩ | ⟨n, rfl, hn, hk⟩
  · rw [resolves_schemaRef d n hn]; exact hk
  · rw [resolves_bodyRef d n hn]; exact hk

structure Inv (d : Doc) : Prop where
  paths : ∀ kv ∈ d.paths, ∀ r ∈ kvRefs kv, Res d r
  bodies : ∀ kv ∈ d.requestBodies, ∀ r ∈ kvRefs kv, Res d r
  schemas : ∀ kv ∈ d.schemas, kvRefs kv = []
  server : hasKey d.schemas serverError = true

theorem Inv.closed {d : Doc} (h : Inv d) : Closed d.toJ := by
  intro r hr
  rw [refs_toJ, List.mem_append, List.mem_append, mem_refsKvs, mem_refsKvs, mem_refsKvs] at hr
  rcases hr with (⟨kv, hkv, hr⟩ | ⟨kv, hkv, hr⟩) | ⟨kv, hkv, hr⟩
  · exact (h.bodies kv hkv r hr).resolves
  · rw [h.schemas kv hkv] at hr; cases hr
  · exact (h.paths kv hkv r hr).resolves

theorem Res.step {d : Doc} {r : Str} (e : Entry) (h : Res d r) : Res (step d e) r := by
  rcases h with ⟨n, rfl, hn, hk⟩ | ⟨n, rfl, hn, hk⟩
  · exact Or.inl ⟨n, rfl, hn, hasKey_setKey _ _ _ _ hk⟩
  · refine Or.inr ⟨n, rfl, hn, ?_⟩
    simp only [OpenApi.step]; split
    · exact hasKey_setKey _ _ _ _ hk
    · exact hk

theorem slash_not_mem_serverError : '/' ∉ serverError := by decide

theorem slash_not_mem_bodyName (n : Str) (h : '/' ∉ n) : '/' ∉ bodyName n := by
  simp [bodyName, h]

theorem itemFor_eq (e : Entry) : itemFor e =
    [(c!"parameters", .arr [paramObj e.id e.name])] ++ (if e.crud.contains 'R' then [(c!"get", getOp e.name)] else []) ++
      (if e.crud.contains 'D' then [(c!"delete", deleteOp e.name)] else []) := by
  unfold itemFor
  cases e.crud.contains 'R' <;> cases e.crud.contains 'D' <;> rfl

theorem mem_refs_itemFor (e : Entry) (r : Str) (h : r ∈ refsKvs (itemFor e)) :
    r = schemaRef e.name ∨ r = schemaRef serverError := by
  rw [itemFor_eq, refsKvs_append, refsKvs_append] at h
  simp only [List.mem_append] at h
  rcases h with (h | h) | h
  · simp [refsKvs, J.refs, refsList, refKey, J.strVal, refs_paramObj] at h
  · split at h
    · simp [refsKvs, refKey, refs_getOp] at h; exact h
    · simp [refsKvs] at h
  · split at h
    · simp [refsKvs, refKey, refs_deleteOp] at h
    · simp [refsKvs] at h

theorem step_inv (d : Doc) (e : Entry) (hn : '/' ∉ e.name) (hm : refsKvs e.model = []) (h : Inv d) : Inv (step d e) := by
  have hname : Res (step d e) (schemaRef e.name) :=
    Or.inl ⟨e.name, rfl, hn, by simp only [OpenApi.step]; exact hasKey_setKey_self _ _ _⟩
  have hse : Res (step d e) (schemaRef serverError) :=
    Or.inl ⟨serverError, rfl, slash_not_mem_serverError, hasKey_setKey _ _ _ _ h.server⟩
  refine ⟨?_, ?_, ?_, hasKey_setKey _ _ _ _ h.server⟩
  · -- paths
    have hold : ∀ kv ∈ d.paths, ∀ r ∈ kvRefs kv, Res (step d e) r := fun kv hkv r hr => (h.paths kv hkv r hr).step e
    have h1 : ∀ kv ∈ (if e.crud.contains 'C' then setKey d.paths e.route (.obj [(c!"post", postOp e.name)]) else d.paths),
        ∀ r ∈ kvRefs kv, Res (step d e) r := by
      split
      · rename_i hc
        intro kv hkv r hr
        rcases mem_setKey _ _ _ _ hkv with hk | rfl
        · exact hold kv hk r hr
        · rw [kvRefs_obj] at hr
          simp only [refsKvs, refKey, refs_postOp, List.append_nil] at hr
          simp at hr
          rcases hr with rfl | rfl | rfl
          · refine Or.inr ⟨bodyName e.name, rfl, slash_not_mem_bodyName _ hn, ?_⟩
            simp only [OpenApi.step, hc, if_true]; exact hasKey_setKey_self _ _ _
          · exact hname
          · exact hse
      · exact hold
    intro kv hkv r hr
    simp only [OpenApi.step] at hkv
    split at hkv
    · rcases mem_setKey _ _ _ _ hkv with hk | rfl
      · exact h1 kv hk r hr
      · rw [kvRefs_obj] at hr
        rcases mem_refs_itemFor e r hr with rfl | rfl
        · exact hname
        · exact hse
    · exact h1 kv hkv r hr
  · -- request bodies
    intro kv hkv r hr
    simp only [OpenApi.step] at hkv
    split at hkv
    · rcases mem_setKey _ _ _ _ hkv with hk | rfl
      · exact (h.bodies kv hk r hr).step e
      · rw [kvRefs, refs_bodyObj] at hr
        simp [bodyObj, J.strVal] at hr
        rw [hr]; exact hname
    · exact (h.bodies kv hkv r hr).step e
  · -- schemas
    intro kv hkv
    simp only [OpenApi.step] at hkv
    rcases mem_setKey _ _ _ _ hkv with hk | rfl
    · exact h.schemas kv hk
    · rw [kvRefs_obj]; exact refsKvs_filter_nil _ _ hm

theorem init_inv : Inv init := by
  refine ⟨?_, ?_, ?_, ?_⟩
  · intro kv hkv; simp [init] at hkv
  · intro kv hkv; simp [init] at hkv
  · intro kv hkv
    simp only [init, List.mem_singleton] at hkv
    subst hkv; decide
  · decide

theorem openapiDoc_inv (es : List Entry) (h : ∀ e ∈ es, '/' ∉ e.name ∧ refsKvs e.model = []) : Inv (openapiDoc es) := by
  unfold openapiDoc
  suffices ∀ d, Inv d → Inv (es.foldl step d) from this init init_inv
  induction es with
  | nil => intro d hd; exact hd
  | cons e es ih =>
    intro d hd
    have he := h e List.mem_cons_self
    exact ih (fun x hx => h x (List.mem_cons_of_mem _ hx)) _ (step_inv d e he.1 he.2 hd)

/-! ### operations -/

theorem opsOfPaths_append (a b : Dict) : opsOfPaths (a ++ b) = opsOfPaths a ++ opsOfPaths b := by
  simp [opsOfPaths]

theorem methodsOf_itemFor (e : Entry) : methodsOf (.obj (itemFor e)) =
    (if e.crud.contains 'R' then [c!"get"] else []) ++ (if e.crud.contains 'D' then [c!"delete"] else []) := by
  rw [itemFor_eq]
  cases e.crud.contains 'R' <;> cases e.crud.contains 'D' <;> rfl

theorem step_paths_fresh (d : Doc) (e : Entry) (h1 : e.route ∉ keys d.paths) (h2 : itemRoute e.route e.id ∉ keys d.paths)
    (h3 : e.route ≠ itemRoute e.route e.id) (hok : crudOK e.crud = true) :
    (step d e).paths = d.paths ++ (if e.crud.contains 'C' then [(e.route, .obj [(c!"post", postOp e.name)])] else []) ++
      [(itemRoute e.route e.id, .obj (itemFor e))] := by
  simp only [OpenApi.step, hok, if_true]
  split
  · rw [setKey_fresh d.paths _ _ h1, setKey_fresh]
    simp only [keys, List.map_append, List.map_cons, List.map_nil, List.mem_append, List.mem_singleton, not_or]
    exact ⟨h2, fun h => h3 h.symm⟩
  · rw [setKey_fresh _ _ _ h2]; simp

theorem opsOfPaths_step (d : Doc) (e : Entry) (h1 : e.route ∉ keys d.paths) (h2 : itemRoute e.route e.id ∉ keys d.paths)
    (h3 : e.route ≠ itemRoute e.route e.id) (hok : crudOK e.crud = true) :
    opsOfPaths (step d e).paths = opsOfPaths d.paths ++ requested e := by
  rw [step_paths_fresh d e h1 h2 h3 hok, opsOfPaths_append, opsOfPaths_append, List.append_assoc]
  congr 1
  unfold requested
  rw [List.append_assoc]
  congr 1
  · split
    · simp [opsOfPaths, methodsOf, keys, httpMethods]
    · simp [opsOfPaths]
  · simp only [opsOfPaths, List.flatMap_cons, List.flatMap_nil, List.append_nil, methodsOf_itemFor]
    cases e.crud.contains 'R' <;> cases e.crud.contains 'D' <;> simp

theorem keys_step_sublist (d : Doc) (e : Entry) (h1 : e.route ∉ keys d.paths) (h2 : itemRoute e.route e.id ∉ keys d.paths)
    (h3 : e.route ≠ itemRoute e.route e.id) (hok : crudOK e.crud = true) :
    (keys (step d e).paths).Sublist (keys d.paths ++ pathKeys e) := by
  rw [step_paths_fresh d e h1 h2 h3 hok]
  simp only [keys, List.map_append, List.map_cons, List.map_nil, pathKeys, List.append_assoc]
  apply List.Sublist.append (List.Sublist.refl _)
  split
  · exact List.Sublist.refl _
  · simp

theorem opsOfPaths_foldl (es : List Entry) (d : Doc) (hnd : (keys d.paths ++ es.flatMap pathKeys).Nodup)
    (hok : ∀ e ∈ es, crudOK e.crud = true) :
    opsOfPaths (es.foldl step d).paths = opsOfPaths d.paths ++ es.flatMap requested := by
  induction es generalizing d with
  | nil => simp
  | cons e es ih =>
    simp only [List.flatMap_cons, pathKeys] at hnd
    have hnd' := hnd
    rw [List.nodup_append] at hnd
    obtain ⟨_, hr, hdis⟩ := hnd
    have h1 : e.route ∉ keys d.paths := fun hm => hdis _ hm _ (by simp) rfl
    have h2 : itemRoute e.route e.id ∉ keys d.paths := fun hm => hdis _ hm _ (by simp) rfl
    have h3 : e.route ≠ itemRoute e.route e.id := by
      intro heq
      simp only [List.cons_append, List.nil_append, List.nodup_cons, List.mem_cons] at hr
      exact hr.1 (Or.inl heq)
    have hoke := hok e List.mem_cons_self
    rw [List.foldl_cons, ih (step d e) ?_ (fun x hx => hok x (List.mem_cons_of_mem _ hx)), opsOfPaths_step d e h1 h2 h3 hoke]
    · simp
    · refine List.Nodup.sublist ?_ hnd'
      have := keys_step_sublist d e h1 h2 h3 hoke
      have := List.Sublist.append this (List.Sublist.refl (es.flatMap pathKeys))
      simpa [pathKeys, List.append_assoc] using this

/-! ### path template parameters -/

theorem tparams_noOpen (s t : Str) (h : '{' ∉ s) : tparams (s ++ t) none = tparams t none := by
  induction s with
  | nil => rfl
  | cons c cs ih =>
    have hc : (c == '{') = false := by
      rw [beq_eq_false_iff_ne]; intro e; exact h (e ▸ List.mem_cons_self)
    simp only [List.cons_append, tparams, hc, Bool.false_eq_true, ↓reduceIte]
    exact ih (fun m => h (List.mem_cons_of_mem _ m))

theorem tparams_capture (id t acc : Str) (h : '}' ∉ id) :
    tparams (id ++ '}' :: t) (some acc) = (acc.reverse ++ id) :: tparams t none := by
  induction id generalizing acc with
  | nil => simp [tparams]
  | cons c cs ih =>
    have hc : (c == '}') = false := by
      rw [beq_eq_false_iff_ne]; intro e; exact h (e ▸ List.mem_cons_self)
    simp only [List.cons_append, tparams, hc, Bool.false_eq_true, ↓reduceIte]
    rw [ih _ (fun m => h (List.mem_cons_of_mem _ m))]; simp

theorem tparams_route (route : Str) (h : '{' ∉ route) : tparams route none = [] := by
  have := tparams_noOpen route [] h
  simpa [tparams] using this

theorem tparams_itemRoute (route id : Str) (h : '{' ∉ route) (hi : '}' ∉ id) : tparams (itemRoute route id) none = [id] := by
  unfold itemRoute
  rw [List.append_assoc, List.append_assoc, tparams_noOpen route _ h]
  simp only [List.cons_append, List.nil_append, tparams]
  simp only [show ('/' == '{') = false by decide, show ('{' == '{') = true by decide, Bool.false_eq_true, ↓reduceIte]
  rw [tparams_capture id [] [] hi]; simp [tparams]

theorem declared_itemFor (e : Entry) : declared (.obj (itemFor e)) = [e.id] := by
  rw [itemFor_eq]; rfl

theorem declared_postItem (name : Str) : declared (.obj [(c!"post", postOp name)]) = [] := rfl

/-- every stored path item declares the template parameters of its key -/
def PInv (paths : Dict) : Prop := ∀ kv ∈ paths, ∀ x ∈ tparams kv.1 none, x ∈ declared kv.2

theorem step_pinv (d : Doc) (e : Entry) (hr : '{' ∉ e.route) (hi : '}' ∉ e.id) (h : PInv d.paths) : PInv (step d e).paths := by
  have h1 : PInv (if e.crud.contains 'C' then setKey d.paths e.route (.obj [(c!"post", postOp e.name)]) else d.paths) := by
    split
    · intro kv hkv x hx
      rcases mem_setKey _ _ _ _ hkv with hk | rfl
      · exact h kv hk x hx
      · rw [tparams_route _ hr] at hx; cases hx
    · exact h
  intro kv hkv x hx
  simp only [OpenApi.step] at hkv
  split at hkv
  · rcases mem_setKey _ _ _ _ hkv with hk | rfl
    · exact h1 kv hk x hx
    · rw [tparams_itemRoute _ _ hr hi] at hx
      rw [declared_itemFor]; exact hx
  · exact h1 kv hkv x hx

theorem openapiDoc_pinv (es : List Entry) (h : ∀ e ∈ es, '{' ∉ e.route ∧ '}' ∉ e.id) : PInv (openapiDoc es).paths := by
  unfold openapiDoc
  suffices ∀ d, PInv d.paths → PInv (es.foldl step d).paths from this init (by intro kv hkv; simp [init] at hkv)
  induction es with
  | nil => intro d hd; exact hd
  | cons e es ih =>
    intro d hd
    have he := h e List.mem_cons_self
    exact ih (fun x hx => h x (List.mem_cons_of_mem _ hx)) _ (step_pinv d e he.1 he.2 hd)

/-! ### the schema stored for a model -/

theorem lookup_map_replace_ne {α} (d : List (Str × α)) (k k' : Str) (v : α) (hne : k ≠ k') :
    lookup (d.map (fun kv => if kv.1 == k then (k, v) else kv)) k' = lookup d k' := by
  have hb : (k == k') = false := by rw [beq_eq_false_iff_ne]; exact hne
  induction d with
  | nil => rfl
  | cons x xs ih =>
    obtain ⟨k0, v0⟩ := x
    by_cases hk : (k0 == k) = true
    · have hk0 : k0 = k := by simpa using hk
      have hb0 : (k0 == k') = false := by rw [hk0]; exact hb
      simp only [List.map_cons, hk, ↓reduceIte, lookup, hb, hb0, Bool.false_eq_true]
      exact ih
    · simp only [List.map_cons, hk, Bool.false_eq_true, ↓reduceIte, lookup]
      rw [ih]

theorem lookup_map_replace_self {α} (d : List (Str × α)) (k : Str) (v : α) (h : d.any (·.1 == k) = true) :
    lookup (d.map (fun kv => if kv.1 == k then (k, v) else kv)) k = some v := by
  induction d with
  | nil => simp at h
  | cons x xs ih =>
    obtain ⟨k0, v0⟩ := x
    by_cases hk : (k0 == k) = true
    · simp only [List.map_cons, hk, ↓reduceIte, lookup, beq_self_eq_true]
    · have hxs : xs.any (·.1 == k) = true := by
        simp only [List.any_cons] at h
        simpa [hk] using h
      simp only [List.map_cons, hk, Bool.false_eq_true, ↓reduceIte, lookup]
      exact ih hxs

theorem lookup_append_ne {α} (d : List (Str × α)) (k k' : Str) (v : α) (hne : k ≠ k') :
    lookup (d ++ [(k, v)]) k' = lookup d k' := by
  have hb : (k == k') = false := by rw [beq_eq_false_iff_ne]; exact hne
  induction d with
  | nil => simp [lookup, hb]
  | cons x xs ih =>
    obtain ⟨k0, v0⟩ := x
    simp only [List.cons_append, lookup]; rw [ih]

theorem lookup_append_self {α} (d : List (Str × α)) (k : Str) (v : α) (h : d.any (·.1 == k) = false) :
    lookup (d ++ [(k, v)]) k = some v := by
  induction d with
  | nil => simp [lookup]
  | cons x xs ih =>
    obtain ⟨k0, v0⟩ := x
    simp only [List.any_cons, Bool.or_eq_false_iff] at h
    simp only [List.cons_append, lookup, h.1, Bool.false_eq_true, ↓reduceIte]
    exact ih h.2

theorem lookup_setKey_self {α} (d : List (Str × α)) (k : Str) (v : α) : lookup (setKey d k v) k = some v := by
  unfold setKey; split
  · rename_i h; exact lookup_map_replace_self d k v h
  · rename_i h; exact lookup_append_self d k v (Bool.eq_false_iff.mpr h)

theorem lookup_setKey_ne {α} (d : List (Str × α)) (k k' : Str) (v : α) (hne : k ≠ k') : lookup (setKey d k v) k' = lookup d k' := by
  unfold setKey; split
  · exact lookup_map_replace_ne d k k' v hne
  · exact lookup_append_ne d k k' v hne

theorem schemas_foldl_other (es : List Entry) (d : Doc) (n : Str) (h : ∀ e ∈ es, e.name ≠ n) :
    lookup (es.foldl step d).schemas n = lookup d.schemas n := by
  induction es generalizing d with
  | nil => rfl
  | cons e es ih =>
    rw [List.foldl_cons, ih _ (fun x hx => h x (List.mem_cons_of_mem _ hx))]
    simp only [OpenApi.step]
    exact lookup_setKey_ne _ _ _ _ (h e List.mem_cons_self)

theorem schemas_foldl_mem (es : List Entry) (d : Doc) (hnd : (es.map (·.name)).Nodup) (e : Entry) (he : e ∈ es) :
    lookup (es.foldl step d).schemas e.name = some (.obj (stripDollar e.model)) := by
  induction es generalizing d with
  | nil => cases he
  | cons x xs ih =>
    simp only [List.map_cons, List.nodup_cons] at hnd
    rw [List.foldl_cons]
    rcases List.mem_cons.mp he with rfl | hmem
    · rw [schemas_foldl_other xs _ _ (fun y hy heq => hnd.1 (by rw [← heq]; exact List.mem_map_of_mem (f := (·.name)) hy))]
      simp only [OpenApi.step]
      exact lookup_setKey_self _ _ _
    · exact ih _ hnd.2 hmem

/-! ### `str.rpartition` on the request-body reference -/

theorem isPrefixOf_false_of_length_lt (p l : Str) (h : l.length < p.length) : p.isPrefixOf l = false := by
  induction p generalizing l with
  | nil => simp at h
  | cons a as ih =>
    cases l with
    | nil => rfl
    | cons b bs =>
      simp only [List.isPrefixOf]
      rw [ih bs (by simpa using h)]; simp

theorem isPrefixOf_self (p : Str) : p.isPrefixOf p = true := by
  induction p with
  | nil => rfl
  | cons a as ih => simp [List.isPrefixOf, ih]

theorem rfindFrom_short (p l : Str) (i : Nat) (best : Option Nat) (h : l.length < p.length) : rfindFrom p l i best = best := by
  induction l generalizing i best with
  | nil =>
    have : p.isEmpty = false := by cases p <;> simp at h ⊢
    simp [rfindFrom, this]
  | cons c cs ih =>
    simp only [rfindFrom, isPrefixOf_false_of_length_lt p (c :: cs) h, Bool.false_eq_true, ↓reduceIte]
    exact ih _ _ (by simp at h ⊢; omega)

/-- the last occurrence of `p` in `s ++ p` is the final one, whatever `s` contains -/
theorem rfindFrom_append_self (p s : Str) (i : Nat) (best : Option Nat) (hp : p ≠ []) :
    rfindFrom p (s ++ p) i best = some (i + s.length) := by
  induction s generalizing i best with
  | nil =>
    cases p with
    | nil => exact absurd rfl hp
    | cons c cs =>
      simp only [List.nil_append, rfindFrom, isPrefixOf_self, ↓reduceIte, List.length_nil, Nat.add_zero]
      exact rfindFrom_short _ _ _ _ (by simp)
  | cons d ds ih =>
    simp only [List.cons_append, rfindFrom, List.length_cons]
    rw [ih]; congr 1; omega

theorem rfind_append_self (p s : Str) (hp : p ≠ []) : rfind (s ++ p) p = some s.length := by
  unfold rfind; rw [rfindFrom_append_self p s 0 none hp]; simp

/-- **`body_name.rpartition("Body")[0]` recovers the name**, also for names that contain "Body" -/
theorem rpartition_bodyName (n : Str) : (rpartition (bodyName n) c!"Body").1 = n := by
  unfold rpartition bodyName
  rw [rfind_append_self _ _ (by decide)]
  simp

theorem rfindFrom_absent (c : Char) (t : Str) (i : Nat) (best : Option Nat) (h : c ∉ t) : rfindFrom [c] t i best = best := by
  induction t generalizing i best with
  | nil => simp [rfindFrom]
  | cons x xs ih =>
    have hx : (c == x) = false := by
      rw [beq_eq_false_iff_ne]; intro e; exact h (e ▸ List.mem_cons_self)
    simp only [rfindFrom, List.isPrefixOf, hx, Bool.false_and, Bool.false_eq_true, ↓reduceIte]
    exact ih _ _ (fun m => h (List.mem_cons_of_mem _ m))

theorem rfindFrom_last_char (c : Char) (s t : Str) (i : Nat) (best : Option Nat) (h : c ∉ t) :
    rfindFrom [c] (s ++ c :: t) i best = some (i + s.length) := by
  induction s generalizing i best with
  | nil =>
    simp only [List.nil_append, rfindFrom, List.isPrefixOf, beq_self_eq_true, Bool.true_and, ↓reduceIte, List.length_nil, Nat.add_zero]
    cases t with
    | nil => simp [rfindFrom]
    | cons x xs =>
      have := rfindFrom_absent c (x :: xs) (i + 1) (some i) h
      simpa [List.isPrefixOf] using this
  | cons d ds ih =>
    simp only [List.cons_append, rfindFrom, List.length_cons]
    rw [ih]; congr 1; omega

/-- `ref.rpartition("/")[2]` of the request-body reference is the body name -/
theorem rpartition_bodyRef (n : Str) (h : '/' ∉ n) : (rpartition (bodyRef n) c!"/").2.2 = bodyName n := by
  have hb : '/' ∉ bodyName n := slash_not_mem_bodyName n h
  have e : bodyRef n = c!"#/components/requestBodies" ++ '/' :: bodyName n := by
    simp [bodyRef, bodyPrefix]
  unfold rpartition rfind
  rw [e, rfindFrom_last_char '/' _ _ 0 none hb]
  simp

/-! ### `openapi_bulk`: closure -/

/-- the request body `openapi_bulk` registers for the entity `n` -/
def bulkBody (n : Str) : J := .obj [
  (c!"content", jsonContent (schemaRef n)), (c!"description", .str (aObject n)), (c!"required", .bool true)]

theorem bodyOf_create (n : Str) (h : '/' ∉ n) : bodyOf (templatePayload .create n) = .ok (some (bodyName n, bulkBody n)) := by
  simp [bodyOf, templatePayload, lookup, truthy, refKey, rpartition_bodyRef n h, rpartition_bodyName, bulkBody]
theorem bodyOf_read (n : Str) : bodyOf (templatePayload .read n) = .ok none := rfl
theorem bodyOf_destroy (n : Str) : bodyOf (templatePayload .destroy n) = .ok none := rfl
theorem bodyOf_arr (ps : List J) : bodyOf (.arr ps) = .ok none := rfl

theorem refs_payload_create (n : Str) : (templatePayload .create n).refs = [schemaRef n, schemaRef serverError, bodyRef n] := by
  simp [templatePayload, J.refs, refsKvs, refKey, J.strVal, refs_response]
theorem refs_payload_read (n : Str) : (templatePayload .read n).refs = [schemaRef n, schemaRef serverError] := by
  simp [templatePayload, J.refs, refsKvs, refKey, J.strVal, refs_response]
theorem refs_payload_destroy (n : Str) : (templatePayload .destroy n).refs = [] := by
  simp [templatePayload, J.refs, refsKvs, refKey, J.strVal]
theorem strVal_payload (k : Kind) (n : Str) : (templatePayload k n).strVal = [] := by
  cases k <;> rfl
theorem kvRefs_bulkBody (n : Str) : kvRefs (bodyName n, bulkBody n) = [schemaRef n] := by
  unfold kvRefs
  have h1 : (bulkBody n).strVal = [] := rfl
  have h2 : (bulkBody n).refs = [schemaRef n] := by
    simp [bulkBody, jsonContent, refObj, J.refs, refsKvs, refKey, J.strVal]
  simp only [h1, h2, ite_self, List.nil_append]

/-- a value of a merged path dict: a template payload for one of the names `N`, or a `$ref`-free list (`parameters`) -/
def TplVal (N : List Str) (v : J) : Prop :=
  (∃ k n, n ∈ N ∧ v = templatePayload k n) ∨ (∃ ps, v = .arr ps ∧ refsList ps = [])

/-- where the refs of a path-dict entry point, given the request bodies `bs` registered for the same dict -/
def RefOK (N : List Str) (bs : List (Str × J)) (r : Str) : Prop :=
  (∃ n, (n ∈ N ∨ n = serverError) ∧ r = schemaRef n) ∨ (∃ n ∈ N, r = bodyPrefix ++ bodyName n ∧ (bodyName n, bulkBody n) ∈ bs)

theorem RefOK.mono {N : List Str} {bs bs' : List (Str × J)} {r : Str} (h : RefOK N bs r) (hs : ∀ b ∈ bs, b ∈ bs') : RefOK N bs' r := by
  rcases h with h | ⟨n, hn, rfl, hb⟩
  · exact Or.inl h
  · exact Or.inr ⟨n, hn, rfl, hs _ hb⟩

theorem bodiesOf_tpl (N : List Str) (hN : ∀ n ∈ N, '/' ∉ n) (pd : Dict) (h : ∀ kv ∈ pd, TplVal N kv.2) :
    ∃ bs, bodiesOf pd = .ok bs ∧ (∀ b ∈ bs, ∃ n ∈ N, b = (bodyName n, bulkBody n)) ∧
      (∀ kv ∈ pd, ∀ r ∈ kvRefs kv, RefOK N bs r) := by
  induction pd with
  | nil => exact ⟨[], rfl, by simp, by simp⟩
  | cons x xs ih =>
    obtain ⟨bs, hbs, hall, hrefs⟩ := ih (fun kv hkv => h kv (List.mem_cons_of_mem _ hkv))
    obtain ⟨k0, v⟩ := x
    rcases h (k0, v) List.mem_cons_self with ⟨k, n, hn, rfl⟩ | ⟨ps, rfl, hps⟩
    · cases k with
      | create =>
        refine ⟨(bodyName n, bulkBody n) :: bs, ?_, ?_, ?_⟩
        · simp only [bodiesOf, bodyOf_create n (hN n hn), hbs]
        · intro b hb
          rcases List.mem_cons.mp hb with rfl | hb
          · exact ⟨n, hn, rfl⟩
          · exact hall b hb
        · intro kv hkv r hr
          rcases List.mem_cons.mp hkv with rfl | hkv
          · simp only [kvRefs, strVal_payload, ite_self, List.nil_append, refs_payload_create] at hr
            simp only [List.mem_cons, List.mem_nil_iff, or_false] at hr
            rcases hr with rfl | rfl | rfl
            · exact Or.inl ⟨n, Or.inl hn, rfl⟩
            · exact Or.inl ⟨serverError, Or.inr rfl, rfl⟩
            · exact Or.inr ⟨n, hn, rfl, List.mem_cons_self⟩
          · exact (hrefs kv hkv r hr).mono (fun b hb => List.mem_cons_of_mem _ hb)
      | read =>
        refine ⟨bs, ?_, hall, ?_⟩
        · simp only [bodiesOf, bodyOf_read, hbs]
        · intro kv hkv r hr
          rcases List.mem_cons.mp hkv with rfl | hkv
          · simp only [kvRefs, strVal_payload, ite_self, List.nil_append, refs_payload_read] at hr
            simp only [List.mem_cons, List.mem_nil_iff, or_false] at hr
            rcases hr with rfl | rfl
            · exact Or.inl ⟨n, Or.inl hn, rfl⟩
            · exact Or.inl ⟨serverError, Or.inr rfl, rfl⟩
          · exact hrefs kv hkv r hr
      | destroy =>
        refine ⟨bs, ?_, hall, ?_⟩
        · simp only [bodiesOf, bodyOf_destroy, hbs]
        · intro kv hkv r hr
          rcases List.mem_cons.mp hkv with rfl | hkv
          · simp [kvRefs, strVal_payload, refs_payload_destroy] at hr
          · exact hrefs kv hkv r hr
    · refine ⟨bs, ?_, hall, ?_⟩
      · simp only [bodiesOf, bodyOf_arr, hbs]
      · intro kv hkv r hr
        rcases List.mem_cons.mp hkv with rfl | hkv
        · simp [kvRefs, J.strVal, J.refs, hps] at hr
        · exact hrefs kv hkv r hr

theorem refs_bulkParam (pk o : Str) : (bulkParam pk o).refs = [] := by
  simp [bulkParam, J.refs, refsKvs, refKey, J.strVal]

theorem refsList_routeParams (route o : Str) : refsList (routeParams route o) = [] := by
  unfold routeParams
  induction (List.filter (fun r => startsWith r c!":") (split1 route '/')) with
  | nil => rfl
  | cons x xs ih => simp only [List.map_cons, refsList, refs_bulkParam, List.nil_append]; exact ih

theorem withParams_tpl (N : List Str) (route route' : Str) (pd pd' : Dict) (h : ∀ kv ∈ pd, TplVal N kv.2)
    (hw : withParams route pd = .ok (route', pd')) : ∀ kv ∈ pd', TplVal N kv.2 := by
  unfold withParams at hw
  split at hw
  · dsimp only at hw
    split at hw
    · simp only [Except.ok.injEq, Prod.mk.injEq] at hw
      obtain ⟨_, rfl⟩ := hw
      intro kv hkv
      rcases mem_setKey _ _ _ _ hkv with hk | rfl
      · rcases mem_setKey _ _ _ _ hk with hk | rfl
        · exact h kv hk
        · exact Or.inr ⟨[], rfl, rfl⟩
      · exact Or.inr ⟨_, rfl, refsList_routeParams _ _⟩
    · cases hw
  · simp only [Except.ok.injEq, Prod.mk.injEq] at hw
    obtain ⟨_, rfl⟩ := hw
    exact h

theorem updateD_mem (g : List RouteFn) (pd : Dict) (h : updateD g = .ok pd) : ∀ kv ∈ pd, ∃ r ∈ g, kv.2 = r.payload := by
  match g, h with
  | [a], h =>
    simp only [updateD, Except.ok.injEq] at h; subst h
    intro kv hkv; simp at hkv; subst hkv; exact ⟨a, by simp, rfl⟩
  | [a, b], h =>
    simp only [updateD, Except.ok.injEq] at h; subst h
    intro kv hkv
    rcases mem_setKey _ _ _ _ hkv with hk | rfl
    · simp at hk; subst hk; exact ⟨a, by simp, rfl⟩
    · exact ⟨b, by simp, rfl⟩
  | [], h => simp [updateD] at h
  | _ :: _ :: _ :: _, h => simp [updateD] at h

theorem groupBy_mem (rs : List RouteFn) : ∀ kg ∈ groupBy rs, ∀ r ∈ kg.2, r ∈ rs := by
  induction rs with
  | nil => intro kg h; cases h
  | cons r rs ih =>
    intro kg hkg x hx
    simp only [groupBy] at hkg
    split at hkg
    · rename_i k g rest heq
      split at hkg
      · rcases List.mem_cons.mp hkg with rfl | hkg
        · rcases List.mem_cons.mp hx with rfl | hx
          · exact List.mem_cons_self
          · exact List.mem_cons_of_mem _ (ih (k, g) (by rw [heq]; exact List.mem_cons_self) x hx)
        · exact List.mem_cons_of_mem _ (ih kg (by rw [heq]; exact List.mem_cons_of_mem _ hkg) x hx)
      · rcases List.mem_cons.mp hkg with rfl | hkg
        · simp at hx; subst hx; exact List.mem_cons_self
        · exact List.mem_cons_of_mem _ (ih kg (by rw [heq]; exact hkg) x hx)
    · simp at hkg; subst hkg; simp at hx; subst hx; exact List.mem_cons_self

theorem mem_update {α} (d b : List (Str × α)) : ∀ kv ∈ update d b, kv ∈ d ∨ kv ∈ b := by
  unfold update
  induction b generalizing d with
  | nil => intro kv h; exact Or.inl h
  | cons x xs ih =>
    intro kv h
    rw [List.foldl_cons] at h
    rcases ih _ kv h with h | h
    · rcases mem_setKey _ _ _ _ h with h | rfl
      · exact Or.inl h
      · exact Or.inr List.mem_cons_self
    · exact Or.inr (List.mem_cons_of_mem _ h)

theorem hasKey_update {α} (d b : List (Str × α)) (n : Str) (h : hasKey d n = true) : hasKey (update d b) n = true := by
  unfold update
  induction b generalizing d with
  | nil => exact h
  | cons x xs ih => rw [List.foldl_cons]; exact ih _ (hasKey_setKey _ _ _ _ h)

theorem hasKey_update_mem {α} (d b : List (Str × α)) (kv : Str × α) (h : kv ∈ b) : hasKey (update d b) kv.1 = true := by
  unfold update
  induction b generalizing d with
  | nil => cases h
  | cons x xs ih =>
    rw [List.foldl_cons]
    rcases List.mem_cons.mp h with rfl | h
    · exact hasKey_update (α := α) _ xs _ (hasKey_setKey_self _ _ _)
    · exact ih _ h

/-! the `schemas` dict of `openapi_bulk` -/

theorem mem_foldl_tables (ts : List Table) (acc : Dict) :
    ∀ kv ∈ ts.foldl (fun (acc : Dict) t => setKey acc (bulkKey t.name) (.obj t.schema)) acc,
      kv ∈ acc ∨ ∃ t ∈ ts, kv = (bulkKey t.name, .obj t.schema) := by
  induction ts generalizing acc with
  | nil => intro kv h; exact Or.inl h
  | cons t ts ih =>
    intro kv h
    rw [List.foldl_cons] at h
    rcases ih _ kv h with h | ⟨t', ht', rfl⟩
    · rcases mem_setKey _ _ _ _ h with h | rfl
      · exact Or.inl h
      · exact Or.inr ⟨t, List.mem_cons_self, rfl⟩
    · exact Or.inr ⟨t', List.mem_cons_of_mem _ ht', rfl⟩

theorem hasKey_foldl_tables (ts : List Table) (acc : Dict) (t : Table) (ht : t ∈ ts) :
    hasKey (ts.foldl (fun (acc : Dict) t => setKey acc (bulkKey t.name) (.obj t.schema)) acc) (bulkKey t.name) = true := by
  induction ts generalizing acc with
  | nil => cases ht
  | cons x xs ih =>
    rw [List.foldl_cons]
    rcases List.mem_cons.mp ht with rfl | ht
    · have : ∀ (l : List Table) (a : Dict) (n : Str), hasKey a n = true →
          hasKey (l.foldl (fun (acc : Dict) t => setKey acc (bulkKey t.name) (.obj t.schema)) a) n = true := by
        intro l
        induction l with
        | nil => intro a n h; exact h
        | cons y ys ihy => intro a n h; rw [List.foldl_cons]; exact ihy _ _ (hasKey_setKey _ _ _ _ h)
      exact this xs _ _ (hasKey_setKey_self _ _ _)
    · exact ih _ ht

theorem hasKey_map_fst {α β} (d : List (Str × α)) (f : Str × α → β) (n : Str) :
    hasKey (d.map (fun kv => (kv.1, f kv))) n = hasKey d n := by
  simp [hasKey, List.any_map, Function.comp_def]

theorem hasKey_bulkSchemas_table (ts : List Table) (t : Table) (ht : t ∈ ts) : hasKey (bulkSchemas ts) (bulkKey t.name) = true := by
  unfold bulkSchemas
  rw [hasKey_map_fst (f := fun kv => stripSchema kv.2)]
  exact hasKey_setKey _ _ _ _ (hasKey_foldl_tables ts [] t ht)

theorem hasKey_bulkSchemas_server (ts : List Table) : hasKey (bulkSchemas ts) serverError = true := by
  unfold bulkSchemas
  rw [hasKey_map_fst (f := fun kv => stripSchema kv.2)]
  exact hasKey_setKey_self _ _ _

theorem bulkSchemas_norefs (ts : List Table) (h : ∀ t ∈ ts, refsKvs t.schema = []) : ∀ kv ∈ bulkSchemas ts, kvRefs kv = [] := by
  intro kv hkv
  unfold bulkSchemas at hkv
  simp only [List.mem_map] at hkv
  obtain ⟨x, hx, rfl⟩ := hkv
  rcases mem_setKey _ _ _ _ hx with hx | rfl
  · rcases mem_foldl_tables ts [] x hx with hx | ⟨t, ht, rfl⟩
    · cases hx
    · simp only [stripSchema, kvRefs_obj]; exact refsKvs_filter_nil _ _ (h t ht)
  · simp only [stripSchema, kvRefs_obj]; decide

theorem construct_ok (k route' : Str) (pd pd' : Dict) (bodies : List (Str × J))
    (h : construct k pd = .ok (route', pd', bodies)) : withParams k pd = .ok (route', pd') ∧ bodiesOf pd' = .ok bodies := by
  unfold construct at h
  split at h
  · rename_i r1 p1 hw
    split at h
    · rename_i bs hb
      simp only [Except.ok.injEq, Prod.mk.injEq] at h
      obtain ⟨rfl, rfl, rfl⟩ := h
      exact ⟨hw, hb⟩
    · cases h
  · cases h

theorem Res.mono_bodies {rb rb' S paths paths' : Dict} {r : Str} (h : Res ⟨rb, S, paths⟩ r)
    (hk : ∀ n, hasKey rb n = true → hasKey rb' n = true) : Res ⟨rb', S, paths'⟩ r := by
  rcases h with ⟨n, rfl, hn, hs⟩ | ⟨n, rfl, hn, hb⟩
  · exact Or.inl ⟨n, rfl, hn, hs⟩
  · exact Or.inr ⟨n, rfl, hn, hk n hb⟩

theorem bulkGroups_inv (N : List Str) (hN : ∀ n ∈ N, '/' ∉ n) (S : Dict)
    (hS : ∀ n ∈ N, hasKey S n = true) (hSE : hasKey S serverError = true) (hSr : ∀ kv ∈ S, kvRefs kv = [])
    (groups : List (Str × List RouteFn))
    (hg : ∀ kg ∈ groups, ∀ r ∈ kg.2, ∃ k n, n ∈ N ∧ r.payload = templatePayload k n)
    (rb paths rb' paths' : Dict) (hrun : bulkGroups groups rb paths = .ok (rb', paths'))
    (hinv : Inv ⟨rb, S, paths⟩) : Inv ⟨rb', S, paths'⟩ := by
  induction groups generalizing rb paths with
  | nil =>
    simp only [bulkGroups, Except.ok.injEq, Prod.mk.injEq] at hrun
    obtain ⟨rfl, rfl⟩ := hrun
    exact hinv
  | cons kg rest ih =>
    obtain ⟨k, g⟩ := kg
    simp only [bulkGroups] at hrun
    split at hrun
    · rename_i pd hpd
      split at hrun
      · rename_i route' pd' bodies hc
        obtain ⟨hw, hb⟩ := construct_ok _ _ _ _ _ hc
        have htpl : ∀ kv ∈ pd, TplVal N kv.2 := by
          intro kv hkv
          obtain ⟨r, hr, hp⟩ := updateD_mem g pd hpd kv hkv
          obtain ⟨k', n, hn, hpay⟩ := hg (k, g) List.mem_cons_self r hr
          exact Or.inl ⟨k', n, hn, by rw [hp, hpay]⟩
        have htpl' := withParams_tpl N _ _ _ _ htpl hw
        obtain ⟨bs, hbs, hall, hrefs⟩ := bodiesOf_tpl N hN pd' htpl'
        rw [hb] at hbs
        simp only [Except.ok.injEq] at hbs
        subst hbs
        refine ih (fun kg hkg => hg kg (List.mem_cons_of_mem _ hkg)) _ _ hrun ?_
        have hmono : ∀ n, hasKey rb n = true → hasKey (update rb bodies) n = true := fun n h => hasKey_update _ _ _ h
        have hschema : ∀ n, (n ∈ N ∨ n = serverError) → Res ⟨update rb bodies, S, setKey paths route' (.obj pd')⟩ (schemaRef n) := by
          intro n hn
          rcases hn with hn | rfl
          · exact Or.inl ⟨n, rfl, hN n hn, hS n hn⟩
          · exact Or.inl ⟨serverError, rfl, slash_not_mem_serverError, hSE⟩
        refine ⟨?_, ?_, hSr, hSE⟩
        · intro kv hkv r hr
          rcases mem_setKey _ _ _ _ hkv with hk | rfl
          · exact (hinv.paths kv hk r hr).mono_bodies hmono
          · rw [kvRefs_obj, mem_refsKvs] at hr
            obtain ⟨kv', hkv', hr'⟩ := hr
            rcases hrefs kv' hkv' r hr' with ⟨n, hn, rfl⟩ | ⟨n, hn, rfl, hmem⟩
            · exact hschema n hn
            · exact Or.inr ⟨bodyName n, rfl, slash_not_mem_bodyName n (hN n hn), hasKey_update_mem rb bodies _ hmem⟩
        · intro kv hkv r hr
          rcases mem_update _ _ kv hkv with hk | hk
          · exact (hinv.bodies kv hk r hr).mono_bodies hmono
          · obtain ⟨n, hn, rfl⟩ := hall kv hk
            rw [kvRefs_bulkBody] at hr
            simp only [List.mem_singleton] at hr
            subst hr
            exact hschema n (Or.inl hn)
      · cases hrun
    · cases hrun

theorem genRoutes_payload (a : Str) (e : Entry) (r : RouteFn) (h : r ∈ genRoutes a e) : ∃ k, r.payload = templatePayload k e.name := by
  unfold genRoutes at h
  simp only [List.mem_append] at h
  rcases h with (h | h) | h <;> split at h <;> simp at h <;> subst h
  · exact ⟨.create, rfl⟩
  · exact ⟨.read, rfl⟩
  · exact ⟨.destroy, rfl⟩

theorem bulkDoc_closed (app : Str) (ts : List Table) (es : List Entry) (routes : List RouteFn)
    (hroutes : ∀ r ∈ routes, ∃ e ∈ es, ∃ a, r ∈ genRoutes a e)
    (hname : ∀ e ∈ es, '/' ∉ e.name)
    (hkey : ∀ e ∈ es, ∃ t ∈ ts, bulkKey t.name = e.name)
    (hschema : ∀ t ∈ ts, refsKvs t.schema = [])
    (d : Doc) (h : bulkDoc app ts routes = .ok d) : Inv d := by
  unfold bulkDoc at h
  split at h
  · rename_i rb paths hrun
    simp only [Except.ok.injEq] at h
    subst h
    refine bulkGroups_inv (es.map (·.name)) ?_ (bulkSchemas ts) ?_ (hasKey_bulkSchemas_server ts) (bulkSchemas_norefs ts hschema)
      _ ?_ [] [] rb paths hrun ?_
    · intro n hn
      simp only [List.mem_map] at hn
      obtain ⟨e, he, rfl⟩ := hn
      exact hname e he
    · intro n hn
      simp only [List.mem_map] at hn
      obtain ⟨e, he, rfl⟩ := hn
      obtain ⟨t, ht, hk⟩ := hkey e he
      rw [← hk]; exact hasKey_bulkSchemas_table ts t ht
    · intro kg hkg r hr
      have hmem : r ∈ routes := by
        have := groupBy_mem _ kg hkg r hr
        unfold ofApp at this
        exact (List.mem_filter.mp this).1
      obtain ⟨e, he, a, hgen⟩ := hroutes r hmem
      obtain ⟨k, hk⟩ := genRoutes_payload a e r hgen
      exact ⟨k, e.name, List.mem_map_of_mem (f := (·.name)) he, hk⟩
    · exact ⟨fun kv hkv => (nomatch hkv), fun kv hkv => (nomatch hkv), bulkSchemas_norefs ts hschema, hasKey_bulkSchemas_server ts⟩
  · cases h

/-! ### request bodies referenced by operations -/

theorem rbRefs_postItem (n : Str) : rbRefsItem (.obj [(c!"post", postOp n)]) = [bodyRef n] := rfl

theorem rbRefs_itemFor (e : Entry) : rbRefsItem (.obj (itemFor e)) = [] := by
  rw [itemFor_eq]
  cases e.crud.contains 'R' <;> cases e.crud.contains 'D' <;> rfl

def RInv (d : Doc) : Prop :=
  ∀ kv ∈ d.paths, ∀ r ∈ rbRefsItem kv.2, ∃ n, r = bodyPrefix ++ n ∧ hasKey d.requestBodies n = true

theorem step_rinv (d : Doc) (e : Entry) (h : RInv d) : RInv (step d e) := by
  have hold : ∀ kv ∈ d.paths, ∀ r ∈ rbRefsItem kv.2, ∃ n, r = bodyPrefix ++ n ∧ hasKey (step d e).requestBodies n = true := by
    intro kv hkv r hr
    obtain ⟨n, rfl, hk⟩ := h kv hkv r hr
    refine ⟨n, rfl, ?_⟩
    simp only [OpenApi.step]; split
    · exact hasKey_setKey _ _ _ _ hk
    · exact hk
  have h1 : ∀ kv ∈ (if e.crud.contains 'C' then setKey d.paths e.route (.obj [(c!"post", postOp e.name)]) else d.paths),
      ∀ r ∈ rbRefsItem kv.2, ∃ n, r = bodyPrefix ++ n ∧ hasKey (step d e).requestBodies n = true := by
    split
    · rename_i hc
      intro kv hkv r hr
      rcases mem_setKey _ _ _ _ hkv with hk | rfl
      · exact hold kv hk r hr
      · rw [rbRefs_postItem] at hr
        simp only [List.mem_singleton] at hr
        subst hr
        refine ⟨bodyName e.name, rfl, ?_⟩
        simp only [OpenApi.step, hc, if_true]; exact hasKey_setKey_self _ _ _
    · exact hold
  intro kv hkv r hr
  simp only [OpenApi.step] at hkv
  split at hkv
  · rcases mem_setKey _ _ _ _ hkv with hk | rfl
    · exact h1 kv hk r hr
    · rw [rbRefs_itemFor] at hr; cases hr
  · exact h1 kv hkv r hr

theorem openapiDoc_rinv (es : List Entry) : RInv (openapiDoc es) := by
  unfold openapiDoc
  suffices ∀ d, RInv d → RInv (es.foldl step d) from this init (by intro kv hkv; simp [init] at hkv)
  induction es with
  | nil => intro d hd; exact hd
  | cons e es ih => intro d hd; exact ih _ (step_rinv d e hd)

theorem requestBodyRefs_toJ (d : Doc) : requestBodyRefs d.toJ = d.paths.flatMap (fun kv => rbRefsItem kv.2) := by
  unfold requestBodyRefs; rw [pathsOf_toJ]

/-! ### `str.split("/")`, `"/".join`, `str.find` on route and summary strings -/

theorem splitOn1_append_sep (sep : Char) (s t acc : Str) :
    splitOn1 sep (s ++ sep :: t) acc = splitOn1 sep s acc ++ splitOn1 sep t [] := by
  induction s generalizing acc with
  | nil => simp [splitOn1]
  | cons c cs ih =>
    by_cases hc : (c == sep) = true
    · simp [splitOn1, hc, ih]
    · simp [splitOn1, hc, ih]

theorem splitOn1_ne_nil (sep : Char) (s acc : Str) : splitOn1 sep s acc ≠ [] := by
  induction s generalizing acc with
  | nil => simp [splitOn1]
  | cons c cs ih =>
    by_cases hc : (c == sep) = true
    · simp [splitOn1, hc]
    · simp only [splitOn1, hc, Bool.false_eq_true, ↓reduceIte]; exact ih _

theorem join_cons_cons (sep x y : Str) (ys : List Str) : join sep (x :: y :: ys) = x ++ sep ++ join sep (y :: ys) := by
  rw [join]; simp

theorem join_cons_ne (sep x : Str) (xs : List Str) (h : xs ≠ []) : join sep (x :: xs) = x ++ sep ++ join sep xs := by
  cases xs with
  | nil => exact absurd rfl h
  | cons y ys => exact join_cons_cons sep x y ys

theorem join_splitOn1 (sep : Char) (s acc : Str) : join [sep] (splitOn1 sep s acc) = acc.reverse ++ s := by
  induction s generalizing acc with
  | nil => simp [splitOn1, join]
  | cons c cs ih =>
    by_cases hc : (c == sep) = true
    · have : c = sep := by simpa using hc
      subst this
      simp only [splitOn1, beq_self_eq_true, ↓reduceIte]
      rw [join_cons_ne _ _ _ (splitOn1_ne_nil _ _ _), ih]; simp
    · simp only [splitOn1, hc, Bool.false_eq_true, ↓reduceIte]
      rw [ih]; simp

theorem join_append_singleton (sep x : Str) (A : List Str) (h : A ≠ []) : join sep (A ++ [x]) = join sep A ++ sep ++ x := by
  induction A with
  | nil => exact absurd rfl h
  | cons a as ih =>
    cases as with
    | nil => simp [join]
    | cons b bs =>
      rw [List.cons_append, join_cons_ne _ _ _ (by simp), ih (by simp), join_cons_cons]
      simp [List.append_assoc]

theorem mem_splitOn1_chars (sep : Char) (s acc : Str) : ∀ seg ∈ splitOn1 sep s acc, ∀ c ∈ seg, c ∈ acc ∨ c ∈ s := by
  induction s generalizing acc with
  | nil => intro seg hseg c hc; simp [splitOn1] at hseg; subst hseg; exact Or.inl (by simpa using hc)
  | cons x xs ih =>
    intro seg hseg c hc
    by_cases hx : (x == sep) = true
    · simp only [splitOn1, hx, ↓reduceIte, List.mem_cons] at hseg
      rcases hseg with rfl | hseg
      · exact Or.inl (by simpa using hc)
      · rcases ih [] seg hseg c hc with h | h
        · cases h
        · exact Or.inr (List.mem_cons_of_mem _ h)
    · simp only [splitOn1, hx, Bool.false_eq_true, ↓reduceIte] at hseg
      rcases ih _ seg hseg c hc with h | h
      · rcases List.mem_cons.mp h with rfl | h
        · exact Or.inr List.mem_cons_self
        · exact Or.inl h
      · exact Or.inr (List.mem_cons_of_mem _ h)

theorem startsWith_colon_false (seg : Str) (h : ':' ∉ seg) : startsWith seg c!":" = false := by
  cases seg with
  | nil => rfl
  | cons c cs =>
    have : (':' == c) = false := by
      rw [beq_eq_false_iff_ne]; intro e; exact h (e ▸ List.mem_cons_self)
    simp [startsWith, List.isPrefixOf, this]

theorem segs_no_colon (route : Str) (h : ':' ∉ route) : ∀ seg ∈ split1 route '/', startsWith seg c!":" = false := by
  intro seg hseg
  apply startsWith_colon_false
  intro hc
  rcases mem_splitOn1_chars '/' route [] seg hseg ':' hc with h' | h'
  · cases h'
  · exact h h'

theorem split1_bottleItem (route id : Str) (hi : '/' ∉ id) :
    split1 (bottleItem route id) '/' = split1 route '/' ++ [':' :: id] := by
  have e : bottleItem route id = route ++ '/' :: (':' :: id) := by simp [bottleItem]
  have hi' : '/' ∉ (':' :: id) := by
    intro h; rcases List.mem_cons.mp h with h | h
    · cases h
    · exact hi h
  unfold split1
  rw [e, splitOn1_append_sep, splitOn1_noSep '/' _ [] hi']; simp

theorem map_id_of_forall {α} (f : α → α) (l : List α) (h : ∀ x ∈ l, f x = x) : l.map f = l := by
  induction l with
  | nil => rfl
  | cons a as ih => simp [h a List.mem_cons_self, ih (fun x hx => h x (List.mem_cons_of_mem _ hx))]

theorem convertRoute_bottleItem (route id : Str) (hr : ':' ∉ route) (hi : '/' ∉ id) :
    convertRoute (bottleItem route id) = itemRoute route id := by
  unfold convertRoute
  rw [split1_bottleItem route id hi, List.map_append,
    map_id_of_forall _ (split1 route '/') (fun seg hseg => by simp [segs_no_colon route hr seg hseg])]
  simp only [List.map_cons, List.map_nil]
  rw [join_append_singleton _ _ _ (by unfold split1; exact splitOn1_ne_nil _ _ _)]
  have : join c!"/" (split1 route '/') = route := by
    have := join_splitOn1 '/' route []
    simpa [split1] using this
  rw [this]
  simp [startsWith, List.isPrefixOf, itemRoute]

theorem filter_nil_of_forall {α} (p : α → Bool) (l : List α) (h : ∀ x ∈ l, p x = false) : l.filter p = [] := by
  induction l with
  | nil => rfl
  | cons a as ih => simp [h a List.mem_cons_self, ih (fun x hx => h x (List.mem_cons_of_mem _ hx))]

theorem routeParams_bottleItem (route id o : Str) (hr : ':' ∉ route) (hi : '/' ∉ id) :
    routeParams (bottleItem route id) o = [bulkParam id o] := by
  unfold routeParams
  rw [split1_bottleItem route id hi, List.filter_append, filter_nil_of_forall _ _ (segs_no_colon route hr)]
  simp [startsWith, List.isPrefixOf]

theorem contains_single (c : Char) (s : Str) : Py.contains s [c] = decide (c ∈ s) := by
  induction s with
  | nil => simp [Py.contains]
  | cons x xs ih =>
    simp only [Py.contains, List.isPrefixOf, ih, List.mem_cons]
    by_cases hx : c = x
    · simp [hx]
    · have : (c == x) = false := by rw [beq_eq_false_iff_ne]; exact hx
      simp [this, hx]

theorem contains_colon_route (route : Str) (h : ':' ∉ route) : Py.contains route c!":" = false := by
  rw [contains_single]; simpa using h

theorem contains_colon_bottleItem (route id : Str) : Py.contains (bottleItem route id) c!":" = true := by
  rw [contains_single]; simp [bottleItem]

theorem findFrom_skip (c : Char) (name t : Str) (i : Nat) (h : c ∉ name) :
    findFrom [c] (name ++ c :: t) i = some (i + name.length) := by
  induction name generalizing i with
  | nil => simp [findFrom, List.isPrefixOf]
  | cons x xs ih =>
    have hx : (c == x) = false := by
      rw [beq_eq_false_iff_ne]; intro e; exact h (e ▸ List.mem_cons_self)
    simp only [List.cons_append, findFrom, List.isPrefixOf, hx, Bool.false_and, Bool.false_eq_true, ↓reduceIte]
    rw [ih _ (fun m => h (List.mem_cons_of_mem _ m))]
    simp; omega

theorem clampIdx_nat (n k : Nat) (h : k ≤ n) : clampIdx n (k : Int) = k := by
  unfold clampIdx
  simp only [show ¬ ((k : Int) < 0) by omega, ↓reduceIte]
  split
  · omega
  · simp

/-- the text between the first two backticks of `pre ++ "`" ++ name ++ "`" ++ post` is `name` -/
theorem backtick_name (pre name post : Str) (hpre : '`' ∉ pre) (hname : '`' ∉ name) :
    let s := pre ++ '`' :: (name ++ '`' :: post)
    slice s (some (findI s c!"`" + 1)) (some (findAtI s c!"`" (findI s c!"`" + 1).toNat)) = name := by
  intro s
  have h1 : findI s c!"`" = (pre.length : Int) := by
    simp only [findI, find, s, findFrom_skip '`' pre _ 0 hpre]; simp
  have h2 : ((pre.length : Int) + 1).toNat = pre.length + 1 := by omega
  have hlen : s.length = pre.length + 1 + (name.length + 1 + post.length) := by simp [s]; omega
  have h3 : findAtI s c!"`" (pre.length + 1) = ((pre.length + 1 + name.length : Nat) : Int) := by
    have hd : s.drop (pre.length + 1) = name ++ '`' :: post := by
      simp only [s]
      rw [show pre ++ '`' :: (name ++ '`' :: post) = (pre ++ ['`']) ++ (name ++ '`' :: post) by simp]
      rw [List.drop_left' (by simp)]
    simp only [findAtI, findAt, show ¬ (pre.length + 1 > s.length) by omega, ↓reduceIte, hd,
      findFrom_skip '`' name post _ hname]
  rw [h1, h2, h3]
  unfold slice
  simp only
  rw [show ((pre.length : Int) + 1) = ((pre.length + 1 : Nat) : Int) by omega,
    clampIdx_nat _ _ (by omega), clampIdx_nat _ _ (by omega)]
  simp only [s]
  rw [show pre ++ '`' :: (name ++ '`' :: post) = (pre ++ ['`']) ++ (name ++ '`' :: post) by simp]
  rw [List.drop_left' (by simp)]
  rw [show pre.length + 1 + name.length - (pre.length + 1) = name.length by omega]
  simp

theorem backtick_name' (s pre name post : Str) (hs : s = pre ++ '`' :: (name ++ '`' :: post)) (hpre : '`' ∉ pre) (hname : '`' ∉ name) :
    slice s (some (findI s c!"`" + 1)) (some (findAtI s c!"`" (findI s c!"`" + 1).toNat)) = name := by
  subst hs; exact backtick_name pre name post hpre hname

/-! ### `openapi_bulk` on the routes `gen_routes` writes: the document, explicitly -/

theorem objectName_get (n : Str) (rest : Dict) (hn : '`' ∉ n) (hne : n ≠ []) :
    objectName ((c!"get", templatePayload .read n) :: rest) = .ok n := by
  have hs : aObject n = c!"A " ++ '`' :: (n ++ '`' :: c!" object.") := by simp [aObject]
  simp only [objectName, lookup, templatePayload, beq_self_eq_true, ↓reduceIte,
    show (c!"responses" == c!"summary") = false by decide, Bool.false_eq_true]
  rw [backtick_name' _ _ n _ hs (by decide) hn]
  cases n with
  | nil => exact absurd rfl hne
  | cons c cs => rfl

theorem objectName_delete (n : Str) (hn : '`' ∉ n) (hne : n ≠ []) :
    objectName [(c!"delete", templatePayload .destroy n), (c!"parameters", .arr [])] = .ok n := by
  have hs : c!"Delete one `" ++ n ++ c!"`" = c!"Delete one " ++ '`' :: (n ++ '`' :: []) := by simp
  simp only [objectName, lookup, templatePayload, beq_self_eq_true, ↓reduceIte,
    show (c!"delete" == c!"get") = false by decide, show (c!"parameters" == c!"get") = false by decide,
    show (c!"responses" == c!"summary") = false by decide, Bool.false_eq_true]
  rw [backtick_name' _ _ n _ hs (by decide) hn]
  cases n with
  | nil => exact absurd rfl hne
  | cons c cs => rfl

def postFn (app : Str) (e : Entry) : RouteFn :=
  { app := app, path := e.route, method := c!"post", payload := templatePayload .create e.name }
def getFn (app : Str) (e : Entry) : RouteFn :=
  { app := app, path := bottleItem e.route e.id, method := c!"get", payload := templatePayload .read e.name }
def delFn (app : Str) (e : Entry) : RouteFn :=
  { app := app, path := bottleItem e.route e.id, method := c!"delete", payload := templatePayload .destroy e.name }

theorem genRoutes_eq (app : Str) (e : Entry) : genRoutes app e =
    (if e.crud.contains 'C' then [postFn app e] else []) ++ (if e.crud.contains 'R' then [getFn app e] else []) ++
      (if e.crud.contains 'D' then [delFn app e] else []) := rfl

/-- the hypotheses on one (name, route, id, crud) under which the bulk document is computed explicitly -/
structure GoodEntry (e : Entry) : Prop where
  name_slash : '/' ∉ e.name
  name_tick : '`' ∉ e.name
  name_ne : e.name ≠ []
  route_colon : ':' ∉ e.route
  id_slash : '/' ∉ e.id

instance (e : Entry) : Decidable (GoodEntry e) :=
  decidable_of_iff ('/' ∉ e.name ∧ '`' ∉ e.name ∧ e.name ≠ [] ∧ ':' ∉ e.route ∧ '/' ∉ e.id)
    ⟨fun ⟨a, b, c, d, f⟩ => ⟨a, b, c, d, f⟩, fun ⟨a, b, c, d, f⟩ => ⟨a, b, c, d, f⟩⟩

/-- the path item `openapi_bulk` builds at `route/{id}` -/
def bulkItem (e : Entry) : Dict :=
  (if e.crud.contains 'R' then [(c!"get", templatePayload .read e.name)] else []) ++
  (if e.crud.contains 'D' then [(c!"delete", templatePayload .destroy e.name)] else []) ++
  [(c!"parameters", .arr [bulkParam e.id e.name])]

/-- the `groupby` groups of the routes of one entry -/
def entryGroups (app : Str) (e : Entry) : List (Str × List RouteFn) :=
  (if e.crud.contains 'C' then [(e.route, [postFn app e])] else []) ++
  (if e.crud.contains 'R' || e.crud.contains 'D' then
    [(bottleItem e.route e.id, (if e.crud.contains 'R' then [getFn app e] else []) ++ (if e.crud.contains 'D' then [delFn app e] else []))]
   else [])

/-- effect of one entry's groups on (request_bodies, paths) -/
def afterEntry (st : Dict × Dict) (e : Entry) : Dict × Dict :=
  let st1 : Dict × Dict := if e.crud.contains 'C' then
      (update st.1 [(bodyName e.name, bulkBody e.name)], setKey st.2 e.route (.obj [(c!"post", templatePayload .create e.name)]))
    else st
  if e.crud.contains 'R' || e.crud.contains 'D' then (st1.1, setKey st1.2 (itemRoute e.route e.id) (.obj (bulkItem e))) else st1

theorem construct_post (e : Entry) (h : GoodEntry e) :
    construct e.route [(c!"post", templatePayload .create e.name)] =
      .ok (e.route, [(c!"post", templatePayload .create e.name)], [(bodyName e.name, bulkBody e.name)]) := by
  simp only [construct, withParams, contains_colon_route e.route h.route_colon, Bool.false_eq_true, ↓reduceIte, bodiesOf,
    bodyOf_create e.name h.name_slash]

theorem construct_item (app : Str) (e : Entry) (h : GoodEntry e) (hRD : (e.crud.contains 'R' || e.crud.contains 'D') = true) :
    ∃ pd, updateD ((if e.crud.contains 'R' then [getFn app e] else []) ++ (if e.crud.contains 'D' then [delFn app e] else [])) = .ok pd ∧
      construct (bottleItem e.route e.id) pd = .ok (itemRoute e.route e.id, bulkItem e, []) := by
  have hc := contains_colon_bottleItem e.route e.id
  have hcv := convertRoute_bottleItem e.route e.id h.route_colon h.id_slash
  have hrp := routeParams_bottleItem e.route e.id e.name h.route_colon h.id_slash
  unfold bulkItem
  cases hR : e.crud.contains 'R' <;> cases hD : e.crud.contains 'D' <;> simp only [hR, hD] at hRD
  · cases hRD
  · refine ⟨[(c!"delete", templatePayload .destroy e.name)], rfl, ?_⟩
    have hpd0 : setKey [(c!"delete", templatePayload .destroy e.name)] c!"parameters" (.arr []) =
        [(c!"delete", templatePayload .destroy e.name), (c!"parameters", .arr [])] := rfl
    simp only [construct, withParams, hc, ↓reduceIte, hpd0, objectName_delete e.name h.name_tick h.name_ne, hcv, hrp]
    rfl
  · refine ⟨[(c!"get", templatePayload .read e.name)], rfl, ?_⟩
    have hpd0 : setKey [(c!"get", templatePayload .read e.name)] c!"parameters" (.arr []) =
        [(c!"get", templatePayload .read e.name), (c!"parameters", .arr [])] := rfl
    simp only [construct, withParams, hc, ↓reduceIte, hpd0, objectName_get e.name _ h.name_tick h.name_ne, hcv, hrp]
    rfl
  · refine ⟨[(c!"get", templatePayload .read e.name), (c!"delete", templatePayload .destroy e.name)], rfl, ?_⟩
    have hpd0 : setKey [(c!"get", templatePayload .read e.name), (c!"delete", templatePayload .destroy e.name)] c!"parameters" (.arr []) =
        [(c!"get", templatePayload .read e.name), (c!"delete", templatePayload .destroy e.name), (c!"parameters", .arr [])] := rfl
    simp only [construct, withParams, hc, ↓reduceIte, hpd0, objectName_get e.name _ h.name_tick h.name_ne, hcv, hrp]
    rfl

theorem bulkGroups_entry (app : Str) (e : Entry) (G : List (Str × List RouteFn)) (rb paths : Dict) (h : GoodEntry e) :
    bulkGroups (entryGroups app e ++ G) rb paths = bulkGroups G (afterEntry (rb, paths) e).1 (afterEntry (rb, paths) e).2 := by
  have hup : updateD [postFn app e] = .ok [(c!"post", templatePayload .create e.name)] := rfl
  unfold entryGroups afterEntry
  cases hC : e.crud.contains 'C' <;> cases hRD : (e.crud.contains 'R' || e.crud.contains 'D')
  · simp
  · obtain ⟨pd, hu, hc⟩ := construct_item app e h hRD
    simp only [Bool.false_eq_true, ↓reduceIte, List.nil_append, List.cons_append, bulkGroups, hu, hc]
    rfl
  · simp only [↓reduceIte, Bool.false_eq_true, List.append_nil, List.cons_append, List.nil_append, bulkGroups, hup, construct_post e h]
  · obtain ⟨pd, hu, hc⟩ := construct_item app e h hRD
    simp only [↓reduceIte, List.cons_append, List.nil_append, bulkGroups, hup, construct_post e h, hu, hc]
    rfl

/-! `groupby` on generated routes -/

def headPath (rs : List RouteFn) : Option Str := rs.head?.map (·.path)

theorem groupBy_head (rs : List RouteFn) : (groupBy rs).head?.map (·.1) = headPath rs := by
  cases rs with
  | nil => rfl
  | cons r rs =>
    simp only [groupBy, headPath, List.head?_cons, Option.map_some]
    split
    · split
      · rename_i hk; simp only [List.head?_cons, Option.map_some]; congr 1; simpa using hk
      · rfl
    · rfl

theorem groupBy_cons_ne (r : RouteFn) (rs : List RouteFn) (h : headPath rs ≠ some r.path) :
    groupBy (r :: rs) = (r.path, [r]) :: groupBy rs := by
  have hh := groupBy_head rs
  simp only [groupBy]
  split
  · rename_i k g rest heq
    rw [heq] at hh
    simp only [List.head?_cons, Option.map_some] at hh
    have hk : (k == r.path) = false := by
      rw [beq_eq_false_iff_ne]; intro e; exact h (by rw [← hh, e])
    simp only [hk, Bool.false_eq_true, ↓reduceIte]
    rw [heq]
  · rename_i heq; rw [heq]

theorem groupBy_cons_eq (r r' : RouteFn) (rs : List RouteFn) (hp : r'.path = r.path) (h : headPath rs ≠ some r.path) :
    groupBy (r :: r' :: rs) = (r.path, [r, r']) :: groupBy rs := by
  rw [groupBy, groupBy_cons_ne r' rs (by rw [hp]; exact h)]
  simp [hp]

theorem headPath_append_of_ne (a b : List RouteFn) (h : a ≠ []) : headPath (a ++ b) = headPath a := by
  cases a with
  | nil => exact absurd rfl h
  | cons x xs => rfl

theorem groupBy_entry (app : Str) (e : Entry) (rest : List RouteFn)
    (h1 : headPath rest ≠ some e.route) (h2 : headPath rest ≠ some (bottleItem e.route e.id))
    (h3 : e.route ≠ bottleItem e.route e.id) :
    groupBy (genRoutes app e ++ rest) = entryGroups app e ++ groupBy rest := by
  rw [genRoutes_eq]; unfold entryGroups
  have hpg : (getFn app e).path = bottleItem e.route e.id := rfl
  have hpd : (delFn app e).path = bottleItem e.route e.id := rfl
  have hpp : (postFn app e).path = e.route := rfl
  cases e.crud.contains 'C' <;> cases e.crud.contains 'R' <;> cases e.crud.contains 'D' <;>
    simp only [Bool.false_eq_true, ↓reduceIte, List.nil_append, List.append_nil, List.cons_append, Bool.or_false, Bool.or_true,
      Bool.or_self]
  · rw [groupBy_cons_ne _ _ (by rw [hpd]; exact h2), hpd]
  · rw [groupBy_cons_ne _ _ (by rw [hpg]; exact h2), hpg]
  · rw [groupBy_cons_eq _ _ _ (by rw [hpd, hpg]) (by rw [hpg]; exact h2), hpg]
  · rw [groupBy_cons_ne _ _ (by rw [hpp]; exact h1), hpp]
  · rw [groupBy_cons_ne (postFn app e) _ (by
      rw [hpp]; simp only [headPath, List.head?_cons, Option.map_some, hpd]; intro hc; exact h3 (Option.some.inj hc).symm),
      groupBy_cons_ne (delFn app e) _ (by rw [hpd]; exact h2), hpp, hpd]
  · rw [groupBy_cons_ne (postFn app e) _ (by
      rw [hpp]; simp only [headPath, List.head?_cons, Option.map_some, hpg]; intro hc; exact h3 (Option.some.inj hc).symm),
      groupBy_cons_ne (getFn app e) _ (by rw [hpg]; exact h2), hpp, hpg]
  · rw [groupBy_cons_ne (postFn app e) _ (by
      rw [hpp]; simp only [headPath, List.head?_cons, Option.map_some, hpg]; intro hc; exact h3 (Option.some.inj hc).symm),
      groupBy_cons_eq (getFn app e) (delFn app e) rest (by rw [hpd, hpg]) (by rw [hpg]; exact h2), hpp, hpg]

/-- the decorator paths an entry's routes use -/
def bottleKeys (e : Entry) : List Str := [e.route, bottleItem e.route e.id]

theorem headPath_genRoutes (app : Str) (e : Entry) (p : Str) (h : headPath (genRoutes app e) = some p) : p ∈ bottleKeys e := by
  rw [genRoutes_eq] at h
  revert h
  cases e.crud.contains 'C' <;> cases e.crud.contains 'R' <;> cases e.crud.contains 'D' <;>
    simp only [headPath, postFn, getFn, delFn, bottleKeys, Bool.false_eq_true, ↓reduceIte, List.nil_append, List.append_nil,
      List.cons_append, List.head?_cons, List.head?_nil, Option.map_some, Option.map_none, Option.some.injEq, List.mem_cons,
      List.mem_nil_iff, or_false] <;> intro h <;> first | exact Or.inl h.symm | exact Or.inr h.symm | cases h

theorem headPath_flatMap (app : Str) (es : List Entry) (p : Str) (h : headPath (es.flatMap (genRoutes app)) = some p) :
    p ∈ es.flatMap bottleKeys := by
  induction es with
  | nil => simp [headPath] at h
  | cons e es ih =>
    simp only [List.flatMap_cons] at h ⊢
    by_cases hne : genRoutes app e = []
    · rw [hne, List.nil_append] at h
      exact List.mem_append_right _ (ih h)
    · rw [headPath_append_of_ne _ _ hne] at h
      exact List.mem_append_left _ (headPath_genRoutes app e p h)

theorem groupBy_flatMap (app : Str) (es : List Entry) (hnd : (es.flatMap bottleKeys).Nodup) :
    groupBy (es.flatMap (genRoutes app)) = es.flatMap (entryGroups app) := by
  induction es with
  | nil => rfl
  | cons e es ih =>
    simp only [List.flatMap_cons] at hnd ⊢
    rw [List.nodup_append] at hnd
    obtain ⟨he, hes, hdis⟩ := hnd
    have h3 : e.route ≠ bottleItem e.route e.id := by
      simp only [bottleKeys, List.nodup_cons, List.mem_singleton] at he; exact he.1
    rw [groupBy_entry app e _ ?_ ?_ h3, ih hes]
    · intro hc
      exact hdis e.route (by simp [bottleKeys]) _ (headPath_flatMap app es _ hc) rfl
    · intro hc
      exact hdis (bottleItem e.route e.id) (by simp [bottleKeys]) _ (headPath_flatMap app es _ hc) rfl

theorem bulkGroups_entries (app : Str) (es : List Entry) (rb paths : Dict) (h : ∀ e ∈ es, GoodEntry e) :
    bulkGroups (es.flatMap (entryGroups app)) rb paths = .ok (es.foldl afterEntry (rb, paths)) := by
  induction es generalizing rb paths with
  | nil => rfl
  | cons e es ih =>
    rw [List.flatMap_cons, bulkGroups_entry app e _ rb paths (h e List.mem_cons_self), ih _ _ (fun x hx => h x (List.mem_cons_of_mem _ hx))]
    rfl

theorem ofApp_genRoutes (app : Str) (es : List Entry) : ofApp app (es.flatMap (genRoutes app)) = es.flatMap (genRoutes app) := by
  unfold ofApp
  apply List.filter_eq_self.mpr
  intro r hr
  simp only [List.mem_flatMap] at hr
  obtain ⟨e, _, hr⟩ := hr
  rw [genRoutes_eq] at hr
  simp only [List.mem_append] at hr
  rcases hr with (hr | hr) | hr <;> split at hr <;> simp at hr <;> subst hr <;> simp [postFn, getFn, delFn]

/-- the entries `openapi_bulk` writes into `paths` for one model -/
def bulkPathItems (e : Entry) : Dict :=
  (if e.crud.contains 'C' then [(e.route, .obj [(c!"post", templatePayload .create e.name)])] else []) ++
  (if e.crud.contains 'R' || e.crud.contains 'D' then [(itemRoute e.route e.id, .obj (bulkItem e))] else [])

theorem afterEntry_paths (st : Dict × Dict) (e : Entry) (h1 : e.route ∉ keys st.2) (h2 : itemRoute e.route e.id ∉ keys st.2)
    (h3 : e.route ≠ itemRoute e.route e.id) : (afterEntry st e).2 = st.2 ++ bulkPathItems e := by
  unfold afterEntry bulkPathItems
  cases e.crud.contains 'C' <;> cases (e.crud.contains 'R' || e.crud.contains 'D') <;>
    simp only [Bool.false_eq_true, ↓reduceIte, List.append_nil, List.nil_append]
  · rw [setKey_fresh _ _ _ h2]
  · rw [setKey_fresh _ _ _ h1]
  · rw [setKey_fresh _ _ _ h1, setKey_fresh, List.append_assoc, List.singleton_append]
    simp only [keys, List.map_append, List.map_cons, List.map_nil, List.mem_append, List.mem_singleton, not_or]
    exact ⟨h2, fun h => h3 h.symm⟩

theorem keys_bulkPathItems_sublist (e : Entry) : (keys (bulkPathItems e)).Sublist (pathKeys e) := by
  unfold bulkPathItems pathKeys keys
  cases e.crud.contains 'C' <;> cases (e.crud.contains 'R' || e.crud.contains 'D') <;> simp

theorem foldl_afterEntry_paths (es : List Entry) (st : Dict × Dict) (hnd : (keys st.2 ++ es.flatMap pathKeys).Nodup) :
    (es.foldl afterEntry st).2 = st.2 ++ es.flatMap bulkPathItems := by
  induction es generalizing st with
  | nil => simp
  | cons e es ih =>
    simp only [List.flatMap_cons, pathKeys] at hnd
    have hnd' := hnd
    rw [List.nodup_append] at hnd
    obtain ⟨_, hr, hdis⟩ := hnd
    have h1 : e.route ∉ keys st.2 := fun hm => hdis _ hm _ (by simp) rfl
    have h2 : itemRoute e.route e.id ∉ keys st.2 := fun hm => hdis _ hm _ (by simp) rfl
    have h3 : e.route ≠ itemRoute e.route e.id := by
      intro heq
      simp only [List.cons_append, List.nil_append, List.nodup_cons, List.mem_cons] at hr
      exact hr.1 (Or.inl heq)
    have hp := afterEntry_paths st e h1 h2 h3
    rw [List.foldl_cons, ih (afterEntry st e) ?_, hp, List.flatMap_cons, List.append_assoc]
    rw [hp]
    refine List.Nodup.sublist ?_ hnd'
    simp only [keys, List.map_append, List.append_assoc]
    apply List.Sublist.append (List.Sublist.refl _)
    exact List.Sublist.append (keys_bulkPathItems_sublist e) (List.Sublist.refl _)

theorem methodsOf_bulkItem (e : Entry) : methodsOf (.obj (bulkItem e)) =
    (if e.crud.contains 'R' then [c!"get"] else []) ++ (if e.crud.contains 'D' then [c!"delete"] else []) := by
  unfold bulkItem
  cases e.crud.contains 'R' <;> cases e.crud.contains 'D' <;> rfl

theorem opsOfPaths_bulkPathItems (e : Entry) : opsOfPaths (bulkPathItems e) = requested e := by
  unfold bulkPathItems requested
  rw [opsOfPaths_append, List.append_assoc]
  congr 1
  · split
    · simp [opsOfPaths, methodsOf, keys, httpMethods]
    · simp [opsOfPaths]
  · have hm := methodsOf_bulkItem e
    revert hm
    cases e.crud.contains 'R' <;> cases e.crud.contains 'D' <;> intro hm <;>
      simp [opsOfPaths, hm]

theorem opsOfPaths_flatMap (es : List Entry) : opsOfPaths (es.flatMap bulkPathItems) = es.flatMap requested := by
  induction es with
  | nil => rfl
  | cons e es ih => rw [List.flatMap_cons, List.flatMap_cons, opsOfPaths_append, opsOfPaths_bulkPathItems, ih]

/-- **the bulk document of generated routes, explicitly** -/
theorem bulkDoc_generated (app : Str) (ts : List Table) (es : List Entry) (hgood : ∀ e ∈ es, GoodEntry e)
    (hb : (es.flatMap bottleKeys).Nodup) (hp : (es.flatMap pathKeys).Nodup) :
    ∃ rb, bulkDoc app ts (es.flatMap (genRoutes app)) =
      .ok { requestBodies := rb, schemas := bulkSchemas ts, paths := es.flatMap bulkPathItems } := by
  unfold bulkDoc
  rw [ofApp_genRoutes, groupBy_flatMap app es hb, bulkGroups_entries app es [] [] hgood]
  refine ⟨(es.foldl afterEntry ([], [])).1, ?_⟩
  have := foldl_afterEntry_paths es ([], []) (by simpa [keys] using hp)
  simp only [List.nil_append] at this
  simp only [this]

/-! ### routes → `openapi_bulk` reads back what `emit.openapi` writes -/

theorem eqv_post (n : Str) : (templatePayload .create n).eqv (postOp n) = true := by
  simp [templatePayload, postOp, J.eqv, eqvKvs, lookup, response, jsonContent, refObj, refKey]

theorem eqv_postItem (n : Str) : (J.obj [(c!"post", templatePayload .create n)]).eqv (.obj [(c!"post", postOp n)]) = true := by
  simp [J.eqv, eqvKvs, lookup, eqv_post]

theorem eqv_item (e : Entry) : (J.obj (bulkItem e)).eqv (.obj (itemFor e)) = true := by
  rw [itemFor_eq]; unfold bulkItem
  cases e.crud.contains 'R' <;> cases e.crud.contains 'D' <;>
  simp [templatePayload, getOp, deleteOp, bulkParam, paramObj, J.eqv, eqvKvs, eqvList, lookup, response, jsonContent, refObj, refKey]

theorem eqv_body (n : Str) : (bulkBody n).eqv (bodyObj n) = true := by
  simp [bulkBody, bodyObj, J.eqv, eqvKvs, lookup, jsonContent, refObj, refKey]

theorem dictEqv_append (a b c d : Dict) (h1 : dictEqv a b = true) (h2 : dictEqv c d = true) : dictEqv (a ++ c) (b ++ d) = true := by
  induction a generalizing b with
  | nil => cases b with
    | nil => exact h2
    | cons y ys => simp [dictEqv] at h1
  | cons x xs ih =>
    cases b with
    | nil => obtain ⟨k, v⟩ := x; simp [dictEqv] at h1
    | cons y ys =>
      obtain ⟨k, v⟩ := x; obtain ⟨k', v'⟩ := y
      simp only [dictEqv, Bool.and_eq_true] at h1
      simp only [List.cons_append, dictEqv, Bool.and_eq_true]
      exact ⟨h1.1, ih ys h1.2⟩

theorem dictEqv_any (a b : Dict) (k : Str) (h : dictEqv a b = true) : a.any (·.1 == k) = b.any (·.1 == k) := by
  induction a generalizing b with
  | nil => cases b with
    | nil => rfl
    | cons y ys => simp [dictEqv] at h
  | cons x xs ih =>
    cases b with
    | nil => obtain ⟨k, v⟩ := x; simp [dictEqv] at h
    | cons y ys =>
      obtain ⟨k1, v⟩ := x; obtain ⟨k2, v'⟩ := y
      simp only [dictEqv, Bool.and_eq_true, beq_iff_eq] at h
      obtain ⟨⟨rfl, _⟩, h3⟩ := h
      simp only [List.any_cons, ih ys h3]

theorem dictEqv_map_replace (a b : Dict) (k : Str) (v w : J) (h : dictEqv a b = true) (hv : v.eqv w = true) :
    dictEqv (a.map (fun kv => if kv.1 == k then (k, v) else kv)) (b.map (fun kv => if kv.1 == k then (k, w) else kv)) = true := by
  induction a generalizing b with
  | nil => cases b with
    | nil => rfl
    | cons y ys => simp [dictEqv] at h
  | cons x xs ih =>
    cases b with
    | nil => obtain ⟨k, v⟩ := x; simp [dictEqv] at h
    | cons y ys =>
      obtain ⟨k1, v1⟩ := x; obtain ⟨k2, v2⟩ := y
      simp only [dictEqv, Bool.and_eq_true, beq_iff_eq] at h
      obtain ⟨⟨rfl, hvv⟩, h3⟩ := h
      simp only [List.map_cons]
      by_cases hk : (k1 == k) = true
      · simp only [hk, ↓reduceIte, dictEqv, beq_self_eq_true, hv, Bool.true_and]; exact ih ys h3
      · simp only [hk, Bool.false_eq_true, ↓reduceIte, dictEqv, beq_self_eq_true, hvv, Bool.true_and]; exact ih ys h3

theorem dictEqv_setKey (a b : Dict) (k : Str) (v w : J) (h : dictEqv a b = true) (hv : v.eqv w = true) :
    dictEqv (setKey a k v) (setKey b k w) = true := by
  unfold setKey
  rw [← dictEqv_any a b k h]
  split
  · exact dictEqv_map_replace a b k v w h hv
  · exact dictEqv_append a b _ _ h (by simp [dictEqv, hv])

/-- what `emit.openapi` writes into `paths` for one entry (fresh keys, `crud` ⊆ "CRUD") -/
def emitPathItems (e : Entry) : Dict :=
  (if e.crud.contains 'C' then [(e.route, .obj [(c!"post", postOp e.name)])] else []) ++
  [(itemRoute e.route e.id, .obj (itemFor e))]

theorem paths_foldl (es : List Entry) (d : Doc) (hnd : (keys d.paths ++ es.flatMap pathKeys).Nodup)
    (hok : ∀ e ∈ es, crudOK e.crud = true) : (es.foldl step d).paths = d.paths ++ es.flatMap emitPathItems := by
  induction es generalizing d with
  | nil => simp
  | cons e es ih =>
    simp only [List.flatMap_cons, pathKeys] at hnd
    have hnd' := hnd
    rw [List.nodup_append] at hnd
    obtain ⟨_, hr, hdis⟩ := hnd
    have h1 : e.route ∉ keys d.paths := fun hm => hdis _ hm _ (by simp) rfl
    have h2 : itemRoute e.route e.id ∉ keys d.paths := fun hm => hdis _ hm _ (by simp) rfl
    have h3 : e.route ≠ itemRoute e.route e.id := by
      intro heq
      simp only [List.cons_append, List.nil_append, List.nodup_cons, List.mem_cons] at hr
      exact hr.1 (Or.inl heq)
    have hoke := hok e List.mem_cons_self
    rw [List.foldl_cons, ih (step d e) ?_ (fun x hx => hok x (List.mem_cons_of_mem _ hx)), step_paths_fresh d e h1 h2 h3 hoke]
    · simp [emitPathItems, List.append_assoc]
    · refine List.Nodup.sublist ?_ hnd'
      have := keys_step_sublist d e h1 h2 h3 hoke
      have := List.Sublist.append this (List.Sublist.refl (es.flatMap pathKeys))
      simpa [pathKeys, List.append_assoc] using this

theorem withOps_emitPathItems (e : Entry) : withOps (emitPathItems e) =
    (if e.crud.contains 'C' then [(e.route, .obj [(c!"post", postOp e.name)])] else []) ++
    (if e.crud.contains 'R' || e.crud.contains 'D' then [(itemRoute e.route e.id, .obj (itemFor e))] else []) := by
  unfold withOps emitPathItems
  rw [List.filter_append]
  congr 1
  · split
    · simp [methodsOf, keys, httpMethods]
    · rfl
  · have hm := methodsOf_itemFor e
    revert hm
    cases e.crud.contains 'R' <;> cases e.crud.contains 'D' <;> intro hm <;> simp [hm]

theorem withOps_flatMap (es : List Entry) : withOps (es.flatMap emitPathItems) = es.flatMap (fun e => withOps (emitPathItems e)) := by
  unfold withOps
  induction es with
  | nil => rfl
  | cons e es ih => simp only [List.flatMap_cons, List.filter_append, ih]

theorem dictEqv_pathItems (e : Entry) : dictEqv (bulkPathItems e) (withOps (emitPathItems e)) = true := by
  rw [withOps_emitPathItems]; unfold bulkPathItems
  apply dictEqv_append
  · split
    · simp [dictEqv, eqv_postItem]
    · rfl
  · split
    · simp [dictEqv, eqv_item]
    · rfl

theorem dictEqv_flatMap (es : List Entry) : dictEqv (es.flatMap bulkPathItems) (withOps (es.flatMap emitPathItems)) = true := by
  rw [withOps_flatMap]
  induction es with
  | nil => rfl
  | cons e es ih =>
    simp only [List.flatMap_cons]
    exact dictEqv_append _ _ _ _ (dictEqv_pathItems e) ih

theorem afterEntry_bodies (st : Dict × Dict) (e : Entry) :
    (afterEntry st e).1 = if e.crud.contains 'C' then setKey st.1 (bodyName e.name) (bulkBody e.name) else st.1 := by
  unfold afterEntry
  cases e.crud.contains 'C' <;> cases (e.crud.contains 'R' || e.crud.contains 'D') <;> rfl

theorem bodies_foldl (es : List Entry) (st : Dict × Dict) (d : Doc) (h : dictEqv st.1 d.requestBodies = true) :
    dictEqv (es.foldl afterEntry st).1 (es.foldl step d).requestBodies = true := by
  induction es generalizing st d with
  | nil => exact h
  | cons e es ih =>
    rw [List.foldl_cons, List.foldl_cons]
    apply ih
    rw [afterEntry_bodies]
    simp only [OpenApi.step]
    split
    · exact dictEqv_setKey _ _ _ _ _ h (eqv_body e.name)
    · exact h

theorem bodiesOfDoc_toJ (d : Doc) : bodiesOfDoc d.toJ = d.requestBodies := by
  simp [bodiesOfDoc, Doc.toJ, getPath_obj_cons, getPath_nil, lookup]

/-- the bulk document of generated routes, explicitly, together with its request bodies -/
theorem bulkDoc_generated' (app : Str) (ts : List Table) (es : List Entry) (hgood : ∀ e ∈ es, GoodEntry e)
    (hb : (es.flatMap bottleKeys).Nodup) (hp : (es.flatMap pathKeys).Nodup) :
    bulkDoc app ts (es.flatMap (genRoutes app)) =
      .ok { requestBodies := (es.foldl afterEntry ([], [])).1, schemas := bulkSchemas ts, paths := es.flatMap bulkPathItems } := by
  unfold bulkDoc
  rw [ofApp_genRoutes, groupBy_flatMap app es hb, bulkGroups_entries app es [] [] hgood]
  have := foldl_afterEntry_paths es ([], []) (by simpa [keys] using hp)
  simp only [List.nil_append] at this
  simp only [this]

theorem declared_bulkItem (e : Entry) : declared (.obj (bulkItem e)) = [e.id] := by
  unfold bulkItem
  cases e.crud.contains 'R' <;> cases e.crud.contains 'D' <;> rfl

theorem pinv_bulkPathItems (es : List Entry) (h : ∀ e ∈ es, '{' ∉ e.route ∧ '}' ∉ e.id) : PInv (es.flatMap bulkPathItems) := by
  intro kv hkv x hx
  simp only [List.mem_flatMap] at hkv
  obtain ⟨e, he, hkv⟩ := hkv
  obtain ⟨hr, hi⟩ := h e he
  unfold bulkPathItems at hkv
  simp only [List.mem_append] at hkv
  rcases hkv with hkv | hkv <;> split at hkv <;> simp at hkv <;> subst hkv
  · rw [tparams_route _ hr] at hx; cases hx
  · rw [tparams_itemRoute _ _ hr hi] at hx
    rw [declared_bulkItem]; exact hx

/-! ### `upsert_routes` layouts and the primary-key choice of `gen_routes` -/

/-- whatever way the entries are spread over routes files and upsert batches, `openapi_bulk` sees the routes of all of
    them, in file order -/
theorem routes_of_layout (app : Str) (files : List (List Entry)) :
    files.flatMap (fun bs => visibleRoutes (bs.map (genRoutes app))) = files.flatten.flatMap (genRoutes app) := by
  induction files with
  | nil => rfl
  | cons bs rest ih =>
    rw [List.flatMap_cons, ih, List.flatten_cons, List.flatMap_append]
    simp only [visibleRoutes, List.flatMap_def]

/-- is this the `[PK]` column? -/
def isPkDoc (q : Str × Option Str) : Bool :=
  match q.2 with
  | some d => startsWith d c!"[PK]"
  | none => false

theorem pickPkGo_spec (ps : List (Str × Option Str)) (dflt : Str) :
    pickPkGo ps dflt = .ok (match ps.find? isPkDoc with | some q => q.1 | none => dflt) := by
  induction ps with
  | nil => rfl
  | cons q qs ih =>
    obtain ⟨k, d⟩ := q
    cases d with
    | none => simp only [pickPkGo, ih, List.find?_cons, isPkDoc]
    | some doc =>
      by_cases h : startsWith doc c!"[PK]" = true
      · simp only [pickPkGo, h, ↓reduceIte, List.find?_cons, isPkDoc]
      · simp only [pickPkGo, h, Bool.false_eq_true, ↓reduceIte, ih, List.find?_cons, isPkDoc]

/-! ### `parse_model` / `infer`: which nodes of the models file become tables -/

def SrcNode.table? : SrcNode → Option Table
  | .classDef _ t => t
  | .call _ _ t => t

/-- every class whose plain-name bases contain `Base` — in ANY position — is kept -/
theorem discover_keeps_base_class (nodes : List SrcNode) (ts : List Table) (h : discover nodes = .ok ts)
    (bases : List Str) (t : Table) (hn : SrcNode.classDef bases (some t) ∈ nodes) (hb : c!"Base" ∈ bases) : t ∈ ts := by
  induction nodes generalizing ts with
  | nil => cases hn
  | cons n rest ih =>
    simp only [discover] at h
    split at h
    · cases h
    · rename_i k hk
      rcases List.mem_cons.mp hn with rfl | hmem
      · have hany : (bases.any (· == c!"Base")) = true := by
          rw [List.any_eq_true]; exact ⟨_, hb, by simp⟩
        simp only [inferNode, hany, ↓reduceIte, Except.ok.injEq] at hk
        subst hk
        simp only [beq_self_eq_true, Bool.true_or, ↓reduceIte] at h
        split at h
        · simp only [Except.ok.injEq] at h; subst h; exact List.mem_cons_self
        · cases h
      · split at h
        · split at h
          · cases h
          · rename_i t' _
            split at h
            · rename_i ts' hts
              simp only [Except.ok.injEq] at h; subst h
              exact List.mem_cons_of_mem _ (ih ts' hts hmem)
            · cases h
        · exact ih ts h hmem

/-- every table produced comes from a node -/
theorem discover_sub (nodes : List SrcNode) (ts : List Table) (h : discover nodes = .ok ts) :
    ∀ t ∈ ts, ∃ n ∈ nodes, n.table? = some t := by
  induction nodes generalizing ts with
  | nil => simp only [discover, Except.ok.injEq] at h; subst h; intro t ht; cases ht
  | cons n rest ih =>
    simp only [discover] at h
    split at h
    · cases h
    · split at h
      · split at h
        · cases h
        · rename_i t' ht'
          split at h
          · rename_i ts' hts
            simp only [Except.ok.injEq] at h; subst h
            intro t ht
            rcases List.mem_cons.mp ht with rfl | ht
            · refine ⟨n, List.mem_cons_self, ?_⟩
              cases n <;> exact ht'
            · obtain ⟨m, hm, hmt⟩ := ih ts' hts t ht
              exact ⟨m, List.mem_cons_of_mem _ hm, hmt⟩
          · cases h
      · intro t ht
        obtain ⟨m, hm, hmt⟩ := ih ts h t ht
        exact ⟨m, List.mem_cons_of_mem _ hm, hmt⟩

end OpenApi
