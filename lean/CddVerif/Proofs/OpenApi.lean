import CddVerif.Model.OpenApi
/-!
# Lemmas about the OpenAPI model (property C16)

Helper lemmas only; the property theorems are in `CddVerif/Properties/C16.lean`.
-/
set_option linter.unusedSimpArgs false
namespace OpenApi
open Py

/-! ### association lists as Python dicts -/

theorem any_setKey {α} (d : List (Str × α)) (k n : Str) (v : α) (h : d.any (·.1 == n) = true) :
    (setKey d k v).any (·.1 == n) = true := by
  unfold setKey; split
  · simp only [List.any_map, List.any_eq_true, Function.comp] at *
    obtain ⟨x, hx, hxn⟩ := h
    refine ⟨x, hx, ?_⟩
    by_cases hk : (x.1 == k) = true
    · have : x.1 = k := by simpa using hk
      simp [← this, hxn]
    · simp [hk, hxn]
  · simp only [List.any_append, h, Bool.true_or]

theorem any_setKey_self {α} (d : List (Str × α)) (k : Str) (v : α) : (setKey d k v).any (·.1 == k) = true := by
  unfold setKey; split
  · rename_i h
    simp only [List.any_map, List.any_eq_true, Function.comp] at *
    obtain ⟨x, hx, hxk⟩ := h
    exact ⟨x, hx, by simp [hxk]⟩
  · simp

theorem mem_setKey {α} (d : List (Str × α)) (k : Str) (v : α) (p : Str × α) (h : p ∈ setKey d k v) :
    p ∈ d ∨ p = (k, v) := by
  unfold setKey at h; split at h
  · simp only [List.mem_map] at h
    obtain ⟨x, hx, rfl⟩ := h
    split
    · exact Or.inr rfl
    · exact Or.inl hx
  · simp only [List.mem_append, List.mem_singleton] at h; exact h

theorem hasKey_setKey {α} (d : List (Str × α)) (k n : Str) (v : α) (h : hasKey d n = true) : hasKey (setKey d k v) n = true :=
  any_setKey d k n v h
theorem hasKey_setKey_self {α} (d : List (Str × α)) (k : Str) (v : α) : hasKey (setKey d k v) k = true :=
  any_setKey_self d k v

theorem setKey_fresh {α} (d : List (Str × α)) (k : Str) (v : α) (h : k ∉ keys d) : setKey d k v = d ++ [(k, v)] := by
  unfold setKey
  have : d.any (·.1 == k) = false := by
    rw [Bool.eq_false_iff]; intro hc
    simp only [List.any_eq_true, beq_iff_eq] at hc
    obtain ⟨x, hx, rfl⟩ := hc
    exact h (List.mem_map_of_mem (f := (·.1)) hx)
  simp [this]

theorem keys_setKey_fresh {α} (d : List (Str × α)) (k : Str) (v : α) (h : k ∉ keys d) : keys (setKey d k v) = keys d ++ [k] := by
  rw [setKey_fresh d k v h]; simp [keys]

theorem lookup_isSome {α} (d : List (Str × α)) (k : Str) : (lookup d k).isSome = hasKey d k := by
  induction d with
  | nil => simp [lookup, hasKey]
  | cons x xs ih =>
    obtain ⟨k', v⟩ := x
    simp only [lookup, hasKey, List.any_cons]
    by_cases hk : (k' == k) = true
    · simp [hk]
    · simp only [hk, Bool.false_eq_true, ↓reduceIte, Bool.false_or]; exact ih

/-! ### `$ref` collection -/

/-- the refs contributed by one key/value pair -/
def kvRefs (kv : Str × J) : List Str :=
  (if kv.1 = refKey then kv.2.strVal else []) ++ kv.2.refs

theorem refsKvs_cons (kv : Str × J) (rest : Dict) : refsKvs (kv :: rest) = kvRefs kv ++ refsKvs rest := by
  obtain ⟨k, v⟩ := kv; simp [refsKvs, kvRefs]

theorem refsKvs_append (a b : Dict) : refsKvs (a ++ b) = refsKvs a ++ refsKvs b := by
  induction a with
  | nil => simp [refsKvs]
  | cons x xs ih => rw [List.cons_append, refsKvs_cons, refsKvs_cons, ih, List.append_assoc]

theorem mem_refsKvs (r : Str) (kvs : Dict) : r ∈ refsKvs kvs ↔ ∃ kv ∈ kvs, r ∈ kvRefs kv := by
  induction kvs with
  | nil => simp [refsKvs]
  | cons x xs ih => rw [refsKvs_cons, List.mem_append, ih]; simp

theorem kvRefs_obj (k : Str) (o : Dict) : kvRefs (k, .obj o) = refsKvs o := by
  simp [kvRefs, J.refs, J.strVal]

theorem refsKvs_filter_nil (p : Str × J → Bool) (kvs : Dict) (h : refsKvs kvs = []) : refsKvs (kvs.filter p) = [] := by
  induction kvs with
  | nil => simp [refsKvs]
  | cons x xs ih =>
    rw [refsKvs_cons, List.append_eq_nil_iff] at h
    rw [List.filter_cons]; split
    · rw [refsKvs_cons, h.1, ih h.2]; rfl
    · exact ih h.2

/-! ### refs of the fixed templates -/

theorem refs_response (desc r : Str) : (response desc r).refs = [r] := by
  simp [response, jsonContent, refObj, J.refs, refsKvs, refKey, J.strVal]

theorem refs_postOp (name : Str) : (postOp name).refs = [bodyRef name, schemaRef name, schemaRef serverError] := by
  simp [postOp, J.refs, refsKvs, refKey, J.strVal, refs_response]

theorem refs_getOp (name : Str) : (getOp name).refs = [schemaRef name, schemaRef serverError] := by
  simp [getOp, J.refs, refsKvs, refKey, J.strVal, refs_response]

theorem refs_deleteOp (name : Str) : (deleteOp name).refs = [] := by
  simp [deleteOp, J.refs, refsKvs, refKey, J.strVal]

theorem refs_paramObj (id name : Str) : (paramObj id name).refs = [] := by
  simp [paramObj, J.refs, refsKvs, refKey, J.strVal]

theorem refs_bodyObj (name : Str) : (bodyObj name).refs = [schemaRef name] := by
  simp [bodyObj, jsonContent, refObj, J.refs, refsKvs, refKey, J.strVal]

/-! ### JSON pointers -/

theorem splitOn1_noSep (sep : Char) (s acc : Str) (h : sep ∉ s) : splitOn1 sep s acc = [acc.reverse ++ s] := by
  induction s generalizing acc with
  | nil => simp [splitOn1]
  | cons c cs ih =>
    have hc : (c == sep) = false := by
      rw [beq_eq_false_iff_ne]; intro e; exact h (e ▸ List.mem_cons_self)
    have hcs : sep ∉ cs := fun m => h (List.mem_cons_of_mem _ m)
    simp [splitOn1, hc, ih _ hcs]

theorem pointer_schemaRef (n : Str) (h : '/' ∉ n) : pointer (schemaRef n) = some [c!"components", c!"schemas", n] := by
  simp [pointer, schemaRef, schemaPrefix, startsWith, List.isPrefixOf, split1, splitOn1, splitOn1_noSep '/' n _ h]

theorem pointer_bodyPrefix (n : Str) (h : '/' ∉ n) : pointer (bodyPrefix ++ n) = some [c!"components", c!"requestBodies", n] := by
  simp [pointer, bodyPrefix, startsWith, List.isPrefixOf, split1, splitOn1, splitOn1_noSep '/' n _ h]

theorem getPath_obj_cons (kvs : Dict) (k : Str) (ks : List Str) :
    getPath (.obj kvs) (k :: ks) = (lookup kvs k).bind (fun v => getPath v ks) := by
  rw [getPath]

theorem getPath_nil (j : J) : getPath j [] = some j := by cases j <;> rfl

theorem getPath_obj_one (kvs : Dict) (k : Str) : getPath (.obj kvs) [k] = lookup kvs k := by
  rw [getPath_obj_cons]; cases lookup kvs k <;> simp [getPath]

theorem getPath_toJ_schemas (d : Doc) (n : Str) : getPath d.toJ [c!"components", c!"schemas", n] = lookup d.schemas n := by
  simp [Doc.toJ, getPath_obj_cons, getPath_nil, lookup]

theorem getPath_toJ_bodies (d : Doc) (n : Str) : getPath d.toJ [c!"components", c!"requestBodies", n] = lookup d.requestBodies n := by
  simp [Doc.toJ, getPath_obj_cons, getPath_nil, lookup]

theorem resolves_schemaRef (d : Doc) (n : Str) (h : '/' ∉ n) : resolves d.toJ (schemaRef n) = hasKey d.schemas n := by
  simp only [resolves, pointer_schemaRef n h, getPath_toJ_schemas, lookup_isSome]

theorem resolves_bodyRef (d : Doc) (n : Str) (h : '/' ∉ n) : resolves d.toJ (bodyPrefix ++ n) = hasKey d.requestBodies n := by
  simp only [resolves, pointer_bodyPrefix n h, getPath_toJ_bodies, lookup_isSome]

theorem refs_toJ (d : Doc) : d.toJ.refs = refsKvs d.requestBodies ++ refsKvs d.schemas ++ refsKvs d.paths := by
  simp [Doc.toJ, J.refs, refsKvs, refKey, J.strVal]

theorem pathsOf_toJ (d : Doc) : pathsOf d.toJ = d.paths := by
  simp [pathsOf, Doc.toJ, getPath_obj_one, lookup]

/-! ### the closure invariant of `step` -/

/-- shape of a reference that resolves in the document built from `d` -/
def Res (d : Doc) (r : Str) : Prop :=
  (∃ n, r = schemaRef n ∧ '/' ∉ n ∧ hasKey d.schemas n = true) ∨
  (∃ n, r = bodyPrefix ++ n ∧ '/' ∉ n ∧ hasKey d.requestBodies n = true)

theorem Res.resolves {d : Doc} {r : Str} (h : Res d r) : resolves d.toJ r = true := by
  rcases h with ⟨n, rfl, hn, hk⟩ | ⟨n, rfl, hn, hk⟩
  · rw [resolves_schemaRef d n hn]; exact hk
  · rw [resolves_bodyRef d n hn]; exact hk

structure Inv (d : Doc) : Prop where
  paths : ∀ kv ∈ d.paths, ∀ r ∈ kvRefs kv, Res d r
  bodies : ∀ kv ∈ d.requestBodies, ∀ r ∈ kvRefs kv, Res d r
  schemas : ∀ kv ∈ d.schemas, kvRefs kv = []
  server : hasKey d.schemas serverError = true

theorem Inv.closed {d : Doc} (h : Inv d) : Closed d.toJ := by
  intro r hr
  rw [refs_toJ, List.mem_append, List.mem_append, mem_refsKvs, mem_refsKvs, mem_refsKvs] at hr
  rcases hr with (⟨kv, hkv, hr⟩ | ⟨kv, hkv, hr⟩) | ⟨kv, hkv, hr⟩
  · exact (h.bodies kv hkv r hr).resolves
  · rw [h.schemas kv hkv] at hr; cases hr
  · exact (h.paths kv hkv r hr).resolves

theorem Res.step {d : Doc} {r : Str} (e : Entry) (h : Res d r) : Res (step d e) r := by
  rcases h with ⟨n, rfl, hn, hk⟩ | ⟨n, rfl, hn, hk⟩
  · exact Or.inl ⟨n, rfl, hn, hasKey_setKey _ _ _ _ hk⟩
  · refine Or.inr ⟨n, rfl, hn, ?_⟩
    simp only [OpenApi.step]; split
    · exact hasKey_setKey _ _ _ _ hk
    · exact hk

theorem slash_not_mem_serverError : '/' ∉ serverError := by decide

theorem slash_not_mem_bodyName (n : Str) (h : '/' ∉ n) : '/' ∉ bodyName n := by
  simp [bodyName, h]

theorem itemFor_eq (e : Entry) : itemFor e =
    [(c!"parameters", .arr [paramObj e.id e.name])] ++ (if e.crud.contains 'R' then [(c!"get", getOp e.name)] else []) ++
      (if e.crud.contains 'D' then [(c!"delete", deleteOp e.name)] else []) := by
  unfold itemFor
  cases e.crud.contains 'R' <;> cases e.crud.contains 'D' <;> rfl

theorem mem_refs_itemFor (e : Entry) (r : Str) (h : r ∈ refsKvs (itemFor e)) :
    r = schemaRef e.name ∨ r = schemaRef serverError := by
  rw [itemFor_eq, refsKvs_append, refsKvs_append] at h
  simp only [List.mem_append] at h
  rcases h with (h | h) | h
  · simp [refsKvs, J.refs, refsList, refKey, J.strVal, refs_paramObj] at h
  · split at h
    · simp [refsKvs, refKey, refs_getOp] at h; exact h
    · simp [refsKvs] at h
  · split at h
    · simp [refsKvs, refKey, refs_deleteOp] at h
    · simp [refsKvs] at h

theorem step_inv (d : Doc) (e : Entry) (hn : '/' ∉ e.name) (hm : refsKvs e.model = []) (h : Inv d) : Inv (step d e) := by
  have hname : Res (step d e) (schemaRef e.name) :=
    Or.inl ⟨e.name, rfl, hn, by simp only [OpenApi.step]; exact hasKey_setKey_self _ _ _⟩
  have hse : Res (step d e) (schemaRef serverError) :=
    Or.inl ⟨serverError, rfl, slash_not_mem_serverError, hasKey_setKey _ _ _ _ h.server⟩
  refine ⟨?_, ?_, ?_, hasKey_setKey _ _ _ _ h.server⟩
  · -- paths
    have hold : ∀ kv ∈ d.paths, ∀ r ∈ kvRefs kv, Res (step d e) r := fun kv hkv r hr => (h.paths kv hkv r hr).step e
    have h1 : ∀ kv ∈ (if e.crud.contains 'C' then setKey d.paths e.route (.obj [(c!"post", postOp e.name)]) else d.paths),
        ∀ r ∈ kvRefs kv, Res (step d e) r := by
      split
      · rename_i hc
        intro kv hkv r hr
        rcases mem_setKey _ _ _ _ hkv with hk | rfl
        · exact hold kv hk r hr
        · rw [kvRefs_obj] at hr
          simp only [refsKvs, refKey, refs_postOp, List.append_nil] at hr
          simp at hr
          rcases hr with rfl | rfl | rfl
          · refine Or.inr ⟨bodyName e.name, rfl, slash_not_mem_bodyName _ hn, ?_⟩
            simp only [OpenApi.step, hc, if_true]; exact hasKey_setKey_self _ _ _
          · exact hname
          · exact hse
      · exact hold
    intro kv hkv r hr
    simp only [OpenApi.step] at hkv
    split at hkv
    · rcases mem_setKey _ _ _ _ hkv with hk | rfl
      · exact h1 kv hk r hr
      · rw [kvRefs_obj] at hr
        rcases mem_refs_itemFor e r hr with rfl | rfl
        · exact hname
        · exact hse
    · exact h1 kv hkv r hr
  · -- request bodies
    intro kv hkv r hr
    simp only [OpenApi.step] at hkv
    split at hkv
    · rcases mem_setKey _ _ _ _ hkv with hk | rfl
      · exact (h.bodies kv hk r hr).step e
      · rw [kvRefs, refs_bodyObj] at hr
        simp [bodyObj, J.strVal] at hr
        rw [hr]; exact hname
    · exact (h.bodies kv hkv r hr).step e
  · -- schemas
    intro kv hkv
    simp only [OpenApi.step] at hkv
    rcases mem_setKey _ _ _ _ hkv with hk | rfl
    · exact h.schemas kv hk
    · rw [kvRefs_obj]; exact refsKvs_filter_nil _ _ hm

theorem init_inv : Inv init := by
  refine ⟨?_, ?_, ?_, ?_⟩
  · intro kv hkv; simp [init] at hkv
  · intro kv hkv; simp [init] at hkv
  · intro kv hkv
    simp only [init, List.mem_singleton] at hkv
    subst hkv; decide
  · decide

theorem openapiDoc_inv (es : List Entry) (h : ∀ e ∈ es, '/' ∉ e.name ∧ refsKvs e.model = []) : Inv (openapiDoc es) := by
  unfold openapiDoc
  suffices ∀ d, Inv d → Inv (es.foldl step d) from this init init_inv
  induction es with
  | nil => intro d hd; exact hd
  | cons e es ih =>
    intro d hd
    have he := h e List.mem_cons_self
    exact ih (fun x hx => h x (List.mem_cons_of_mem _ hx)) _ (step_inv d e he.1 he.2 hd)

end OpenApi
