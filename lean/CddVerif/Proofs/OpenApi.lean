import CddVerif.Model.OpenApi
/-!
# Lemmas about the OpenAPI model (property C16)

Helper lemmas only; the property theorems are in `CddVerif/Properties/C16.lean`.
-/
set_option linter.unusedSimpArgs false
namespace OpenApi
open Py

/-! ### association lists as Python dicts -/

theorem any_setKey {α} (d : List (Str × α)) (k n : Str) (v : α) (h : d.any (·.1 == n) = true) :
    (setKey d k v).any (·.1 == n) = true := by
  unfold setKey; split
  · simp only [List.any_map, List.any_eq_true, Function.comp] at *
    obtain ⟨x, hx, hxn⟩ := h
    refine ⟨x, hx, ?_⟩
    by_cases hk : (x.1 == k) = true
    · have : x.1 = k := by simpa using hk
      simp [← this, hxn]
    · simp [hk, hxn]
  · simp only [List.any_append, h, Bool.true_or]

theorem any_setKey_self {α} (d : List (Str × α)) (k : Str) (v : α) : (setKey d k v).any (·.1 == k) = true := by
  unfold setKey; split
  · rename_i h
    simp only [List.any_map, List.any_eq_true, Function.comp] at *
    obtain ⟨x, hx, hxk⟩ := h
    exact ⟨x, hx, by simp [hxk]⟩
  · simp

theorem mem_setKey {α} (d : List (Str × α)) (k : Str) (v : α) (p : Str × α) (h : p ∈ setKey d k v) :
    p ∈ d ∨ p = (k, v) := by
  unfold setKey at h; split at h
  · simp only [List.mem_map] at h
    obtain ⟨x, hx, rfl⟩ := h
    split
    · exact Or.inr rfl
    · exact Or.inl hx
  · simp only [List.mem_append, List.mem_singleton] at h; exact h

theorem hasKey_setKey {α} (d : List (Str × α)) (k n : Str) (v : α) (h : hasKey d n = true) : hasKey (setKey d k v) n = true :=
  any_setKey d k n v h
theorem hasKey_setKey_self {α} (d : List (Str × α)) (k : Str) (v : α) : hasKey (setKey d k v) k = true :=
  any_setKey_self d k v

theorem setKey_fresh {α} (d : List (Str × α)) (k : Str) (v : α) (h : k ∉ keys d) : setKey d k v = d ++ [(k, v)] := by
  unfold setKey
  have : d.any (·.1 == k) = false := by
    rw [Bool.eq_false_iff]; intro hc
    simp only [List.any_eq_true, beq_iff_eq] at hc
    obtain ⟨x, hx, rfl⟩ := hc
    exact h (List.mem_map_of_mem (f := (·.1)) hx)
  simp [this]

theorem keys_setKey_fresh {α} (d : List (Str × α)) (k : Str) (v : α) (h : k ∉ keys d) : keys (setKey d k v) = keys d ++ [k] := by
  rw [setKey_fresh d k v h]; simp [keys]

theorem lookup_isSome {α} (d : List (Str × α)) (k : Str) : (lookup d k).isSome = hasKey d k := by
  induction d with
  | nil => simp [lookup, hasKey]
  | cons x xs ih =>
    obtain ⟨k', v⟩ := x
    simp only [lookup, hasKey, List.any_cons]
    by_cases hk : (k' == k) = true
    · simp [hk]
    · simp only [hk, Bool.false_eq_true, ↓reduceIte, Bool.false_or]; exact ih

/-! ### `$ref` collection -/

/-- the refs contributed by one key/value pair -/
def kvRefs (kv : Str × J) : List Str :=
  (if kv.1 = refKey then kv.2.strVal else []) ++ kv.2.refs

theorem refsKvs_cons (kv : Str × J) (rest : Dict) : refsKvs (kv :: rest) = kvRefs kv ++ refsKvs rest := by
  obtain ⟨k, v⟩ := kv; simp [refsKvs, kvRefs]

theorem refsKvs_append (a b : Dict) : refsKvs (a ++ b) = refsKvs a ++ refsKvs b := by
  induction a with
  | nil => simp [refsKvs]
  | cons x xs ih => rw [List.cons_append, refsKvs_cons, refsKvs_cons, ih, List.append_assoc]

theorem mem_refsKvs (r : Str) (kvs : Dict) : r ∈ refsKvs kvs ↔ ∃ kv ∈ kvs, r ∈ kvRefs kv := by
  induction kvs with
  | nil => simp [refsKvs]
  | cons x xs ih => rw [refsKvs_cons, List.mem_append, ih]; simp

theorem kvRefs_obj (k : Str) (o : Dict) : kvRefs (k, .obj o) = refsKvs o := by
  simp [kvRefs, J.refs, J.strVal]

theorem refsKvs_filter_nil (p : Str × J → Bool) (kvs : Dict) (h : refsKvs kvs = []) : refsKvs (kvs.filter p) = [] := by
  induction kvs with
  | nil => simp [refsKvs]
  | cons x xs ih =>
    rw [refsKvs_cons, List.append_eq_nil_iff] at h
    rw [List.filter_cons]; split
    · rw [refsKvs_cons, h.1, ih h.2]; rfl
    · exact ih h.2

/-! ### refs of the fixed templates -/

theorem refs_response (desc r : Str) : (response desc r).refs = [r] := by
  simp [response, jsonContent, refObj, J.refs, refsKvs, refKey, J.strVal]

theorem refs_postOp (name : Str) : (postOp name).refs = [bodyRef name, schemaRef name, schemaRef serverError] := by
  simp [postOp, J.refs, refsKvs, refKey, J.strVal, refs_response]

theorem refs_getOp (name : Str) : (getOp name).refs = [schemaRef name, schemaRef serverError] := by
  simp [getOp, J.refs, refsKvs, refKey, J.strVal, refs_response]

theorem refs_deleteOp (name : Str) : (deleteOp name).refs = [] := by
  simp [deleteOp, J.refs, refsKvs, refKey, J.strVal]

theorem refs_paramObj (id name : Str) : (paramObj id name).refs = [] := by
  simp [paramObj, J.refs, refsKvs, refKey, J.strVal]

theorem refs_bodyObj (name : Str) : (bodyObj name).refs = [schemaRef name] := by
  simp [bodyObj, jsonContent, refObj, J.refs, refsKvs, refKey, J.strVal]

/-! ### JSON pointers -/

theorem splitOn1_noSep (sep : Char) (s acc : Str) (h : sep ∉ s) : splitOn1 sep s acc = [acc.reverse ++ s] := by
  induction s generalizing acc with
  | nil => simp [splitOn1]
  | cons c cs ih =>
    have hc : (c == sep) = false := by
      rw [beq_eq_false_iff_ne]; intro e; exact h (e ▸ List.mem_cons_self)
    have hcs : sep ∉ cs := fun m => h (List.mem_cons_of_mem _ m)
    simp [splitOn1, hc, ih _ hcs]

theorem pointer_schemaRef (n : Str) (h : '/' ∉ n) : pointer (schemaRef n) = some [c!"components", c!"schemas", n] := by
  simp [pointer, schemaRef, schemaPrefix, startsWith, List.isPrefixOf, split1, splitOn1, splitOn1_noSep '/' n _ h]

theorem pointer_bodyPrefix (n : Str) (h : '/' ∉ n) : pointer (bodyPrefix ++ n) = some [c!"components", c!"requestBodies", n] := by
  simp [pointer, bodyPrefix, startsWith, List.isPrefixOf, split1, splitOn1, splitOn1_noSep '/' n _ h]

theorem getPath_obj_cons (kvs : Dict) (k : Str) (ks : List Str) :
    getPath (.obj kvs) (k :: ks) = (lookup kvs k).bind (fun v => getPath v ks) := by
  rw [getPath]

theorem getPath_nil (j : J) : getPath j [] = some j := by cases j <;> rfl

theorem getPath_obj_one (kvs : Dict) (k : Str) : getPath (.obj kvs) [k] = lookup kvs k := by
  rw [getPath_obj_cons]; cases lookup kvs k <;> simp [getPath]

theorem getPath_toJ_schemas (d : Doc) (n : Str) : getPath d.toJ [c!"components", c!"schemas", n] = lookup d.schemas n := by
  simp [Doc.toJ, getPath_obj_cons, getPath_nil, lookup]

theorem getPath_toJ_bodies (d : Doc) (n : Str) : getPath d.toJ [c!"components", c!"requestBodies", n] = lookup d.requestBodies n := by
  simp [Doc.toJ, getPath_obj_cons, getPath_nil, lookup]

theorem resolves_schemaRef (d : Doc) (n : Str) (h : '/' ∉ n) : resolves d.toJ (schemaRef n) = hasKey d.schemas n := by
  simp only [resolves, pointer_schemaRef n h, getPath_toJ_schemas, lookup_isSome]

theorem resolves_bodyRef (d : Doc) (n : Str) (h : '/' ∉ n) : resolves d.toJ (bodyPrefix ++ n) = hasKey d.requestBodies n := by
  simp only [resolves, pointer_bodyPrefix n h, getPath_toJ_bodies, lookup_isSome]

theorem refs_toJ (d : Doc) : d.toJ.refs = refsKvs d.requestBodies ++ refsKvs d.schemas ++ refsKvs d.paths := by
  simp [Doc.toJ, J.refs, refsKvs, refKey, J.strVal]

theorem pathsOf_toJ (d : Doc) : pathsOf d.toJ = d.paths := by
  simp [pathsOf, Doc.toJ, getPath_obj_one, lookup]

/-! ### the closure invariant of `step` -/

/-- shape of a reference that resolves in the document built from `d` -/
def Res (d : Doc) (r : Str) : Prop :=
  (∃ n, r = schemaRef n ∧ '/' ∉ n ∧ hasKey d.schemas n = true) ∨
  (∃ n, r = bodyPrefix ++ n ∧ '/' ∉ n ∧ hasKey d.requestBodies n = true)

theorem Res.resolves {d : Doc} {r : Str} (h : Res d r) : resolves d.toJ r = true := by
  rcases h with ⟨n, rfl, hn, hk⟩ | ⟨n, rfl, hn, hk⟩
  · rw [resolves_schemaRef d n hn]; exact hk
  · rw [resolves_bodyRef d n hn]; exact hk

structure Inv (d : Doc) : Prop where
  paths : ∀ kv ∈ d.paths, ∀ r ∈ kvRefs kv, Res d r
  bodies : ∀ kv ∈ d.requestBodies, ∀ r ∈ kvRefs kv, Res d r
  schemas : ∀ kv ∈ d.schemas, kvRefs kv = []
  server : hasKey d.schemas serverError = true

theorem Inv.closed {d : Doc} (h : Inv d) : Closed d.toJ := by
  intro r hr
  rw [refs_toJ, List.mem_append, List.mem_append, mem_refsKvs, mem_refsKvs, mem_refsKvs] at hr
  rcases hr with (⟨kv, hkv, hr⟩ | ⟨kv, hkv, hr⟩) | ⟨kv, hkv, hr⟩
  · exact (h.bodies kv hkv r hr).resolves
  · rw [h.schemas kv hkv] at hr; cases hr
  · exact (h.paths kv hkv r hr).resolves

theorem Res.step {d : Doc} {r : Str} (e : Entry) (h : Res d r) : Res (step d e) r := by
  rcases h with ⟨n, rfl, hn, hk⟩ | ⟨n, rfl, hn, hk⟩
  · exact Or.inl ⟨n, rfl, hn, hasKey_setKey _ _ _ _ hk⟩
  · refine Or.inr ⟨n, rfl, hn, ?_⟩
    simp only [OpenApi.step]; split
    · exact hasKey_setKey _ _ _ _ hk
    · exact hk

theorem slash_not_mem_serverError : '/' ∉ serverError := by decide

theorem slash_not_mem_bodyName (n : Str) (h : '/' ∉ n) : '/' ∉ bodyName n := by
  simp [bodyName, h]

theorem itemFor_eq (e : Entry) : itemFor e =
    [(c!"parameters", .arr [paramObj e.id e.name])] ++ (if e.crud.contains 'R' then [(c!"get", getOp e.name)] else []) ++
      (if e.crud.contains 'D' then [(c!"delete", deleteOp e.name)] else []) := by
  unfold itemFor
  cases e.crud.contains 'R' <;> cases e.crud.contains 'D' <;> rfl

theorem mem_refs_itemFor (e : Entry) (r : Str) (h : r ∈ refsKvs (itemFor e)) :
    r = schemaRef e.name ∨ r = schemaRef serverError := by
  rw [itemFor_eq, refsKvs_append, refsKvs_append] at h
  simp only [List.mem_append] at h
  rcases h with (h | h) | h
  · simp [refsKvs, J.refs, refsList, refKey, J.strVal, refs_paramObj] at h
  · split at h
    · simp [refsKvs, refKey, refs_getOp] at h; exact h
    · simp [refsKvs] at h
  · split at h
    · simp [refsKvs, refKey, refs_deleteOp] at h
    · simp [refsKvs] at h

theorem step_inv (d : Doc) (e : Entry) (hn : '/' ∉ e.name) (hm : refsKvs e.model = []) (h : Inv d) : Inv (step d e) := by
  have hname : Res (step d e) (schemaRef e.name) :=
    Or.inl ⟨e.name, rfl, hn, by simp only [OpenApi.step]; exact hasKey_setKey_self _ _ _⟩
  have hse : Res (step d e) (schemaRef serverError) :=
    Or.inl ⟨serverError, rfl, slash_not_mem_serverError, hasKey_setKey _ _ _ _ h.server⟩
  refine ⟨?_, ?_, ?_, hasKey_setKey _ _ _ _ h.server⟩
  · -- paths
    have hold : ∀ kv ∈ d.paths, ∀ r ∈ kvRefs kv, Res (step d e) r := fun kv hkv r hr => (h.paths kv hkv r hr).step e
    have h1 : ∀ kv ∈ (if e.crud.contains 'C' then setKey d.paths e.route (.obj [(c!"post", postOp e.name)]) else d.paths),
        ∀ r ∈ kvRefs kv, Res (step d e) r := by
      split
      · rename_i hc
        intro kv hkv r hr
        rcases mem_setKey _ _ _ _ hkv with hk | rfl
        · exact hold kv hk r hr
        · rw [kvRefs_obj] at hr
          simp only [refsKvs, refKey, refs_postOp, List.append_nil] at hr
          simp at hr
          rcases hr with rfl | rfl | rfl
          · refine Or.inr ⟨bodyName e.name, rfl, slash_not_mem_bodyName _ hn, ?_⟩
            simp only [OpenApi.step, hc, if_true]; exact hasKey_setKey_self _ _ _
          · exact hname
          · exact hse
      · exact hold
    intro kv hkv r hr
    simp only [OpenApi.step] at hkv
    split at hkv
    · rcases mem_setKey _ _ _ _ hkv with hk | rfl
      · exact h1 kv hk r hr
      · rw [kvRefs_obj] at hr
        rcases mem_refs_itemFor e r hr with rfl | rfl
        · exact hname
        · exact hse
    · exact h1 kv hkv r hr
  · -- request bodies
    intro kv hkv r hr
    simp only [OpenApi.step] at hkv
    split at hkv
    · rcases mem_setKey _ _ _ _ hkv with hk | rfl
      · exact (h.bodies kv hk r hr).step e
      · rw [kvRefs, refs_bodyObj] at hr
        simp [bodyObj, J.strVal] at hr
        rw [hr]; exact hname
    · exact (h.bodies kv hkv r hr).step e
  · -- schemas
    intro kv hkv
    simp only [OpenApi.step] at hkv
    rcases mem_setKey _ _ _ _ hkv with hk | rfl
    · exact h.schemas kv hk
    · rw [kvRefs_obj]; exact refsKvs_filter_nil _ _ hm

theorem init_inv : Inv init := by
  refine ⟨?_, ?_, ?_, ?_⟩
  · intro kv hkv; simp [init] at hkv
  · intro kv hkv; simp [init] at hkv
  · intro kv hkv
    simp only [init, List.mem_singleton] at hkv
    subst hkv; decide
  · decide

theorem openapiDoc_inv (es : List Entry) (h : ∀ e ∈ es, '/' ∉ e.name ∧ refsKvs e.model = []) : Inv (openapiDoc es) := by
  unfold openapiDoc
  suffices ∀ d, Inv d → Inv (es.foldl step d) from this init init_inv
  induction es with
  | nil => intro d hd; exact hd
  | cons e es ih =>
    intro d hd
    have he := h e List.mem_cons_self
    exact ih (fun x hx => h x (List.mem_cons_of_mem _ hx)) _ (step_inv d e he.1 he.2 hd)

/-! ### operations -/

theorem opsOfPaths_append (a b : Dict) : opsOfPaths (a ++ b) = opsOfPaths a ++ opsOfPaths b := by
  simp [opsOfPaths]

theorem methodsOf_itemFor (e : Entry) : methodsOf (.obj (itemFor e)) =
    (if e.crud.contains 'R' then [c!"get"] else []) ++ (if e.crud.contains 'D' then [c!"delete"] else []) := by
  rw [itemFor_eq]
  cases e.crud.contains 'R' <;> cases e.crud.contains 'D' <;> rfl

theorem step_paths_fresh (d : Doc) (e : Entry) (h1 : e.route ∉ keys d.paths) (h2 : itemRoute e.route e.id ∉ keys d.paths)
    (h3 : e.route ≠ itemRoute e.route e.id) (hok : crudOK e.crud = true) :
    (step d e).paths = d.paths ++ (if e.crud.contains 'C' then [(e.route, .obj [(c!"post", postOp e.name)])] else []) ++
      [(itemRoute e.route e.id, .obj (itemFor e))] := by
  simp only [OpenApi.step, hok, if_true]
  split
  · rw [setKey_fresh d.paths _ _ h1, setKey_fresh]
    simp only [keys, List.map_append, List.map_cons, List.map_nil, List.mem_append, List.mem_singleton, not_or]
    exact ⟨h2, fun h => h3 h.symm⟩
  · rw [setKey_fresh _ _ _ h2]; simp

theorem opsOfPaths_step (d : Doc) (e : Entry) (h1 : e.route ∉ keys d.paths) (h2 : itemRoute e.route e.id ∉ keys d.paths)
    (h3 : e.route ≠ itemRoute e.route e.id) (hok : crudOK e.crud = true) :
    opsOfPaths (step d e).paths = opsOfPaths d.paths ++ requested e := by
  rw [step_paths_fresh d e h1 h2 h3 hok, opsOfPaths_append, opsOfPaths_append, List.append_assoc]
  congr 1
  unfold requested
  rw [List.append_assoc]
  congr 1
  · split
    · simp [opsOfPaths, methodsOf, keys, httpMethods]
    · simp [opsOfPaths]
  · simp only [opsOfPaths, List.flatMap_cons, List.flatMap_nil, List.append_nil, methodsOf_itemFor]
    cases e.crud.contains 'R' <;> cases e.crud.contains 'D' <;> simp

theorem keys_step_sublist (d : Doc) (e : Entry) (h1 : e.route ∉ keys d.paths) (h2 : itemRoute e.route e.id ∉ keys d.paths)
    (h3 : e.route ≠ itemRoute e.route e.id) (hok : crudOK e.crud = true) :
    (keys (step d e).paths).Sublist (keys d.paths ++ pathKeys e) := by
  rw [step_paths_fresh d e h1 h2 h3 hok]
  simp only [keys, List.map_append, List.map_cons, List.map_nil, pathKeys, List.append_assoc]
  apply List.Sublist.append (List.Sublist.refl _)
  split
  · exact List.Sublist.refl _
  · simp

theorem opsOfPaths_foldl (es : List Entry) (d : Doc) (hnd : (keys d.paths ++ es.flatMap pathKeys).Nodup)
    (hok : ∀ e ∈ es, crudOK e.crud = true) :
    opsOfPaths (es.foldl step d).paths = opsOfPaths d.paths ++ es.flatMap requested := by
  induction es generalizing d with
  | nil => simp
  | cons e es ih =>
    simp only [List.flatMap_cons, pathKeys] at hnd
    have hnd' := hnd
    rw [List.nodup_append] at hnd
    obtain ⟨_, hr, hdis⟩ := hnd
    have h1 : e.route ∉ keys d.paths := fun hm => hdis _ hm _ (by simp) rfl
    have h2 : itemRoute e.route e.id ∉ keys d.paths := fun hm => hdis _ hm _ (by simp) rfl
    have h3 : e.route ≠ itemRoute e.route e.id := by
      intro heq
      simp only [List.cons_append, List.nil_append, List.nodup_cons, List.mem_cons] at hr
      exact hr.1 (Or.inl heq)
    have hoke := hok e List.mem_cons_self
    rw [List.foldl_cons, ih (step d e) ?_ (fun x hx => hok x (List.mem_cons_of_mem _ hx)), opsOfPaths_step d e h1 h2 h3 hoke]
    · simp
    · refine List.Nodup.sublist ?_ hnd'
      have := keys_step_sublist d e h1 h2 h3 hoke
      have := List.Sublist.append this (List.Sublist.refl (es.flatMap pathKeys))
      simpa [pathKeys, List.append_assoc] using this

/-! ### path template parameters -/

theorem tparams_noOpen (s t : Str) (h : '{' ∉ s) : tparams (s ++ t) none = tparams t none := by
  induction s with
  | nil => rfl
  | cons c cs ih =>
    have hc : (c == '{') = false := by
      rw [beq_eq_false_iff_ne]; intro e; exact h (e ▸ List.mem_cons_self)
    simp only [List.cons_append, tparams, hc, Bool.false_eq_true, ↓reduceIte]
    exact ih (fun m => h (List.mem_cons_of_mem _ m))

theorem tparams_capture (id t acc : Str) (h : '}' ∉ id) :
    tparams (id ++ '}' :: t) (some acc) = (acc.reverse ++ id) :: tparams t none := by
  induction id generalizing acc with
  | nil => simp [tparams]
  | cons c cs ih =>
    have hc : (c == '}') = false := by
      rw [beq_eq_false_iff_ne]; intro e; exact h (e ▸ List.mem_cons_self)
    simp only [List.cons_append, tparams, hc, Bool.false_eq_true, ↓reduceIte]
    rw [ih _ (fun m => h (List.mem_cons_of_mem _ m))]; simp

theorem tparams_route (route : Str) (h : '{' ∉ route) : tparams route none = [] := by
  have := tparams_noOpen route [] h
  simpa [tparams] using this

theorem tparams_itemRoute (route id : Str) (h : '{' ∉ route) (hi : '}' ∉ id) : tparams (itemRoute route id) none = [id] := by
  unfold itemRoute
  rw [List.append_assoc, List.append_assoc, tparams_noOpen route _ h]
  simp only [List.cons_append, List.nil_append, tparams]
  simp only [show ('/' == '{') = false by decide, show ('{' == '{') = true by decide, Bool.false_eq_true, ↓reduceIte]
  rw [tparams_capture id [] [] hi]; simp [tparams]

theorem declared_itemFor (e : Entry) : declared (.obj (itemFor e)) = [e.id] := by
  rw [itemFor_eq]; rfl

theorem declared_postItem (name : Str) : declared (.obj [(c!"post", postOp name)]) = [] := rfl

/-- every stored path item declares the template parameters of its key -/
def PInv (paths : Dict) : Prop := ∀ kv ∈ paths, ∀ x ∈ tparams kv.1 none, x ∈ declared kv.2

theorem step_pinv (d : Doc) (e : Entry) (hr : '{' ∉ e.route) (hi : '}' ∉ e.id) (h : PInv d.paths) : PInv (step d e).paths := by
  have h1 : PInv (if e.crud.contains 'C' then setKey d.paths e.route (.obj [(c!"post", postOp e.name)]) else d.paths) := by
    split
    · intro kv hkv x hx
      rcases mem_setKey _ _ _ _ hkv with hk | rfl
      · exact h kv hk x hx
      · rw [tparams_route _ hr] at hx; cases hx
    · exact h
  intro kv hkv x hx
  simp only [OpenApi.step] at hkv
  split at hkv
  · rcases mem_setKey _ _ _ _ hkv with hk | rfl
    · exact h1 kv hk x hx
    · rw [tparams_itemRoute _ _ hr hi] at hx
      rw [declared_itemFor]; exact hx
  · exact h1 kv hkv x hx

theorem openapiDoc_pinv (es : List Entry) (h : ∀ e ∈ es, '{' ∉ e.route ∧ '}' ∉ e.id) : PInv (openapiDoc es).paths := by
  unfold openapiDoc
  suffices ∀ d, PInv d.paths → PInv (es.foldl step d).paths from this init (by intro kv hkv; simp [init] at hkv)
  induction es with
  | nil => intro d hd; exact hd
  | cons e es ih =>
    intro d hd
    have he := h e List.mem_cons_self
    exact ih (fun x hx => h x (List.mem_cons_of_mem _ hx)) _ (step_pinv d e he.1 he.2 hd)

/-! ### the schema stored for a model -/

theorem lookup_map_replace_ne {α} (d : List (Str × α)) (k k' : Str) (v : α) (hne : k ≠ k') :
    lookup (d.map (fun kv => if kv.1 == k then (k, v) else kv)) k' = lookup d k' := by
  have hb : (k == k') = false := by rw [beq_eq_false_iff_ne]; exact hne
  induction d with
  | nil => rfl
  | cons x xs ih =>
    obtain ⟨k0, v0⟩ := x
    by_cases hk : (k0 == k) = true
    · have hk0 : k0 = k := by simpa using hk
      have hb0 : (k0 == k') = false := by rw [hk0]; exact hb
      simp only [List.map_cons, hk, ↓reduceIte, lookup, hb, hb0, Bool.false_eq_true]
      exact ih
    · simp only [List.map_cons, hk, Bool.false_eq_true, ↓reduceIte, lookup]
      rw [ih]

theorem lookup_map_replace_self {α} (d : List (Str × α)) (k : Str) (v : α) (h : d.any (·.1 == k) = true) :
    lookup (d.map (fun kv => if kv.1 == k then (k, v) else kv)) k = some v := by
  induction d with
  | nil => simp at h
  | cons x xs ih =>
    obtain ⟨k0, v0⟩ := x
    by_cases hk : (k0 == k) = true
    · simp only [List.map_cons, hk, ↓reduceIte, lookup, beq_self_eq_true]
    · have hxs : xs.any (·.1 == k) = true := by
        simp only [List.any_cons] at h
        simpa [hk] using h
      simp only [List.map_cons, hk, Bool.false_eq_true, ↓reduceIte, lookup]
      exact ih hxs

theorem lookup_append_ne {α} (d : List (Str × α)) (k k' : Str) (v : α) (hne : k ≠ k') :
    lookup (d ++ [(k, v)]) k' = lookup d k' := by
  have hb : (k == k') = false := by rw [beq_eq_false_iff_ne]; exact hne
  induction d with
  | nil => simp [lookup, hb]
  | cons x xs ih =>
    obtain ⟨k0, v0⟩ := x
    simp only [List.cons_append, lookup]; rw [ih]

theorem lookup_append_self {α} (d : List (Str × α)) (k : Str) (v : α) (h : d.any (·.1 == k) = false) :
    lookup (d ++ [(k, v)]) k = some v := by
  induction d with
  | nil => simp [lookup]
  | cons x xs ih =>
    obtain ⟨k0, v0⟩ := x
    simp only [List.any_cons, Bool.or_eq_false_iff] at h
    simp only [List.cons_append, lookup, h.1, Bool.false_eq_true, ↓reduceIte]
    exact ih h.2

theorem lookup_setKey_self {α} (d : List (Str × α)) (k : Str) (v : α) : lookup (setKey d k v) k = some v := by
  unfold setKey; split
  · rename_i h; exact lookup_map_replace_self d k v h
  · rename_i h; exact lookup_append_self d k v (Bool.eq_false_iff.mpr h)

theorem lookup_setKey_ne {α} (d : List (Str × α)) (k k' : Str) (v : α) (hne : k ≠ k') : lookup (setKey d k v) k' = lookup d k' := by
  unfold setKey; split
  · exact lookup_map_replace_ne d k k' v hne
  · exact lookup_append_ne d k k' v hne

theorem schemas_foldl_other (es : List Entry) (d : Doc) (n : Str) (h : ∀ e ∈ es, e.name ≠ n) :
    lookup (es.foldl step d).schemas n = lookup d.schemas n := by
  induction es generalizing d with
  | nil => rfl
  | cons e es ih =>
    rw [List.foldl_cons, ih _ (fun x hx => h x (List.mem_cons_of_mem _ hx))]
    simp only [OpenApi.step]
    exact lookup_setKey_ne _ _ _ _ (h e List.mem_cons_self)

theorem schemas_foldl_mem (es : List Entry) (d : Doc) (hnd : (es.map (·.name)).Nodup) (e : Entry) (he : e ∈ es) :
    lookup (es.foldl step d).schemas e.name = some (.obj (stripDollar e.model)) := by
  induction es generalizing d with
  | nil => cases he
  | cons x xs ih =>
    simp only [List.map_cons, List.nodup_cons] at hnd
    rw [List.foldl_cons]
    rcases List.mem_cons.mp he with rfl | hmem
    · rw [schemas_foldl_other xs _ _ (fun y hy heq => hnd.1 (by rw [← heq]; exact List.mem_map_of_mem (f := (·.name)) hy))]
      simp only [OpenApi.step]
      exact lookup_setKey_self _ _ _
    · exact ih _ hnd.2 hmem

/-! ### `str.rpartition` on the request-body reference -/

theorem isPrefixOf_false_of_length_lt (p l : Str) (h : l.length < p.length) : p.isPrefixOf l = false := by
  induction p generalizing l with
  | nil => simp at h
  | cons a as ih =>
    cases l with
    | nil => rfl
    | cons b bs =>
      simp only [List.isPrefixOf]
      rw [ih bs (by simpa using h)]; simp

theorem isPrefixOf_self (p : Str) : p.isPrefixOf p = true := by
  induction p with
  | nil => rfl
  | cons a as ih => simp [List.isPrefixOf, ih]

theorem rfindFrom_short (p l : Str) (i : Nat) (best : Option Nat) (h : l.length < p.length) : rfindFrom p l i best = best := by
  induction l generalizing i best with
  | nil =>
    have : p.isEmpty = false := by cases p <;> simp at h ⊢
    simp [rfindFrom, this]
  | cons c cs ih =>
    simp only [rfindFrom, isPrefixOf_false_of_length_lt p (c :: cs) h, Bool.false_eq_true, ↓reduceIte]
    exact ih _ _ (by simp at h ⊢; omega)

/-- the last occurrence of `p` in `s ++ p` is the final one, whatever `s` contains -/
theorem rfindFrom_append_self (p s : Str) (i : Nat) (best : Option Nat) (hp : p ≠ []) :
    rfindFrom p (s ++ p) i best = some (i + s.length) := by
  induction s generalizing i best with
  | nil =>
    cases p with
    | nil => exact absurd rfl hp
    | cons c cs =>
      simp only [List.nil_append, rfindFrom, isPrefixOf_self, ↓reduceIte, List.length_nil, Nat.add_zero]
      exact rfindFrom_short _ _ _ _ (by simp)
  | cons d ds ih =>
    simp only [List.cons_append, rfindFrom, List.length_cons]
    rw [ih]; congr 1; omega

theorem rfind_append_self (p s : Str) (hp : p ≠ []) : rfind (s ++ p) p = some s.length := by
  unfold rfind; rw [rfindFrom_append_self p s 0 none hp]; simp

/-- **`body_name.rpartition("Body")[0]` recovers the name**, also for names that contain "Body" -/
theorem rpartition_bodyName (n : Str) : (rpartition (bodyName n) c!"Body").1 = n := by
  unfold rpartition bodyName
  rw [rfind_append_self _ _ (by decide)]
  simp

theorem rfindFrom_absent (c : Char) (t : Str) (i : Nat) (best : Option Nat) (h : c ∉ t) : rfindFrom [c] t i best = best := by
  induction t generalizing i best with
  | nil => simp [rfindFrom]
  | cons x xs ih =>
    have hx : (c == x) = false := by
      rw [beq_eq_false_iff_ne]; intro e; exact h (e ▸ List.mem_cons_self)
    simp only [rfindFrom, List.isPrefixOf, hx, Bool.false_and, Bool.false_eq_true, ↓reduceIte]
    exact ih _ _ (fun m => h (List.mem_cons_of_mem _ m))

theorem rfindFrom_last_char (c : Char) (s t : Str) (i : Nat) (best : Option Nat) (h : c ∉ t) :
    rfindFrom [c] (s ++ c :: t) i best = some (i + s.length) := by
  induction s generalizing i best with
  | nil =>
    simp only [List.nil_append, rfindFrom, List.isPrefixOf, beq_self_eq_true, Bool.true_and, ↓reduceIte, List.length_nil, Nat.add_zero]
    cases t with
    | nil => simp [rfindFrom]
    | cons x xs =>
      have := rfindFrom_absent c (x :: xs) (i + 1) (some i) h
      simpa [List.isPrefixOf] using this
  | cons d ds ih =>
    simp only [List.cons_append, rfindFrom, List.length_cons]
    rw [ih]; congr 1; omega

/-- `ref.rpartition("/")[2]` of the request-body reference is the body name -/
theorem rpartition_bodyRef (n : Str) (h : '/' ∉ n) : (rpartition (bodyRef n) c!"/").2.2 = bodyName n := by
  have hb : '/' ∉ bodyName n := slash_not_mem_bodyName n h
  have e : bodyRef n = c!"#/components/requestBodies" ++ '/' :: bodyName n := by
    simp [bodyRef, bodyPrefix]
  unfold rpartition rfind
  rw [e, rfindFrom_last_char '/' _ _ 0 none hb]
  simp

/-! ### `openapi_bulk`: closure -/

/-- the request body `openapi_bulk` registers for the entity `n` -/
def bulkBody (n : Str) : J := .obj [
  (c!"content", jsonContent (schemaRef n)), (c!"description", .str (aObject n)), (c!"required", .bool true)]

theorem bodyOf_create (n : Str) (h : '/' ∉ n) : bodyOf (templatePayload .create n) = .ok (some (bodyName n, bulkBody n)) := by
  simp [bodyOf, templatePayload, lookup, truthy, refKey, rpartition_bodyRef n h, rpartition_bodyName, bulkBody]
theorem bodyOf_read (n : Str) : bodyOf (templatePayload .read n) = .ok none := rfl
theorem bodyOf_destroy (n : Str) : bodyOf (templatePayload .destroy n) = .ok none := rfl
theorem bodyOf_arr (ps : List J) : bodyOf (.arr ps) = .ok none := rfl

theorem refs_payload_create (n : Str) : (templatePayload .create n).refs = [schemaRef n, schemaRef serverError, bodyRef n] := by
  simp [templatePayload, J.refs, refsKvs, refKey, J.strVal, refs_response]
theorem refs_payload_read (n : Str) : (templatePayload .read n).refs = [schemaRef n, schemaRef serverError] := by
  simp [templatePayload, J.refs, refsKvs, refKey, J.strVal, refs_response]
theorem refs_payload_destroy (n : Str) : (templatePayload .destroy n).refs = [] := by
  simp [templatePayload, J.refs, refsKvs, refKey, J.strVal]
theorem strVal_payload (k : Kind) (n : Str) : (templatePayload k n).strVal = [] := by
  cases k <;> rfl
theorem kvRefs_bulkBody (n : Str) : kvRefs (bodyName n, bulkBody n) = [schemaRef n] := by
  unfold kvRefs
  have h1 : (bulkBody n).strVal = [] := rfl
  have h2 : (bulkBody n).refs = [schemaRef n] := by
    simp [bulkBody, jsonContent, refObj, J.refs, refsKvs, refKey, J.strVal]
  simp only [h1, h2, ite_self, List.nil_append]

/-- a value of a merged path dict: a template payload for one of the names `N`, or a `$ref`-free list (`parameters`) -/
def TplVal (N : List Str) (v : J) : Prop :=
  (∃ k n, n ∈ N ∧ v = templatePayload k n) ∨ (∃ ps, v = .arr ps ∧ refsList ps = [])

/-- where the refs of a path-dict entry point, given the request bodies `bs` registered for the same dict -/
def RefOK (N : List Str) (bs : List (Str × J)) (r : Str) : Prop :=
  (∃ n, (n ∈ N ∨ n = serverError) ∧ r = schemaRef n) ∨ (∃ n ∈ N, r = bodyPrefix ++ bodyName n ∧ (bodyName n, bulkBody n) ∈ bs)

theorem RefOK.mono {N : List Str} {bs bs' : List (Str × J)} {r : Str} (h : RefOK N bs r) (hs : ∀ b ∈ bs, b ∈ bs') : RefOK N bs' r := by
  rcases h with h | ⟨n, hn, rfl, hb⟩
  · exact Or.inl h
  · exact Or.inr ⟨n, hn, rfl, hs _ hb⟩

theorem bodiesOf_tpl (N : List Str) (hN : ∀ n ∈ N, '/' ∉ n) (pd : Dict) (h : ∀ kv ∈ pd, TplVal N kv.2) :
    ∃ bs, bodiesOf pd = .ok bs ∧ (∀ b ∈ bs, ∃ n ∈ N, b = (bodyName n, bulkBody n)) ∧
      (∀ kv ∈ pd, ∀ r ∈ kvRefs kv, RefOK N bs r) := by
  induction pd with
  | nil => exact ⟨[], rfl, by simp, by simp⟩
  | cons x xs ih =>
    obtain ⟨bs, hbs, hall, hrefs⟩ := ih (fun kv hkv => h kv (List.mem_cons_of_mem _ hkv))
    obtain ⟨k0, v⟩ := x
    rcases h (k0, v) List.mem_cons_self with ⟨k, n, hn, rfl⟩ | ⟨ps, rfl, hps⟩
    · cases k with
      | create =>
        refine ⟨(bodyName n, bulkBody n) :: bs, ?_, ?_, ?_⟩
        · simp only [bodiesOf, bodyOf_create n (hN n hn), hbs]
        · intro b hb
          rcases List.mem_cons.mp hb with rfl | hb
          · exact ⟨n, hn, rfl⟩
          · exact hall b hb
        · intro kv hkv r hr
          rcases List.mem_cons.mp hkv with rfl | hkv
          · simp only [kvRefs, strVal_payload, ite_self, List.nil_append, refs_payload_create] at hr
            simp only [List.mem_cons, List.mem_nil_iff, or_false] at hr
            rcases hr with rfl | rfl | rfl
            · exact Or.inl ⟨n, Or.inl hn, rfl⟩
            · exact Or.inl ⟨serverError, Or.inr rfl, rfl⟩
            · exact Or.inr ⟨n, hn, rfl, List.mem_cons_self⟩
          · exact (hrefs kv hkv r hr).mono (fun b hb => List.mem_cons_of_mem _ hb)
      | read =>
        refine ⟨bs, ?_, hall, ?_⟩
        · simp only [bodiesOf, bodyOf_read, hbs]
        · intro kv hkv r hr
          rcases List.mem_cons.mp hkv with rfl | hkv
          · simp only [kvRefs, strVal_payload, ite_self, List.nil_append, refs_payload_read] at hr
            simp only [List.mem_cons, List.mem_nil_iff, or_false] at hr
            rcases hr with rfl | rfl
            · exact Or.inl ⟨n, Or.inl hn, rfl⟩
            · exact Or.inl ⟨serverError, Or.inr rfl, rfl⟩
          · exact hrefs kv hkv r hr
      | destroy =>
        refine ⟨bs, ?_, hall, ?_⟩
        · simp only [bodiesOf, bodyOf_destroy, hbs]
        · intro kv hkv r hr
          rcases List.mem_cons.mp hkv with rfl | hkv
          · simp [kvRefs, strVal_payload, refs_payload_destroy] at hr
          · exact hrefs kv hkv r hr
    · refine ⟨bs, ?_, hall, ?_⟩
      · simp only [bodiesOf, bodyOf_arr, hbs]
      · intro kv hkv r hr
        rcases List.mem_cons.mp hkv with rfl | hkv
        · simp [kvRefs, J.strVal, J.refs, hps] at hr
        · exact hrefs kv hkv r hr

theorem refs_bulkParam (pk o : Str) : (bulkParam pk o).refs = [] := by
  simp [bulkParam, J.refs, refsKvs, refKey, J.strVal]

theorem refsList_routeParams (route o : Str) : refsList (routeParams route o) = [] := by
  unfold routeParams
  induction (List.filter (fun r => startsWith r c!":") (split1 route '/')) with
  | nil => rfl
  | cons x xs ih => simp only [List.map_cons, refsList, refs_bulkParam, List.nil_append]; exact ih

theorem withParams_tpl (N : List Str) (route route' : Str) (pd pd' : Dict) (h : ∀ kv ∈ pd, TplVal N kv.2)
    (hw : withParams route pd = .ok (route', pd')) : ∀ kv ∈ pd', TplVal N kv.2 := by
  unfold withParams at hw
  split at hw
  · dsimp only at hw
    split at hw
    · simp only [Except.ok.injEq, Prod.mk.injEq] at hw
      obtain ⟨_, rfl⟩ := hw
      intro kv hkv
      rcases mem_setKey _ _ _ _ hkv with hk | rfl
      · rcases mem_setKey _ _ _ _ hk with hk | rfl
        · exact h kv hk
        · exact Or.inr ⟨[], rfl, rfl⟩
      · exact Or.inr ⟨_, rfl, refsList_routeParams _ _⟩
    · cases hw
  · simp only [Except.ok.injEq, Prod.mk.injEq] at hw
    obtain ⟨_, rfl⟩ := hw
    exact h

theorem updateD_mem (g : List RouteFn) (pd : Dict) (h : updateD g = .ok pd) : ∀ kv ∈ pd, ∃ r ∈ g, kv.2 = r.payload := by
  match g, h with
  | [a], h =>
    simp only [updateD, Except.ok.injEq] at h; subst h
    intro kv hkv; simp at hkv; subst hkv; exact ⟨a, by simp, rfl⟩
  | [a, b], h =>
    simp only [updateD, Except.ok.injEq] at h; subst h
    intro kv hkv
    rcases mem_setKey _ _ _ _ hkv with hk | rfl
    · simp at hk; subst hk; exact ⟨a, by simp, rfl⟩
    · exact ⟨b, by simp, rfl⟩
  | [], h => simp [updateD] at h
  | _ :: _ :: _ :: _, h => simp [updateD] at h

theorem groupBy_mem (rs : List RouteFn) : ∀ kg ∈ groupBy rs, ∀ r ∈ kg.2, r ∈ rs := by
  induction rs with
  | nil => intro kg h; cases h
  | cons r rs ih =>
    intro kg hkg x hx
    simp only [groupBy] at hkg
    split at hkg
    · rename_i k g rest heq
      split at hkg
      · rcases List.mem_cons.mp hkg with rfl | hkg
        · rcases List.mem_cons.mp hx with rfl | hx
          · exact List.mem_cons_self
          · exact List.mem_cons_of_mem _ (ih (k, g) (by rw [heq]; exact List.mem_cons_self) x hx)
        · exact List.mem_cons_of_mem _ (ih kg (by rw [heq]; exact List.mem_cons_of_mem _ hkg) x hx)
      · rcases List.mem_cons.mp hkg with rfl | hkg
        · simp at hx; subst hx; exact List.mem_cons_self
        · exact List.mem_cons_of_mem _ (ih kg (by rw [heq]; exact hkg) x hx)
    · simp at hkg; subst hkg; simp at hx; subst hx; exact List.mem_cons_self

theorem mem_update {α} (d b : List (Str × α)) : ∀ kv ∈ update d b, kv ∈ d ∨ kv ∈ b := by
  unfold update
  induction b generalizing d with
  | nil => intro kv h; exact Or.inl h
  | cons x xs ih =>
    intro kv h
    rw [List.foldl_cons] at h
    rcases ih _ kv h with h | h
    · rcases mem_setKey _ _ _ _ h with h | rfl
      · exact Or.inl h
      · exact Or.inr List.mem_cons_self
    · exact Or.inr (List.mem_cons_of_mem _ h)

theorem hasKey_update {α} (d b : List (Str × α)) (n : Str) (h : hasKey d n = true) : hasKey (update d b) n = true := by
  unfold update
  induction b generalizing d with
  | nil => exact h
  | cons x xs ih => rw [List.foldl_cons]; exact ih _ (hasKey_setKey _ _ _ _ h)

theorem hasKey_update_mem {α} (d b : List (Str × α)) (kv : Str × α) (h : kv ∈ b) : hasKey (update d b) kv.1 = true := by
  unfold update
  induction b generalizing d with
  | nil => cases h
  | cons x xs ih =>
    rw [List.foldl_cons]
    rcases List.mem_cons.mp h with rfl | h
    · exact hasKey_update (α := α) _ xs _ (hasKey_setKey_self _ _ _)
    · exact ih _ h

/-! the `schemas` dict of `openapi_bulk` -/

theorem mem_foldl_tables (ts : List Table) (acc : Dict) :
    ∀ kv ∈ ts.foldl (fun (acc : Dict) t => setKey acc (bulkKey t.name) (.obj t.schema)) acc,
      kv ∈ acc ∨ ∃ t ∈ ts, kv = (bulkKey t.name, .obj t.schema) := by
  induction ts generalizing acc with
  | nil => intro kv h; exact Or.inl h
  | cons t ts ih =>
    intro kv h
    rw [List.foldl_cons] at h
    rcases ih _ kv h with h | ⟨t', ht', rfl⟩
    · rcases mem_setKey _ _ _ _ h with h | rfl
      · exact Or.inl h
      · exact Or.inr ⟨t, List.mem_cons_self, rfl⟩
    · exact Or.inr ⟨t', List.mem_cons_of_mem _ ht', rfl⟩

theorem hasKey_foldl_tables (ts : List Table) (acc : Dict) (t : Table) (ht : t ∈ ts) :
    hasKey (ts.foldl (fun (acc : Dict) t => setKey acc (bulkKey t.name) (.obj t.schema)) acc) (bulkKey t.name) = true := by
  induction ts generalizing acc with
  | nil => cases ht
  | cons x xs ih =>
    rw [List.foldl_cons]
    rcases List.mem_cons.mp ht with rfl | ht
    · have : ∀ (l : List Table) (a : Dict) (n : Str), hasKey a n = true →
          hasKey (l.foldl (fun (acc : Dict) t => setKey acc (bulkKey t.name) (.obj t.schema)) a) n = true := by
        intro l
        induction l with
        | nil => intro a n h; exact h
        | cons y ys ihy => intro a n h; rw [List.foldl_cons]; exact ihy _ _ (hasKey_setKey _ _ _ _ h)
      exact this xs _ _ (hasKey_setKey_self _ _ _)
    · exact ih _ ht

theorem hasKey_map_fst {α β} (d : List (Str × α)) (f : Str × α → β) (n : Str) :
    hasKey (d.map (fun kv => (kv.1, f kv))) n = hasKey d n := by
  simp [hasKey, List.any_map, Function.comp_def]

theorem hasKey_bulkSchemas_table (ts : List Table) (t : Table) (ht : t ∈ ts) : hasKey (bulkSchemas ts) (bulkKey t.name) = true := by
  unfold bulkSchemas
  rw [hasKey_map_fst (f := fun kv => stripSchema kv.2)]
  exact hasKey_setKey _ _ _ _ (hasKey_foldl_tables ts [] t ht)

theorem hasKey_bulkSchemas_server (ts : List Table) : hasKey (bulkSchemas ts) serverError = true := by
  unfold bulkSchemas
  rw [hasKey_map_fst (f := fun kv => stripSchema kv.2)]
  exact hasKey_setKey_self _ _ _

theorem bulkSchemas_norefs (ts : List Table) (h : ∀ t ∈ ts, refsKvs t.schema = []) : ∀ kv ∈ bulkSchemas ts, kvRefs kv = [] := by
  intro kv hkv
  unfold bulkSchemas at hkv
  simp only [List.mem_map] at hkv
  obtain ⟨x, hx, rfl⟩ := hkv
  rcases mem_setKey _ _ _ _ hx with hx | rfl
  · rcases mem_foldl_tables ts [] x hx with hx | ⟨t, ht, rfl⟩
    · cases hx
    · simp only [stripSchema, kvRefs_obj]; exact refsKvs_filter_nil _ _ (h t ht)
  · simp only [stripSchema, kvRefs_obj]; decide

theorem construct_ok (k route' : Str) (pd pd' : Dict) (bodies : List (Str × J))
    (h : construct k pd = .ok (route', pd', bodies)) : withParams k pd = .ok (route', pd') ∧ bodiesOf pd' = .ok bodies := by
  unfold construct at h
  split at h
  · rename_i r1 p1 hw
    split at h
    · rename_i bs hb
      simp only [Except.ok.injEq, Prod.mk.injEq] at h
      obtain ⟨rfl, rfl, rfl⟩ := h
      exact ⟨hw, hb⟩
    · cases h
  · cases h

theorem Res.mono_bodies {rb rb' S paths paths' : Dict} {r : Str} (h : Res ⟨rb, S, paths⟩ r)
    (hk : ∀ n, hasKey rb n = true → hasKey rb' n = true) : Res ⟨rb', S, paths'⟩ r := by
  rcases h with ⟨n, rfl, hn, hs⟩ | ⟨n, rfl, hn, hb⟩
  · exact Or.inl ⟨n, rfl, hn, hs⟩
  · exact Or.inr ⟨n, rfl, hn, hk n hb⟩

theorem bulkGroups_inv (N : List Str) (hN : ∀ n ∈ N, '/' ∉ n) (S : Dict)
    (hS : ∀ n ∈ N, hasKey S n = true) (hSE : hasKey S serverError = true) (hSr : ∀ kv ∈ S, kvRefs kv = [])
    (groups : List (Str × List RouteFn))
    (hg : ∀ kg ∈ groups, ∀ r ∈ kg.2, ∃ k n, n ∈ N ∧ r.payload = templatePayload k n)
    (rb paths rb' paths' : Dict) (hrun : bulkGroups groups rb paths = .ok (rb', paths'))
    (hinv : Inv ⟨rb, S, paths⟩) : Inv ⟨rb', S, paths'⟩ := by
  induction groups generalizing rb paths with
  | nil =>
    simp only [bulkGroups, Except.ok.injEq, Prod.mk.injEq] at hrun
    obtain ⟨rfl, rfl⟩ := hrun
    exact hinv
  | cons kg rest ih =>
    obtain ⟨k, g⟩ := kg
    simp only [bulkGroups] at hrun
    split at hrun
    · rename_i pd hpd
      split at hrun
      · rename_i route' pd' bodies hc
        obtain ⟨hw, hb⟩ := construct_ok _ _ _ _ _ hc
        have htpl : ∀ kv ∈ pd, TplVal N kv.2 := by
          intro kv hkv
          obtain ⟨r, hr, hp⟩ := updateD_mem g pd hpd kv hkv
          obtain ⟨k', n, hn, hpay⟩ := hg (k, g) List.mem_cons_self r hr
          exact Or.inl ⟨k', n, hn, by rw [hp, hpay]⟩
        have htpl' := withParams_tpl N _ _ _ _ htpl hw
        obtain ⟨bs, hbs, hall, hrefs⟩ := bodiesOf_tpl N hN pd' htpl'
        rw [hb] at hbs
        simp only [Except.ok.injEq] at hbs
        subst hbs
        refine ih (fun kg hkg => hg kg (List.mem_cons_of_mem _ hkg)) _ _ hrun ?_
        have hmono : ∀ n, hasKey rb n = true → hasKey (update rb bodies) n = true := fun n h => hasKey_update _ _ _ h
        have hschema : ∀ n, (n ∈ N ∨ n = serverError) → Res ⟨update rb bodies, S, setKey paths route' (.obj pd')⟩ (schemaRef n) := by
          intro n hn
          rcases hn with hn | rfl
          · exact Or.inl ⟨n, rfl, hN n hn, hS n hn⟩
          · exact Or.inl ⟨serverError, rfl, slash_not_mem_serverError, hSE⟩
        refine ⟨?_, ?_, hSr, hSE⟩
        · intro kv hkv r hr
          rcases mem_setKey _ _ _ _ hkv with hk | rfl
          · exact (hinv.paths kv hk r hr).mono_bodies hmono
          · rw [kvRefs_obj, mem_refsKvs] at hr
            obtain ⟨kv', hkv', hr'⟩ := hr
            rcases hrefs kv' hkv' r hr' with ⟨n, hn, rfl⟩ | ⟨n, hn, rfl, hmem⟩
            · exact hschema n hn
            · exact Or.inr ⟨bodyName n, rfl, slash_not_mem_bodyName n (hN n hn), hasKey_update_mem rb bodies _ hmem⟩
        · intro kv hkv r hr
          rcases mem_update _ _ kv hkv with hk | hk
          · exact (hinv.bodies kv hk r hr).mono_bodies hmono
          · obtain ⟨n, hn, rfl⟩ := hall kv hk
            rw [kvRefs_bulkBody] at hr
            simp only [List.mem_singleton] at hr
            subst hr
            exact hschema n (Or.inl hn)
      · cases hrun
    · cases hrun

theorem genRoutes_payload (a : Str) (e : Entry) (r : RouteFn) (h : r ∈ genRoutes a e) : ∃ k, r.payload = templatePayload k e.name := by
  unfold genRoutes at h
  simp only [List.mem_append] at h
  rcases h with (h | h) | h <;> split at h <;> simp at h <;> subst h
  · exact ⟨.create, rfl⟩
  · exact ⟨.read, rfl⟩
  · exact ⟨.destroy, rfl⟩

theorem bulkDoc_closed (app : Str) (ts : List Table) (es : List Entry) (routes : List RouteFn)
    (hroutes : ∀ r ∈ routes, ∃ e ∈ es, ∃ a, r ∈ genRoutes a e)
    (hname : ∀ e ∈ es, '/' ∉ e.name)
    (hkey : ∀ e ∈ es, ∃ t ∈ ts, bulkKey t.name = e.name)
    (hschema : ∀ t ∈ ts, refsKvs t.schema = [])
    (d : Doc) (h : bulkDoc app ts routes = .ok d) : Inv d := by
  unfold bulkDoc at h
  split at h
  · rename_i rb paths hrun
    simp only [Except.ok.injEq] at h
    subst h
    refine bulkGroups_inv (es.map (·.name)) ?_ (bulkSchemas ts) ?_ (hasKey_bulkSchemas_server ts) (bulkSchemas_norefs ts hschema)
      _ ?_ [] [] rb paths hrun ?_
    · intro n hn
      simp only [List.mem_map] at hn
      obtain ⟨e, he, rfl⟩ := hn
      exact hname e he
    · intro n hn
      simp only [List.mem_map] at hn
      obtain ⟨e, he, rfl⟩ := hn
      obtain ⟨t, ht, hk⟩ := hkey e he
      rw [← hk]; exact hasKey_bulkSchemas_table ts t ht
    · intro kg hkg r hr
      have hmem : r ∈ routes := by
        have := groupBy_mem _ kg hkg r hr
        unfold ofApp at this
        exact (List.mem_filter.mp this).1
      obtain ⟨e, he, a, hgen⟩ := hroutes r hmem
      obtain ⟨k, hk⟩ := genRoutes_payload a e r hgen
      exact ⟨k, e.name, List.mem_map_of_mem (f := (·.name)) he, hk⟩
    · exact ⟨fun kv hkv => nomatch hkv, fun kv hkv => nomatch hkv, bulkSchemas_norefs ts hschema, hasKey_bulkSchemas_server ts⟩
  · cases h

end OpenApi
