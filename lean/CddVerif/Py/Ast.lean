/-!
# A flat Python AST for the rewrite properties (C07, C12, C13, C19, C02)

Statements are structured as far as the modelled rewrites look (definitions, signatures, annotated / plain
assignments, expression statements); every *expression* is kept as its `ast.unparse` text, because none of the
modelled tools looks inside expressions.  The Python side of the conversion is `harness/impl/pyast.py`.
-/
namespace PyAst

structure Arg where
  name : String
  ann : Option String := none
deriving DecidableEq, Repr, Inhabited

/-- `ast.arguments`; `defaults` align with the END of `posonly ++ args` (CPython's convention) -/
structure Args where
  posonly : List Arg := []
  args : List Arg := []
  vararg : Option Arg := none
  kwonly : List Arg := []
  kwDefaults : List (Option String) := []
  kwarg : Option Arg := none
  defaults : List String := []
deriving DecidableEq, Repr, Inhabited

inductive Stmt where
  | fn (async : Bool) (name : String) (args : Args) (body : List Stmt) (decos : List String) (returns : Option String)
  | cls (name : String) (bases keywords : List String) (body : List Stmt) (decos : List String)
  | ann (target ann : String) (value : Option String)
  | assign (targets : List String) (value : String)
  /-- an expression statement whose value is a string constant (a docstring when first in a body) -/
  | strExpr (s : String)
  | expr (src : String)
  /-- any other statement, as source text -/
  | other (src : String)
deriving Repr, Inhabited

abbrev Module := List Stmt

mutual
def Stmt.beq : Stmt → Stmt → Bool
  | .fn a n g b d r, .fn a' n' g' b' d' r' => a == a' && n == n' && g == g' && beqList b b' && d == d' && r == r'
  | .cls n bs ks b d, .cls n' bs' ks' b' d' => n == n' && bs == bs' && ks == ks' && beqList b b' && d == d'
  | .ann t a v, .ann t' a' v' => t == t' && a == a' && v == v'
  | .assign t v, .assign t' v' => t == t' && v == v'
  | .strExpr s, .strExpr s' => s == s'
  | .expr s, .expr s' => s == s'
  | .other s, .other s' => s == s'
  | _, _ => false
def beqList : List Stmt → List Stmt → Bool
  | [], [] => true
  | x :: xs, y :: ys => Stmt.beq x y && beqList xs ys
  | _, _ => false
end
instance : BEq Stmt := ⟨Stmt.beq⟩

/-- name of a definition statement -/
def Stmt.defName? : Stmt → Option String
  | .fn _ n _ _ _ _ => some n
  | .cls n _ _ _ _ => some n
  | _ => none

def Stmt.body : Stmt → List Stmt
  | .fn _ _ _ b _ _ => b
  | .cls _ _ _ b _ => b
  | _ => []

/-- `ast.get_docstring`: the first statement of a body when it is a string expression -/
def docstringOf (body : List Stmt) : Option String :=
  match body with
  | .strExpr s :: _ => some s
  | _ => none

/-- all parameters in signature order: posonly, args, vararg, kwonly, kwarg -/
def Args.all (a : Args) : List Arg :=
  a.posonly ++ a.args ++ a.vararg.toList ++ a.kwonly ++ a.kwarg.toList

/-- default of the `i`-th positional parameter (posonly ++ args), using CPython's right alignment -/
def Args.positionalDefault? (a : Args) (i : Nat) : Option String :=
  let n := a.posonly.length + a.args.length
  let d := a.defaults.length
  if i < n ∧ n - d ≤ i then a.defaults[i - (n - d)]? else none

end PyAst
