import Lean.Data.Json
import CddVerif.Py.Ast
/-! JSON (de)serialisation of `PyAst` for the driver (format produced by `harness/impl/pyast.py`). -/
namespace PyAst
open Lean

def optStr (j : Json) (k : String) : Option String :=
  match j.getObjVal? k with | .ok (.str s) => some s | _ => none
def strList (j : Json) (k : String) : List String :=
  match j.getObjVal? k with
  | .ok (.arr a) => a.toList.filterMap (fun x => match x with | .str s => some s | _ => none)
  | _ => []
def argOf (j : Json) : Arg := { name := (optStr j "name").getD "", ann := optStr j "ann" }
def optArg (j : Json) (k : String) : Option Arg :=
  match j.getObjVal? k with | .ok (.obj o) => some (argOf (.obj o)) | _ => none
def argList (j : Json) (k : String) : List Arg :=
  match j.getObjVal? k with | .ok (.arr a) => a.toList.map argOf | _ => []
def argsOf (j : Json) : Args :=
  { posonly := argList j "posonly", args := argList j "args", vararg := optArg j "vararg", kwonly := argList j "kwonly",
    kwDefaults := (match j.getObjVal? "kw_defaults" with
      | .ok (.arr a) => a.toList.map (fun x => match x with | .str s => some s | _ => none) | _ => []),
    kwarg := optArg j "kwarg", defaults := strList j "defaults" }

partial def stmtOf (j : Json) : Stmt :=
  let body := match j.getObjVal? "body" with | .ok (.arr a) => a.toList.map stmtOf | _ => []
  match optStr j "k" with
  | some "fn" => .fn ((j.getObjVal? "async" >>= Json.getBool?).toOption.getD false) ((optStr j "name").getD "")
      (match j.getObjVal? "args" with | .ok a => argsOf a | _ => {}) body (strList j "decos") (optStr j "returns")
  | some "cls" => .cls ((optStr j "name").getD "") (strList j "bases") (strList j "keywords") body (strList j "decos")
  | some "ann" => .ann ((optStr j "target").getD "") ((optStr j "ann").getD "") (optStr j "value")
  | some "assign" => .assign (strList j "targets") ((optStr j "value").getD "")
  | some "str" => .strExpr ((optStr j "s").getD "")
  | some "expr" => .expr ((optStr j "src").getD "")
  | _ => .other ((optStr j "src").getD "")

def moduleOf (j : Json) : Module :=
  match j with | .arr a => a.toList.map stmtOf | _ => []

def optJ : Option String → Json | none => Json.null | some s => Json.str s
def strsJ (l : List String) : Json := Json.arr (l.map Json.str).toArray
def argJ (a : Arg) : Json := Json.mkObj [("name", Json.str a.name), ("ann", optJ a.ann)]
def optArgJ : Option Arg → Json | none => Json.null | some a => argJ a
def argsJ (a : Args) : Json := Json.mkObj [
  ("posonly", Json.arr (a.posonly.map argJ).toArray), ("args", Json.arr (a.args.map argJ).toArray), ("vararg", optArgJ a.vararg),
  ("kwonly", Json.arr (a.kwonly.map argJ).toArray), ("kw_defaults", Json.arr (a.kwDefaults.map optJ).toArray),
  ("kwarg", optArgJ a.kwarg), ("defaults", strsJ a.defaults)]

mutual
def stmtJ : Stmt → Json
  | .fn a n g b d r => Json.mkObj [("k", "fn"), ("async", Json.bool a), ("name", Json.str n), ("args", argsJ g),
      ("body", Json.arr (stmtsJ b).toArray), ("decos", strsJ d), ("returns", optJ r)]
  | .cls n bs ks b d => Json.mkObj [("k", "cls"), ("name", Json.str n), ("bases", strsJ bs), ("keywords", strsJ ks),
      ("body", Json.arr (stmtsJ b).toArray), ("decos", strsJ d)]
  | .ann t a v => Json.mkObj [("k", "ann"), ("target", Json.str t), ("ann", Json.str a), ("value", optJ v)]
  | .assign t v => Json.mkObj [("k", "assign"), ("targets", strsJ t), ("value", Json.str v)]
  | .strExpr s => Json.mkObj [("k", "str"), ("s", Json.str s)]
  | .expr s => Json.mkObj [("k", "expr"), ("src", Json.str s)]
  | .other s => Json.mkObj [("k", "other"), ("src", Json.str s)]
def stmtsJ : List Stmt → List Json
  | [] => []
  | s :: ss => stmtJ s :: stmtsJ ss
end

def moduleJ (m : Module) : Json := Json.arr (stmtsJ m).toArray

end PyAst
