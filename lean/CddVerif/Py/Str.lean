/-!
# Python `str` semantics on `List Char`

Every model in this project represents a Python `str` as `List Char` (one `Char` per code point).
The functions below are the subset of `str` methods the modelled code uses.  They are validated
against CPython by the `py.*` correspondence ops of the driver (see `harness/props/pystr.py`).
No imports: this file is part of the compiled, Mathlib-free driver.
-/
namespace Py
abbrev Str := List Char

/-- `str.isspace()` for one code point (CPython `_PyUnicode_IsWhitespace`: 29 code points). -/
def isSpaceC (c : Char) : Bool :=
  let n := c.toNat
  (0x09 ≤ n && n ≤ 0x0D) || (0x1C ≤ n && n ≤ 0x20) || n == 0x85 || n == 0xA0 || n == 0x1680 ||
  (0x2000 ≤ n && n ≤ 0x200A) || n == 0x2028 || n == 0x2029 || n == 0x202F || n == 0x205F || n == 0x3000

def isAsciiDigit (c : Char) : Bool := '0' ≤ c && c ≤ '9'
def isAsciiLower (c : Char) : Bool := 'a' ≤ c && c ≤ 'z'
def isAsciiUpper (c : Char) : Bool := 'A' ≤ c && c ≤ 'Z'
def isAsciiLetter (c : Char) : Bool := isAsciiLower c || isAsciiUpper c
def lowerC (c : Char) : Char := if isAsciiUpper c then Char.ofNat (c.toNat + 32) else c
def upperC (c : Char) : Char := if isAsciiLower c then Char.ofNat (c.toNat - 32) else c
/-- `str.lower()` on the ASCII range (the harness never sends cased non-ASCII to ops using it). -/
def lower (s : Str) : Str := s.map lowerC
def upper (s : Str) : Str := s.map upperC

def lstrip (s : Str) : Str := s.dropWhile isSpaceC
def rstrip (s : Str) : Str := (s.reverse.dropWhile isSpaceC).reverse
def strip (s : Str) : Str := rstrip (lstrip s)
/-- `s.isspace()`: non-empty and all whitespace. -/
def isspace (s : Str) : Bool := !s.isEmpty && s.all isSpaceC
/-- `s.lstrip(chars)` / `s.rstrip(chars)` / `s.strip(chars)` -/
def lstripChars (s : Str) (cs : List Char) : Str := s.dropWhile (cs.contains ·)
def rstripChars (s : Str) (cs : List Char) : Str := (s.reverse.dropWhile (cs.contains ·)).reverse
def stripChars (s : Str) (cs : List Char) : Str := rstripChars (lstripChars s cs) cs

def startsWith (s p : Str) : Bool := p.isPrefixOf s
def endsWith (s p : Str) : Bool := p.reverse.isPrefixOf s.reverse

/-- substring containment `p in s` -/
def contains (s p : Str) : Bool :=
  match s with
  | [] => p.isEmpty
  | c :: cs => p.isPrefixOf (c :: cs) || contains cs p

/-- `s.find(p)` searched on a suffix whose first index is `i`. -/
def findFrom (p : Str) : Str → Nat → Option Nat
  | [], i => if p.isEmpty then some i else none
  | c :: cs, i => if p.isPrefixOf (c :: cs) then some i else findFrom p cs (i + 1)
/-- `s.find(p)` as `Option` (`none` = `-1`). -/
def find (s p : Str) : Option Nat := findFrom p s 0
/-- `s.find(p, start)` for `0 ≤ start`. -/
def findAt (s p : Str) (start : Nat) : Option Nat :=
  if start > s.length then none else findFrom p (s.drop start) start
/-- `s.find(p)` as a Python int. -/
def findI (s p : Str) : Int := match find s p with | some i => i | none => -1
def findAtI (s p : Str) (start : Nat) : Int := match findAt s p start with | some i => i | none => -1

/-- `s.rfind(p)`: last index where `p` occurs. -/
def rfindFrom (p : Str) : Str → Nat → Option Nat → Option Nat
  | [], i, best => if p.isEmpty then some i else best
  | c :: cs, i, best => rfindFrom p cs (i + 1) (if p.isPrefixOf (c :: cs) then some i else best)
def rfind (s p : Str) : Option Nat := rfindFrom p s 0 none
def rfindI (s p : Str) : Int := match rfind s p with | some i => i | none => -1

/-- `s.count(c)` for one character. -/
def count1 (s : Str) (c : Char) : Nat := s.count c

/-- `s.count(p)` non-overlapping, `p` non-empty. -/
def countSub (p : Str) : Nat → Str → Nat
  | 0, _ => 0
  | _, [] => 0
  | fuel + 1, c :: cs =>
    if p.isPrefixOf (c :: cs) && !p.isEmpty then 1 + countSub p fuel ((c :: cs).drop p.length)
    else countSub p fuel cs
def count (s p : Str) : Nat := countSub p (s.length + 1) s

/-- `s.split(sep)` for a single-character separator. -/
def splitOn1 (sep : Char) : Str → Str → List Str
  | [], acc => [acc.reverse]
  | c :: cs, acc => if c == sep then acc.reverse :: splitOn1 sep cs [] else splitOn1 sep cs (c :: acc)
def split1 (s : Str) (sep : Char) : List Str := splitOn1 sep s []

/-- `s.split(sep)` for a non-empty string separator. -/
def splitOnAux (sep : Str) : Nat → Str → Str → List Str
  | 0, rest, acc => [acc.reverse ++ rest]
  | _, [], acc => [acc.reverse]
  | fuel + 1, c :: cs, acc =>
    if sep.isPrefixOf (c :: cs) then acc.reverse :: splitOnAux sep fuel ((c :: cs).drop sep.length) []
    else splitOnAux sep fuel cs (c :: acc)
def splitOn (s sep : Str) : List Str := splitOnAux sep (s.length + 1) s []

/-- `s.split()` with no argument: split on runs of whitespace, dropping empties. -/
def splitWsAux : Str → Str → List Str
  | [], acc => if acc.isEmpty then [] else [acc.reverse]
  | c :: cs, acc =>
    if isSpaceC c then (if acc.isEmpty then splitWsAux cs [] else acc.reverse :: splitWsAux cs [])
    else splitWsAux cs (c :: acc)
def splitWs (s : Str) : List Str := splitWsAux s []

/-- `sep.join(parts)` -/
def join (sep : Str) : List Str → Str
  | [] => []
  | [x] => x
  | x :: xs => x ++ sep ++ join sep xs

/-- `s.partition(sep)` → (before, sep-or-empty, after) -/
def partition (s sep : Str) : Str × Str × Str :=
  match find s sep with
  | some i => (s.take i, sep, s.drop (i + sep.length))
  | none => (s, [], [])
def rpartition (s sep : Str) : Str × Str × Str :=
  match rfind s sep with
  | some i => (s.take i, sep, s.drop (i + sep.length))
  | none => ([], [], s)

/-- `s.replace(a, b)` (all occurrences), `a` non-empty. -/
def replace (s a b : Str) : Str := join b (splitOn s a)
/-- `s.replace(a, b, 1)` -/
def replace1 (s a b : Str) : Str :=
  match find s a with
  | some i => s.take i ++ b ++ s.drop (i + a.length)
  | none => s

/-- Python index normalisation for slices: clamp `x` (possibly negative) into `[0, n]`. -/
def clampIdx (n : Nat) (x : Int) : Nat :=
  let y : Int := if x < 0 then (n : Int) + x else x
  if y < 0 then 0 else if y > (n : Int) then n else y.toNat

/-- Python `l[a:b]` (step 1) with `None` = `none` and negative bounds. -/
def slice {α} (l : List α) (a b : Option Int) : List α :=
  let lo := match a with | none => 0 | some x => clampIdx l.length x
  let hi := match b with | none => l.length | some x => clampIdx l.length x
  (l.drop lo).take (hi - lo)

/-- Python `l[i]`; `none` = `IndexError`. -/
def index? {α} (l : List α) (i : Int) : Option α :=
  let j : Int := if i < 0 then (l.length : Int) + i else i
  if j < 0 then none else l[j.toNat]?

/-- `str.splitlines()` restricted to `\n`, `\r`, `\r\n` line ends (keepends = False). -/
def splitlinesAux : Str → Str → List Str
  | [], acc => if acc.isEmpty then [] else [acc.reverse]
  | '\r' :: '\n' :: cs, acc => acc.reverse :: splitlinesAux cs []
  | c :: cs, acc =>
    if c == '\n' || c == '\r' then acc.reverse :: splitlinesAux cs [] else splitlinesAux cs (c :: acc)
def splitlines (s : Str) : List Str := splitlinesAux s []

/-- `str.isdecimal()` on ASCII digits (non-ASCII decimals are not generated by the harness). -/
def isdecimal (s : Str) : Bool := !s.isEmpty && s.all isAsciiDigit
/-- `str.isidentifier()` restricted to ASCII. -/
def isIdentifier (s : Str) : Bool :=
  match s with
  | [] => false
  | c :: cs => (isAsciiLetter c || c == '_') && cs.all (fun d => isAsciiLetter d || isAsciiDigit d || d == '_')

/-- `str.title()` on ASCII: first cased letter after an uncased char is upper, others lower. -/
def titleAux : Bool → Str → Str
  | _, [] => []
  | prevCased, c :: cs =>
    if isAsciiLetter c then (if prevCased then lowerC c else upperC c) :: titleAux true cs
    else c :: titleAux false cs
def title (s : Str) : Str := titleAux false s

/-- `str.capitalize()` on ASCII. -/
def capitalize (s : Str) : Str := match s with | [] => [] | c :: cs => upperC c :: lower cs

/-- Decimal rendering of a `Nat` / `Int` (`str(n)`). -/
def natToStr (n : Nat) : Str := (Nat.toDigits 10 n)
def intToStr (i : Int) : Str := if i < 0 then '-' :: natToStr i.natAbs else natToStr i.natAbs

/-- length as a Python int -/
def len {α} (l : List α) : Int := l.length

end Py
