import CddVerif.Proofs.DocFixpoint
import CddVerif.Properties.C01Whole
import CddVerif.Properties.C08
/-!
# C08 — one conversion round reaches a fixpoint: whole ReST docstrings, on the model

Properties/C08.lean proves the idempotent guards only.  Here the statement itself is **proved** for the model
(`Doc.emit … .rest`, `Doc.parseRest`) for every interface of the domain `C01Whole.InDomain` and all three flags:

* `hop et ww edd ir` — one conversion round: emit the docstring, parse it (`outside` is carried when the model abstains);
* **round 1** (`round1`, = `C01Whole.rest_roundtrip_full`): whenever the emitter answers, `hop ir = .ok (expIR ir et edd)`;
* **round 2** (`round2`): the emitter answers on `expIR ir et edd` too, and the parser gives `expIR ir et edd` back —
  `hop (expIR ir) = .ok (expIR ir)` (`hop_fixpoint`), hence `hopO (hop ir) = hop ir` with **no hypothesis besides the domain**
  (`hop_hop`: if round 1 abstains, so does every later round, with the same message);
* **every further round** (`all_rounds`, by `C08.fixpoint_all_rounds` instantiated at `Out IR`): for all `n`,
  `C08.rounds hopO (n+1) (.ok ir) = hop ir`; with word wrap off the emitter always answers on the domain, so all rounds are
  `.ok (expIR ir et edd)` outright (`all_rounds_noWrap`).

`expIR ir et edd` is in general **not** in `InDomain` (its descriptions end in ` Defaults to <v>`, inferred types appear),
so round 2 is not an instance of round 1.  What happens in round 2:

* `set_default_doc` leaves every description alone: it already mentions `Defaults` (the guard proved idempotent in
  C08.lean), or there is no default to document;
* where round 1 did not *infer* a type that is now emitted — types off, or the type was declared, or no default was
  carried (`DocRT.NoNewTypeLine`) — the emitter produces **the very same text** (`round2_same_text`);
* otherwise (`emit_types`, an untyped parameter with a carried default) round 2 emits one line more,
  ``:type <name>: ```int|bool|float``` ``, the text differs (`round2_text_differs`, a concrete interface), and the parser
  still returns `expIR ir et edd`: the declared-type pass of `interpolate_defaults` under the inferred type reads the very
  same value (`DocRT.fTyp_good'` with `compat_tyName`).  That extra line always fits when the `:param` line did: it is
  shorter (`DocRT.fits_inferred`), so word wrap cannot make round 2 abstain where round 1 answered.

## Side conditions

None beyond `InDomain ir`.  `round1`/`round2` as statements about texts carry the hypothesis "the emitter answered in
round 1" (`emit … = .ok s`; with word wrap on the model abstains on lines `textwrap.fill` would re-flow); `hop_hop`,
`all_rounds` need not even that.

Which restrictions of `InDomain` are essential **for the fixpoint** (as opposed to the round trip of C01)?  Two are shown
essential by witnesses on which round 2 differs from round 1 (both replayed on the real
`cdd.docstring.emit.docstring` / `cdd.docstring.parse.docstring`, which drift in exactly the same way, reaching a fixpoint
only after two rounds):

* *no announce phrase in a description* — `announce_variant_needed`: `"x. Default value is 3"` (any variant other than the
  emitter's own `Defaults to`, e.g. `Default: 3`): round 1 reads the default 3, round 2 documents it **again**
  (`"x. Default value is 3. Defaults to 3"`), because `set_default_doc` only looks for the words `Defaults`/`defaults`;
* *the type is not made of backticks* — `backtick_type_needed`: the type `` ``` `` comes back empty from round 1 and is
  dropped in round 2.

For the other restrictions (blank at an end, `Optional…` descriptions, `, optional` types, incompatible declared type,
`return_type` as a name, duplicate names, two-line descriptions, …) the out-of-domain witnesses of C01Whole lose
information in round 1 but *do* reach a fixpoint in round 1 (evaluated on the model, `outside_domain_still_fixpoint`; not a
theorem about all such interfaces).
-/
namespace C08Whole
open Py Doc DocRT C01Whole

/-- `cs!"abc"` = `['a','b','c']` -/
local macro:max "cs!" s:str : term => do
  let cs := s.getString.toList
  let elems := cs.map (fun c => Lean.Syntax.mkCharLit c)
  `(([$(elems.toArray),*] : List Char))

/-- **one conversion round** (ReST): emit, then parse; when the model abstains the message is carried -/
def hop (et ww edd : Bool) (ir : IR) : Out IR :=
  match emit ir .rest et ww edd with
  | .ok s => parseRest s edd
  | .outside w => .outside w

/-- a round applied to the result of the previous one -/
def hopO (et ww edd : Bool) : Out IR → Out IR
  | .ok ir => hop et ww edd ir
  | .outside w => .outside w

/-! ### the theorems -/

/-- **1. round 1** (this is `C01Whole.rest_roundtrip_full`) -/
theorem round1 (ir : IR) (et ww edd : Bool) (h : InDomain ir) (s : Str) (he : emit ir .rest et ww edd = .ok s) :
    parseRest s edd = .ok (expIR ir et edd) := rest_roundtrip_full ir et ww edd h s he

/-- **2. the second round changes nothing**: the emitter answers on the parsed interface and the parser returns it again -/
theorem round2 (ir : IR) (et ww edd : Bool) (h : InDomain ir) (s : Str) (he : emit ir .rest et ww edd = .ok s) :
    ∃ s', emit (expIR ir et edd) .rest et ww edd = .ok s' ∧ parseRest s' edd = .ok (expIR ir et edd) :=
  second_round ir et ww edd s (inDomain_sound ir h) he

/-- **2′. same text**: where round 1 inferred no type that is now emitted, round 2 produces the very same docstring -/
theorem round2_same_text (ir : IR) (et ww edd : Bool) (h : InDomain ir) (s : Str) (he : emit ir .rest et ww edd = .ok s)
    (hno : ∀ np ∈ ir.params, NoNewTypeLine et edd np.2) : emit (expIR ir et edd) .rest et ww edd = .ok s :=
  same_text_round2 ir et ww edd s (inDomain_sound ir h) he hno

/-- round 1 as a hop -/
theorem hop_round1 (ir : IR) (et ww edd : Bool) (h : InDomain ir) (s : Str) (he : emit ir .rest et ww edd = .ok s) :
    hop et ww edd ir = .ok (expIR ir et edd) := by
  unfold hop; rw [he]; exact round1 ir et ww edd h s he

/-- **`hop (hop ir) = hop ir`**, first form: the parsed interface is a fixpoint of the round -/
theorem hop_fixpoint (ir : IR) (et ww edd : Bool) (h : InDomain ir) (s : Str) (he : emit ir .rest et ww edd = .ok s) :
    hop et ww edd (expIR ir et edd) = .ok (expIR ir et edd) := by
  obtain ⟨s', h1, h2⟩ := round2 ir et ww edd h s he
  unfold hop; rw [h1]; exact h2

/-- **`hop (hop ir) = hop ir`** on the whole domain, whether or not the model's emitter answers -/
theorem hop_hop (ir : IR) (et ww edd : Bool) (h : InDomain ir) :
    hopO et ww edd (hop et ww edd ir) = hop et ww edd ir := by
  cases he : emit ir .rest et ww edd with
  | ok s =>
    rw [hop_round1 ir et ww edd h s he]
    exact hop_fixpoint ir et ww edd h s he
  | outside w =>
    have : hop et ww edd ir = .outside w := by unfold hop; rw [he]
    rw [this]; rfl

/-- **3. every further round** returns what round 1 returned (any `n`; `C08.fixpoint_all_rounds` at `Out IR`) -/
theorem all_rounds (ir : IR) (et ww edd : Bool) (h : InDomain ir) :
    ∀ n, C08.rounds (hopO et ww edd) (n + 1) (.ok ir) = hop et ww edd ir :=
  C08.fixpoint_all_rounds (hopO et ww edd) (.ok ir) (hop_hop ir et ww edd h)

/-- **3′.** … which is `expIR ir et edd` whenever the emitter answered in round 1 -/
theorem all_rounds_ok (ir : IR) (et ww edd : Bool) (h : InDomain ir) (s : Str) (he : emit ir .rest et ww edd = .ok s) :
    ∀ n, C08.rounds (hopO et ww edd) (n + 1) (.ok ir) = .ok (expIR ir et edd) := by
  intro n
  rw [all_rounds ir et ww edd h n]
  exact hop_round1 ir et ww edd h s he

/-- without word wrap the emitter answers on the whole domain -/
theorem emit_answers_noWrap (ir : IR) (et edd : Bool) (h : InDomain ir) : ∃ s, emit ir .rest et false edd = .ok s :=
  emit_total_noWrap ir et edd (inDomain_sound ir h)

/-- **3″.** without word wrap: all rounds, no hypothesis besides the domain -/
theorem all_rounds_noWrap (ir : IR) (et edd : Bool) (h : InDomain ir) :
    ∀ n, C08.rounds (hopO et false edd) (n + 1) (.ok ir) = .ok (expIR ir et edd) := by
  obtain ⟨s, hs⟩ := emit_answers_noWrap ir et edd h
  exact all_rounds_ok ir et false edd h s hs

/-- the per-format statement of C08.lean, restricted to the domain: rounds 2 and 3 agree with round 1 -/
theorem C08_full_on_domain (ir : IR) (et ww edd : Bool) (h : InDomain ir) :
    hopO et ww edd (hopO et ww edd (hopO et ww edd (.ok ir))) = hopO et ww edd (hopO et ww edd (.ok ir))
      ∧ hopO et ww edd (hopO et ww edd (.ok ir)) = hopO et ww edd (.ok ir) := by
  have e : hopO et ww edd (.ok ir) = hop et ww edd ir := rfl
  rw [e, hop_hop ir et ww edd h, hop_hop ir et ww edd h]
  exact ⟨rfl, rfl⟩

/-! ### non-vacuity -/

/-- `C01Whole.exIR`: header, a typed parameter without default, a typed one with default, an untyped one with a boolean
    and one with a decimal default (their types are inferred in round 1 and emitted in round 2), a typed one with a
    negative default, a typed return entry.  It is in the domain and the emitter answers under all eight flag settings. -/
example : InDomain exIR
    ∧ ([true, false].all fun et => [true, false].all fun ww => [true, false].all fun edd =>
        match emit exIR .rest et ww edd with | .ok _ => true | .outside _ => false) = true := by
  constructor <;> decide +kernel

/-- hence, for all flags, all rounds return `expIR exIR et edd` (instances of `all_rounds_ok`; the hypothesis is
    discharged by evaluation) -/
example (et ww edd : Bool) : ∀ n, C08.rounds (hopO et ww edd) (n + 1) (.ok exIR) = .ok (expIR exIR et edd) := by
  have hd : InDomain exIR := by decide +kernel
  have he : ∃ s, emit exIR .rest et ww edd = .ok s := by
    cases h : emit exIR .rest et ww edd with
    | ok s => exact ⟨s, rfl⟩
    | outside w =>
      have hall : ([true, false].all fun et => [true, false].all fun ww => [true, false].all fun edd =>
          match emit exIR .rest et ww edd with | .ok _ => true | .outside _ => false) = true := by decide +kernel
      cases et <;> cases ww <;> cases edd <;> simp [h] at hall
  obtain ⟨s, hs⟩ := he
  exact all_rounds_ok exIR et ww edd hd s hs

set_option maxRecDepth 100000 in
/-- **the text of round 2 differs from the text of round 1** when a type was inferred: `verbose` and `momentum` gain a
    `:type` line (compare the text in Properties/C01Whole.lean) — and the parse result is the same by `round2` -/
theorem round2_text_differs :
    emit (expIR exIR true true) .rest true true true = .ok cs!"Train it.\n\n:param lr: learning rate: step size\n:type lr: ```float```\n\n:param epochs: how long. Defaults to 10\n:type epochs: ```int```\n\n:param verbose: print progress, Defaults to True\n:type verbose: ```bool```\n\n:param momentum: beta. Defaults to 0.9\n:type momentum: ```float```\n\n:param offset: shift by this (in steps). Defaults to -3\n:type offset: ```Optional[int]```\n\n:return: the result\n:rtype: ```str```\n"
    ∧ emit (expIR exIR true true) .rest true true true ≠ emit exIR .rest true true true := by
  constructor <;> decide +kernel

/-- the hypothesis of `round2_same_text` is satisfiable non-trivially: with types off no new line can appear, and with
    `emit_default_doc` off no default is carried -/
example : (∀ np ∈ exIR.params, NoNewTypeLine false true np.2) ∧ (∀ np ∈ exIR.params, NoNewTypeLine true false np.2) := by
  constructor
  · intro np _; exact Or.inl rfl
  · intro np _; exact Or.inr (Or.inr rfl)

/-! ### which restrictions of the domain the fixpoint needs -/

/-- the three first rounds on the model, as far as it answers -/
def threeRounds (ir : IR) (et ww edd : Bool) : Out IR × Out IR × Out IR :=
  let a := hop et ww edd ir
  let b := hopO et ww edd a
  (a, b, hopO et ww edd b)

/-- **an announce phrase other than the emitter's own**: round 1 reads the default, round 2 documents it a second time;
    the fixpoint is reached only in round 2 -/
theorem announce_variant_needed :
    threeRounds { params := [(cs!"a", { doc := some cs!"x. Default value is 3" })] } true true true
      = (.ok { params := [(cs!"a", { typ := some cs!"int", doc := some cs!"x. Default value is 3", default := some (.int 3) })] },
         .ok { params := [(cs!"a", { typ := some cs!"int", doc := some cs!"x. Default value is 3. Defaults to 3", default := some (.int 3) })] },
         .ok { params := [(cs!"a", { typ := some cs!"int", doc := some cs!"x. Default value is 3. Defaults to 3", default := some (.int 3) })] }) := by
  decide +kernel

/-- hence `hop (hop ir) = hop ir` is false outside the domain -/
theorem hop_hop_false_outside : ¬ ∀ (ir : IR) (et ww edd : Bool), hopO et ww edd (hop et ww edd ir) = hop et ww edd ir := by
  intro h
  have := h { params := [(cs!"a", { doc := some cs!"x. Default value is 3" })] } true true true
  revert this; decide +kernel

/-- **a type made of backticks**: empty after round 1, dropped in round 2 -/
theorem backtick_type_needed :
    threeRounds { params := [(cs!"a", { typ := some cs!"```", doc := some cs!"x" })] } true true true
      = (.ok { params := [(cs!"a", { typ := some cs!"", doc := some cs!"x" })] },
         .ok { params := [(cs!"a", { doc := some cs!"x" })] },
         .ok { params := [(cs!"a", { doc := some cs!"x" })] }) := by
  decide +kernel

/-- the out-of-domain witnesses of C01Whole lose information in round 1, but round 2 changes nothing more
    (evaluated on these interfaces; not a theorem about the complement of the domain) -/
theorem outside_domain_still_fixpoint :
    ([ ({ params := [(cs!"a", { typ := some cs!"int", doc := some cs!"Optional weight" })] } : IR),
       { params := [(cs!"a", { typ := some cs!"int, optional", doc := some cs!"weight" })] },
       { params := [(cs!"a", { typ := some cs!"bool", doc := some cs!"weight", default := some (.int 5) })] },
       { params := [(cs!"a", { doc := some cs!"x defaults to 7" })] },
       { params := [(cs!"a", { doc := some cs!"a defaults", default := some (.int 3) })] },
       { doc := cs!"Header ", params := [(cs!"a", { doc := some cs!"x" })] },
       { params := [(cs!"a", { doc := some cs!"x" }), (cs!"a", { doc := some cs!"y" })] },
       { params := [(cs!"return_type", { doc := some cs!"x" })] },
       { params := [(cs!"a", { typ := some cs!"int" }), (cs!"b", { doc := some cs!"bee" })] } ].all
      fun ir => decide (hopO true true true (hop true true true ir) = hop true true true ir)) = true
    ∧ ([ ({ params := [(cs!"a", { doc := some cs!"size " })] } : IR),
         { params := [(cs!"a", { doc := some cs!"size\nmore" })] } ].all
        fun ir => decide (hopO true false true (hop true false true ir) = hop true false true ir)) = true := by
  constructor <;> decide +kernel

end C08Whole
