import CddVerif.Proofs.DocSplitStructNumpy
import CddVerif.Properties.C15
/-!
# C15 — where the split falls, for structured docstrings of unbounded size

`Properties/C15.lean` proves the slice algebra (`slice_partition`: the three slices concatenate to the original *if*
`start ≤ last` or one index is −1); that the walkers' indices are ordered, and *where* they fall, was only observed there.
Here both are **proved on the model** (`DocSplit.idxPair` = `_get_token_start_idx` / `_get_token_last_idx` of
`cdd/shared/docstring_utils.py`) for every docstring `header ++ section ++ footer` in an explicit decidable domain: any
number of lines, lines of any length.  Nothing in `Model/*.lean` is changed: every `for` loop of the walkers is restated as a
structural scan and proved equal to the model's definition (`Proofs/DocSplitStructLoops.lean`); the `while` loops are
characterised by stepping lemmas and a loop-invariant rule.

What is stated is what the walkers really return (found by evaluation first, then proved) — it is *not* "blank line + prose
= footer":

* `start` is always `|header|`: the header slice is the header, byte for byte (all styles).
* ReST / Google (`field_…`; the two styles go through the same code, `fieldTokens = restTokens ++ googleTokens`); `L` is
  the line holding the last member of `TOKENS_SET` that occurs as a word.  What follows `L` decides `last`:
  * **compact** (`field_compact_split`): `L` is directly followed by a line `T` starting with a token (`:return: …`) —
    `last` = end of `T`; the footer is the rest, starting with the newline of `T`.  (A `:rtype:` line after `:return:`
    is in the footer: `rtype_lands_in_footer`.)
  * **adjacent** (`field_adjacent_split`): `L`'s newline is followed by a non-blank, non-token character — `last` = right there.
  * **absorbed** (`field_absorbed_split`, `_pieces`, `_nl`): `L` is followed by white space (a blank line, an indented
    line — every Google docstring, every indented docstring, and the ReST layout this code base emits).  Then the
    footer slice is **only the last line of the docstring** without its indentation (empty if the docstring ends in a
    newline): prose after a blank line is in the *section* slice.
  * **unterminated** (`field_unterminated_split`): `L` is the last line, no newline after it — `last` = the length.
  * **no token word** (`field_no_token_split`; e.g. only `:return:` / `:rtype:` lines): `last = −1`, footer `None`.
  * **single unterminated section line** (`field_single_line_split`, `field_single_line_header_lost`): the section is one
    last line without a newline — `start = −1`: `_get_token_start_idx` only acts on a newline, the header is **not** split
    off (header `None`; on the real code conversion then loses the header prose: `single_line_witness`).
  * **`Raises:`** as the last token (`field_raises_split`, `_pieces`): `last` = the newline before the heading.  If it
    is the *only* heading, `start = |header| > last = |header| − 1` for **every** such docstring and the slices do not
    concatenate to the original (`raises_only_not_partition`; real code: same pair).
* NumPy (`numpy_split`, `numpy_partitions`, `numpy_no_colon_cut`): `last` = (answer of the line loop of
  `_get_token_last_idx_if_no_next_token`) + 1, never before the body of the last section; when that body has no colon
  (the usual `Returns` section) the footer slice begins at the **second character** of the first body line.
  Indented NumPy docstrings (`numpy_indented_split`) behave like the absorbed shape: an indented underline is not "a line
  made of dashes", so neither numpydoc-specific branch is taken.
* On the union of the domains (`Structured`) `C15.C15_split_full` is a theorem with no ordering hypothesis
  (`C15_split_structured`, `idx_ordered`); the parts are the pieces byte for byte (`exact_parts`), and conversion keeps
  header and footer around the new section (`exact_whence`, `field_…_whence`, `numpy_whence`, `whence_slices`).

## The domain (all clauses are `Bool` functions, evaluated by `decide` on the examples)

* header lines `hs`: each one line that does not start (after indentation) with a member of `TOKENS_SET` (`headerLineOk`;
  prefix test — `Returns the value` is rejected; tokens *inside* a header line are allowed);
* section lines `ss ++ [L]`: one line each; the first starts (after indentation) with a ReST or Google token (`fieldStart`);
  `L`'s last token event is a plain token word (`tokLine`);
* what follows is **quiet** (`quiet`: scanning it, `_last_doc_str_token` finds nothing) and shaped as the family says;
* adjacent / absorbed / unterminated / Raises: `2 ≤ |header ++ earlier section lines|` (a newline at an index ≥ 1 before `L`;
  used for `_get_start_of_last_found`; evaluation suggests it is not needed, it is not proved away);
* NumPy: underline at least as long as the heading, body quiet; unindented: no token at any line start of the body;
  indented: the body starts with white space.

## Which restrictions are essential

`…_needed` theorems at the end: each is a concrete docstring violating one clause on which the model (evaluated by the
kernel through `DSS.idxPairF`, proved equal to `idxPair` for every string) returns a different pair; each was replayed on
the real walkers with `/venv/bin/python`, which return the same pair.  `header_exact_keyword_line_harmless` and
`numpy_format_irrelevant` document two clauses that are sufficient but not necessary / not needed.
-/
namespace C15Struct
open Py DocUtils DocSplit DSS C15

/-- `cs!"abc"` = `['a','b','c']` (character-list literal, evaluates under `decide`) -/
local macro:max "cs!" s:str : term => do
  let cs := s.getString.toList
  let elems := cs.map (fun c => Lean.Syntax.mkCharLit c)
  `(([$(elems.toArray),*] : List Char))

/-! ## the domain (decidable clauses; definitions in `Proofs/DocSplitStructField.lean`) -/

/-- what all field-list shapes share: header lines `hs`, section lines `ss ++ [L]` -/
def fieldCommon (hs ss : List Str) (L : Str) : Bool :=
  hs.all headerLineOk && ss.all lineOk && fieldStart ((ss ++ [L]).headD []) && tokLine L

/-- **compact** field list: the last-token line `L` is directly followed by one more line `T` that starts with a token
    (`:return: …`), and after `T` comes nothing or a newline and text in which the walker finds no token -/
def compactDom (hs ss : List Str) (L T footer : Str) : Bool :=
  fieldCommon hs ss L && lineOk T && startsWithAny tokensSet T && (footer.isEmpty || footer.head? == some '\n')
    && quiet none [] (T ++ footer)

/-- **Structural split, compact field list (clause 1 of C15, exact):** `start = |header|`, `last = |header| + |section|`
    with `section = (lines ss) ++ L ++ "\n" ++ T` -/
theorem field_compact_split (hs ss : List Str) (L T footer : Str) (h : compactDom hs ss L T footer = true) :
    idxPair (unlines hs ++ (unlines ss ++ L ++ '\n' :: T) ++ footer)
      = .ok (((unlines hs).length : Int), (((unlines hs).length + (unlines ss ++ L ++ '\n' :: T).length : Nat) : Int)) := by
  simp only [compactDom, fieldCommon, Bool.and_eq_true, Bool.or_eq_true, beq_iff_eq, List.isEmpty_iff] at h
  obtain ⟨⟨⟨⟨⟨⟨⟨hh, hss⟩, hF⟩, hL⟩, hT⟩, hTtok⟩, hfoot⟩, hq⟩ := h
  obtain ⟨hstart, hfmt, lf, hlf, hlo, hhi⟩ := field_frame hs ss L (T ++ footer) hh hss hF hL hq
  have hLok : '\n' ∉ L := by simp only [tokLine, Bool.and_eq_true] at hL; exact lineOk_sound L hL.1
  have hd : unlines hs ++ (unlines ss ++ L ++ '\n' :: T) ++ footer = unlines (hs ++ ss) ++ L ++ '\n' :: (T ++ footer) := by
    simp [unlines_append]
  rw [hd]
  have hlast := last_compact (unlines (hs ++ ss)) L T footer lf hlf hlo hhi hLok (lineOk_sound T hT) hTtok hfoot hfmt
  rw [idxPair_of _ _ _ hstart hlast]
  congr 3
  simp only [unlines_append, List.length_append, List.length_cons]; omega

/-- **adjacent** field list: the section ends with the newline of the last-token line `L`; the footer is empty or starts
    with a non-blank character that does not begin a token, and the walker finds no token in it -/
def adjacentDom (hs ss : List Str) (L footer : Str) : Bool :=
  fieldCommon hs ss L && !isRaises L && decide (2 ≤ (unlines (hs ++ ss)).length)
    && (match footer with | [] => true | c :: _ => !isSpaceC c) && !startsWithAny tokensSet footer && quiet none [] footer

/-- **Structural split, adjacent footer:** `start = |header|`, `last = |header| + |section|` with
    `section = (lines ss) ++ L ++ "\n"` -/
theorem field_adjacent_split (hs ss : List Str) (L footer : Str) (h : adjacentDom hs ss L footer = true) :
    idxPair (unlines hs ++ (unlines ss ++ L ++ ['\n']) ++ footer)
      = .ok (((unlines hs).length : Int), (((unlines hs).length + (unlines ss ++ L ++ ['\n']).length : Nat) : Int)) := by
  simp only [adjacentDom, fieldCommon, Bool.and_eq_true, Bool.not_eq_true', decide_eq_true_eq] at h
  obtain ⟨⟨⟨⟨⟨⟨⟨⟨hh, hss⟩, hF⟩, hL⟩, hR⟩, h2⟩, hfs⟩, hnt⟩, hq⟩ := h
  obtain ⟨hstart, hfmt, lf, hlf, hlo, hhi⟩ := field_frame hs ss L footer hh hss hF hL hq
  have hd : unlines hs ++ (unlines ss ++ L ++ ['\n']) ++ footer = unlines (hs ++ ss) ++ L ++ '\n' :: footer := by
    simp [unlines_append]
  rw [hd]
  obtain ⟨p, hp, hpe⟩ := unlines_snoc (hs ++ ss) h2
  have hpost : footer = [] ∨ ∃ c cs, footer = c :: cs ∧ isSpaceC c = false := by
    cases footer with
    | nil => exact Or.inl rfl
    | cons c cs => exact Or.inr ⟨c, cs, rfl, by simpa using hfs⟩
  rw [hpe] at hlf hlo hhi hfmt hstart ⊢
  have hlast := last_adjacent p L footer lf hlf hlo hhi hp (tokLine_lineOk L hL) hpost hnt (tokLine_not_dashes L hL) hfmt
  rw [lineVerdict_none _ _ hR] at hlast
  rw [idxPair_of _ _ _ hstart hlast]
  have hlen : (p ++ ['\n']).length = (unlines hs).length + (unlines ss).length := by
    rw [← hpe, unlines_append, List.length_append]
  congr 3
  simp only [Option.getD_none, List.length_append, List.length_cons, List.length_nil] at hlen ⊢; omega

/-- **absorbed** field list (the usual layout of this code base's ReST docstrings, and of every Google docstring): the
    last-token line `L` is followed by white space — a blank line or an indented line — and then by anything in which the
    walker finds no token -/
def absorbedDom (hs ss : List Str) (L post : Str) : Bool :=
  fieldCommon hs ss L && !isRaises L && decide (2 ≤ (unlines (hs ++ ss)).length)
    && (match post with | [] => false | c :: _ => isSpaceC c) && quiet none [] post

/-- **Structural split, absorbed shape:** `start = |header|`, `last = |d| − |absorbedFooter d|` where `absorbedFooter d` is
    the last line of `d` without its indentation (empty if that line is empty or starts with a token) -/
theorem field_absorbed_split (hs ss : List Str) (L post : Str) (h : absorbedDom hs ss L post = true) :
    idxPair (unlines hs ++ unlines ss ++ L ++ '\n' :: post)
      = .ok (((unlines hs).length : Int),
             (((unlines hs ++ unlines ss ++ L ++ '\n' :: post).length
                - (absorbedFooter (unlines hs ++ unlines ss ++ L ++ '\n' :: post)).length : Nat) : Int)) := by
  simp only [absorbedDom, fieldCommon, Bool.and_eq_true, Bool.not_eq_true', decide_eq_true_eq] at h
  obtain ⟨⟨⟨⟨⟨⟨⟨hh, hss⟩, hF⟩, hL⟩, hR⟩, h2⟩, hws⟩, hq⟩ := h
  obtain ⟨hstart, hfmt, lf, hlf, hlo, hhi⟩ := field_frame hs ss L post hh hss hF hL hq
  have hd : unlines hs ++ unlines ss ++ L ++ '\n' :: post = unlines (hs ++ ss) ++ L ++ '\n' :: post := by
    simp [unlines_append]
  rw [hd]
  generalize hdd : unlines (hs ++ ss) ++ L ++ '\n' :: post = d at *
  obtain ⟨p, hp, hpe⟩ := unlines_snoc (hs ++ ss) h2
  have hpost : ∃ w ws, post = w :: ws ∧ isSpaceC w = true := by
    cases post with
    | nil => cases hws
    | cons c cs => exact ⟨c, cs, rfl, hws⟩
  obtain ⟨A, hA⟩ := lastLine_decomp d (by rw [← hdd]; simp)
  rw [hpe] at hlo hhi hdd
  have hlast := last_absorbed d p L post A (lastLine d) lf hdd.symm hA hlf hlo hhi hp (tokLine_lineOk L hL)
    (lastLine_noNl d) hpost (tokLine_not_dashes L hL) hfmt
  rw [lineVerdict_none _ _ hR, absorbed_last d A hA] at hlast
  rw [idxPair_of _ _ _ hstart hlast]
  congr 2
  by_cases ht : startsWithAny tokensSet (lstrip (lastLine d)) = true
  · simp [ht, absorbedFooter]
  · simp [ht]

/-- … as three pieces: header, *some* section, and the footer `absorbedFooter d` = the last line of the whole string
    without its indentation (empty if the string ends with a newline, or if that line starts with a token) -/
theorem field_absorbed_pieces (hs ss : List Str) (L post : Str) (h : absorbedDom hs ss L post = true) :
    ∃ sec, unlines hs ++ unlines ss ++ L ++ '\n' :: post
             = unlines hs ++ sec ++ absorbedFooter (unlines hs ++ unlines ss ++ L ++ '\n' :: post)
      ∧ idxPair (unlines hs ++ sec ++ absorbedFooter (unlines hs ++ unlines ss ++ L ++ '\n' :: post))
          = .ok (((unlines hs).length : Int), (((unlines hs).length + sec.length : Nat) : Int)) := by
  have hidx := field_absorbed_split hs ss L post h
  generalize hdd : unlines hs ++ unlines ss ++ L ++ '\n' :: post = d at *
  have hnl : '\n' ∈ d := by rw [← hdd]; simp
  have hle : (absorbedFooter d).length ≤ post.length := by
    have h1 := absorbedFooter_le d
    have h2 := lastLine_le (unlines hs ++ unlines ss ++ L) post
    rw [hdd] at h2; omega
  have hpre : unlines hs <+: d := ⟨unlines ss ++ L ++ '\n' :: post, by rw [← hdd]; simp⟩
  have hlen : (unlines hs).length + (absorbedFooter d).length ≤ d.length := by
    rw [← hdd] at hle ⊢; simp only [List.length_append, List.length_cons] at hle ⊢; omega
  obtain ⟨sec, hsec⟩ := split3 d (unlines hs) (absorbedFooter d) hpre (absorbedFooter_suffix d hnl) hlen
  refine ⟨sec, hsec, ?_⟩
  rw [← hsec, hidx]
  congr 3
  have := congrArg List.length hsec
  simp only [List.length_append] at this; omega

/-- in particular, when the docstring ends with a newline **the footer slice is empty**: everything after the header,
    blank-line-separated prose included, is in the section slice -/
theorem field_absorbed_nl (hs ss : List Str) (L post : Str) (h : absorbedDom hs ss L (post ++ ['\n']) = true) :
    idxPair (unlines hs ++ unlines ss ++ L ++ '\n' :: (post ++ ['\n']))
      = .ok (((unlines hs).length : Int), ((unlines hs ++ unlines ss ++ L ++ '\n' :: (post ++ ['\n'])).length : Int)) := by
  rw [field_absorbed_split hs ss L _ h]
  have : unlines hs ++ unlines ss ++ L ++ '\n' :: (post ++ ['\n']) = (unlines hs ++ unlines ss ++ L ++ '\n' :: post) ++ ['\n'] := by simp
  have hf : absorbedFooter (unlines hs ++ unlines ss ++ L ++ '\n' :: (post ++ ['\n'])) = [] := by
    rw [this]; unfold absorbedFooter; rw [lastLine_append_nl]; rfl
  rw [hf]; simp

/-- **unterminated** field list: the last-token line `L` is the last line of the docstring, has no newline after it, and
    starts (after indentation) with a token; at least one section line precedes it -/
def unterminatedDom (hs ss : List Str) (L : Str) : Bool :=
  hs.all headerLineOk && ss.all lineOk && !ss.isEmpty && fieldStart (ss.headD []) && lineOk L
    && (lastEv none [] L .none == .plain) && startsWithAny tokensSet (lstrip L) && decide (2 ≤ (unlines (hs ++ ss)).length)

/-- **Structural split, unterminated last line:** `start = |header|`, `last = |d|` (no footer) -/
theorem field_unterminated_split (hs ss : List Str) (L : Str) (h : unterminatedDom hs ss L = true) :
    idxPair (unlines hs ++ (unlines ss ++ L) ++ [])
      = .ok (((unlines hs).length : Int), (((unlines hs).length + (unlines ss ++ L).length : Nat) : Int)) := by
  simp only [unterminatedDom, Bool.and_eq_true, Bool.not_eq_true', decide_eq_true_eq, beq_iff_eq] at h
  obtain ⟨⟨⟨⟨⟨⟨⟨hh, hss⟩, hne⟩, hF⟩, hLok⟩, hL⟩, htok⟩, h2⟩ := h
  have hne' : ss ≠ [] := by intro e; rw [e] at hne; cases hne
  obtain ⟨hstart, hfmt, lf, hlf, hlo, hhi⟩ := field_frame_unterminated hs ss L hh hss hF hne' hL
  have hd : unlines hs ++ (unlines ss ++ L) ++ [] = unlines (hs ++ ss) ++ L := by simp [unlines_append]
  rw [hd]
  obtain ⟨p, hp, hpe⟩ := unlines_snoc (hs ++ ss) h2
  rw [hpe] at hlf hlo hhi hfmt hstart ⊢
  have hlast := last_unterminated p L lf hlf hlo hhi hp (lineOk_sound L hLok) (tokStart_not_dashes L htok) hfmt
  simp only [htok, if_true] at hlast
  rw [idxPair_of _ _ _ hstart hlast]
  have hlen : (p ++ ['\n']).length = (unlines hs).length + (unlines ss).length := by
    rw [← hpe, unlines_append, List.length_append]
  congr 3
  simp only [List.length_append, List.length_cons, List.length_nil] at hlen ⊢; omega

/-- the whole section is **one last line without a newline** (`L` starts, after indentation, with a ReST / Google token
    and holds a token word) -/
def singleLineDom (hs : List Str) (L : Str) : Bool :=
  hs.all headerLineOk && lineOk L && fieldStart L && (lastEv none [] L .none == .plain)
    && startsWithAny tokensSet (lstrip L) && decide (2 ≤ (unlines hs).length)

/-- **Single unterminated section line: the header is not found.**  `_get_token_start_idx` acts only when it reads a
    newline, so the last line is never examined: `start = −1`, `last = |d|`; the header slice is `None` and the section
    slice is the whole docstring, header included. -/
theorem field_single_line_split (hs : List Str) (L : Str) (h : singleLineDom hs L = true) :
    idxPair (unlines hs ++ L) = .ok (-1, ((unlines hs ++ L).length : Int))
    ∧ rawParts (unlines hs ++ L) (-1) ((unlines hs ++ L).length : Int) = (none, unlines hs ++ L, some []) := by
  simp only [singleLineDom, Bool.and_eq_true, decide_eq_true_eq, beq_iff_eq] at h
  obtain ⟨⟨⟨⟨⟨hh, hLok⟩, hF⟩, hL⟩, htok⟩, h2⟩ := h
  obtain ⟨hstart, hfmt, lf, hlf, hlo, hhi⟩ := field_frame_single hs L hh hF (lineOk_sound L hLok) hL
  obtain ⟨p, hp, hpe⟩ := unlines_snoc hs h2
  rw [hpe] at hlf hlo hhi hfmt hstart ⊢
  have hlast := last_unterminated p L lf hlf hlo hhi hp (lineOk_sound L hLok) (tokStart_not_dashes L htok) hfmt
  simp only [htok, if_true] at hlast
  refine ⟨idxPair_of _ _ _ hstart hlast, ?_⟩
  unfold rawParts
  have h1 : ¬ ((-1 : Int) > -1) := by omega
  have h3 : (((p ++ ['\n'] ++ L).length : Int) > -1) = True := by simp; omega
  have h4 : (((p ++ ['\n'] ++ L).length : Int) != -1) = true := by simp; omega
  simp only [h1, if_false, h3, if_true, h4]
  generalize p ++ ['\n'] ++ L = d
  have e1 : slice d none (some (d.length : Int)) = d := by
    rw [slice_to _ _ (by omega), Int.toNat_natCast, List.take_length]
  have e2 : slice d (some (d.length : Int)) none = [] := by rw [slice_from_nat, List.drop_length]
  rw [e1, e2]

/-- hence `parse_docstring_into_header_args_footer(current, original)` with such an original returns **no header**:
    whatever is re-assembled from it does not get the original's header prose from the split -/
theorem field_single_line_header_lost (hs : List Str) (L : Str) (h : singleLineDom hs L = true) (cur : Str)
    (hd a ft : Option Str) (hp : parseHAF cur (unlines hs ++ L) = .ok (hd, a, ft)) : hd = none := by
  obtain ⟨hidx, hparts⟩ := field_single_line_split hs L h
  have hne : unlines hs ++ L ≠ [] := by
    simp only [singleLineDom, Bool.and_eq_true, decide_eq_true_eq] at h
    intro e; have := congrArg List.length e; simp only [List.length_append, List.length_nil] at this; omega
  obtain ⟨e1, _⟩ := parseHAF_parts cur _ _ _ hne hidx hd a ft hp
  rw [e1, hparts]

/-! ## no token word at all (e.g. a ReST section with only `:return:` / `:rtype:` lines) -/

/-- the section starts with a line that begins with a ReST / Google token, but no white-space-delimited word of the
    whole docstring is a member of `TOKENS_SET` (`:return:` and `:rtype:` are not: they carry a trailing colon) -/
def noTokenDom (hs : List Str) (F rest : Str) : Bool :=
  hs.all headerLineOk && lineOk F && fieldStart F && quiet none [] (unlines hs ++ F ++ '\n' :: rest)

/-- then `last = −1`: the header is split off exactly, everything else is the section, the footer is `None` -/
theorem field_no_token_split (hs : List Str) (F rest : Str) (h : noTokenDom hs F rest = true) :
    idxPair (unlines hs ++ F ++ '\n' :: rest) = .ok (((unlines hs).length : Int), -1)
    ∧ rawParts (unlines hs ++ F ++ '\n' :: rest) ((unlines hs).length : Int) (-1) = (some (unlines hs), F ++ '\n' :: rest, none)
    ∧ Partitions (unlines hs ++ F ++ '\n' :: rest) ((unlines hs).length : Int) (-1) := by
  simp only [noTokenDom, Bool.and_eq_true] at h
  obtain ⟨⟨⟨hh, hFok⟩, hF⟩, hq⟩ := h
  have hstart : tokenStartIdx (unlines hs ++ F ++ '\n' :: rest).toArray = ((unlines hs).length : Int) := by
    rw [tokenStartIdx_eq]
    have hd : unlines hs ++ F ++ '\n' :: rest = unlines hs ++ (F ++ '\n' :: rest) := by simp
    conv => lhs; arg 2; rw [hd]
    rw [startScan_header _ hs _ 0 (headerOk_sound hs hh)]
    obtain ⟨h1, h2⟩ := fieldStart_fires F hF
    rw [startScan_fire _ F _ _ (lineOk_sound F hFok) h1 h2]; simp
  refine ⟨idxPair_of _ _ _ hstart (tokenLastIdx_quiet _ hq), ?_, slice_partition _ _ _ (by omega) (Or.inr (Or.inl rfl))⟩
  unfold rawParts
  have h1 : (((unlines hs).length : Int) > -1) = True := by simp; omega
  simp only [h1, if_true, show ¬ ((-1 : Int) > -1) by omega, if_false, show ((-1 : Int) != -1) = false by decide, Bool.false_eq_true]
  rw [slice_to _ _ (by omega), slice_from_nat]
  simp [List.append_assoc]

/-! ## the Google `Raises:` heading as the last token -/

/-- the text after a `Raises:` line for which `_get_token_last_idx` reaches `_get_token_last_idx_if_no_next_token` -/
def raisesPostOk (d post : Str) : Bool :=
  match post with
  | [] => true
  | c :: _ => if isSpaceC c then !startsWithAny tokensSet (lstrip (lastLine d)) else !startsWithAny tokensSet post

/-- the last token is the heading `Raises:` (line `L`), nothing token-like follows -/
def raisesDom (hs ss : List Str) (L post : Str) : Bool :=
  fieldCommon hs ss L && isRaises L && decide (2 ≤ (unlines (hs ++ ss)).length) && quiet none [] post
    && raisesPostOk (unlines hs ++ unlines ss ++ L ++ '\n' :: post) post

/-- **`Raises:` short-circuit**: the split point is the newline *before* the `Raises:` line — the heading and everything
    after it is footer -/
theorem field_raises_split (hs ss : List Str) (L post : Str) (h : raisesDom hs ss L post = true) :
    idxPair (unlines hs ++ unlines ss ++ L ++ '\n' :: post)
      = .ok (((unlines hs).length : Int), (((unlines hs ++ unlines ss).length - 1 : Nat) : Int)) := by
  simp only [raisesDom, fieldCommon, Bool.and_eq_true, decide_eq_true_eq] at h
  obtain ⟨⟨⟨⟨⟨⟨⟨hh, hss⟩, hF⟩, hL⟩, hR⟩, h2⟩, hq⟩, hpo⟩ := h
  obtain ⟨hstart, hfmt, lf, hlf, hlo, hhi⟩ := field_frame hs ss L post hh hss hF hL hq
  have hd : unlines hs ++ unlines ss ++ L ++ '\n' :: post = unlines (hs ++ ss) ++ L ++ '\n' :: post := by
    simp [unlines_append]
  rw [hd] at hpo ⊢
  obtain ⟨p, hp, hpe⟩ := unlines_snoc (hs ++ ss) h2
  have hlen : (unlines hs ++ unlines ss).length = (p ++ ['\n']).length := by rw [← hpe, unlines_append]
  have hres : (((p ++ ['\n']).length : Nat) : Int) - 1 = (((unlines hs ++ unlines ss).length - 1 : Nat) : Int) := by
    rw [hlen]; simp only [List.length_append, List.length_singleton]; omega
  rw [hpe] at hlf hlo hhi hfmt hstart hpo ⊢
  cases hpost : post with
  | nil =>
    subst hpost
    have hlast := last_adjacent p L [] lf hlf hlo hhi hp (tokLine_lineOk L hL) (Or.inl rfl) rfl (tokLine_not_dashes L hL) hfmt
    rw [lineVerdict_raises _ _ hR, Option.getD_some, hres] at hlast
    exact idxPair_of _ _ _ hstart hlast
  | cons c cs =>
    subst hpost
    simp only [raisesPostOk] at hpo
    by_cases hc : isSpaceC c = true
    · simp only [hc, if_true, Bool.not_eq_true'] at hpo
      generalize hdd : p ++ ['\n'] ++ L ++ '\n' :: c :: cs = d at *
      obtain ⟨A, hA⟩ := lastLine_decomp d (by rw [← hdd]; simp)
      have hlast := last_absorbed d p L (c :: cs) A (lastLine d) lf hdd.symm hA hlf hlo hhi hp (tokLine_lineOk L hL)
        (lastLine_noNl d) ⟨c, cs, rfl, hc⟩ (tokLine_not_dashes L hL) hfmt
      rw [lineVerdict_raises _ _ hR, Option.getD_some, hres] at hlast
      simp only [hpo, Bool.false_eq_true, if_false] at hlast
      exact idxPair_of _ _ _ hstart hlast
    · have hc' : isSpaceC c = false := by simpa using hc
      simp only [hc', Bool.false_eq_true, if_false, Bool.not_eq_true'] at hpo
      have hlast := last_adjacent p L (c :: cs) lf hlf hlo hhi hp (tokLine_lineOk L hL) (Or.inr ⟨c, cs, rfl, hc'⟩) hpo
        (tokLine_not_dashes L hL) hfmt
      rw [lineVerdict_raises _ _ hR, Option.getD_some, hres] at hlast
      exact idxPair_of _ _ _ hstart hlast

/-- … as three pieces when another section line precedes the heading: the section is those lines without their last
    newline, the footer starts with that newline -/
theorem field_raises_pieces (hs ss : List Str) (L post : Str) (h : raisesDom hs ss L post = true) (hne : ss ≠ []) :
    ∃ sec, unlines ss = sec ++ ['\n'] ∧
      idxPair (unlines hs ++ sec ++ ('\n' :: (L ++ '\n' :: post)))
        = .ok (((unlines hs).length : Int), (((unlines hs).length + sec.length : Nat) : Int)) := by
  have hidx := field_raises_split hs ss L post h
  obtain ⟨sec, hsec⟩ : ∃ sec, unlines ss = sec ++ ['\n'] := by
    rcases List.eq_nil_or_concat ss with h0 | ⟨ss', l, h0⟩
    · exact absurd h0 hne
    · subst h0
      exact ⟨unlines ss' ++ l, by rw [List.concat_eq_append, unlines_append, unlines_cons, unlines_nil]; simp⟩
  refine ⟨sec, hsec, ?_⟩
  have hd : unlines hs ++ sec ++ ('\n' :: (L ++ '\n' :: post)) = unlines hs ++ unlines ss ++ L ++ '\n' :: post := by
    rw [hsec]; simp
  rw [hd, hidx]
  congr 3
  rw [List.length_append, hsec]; simp

/-! ## consequences of an exact split `idxPair (h ++ s ++ f) = (|h|, |h| + |s|)` -/

/-- the indices are ordered (the hypothesis of `C15.split_partial`, discharged) -/
theorem exact_ordered (h s f : Str)
    (hidx : idxPair (h ++ s ++ f) = .ok ((h.length : Int), ((h.length + s.length : Nat) : Int)))
    (a b : Int) (hab : idxPair (h ++ s ++ f) = .ok (a, b)) : 0 ≤ a ∧ a ≤ b := by
  rw [hidx] at hab
  injection hab with hab
  simp only [Prod.mk.injEq] at hab
  omega

/-- the three parts are the three pieces, byte for byte -/
theorem exact_parts (h s f : Str)
    (hidx : idxPair (h ++ s ++ f) = .ok ((h.length : Int), ((h.length + s.length : Nat) : Int)))
    (a b : Int) (hab : idxPair (h ++ s ++ f) = .ok (a, b)) : rawParts (h ++ s ++ f) a b = (some h, s, some f) := by
  rw [hidx] at hab
  injection hab with hab
  simp only [Prod.mk.injEq] at hab
  rw [← hab.1, ← hab.2]; exact rawParts_exact h s f

/-- the split is a partition — `C15.C15_split_full` on this docstring, with no ordering hypothesis -/
theorem exact_partitions (h s f : Str)
    (hidx : idxPair (h ++ s ++ f) = .ok ((h.length : Int), ((h.length + s.length : Nat) : Int)))
    (a b : Int) (hab : idxPair (h ++ s ++ f) = .ok (a, b)) : Partitions (h ++ s ++ f) a b := by
  unfold Partitions
  rw [exact_parts h s f hidx a b hab]; rfl

/-- conversion (`ensure_doc_args_whence_original` with this docstring as the original) returns the original itself or
    `header ++ (something) ++ footer`: every header line, in order, before the new section; every footer line after it -/
theorem exact_whence (h s f : Str) (hne : h ++ s ++ f ≠ [])
    (hidx : idxPair (h ++ s ++ f) = .ok ((h.length : Int), ((h.length + s.length : Nat) : Int)))
    (cur r : Str) (hw : whence cur (h ++ s ++ f) = .ok r) : r = h ++ s ++ f ∨ ∃ mid, r = h ++ mid ++ f :=
  whence_sandwich cur h s f r hne hidx hw

/-- conversion with a **compact** docstring as the original: header lines first, footer lines last -/
theorem field_compact_whence (hs ss : List Str) (L T footer : Str) (h : compactDom hs ss L T footer = true) (cur r : Str)
    (hw : whence cur (unlines hs ++ (unlines ss ++ L ++ '\n' :: T) ++ footer) = .ok r) :
    r = unlines hs ++ (unlines ss ++ L ++ '\n' :: T) ++ footer ∨ ∃ mid, r = unlines hs ++ mid ++ footer :=
  exact_whence _ _ _ (by simp) (field_compact_split hs ss L T footer h) cur r hw

theorem field_adjacent_whence (hs ss : List Str) (L footer : Str) (h : adjacentDom hs ss L footer = true) (cur r : Str)
    (hw : whence cur (unlines hs ++ (unlines ss ++ L ++ ['\n']) ++ footer) = .ok r) :
    r = unlines hs ++ (unlines ss ++ L ++ ['\n']) ++ footer ∨ ∃ mid, r = unlines hs ++ mid ++ footer :=
  exact_whence _ _ _ (by simp) (field_adjacent_split hs ss L footer h) cur r hw

/-- … with an **absorbed** docstring as the original: only the header (and the last, unterminated line, if any) is kept
    apart from the section -/
theorem field_absorbed_whence (hs ss : List Str) (L post : Str) (h : absorbedDom hs ss L post = true) (cur r : Str)
    (hw : whence cur (unlines hs ++ unlines ss ++ L ++ '\n' :: post) = .ok r) :
    r = unlines hs ++ unlines ss ++ L ++ '\n' :: post
      ∨ ∃ mid, r = unlines hs ++ mid ++ absorbedFooter (unlines hs ++ unlines ss ++ L ++ '\n' :: post) := by
  obtain ⟨sec, hsec, hidx⟩ := field_absorbed_pieces hs ss L post h
  have hne : unlines hs ++ sec ++ absorbedFooter (unlines hs ++ unlines ss ++ L ++ '\n' :: post) ≠ [] := by
    rw [← hsec]; simp
  rw [hsec] at hw
  rcases exact_whence _ _ _ hne hidx cur r hw with h1 | h1
  · left; rw [h1, ← hsec]
  · right; exact h1

/-- conversion with any docstring as the original, in terms of its own index pair: the result is the original, or starts
    with the header slice and ends with the footer slice -/
theorem whence_slices (d : Str) (s l : Int) (hne : d ≠ []) (hidx : idxPair d = .ok (s, l)) (cur r : Str)
    (hw : whence cur d = .ok r) :
    r = d ∨ ((rawParts d s l).1.getD [] <+: r ∧ (rawParts d s l).2.2.getD [] <:+ r) := by
  rcases whence_preserves_header cur d r hw with h | ⟨hd, a, ft, hp, h1, h2⟩
  · exact Or.inl h
  · right
    obtain ⟨e1, e2⟩ := parseHAF_parts cur d s l hne hidx hd a ft hp
    rw [e1] at h1; rw [e2] at h2
    exact ⟨h1, h2⟩

/-! ## `start > last` -/

/-- slice algebra, the other direction: with `0 ≤ last < start ≤ |d|` header and footer overlap and the three slices do
    **not** concatenate to the original -/
theorem not_partitions_of_gt (d : Str) (s l : Int) (h0 : 0 ≤ l) (hlt : l < s) (hs : s ≤ d.length) : ¬ Partitions d s l := by
  unfold Partitions rawParts
  have h1 : (s > -1) = True := by simp; omega
  have h2 : (l > -1) = True := by simp; omega
  have h3 : (l != -1) = true := by simp; omega
  simp only [h1, h2, h3, if_true, Option.getD_some]
  rw [slice_to d s (by omega), slice_mid d s l (by omega) h0, slice_from d l h0]
  intro h
  have := congrArg List.length h
  simp only [List.length_append, List.length_take, List.length_drop] at this
  omega

/-- **every docstring whose only section heading is `Raises:` violates the partition**: the walkers return
    `start = |header|`, `last = |header| - 1`; the newline before `Raises:` is in the header slice *and* in the footer slice -/
theorem raises_only_not_partition (hs : List Str) (L post : Str) (h : raisesDom hs [] L post = true) :
    ∃ s l, idxPair (unlines hs ++ L ++ '\n' :: post) = .ok (s, l) ∧ l < s
      ∧ ¬ Partitions (unlines hs ++ L ++ '\n' :: post) s l := by
  have hidx := field_raises_split hs [] L post h
  simp only [raisesDom, Bool.and_eq_true, decide_eq_true_eq] at h
  have h2 : 2 ≤ (unlines hs).length := by have := h.1.1.2; simpa using this
  simp only [unlines_nil, List.append_nil] at hidx
  refine ⟨_, _, hidx, by omega, ?_⟩
  apply not_partitions_of_gt _ _ _ (by omega) (by omega)
  simp only [List.length_append]; omega

/-! ## NumPy style -/

/-- **NumPy** docstring: header lines `hs`; earlier section lines `es` (e.g. a whole `Parameters` section when the last
    heading is `Returns`); the last heading `K` (`Parameters` / `Returns`, not indented) with its underline `D` (dashes, at
    least as many as `K` has letters); then `body`.  The first two lines of the section are a heading and an underline;
    the walker finds no token in `body`; no line of `body` starts (after indentation) with a token.  Nothing is asked
    of `derive_docstring_format`: the theorem holds whether or not a ReST / Google token occurs somewhere (both exits of
    `_get_end_of_last_found` are covered). -/
def numpyDom (hs es : List Str) (K D body : Str) : Bool :=
  hs.all headerLineOk && es.all lineOk
    && (match es ++ [K, D] with | F0 :: F1 :: _ => inSet numpySet F0 && allDashes F1 | _ => false)
    && inSet numpySet K && allDashes D && decide (K.length ≤ D.length)
    && decide (2 ≤ (unlines (hs ++ es)).length)
    && quiet none [] body && lineStartsOk true body

/-- index of the first character of `body` -/
def numpyBodyStart (hs es : List Str) (K D : Str) : Nat := (unlines (hs ++ es)).length + K.length + 1 + D.length + 1

/-- **NumPy split**: `start = |header|` exactly; `last = e + 1` where `e` is the answer of the line loop of
    `_get_token_last_idx_if_no_next_token` (the model's `loopC`, run from the first line of `body`), and `e` is never
    before the start of `body` -/
theorem numpy_split (hs es : List Str) (K D body : Str) (h : numpyDom hs es K D body = true) :
    ∃ e : Nat, numpyBodyStart hs es K D ≤ e
      ∧ e = ((loopC (unlines hs ++ unlines es ++ K ++ '\n' :: (D ++ '\n' :: body)).toArray).run
                (cStart (numpyBodyStart hs es K D))).1.prevEnd
      ∧ idxPair (unlines hs ++ unlines es ++ K ++ '\n' :: (D ++ '\n' :: body))
          = .ok (((unlines hs).length : Int), ((e + 1 : Nat) : Int)) := by
  simp only [numpyDom, Bool.and_eq_true, decide_eq_true_eq] at h
  obtain ⟨⟨⟨⟨⟨⟨⟨⟨hh, hes⟩, hF⟩, hK⟩, hD⟩, hKD⟩, h2⟩, hq⟩, hls⟩ := h
  generalize hdd : unlines hs ++ unlines es ++ K ++ '\n' :: (D ++ '\n' :: body) = d at *
  obtain ⟨p, hp, hpe⟩ := unlines_snoc (hs ++ es) h2
  have hd2 : d = p ++ ['\n'] ++ K ++ '\n' :: (D ++ '\n' :: body) := by
    rw [← hdd, ← hpe, unlines_append]
  have hS : numpyBodyStart hs es K D = p.length + 1 + K.length + 1 + D.length + 1 := by
    unfold numpyBodyStart; rw [hpe]; simp only [List.length_append, List.length_singleton]
  -- last
  have hlast := numpy_last p K D body hp hK hD hKD hq hls
  rw [← hd2, ← hS] at hlast
  -- start
  have hstart : tokenStartIdx d.toArray = ((unlines hs).length : Int) := by
    cases hsl : es ++ [K, D] with
    | nil => simp at hsl
    | cons F0 tl =>
      cases tl with
      | nil =>
        have := congrArg List.length hsl
        simp at this
      | cons F1 tl' =>
        rw [hsl] at hF
        simp only [Bool.and_eq_true] at hF
        have hd3 : d = unlines hs ++ F0 ++ '\n' :: (F1 ++ '\n' :: (unlines tl' ++ body)) := by
          have : d = unlines hs ++ (unlines (es ++ [K, D]) ++ body) := by
            rw [← hdd]; simp [unlines_append, unlines_cons, unlines_nil]
          rw [this, hsl]; simp [unlines_cons]
        rw [hd3]; exact numpy_start hs F0 F1 _ hh hF.1 hF.2
  refine ⟨_, ?_, rfl, ?_⟩
  · exact loopC_prevEnd_ge d.toArray _ (cStart (numpyBodyStart hs es K D)) (Nat.le_refl _) (Nat.le_refl _)
  · rw [idxPair_of _ _ _ hstart hlast]
    congr 3

/-- **NumPy, consequences**: the indices are ordered (strictly), the header slice is the header byte for byte, the three
    slices concatenate to the original, and conversion keeps the header as a prefix -/
theorem numpy_partitions (hs es : List Str) (K D body : Str) (h : numpyDom hs es K D body = true) :
    ∃ s l, idxPair (unlines hs ++ unlines es ++ K ++ '\n' :: (D ++ '\n' :: body)) = .ok (s, l)
      ∧ s = ((unlines hs).length : Int) ∧ s < l ∧ (numpyBodyStart hs es K D : Int) < l
      ∧ (rawParts (unlines hs ++ unlines es ++ K ++ '\n' :: (D ++ '\n' :: body)) s l).1 = some (unlines hs)
      ∧ Partitions (unlines hs ++ unlines es ++ K ++ '\n' :: (D ++ '\n' :: body)) s l := by
  obtain ⟨e, he, _, hidx⟩ := numpy_split hs es K D body h
  have hb : (unlines hs).length ≤ numpyBodyStart hs es K D := by
    unfold numpyBodyStart; simp only [unlines_append, List.length_append]; omega
  refine ⟨_, _, hidx, rfl, by omega, by omega, ?_, ?_⟩
  · have : unlines hs ++ unlines es ++ K ++ '\n' :: (D ++ '\n' :: body) = unlines hs ++ (unlines es ++ K ++ '\n' :: (D ++ '\n' :: body)) := by simp
    rw [this]; exact rawParts_header _ _ _
  · exact slice_partition _ _ _ (by omega) (Or.inr (Or.inr (by omega)))

/-- **NumPy, body without a colon** (the usual `Returns` section: a type line and indented prose): the line loop never
    moves, `last = (start of body) + 1` — the footer slice begins at the **second character** of the first body line -/
theorem numpy_no_colon_cut (hs es : List Str) (K D body : Str) (h : numpyDom hs es K D body = true) (hc : ':' ∉ body) :
    idxPair (unlines hs ++ unlines es ++ K ++ '\n' :: (D ++ '\n' :: body))
      = .ok (((unlines hs).length : Int), ((numpyBodyStart hs es K D + 1 : Nat) : Int)) := by
  obtain ⟨e, _, he, hidx⟩ := numpy_split hs es K D body h
  have : unlines hs ++ unlines es ++ K ++ '\n' :: (D ++ '\n' :: body) = (unlines (hs ++ es) ++ K ++ '\n' :: D) ++ '\n' :: body := by
    simp [unlines_append]
  have hS : numpyBodyStart hs es K D = (unlines (hs ++ es) ++ K ++ '\n' :: D).length + 1 := by
    unfold numpyBodyStart; simp only [List.length_append, List.length_cons]; omega
  rw [this, hS, loopC_no_colon _ body hc] at he
  rw [hidx, he, ← hS]

/-- **NumPy, conversion**: the result is the original or starts with the header, byte for byte -/
theorem numpy_whence (hs es : List Str) (K D body : Str) (h : numpyDom hs es K D body = true) (cur r : Str)
    (hw : whence cur (unlines hs ++ unlines es ++ K ++ '\n' :: (D ++ '\n' :: body)) = .ok r) :
    r = unlines hs ++ unlines es ++ K ++ '\n' :: (D ++ '\n' :: body) ∨ unlines hs <+: r := by
  obtain ⟨s, l, hidx, _, _, _, hhead, _⟩ := numpy_partitions hs es K D body h
  rcases whence_slices _ s l (by simp) hidx cur r hw with h1 | ⟨h1, _⟩
  · exact Or.inl h1
  · right; rw [hhead] at h1; exact h1

/-- **indented NumPy** docstring (as it sits in a function body): the last heading line `K'` and its underline line `D'`
    are indented (`D'` by at least one blank), the first heading of the section is followed by an underline that is all
    dashes after skipping the heading's indentation, the body starts with white space and is quiet -/
def numpyIndDom (hs es : List Str) (K' D' body : Str) : Bool :=
  hs.all headerLineOk && es.all lineOk && lineOk K' && lineOk D'
    && (match es ++ [K', D'] with
        | F0 :: F1 :: _ => inSet numpySet (lstrip F0) && decide (leadingWs F0 ≤ F1.length) && allDashes (F1.drop (leadingWs F0))
        | _ => false)
    && inSet numpySet (lstrip K') && allDashes (lstrip D') && decide ((lstrip K').length ≤ (lstrip D').length)
    && decide (1 ≤ leadingWs D')
    && (match body with | [] => false | c :: _ => isSpaceC c) && quiet none [] body

/-- **Indented NumPy split**: `start = |header|`; `last` is that of the absorbed shape — the footer slice is only the last
    line of the docstring without its indentation (both numpydoc-specific branches test for a line made of dashes
    *only*, which an indented underline is not) -/
theorem numpy_indented_split (hs es : List Str) (K' D' body : Str) (h : numpyIndDom hs es K' D' body = true) :
    idxPair (unlines hs ++ unlines es ++ K' ++ '\n' :: (D' ++ '\n' :: body))
      = .ok (((unlines hs).length : Int),
             (((unlines hs ++ unlines es ++ K' ++ '\n' :: (D' ++ '\n' :: body)).length
                - (absorbedFooter (unlines hs ++ unlines es ++ K' ++ '\n' :: (D' ++ '\n' :: body))).length : Nat) : Int)) := by
  simp only [numpyIndDom, Bool.and_eq_true, decide_eq_true_eq] at h
  obtain ⟨⟨⟨⟨⟨⟨⟨⟨⟨⟨hh, hes⟩, hKok⟩, hDok⟩, hF⟩, hK⟩, hD⟩, hKD⟩, hind⟩, hb⟩, hq⟩ := h
  have hbody : ∃ w ws, body = w :: ws ∧ isSpaceC w = true := by
    cases body with
    | nil => cases hb
    | cons c cs => exact ⟨c, cs, rfl, hb⟩
  have hd0 : unlines hs ++ unlines es ++ K' ++ '\n' :: (D' ++ '\n' :: body) = unlines (hs ++ es) ++ K' ++ '\n' :: (D' ++ '\n' :: body) := by
    rw [unlines_append]
  have hlast := numpy_ind_last (unlines (hs ++ es)) K' D' body (unlines_end _) (lineOk_sound D' hDok) hK hD hKD hind hbody hq
  rw [← hd0] at hlast
  have hstart : tokenStartIdx (unlines hs ++ unlines es ++ K' ++ '\n' :: (D' ++ '\n' :: body)).toArray = ((unlines hs).length : Int) := by
    have hall : ∀ l ∈ es ++ [K', D'], '\n' ∉ l := by
      intro l hl
      rcases List.mem_append.mp hl with hl | hl
      · exact lineOk_sound l (List.all_eq_true.mp hes l hl)
      · simp only [List.mem_cons, List.not_mem_nil, or_false] at hl
        rcases hl with hl | hl
        · rw [hl]; exact lineOk_sound K' hKok
        · rw [hl]; exact lineOk_sound D' hDok
    cases hsl : es ++ [K', D'] with
    | nil => simp at hsl
    | cons F0 tl =>
      cases tl with
      | nil =>
        have := congrArg List.length hsl
        simp at this
      | cons F1 tl' =>
        rw [hsl] at hF hall
        simp only [Bool.and_eq_true, decide_eq_true_eq] at hF
        have hd3 : unlines hs ++ unlines es ++ K' ++ '\n' :: (D' ++ '\n' :: body)
            = unlines hs ++ F0 ++ '\n' :: (F1 ++ '\n' :: (unlines tl' ++ body)) := by
          have : unlines hs ++ unlines es ++ K' ++ '\n' :: (D' ++ '\n' :: body) = unlines hs ++ (unlines (es ++ [K', D']) ++ body) := by
            simp [unlines_append, unlines_cons, unlines_nil]
          rw [this, hsl]; simp [unlines_cons]
        rw [hd3]
        exact numpy_start_ind hs F0 F1 _ hh (hall F0 List.mem_cons_self)
          (hall F1 (List.mem_cons_of_mem _ List.mem_cons_self)) hF.1.1 hF.1.2 hF.2
  exact idxPair_of _ _ _ hstart hlast

/-! ## the domain as one predicate, and `C15.C15_split_full` on it -/

/-- the structured docstrings covered by the theorems above (ReST, Google, NumPy; any number of header lines, section
    lines and footer lines, lines of any length) -/
inductive Structured : Str → Prop
  | compact (hs ss : List Str) (L T footer : Str) (h : compactDom hs ss L T footer = true) :
      Structured (unlines hs ++ (unlines ss ++ L ++ '\n' :: T) ++ footer)
  | adjacent (hs ss : List Str) (L footer : Str) (h : adjacentDom hs ss L footer = true) :
      Structured (unlines hs ++ (unlines ss ++ L ++ ['\n']) ++ footer)
  | absorbed (hs ss : List Str) (L post : Str) (h : absorbedDom hs ss L post = true) :
      Structured (unlines hs ++ unlines ss ++ L ++ '\n' :: post)
  | unterminated (hs ss : List Str) (L : Str) (h : unterminatedDom hs ss L = true) :
      Structured (unlines hs ++ (unlines ss ++ L) ++ [])
  | raises (hs ss : List Str) (L post : Str) (h : raisesDom hs ss L post = true) (hne : ss ≠ []) :
      Structured (unlines hs ++ unlines ss ++ L ++ '\n' :: post)
  | noToken (hs : List Str) (F rest : Str) (h : noTokenDom hs F rest = true) :
      Structured (unlines hs ++ F ++ '\n' :: rest)
  | singleLine (hs : List Str) (L : Str) (h : singleLineDom hs L = true) : Structured (unlines hs ++ L)
  | numpy (hs es : List Str) (K D body : Str) (h : numpyDom hs es K D body = true) :
      Structured (unlines hs ++ unlines es ++ K ++ '\n' :: (D ++ '\n' :: body))
  | numpyInd (hs es : List Str) (K' D' body : Str) (h : numpyIndDom hs es K' D' body = true) :
      Structured (unlines hs ++ unlines es ++ K' ++ '\n' :: (D' ++ '\n' :: body))

/-- **`C15.C15_split_full` restricted to the domain is a theorem** — no ordering hypothesis: on every structured
    docstring the walkers' indices are ordered and the three slices concatenate to the original. -/
theorem C15_split_structured (d : Str) (s l : Int) (hd : Structured d) (h : idxPair d = .ok (s, l)) :
    (s ≤ l ∨ l = -1) ∧ Partitions d s l := by
  cases hd with
  | compact hs ss L T footer hdom =>
    have hidx := field_compact_split hs ss L T footer hdom
    exact ⟨Or.inl (exact_ordered _ _ _ hidx s l h).2, exact_partitions _ _ _ hidx s l h⟩
  | adjacent hs ss L footer hdom =>
    have hidx := field_adjacent_split hs ss L footer hdom
    exact ⟨Or.inl (exact_ordered _ _ _ hidx s l h).2, exact_partitions _ _ _ hidx s l h⟩
  | absorbed hs ss L post hdom =>
    obtain ⟨sec, hsec, hidx⟩ := field_absorbed_pieces hs ss L post hdom
    rw [hsec] at h ⊢
    exact ⟨Or.inl (exact_ordered _ _ _ hidx s l h).2, exact_partitions _ _ _ hidx s l h⟩
  | unterminated hs ss L hdom =>
    have hidx := field_unterminated_split hs ss L hdom
    exact ⟨Or.inl (exact_ordered _ _ _ hidx s l h).2, exact_partitions _ _ _ hidx s l h⟩
  | raises hs ss L post hdom hne =>
    obtain ⟨sec, hsec, hidx⟩ := field_raises_pieces hs ss L post hdom hne
    have hd : unlines hs ++ unlines ss ++ L ++ '\n' :: post = unlines hs ++ sec ++ ('\n' :: (L ++ '\n' :: post)) := by
      rw [hsec]; simp
    rw [hd] at h ⊢
    exact ⟨Or.inl (exact_ordered _ _ _ hidx s l h).2, exact_partitions _ _ _ hidx s l h⟩

  | noToken hs F rest hdom =>
    obtain ⟨hidx, _, hpart⟩ := field_no_token_split hs F rest hdom
    rw [hidx] at h
    injection h with h
    simp only [Prod.mk.injEq] at h
    rw [← h.1, ← h.2]
    exact ⟨Or.inr rfl, hpart⟩
  | singleLine hs L hdom =>
    obtain ⟨hidx, _⟩ := field_single_line_split hs L hdom
    rw [hidx] at h
    injection h with h
    simp only [Prod.mk.injEq] at h
    rw [← h.1, ← h.2]
    exact ⟨Or.inl (by omega), slice_partition _ _ _ (by omega) (Or.inl (by omega))⟩
  | numpy hs es K D body hdom =>
    obtain ⟨s', l', hidx, hs', hlt, _, _, hpart⟩ := numpy_partitions hs es K D body hdom
    rw [hidx] at h
    injection h with h
    simp only [Prod.mk.injEq] at h
    rw [← h.1, ← h.2]
    exact ⟨Or.inl (by omega), hpart⟩
  | numpyInd hs es K' D' body hdom =>
    have hidx := numpy_indented_split hs es K' D' body hdom
    rw [hidx] at h
    injection h with h
    simp only [Prod.mk.injEq] at h
    rw [← h.1, ← h.2]
    have hle : (unlines hs).length ≤ (unlines hs ++ unlines es ++ K' ++ '\n' :: (D' ++ '\n' :: body)).length
        - (absorbedFooter (unlines hs ++ unlines es ++ K' ++ '\n' :: (D' ++ '\n' :: body))).length := by
      have h1 := absorbedFooter_le (unlines hs ++ unlines es ++ K' ++ '\n' :: (D' ++ '\n' :: body))
      have h2 := lastLine_le (unlines hs ++ unlines es ++ K' ++ '\n' :: D') body
      have e : unlines hs ++ unlines es ++ K' ++ '\n' :: D' ++ '\n' :: body
          = unlines hs ++ unlines es ++ K' ++ '\n' :: (D' ++ '\n' :: body) := by simp
      rw [e] at h2
      simp only [List.length_append, List.length_cons] at h1 h2 ⊢
      omega
    exact ⟨Or.inl (by omega), slice_partition _ _ _ (by omega) (Or.inr (Or.inr (by omega)))⟩

/-- `idx_ordered`: on the domain `start ≤ last`, or `last = −1` (no token word at all) -/
theorem idx_ordered (d : Str) (s l : Int) (hd : Structured d) (h : idxPair d = .ok (s, l)) : s ≤ l ∨ l = -1 :=
  (C15_split_structured d s l hd h).1

/-! ## non-vacuity: concrete docstrings -/

/-- a two-paragraph header -/
def exHs : List Str := [cs!"Summary line.", [], cs!"Second paragraph", cs!"continues here, mentions :param in passing.", []]

/-- ReST, compact: two parameters with types (a blank line between them), a return line, a footer -/
def exSs : List Str := [cs!":param a: first", cs!":type a: ```int```", [], cs!":param b: second"]
def exL : Str := cs!":type b: ```str```"
def exT : Str := cs!":return: the result"
def exFooter : Str := cs!"\n\nNotes about usage.\nMore notes.\n"
def exDoc : Str := cs!"Summary line.\n\nSecond paragraph\ncontinues here, mentions :param in passing.\n\n:param a: first\n:type a: ```int```\n\n:param b: second\n:type b: ```str```\n:return: the result\n\nNotes about usage.\nMore notes.\n"

/-- the hypotheses hold … -/
example : compactDom exHs exSs exL exT exFooter = true := by decide +kernel
example : unlines exHs ++ (unlines exSs ++ exL ++ '\n' :: exT) ++ exFooter = exDoc := by decide +kernel
/-- … hence (instance of `field_compact_split`, not an evaluation) the split is at 77 = |header| and 168 = |header| + |section| -/
example : idxPair exDoc = .ok (77, 168) := by
  have h := field_compact_split exHs exSs exL exT exFooter (by decide +kernel)
  have e : unlines exHs ++ (unlines exSs ++ exL ++ '\n' :: exT) ++ exFooter = exDoc := by decide +kernel
  have e1 : (unlines exHs).length = 77 := by decide +kernel
  have e2 : (unlines exSs ++ exL ++ '\n' :: exT).length = 91 := by decide +kernel
  rw [e, e1, e2] at h; exact h
/-- the same pair by evaluating the model (through the twin `idxPairF`, proved equal to `idxPair`) -/
example : idxPair exDoc = .ok (77, 168) := idxPair_of_F _ _ (by decide +kernel)
/-- and the parts are the pieces -/
example : rawParts exDoc 77 168 = (some (unlines exHs), unlines exSs ++ exL ++ '\n' :: exT, some exFooter) := by decide +kernel

/-- ReST in the layout this code base emits (blank line before `:return:`; **absorbed**): the footer slice is empty -/
def exPost2 : Str := cs!"\n:return: the result\n:rtype: ```bool```\n\nNotes about usage.\n"
example : absorbedDom exHs exSs exL exPost2 = true := by decide +kernel
example : idxPair (unlines exHs ++ unlines exSs ++ exL ++ '\n' :: exPost2) = .ok (77, 209)
    ∧ (unlines exHs ++ unlines exSs ++ exL ++ '\n' :: exPost2).length = 209 := by
  refine ⟨?_, by decide +kernel⟩
  have h := field_absorbed_nl exHs exSs exL cs!"\n:return: the result\n:rtype: ```bool```\n\nNotes about usage." (by decide +kernel)
  have e1 : (unlines exHs).length = 77 := by decide +kernel
  have e2 : (unlines exHs ++ unlines exSs ++ exL ++ '\n' :: (cs!"\n:return: the result\n:rtype: ```bool```\n\nNotes about usage." ++ ['\n'])).length = 209 := by decide +kernel
  rw [e1, e2] at h; exact h

/-- Google (**absorbed**, the docstring does not end in a newline): the footer slice is the last line without its indentation -/
def exSs3 : List Str := [cs!"Args:", cs!"  a (int): first", cs!"  b (str): second", []]
def exPost3 : Str := cs!"  bool: the result\n\nNotes about usage.\n  last line"
example : absorbedDom exHs exSs3 cs!"Returns:" exPost3 = true := by decide +kernel
set_option maxRecDepth 10000 in
example : idxPair (unlines exHs ++ unlines exSs3 ++ cs!"Returns:" ++ '\n' :: exPost3) = .ok (77, 169)
    ∧ absorbedFooter (unlines exHs ++ unlines exSs3 ++ cs!"Returns:" ++ '\n' :: exPost3) = cs!"last line" := by
  refine ⟨?_, by decide +kernel⟩
  have h := field_absorbed_split exHs exSs3 cs!"Returns:" exPost3 (by decide +kernel)
  have e1 : (unlines exHs).length = 77 := by decide +kernel
  have e2 : (unlines exHs ++ unlines exSs3 ++ cs!"Returns:" ++ '\n' :: exPost3).length
      - (absorbedFooter (unlines exHs ++ unlines exSs3 ++ cs!"Returns:" ++ '\n' :: exPost3)).length = 169 := by decide +kernel
  rw [e1, e2] at h; exact h

/-- Google with a `Raises:` section after `Args:`: the footer starts at the newline before `Raises:` -/
def exSs4 : List Str := [cs!"Args:", cs!"  a (int): first", []]
example : raisesDom exHs exSs4 cs!"Raises:" cs!"  ValueError: bad\n" = true := by decide +kernel
example : idxPair (unlines exHs ++ unlines exSs4 ++ cs!"Raises:" ++ '\n' :: cs!"  ValueError: bad\n") = .ok (77, 100) := by
  have h := field_raises_split exHs exSs4 cs!"Raises:" cs!"  ValueError: bad\n" (by decide +kernel)
  have e1 : (unlines exHs).length = 77 := by decide +kernel
  have e2 : (unlines exHs ++ unlines exSs4).length - 1 = 100 := by decide +kernel
  rw [e1, e2] at h; exact h

/-- ReST, **adjacent** footer and **unterminated** last line -/
example : adjacentDom exHs [cs!":param a: first"] cs!":param b: second" cs!"Notes directly after.\n" = true := by decide +kernel
example : unterminatedDom exHs [cs!":param a: first"] cs!":param b: second" = true := by decide +kernel

/-- ReST with only a return entry: no member of `TOKENS_SET` occurs as a word, `last = −1`, no footer -/
example : noTokenDom [cs!"Summary.", []] cs!":return: the result" cs!":rtype: ```int```\n\nNotes.\n" = true := by decide +kernel
example : idxPair cs!"Summary.\n\n:return: the result\n:rtype: ```int```\n\nNotes.\n" = .ok (10, -1) :=
  (field_no_token_split [cs!"Summary.", []] cs!":return: the result" cs!":rtype: ```int```\n\nNotes.\n" (by decide +kernel)).1

/-- NumPy: `Parameters` and `Returns` sections, prose after them -/
def exHsN : List Str := [cs!"Summary line.", [], cs!"Second paragraph", cs!"continues here.", []]
def exEsN : List Str := [cs!"Parameters", cs!"----------", cs!"a : int", cs!"    first", cs!"b : str", cs!"    second", []]
def exBodyN : Str := cs!"bool\n    the result\n\nNotes about usage.\n"
def exDocN : Str := cs!"Summary line.\n\nSecond paragraph\ncontinues here.\n\nParameters\n----------\na : int\n    first\nb : str\n    second\n\nReturns\n-------\nbool\n    the result\n\nNotes about usage.\n"
example : numpyDom exHsN exEsN cs!"Returns" cs!"-------" exBodyN = true := by decide +kernel
example : unlines exHsN ++ unlines exEsN ++ cs!"Returns" ++ '\n' :: (cs!"-------" ++ '\n' :: exBodyN) = exDocN := by decide +kernel
/-- instance of `numpy_no_colon_cut`: start = 49 = |header|, last = 126 = (start of `bool`) + 1 — the footer slice is
    `"ool\n    the result\n\nNotes about usage.\n"` -/
example : idxPair exDocN = .ok (49, 126) := by
  have h := numpy_no_colon_cut exHsN exEsN cs!"Returns" cs!"-------" exBodyN (by decide +kernel) (by decide +kernel)
  have e : unlines exHsN ++ unlines exEsN ++ cs!"Returns" ++ '\n' :: (cs!"-------" ++ '\n' :: exBodyN) = exDocN := by decide +kernel
  have e1 : (unlines exHsN).length = 49 := by decide +kernel
  have e2 : numpyBodyStart exHsN exEsN cs!"Returns" cs!"-------" + 1 = 126 := by decide +kernel
  rw [e, e1, e2] at h; exact h
example : idxPair exDocN = .ok (49, 126) := idxPair_of_F _ _ (by decide +kernel)
example : (rawParts exDocN 49 126).2.2 = some cs!"ool\n    the result\n\nNotes about usage.\n" := by decide +kernel
/-- NumPy with a `Parameters` section only (the body has colons: `numpy_split` applies, the loop's answer is evaluated) -/
example : numpyDom exHsN [] cs!"Parameters" cs!"----------" cs!"a : int\n    first\nb : str\n    second\n\nNotes about usage.\n" = true := by
  decide +kernel
example : idxPair cs!"Summary line.\n\nSecond paragraph\ncontinues here.\n\nParameters\n----------\na : int\n    first\nb : str\n    second\n\nNotes about usage.\n"
    = .ok (49, 98) := idxPair_of_F _ _ (by decide +kernel)

/-! ## which clauses are essential — witnesses evaluated on the model (`idxPairF`, proved equal to `idxPair`), each
replayed on the real `_get_token_start_idx` / `_get_token_last_idx`, which return the same pair -/

/-- **header lines must not start with a token word**: `Parameters given here …` (a sentence, not a heading) is taken as
    the start of the section — start = 10, inside the 48-character header -/
theorem header_token_word_needed :
    headerLineOk cs!"Parameters given here are forwarded." = false
    ∧ (unlines [cs!"Summary.", [], cs!"Parameters given here are forwarded.", []]).length = 48
    ∧ idxPair cs!"Summary.\n\nParameters given here are forwarded.\n\n:param a: first\n:return: r\n\nNotes.\n" = .ok (10, 74) :=
  ⟨by decide +kernel, by decide +kernel, idxPair_of_F _ _ (by decide +kernel)⟩

/-- the same with `Returns the value …` -/
theorem header_returns_word_needed :
    headerLineOk cs!"Returns the value quickly." = false
    ∧ idxPair cs!"Summary.\n\nReturns the value quickly.\n\n:param a: first\n:return: r\n\nNotes.\n" = .ok (10, 64) :=
  ⟨by decide +kernel, idxPair_of_F _ _ (by decide +kernel)⟩

/-- the header clause is sufficient, not necessary: a header line that is exactly `Parameters` (followed by prose, not by
    dashes) is rejected by `headerLineOk`, yet the split is where it should be (51 = |header|) -/
theorem header_exact_keyword_line_harmless :
    headerLineOk cs!"Parameters" = false
    ∧ (unlines [cs!"Summary.", [], cs!"Parameters", cs!"are described in the manual.", []]).length = 51
    ∧ idxPair cs!"Summary.\n\nParameters\nare described in the manual.\n\n:param a: first\n:return: r\n\nNotes.\n" = .ok (51, 77) :=
  ⟨by decide +kernel, by decide +kernel, idxPair_of_F _ _ (by decide +kernel)⟩

/-- **the footer must be quiet**: a footer sentence with the word `:param` moves the last token into the footer; the
    footer slice becomes empty (last = 58 = the length of the docstring instead of 36) -/
theorem footer_quiet_needed :
    quiet none [] (cs!":return: r" ++ cs!"\n\nSee :param a above.\n") = false
    ∧ idxPair cs!"Summary.\n\n:param a: first\n:return: r\n\nSee :param a above.\n" = .ok (10, 58) :=
  ⟨by decide +kernel, idxPair_of_F _ _ (by decide +kernel)⟩

/-- **the first section line must start with a token**: otherwise `_get_token_start_idx` finds nothing (−1, header `None`) -/
theorem section_start_needed :
    fieldStart cs!"see :param a: first" = false
    ∧ idxPair cs!"Summary.\n\nsee :param a: first\n\nNotes.\n" = .ok (-1, 38) :=
  ⟨by decide +kernel, idxPair_of_F _ _ (by decide +kernel)⟩

/-- **the first section line must be terminated by a newline**: instance of `field_single_line_split` — the header is not
    split off (start = −1); on the real code `ensure_doc_args_whence_original("Other.\n\n:param a: the thing, reworded\n",
    this)` returns `":param a: the thing, reworded\n"`: both header paragraphs of the original are lost -/
theorem single_line_witness :
    singleLineDom [cs!"Summary.", [], cs!"More prose here.", []] cs!":param a: the thing" = true
    ∧ idxPair cs!"Summary.\n\nMore prose here.\n\n:param a: the thing" = .ok (-1, 47) :=
  ⟨by decide +kernel, idxPair_of_F _ _ (by decide +kernel)⟩

/-- **`L` must not be `Raises:`** (adjacent / absorbed): instance of `raises_only_not_partition` — a realistic Google
    docstring with only a `Raises:` section has start = 10 > last = 9 -/
theorem raises_only_witness :
    raisesDom [cs!"Summary.", []] [] cs!"Raises:" cs!"  ValueError: bad\n" = true
    ∧ idxPair cs!"Summary.\n\nRaises:\n  ValueError: bad\n" = .ok (10, 9)
    ∧ ¬ Partitions cs!"Summary.\n\nRaises:\n  ValueError: bad\n" 10 9 :=
  ⟨by decide +kernel, idxPair_of_F _ _ (by decide +kernel), not_partitions_of_gt _ _ _ (by decide +kernel) (by decide +kernel) (by decide +kernel)⟩

/-- the raw string of `Properties/C15.lean` (`"\n\nRaises:\n"`, start = 2 > last = 1) is the smallest member of that family -/
theorem raises_min_witness :
    raisesDom [[], []] [] cs!"Raises:" [] = true ∧ idxPair cs!"\n\nRaises:\n" = .ok (2, 1) :=
  ⟨by decide +kernel, idxPair_of_F _ _ (by decide +kernel)⟩

/-- in-domain but worth knowing (compact ReST): a `:rtype:` line directly after `:return:` is **in the footer slice** -/
theorem rtype_lands_in_footer :
    compactDom [cs!"Summary.", []] [cs!":param a: first"] cs!":type a: int" cs!":return: r" cs!"\n:rtype: int\n\nNotes.\n" = true
    ∧ idxPair cs!"Summary.\n\n:param a: first\n:type a: int\n:return: r\n:rtype: int\n\nNotes.\n" = .ok (10, 49)
    ∧ (rawParts cs!"Summary.\n\n:param a: first\n:type a: int\n:return: r\n:rtype: int\n\nNotes.\n" 10 49).2.2
        = some cs!"\n:rtype: int\n\nNotes.\n" :=
  ⟨by decide +kernel, idxPair_of_F _ _ (by decide +kernel), by decide +kernel⟩

/-- NumPy: **the body must be quiet** — a body line `Returns nothing else.` is a token word for `_last_doc_str_token`;
    the footer slice becomes empty (last = 149 = the length) -/
theorem numpy_body_quiet_needed :
    quiet none [] cs!"bool\n    the result\n\nReturns nothing else.\n" = false
    ∧ idxPair cs!"Summary line.\n\nSecond paragraph\ncontinues here.\n\nParameters\n----------\na : int\n    first\n\nReturns\n-------\nbool\n    the result\n\nReturns nothing else.\n"
        = .ok (49, 149) :=
  ⟨by decide +kernel, idxPair_of_F _ _ (by decide +kernel)⟩

/-- NumPy, indented (instance of `numpy_indented_split`, and by evaluation): the header slice is exact (15); the footer
    slice is the last line without its indentation — here empty (last = 119 = the length) -/
theorem numpy_indented_instance :
    numpyIndDom [[], cs!"    Summary.", []] [cs!"    Parameters", cs!"    ----------", cs!"    a : int", cs!"        first", []]
      cs!"    Returns" cs!"    -------" cs!"    bool\n        r\n    " = true
    ∧ idxPair cs!"\n    Summary.\n\n    Parameters\n    ----------\n    a : int\n        first\n\n    Returns\n    -------\n    bool\n        r\n    "
        = .ok (15, 119) :=
  ⟨by decide +kernel, idxPair_of_F _ _ (by decide +kernel)⟩

/-- NumPy: **the underline must be at least as long as the heading** -/
theorem numpy_underline_needed :
    idxPair cs!"Summary line.\n\nSecond paragraph\ncontinues here.\n\nReturns\n---\nbool\n    the result\n" = .ok (49, 81) :=
  idxPair_of_F _ _ (by decide +kernel)

/-- NumPy, in-domain: a header sentence mentioning `:param` makes `derive_docstring_format` answer ReST, and the split is
    the same as without it (`numpy_split` does not depend on the format) -/
theorem numpy_format_irrelevant :
    numpyDom [cs!"Summary line.", [], cs!"The role :param is used elsewhere.", []] [cs!"Parameters", cs!"----------", cs!"a : int", cs!"    first", []]
      cs!"Returns" cs!"-------" cs!"bool\n    the result\n\nNotes about usage.\n" = true
    ∧ idxPair cs!"Summary line.\n\nThe role :param is used elsewhere.\n\nParameters\n----------\na : int\n    first\n\nReturns\n-------\nbool\n    the result\n\nNotes about usage.\n"
        = .ok (51, 109) :=
  ⟨by decide +kernel, idxPair_of_F _ _ (by decide +kernel)⟩

end C15Struct
