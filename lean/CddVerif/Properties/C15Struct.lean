import CddVerif.Proofs.DocSplitStructField
import CddVerif.Properties.C15
/-!
# C15 — where the split falls, for structured docstrings of unbounded size
-/
namespace C15Struct
open Py DocUtils DocSplit DSS C15

/-- `cs!"abc"` = `['a','b','c']` (character-list literal, evaluates under `decide`) -/
local macro:max "cs!" s:str : term => do
  let cs := s.getString.toList
  let elems := cs.map (fun c => Lean.Syntax.mkCharLit c)
  `(([$(elems.toArray),*] : List Char))

/-! ## the domain (decidable clauses; definitions in `Proofs/DocSplitStructField.lean`) -/

/-- what all field-list shapes share: header lines `hs`, section lines `ss ++ [L]` -/
def fieldCommon (hs ss : List Str) (L : Str) : Bool :=
  hs.all headerLineOk && ss.all lineOk && fieldStart ((ss ++ [L]).headD []) && tokLine L

/-- **compact** field list: the last-token line `L` is directly followed by one more line `T` that starts with a token
    (`:return: …`), and after `T` comes nothing or a newline and text in which the walker finds no token -/
def compactDom (hs ss : List Str) (L T footer : Str) : Bool :=
  fieldCommon hs ss L && lineOk T && startsWithAny tokensSet T && (footer.isEmpty || footer.head? == some '\n')
    && quiet none [] (T ++ footer)

theorem field_compact_split (hs ss : List Str) (L T footer : Str) (h : compactDom hs ss L T footer = true) :
    idxPair (unlines hs ++ (unlines ss ++ L ++ '\n' :: T) ++ footer)
      = .ok (((unlines hs).length : Int), (((unlines hs).length + (unlines ss ++ L ++ '\n' :: T).length : Nat) : Int)) := by
  simp only [compactDom, fieldCommon, Bool.and_eq_true, Bool.or_eq_true, beq_iff_eq, List.isEmpty_iff] at h
  obtain ⟨⟨⟨⟨⟨⟨⟨hh, hss⟩, hF⟩, hL⟩, hT⟩, hTtok⟩, hfoot⟩, hq⟩ := h
  obtain ⟨hstart, hfmt, lf, hlf, hlo, hhi⟩ := field_frame hs ss L (T ++ footer) hh hss hF hL hq
  have hLok : '\n' ∉ L := by simp only [tokLine, Bool.and_eq_true] at hL; exact lineOk_sound L hL.1
  have hd : unlines hs ++ (unlines ss ++ L ++ '\n' :: T) ++ footer = unlines (hs ++ ss) ++ L ++ '\n' :: (T ++ footer) := by
    simp [unlines_append]
  rw [hd]
  have hlast := last_compact (unlines (hs ++ ss)) L T footer lf hlf hlo hhi hLok (lineOk_sound T hT) hTtok hfoot hfmt
  rw [idxPair_of _ _ _ hstart hlast]
  congr 3
  simp only [unlines_append, List.length_append, List.length_cons]; omega

/-- `L` is the Google `Raises:` heading (treated specially by `_get_token_last_idx_if_no_next_token`) -/
def isRaises (L : Str) : Bool := lstrip L == "Raises:".toList

theorem lineVerdict_none (n : Nat) (L : Str) (h : isRaises L = false) : lineVerdict n L = none := by
  unfold lineVerdict; unfold isRaises at h; rw [h]; rfl

theorem lineVerdict_raises (n : Nat) (L : Str) (h : isRaises L = true) : lineVerdict n L = some ((n : Int) - 1) := by
  unfold lineVerdict; unfold isRaises at h; rw [h]; rfl

theorem tokLine_lineOk (L : Str) (h : tokLine L = true) : '\n' ∉ L := by
  simp only [tokLine, Bool.and_eq_true] at h; exact lineOk_sound L h.1

/-- **adjacent** field list: the section ends with the newline of the last-token line `L`; the footer is empty or starts
    with a non-blank character that does not begin a token, and the walker finds no token in it -/
def adjacentDom (hs ss : List Str) (L footer : Str) : Bool :=
  fieldCommon hs ss L && !isRaises L && decide (2 ≤ (unlines (hs ++ ss)).length)
    && (match footer with | [] => true | c :: _ => !isSpaceC c) && !startsWithAny tokensSet footer && quiet none [] footer

theorem field_adjacent_split (hs ss : List Str) (L footer : Str) (h : adjacentDom hs ss L footer = true) :
    idxPair (unlines hs ++ (unlines ss ++ L ++ ['\n']) ++ footer)
      = .ok (((unlines hs).length : Int), (((unlines hs).length + (unlines ss ++ L ++ ['\n']).length : Nat) : Int)) := by
  simp only [adjacentDom, fieldCommon, Bool.and_eq_true, Bool.not_eq_true', decide_eq_true_eq] at h
  obtain ⟨⟨⟨⟨⟨⟨⟨⟨hh, hss⟩, hF⟩, hL⟩, hR⟩, h2⟩, hfs⟩, hnt⟩, hq⟩ := h
  obtain ⟨hstart, hfmt, lf, hlf, hlo, hhi⟩ := field_frame hs ss L footer hh hss hF hL hq
  have hd : unlines hs ++ (unlines ss ++ L ++ ['\n']) ++ footer = unlines (hs ++ ss) ++ L ++ '\n' :: footer := by
    simp [unlines_append]
  rw [hd]
  obtain ⟨p, hp, hpe⟩ := unlines_snoc (hs ++ ss) h2
  have hpost : footer = [] ∨ ∃ c cs, footer = c :: cs ∧ isSpaceC c = false := by
    cases footer with
    | nil => exact Or.inl rfl
    | cons c cs => exact Or.inr ⟨c, cs, rfl, by simpa using hfs⟩
  rw [hpe] at hlf hlo hhi hfmt hstart ⊢
  have hlast := last_adjacent p L footer lf hlf hlo hhi hp (tokLine_lineOk L hL) hpost hnt (tokLine_not_dashes L hL) hfmt
  rw [lineVerdict_none _ _ hR] at hlast
  rw [idxPair_of _ _ _ hstart hlast]
  have hlen : (p ++ ['\n']).length = (unlines hs).length + (unlines ss).length := by
    rw [← hpe, unlines_append, List.length_append]
  congr 3
  simp only [Option.getD_none, List.length_append, List.length_cons, List.length_nil] at hlen ⊢; omega

/-- **absorbed** field list (the usual layout of this code base's ReST docstrings, and of every Google docstring): the
    last-token line `L` is followed by white space — a blank line or an indented line — and then by anything in which the
    walker finds no token -/
def absorbedDom (hs ss : List Str) (L post : Str) : Bool :=
  fieldCommon hs ss L && !isRaises L && decide (2 ≤ (unlines (hs ++ ss)).length)
    && (match post with | [] => false | c :: _ => isSpaceC c) && quiet none [] post

theorem lstrip_length (Z : Str) : (lstrip Z).length = Z.length - leadingWs Z := by
  rw [← drop_leadingWs, List.length_drop]

/-- what `_get_token_last_idx` returns in the absorbed shape, in terms of the whole string -/
theorem absorbed_last (d A : Str) (hd : d = A ++ '\n' :: lastLine d) (v : Option Int) :
    (if startsWithAny tokensSet (lstrip (lastLine d)) then (d.length : Int)
      else v.getD ((A.length + 1 + leadingWs (lastLine d) : Nat) : Int))
    = if startsWithAny tokensSet (lstrip (lastLine d)) then (d.length : Int)
      else v.getD (((d.length - (absorbedFooter d).length : Nat)) : Int) := by
  by_cases ht : startsWithAny tokensSet (lstrip (lastLine d)) = true
  · simp only [ht, if_true]
  · simp only [ht, Bool.false_eq_true, if_false, absorbedFooter]
    have h1 := congrArg List.length hd
    have h2 := lstrip_length (lastLine d)
    have h3 := leadingWs_le (lastLine d)
    simp only [List.length_append, List.length_cons] at h1
    congr 3
    omega

theorem field_absorbed_split (hs ss : List Str) (L post : Str) (h : absorbedDom hs ss L post = true) :
    idxPair (unlines hs ++ unlines ss ++ L ++ '\n' :: post)
      = .ok (((unlines hs).length : Int),
             (((unlines hs ++ unlines ss ++ L ++ '\n' :: post).length
                - (absorbedFooter (unlines hs ++ unlines ss ++ L ++ '\n' :: post)).length : Nat) : Int)) := by
  simp only [absorbedDom, fieldCommon, Bool.and_eq_true, Bool.not_eq_true', decide_eq_true_eq] at h
  obtain ⟨⟨⟨⟨⟨⟨⟨hh, hss⟩, hF⟩, hL⟩, hR⟩, h2⟩, hws⟩, hq⟩ := h
  obtain ⟨hstart, hfmt, lf, hlf, hlo, hhi⟩ := field_frame hs ss L post hh hss hF hL hq
  have hd : unlines hs ++ unlines ss ++ L ++ '\n' :: post = unlines (hs ++ ss) ++ L ++ '\n' :: post := by
    simp [unlines_append]
  rw [hd]
  generalize hdd : unlines (hs ++ ss) ++ L ++ '\n' :: post = d at *
  obtain ⟨p, hp, hpe⟩ := unlines_snoc (hs ++ ss) h2
  have hpost : ∃ w ws, post = w :: ws ∧ isSpaceC w = true := by
    cases post with
    | nil => cases hws
    | cons c cs => exact ⟨c, cs, rfl, hws⟩
  obtain ⟨A, hA⟩ := lastLine_decomp d (by rw [← hdd]; simp)
  rw [hpe] at hlo hhi hdd
  have hlast := last_absorbed d p L post A (lastLine d) lf hdd.symm hA hlf hlo hhi hp (tokLine_lineOk L hL)
    (lastLine_noNl d) hpost (tokLine_not_dashes L hL) hfmt
  rw [lineVerdict_none _ _ hR, absorbed_last d A hA] at hlast
  rw [idxPair_of _ _ _ hstart hlast]
  congr 2
  by_cases ht : startsWithAny tokensSet (lstrip (lastLine d)) = true
  · simp [ht, absorbedFooter]
  · simp [ht]

/-- … as three pieces: header, *some* section, and the footer `absorbedFooter d` = the last line of the whole string
    without its indentation (empty if the string ends with a newline, or if that line starts with a token) -/
theorem field_absorbed_pieces (hs ss : List Str) (L post : Str) (h : absorbedDom hs ss L post = true) :
    ∃ sec, unlines hs ++ unlines ss ++ L ++ '\n' :: post
             = unlines hs ++ sec ++ absorbedFooter (unlines hs ++ unlines ss ++ L ++ '\n' :: post)
      ∧ idxPair (unlines hs ++ sec ++ absorbedFooter (unlines hs ++ unlines ss ++ L ++ '\n' :: post))
          = .ok (((unlines hs).length : Int), (((unlines hs).length + sec.length : Nat) : Int)) := by
  have hidx := field_absorbed_split hs ss L post h
  generalize hdd : unlines hs ++ unlines ss ++ L ++ '\n' :: post = d at *
  have hnl : '\n' ∈ d := by rw [← hdd]; simp
  have hle : (absorbedFooter d).length ≤ post.length := by
    have h1 := absorbedFooter_le d
    have h2 := lastLine_le (unlines hs ++ unlines ss ++ L) post
    rw [hdd] at h2; omega
  have hpre : unlines hs <+: d := ⟨unlines ss ++ L ++ '\n' :: post, by rw [← hdd]; simp⟩
  have hlen : (unlines hs).length + (absorbedFooter d).length ≤ d.length := by
    rw [← hdd] at hle ⊢; simp only [List.length_append, List.length_cons] at hle ⊢; omega
  obtain ⟨sec, hsec⟩ := split3 d (unlines hs) (absorbedFooter d) hpre (absorbedFooter_suffix d hnl) hlen
  refine ⟨sec, hsec, ?_⟩
  rw [← hsec, hidx]
  congr 3
  have := congrArg List.length hsec
  simp only [List.length_append] at this; omega

/-- in particular, when the docstring ends with a newline **the footer slice is empty**: everything after the header,
    blank-line-separated prose included, is in the section slice -/
theorem field_absorbed_nl (hs ss : List Str) (L post : Str) (h : absorbedDom hs ss L (post ++ ['\n']) = true) :
    idxPair (unlines hs ++ unlines ss ++ L ++ '\n' :: (post ++ ['\n']))
      = .ok (((unlines hs).length : Int), ((unlines hs ++ unlines ss ++ L ++ '\n' :: (post ++ ['\n'])).length : Int)) := by
  rw [field_absorbed_split hs ss L _ h]
  have : unlines hs ++ unlines ss ++ L ++ '\n' :: (post ++ ['\n']) = (unlines hs ++ unlines ss ++ L ++ '\n' :: post) ++ ['\n'] := by simp
  have hf : absorbedFooter (unlines hs ++ unlines ss ++ L ++ '\n' :: (post ++ ['\n'])) = [] := by
    rw [this]; unfold absorbedFooter; rw [lastLine_append_nl]; rfl
  rw [hf]; simp

/-- **unterminated** field list: the last-token line `L` is the last line of the docstring, has no newline after it, and
    starts (after indentation) with a token; at least one section line precedes it -/
def unterminatedDom (hs ss : List Str) (L : Str) : Bool :=
  hs.all headerLineOk && ss.all lineOk && !ss.isEmpty && fieldStart (ss.headD []) && lineOk L
    && (lastEv none [] L .none == .plain) && startsWithAny tokensSet (lstrip L) && decide (2 ≤ (unlines (hs ++ ss)).length)

theorem field_unterminated_split (hs ss : List Str) (L : Str) (h : unterminatedDom hs ss L = true) :
    idxPair (unlines hs ++ (unlines ss ++ L) ++ [])
      = .ok (((unlines hs).length : Int), (((unlines hs).length + (unlines ss ++ L).length : Nat) : Int)) := by
  simp only [unterminatedDom, Bool.and_eq_true, Bool.not_eq_true', decide_eq_true_eq, beq_iff_eq] at h
  obtain ⟨⟨⟨⟨⟨⟨⟨hh, hss⟩, hne⟩, hF⟩, hLok⟩, hL⟩, htok⟩, h2⟩ := h
  have hne' : ss ≠ [] := by intro e; rw [e] at hne; cases hne
  obtain ⟨hstart, hfmt, lf, hlf, hlo, hhi⟩ := field_frame_unterminated hs ss L hh hss hF hne' hL
  have hd : unlines hs ++ (unlines ss ++ L) ++ [] = unlines (hs ++ ss) ++ L := by simp [unlines_append]
  rw [hd]
  obtain ⟨p, hp, hpe⟩ := unlines_snoc (hs ++ ss) h2
  rw [hpe] at hlf hlo hhi hfmt hstart ⊢
  have hlast := last_unterminated p L lf hlf hlo hhi hp (lineOk_sound L hLok) (tokStart_not_dashes L htok) hfmt
  simp only [htok, if_true] at hlast
  rw [idxPair_of _ _ _ hstart hlast]
  have hlen : (p ++ ['\n']).length = (unlines hs).length + (unlines ss).length := by
    rw [← hpe, unlines_append, List.length_append]
  congr 3
  simp only [List.length_append, List.length_cons, List.length_nil] at hlen ⊢; omega

/-! ## the Google `Raises:` heading as the last token -/

/-- the text after a `Raises:` line for which `_get_token_last_idx` reaches `_get_token_last_idx_if_no_next_token` -/
def raisesPostOk (d post : Str) : Bool :=
  match post with
  | [] => true
  | c :: _ => if isSpaceC c then !startsWithAny tokensSet (lstrip (lastLine d)) else !startsWithAny tokensSet post

/-- the last token is the heading `Raises:` (line `L`), nothing token-like follows -/
def raisesDom (hs ss : List Str) (L post : Str) : Bool :=
  fieldCommon hs ss L && isRaises L && decide (2 ≤ (unlines (hs ++ ss)).length) && quiet none [] post
    && raisesPostOk (unlines hs ++ unlines ss ++ L ++ '\n' :: post) post

/-- **`Raises:` short-circuit**: the split point is the newline *before* the `Raises:` line — the heading and everything
    after it is footer -/
theorem field_raises_split (hs ss : List Str) (L post : Str) (h : raisesDom hs ss L post = true) :
    idxPair (unlines hs ++ unlines ss ++ L ++ '\n' :: post)
      = .ok (((unlines hs).length : Int), (((unlines hs ++ unlines ss).length - 1 : Nat) : Int)) := by
  simp only [raisesDom, fieldCommon, Bool.and_eq_true, decide_eq_true_eq] at h
  obtain ⟨⟨⟨⟨⟨⟨⟨hh, hss⟩, hF⟩, hL⟩, hR⟩, h2⟩, hq⟩, hpo⟩ := h
  obtain ⟨hstart, hfmt, lf, hlf, hlo, hhi⟩ := field_frame hs ss L post hh hss hF hL hq
  have hd : unlines hs ++ unlines ss ++ L ++ '\n' :: post = unlines (hs ++ ss) ++ L ++ '\n' :: post := by
    simp [unlines_append]
  rw [hd] at hpo ⊢
  obtain ⟨p, hp, hpe⟩ := unlines_snoc (hs ++ ss) h2
  have hlen : (unlines hs ++ unlines ss).length = (p ++ ['\n']).length := by rw [← hpe, unlines_append]
  have hres : (((p ++ ['\n']).length : Nat) : Int) - 1 = (((unlines hs ++ unlines ss).length - 1 : Nat) : Int) := by
    rw [hlen]; simp only [List.length_append, List.length_singleton]; omega
  rw [hpe] at hlf hlo hhi hfmt hstart hpo ⊢
  cases hpost : post with
  | nil =>
    subst hpost
    have hlast := last_adjacent p L [] lf hlf hlo hhi hp (tokLine_lineOk L hL) (Or.inl rfl) rfl (tokLine_not_dashes L hL) hfmt
    rw [lineVerdict_raises _ _ hR, Option.getD_some, hres] at hlast
    exact idxPair_of _ _ _ hstart hlast
  | cons c cs =>
    subst hpost
    simp only [raisesPostOk] at hpo
    by_cases hc : isSpaceC c = true
    · simp only [hc, if_true, Bool.not_eq_true'] at hpo
      generalize hdd : p ++ ['\n'] ++ L ++ '\n' :: c :: cs = d at *
      obtain ⟨A, hA⟩ := lastLine_decomp d (by rw [← hdd]; simp)
      have hlast := last_absorbed d p L (c :: cs) A (lastLine d) lf hdd.symm hA hlf hlo hhi hp (tokLine_lineOk L hL)
        (lastLine_noNl d) ⟨c, cs, rfl, hc⟩ (tokLine_not_dashes L hL) hfmt
      rw [lineVerdict_raises _ _ hR, Option.getD_some, hres] at hlast
      simp only [hpo, Bool.false_eq_true, if_false] at hlast
      exact idxPair_of _ _ _ hstart hlast
    · have hc' : isSpaceC c = false := by simpa using hc
      simp only [hc', Bool.false_eq_true, if_false, Bool.not_eq_true'] at hpo
      have hlast := last_adjacent p L (c :: cs) lf hlf hlo hhi hp (tokLine_lineOk L hL) (Or.inr ⟨c, cs, rfl, hc'⟩) hpo
        (tokLine_not_dashes L hL) hfmt
      rw [lineVerdict_raises _ _ hR, Option.getD_some, hres] at hlast
      exact idxPair_of _ _ _ hstart hlast

/-- … as three pieces when another section line precedes the heading: the section is those lines without their last
    newline, the footer starts with that newline -/
theorem field_raises_pieces (hs ss : List Str) (L post : Str) (h : raisesDom hs ss L post = true) (hne : ss ≠ []) :
    ∃ sec, unlines ss = sec ++ ['\n'] ∧
      idxPair (unlines hs ++ sec ++ ('\n' :: (L ++ '\n' :: post)))
        = .ok (((unlines hs).length : Int), (((unlines hs).length + sec.length : Nat) : Int)) := by
  have hidx := field_raises_split hs ss L post h
  obtain ⟨sec, hsec⟩ : ∃ sec, unlines ss = sec ++ ['\n'] := by
    rcases List.eq_nil_or_concat ss with h0 | ⟨ss', l, h0⟩
    · exact absurd h0 hne
    · subst h0
      exact ⟨unlines ss' ++ l, by rw [List.concat_eq_append, unlines_append, unlines_cons, unlines_nil]; simp⟩
  refine ⟨sec, hsec, ?_⟩
  have hd : unlines hs ++ sec ++ ('\n' :: (L ++ '\n' :: post)) = unlines hs ++ unlines ss ++ L ++ '\n' :: post := by
    rw [hsec]; simp
  rw [hd, hidx]
  congr 3
  rw [List.length_append, hsec]; simp

/-! ## consequences of an exact split `idxPair (h ++ s ++ f) = (|h|, |h| + |s|)` -/

/-- the indices are ordered (the hypothesis of `C15.split_partial`, discharged) -/
theorem exact_ordered (h s f : Str)
    (hidx : idxPair (h ++ s ++ f) = .ok ((h.length : Int), ((h.length + s.length : Nat) : Int)))
    (a b : Int) (hab : idxPair (h ++ s ++ f) = .ok (a, b)) : 0 ≤ a ∧ a ≤ b := by
  rw [hidx] at hab
  injection hab with hab
  simp only [Prod.mk.injEq] at hab
  omega

/-- the three parts are the three pieces, byte for byte -/
theorem exact_parts (h s f : Str)
    (hidx : idxPair (h ++ s ++ f) = .ok ((h.length : Int), ((h.length + s.length : Nat) : Int)))
    (a b : Int) (hab : idxPair (h ++ s ++ f) = .ok (a, b)) : rawParts (h ++ s ++ f) a b = (some h, s, some f) := by
  rw [hidx] at hab
  injection hab with hab
  simp only [Prod.mk.injEq] at hab
  rw [← hab.1, ← hab.2]; exact rawParts_exact h s f

/-- the split is a partition — `C15.C15_split_full` on this docstring, with no ordering hypothesis -/
theorem exact_partitions (h s f : Str)
    (hidx : idxPair (h ++ s ++ f) = .ok ((h.length : Int), ((h.length + s.length : Nat) : Int)))
    (a b : Int) (hab : idxPair (h ++ s ++ f) = .ok (a, b)) : Partitions (h ++ s ++ f) a b := by
  unfold Partitions
  rw [exact_parts h s f hidx a b hab]; rfl

/-- conversion (`ensure_doc_args_whence_original` with this docstring as the original) returns the original itself or
    `header ++ (something) ++ footer`: every header line, in order, before the new section; every footer line after it -/
theorem exact_whence (h s f : Str) (hne : h ++ s ++ f ≠ [])
    (hidx : idxPair (h ++ s ++ f) = .ok ((h.length : Int), ((h.length + s.length : Nat) : Int)))
    (cur r : Str) (hw : whence cur (h ++ s ++ f) = .ok r) : r = h ++ s ++ f ∨ ∃ mid, r = h ++ mid ++ f :=
  whence_sandwich cur h s f r hne hidx hw

/-! ## `start > last` -/

/-- slice algebra, the other direction: with `0 ≤ last < start ≤ |d|` header and footer overlap and the three slices do
    **not** concatenate to the original -/
theorem not_partitions_of_gt (d : Str) (s l : Int) (h0 : 0 ≤ l) (hlt : l < s) (hs : s ≤ d.length) : ¬ Partitions d s l := by
  unfold Partitions rawParts
  have h1 : (s > -1) = True := by simp; omega
  have h2 : (l > -1) = True := by simp; omega
  have h3 : (l != -1) = true := by simp; omega
  simp only [h1, h2, h3, if_true, Option.getD_some]
  rw [slice_to d s (by omega), slice_mid d s l (by omega) h0, slice_from d l h0]
  intro h
  have := congrArg List.length h
  simp only [List.length_append, List.length_take, List.length_drop] at this
  omega

/-- **every docstring whose only section heading is `Raises:` violates the partition**: the walkers return
    `start = |header|`, `last = |header| - 1`; the newline before `Raises:` is in the header slice *and* in the footer slice -/
theorem raises_only_not_partition (hs : List Str) (L post : Str) (h : raisesDom hs [] L post = true) :
    ∃ s l, idxPair (unlines hs ++ L ++ '\n' :: post) = .ok (s, l) ∧ l < s
      ∧ ¬ Partitions (unlines hs ++ L ++ '\n' :: post) s l := by
  have hidx := field_raises_split hs [] L post h
  simp only [raisesDom, Bool.and_eq_true, decide_eq_true_eq] at h
  have h2 : 2 ≤ (unlines hs).length := by have := h.1.1.2; simpa using this
  simp only [unlines_nil, List.append_nil] at hidx
  refine ⟨_, _, hidx, by omega, ?_⟩
  apply not_partitions_of_gt _ _ _ (by omega) (by omega)
  simp only [List.length_append]; omega

/-! ## the domain as one predicate, and `C15.C15_split_full` on it -/

/-- the structured field-list docstrings covered by the theorems above (ReST and Google; any number of header lines,
    section lines and footer lines, lines of any length) -/
inductive Structured : Str → Prop
  | compact (hs ss : List Str) (L T footer : Str) (h : compactDom hs ss L T footer = true) :
      Structured (unlines hs ++ (unlines ss ++ L ++ '\n' :: T) ++ footer)
  | adjacent (hs ss : List Str) (L footer : Str) (h : adjacentDom hs ss L footer = true) :
      Structured (unlines hs ++ (unlines ss ++ L ++ ['\n']) ++ footer)
  | absorbed (hs ss : List Str) (L post : Str) (h : absorbedDom hs ss L post = true) :
      Structured (unlines hs ++ unlines ss ++ L ++ '\n' :: post)
  | unterminated (hs ss : List Str) (L : Str) (h : unterminatedDom hs ss L = true) :
      Structured (unlines hs ++ (unlines ss ++ L) ++ [])
  | raises (hs ss : List Str) (L post : Str) (h : raisesDom hs ss L post = true) (hne : ss ≠ []) :
      Structured (unlines hs ++ unlines ss ++ L ++ '\n' :: post)

/-- **`C15.C15_split_full` restricted to the domain is a theorem** — no ordering hypothesis: on every structured
    docstring the walkers' indices are ordered and the three slices concatenate to the original. -/
theorem C15_split_structured (d : Str) (s l : Int) (hd : Structured d) (h : idxPair d = .ok (s, l)) :
    0 ≤ s ∧ s ≤ l ∧ Partitions d s l := by
  cases hd with
  | compact hs ss L T footer hdom =>
    have hidx := field_compact_split hs ss L T footer hdom
    exact ⟨(exact_ordered _ _ _ hidx s l h).1, (exact_ordered _ _ _ hidx s l h).2, exact_partitions _ _ _ hidx s l h⟩
  | adjacent hs ss L footer hdom =>
    have hidx := field_adjacent_split hs ss L footer hdom
    exact ⟨(exact_ordered _ _ _ hidx s l h).1, (exact_ordered _ _ _ hidx s l h).2, exact_partitions _ _ _ hidx s l h⟩
  | absorbed hs ss L post hdom =>
    obtain ⟨sec, hsec, hidx⟩ := field_absorbed_pieces hs ss L post hdom
    rw [hsec] at h ⊢
    exact ⟨(exact_ordered _ _ _ hidx s l h).1, (exact_ordered _ _ _ hidx s l h).2, exact_partitions _ _ _ hidx s l h⟩
  | unterminated hs ss L hdom =>
    have hidx := field_unterminated_split hs ss L hdom
    exact ⟨(exact_ordered _ _ _ hidx s l h).1, (exact_ordered _ _ _ hidx s l h).2, exact_partitions _ _ _ hidx s l h⟩
  | raises hs ss L post hdom hne =>
    obtain ⟨sec, hsec, hidx⟩ := field_raises_pieces hs ss L post hdom hne
    have hd : unlines hs ++ unlines ss ++ L ++ '\n' :: post = unlines hs ++ sec ++ ('\n' :: (L ++ '\n' :: post)) := by
      rw [hsec]; simp
    rw [hd] at h ⊢
    exact ⟨(exact_ordered _ _ _ hidx s l h).1, (exact_ordered _ _ _ hidx s l h).2, exact_partitions _ _ _ hidx s l h⟩

/-- `idx_ordered`: on the domain `start ≤ last` -/
theorem idx_ordered (d : Str) (s l : Int) (hd : Structured d) (h : idxPair d = .ok (s, l)) : s ≤ l :=
  (C15_split_structured d s l hd h).2.1

/-! ## non-vacuity: concrete docstrings -/

/-- a two-paragraph header -/
def exHs : List Str := [cs!"Summary line.", [], cs!"Second paragraph", cs!"continues here, mentions :param in passing.", []]

/-- ReST, compact: two parameters with types (a blank line between them), a return line, a footer -/
def exSs : List Str := [cs!":param a: first", cs!":type a: ```int```", [], cs!":param b: second"]
def exL : Str := cs!":type b: ```str```"
def exT : Str := cs!":return: the result"
def exFooter : Str := cs!"\n\nNotes about usage.\nMore notes.\n"
def exDoc : Str := cs!"Summary line.\n\nSecond paragraph\ncontinues here, mentions :param in passing.\n\n:param a: first\n:type a: ```int```\n\n:param b: second\n:type b: ```str```\n:return: the result\n\nNotes about usage.\nMore notes.\n"

/-- the hypotheses hold … -/
example : compactDom exHs exSs exL exT exFooter = true := by decide +kernel
example : unlines exHs ++ (unlines exSs ++ exL ++ '\n' :: exT) ++ exFooter = exDoc := by decide +kernel
/-- … hence (instance of `field_compact_split`, not an evaluation) the split is at 77 = |header| and 168 = |header| + |section| -/
example : idxPair exDoc = .ok (77, 168) := by
  have h := field_compact_split exHs exSs exL exT exFooter (by decide +kernel)
  have e : unlines exHs ++ (unlines exSs ++ exL ++ '\n' :: exT) ++ exFooter = exDoc := by decide +kernel
  have e1 : (unlines exHs).length = 77 := by decide +kernel
  have e2 : (unlines exSs ++ exL ++ '\n' :: exT).length = 91 := by decide +kernel
  rw [e, e1, e2] at h; exact h
/-- the same pair by evaluating the model (through the twin `idxPairF`, proved equal to `idxPair`) -/
example : idxPair exDoc = .ok (77, 168) := idxPair_of_F _ _ (by decide +kernel)
/-- and the parts are the pieces -/
example : rawParts exDoc 77 168 = (some (unlines exHs), unlines exSs ++ exL ++ '\n' :: exT, some exFooter) := by decide +kernel

/-- ReST in the layout this code base emits (blank line before `:return:`; **absorbed**): the footer slice is empty -/
def exPost2 : Str := cs!"\n:return: the result\n:rtype: ```bool```\n\nNotes about usage.\n"
example : absorbedDom exHs exSs exL exPost2 = true := by decide +kernel
example : idxPair (unlines exHs ++ unlines exSs ++ exL ++ '\n' :: exPost2) = .ok (77, 209)
    ∧ (unlines exHs ++ unlines exSs ++ exL ++ '\n' :: exPost2).length = 209 := by
  refine ⟨?_, by decide +kernel⟩
  have h := field_absorbed_nl exHs exSs exL cs!"\n:return: the result\n:rtype: ```bool```\n\nNotes about usage." (by decide +kernel)
  have e1 : (unlines exHs).length = 77 := by decide +kernel
  have e2 : (unlines exHs ++ unlines exSs ++ exL ++ '\n' :: (cs!"\n:return: the result\n:rtype: ```bool```\n\nNotes about usage." ++ ['\n'])).length = 209 := by decide +kernel
  rw [e1, e2] at h; exact h

/-- Google (**absorbed**, the docstring does not end in a newline): the footer slice is the last line without its indentation -/
def exSs3 : List Str := [cs!"Args:", cs!"  a (int): first", cs!"  b (str): second", []]
def exPost3 : Str := cs!"  bool: the result\n\nNotes about usage.\n  last line"
example : absorbedDom exHs exSs3 cs!"Returns:" exPost3 = true := by decide +kernel
set_option maxRecDepth 10000 in
example : idxPair (unlines exHs ++ unlines exSs3 ++ cs!"Returns:" ++ '\n' :: exPost3) = .ok (77, 169)
    ∧ absorbedFooter (unlines exHs ++ unlines exSs3 ++ cs!"Returns:" ++ '\n' :: exPost3) = cs!"last line" := by
  refine ⟨?_, by decide +kernel⟩
  have h := field_absorbed_split exHs exSs3 cs!"Returns:" exPost3 (by decide +kernel)
  have e1 : (unlines exHs).length = 77 := by decide +kernel
  have e2 : (unlines exHs ++ unlines exSs3 ++ cs!"Returns:" ++ '\n' :: exPost3).length
      - (absorbedFooter (unlines exHs ++ unlines exSs3 ++ cs!"Returns:" ++ '\n' :: exPost3)).length = 169 := by decide +kernel
  rw [e1, e2] at h; exact h

/-- Google with a `Raises:` section after `Args:`: the footer starts at the newline before `Raises:` -/
def exSs4 : List Str := [cs!"Args:", cs!"  a (int): first", []]
example : raisesDom exHs exSs4 cs!"Raises:" cs!"  ValueError: bad\n" = true := by decide +kernel
example : idxPair (unlines exHs ++ unlines exSs4 ++ cs!"Raises:" ++ '\n' :: cs!"  ValueError: bad\n") = .ok (77, 100) := by
  have h := field_raises_split exHs exSs4 cs!"Raises:" cs!"  ValueError: bad\n" (by decide +kernel)
  have e1 : (unlines exHs).length = 77 := by decide +kernel
  have e2 : (unlines exHs ++ unlines exSs4).length - 1 = 100 := by decide +kernel
  rw [e1, e2] at h; exact h

/-- ReST, **adjacent** footer and **unterminated** last line -/
example : adjacentDom exHs [cs!":param a: first"] cs!":param b: second" cs!"Notes directly after.\n" = true := by decide +kernel
example : unterminatedDom exHs [cs!":param a: first"] cs!":param b: second" = true := by decide +kernel

/-! ## which clauses are essential — witnesses evaluated on the model (`idxPairF`, proved equal to `idxPair`), each
replayed on the real `_get_token_start_idx` / `_get_token_last_idx`, which return the same pair -/

/-- **header lines must not start with a token word**: `Parameters given here …` (a sentence, not a heading) is taken as
    the start of the section — start = 10, inside the 48-character header -/
theorem header_token_word_needed :
    headerLineOk cs!"Parameters given here are forwarded." = false
    ∧ (unlines [cs!"Summary.", [], cs!"Parameters given here are forwarded.", []]).length = 48
    ∧ idxPair cs!"Summary.\n\nParameters given here are forwarded.\n\n:param a: first\n:return: r\n\nNotes.\n" = .ok (10, 74) :=
  ⟨by decide +kernel, by decide +kernel, idxPair_of_F _ _ (by decide +kernel)⟩

/-- the same with `Returns the value …` -/
theorem header_returns_word_needed :
    headerLineOk cs!"Returns the value quickly." = false
    ∧ idxPair cs!"Summary.\n\nReturns the value quickly.\n\n:param a: first\n:return: r\n\nNotes.\n" = .ok (10, 64) :=
  ⟨by decide +kernel, idxPair_of_F _ _ (by decide +kernel)⟩

/-- the header clause is sufficient, not necessary: a header line that is exactly `Parameters` (followed by prose, not by
    dashes) is rejected by `headerLineOk`, yet the split is where it should be (51 = |header|) -/
theorem header_exact_keyword_line_harmless :
    headerLineOk cs!"Parameters" = false
    ∧ (unlines [cs!"Summary.", [], cs!"Parameters", cs!"are described in the manual.", []]).length = 51
    ∧ idxPair cs!"Summary.\n\nParameters\nare described in the manual.\n\n:param a: first\n:return: r\n\nNotes.\n" = .ok (51, 77) :=
  ⟨by decide +kernel, by decide +kernel, idxPair_of_F _ _ (by decide +kernel)⟩

/-- **the footer must be quiet**: a footer sentence with the word `:param` moves the last token into the footer; the
    footer slice becomes empty (last = 58 = the length of the docstring instead of 36) -/
theorem footer_quiet_needed :
    quiet none [] (cs!":return: r" ++ cs!"\n\nSee :param a above.\n") = false
    ∧ idxPair cs!"Summary.\n\n:param a: first\n:return: r\n\nSee :param a above.\n" = .ok (10, 58) :=
  ⟨by decide +kernel, idxPair_of_F _ _ (by decide +kernel)⟩

/-- **the first section line must start with a token**: otherwise `_get_token_start_idx` finds nothing (−1, header `None`) -/
theorem section_start_needed :
    fieldStart cs!"see :param a: first" = false
    ∧ idxPair cs!"Summary.\n\nsee :param a: first\n\nNotes.\n" = .ok (-1, 38) :=
  ⟨by decide +kernel, idxPair_of_F _ _ (by decide +kernel)⟩

/-- **`L` must not be `Raises:`** (adjacent / absorbed): instance of `raises_only_not_partition` — a realistic Google
    docstring with only a `Raises:` section has start = 10 > last = 9 -/
theorem raises_only_witness :
    raisesDom [cs!"Summary.", []] [] cs!"Raises:" cs!"  ValueError: bad\n" = true
    ∧ idxPair cs!"Summary.\n\nRaises:\n  ValueError: bad\n" = .ok (10, 9)
    ∧ ¬ Partitions cs!"Summary.\n\nRaises:\n  ValueError: bad\n" 10 9 :=
  ⟨by decide +kernel, idxPair_of_F _ _ (by decide +kernel), not_partitions_of_gt _ _ _ (by decide +kernel) (by decide +kernel) (by decide +kernel)⟩

/-- the raw string of `Properties/C15.lean` (`"\n\nRaises:\n"`, start = 2 > last = 1) is the smallest member of that family -/
theorem raises_min_witness :
    raisesDom [[], []] [] cs!"Raises:" [] = true ∧ idxPair cs!"\n\nRaises:\n" = .ok (2, 1) :=
  ⟨by decide +kernel, idxPair_of_F _ _ (by decide +kernel)⟩

/-- in-domain but worth knowing (compact ReST): a `:rtype:` line directly after `:return:` is **in the footer slice** -/
theorem rtype_lands_in_footer :
    compactDom [cs!"Summary.", []] [cs!":param a: first"] cs!":type a: int" cs!":return: r" cs!"\n:rtype: int\n\nNotes.\n" = true
    ∧ idxPair cs!"Summary.\n\n:param a: first\n:type a: int\n:return: r\n:rtype: int\n\nNotes.\n" = .ok (10, 49)
    ∧ (rawParts cs!"Summary.\n\n:param a: first\n:type a: int\n:return: r\n:rtype: int\n\nNotes.\n" 10 49).2.2
        = some cs!"\n:rtype: int\n\nNotes.\n" :=
  ⟨by decide +kernel, idxPair_of_F _ _ (by decide +kernel), by decide +kernel⟩

end C15Struct
