import CddVerif.Proofs.DocSplitStructField
import CddVerif.Properties.C15
/-!
# C15 — where the split falls, for structured docstrings of unbounded size
-/
namespace C15Struct
open Py DocUtils DocSplit DSS C15

/-- `cs!"abc"` = `['a','b','c']` (character-list literal, evaluates under `decide`) -/
local macro:max "cs!" s:str : term => do
  let cs := s.getString.toList
  let elems := cs.map (fun c => Lean.Syntax.mkCharLit c)
  `(([$(elems.toArray),*] : List Char))

/-! ## the domain (decidable clauses; definitions in `Proofs/DocSplitStructField.lean`) -/

/-- what all field-list shapes share: header lines `hs`, section lines `ss ++ [L]` -/
def fieldCommon (hs ss : List Str) (L : Str) : Bool :=
  hs.all headerLineOk && ss.all lineOk && fieldStart ((ss ++ [L]).headD []) && tokLine L

/-- **compact** field list: the last-token line `L` is directly followed by one more line `T` that starts with a token
    (`:return: …`), and after `T` comes nothing or a newline and text in which the walker finds no token -/
def compactDom (hs ss : List Str) (L T footer : Str) : Bool :=
  fieldCommon hs ss L && lineOk T && startsWithAny tokensSet T && (footer.isEmpty || footer.head? == some '\n')
    && quiet none [] (T ++ footer)

theorem field_compact_split (hs ss : List Str) (L T footer : Str) (h : compactDom hs ss L T footer = true) :
    idxPair (unlines hs ++ (unlines ss ++ L ++ '\n' :: T) ++ footer)
      = .ok (((unlines hs).length : Int), (((unlines hs).length + (unlines ss ++ L ++ '\n' :: T).length : Nat) : Int)) := by
  simp only [compactDom, fieldCommon, Bool.and_eq_true, Bool.or_eq_true, beq_iff_eq, List.isEmpty_iff] at h
  obtain ⟨⟨⟨⟨⟨⟨⟨hh, hss⟩, hF⟩, hL⟩, hT⟩, hTtok⟩, hfoot⟩, hq⟩ := h
  obtain ⟨hstart, hfmt, lf, hlf, hlo, hhi⟩ := field_frame hs ss L (T ++ footer) hh hss hF hL hq
  have hLok : '\n' ∉ L := by simp only [tokLine, Bool.and_eq_true] at hL; exact lineOk_sound L hL.1
  have hd : unlines hs ++ (unlines ss ++ L ++ '\n' :: T) ++ footer = unlines (hs ++ ss) ++ L ++ '\n' :: (T ++ footer) := by
    simp [unlines_append]
  rw [hd]
  have hlast := last_compact (unlines (hs ++ ss)) L T footer lf hlf hlo hhi hLok (lineOk_sound T hT) hTtok hfoot hfmt
  rw [idxPair_of _ _ _ hstart hlast]
  congr 3
  simp only [unlines_append, List.length_append, List.length_cons]; omega

end C15Struct
