import CddVerif.Properties.ConstsTie.S0
import CddVerif.Properties.ConstsTie.S1
import CddVerif.Properties.ConstsTie.S2
import CddVerif.Properties.ConstsTie.S3
import CddVerif.Properties.ConstsTie.S4
import CddVerif.Properties.ConstsTie.S5
import CddVerif.Properties.ConstsTie.S6
import CddVerif.Properties.ConstsTie.S7
import CddVerif.Properties.ConstsTie.S8
import CddVerif.Properties.ConstsTie.S9
/-!
# Constants tie

The hand-written models copy module-level constants of the Python source (announce phrases, token tables, the
simple types and their zero values, `NoneStr`, keyword / operator tables, …).  `Gen/Consts.lean` is regenerated from
`/repo` on every run by `harness/translators/consts.py`; each theorem below says that one model constant **is** the
value read from the source (or states the exact relation where the model keeps a documented subset / another
order / an inline literal).  A change of such a constant in the source changes `Gen.Consts` and breaks the
corresponding theorem at once.

Naming: `<model>_<constant>_tie` — the model constant equals the source value; `…_perm_tie` — the source value is a
`frozenset`, the model a list: same elements (`List.Perm` with the sorted source set); `…_pinned` — the model has no
named constant (the value is an inline literal of a model function): the theorem evaluates the model function at the
generated value, or states which value the model's inline literals assume.

Every theorem is closed by evaluation (`decide` / `rfl`) over finite tables regenerated from the source.
-/
