import CddVerif.Model.Adhoc
import CddVerif.Proofs.Adhoc
import CddVerif.Gen.EvalSites
/-!
# C17 — analysing source never executes it or touches anything but the output

Two halves, as in DESIGN.md §4 C17.

* **Site table.** `Gen.EvalSites.sites` (REGENERATED from /repo on every run by `harness/translators/evalsites.py`)
  lists every reference in non-test code to an executing / importing / deserialising / process / network /
  file-system-changing API, with a syntactic kind and a digest that covers the call, its guards and one hop of
  data flow into its arguments (guards = enclosing `if` / conditional-expression tests with the arm taken and
  enclosing `try` / `except` clauses).  Project functions that hand one of their parameters to a dynamic import or
  to `eval` / `exec` / `compile` (`get_module`, `get_parser`, `get_emitter`, `sync_property`, …, found to a fixpoint
  over all non-test modules) are treated as primitives too: every call of such a wrapper is a site of its own
  (kinds 10–12), so a new call `get_module(<user-supplied string>)` stops the theorems until it is classified.
  `all_sites_safe`: each of them is literal-only evaluation, safe YAML, an import of a
  constant name, serialise-only — or one of the reviewed entries of `registry` (package-internal import built from a
  closed set of constants; the explicit opt-ins `--input-eval` / `--prepend` / the module named on the command line;
  a write to the named output; **the** doc-derived `eval(typ)` site).  A new or changed eval / exec / compile /
  dynamic import / write site, or any process / network / unpickling / unsafe-YAML / destructive site, makes the
  `decide` fail.
* **The doc-derived site.**  Its argument is the result of `parse_adhoc_doc_for_typ`, modelled by `Adhoc.adhoc`
  (Model/Adhoc.lean, tied to the real function by exact correspondence).  `eval_arg_safe`: for every doc, name and
  flag, every character of a returned type string is in `SafeAlphabet` — no parenthesis, underscore, `=`, `:` — hence
  no call syntax and no dunder name can reach `eval` (`no_call_syntax`, `no_dunder`, `eval_arg_excludes`).
  `tables_match` / `word_chars_match` tie the model's constant tables and character whitelist to the source text.

Not modelled (¬V): side effects of attribute access / `/` / `|` / subscription on the objects reachable from the globals of
`docstring_parsers`; CPython's `eval` itself.  These are watched at run time by the audit-hook oracle of `harness/props/c17.py`.
-/
namespace C17
open Adhoc Py

/-! ## 1. the site table -/

/-- reviewed classes of the sites that need a human reading -/
inductive Cls
  | constImport   -- import of a name built from a closed set of constants (package-internal `cdd.<kind>.<parse|emit>`)
  | optIn         -- explicitly requested on the command line: `--input-eval`, `--prepend`, the module named by the user
  | docEval       -- the single doc-derived `eval(typ)`; safe by `eval_arg_safe`
  | outputWrite   -- write / create of the explicitly named output file or directory
  | readOnly      -- `open(filename, mode)` helper whose every caller leaves the default read mode
  | finding       -- a reviewed site that DOES violate the property on the unchanged tree: recorded in known_findings.d/C17.txt,
                  -- its witness is replayed on the real code by every run (`findings_registered` lists them)
deriving DecidableEq, Repr

/-- digest → reviewed class (digests as printed in `Gen/EvalSites.lean`) -/
def registry : List (Nat × Cls × String) := [
  -- eval / exec / compile
  (904511295061205200,  .docEval,     "docstring_parsers.__set_name_and_type_handle_doc_in_param: eval(typ, globals(), locals()) with typ = parse_adhoc_doc_for_typ(doc, name, …), inside `if typ is not None` and `try … except (NameError, SyntaxError, TypeError)`"),
  (419226762936119557,  .optIn,       "sync_properties.sync_property: eval(compile(input_ast …)) under `if input_eval:` (--input-eval, named in the property statement)"),
  (703580218774042830,  .optIn,       "sync_properties.sync_property: the compile(...) inside the same --input-eval call"),
  (962966622568163445,  .optIn,       "gen.gen: eval(compile(<Import/ImportFrom statements of --prepend>)) under `imports_from_file is not None` and `if prepend:`"),
  (929435167248301750,  .optIn,       "gen.gen: the compile(...) inside the same --prepend call"),
  -- computed imports
  (397752379707587966,  .constImport, "emitter_utils.get_emitter: import_module('cdd.' + <emit kind> + '.emit'); first and last component constant"),
  (953062911183832741,  .constImport, "parser_utils.get_parser: import_module('cdd.' + <parse kind> + '.parse'); kind = CLI choice or a constant returned by infer()"),
  (199422300640176626,  .optIn,       "pure_utils.get_module(name): imports the module the user named (gen --input-mapping <module path> / --imports-from-file); not reached by gen-from-file"),
  -- calls of project wrappers around the dynamic imports / evals above (followed to a fixpoint by the translator)
  (236036088719371183,  .optIn,       "gen.gen: get_module(imports_from_file) — only in the else-arm of `imports_from_file if path.isfile(imports_from_file) else …`: a file is read, a module name is imported"),
  (77728237741621909,   .optIn,       "gen.gen: get_module(module_path) — only when --input-mapping is neither a file nor a directory (the module the user named)"),
  (861852664232573750,  .constImport, "gen.gen: get_input_mapping_from_path(emit_name, …) → get_parser(node, emit_name): package-internal cdd.<kind>.parse; the module file is found by find_spec and read, not imported"),
  (769071813748835556,  .constImport, "gen.gen: get_emitter(emit_name) — cdd.<kind>.emit"),
  (856843680685029960,  .constImport, "gen.gen: get_parser(node, parse_name) — cdd.<kind>.parse"),
  (962956112560632281,  .constImport, "gen.gen: gen_file(…, parse_name, emit_name, …) → gen_module → get_functions_and_classes → get_parser / get_emitter"),
  (124656298132792397,  .constImport, "gen_utils.gen_file: gen_module(…)"),
  (570205774772033572,  .constImport, "gen_utils.gen_module: get_functions_and_classes(…)"),
  (45487623017029547,   .constImport, "gen_utils.get_functions_and_classes: get_emitter(emit_name)"),
  (922219211655422391,  .constImport, "gen_utils.get_functions_and_classes: get_parser(obj, parse_name)"),
  (183982316921311690,  .constImport, "gen_utils.get_input_mapping_from_path: get_parser(node, emit_name)"),
  (594773850504973175,  .constImport, "exmod_utils.emit_files_from_module_and_return_imports: get_parser(node, 'infer')"),
  (1021481801790532794, .optIn,       "__main__.main: gen(**args_dict) — the CLI dispatch of `gen` (reaches get_module only as registered above)"),
  (964822969558659248,  .optIn,       "sync_properties.sync_properties: sync_property(input_eval, …) — evaluates only under --input-eval (registered above)"),
  (82060762181923770,   .optIn,       "__main__.main: sync_properties(**args_dict) — the CLI dispatch of `sync_properties`"),
  -- importlib.util.find_spec (for a dotted name it imports — executes — the parent package) and its wrappers
  (717301375868791504,  .optIn,       "pure_utils.find_module_filepath: find_spec(module_name) — resolves a module *named as a module* (gen module-path mode, exmod); see the call sites below"),
  (57459152152917581,   .optIn,       "pure_utils.filename_from_mod_or_filename: find_spec(x) only in the else-arm of `path.sep in x or path.isfile(x)`: an existing file or a path is never resolved as a module"),
  (582392089731177874,  .optIn,       "gen_routes.gen_routes: filename_from_mod_or_filename(model_path) — --model-path 'module resolution (foo.models) or filepath'"),
  (354139020848589896,  .optIn,       "gen_routes.upsert_routes: filename_from_mod_or_filename(routes_path) — --routes-path, same"),
  (35738991267558888,   .optIn,       "__main__.main: gen_routes(model_path=args.model_path, …) — CLI dispatch"),
  (450983474936800766,  .optIn,       "__main__.main: upsert_routes(routes_path=…) — CLI dispatch"),
  (336262508014380080,  .optIn,       "gen_utils.get_input_mapping_from_path: find_module_filepath(module_path, symbol_name) — gen with --input-mapping given as module.symbol"),
  (625200606312811208,  .optIn,       "ast_utils.module_to_all: find_module_filepath(x) only under `if not path.exists(x)` (exmod --extra-module names a module)"),
  (600645667346039456,  .optIn,       "exmod.exmod: module_to_all(extra_modules) — exmod imports the module it exposes by design (C20)"),
  (699074200077666725,  .optIn,       "exmod._create_sqlalchemy_mod: module_to_all(connection_filepath) — a file exmod has just written (path exists)"),
  (139870955335648787,  .optIn,       "exmod._create_sqlalchemy_mod: module_to_all(create_table_filepath) — a file exmod has just written (path exists)"),
  (1044307875414897759, .optIn,       "exmod.exmod: find_module_filepath(module_root | module_name) — the module named by --module"),
  (357265410385044479,  .optIn,       "exmod.exmod_single_folder: find_module_filepath(*import_from.module.rsplit('.', 1)) — names from the exposed module's own imports; exmod is outside C17's quantifier (it imports by design)"),
  (721765333062963298,  .optIn,       "exmod_utils.get_module_contents: find_module_filepath(module_name, submodule_name) — exmod"),
  (732627232642645829,  .optIn,       "exmod.exmod: partial(exmod, …) — recursion over the exposed hierarchy"),
  (905693075563380306,  .optIn,       "__main__.main: exmod(**args_dict) — CLI dispatch"),
  (983159277595413792,  .finding,     "sqlalchemy emit_utils.rewrite_fk: find_module_filepath(symbol_to_module[name], name) — the module of a `from pkg.mod import T` statement OF THE ANALYSED FILE goes to find_spec, which imports `pkg` (gen --phase 2): finding C17-gen-phase2-imports-parent-package"),
  (1056279844659529245, .finding,     "sqlalchemy emit_utils.update_fk_for_file: rewrite_fk(symbol_to_module, node) — the same chain"),
  -- writes
  (1140940052290356636, .outputWrite, "doctrans: open(filename, 'wt') — the file being converted, edited in place"),
  (541406605064532682,  .outputWrite, "emit/file.py file(node, filename, mode): open(filename, mode) — the named output; callers pass 'wt' / 'a'"),
  (418322271915770039,  .outputWrite, "gen_utils.gen_file: open(output_filename, 'a')"),
  (673751072389940486,  .outputWrite, "json_schema/emit.json_schema_file: open(output_filename, 'a')"),
  (686102089310364209,  .outputWrite, "openapi/gen_routes.upsert_routes: open(routes_path, 'a')"),
  (540398699463376571,  .outputWrite, "openapi/gen_routes.upsert_routes: open(routes_path, 'wt')"),
  (775946591886963852,  .outputWrite, "sqlalchemy emit_utils.update_with_imports_from_columns(filename): rewrites the named file (gen phase 1)"),
  (65272859556257107,   .outputWrite, "sqlalchemy emit_utils.update_fk_for_file(filename): rewrites the named file (gen phase 2)"),
  (863042068237517690,  .outputWrite, "exmod._create_sqlalchemy_mod: mkdir inside the named output directory (exmod; see C20)"),
  (524855338437415150,  .outputWrite, "exmod._add_imports_to_sqlalchemy_create_all: file inside the output directory"),
  (392252562814052105,  .outputWrite, "exmod._create_sqlalchemy_mod: connection.py inside the output directory"),
  (364489899482140741,  .outputWrite, "exmod._create_sqlalchemy_mod: create_tables.py inside the output directory"),
  (105337704061006607,  .outputWrite, "exmod._create_sqlalchemy_mod: __init__.py inside the output directory"),
  (479687535189375665,  .outputWrite, "exmod.exmod_single_folder: makedirs of the output package directory"),
  (368208767476176072,  .outputWrite, "exmod.exmod: makedirs(output_directory)"),
  (691948432045121313,  .outputWrite, "exmod_utils.emit_file_on_hierarchy: makedirs(mod_path) under the output directory"),
  (739362674218002309,  .outputWrite, "exmod_utils.emit_file_on_hierarchy: __init__.py under the output directory"),
  (223843302028595833,  .outputWrite, "exmod_utils.emit_file_on_hierarchy: makedirs(emit_filename_dir) under the output directory"),
  (996845300183789676,  .readOnly,    "pure_utils.read_file_to_str(filename, mode='rt'): both callers (exmod, exmod_utils) leave the default mode")]

def lookup (d : Nat) : Option Cls := (registry.find? (fun r => r.1 == d)).map (·.2.1)

/-- which reviewed classes a syntactic kind may be given -/
def allowed : Nat → Cls → Bool
  | 3, .constImport => true | 3, .optIn => true          -- import-dynamic
  | 4, .optIn => true | 4, .docEval => true              -- eval-exec
  | 6, .outputWrite => true                              -- fs-write
  | 7, .outputWrite => true | 7, .readOnly => true       -- fs-write with a non-constant mode
  | 10, .constImport => true | 10, .optIn => true        -- call of a project wrapper around a dynamic import
  | 10, .finding => true                                 --   … or a registered violation (known finding, replayed every run)
  | 11, .optIn => true                                   -- call of a project wrapper around eval / exec / compile
  | _, _ => false

/-- a site is safe when its kind is safe by syntax (0 literal-eval, 1 safe YAML, 2 constant import, 5 serialise-only) or when
    it is a registered, reviewed site of a class its kind admits; kinds 8 (destructive), 9 (unsafe) and 12 (call of a project
    wrapper around an unsafe primitive) are never safe -/
def siteSafe (s : Nat × Nat) : Bool :=
  s.2 == 0 || s.2 == 1 || s.2 == 2 || s.2 == 5 ||
  (match lookup s.1 with | some c => allowed s.2 c | none => false)

/-- **Table theorem:** every executing / importing / deserialising / process / network / writing site of the current
    non-test code is classified safe. -/
theorem all_sites_safe : Gen.EvalSites.sites.all siteSafe = true := by decide

/-- nothing registered has disappeared or changed (every registry entry is still a site of the table) -/
theorem registry_all_present :
    registry.all (fun r => Gen.EvalSites.sites.any (fun s => s.1 == r.1)) = true := by decide

/-- there is exactly one doc-derived evaluation site, and no other `eval`/`exec`/`compile` outside the three opt-in calls -/
theorem doc_eval_unique :
    (Gen.EvalSites.sites.filter (fun s => lookup s.1 == some .docEval)).length = 1 ∧
    (Gen.EvalSites.sites.filter (fun s => s.2 == 4)).length = 5 := by decide

/-- **Negative part, kept visible:** exactly these two registered sites (one call chain) violate the property on the unchanged
    tree — a module name read from the analysed file's own `from pkg.mod import T` reaches `importlib.util.find_spec`, which imports
    `pkg`.  The concrete witness is replayed on the real code by every run (known finding C17-gen-phase2-imports-parent-package). -/
theorem findings_registered :
    (registry.filter (fun r => r.2.1 == Cls.finding)).map (·.1) = [983159277595413792, 1056279844659529245] := by decide

/-- no site of the table is a process / network / unpickling / unsafe-YAML / destructive one -/
theorem no_unsafe_sites : Gen.EvalSites.sites.all (fun s => s.2 != 8 && s.2 != 9 && s.2 != 12) = true := by decide

/-! ## 2. the argument of the doc-derived `eval` -/

/-- `SafeAlphabet` spelled out -/
def SafeAlphabet (c : Char) : Prop :=
  isAsciiLetter c = true ∨ isAsciiDigit c = true ∨ c ∈ ['`', '\'', '"', '/', '|', '.', ',', ';', '[', ']'] ∨ isSpaceC c = true

theorem safeC_iff (c : Char) : safeC c = true ↔ SafeAlphabet c := by
  simp only [safeC, wordChar, sepChar, SafeAlphabet, Bool.or_eq_true, beq_iff_eq, List.mem_cons, List.not_mem_nil, or_false]
  grind

/-- **`eval_arg_safe` (full):** for every doc, name and flag, every character of a type string returned by
    `parse_adhoc_doc_for_typ` — the string handed to `eval` — is in `SafeAlphabet`. -/
theorem eval_arg_safe (doc name : CStr) (b : Bool) (t : CStr) (h : adhocStr doc name b = .ok (some t)) :
    ∀ c ∈ t, SafeAlphabet c := by
  intro c hc
  rw [← safeC_iff]
  unfold adhocStr at h
  split at h
  · rename_i r _
    cases r with
    | none => simp at h
    | some s =>
      simp only [Option.map_some, Except.ok.injEq, Option.some.injEq] at h
      subst h
      simp only [v, List.mem_map] at hc
      obtain ⟨sc, _, rfl⟩ := hc
      exact sc.property
  · simp at h

/-- the alphabet has no call syntax, no underscore, no assignment / lambda / walrus / slice colon, no braces (f-string
    fields, dict/set displays), no backslash, no operators other than `/ | .` and subscription -/
theorem safe_excludes :
    safeC '(' = false ∧ safeC ')' = false ∧ safeC '_' = false ∧ safeC ':' = false ∧ safeC '=' = false ∧
    safeC '{' = false ∧ safeC '}' = false ∧ safeC '\\' = false ∧ safeC '@' = false ∧ safeC '*' = false ∧
    safeC '+' = false ∧ safeC '-' = false ∧ safeC '%' = false ∧ safeC '<' = false ∧ safeC '>' = false ∧
    safeC '!' = false ∧ safeC '~' = false ∧ safeC '^' = false ∧ safeC '&' = false ∧ safeC '#' = false ∧ safeC '$' = false := by decide

/-- characters that cannot occur in the evaluated expression -/
theorem eval_arg_excludes (doc name : CStr) (b : Bool) (t : CStr) (h : adhocStr doc name b = .ok (some t))
    (c : Char) (hc : safeC c = false) : c ∉ t := by
  intro hm
  have := (safeC_iff c).mpr (eval_arg_safe doc name b t h c hm)
  simp [hc] at this

/-- **Corollary (no call syntax):** the evaluated expression contains neither `(` nor `)`. -/
theorem no_call_syntax (doc name : CStr) (b : Bool) (t : CStr) (h : adhocStr doc name b = .ok (some t)) :
    '(' ∉ t ∧ ')' ∉ t :=
  ⟨eval_arg_excludes doc name b t h '(' (by decide), eval_arg_excludes doc name b t h ')' (by decide)⟩

/-- **Corollary (no dunder name):** the evaluated expression contains no underscore at all, in particular no `__`;
    nor `=` (assignment expression, keyword argument) nor `:` (lambda, walrus, slice). -/
theorem no_dunder (doc name : CStr) (b : Bool) (t : CStr) (h : adhocStr doc name b = .ok (some t)) :
    '_' ∉ t ∧ containsSub t ['_', '_'] = false ∧ '=' ∉ t ∧ ':' ∉ t := by
  have hu := eval_arg_excludes doc name b t h '_' (by decide)
  exact ⟨hu, not_contains_of_not_mem t '_' ['_'] hu, eval_arg_excludes doc name b t h '=' (by decide),
         eval_arg_excludes doc name b t h ':' (by decide)⟩

/-- the constants of the model lose nothing by being stored in the safe-by-type representation -/
theorem constants_lossless : constantsLossless = true := by decide

/-- **Tie to the source text:** the model's tables are the tables of `parse_utils.py` / `pure_utils.py` (regenerated). -/
theorem tables_match :
    Gen.EvalSites.adhocTypeToType = adhocTypeToType ∧ Gen.EvalSites.tuple3ToType = tuple3ToType ∧
    Gen.EvalSites.tuple3ToCollection = tuple3ToCollection ∧ Gen.EvalSites.typeToName = typeToName ∧
    Gen.EvalSites.simpleTypes = simpleTypes ∧ Gen.EvalSites.kwlist = kwlist := by decide

/-- **Tie to the source text:** the model's `wordChar` is exactly the code's `word_chars` string (regenerated): every
    character of the string passes `wordChar`, and every character that passes `wordChar` (necessarily ASCII) is in it. -/
theorem word_chars_match :
    Gen.EvalSites.wordChars.all wordChar = true ∧
    (List.range 128).all (fun n => !wordChar (Char.ofNat n) || Gen.EvalSites.wordChars.contains (Char.ofNat n)) = true := by
  decide

/-- the same tie as a statement about every character: `wordChar c ↔ c ∈ word_chars` -/
theorem word_chars_exact (c : Char) : wordChar c = true ↔ c ∈ Gen.EvalSites.wordChars := by
  constructor
  · intro h
    have hlt := wordChar_ascii c h
    have h2 := word_chars_match.2
    rw [List.all_eq_true] at h2
    have h3 := h2 c.toNat (List.mem_range.mpr hlt)
    simpa [Char.ofNat_toNat, h] using h3
  · intro h
    exact List.all_eq_true.mp word_chars_match.1 c h

/-! ## 3. non-vacuity: the hypothesis `adhocStr … = .ok (some t)` is satisfiable, on adversarial inputs -/

/-- "List of `os.system` or `open('x')`. …": the parentheses of the call are dropped before the string reaches `eval` -/
example : adhocStr (c!"List of `os.system` or `open('x')`. Defaults to 5") (c!"a") false
    = .ok (some (c!"List[Union[os.system, open'x']]")) := by decide
/-- a dunder call chain in backticks loses its underscores and parentheses: what reaches `eval` is not a call -/
example : adhocStr (c!"`__import__('os').system('id')` or None") (c!"a") false
    = .ok (some (c!"import'os'.system'id'")) := by decide
example : adhocStr (c!"one of `os.system('id')` or `exit()`") (c!"a") false = .ok (some (c!"os.system'id'")) := by decide
/-- a dunder attribute chain is cut at the first underscore -/
example : adhocStr (c!"x or y.__class__.__bases__") (c!"a") false = .ok (some (c!"Union[x, y]")) := by decide
/-- ordinary descriptions -/
example : adhocStr (c!"one of 'a', 'b' or 'c'") (c!"mode") true = .ok (some (c!"Union[one, 'a', 'b']")) := by decide
example : adhocStr (c!"Dictionary of str or int") (c!"d") false = .ok (some (c!"Mapping[str]")) := by decide
example : adhocStr (c!"called at exit") (c!"cb") true = .ok (some (c!"Optional[collections.abc.Callable]")) := by decide
/-- the empty description gives nothing to evaluate -/
example : adhocStr [] (c!"a") false = .ok none := by decide

end C17
